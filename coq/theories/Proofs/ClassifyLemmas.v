(* C02, classification clauses: WHICH malformed command line gives WHICH error (strict mode).
   Everything is stated over the model of DefaultArgsParser in Model/Parser.v; f' is the augmented
   format the parser works on (aug_format f = Ok (f', arguments, command_names)).

   Plan of the file
     0. token shapes
     1. one iteration of the token loop as a function (step), "the loop gets as far as ..." (reach),
        "the loop processes all of pre" (scans); the first failing iteration decides the strict result
     2. clause 1  unknown option            -> NoSuchOption
     3. clause 2  value given to a flag     -> CannotParse
     4. clause 3  required value left out   -> CannotParse
        facts about the augmented format (its arguments), invariant of the scratch arguments
     5. clause 5  too many positionals      -> CannotParse  (in the loop / after re-alignment / option-free lines)
     6. clause 4  required argument missing -> CannotParse
     7. clause 6  value does not convert    -> ValueError
     8. lenient counterparts
     9. the options of the augmented format are the listed options of the format; clauses 1-3 restated
        with hypotheses on the option list of f
    10. error kinds / lenient totality / clause 6 under opts_ok_w, which formats with multi-valued
        options satisfy (opts_ok excludes them); observations
   Every clause theorem has an Example that instantiates all its hypotheses on the concrete formats
   ex_f / ex_g / ex_h (non-vacuity). *)
From Coq Require Import Lia String Ascii.
From Clikit Require Import Base.Prelude Base.Res Model.Conv Model.Flags Model.Format Model.Parser
     Proofs.StrLemmas Proofs.FlagsLemmas Proofs.FormatLemmas Proofs.ParserLemmas.

(* ================= 0. token shapes ================= *)
Definition long_tok (body : str) : str := DASH :: DASH :: body.     (* "--" ++ body *)
Definition short_tok (body : str) : str := DASH :: body.            (* "-" ++ body *)
(* a non-empty token that starts with "-": never taken as the value of an option *)
Definition dashy (tok : str) : bool := nonempty tok && starts_dash tok.
Definition no_eq (s : str) : bool := forallb (fun c => negb (N.eqb c EQ)) s.

Lemma split_eq_found n v : forall acc, no_eq n = true -> split_eq (n ++ EQ :: v) acc = Some (rev acc ++ n, v).
Proof.
  induction n as [|c r IH]; intros acc Hn; cbn [app split_eq].
  - rewrite N.eqb_refl, app_nil_r. reflexivity.
  - cbn [no_eq forallb] in Hn. apply andb_prop in Hn as [Hc Hr].
    destruct (N.eqb c EQ); [discriminate|]. rewrite (IH (c :: acc) Hr). cbn [rev]. rewrite <- app_assoc. reflexivity.
Qed.
Lemma split_eq_none n : forall acc, no_eq n = true -> split_eq n acc = None.
Proof.
  induction n as [|c r IH]; intros acc Hn; cbn [split_eq]; [reflexivity|].
  cbn [no_eq forallb] in Hn. apply andb_prop in Hn as [Hc Hr].
  destruct (N.eqb c EQ); [discriminate|]. apply IH, Hr.
Qed.

(* ================= 1. the token loop, one iteration at a time ================= *)
(* the look-ahead of _add_long_option and what it stores, as separate functions *)
Definition look (acc : bool) (v : option str) (t : list str) : option str * list str :=
  match v, acc, t with
  | None, true, nxt :: rest =>
      if nonempty nxt && negb (starts_dash nxt) then (Some nxt, rest)
      else if negb (nonempty nxt) then (Some [], rest)
      else (None, t)
  | _, _, _ => (v, t)
  end.
Definition store (st : pstate) (name : str) (o : opt) (value : option str) (tokens : list str)
  : res (pstate * list str) :=
  match (match value with Some [] => None | v => v end) with
  | None =>
      if o_required o then Err CannotParse
      else if o_multi o then Err (Other 2)
      else
        let v := if o_optional o then ODefault (o_default o) else OTrue in
        Ok ({| ps_args := ps_args st; ps_opts := sset name v (ps_opts st) |}, tokens)
  | Some s =>
      if o_multi o then
        let l := match sget name (ps_opts st) with Some (OList l) => l | _ => [] end in
        Ok ({| ps_args := ps_args st; ps_opts := sset name (OList (l ++ [s])) (ps_opts st) |}, tokens)
      else Ok ({| ps_args := ps_args st; ps_opts := sset name (OStr s) (ps_opts st) |}, tokens)
  end.

Lemma add_long_eq f st n v t :
  add_long_option f st n v t =
  if negb (has_option f n true) then Err NoSuchOption else
  do o <- get_option f n true;
  if (match v with Some _ => negb (o_accepts o) | None => false end) then Err CannotParse else
  store st n o (fst (look (o_accepts o) v t)) (snd (look (o_accepts o) v t)).
Proof.
  unfold add_long_option, store, look.
  destruct (negb (has_option f n true)); [reflexivity|].
  destruct (get_option f n true) as [o|k]; cbn [bind]; [|reflexivity].
  destruct v as [s|]; [destruct (negb (o_accepts o)); reflexivity|].
  destruct (o_accepts o); [|reflexivity].
  destruct t as [|nxt rest]; [reflexivity|].
  destruct (nonempty nxt && negb (starts_dash nxt)); [reflexivity|].
  destruct (negb (nonempty nxt)); reflexivity.
Qed.

Lemma look_suffix acc v t : exists c, t = c ++ snd (look acc v t).
Proof.
  unfold look. destruct v as [s|]; [exists []; reflexivity|].
  destruct acc; [|exists []; reflexivity].
  destruct t as [|nxt rest]; [exists []; reflexivity|].
  destruct (nonempty nxt && negb (starts_dash nxt)); [exists [nxt]; reflexivity|].
  destruct (negb (nonempty nxt)); [exists [nxt]; reflexivity|exists []; reflexivity].
Qed.
(* a dashy token put behind the remaining tokens does not change the look-ahead *)
Lemma look_app acc v t tok r :
  (v <> None \/ t <> [] \/ dashy tok = true) ->
  look acc v (t ++ tok :: r) = (fst (look acc v t), snd (look acc v t) ++ tok :: r).
Proof.
  intros Hc. unfold look. destruct v as [s|]; [reflexivity|].
  destruct acc; [|reflexivity].
  destruct t as [|nxt rest]; cbn [app].
  - destruct Hc as [Hc|[Hc|Hc]]; [congruence|congruence|].
    unfold dashy in Hc. apply andb_prop in Hc as [H1 H2]. rewrite H1, H2. reflexivity.
  - destruct (nonempty nxt && negb (starts_dash nxt)); [reflexivity|].
    destruct (negb (nonempty nxt)); reflexivity.
Qed.
Lemma store_tokens st n o v t :
  store st n o v t = match store st n o v [] with Ok (st', _) => Ok (st', t) | Err k => Err k end.
Proof.
  unfold store. destruct (match v with Some [] => None | x => x end) as [s|].
  - destruct (o_multi o); reflexivity.
  - destruct (o_required o); [reflexivity|]. destruct (o_multi o); reflexivity.
Qed.
Lemma store_ok_tokens st n o v t st' t' : store st n o v t = Ok (st', t') -> t' = t.
Proof. rewrite store_tokens. destruct (store st n o v []) as [[s x]|k]; intros H; inversion H; reflexivity. Qed.
Lemma store_app st n o v t st' x : store st n o v t = Ok (st', t) -> store st n o v (t ++ x) = Ok (st', t ++ x).
Proof.
  rewrite (store_tokens st n o v t), (store_tokens st n o v (t ++ x)).
  destruct (store st n o v []) as [[s y]|k]; intros H; inversion H; reflexivity.
Qed.

Lemma add_long_suffix f st n v t st' t' : add_long_option f st n v t = Ok (st', t') -> exists c, t = c ++ t'.
Proof.
  rewrite add_long_eq. destruct (negb (has_option f n true)); [discriminate|].
  destruct (get_option f n true) as [o|k]; cbn [bind]; [|discriminate].
  destruct (match v with Some _ => negb (o_accepts o) | None => false end); [discriminate|].
  intros H. apply store_ok_tokens in H. subst t'. apply look_suffix.
Qed.
Lemma add_long_app f st n v t st' t' tok r :
  add_long_option f st n v t = Ok (st', t') -> (v <> None \/ t <> [] \/ dashy tok = true) ->
  add_long_option f st n v (t ++ tok :: r) = Ok (st', t' ++ tok :: r).
Proof.
  rewrite !add_long_eq. destruct (negb (has_option f n true)); [discriminate|].
  destruct (get_option f n true) as [o|k]; cbn [bind]; [|discriminate].
  destruct (match v with Some _ => negb (o_accepts o) | None => false end); [discriminate|].
  intros H Hc. rewrite (look_app _ _ _ _ _ Hc). cbn [fst snd].
  pose proof (store_ok_tokens _ _ _ _ _ _ _ H) as Ht. subst t'. apply store_app. exact H.
Qed.

Lemma take_value_suffix t : exists c, t = c ++ snd (take_value t).
Proof.
  destruct t as [|v r]; cbn [take_value]; [exists []; reflexivity|].
  destruct (nonempty v && starts_dash v); [exists []; reflexivity|exists [v]; reflexivity].
Qed.
Lemma take_value_app t tok r : (t <> [] \/ dashy tok = true) ->
  take_value (t ++ tok :: r) = (fst (take_value t), snd (take_value t) ++ tok :: r).
Proof.
  intros Hc. destruct t as [|v rest]; cbn [app take_value].
  - destruct Hc as [Hc|Hc]; [congruence|]. unfold dashy in Hc. rewrite Hc. reflexivity.
  - destruct (nonempty v && starts_dash v); reflexivity.
Qed.
(* what take_value leaves for the look-ahead of _add_long_option *)
Lemma take_value_cond t tok : (t <> [] \/ dashy tok = true) ->
  fst (take_value t) <> None \/ snd (take_value t) <> [] \/ dashy tok = true.
Proof.
  intros Hc. destruct t as [|v rest]; cbn [take_value].
  - destruct Hc as [Hc|Hc]; [congruence|auto].
  - destruct (nonempty v && starts_dash v); cbn [fst snd]; [right; left; discriminate|left; discriminate].
Qed.

Lemma app_suffix_trans {X} (t c1 t1 c2 t2 : list X) : t = c1 ++ t1 -> t1 = c2 ++ t2 -> exists c, t = c ++ t2.
Proof. intros -> ->. exists (c1 ++ c2). now rewrite app_assoc. Qed.

Lemma parse_long_suffix f st tk t st' t' : parse_long_option f st tk t = Ok (st', t') -> exists c, t = c ++ t'.
Proof.
  unfold parse_long_option. destruct (split_eq (skipn 2 tk) []) as [[n v]|]; [apply add_long_suffix|].
  destruct (accepts f (skipn 2 tk)); [|apply add_long_suffix].
  destruct (take_value_suffix t) as [c1 H1]. destruct (take_value t) as [v t2]. cbn [snd] in H1.
  intros H. apply add_long_suffix in H as [c2 H2]. eapply app_suffix_trans; eauto.
Qed.
Lemma parse_long_app f st tk t st' t' tok r :
  parse_long_option f st tk t = Ok (st', t') -> (t <> [] \/ dashy tok = true) ->
  parse_long_option f st tk (t ++ tok :: r) = Ok (st', t' ++ tok :: r).
Proof.
  unfold parse_long_option. intros H Hc.
  destruct (split_eq (skipn 2 tk) []) as [[n v]|].
  { apply add_long_app; [exact H|left; discriminate]. }
  destruct (accepts f (skipn 2 tk)).
  - rewrite (take_value_app _ _ _ Hc). pose proof (take_value_cond _ _ Hc) as Hc2.
    destruct (take_value t) as [v t2]. cbn [fst snd] in *. apply add_long_app; assumption.
  - apply add_long_app; [exact H|right; exact Hc].
Qed.

Lemma add_short_suffix f st n v t st' t' : add_short_option f st n v t = Ok (st', t') -> exists c, t = c ++ t'.
Proof.
  unfold add_short_option. destruct (negb (has_option f n true)); [discriminate|].
  destruct (get_option f n true) as [o|k]; cbn [bind]; [|discriminate]. apply add_long_suffix.
Qed.
Lemma add_short_app f st n v t st' t' tok r :
  add_short_option f st n v t = Ok (st', t') -> (v <> None \/ t <> [] \/ dashy tok = true) ->
  add_short_option f st n v (t ++ tok :: r) = Ok (st', t' ++ tok :: r).
Proof.
  unfold add_short_option. destruct (negb (has_option f n true)); [discriminate|].
  destruct (get_option f n true) as [o|k]; cbn [bind]; [|discriminate]. apply add_long_app.
Qed.

Lemma short_set_suffix f : forall name st t st' t',
  fst (short_set f st name t) = Ok (st', t') -> exists c, t = c ++ t'.
Proof.
  induction name as [|c rest IH]; intros st t st' t'; cbn [short_set fst].
  - intros H. inversion H. exists []. reflexivity.
  - destruct (negb (has_option f [c] true)); [discriminate|].
    destruct (get_option f [c] true) as [o|k]; [|discriminate].
    destruct (o_accepts o).
    + destruct (add_long_option f st (o_long o) _ t) as [[s1 t1]|k] eqn:E; cbn [fst]; [|discriminate].
      intros H. inversion H; subst. eapply add_long_suffix; eauto.
    + destruct (add_long_option f st (o_long o) None t) as [[s1 t1]|k] eqn:E; cbn [fst]; [|discriminate].
      intros H. apply add_long_suffix in E as [c1 E]. apply IH in H as [c2 H]. eapply app_suffix_trans; eauto.
Qed.
Lemma short_set_app f tok r : dashy tok = true -> forall name st t st' t',
  fst (short_set f st name t) = Ok (st', t') ->
  fst (short_set f st name (t ++ tok :: r)) = Ok (st', t' ++ tok :: r).
Proof.
  intros Hd. induction name as [|c rest IH]; intros st t st' t'; cbn [short_set fst].
  - intros H. inversion H. reflexivity.
  - destruct (negb (has_option f [c] true)); [discriminate|].
    destruct (get_option f [c] true) as [o|k]; [|discriminate].
    destruct (o_accepts o).
    + destruct (add_long_option f st (o_long o) _ t) as [[s1 t1]|k] eqn:E; cbn [fst]; [|discriminate].
      intros H. inversion H; subst.
      rewrite (add_long_app _ _ _ _ _ _ _ tok r E) by (right; right; exact Hd). reflexivity.
    + destruct (add_long_option f st (o_long o) None t) as [[s1 t1]|k] eqn:E; cbn [fst]; [|discriminate].
      intros H. rewrite (add_long_app _ _ _ _ _ _ _ tok r E) by (right; right; exact Hd). apply IH. exact H.
Qed.

Lemma parse_short_suffix f st tk t st' t' :
  fst (parse_short_option f st tk t) = Ok (st', t') -> exists c, t = c ++ t'.
Proof.
  unfold parse_short_option. destruct (skipn 1 tk) as [|c [|c2 rest]]; cbn [fst]; [discriminate| |].
  - destruct (accepts f [c]).
    + destruct (take_value_suffix t) as [c1 H1]. destruct (take_value t) as [v t2]. cbn [snd fst] in *.
      intros H. apply add_short_suffix in H as [c2 H2]. eapply app_suffix_trans; eauto.
    + cbn [fst]. apply add_short_suffix.
  - destruct (accepts f [c]); [cbn [fst]; apply add_short_suffix|apply short_set_suffix].
Qed.
Lemma parse_short_app f st tk t st' t' tok r : dashy tok = true ->
  fst (parse_short_option f st tk t) = Ok (st', t') ->
  fst (parse_short_option f st tk (t ++ tok :: r)) = Ok (st', t' ++ tok :: r).
Proof.
  intros Hd. unfold parse_short_option. destruct (skipn 1 tk) as [|c [|c2 rest]]; cbn [fst]; [discriminate| |].
  - destruct (accepts f [c]).
    + rewrite (take_value_app t tok r) by (right; exact Hd).
      destruct (take_value t) as [v t2]. cbn [fst snd]. intros H.
      rewrite (add_short_app _ _ _ _ _ _ _ tok r H) by (right; right; exact Hd). reflexivity.
    + cbn [fst]. intros H. rewrite (add_short_app _ _ _ _ _ _ _ tok r H) by (right; right; exact Hd). reflexivity.
  - destruct (accepts f [c]).
    + cbn [fst]. intros H. rewrite (add_short_app _ _ _ _ _ _ _ tok r H) by (left; discriminate). reflexivity.
    + apply short_set_app. exact Hd.
Qed.

(* ---- one iteration of the while loop of _parse: (parse_options, scratch state, remaining tokens) ---- *)
Definition step (f : fmt) (len p : bool) (st : pstate) (tok : str) (rest : list str)
  : res (bool * pstate * list str) :=
  if p && negb (nonempty tok) then
    match parse_argument f len st tok with Ok st' => Ok (p, st', rest) | Err k => Err k end
  else if p && is_dd tok then Ok (false, st, rest)
  else if p && starts_dd tok then
    match parse_long_option f st tok rest with Ok (st', rest') => Ok (p, st', rest') | Err k => Err k end
  else if p && starts_dash tok && negb (str_eqb tok [DASH]) then
    match fst (parse_short_option f st tok rest) with Ok (st', rest') => Ok (p, st', rest') | Err k => Err k end
  else
    match parse_argument f len st tok with Ok st' => Ok (p, st', rest) | Err k => Err k end.

Lemma loop_step_ok f len fuel p st tok rest p' st' rest' :
  step f len p st tok rest = Ok (p', st', rest') ->
  loop (S fuel) f len p st (tok :: rest) = loop fuel f len p' st' rest'.
Proof.
  unfold step. cbn [loop].
  destruct (p && negb (nonempty tok)).
  { destruct (parse_argument f len st tok) as [s|k]; intros H; inversion H; subst; reflexivity. }
  destruct (p && is_dd tok).
  { intros H; inversion H; subst; reflexivity. }
  destruct (p && starts_dd tok).
  { destruct (parse_long_option f st tok rest) as [[s r]|k]; intros H; inversion H; subst; reflexivity. }
  destruct (p && starts_dash tok && negb (str_eqb tok [DASH])).
  { destruct (parse_short_option f st tok rest) as [[[s r]|k] s2]; cbn [fst]; intros H; inversion H; subst; reflexivity. }
  destruct (parse_argument f len st tok) as [s|k]; intros H; inversion H; subst; reflexivity.
Qed.
Lemma loop_step_err f len fuel p st tok rest k :
  step f len p st tok rest = Err k -> snd (loop (S fuel) f len p st (tok :: rest)) = Some k.
Proof.
  unfold step. cbn [loop].
  destruct (p && negb (nonempty tok)).
  { destruct (parse_argument f len st tok) as [s|k']; intros H; inversion H; subst; reflexivity. }
  destruct (p && is_dd tok).
  { discriminate. }
  destruct (p && starts_dd tok).
  { destruct (parse_long_option f st tok rest) as [[s r]|k']; intros H; inversion H; subst; reflexivity. }
  destruct (p && starts_dash tok && negb (str_eqb tok [DASH])).
  { destruct (parse_short_option f st tok rest) as [[[s r]|k'] s2]; cbn [fst]; intros H; inversion H; subst; reflexivity. }
  destruct (parse_argument f len st tok) as [s|k']; intros H; inversion H; subst; reflexivity.
Qed.

Lemma step_suffix f len p st tok rest p' st' rest' :
  step f len p st tok rest = Ok (p', st', rest') ->
  (exists c, rest = c ++ rest') /\ p' = p && negb (is_dd tok).
Proof.
  unfold step.
  destruct (p && negb (nonempty tok)) eqn:C1.
  { destruct (parse_argument f len st tok) as [s|k]; intros H; inversion H; subst. split; [exists []; reflexivity|].
    apply andb_prop in C1 as [-> C1]. destruct tok; [reflexivity|discriminate]. }
  destruct (p && is_dd tok) eqn:C2.
  { intros H; inversion H; subst. split; [exists []; reflexivity|].
    apply andb_prop in C2 as [-> ->]. reflexivity. }
  assert (p = p && negb (is_dd tok)) as Hp.
  { destruct p; [|reflexivity]. cbn [andb] in C2. rewrite C2. reflexivity. }
  destruct (p && starts_dd tok).
  { destruct (parse_long_option f st tok rest) as [[s r]|k] eqn:E; intros H; inversion H; subst.
    split; [eapply parse_long_suffix; eauto|exact Hp]. }
  destruct (p && starts_dash tok && negb (str_eqb tok [DASH])).
  { destruct (fst (parse_short_option f st tok rest)) as [[s r]|k] eqn:E; intros H; inversion H; subst.
    split; [eapply parse_short_suffix; eauto|exact Hp]. }
  destruct (parse_argument f len st tok) as [s|k]; intros H; inversion H; subst.
  split; [exists []; reflexivity|exact Hp].
Qed.
Lemma step_len f len p st tok rest p' st' rest' :
  step f len p st tok rest = Ok (p', st', rest') -> length rest' <= length rest.
Proof. intros H. apply step_suffix in H as [[c ->] _]. rewrite app_length. lia. Qed.

Lemma step_app f len p st tok0 t p1 st1 t1 tok r : dashy tok = true ->
  step f len p st tok0 t = Ok (p1, st1, t1) ->
  step f len p st tok0 (t ++ tok :: r) = Ok (p1, st1, t1 ++ tok :: r).
Proof.
  intros Hd. unfold step.
  destruct (p && negb (nonempty tok0)).
  { destruct (parse_argument f len st tok0) as [s|k]; intros H; inversion H; subst; reflexivity. }
  destruct (p && is_dd tok0).
  { intros H; inversion H; subst; reflexivity. }
  destruct (p && starts_dd tok0).
  { destruct (parse_long_option f st tok0 t) as [[s x]|k] eqn:E; intros H; inversion H; subst.
    rewrite (parse_long_app _ _ _ _ _ _ tok r E) by (right; exact Hd). reflexivity. }
  destruct (p && starts_dash tok0 && negb (str_eqb tok0 [DASH])).
  { destruct (fst (parse_short_option f st tok0 t)) as [[s x]|k] eqn:E; intros H; inversion H; subst.
    rewrite (parse_short_app _ _ _ _ _ _ tok r Hd E). reflexivity. }
  destruct (parse_argument f len st tok0) as [s|k]; intros H; inversion H; subst; reflexivity.
Qed.

(* reach f len p st t p' st' t': iterating from (p, st, t) the loop arrives, without error, at (p', st', t') *)
Inductive reach (f : fmt) (len : bool) : bool -> pstate -> list str -> bool -> pstate -> list str -> Prop :=
| reach_here p st t : reach f len p st t p st t
| reach_next p st tok rest p1 st1 t1 p2 st2 t2 :
    step f len p st tok rest = Ok (p1, st1, t1) -> reach f len p1 st1 t1 p2 st2 t2 ->
    reach f len p st (tok :: rest) p2 st2 t2.

Lemma reach_loop f len p st t p' st' t' :
  reach f len p st t p' st' t' -> forall fuel, length t < fuel ->
  exists fuel', length t' < fuel' /\ loop fuel f len p st t = loop fuel' f len p' st' t'.
Proof.
  induction 1 as [p st t|p st tok rest p1 st1 t1 p2 st2 t2 Hs Hr IH]; intros fuel Hf.
  - exists fuel. split; [exact Hf|reflexivity].
  - destruct fuel as [|fuel]; [lia|]. cbn [length] in Hf.
    pose proof (step_len _ _ _ _ _ _ _ _ _ Hs) as Hl.
    destruct (IH fuel ltac:(lia)) as (fuel' & Hf' & Heq).
    exists fuel'. split; [exact Hf'|]. rewrite (loop_step_ok _ _ _ _ _ _ _ _ _ _ Hs). exact Heq.
Qed.

(* the strict token loop processes all of pre without error and ends in scratch state st *)
Definition scans (f : fmt) (pre : list str) (st : pstate) : Prop :=
  loop (S (length pre)) f false true ps_empty pre = (st, None).

Lemma scans_reach_gen f len tok r : dashy tok = true -> forall fuel pre p st0 st,
  length pre < fuel -> loop fuel f len p st0 pre = (st, None) -> existsb is_dd pre = false ->
  reach f len p st0 (pre ++ tok :: r) p st (tok :: r).
Proof.
  intros Hd. induction fuel as [|fuel IH]; intros pre p st0 st Hf Hl Hdd; [lia|].
  destruct pre as [|tok0 t].
  - cbn [loop] in Hl. inversion Hl; subst. apply reach_here.
  - cbn [length] in Hf. cbn [existsb] in Hdd. apply orb_false_elim in Hdd as [Hdd0 Hddt].
    destruct (step f len p st0 tok0 t) as [[[p1 st1] t1]|k] eqn:E.
    + rewrite (loop_step_ok _ _ _ _ _ _ _ _ _ _ E) in Hl.
      destruct (step_suffix _ _ _ _ _ _ _ _ _ E) as [[c Hc] Hp].
      rewrite Hdd0, andb_true_r in Hp. subst p1.
      cbn [app]. eapply reach_next; [apply step_app; eassumption|].
      apply IH; [subst t; rewrite app_length in Hf; lia|exact Hl|].
      subst t. rewrite existsb_app in Hddt. now apply orb_false_elim in Hddt as [_ ?].
    + pose proof (loop_step_err _ _ fuel _ _ _ _ _ E) as He. rewrite Hl in He. discriminate.
Qed.
Lemma scans_reach f pre st tok r :
  scans f pre st -> existsb is_dd pre = false -> dashy tok = true ->
  reach f false true ps_empty (pre ++ tok :: r) true st (tok :: r).
Proof. intros Hs Hdd Hd. eapply scans_reach_gen; eauto. Qed.

(* ---- the first failing iteration decides the result of a strict parse ---- *)
Theorem strict_error_at f f' ar cns toks p st tok rest k :
  aug_format f = Ok (f', ar, cns) ->
  reach f' false true ps_empty toks p st (tok :: rest) ->
  step f' false p st tok rest = Err k ->
  parse f false toks = Err k.
Proof.
  intros Haug Hr Hs. unfold parse, parse_on. rewrite Haug.
  destruct (reach_loop _ _ _ _ _ _ _ _ Hr (S (length toks)) ltac:(lia)) as (fuel' & Hf & Heq).
  rewrite Heq. destruct fuel' as [|fuel']; [cbn in Hf; lia|].
  pose proof (loop_step_err _ _ fuel' _ _ _ _ _ Hs) as He.
  destruct (loop (S fuel') f' false p st (tok :: rest)) as [st1 e]. cbn [snd] in He. subst e.
  destruct k; reflexivity.
Qed.

(* ================= a concrete format for the non-vacuity examples =================
   command names: server (alias srv), add;  arguments: src (required), count (optional, INTEGER);
   options: --verbose/-v, --quiet/-q (flags), --num/-n (value required, INTEGER), --opt/-o (value optional) *)
Definition S_ (x : string) : str := List.map N_of_ascii (list_ascii_of_string x).
Definition T (l : list string) : list str := List.map S_ l.
Definition mkopt (l : string) (s : option string) (fl : Z) (d : pyval) : opt :=
  {| o_long := S_ l; o_short := option_map S_ s;
     o_flags := opt_defaults fl (match s with Some _ => true | None => false end); o_default := d |}.
Definition mkarg (n : string) (fl : Z) (d : pyval) : arg :=
  {| a_name := S_ n; a_flags := arg_defaults fl; a_default := d |}.
Definition ex_opts : list element :=
  [ EOpt (mkopt "verbose" (Some "v") 4 VNone); EOpt (mkopt "quiet" (Some "q") 4 VNone);
    EOpt (mkopt "num" (Some "n") 520 VNone); EOpt (mkopt "opt" (Some "o") 16 (VStr (S_ "d"))) ]%string.
Definition ex_args : list element := [ EArg (mkarg "src" 1 VNone); EArg (mkarg "count" 66 VNone) ]%string.
Definition ex_cnames : list element :=
  [ ECName {| cn_name := S_ "server"; cn_aliases := [S_ "srv"] |}; ECName {| cn_name := S_ "add"; cn_aliases := [] |} ]%string.
Definition fmt_of (es : list element) : fmt :=
  match format_of_elements es None with Ok f => f | Err _ => empty_builder None end.
Definition aug_of (f : fmt) := match aug_format f with Ok x => x | Err _ => (f, [], []) end.
(* ex_f: with command names; ex_g: the same without command names *)
Definition ex_f : fmt := fmt_of (ex_cnames ++ ex_args ++ ex_opts).
Definition ex_g : fmt := fmt_of (ex_args ++ ex_opts).
Definition ex_f' := fst (fst (aug_of ex_f)).  Definition ex_far := snd (fst (aug_of ex_f)).  Definition ex_fcn := snd (aug_of ex_f).
Definition ex_g' := fst (fst (aug_of ex_g)).  Definition ex_gar := snd (fst (aug_of ex_g)).  Definition ex_gcn := snd (aug_of ex_g).
Lemma ex_f_aug : aug_format ex_f = Ok (ex_f', ex_far, ex_fcn).  Proof. vm_compute. reflexivity. Qed.
Lemma ex_g_aug : aug_format ex_g = Ok (ex_g', ex_gar, ex_gcn).  Proof. vm_compute. reflexivity. Qed.
(* the scratch state the strict loop ends in *)
Definition scan_st (f : fmt) (pre : list str) : pstate := fst (loop (S (length pre)) f false true ps_empty pre).
(* ================= 2. clause 1: unknown option -> NoSuchOption ================= *)
(* the name part of the body of a long option token: everything before the first "=" *)
Definition opt_name (body : str) : str := match split_eq body [] with Some (n, _) => n | None => body end.
Lemma opt_name_plain n : no_eq n = true -> opt_name n = n.
Proof. intros H. unfold opt_name. rewrite (split_eq_none n [] H). reflexivity. Qed.
Lemma opt_name_eq n v : no_eq n = true -> opt_name (n ++ EQ :: v) = n.
Proof. intros H. unfold opt_name. rewrite (split_eq_found n v [] H). reflexivity. Qed.

Lemma long_tok_dispatch f len st body rest : body <> [] ->
  step f len true st (long_tok body) rest =
  match parse_long_option f st (long_tok body) rest with Ok (st', rest') => Ok (true, st', rest') | Err k => Err k end.
Proof.
  intros Hb. unfold step, long_tok. cbn [andb nonempty negb].
  assert (is_dd (DASH :: DASH :: body) = false) as ->.
  { unfold is_dd. cbn [str_eqb]. rewrite N.eqb_refl. destruct body; [contradiction|reflexivity]. }
  assert (starts_dd (DASH :: DASH :: body) = true) as -> by (unfold starts_dd; rewrite N.eqb_refl; reflexivity).
  reflexivity.
Qed.

Lemma step_unknown_long f len st body rest :
  body <> [] -> has_option f (opt_name body) true = false ->
  step f len true st (long_tok body) rest = Err NoSuchOption.
Proof.
  intros Hb Hn. rewrite long_tok_dispatch by exact Hb.
  unfold parse_long_option, long_tok, opt_name in *. cbn [skipn].
  destruct (split_eq body []) as [[n v]|].
  - rewrite add_long_eq, Hn. reflexivity.
  - unfold accepts. rewrite Hn. cbn [andb]. rewrite add_long_eq, Hn. reflexivity.
Qed.

Theorem unknown_long_option_at f f' ar cns toks st body rest :
  aug_format f = Ok (f', ar, cns) ->
  reach f' false true ps_empty toks true st (long_tok body :: rest) ->
  body <> [] -> has_option f' (opt_name body) true = false ->
  parse f false toks = Err NoSuchOption.
Proof. intros Ha Hr Hb Hn. eapply strict_error_at; eauto. apply step_unknown_long; assumption. Qed.

Lemma dashy_long body : dashy (long_tok body) = true.
Proof. reflexivity. Qed.
Lemma dashy_short body : dashy (short_tok body) = true.
Proof. reflexivity. Qed.

(* "--name" / "--name=value" behind any prefix that the loop processes without error (no "--" in it) *)
Theorem unknown_long_option f f' ar cns pre st name rest :
  aug_format f = Ok (f', ar, cns) -> scans f' pre st -> existsb is_dd pre = false ->
  name <> [] -> no_eq name = true -> has_option f' name true = false ->
  parse f false (pre ++ long_tok name :: rest) = Err NoSuchOption.
Proof.
  intros Ha Hs Hdd Hne Hq Hn. apply (unknown_long_option_at f f' ar cns _ st name rest Ha).
  - apply scans_reach; auto.
  - exact Hne.
  - rewrite opt_name_plain; assumption.
Qed.
Theorem unknown_long_option_eq f f' ar cns pre st name value rest :
  aug_format f = Ok (f', ar, cns) -> scans f' pre st -> existsb is_dd pre = false ->
  no_eq name = true -> has_option f' name true = false ->
  parse f false (pre ++ long_tok (name ++ EQ :: value) :: rest) = Err NoSuchOption.
Proof.
  intros Ha Hs Hdd Hq Hn. apply (unknown_long_option_at f f' ar cns _ st (name ++ EQ :: value) rest Ha).
  - apply scans_reach; auto.
  - destruct name; discriminate.
  - rewrite opt_name_eq; assumption.
Qed.

(* short options: "-x...", also behind a group of known flags "-abx..." *)
Definition flag_ok (f : fmt) (x : N) : bool :=
  has_option f [x] true &&
  match get_option f [x] true with
  | Ok o => negb (o_accepts o) && has_option f (o_long o) true &&
            match get_option f (o_long o) true with
            | Ok o' => negb (o_accepts o') && negb (o_required o') && negb (o_multi o')
            | Err _ => false end
  | Err _ => false end.

Lemma flag_ok_inv f x : flag_ok f x = true ->
  exists o o', has_option f [x] true = true /\ get_option f [x] true = Ok o /\ o_accepts o = false /\
    has_option f (o_long o) true = true /\ get_option f (o_long o) true = Ok o' /\
    o_accepts o' = false /\ o_required o' = false /\ o_multi o' = false.
Proof.
  unfold flag_ok. intros H. apply andb_prop in H as [H1 H].
  destruct (get_option f [x] true) as [o|] eqn:E1; [|discriminate].
  apply andb_prop in H as [H H4]. apply andb_prop in H as [H2 H3].
  destruct (get_option f (o_long o) true) as [o'|] eqn:E2; [|discriminate].
  apply andb_prop in H4 as [H4 H6]. apply andb_prop in H4 as [H4 H5].
  apply negb_true_iff in H2, H4, H5, H6.
  exists o, o'. repeat split; assumption.
Qed.

Lemma short_set_unknown f c more : has_option f [c] true = false ->
  forall flags st t, forallb (flag_ok f) flags = true ->
  fst (short_set f st (flags ++ c :: more) t) = Err NoSuchOption.
Proof.
  intros Hn. induction flags as [|x fl IH]; intros st t Hf; cbn [app short_set].
  - rewrite Hn. reflexivity.
  - cbn [forallb] in Hf. apply andb_prop in Hf as [Hx Hfl].
    destruct (flag_ok_inv _ _ Hx) as (o & o' & H1 & H2 & H3 & H4 & H5 & H6 & H7 & H8).
    rewrite H1, H2, H3. cbn [negb]. rewrite add_long_eq, H4, H5. cbn [negb bind].
    rewrite H6. cbn [look fst snd]. unfold store. rewrite H7, H8. apply IH. exact Hfl.
Qed.

Lemma short_tok_dispatch f len st body rest : body <> [] -> starts_dash body = false ->
  step f len true st (short_tok body) rest =
  match fst (parse_short_option f st (short_tok body) rest) with Ok (st', rest') => Ok (true, st', rest') | Err k => Err k end.
Proof.
  intros Hb Hd. unfold step, short_tok. cbn [andb nonempty negb].
  destruct body as [|x body]; [contradiction|]. cbn [starts_dash] in Hd.
  assert (is_dd (DASH :: x :: body) = false) as ->.
  { unfold is_dd. cbn [str_eqb]. rewrite Hd, andb_false_r. reflexivity. }
  assert (starts_dd (DASH :: x :: body) = false) as -> by (unfold starts_dd; rewrite Hd, andb_false_r; reflexivity).
  assert (starts_dash (DASH :: x :: body) = true) as -> by (unfold starts_dash; apply N.eqb_refl).
  assert (str_eqb (DASH :: x :: body) [DASH] = false) as -> by (cbn [str_eqb]; apply andb_false_r).
  reflexivity.
Qed.

Lemma step_unknown_short f len st flags c more rest :
  starts_dash (flags ++ c :: more) = false -> forallb (flag_ok f) flags = true -> has_option f [c] true = false ->
  step f len true st (short_tok (flags ++ c :: more)) rest = Err NoSuchOption.
Proof.
  intros Hd Hf Hn. rewrite short_tok_dispatch; [|destruct flags; discriminate|exact Hd].
  unfold parse_short_option, short_tok. cbn [skipn].
  destruct flags as [|x fl]; cbn [app].
  - destruct more as [|m more].
    + unfold accepts. rewrite Hn. cbn [andb fst]. unfold add_short_option. rewrite Hn. reflexivity.
    + unfold accepts. rewrite Hn. cbn [andb].
      pose proof (short_set_unknown f c (m :: more) Hn [] st rest eq_refl) as Hx. cbn [app] in Hx.
      rewrite Hx. reflexivity.
  - cbn [forallb] in Hf. pose proof Hf as Hf0. apply andb_prop in Hf as [Hx Hfl].
    destruct (flag_ok_inv _ _ Hx) as (o & o' & H1 & H2 & H3 & _).
    assert (accepts f [x] = false) as Ha by (unfold accepts; rewrite H1, H2, H3; reflexivity).
    destruct (fl ++ c :: more) as [|y l] eqn:E; [destruct fl; discriminate|].
    rewrite Ha. rewrite <- E.
    change (x :: fl ++ c :: more) with ((x :: fl) ++ c :: more).
    rewrite (short_set_unknown f c more Hn (x :: fl) st rest Hf0). reflexivity.
Qed.

Theorem unknown_short_option_at f f' ar cns toks st flags c more rest :
  aug_format f = Ok (f', ar, cns) ->
  reach f' false true ps_empty toks true st (short_tok (flags ++ c :: more) :: rest) ->
  starts_dash (flags ++ c :: more) = false -> forallb (flag_ok f') flags = true ->
  has_option f' [c] true = false ->
  parse f false toks = Err NoSuchOption.
Proof. intros Ha Hr Hd Hf Hn. eapply strict_error_at; eauto. apply step_unknown_short; assumption. Qed.

Theorem unknown_short_option f f' ar cns pre st flags c more rest :
  aug_format f = Ok (f', ar, cns) -> scans f' pre st -> existsb is_dd pre = false ->
  starts_dash (flags ++ c :: more) = false -> forallb (flag_ok f') flags = true ->
  has_option f' [c] true = false ->
  parse f false (pre ++ short_tok (flags ++ c :: more) :: rest) = Err NoSuchOption.
Proof.
  intros Ha Hs Hdd Hd Hf Hn.
  apply (unknown_short_option_at f f' ar cns _ st flags c more rest Ha); try assumption.
  apply scans_reach; auto.
Qed.

Open Scope string_scope.
(* non-vacuity: every hypothesis holds for these lines *)
Example ex_strict_error_at : parse ex_f false (T ["server"; "--"; "--nope"; "a"; "b"; "c"; "d"]) = Err CannotParse.
Proof.
  (* everything after "--" is positional, "--nope" too: the loop gets as far as "c", the fifth positional *)
  eapply (strict_error_at ex_f ex_f' ex_far ex_fcn _ false _ (S_ "c") (T ["d"]) CannotParse ex_f_aug).
  - repeat (eapply reach_next; [vm_compute; reflexivity|]). apply reach_here.
  - vm_compute. reflexivity.
Qed.
Example ex_unknown_long : parse ex_f false (T ["server"; "x"; "--opt"; "--nope"; "y"]) = Err NoSuchOption.
Proof.
  apply (unknown_long_option ex_f ex_f' ex_far ex_fcn (T ["server"; "x"; "--opt"]) (scan_st ex_f' (T ["server"; "x"; "--opt"]))
           (S_ "nope") (T ["y"]) ex_f_aug); vm_compute; try reflexivity; discriminate.
Qed.
Example ex_unknown_long_eq : parse ex_f false (T ["-v"; "--num"; "3"; "--nope=1"; "--also"]) = Err NoSuchOption.
Proof.
  apply (unknown_long_option_eq ex_f ex_f' ex_far ex_fcn (T ["-v"; "--num"; "3"]) (scan_st ex_f' (T ["-v"; "--num"; "3"]))
           (S_ "nope") (S_ "1") (T ["--also"]) ex_f_aug); vm_compute; reflexivity.
Qed.
Example ex_unknown_short : parse ex_f false (T ["x"; "-vqzn"; "3"]) = Err NoSuchOption.
Proof.
  apply (unknown_short_option ex_f ex_f' ex_far ex_fcn (T ["x"]) (scan_st ex_f' (T ["x"]))
           (S_ "vq") 122%N (S_ "n") (T ["3"]) ex_f_aug); vm_compute; reflexivity.
Qed.
Close Scope string_scope.
(* ================= 3. clause 2: a value given to a flag -> CannotParse ================= *)
Lemma step_flag_value f len st name value rest o :
  no_eq name = true -> has_option f name true = true -> get_option f name true = Ok o -> o_accepts o = false ->
  step f len true st (long_tok (name ++ EQ :: value)) rest = Err CannotParse.
Proof.
  intros Hq Hh Hg Ha. rewrite long_tok_dispatch by (destruct name; discriminate).
  unfold parse_long_option, long_tok. cbn [skipn]. rewrite (split_eq_found name value [] Hq). cbn [rev app].
  rewrite add_long_eq, Hh, Hg. cbn [negb bind]. rewrite Ha. reflexivity.
Qed.

Theorem flag_given_value_at f f' ar cns toks st name value rest o :
  aug_format f = Ok (f', ar, cns) ->
  reach f' false true ps_empty toks true st (long_tok (name ++ EQ :: value) :: rest) ->
  no_eq name = true -> has_option f' name true = true -> get_option f' name true = Ok o -> o_accepts o = false ->
  parse f false toks = Err CannotParse.
Proof. intros Ha Hr Hq Hh Hg Hacc. eapply strict_error_at; eauto. eapply step_flag_value; eauto. Qed.

Theorem flag_given_value f f' ar cns pre st name value rest o :
  aug_format f = Ok (f', ar, cns) -> scans f' pre st -> existsb is_dd pre = false ->
  no_eq name = true -> has_option f' name true = true -> get_option f' name true = Ok o -> o_accepts o = false ->
  parse f false (pre ++ long_tok (name ++ EQ :: value) :: rest) = Err CannotParse.
Proof.
  intros Ha Hs Hdd Hq Hh Hg Hacc.
  apply (flag_given_value_at f f' ar cns _ st name value rest o Ha); try assumption.
  apply scans_reach; auto.
Qed.

(* ================= 4. clause 3: a required option value left out -> CannotParse ================= *)
(* nothing follows, or what follows cannot be a value: an empty token or one that starts with "-" *)
Definition no_value_next (rest : list str) : bool :=
  match rest with [] => true | nxt :: _ => negb (nonempty nxt) || starts_dash nxt end.

Lemma add_long_missing f st n o (v : option str) (t : list str) :
  has_option f n true = true -> get_option f n true = Ok o -> o_required o = true ->
  (v = Some [] \/ (v = None /\ no_value_next t = true)) ->
  add_long_option f st n v t = Err CannotParse.
Proof.
  intros Hh Hg Hr Hv. rewrite add_long_eq, Hh, Hg. cbn [negb bind].
  destruct Hv as [->|[-> Hn]].
  - destruct (negb (o_accepts o)); [reflexivity|]. cbn [look fst snd]. unfold store. rewrite Hr. reflexivity.
  - unfold look. destruct (o_accepts o); [|cbn [fst snd]; unfold store; rewrite Hr; reflexivity].
    destruct t as [|nxt r]; [cbn [fst snd]; unfold store; rewrite Hr; reflexivity|].
    cbn [no_value_next] in Hn.
    destruct (nonempty nxt); cbn [negb orb andb] in *.
    + rewrite Hn. cbn [negb fst snd]. unfold store. rewrite Hr. reflexivity.
    + cbn [fst snd]. unfold store. rewrite Hr. reflexivity.
Qed.

Lemma take_value_no_value rest : no_value_next rest = true ->
  (fst (take_value rest) = Some ([] : str) \/ (fst (take_value rest) = None /\ no_value_next (snd (take_value rest)) = true)).
Proof.
  destruct rest as [|nxt r]; cbn [take_value no_value_next fst snd]; [auto|]. intros Hn.
  destruct (nonempty nxt) eqn:E; cbn [negb orb andb] in *.
  - rewrite Hn. cbn [fst snd no_value_next]. rewrite E, Hn. auto.
  - left. destruct nxt; [reflexivity|discriminate].
Qed.

(* "--name" with nothing usable behind it, and "--name=" *)
Lemma step_value_missing_long f len st name rest o :
  name <> [] -> no_eq name = true -> has_option f name true = true -> get_option f name true = Ok o ->
  o_required o = true -> no_value_next rest = true ->
  step f len true st (long_tok name) rest = Err CannotParse.
Proof.
  intros Hne Hq Hh Hg Hr Hn. rewrite long_tok_dispatch by exact Hne.
  unfold parse_long_option, long_tok. cbn [skipn]. rewrite (split_eq_none name [] Hq).
  destruct (accepts f name).
  - pose proof (take_value_no_value rest Hn) as Hv. destruct (take_value rest) as [v t']. cbn [fst snd] in Hv.
    rewrite (add_long_missing f st name o v t' Hh Hg Hr Hv). reflexivity.
  - rewrite (add_long_missing f st name o None rest Hh Hg Hr); [reflexivity|auto].
Qed.
Lemma step_value_missing_eq f len st name rest o :
  no_eq name = true -> has_option f name true = true -> get_option f name true = Ok o -> o_required o = true ->
  step f len true st (long_tok (name ++ [EQ])) rest = Err CannotParse.
Proof.
  intros Hq Hh Hg Hr. rewrite long_tok_dispatch by (destruct name; discriminate).
  unfold parse_long_option, long_tok. cbn [skipn]. rewrite (split_eq_found name [] [] Hq). cbn [rev app].
  match goal with |- context [add_long_option ?a ?b ?c ?d ?e] =>
    assert (add_long_option a b c d e = Err CannotParse) as HH by (eapply add_long_missing; eauto) end.
  rewrite HH. reflexivity.
Qed.

Theorem option_value_missing_at f f' ar cns toks st name rest o :
  aug_format f = Ok (f', ar, cns) ->
  reach f' false true ps_empty toks true st (long_tok name :: rest) ->
  name <> [] -> no_eq name = true -> has_option f' name true = true -> get_option f' name true = Ok o ->
  o_required o = true -> no_value_next rest = true ->
  parse f false toks = Err CannotParse.
Proof. intros Ha Hr Hne Hq Hh Hg Hreq Hn. eapply strict_error_at; eauto. eapply step_value_missing_long; eauto. Qed.

Theorem option_value_missing f f' ar cns pre st name rest o :
  aug_format f = Ok (f', ar, cns) -> scans f' pre st -> existsb is_dd pre = false ->
  name <> [] -> no_eq name = true -> has_option f' name true = true -> get_option f' name true = Ok o ->
  o_required o = true -> no_value_next rest = true ->
  parse f false (pre ++ long_tok name :: rest) = Err CannotParse.
Proof.
  intros Ha Hs Hdd Hne Hq Hh Hg Hreq Hn.
  apply (option_value_missing_at f f' ar cns _ st name rest o Ha); try assumption.
  apply scans_reach; auto.
Qed.
Theorem option_value_empty f f' ar cns pre st name rest o :
  aug_format f = Ok (f', ar, cns) -> scans f' pre st -> existsb is_dd pre = false ->
  no_eq name = true -> has_option f' name true = true -> get_option f' name true = Ok o -> o_required o = true ->
  parse f false (pre ++ long_tok (name ++ [EQ]) :: rest) = Err CannotParse.
Proof.
  intros Ha Hs Hdd Hq Hh Hg Hreq.
  apply (strict_error_at f f' ar cns _ true st (long_tok (name ++ [EQ])) rest CannotParse Ha).
  - apply scans_reach; auto.
  - eapply step_value_missing_eq; eauto.
Qed.

(* short form: "-n", also as the last letter of a group of flags "-abn" *)
Lemma short_set_missing f c o : has_option f [c] true = true -> get_option f [c] true = Ok o ->
  has_option f (o_long o) true = true -> get_option f (o_long o) true = Ok o -> o_required o = true ->
  forall flags st t, forallb (flag_ok f) flags = true -> no_value_next t = true ->
  fst (short_set f st (flags ++ [c]) t) = Err CannotParse.
Proof.
  intros Hh Hg Hhl Hgl Hr. induction flags as [|x fl IH]; intros st t Hf Hn; cbn [app short_set].
  - rewrite Hh, Hg. cbn [negb].
    rewrite (add_long_missing f st (o_long o) o None t Hhl Hgl Hr) by auto.
    destruct (o_accepts o); reflexivity.
  - cbn [forallb] in Hf. apply andb_prop in Hf as [Hx Hfl].
    destruct (flag_ok_inv _ _ Hx) as (o1 & o' & H1 & H2 & H3 & H4 & H5 & H6 & H7 & H8).
    rewrite H1, H2, H3. cbn [negb]. rewrite add_long_eq, H4, H5. cbn [negb bind].
    rewrite H6. cbn [look fst snd]. unfold store. rewrite H7, H8. apply IH; assumption.
Qed.

Lemma step_value_missing_short f len st flags c rest o :
  starts_dash (flags ++ [c]) = false -> forallb (flag_ok f) flags = true ->
  has_option f [c] true = true -> get_option f [c] true = Ok o ->
  has_option f (o_long o) true = true -> get_option f (o_long o) true = Ok o -> o_required o = true ->
  no_value_next rest = true ->
  step f len true st (short_tok (flags ++ [c])) rest = Err CannotParse.
Proof.
  intros Hd Hf Hh Hg Hhl Hgl Hr Hn. rewrite short_tok_dispatch; [|destruct flags; discriminate|exact Hd].
  unfold parse_short_option, short_tok. cbn [skipn].
  destruct flags as [|x fl]; cbn [app].
  - destruct (accepts f [c]).
    + pose proof (take_value_no_value rest Hn) as Hv. destruct (take_value rest) as [v t']. cbn [fst snd] in Hv.
      unfold add_short_option. rewrite Hh, Hg. cbn [negb bind].
      rewrite (add_long_missing f st (o_long o) o v t' Hhl Hgl Hr Hv). reflexivity.
    + unfold add_short_option. rewrite Hh, Hg. cbn [negb bind].
      rewrite (add_long_missing f st (o_long o) o None rest Hhl Hgl Hr) by auto. reflexivity.
  - cbn [forallb] in Hf. pose proof Hf as Hf0. apply andb_prop in Hf as [Hx Hfl].
    destruct (flag_ok_inv _ _ Hx) as (o1 & o' & H1 & H2 & H3 & _).
    assert (accepts f [x] = false) as Ha by (unfold accepts; rewrite H1, H2, H3; reflexivity).
    destruct (fl ++ [c]) as [|y l] eqn:E; [destruct fl; discriminate|].
    rewrite Ha. rewrite <- E. change (x :: fl ++ [c]) with ((x :: fl) ++ [c]).
    rewrite (short_set_missing f c o Hh Hg Hhl Hgl Hr (x :: fl) st rest Hf0 Hn). reflexivity.
Qed.

Theorem short_option_value_missing_at f f' ar cns toks st flags c rest o :
  aug_format f = Ok (f', ar, cns) ->
  reach f' false true ps_empty toks true st (short_tok (flags ++ [c]) :: rest) ->
  starts_dash (flags ++ [c]) = false -> forallb (flag_ok f') flags = true ->
  has_option f' [c] true = true -> get_option f' [c] true = Ok o ->
  has_option f' (o_long o) true = true -> get_option f' (o_long o) true = Ok o -> o_required o = true ->
  no_value_next rest = true ->
  parse f false toks = Err CannotParse.
Proof.
  intros Ha Hr Hd Hf Hh Hg Hhl Hgl Hreq Hn. eapply strict_error_at; eauto.
  eapply step_value_missing_short; eauto.
Qed.
Theorem short_option_value_missing f f' ar cns pre st flags c rest o :
  aug_format f = Ok (f', ar, cns) -> scans f' pre st -> existsb is_dd pre = false ->
  starts_dash (flags ++ [c]) = false -> forallb (flag_ok f') flags = true ->
  has_option f' [c] true = true -> get_option f' [c] true = Ok o ->
  has_option f' (o_long o) true = true -> get_option f' (o_long o) true = Ok o -> o_required o = true ->
  no_value_next rest = true ->
  parse f false (pre ++ short_tok (flags ++ [c]) :: rest) = Err CannotParse.
Proof.
  intros Ha Hs Hdd Hd Hf Hh Hg Hhl Hgl Hreq Hn.
  apply (short_option_value_missing_at f f' ar cns _ st flags c rest o Ha); try assumption.
  apply scans_reach; auto.
Qed.

Open Scope string_scope.
Example ex_flag_given_value : parse ex_f false (T ["srv"; "add"; "x"; "--verbose=1"; "--nope"]) = Err CannotParse.
Proof.
  apply (flag_given_value ex_f ex_f' ex_far ex_fcn (T ["srv"; "add"; "x"]) (scan_st ex_f' (T ["srv"; "add"; "x"]))
           (S_ "verbose") (S_ "1") (T ["--nope"]) (mkopt "verbose" (Some "v") 4 VNone) ex_f_aug); vm_compute; reflexivity.
Qed.
Example ex_option_value_missing : parse ex_f false (T ["x"; "--num"; "--verbose"]) = Err CannotParse.
Proof.
  apply (option_value_missing ex_f ex_f' ex_far ex_fcn (T ["x"]) (scan_st ex_f' (T ["x"]))
           (S_ "num") (T ["--verbose"]) (mkopt "num" (Some "n") 520 VNone) ex_f_aug); vm_compute; try reflexivity; discriminate.
Qed.
Example ex_option_value_missing_last : parse ex_f false (T ["x"; "--num"]) = Err CannotParse.
Proof.
  apply (option_value_missing ex_f ex_f' ex_far ex_fcn (T ["x"]) (scan_st ex_f' (T ["x"]))
           (S_ "num") [] (mkopt "num" (Some "n") 520 VNone) ex_f_aug); vm_compute; try reflexivity; discriminate.
Qed.
Example ex_option_value_empty : parse ex_f false (T ["x"; "--num="; "3"]) = Err CannotParse.
Proof.
  apply (option_value_empty ex_f ex_f' ex_far ex_fcn (T ["x"]) (scan_st ex_f' (T ["x"]))
           (S_ "num") (T ["3"]) (mkopt "num" (Some "n") 520 VNone) ex_f_aug); vm_compute; reflexivity.
Qed.
Example ex_short_option_value_missing : parse ex_f false (T ["x"; "-vqn"; ""; "7"]) = Err CannotParse.
Proof.
  apply (short_option_value_missing ex_f ex_f' ex_far ex_fcn (T ["x"]) (scan_st ex_f' (T ["x"]))
           (S_ "vq") 110%N (T [""; "7"]) (mkopt "num" (Some "n") 520 VNone) ex_f_aug); vm_compute; reflexivity.
Qed.
Close Scope string_scope.

(* ================= facts about the augmented format ================= *)
(* every argument is listed under its own name (true of every format built through the API) *)
Definition args_named (l : list (str * arg)) : Prop := forall k a, In (k, a) l -> k = a_name a.
Definition args_named_b (l : list (str * arg)) : bool := forallb (fun ka => str_eqb (fst ka) (a_name (snd ka))) l.
Lemma args_named_b_ok l : args_named_b l = true -> args_named l.
Proof.
  unfold args_named_b, args_named. rewrite forallb_forall. intros H k a Hin.
  specialize (H (k, a) Hin). cbn in H. destruct (str_eqb_spec k (a_name a)); [assumption|discriminate].
Qed.

Lemma add_elements_app es1 : forall f es2,
  add_elements f (es1 ++ es2) = do f1 <- add_elements f es1; add_elements f1 es2.
Proof.
  induction es1 as [|e r IH]; intros f es2; cbn [app add_elements bind]; [reflexivity|].
  destruct (match e with EOpt o => add_option f o | ECOpt c => add_command_option f c
                       | EArg a => add_argument f a | ECName c => add_command_name f c end) as [f1|k];
    cbn [bind]; [apply IH|reflexivity].
Qed.

Lemma add_cnames_args cs : forall f f1, add_elements f (map ECName cs) = Ok f1 ->
  f_base f1 = f_base f /\ f_args f1 = f_args f.
Proof.
  induction cs as [|c r IH]; intros f f1; cbn [map add_elements].
  - intros H. inversion H. auto.
  - destruct f as [b cn co cs' ar os oss hm ho]. cbn [add_command_name bind]. intros H.
    apply IH in H as [H1 H2]. cbn in *. auto.
Qed.
Lemma add_opts_args os0 : forall f f1, add_elements f (map (fun no : str * opt => EOpt (snd no)) os0) = Ok f1 ->
  f_base f1 = f_base f /\ f_args f1 = f_args f.
Proof.
  induction os0 as [|o r IH]; intros f f1; cbn [map add_elements].
  - intros H. inversion H. auto.
  - unfold add_option. destruct (opt_name_taken f (o_long (snd o))); [discriminate|].
    destruct (optname_taken f (o_short (snd o))); [discriminate|].
    destruct f as [b cn co cs' ar os oss hm ho]. cbn [bind]. intros H.
    apply IH in H as [H1 H2]. cbn in *. auto.
Qed.
Lemma get_arguments_all_nobase f : f_base f = None -> get_arguments_all f = f_args f.
Proof. destruct f as [[bf|] cn co cs ar os oss hm ho]; cbn; [discriminate|reflexivity]. Qed.

Lemma add_args_args l : forall f f1, f_base f = None -> NoDup (map fst (f_args f)) ->
  add_elements f (map (fun na : str * arg => EArg (snd na)) l) = Ok f1 ->
  f_base f1 = None /\ f_args f1 = f_args f ++ map (fun na => (a_name (snd na), snd na)) l /\
  NoDup (map fst (f_args f1)).
Proof.
  induction l as [|[k a] r IH]; intros f f1 Hb Hnd; cbn [map add_elements snd].
  - intros H. inversion H; subst. rewrite app_nil_r. auto.
  - unfold add_argument. cbn [has_argument get_arguments]. rewrite (get_arguments_all_nobase f Hb).
    destruct (shas (a_name a) (f_args f)) eqn:Hs; [discriminate|].
    destruct (has_multi_all f); [discriminate|].
    destruct (a_required a && has_optional_all f); [discriminate|].
    destruct f as [b cn co cs' ar os oss hm ho]. cbn [bind f_args f_base] in *.
    assert (sget (a_name a) ar = None) as Hn.
    { rewrite shas_sget in Hs. destruct (sget (a_name a) ar); [discriminate|reflexivity]. }
    assert (sset (a_name a) a ar = ar ++ [(a_name a, a)]) as Hset by (unfold sset; now apply sset_absent).
    intros H. apply IH in H; cbn [f_base f_args].
    + destruct H as (H1 & H2 & H3). split; [exact H1|]. split; [|exact H3].
      rewrite H2. cbn [f_args]. rewrite Hset, <- app_assoc. reflexivity.
    + exact Hb.
    + rewrite Hset, map_app. cbn [map fst]. apply NoDup_app_snoc; [exact Hnd|now apply sget_none_notin].
Qed.

Lemma sset_keys {V} k (v : V) d : map fst (sset k v d) = map fst d ++ (if shas k d then [] else [k]).
Proof.
  unfold sset, shas, ahas. induction d as [|[k' v'] r IH]; cbn; [reflexivity|].
  destruct (str_eqb_spec k k') as [->|Hn]; cbn; [now rewrite app_nil_r|]. now rewrite IH.
Qed.
Lemma supdate_keys {V} (d2 d1 : list (str * V)) : exists l, map fst (supdate d1 d2) = map fst d1 ++ l.
Proof.
  unfold supdate. revert d1. induction d2 as [|[k v] r IH]; intros d1; cbn [fold_left fst snd].
  - exists []. now rewrite app_nil_r.
  - destruct (IH (sset k v d1)) as [l Hl]. rewrite Hl, sset_keys, <- app_assoc. eauto.
Qed.
Lemma sset_named k a l : args_named l -> k = a_name a -> args_named (sset k a l).
Proof. intros Hl Hk k' a' Hin. apply in_sset in Hin as [[-> ->]|Hin]; [exact Hk|eapply Hl; eauto]. Qed.
Lemma supdate_named d2 : forall d1, args_named d1 -> args_named d2 -> args_named (supdate d1 d2).
Proof.
  unfold supdate. induction d2 as [|[k a] r IH]; intros d1 H1 H2; cbn [fold_left fst snd]; [exact H1|].
  apply IH.
  - apply sset_named; [exact H1|]. apply H2. now left.
  - intros k' a' Hin. apply H2. now right.
Qed.
Lemma pseudo_named f cns : forall j i,
  args_named (map (fun p : str * arg * cname => (fst (fst p), snd (fst p))) (pseudo_args f cns j i)).
Proof.
  induction cns as [|c r IH]; intros j i; cbn [pseudo_args map]; [intros k a []|].
  intros k a [H|H]; [inversion H; reflexivity|eapply IH; eauto].
Qed.

Lemma map_named l : args_named l -> map (fun na : str * arg => (a_name (snd na), snd na)) l = l.
Proof.
  induction l as [|[k a] r IH]; intros H; cbn [map snd]; [reflexivity|].
  rewrite IH by (intros k' a' Hin; apply H; now right). rewrite <- (H k a) by now left. reflexivity.
Qed.

(* what the parser's preamble produces: ar is the argument list of f' (command-name slots first),
   its names are distinct, and cns names the first (length cns) of them *)
Record aug_ok (f' : fmt) (ar : list (str * arg)) (cns : list (str * cname)) : Prop := {
  aug_args : get_arguments_all f' = ar;
  aug_nodup : NoDup (map fst ar);
  aug_named : args_named ar;
  aug_cns : map fst cns = map fst (firstn (length cns) ar) }.

Lemma firstn_map_fst_app {X Y} (l1 : list (X * Y)) l (l2 : list (X * Y)) :
  map fst l2 = map fst l1 ++ l -> map fst l1 = map fst (firstn (length l1) l2).
Proof.
  revert l2. induction l1 as [|x r IH]; intros l2 H; cbn [length firstn map]; [reflexivity|].
  destruct l2 as [|y l2]; [discriminate|]. cbn [map app] in H. inversion H as [[H0 H1]]. cbn [firstn map].
  f_equal. eapply IH; eauto.
Qed.

Lemma aug_format_ok f f' ar cns :
  aug_format f = Ok (f', ar, cns) -> args_named (get_arguments_all f) -> aug_ok f' ar cns.
Proof.
  unfold aug_format. intros H Hnamed.
  set (ps := pseudo_args f (get_command_names_all f) 1 1) in *.
  set (P := map (fun p : str * arg * cname => (fst (fst p), snd (fst p))) ps) in *.
  destruct (format_of_elements _ None) as [f0|k] eqn:E; cbn [bind] in H; [|discriminate].
  inversion H; subst f0 ar cns. clear H.
  assert (args_named (supdate P (get_arguments_all f))) as Hn.
  { apply supdate_named; [apply pseudo_named|exact Hnamed]. }
  unfold format_of_elements in E.
  destruct (add_elements (empty_builder None) _) as [b|k] eqn:Eb; cbn [bind] in E; [|discriminate].
  inversion E; subst f'. clear E.
  rewrite add_elements_app in Eb.
  destruct (add_elements (empty_builder None) (map ECName (get_command_names_all f))) as [b1|k] eqn:E1; cbn [bind] in Eb; [|discriminate].
  rewrite add_elements_app in Eb.
  destruct (add_elements b1 (map (fun na : str * arg => EArg (snd na)) _)) as [b2|k] eqn:E2; cbn [bind] in Eb; [|discriminate].
  apply add_cnames_args in E1 as [B1 A1]. cbn [empty_builder f_base f_args] in B1, A1.
  apply add_args_args in E2; [|exact B1|rewrite A1; constructor].
  destruct E2 as (B2 & A2 & N2). rewrite A1 in A2. cbn [app] in A2.
  apply add_opts_args in Eb as [B3 A3].
  rewrite map_named in A2 by exact Hn.
  assert (get_arguments_all (build_format b) = supdate P (get_arguments_all f)) as Hargs.
  { destruct (build_format_same b) as (Hb & _ & Ha & _). rewrite get_arguments_all_nobase by congruence. congruence. }
  constructor.
  - exact Hargs.
  - rewrite <- A2. exact N2.
  - exact Hn.
  - destruct (supdate_keys (get_arguments_all f) P) as [l Hl].
    replace (map fst (map (fun p : str * arg * cname => (fst (fst p), snd p)) ps)) with (map fst P)
      by (unfold P; rewrite !map_map; reflexivity).
    replace (length (map (fun p : str * arg * cname => (fst (fst p), snd p)) ps)) with (length P)
      by (unfold P; rewrite !map_length; reflexivity).
    eapply firstn_map_fst_app; eauto.
Qed.

(* ================= 5. clause 5: more positional arguments than declared -> CannotParse ================= *)
(* a token that the loop reads as a positional argument while options are still parsed: empty, "-", or
   not starting with "-"; after the "--" separator every token is positional *)
Definition plain (tok : str) : bool := negb (nonempty tok) || negb (starts_dash tok) || str_eqb tok [DASH].
Definition positional (p : bool) (tok : str) : bool := negb p || plain tok.
Definition no_multi (A : list (str * arg)) : bool := forallb (fun na => negb (a_multi (snd na))) A.

Lemma step_positional f len p st tok rest : positional p tok = true ->
  step f len p st tok rest =
  match parse_argument f len st tok with Ok st' => Ok (p, st', rest) | Err k => Err k end.
Proof.
  unfold positional, plain, step. destruct p; cbn [negb orb andb]; [|reflexivity]. intros H.
  destruct (nonempty tok) eqn:Hne; cbn [negb orb] in *; [|reflexivity].
  destruct (str_eqb_spec tok [DASH]) as [->|Hnd]; [reflexivity|]. rewrite orb_false_r in H.
  apply negb_true_iff in H. rewrite H.
  destruct tok as [|c r]; [discriminate|]. cbn [starts_dash] in H.
  assert (is_dd (c :: r) = false) as -> by (unfold is_dd; cbn [str_eqb]; now rewrite H).
  assert (starts_dd (c :: r) = false) as -> by (unfold starts_dd; destruct r; [reflexivity|now rewrite H]).
  reflexivity.
Qed.

Lemma has_arg_nth f (i : nat) :
  has_argument f (APos (Z.of_nat i)) true = (i <? length (get_arguments_all f))%nat.
Proof.
  unfold has_argument. cbn [get_arguments].
  destruct (Nat.ltb_spec i (length (get_arguments_all f))); destruct (Z.leb_spec 0 (Z.of_nat i));
    destruct (Z.ltb_spec (Z.of_nat i) (Z.of_nat (length (get_arguments_all f)))); try reflexivity; lia.
Qed.
Lemma get_arg_nth f (i : nat) :
  get_argument f (APos (Z.of_nat i)) true =
  match nth_error (get_arguments_all f) i with Some (_, a) => Ok a | None => Err NoSuchArgument end.
Proof.
  unfold get_argument. cbn [get_arguments].
  destruct (Z.leb_spec (Z.of_nat (length (get_arguments_all f))) (Z.of_nat i)).
  - assert (nth_error (get_arguments_all f) i = None) as -> by (apply nth_error_None; lia). reflexivity.
  - destruct (Z.ltb_spec (Z.of_nat i) 0); [lia|]. rewrite Nat2Z.id. reflexivity.
Qed.
Lemma pred_pos (n : nat) : (Z.of_nat (S n) - 1 = Z.of_nat n)%Z.
Proof. lia. Qed.
Lemma has_arg_neg f : has_argument f (APos (Z.of_nat 0 - 1)) true = false.
Proof. reflexivity. Qed.

Lemma no_multi_nth A i k a : no_multi A = true -> nth_error A i = Some (k, a) -> a_multi a = false.
Proof.
  unfold no_multi. rewrite forallb_forall. intros H Hn. apply nth_error_In in Hn.
  specialize (H _ Hn). cbn in H. now apply negb_true_iff.
Qed.

(* all argument slots are taken and none of them is multi-valued: one more positional is rejected *)
Lemma parse_argument_full f st tok :
  length (get_arguments_all f) <= length (ps_args st) -> no_multi (get_arguments_all f) = true ->
  parse_argument f false st tok = Err CannotParse.
Proof.
  intros Hl Hm. unfold parse_argument. rewrite has_arg_nth.
  destruct (Nat.ltb_spec (length (ps_args st)) (length (get_arguments_all f))); [lia|].
  destruct (length (ps_args st)) as [|n] eqn:En; [rewrite has_arg_neg; reflexivity|].
  rewrite pred_pos, has_arg_nth, get_arg_nth.
  destruct (Nat.ltb_spec n (length (get_arguments_all f))); [|reflexivity].
  destruct (nth_error (get_arguments_all f) n) as [[k a]|] eqn:E; cbn [bind]; [|apply nth_error_None in E; lia].
  rewrite (no_multi_nth _ _ _ _ Hm E). reflexivity.
Qed.

Theorem extra_positional_at f f' ar cns toks p st tok rest :
  aug_format f = Ok (f', ar, cns) ->
  reach f' false true ps_empty toks p st (tok :: rest) ->
  positional p tok = true -> no_multi (get_arguments_all f') = true ->
  length (get_arguments_all f') <= length (ps_args st) ->
  parse f false toks = Err CannotParse.
Proof.
  intros Ha Hr Hp Hm Hl. eapply strict_error_at; eauto.
  rewrite step_positional by exact Hp. rewrite parse_argument_full; auto.
Qed.

(* ---- invariant of the scratch arguments: the keys are the first names of the argument list ---- *)
Definition entry_ok (kv : str * rawarg) : Prop := snd kv <> RList [].
Definition args_inv_st (A : list (str * arg)) (st : pstate) : Prop :=
  map fst (ps_args st) = map fst (firstn (length (ps_args st)) A) /\ Forall entry_ok (ps_args st).

Lemma nth_split_keys (A : list (str * arg)) c k a : NoDup (map fst A) -> nth_error A c = Some (k, a) ->
  firstn (S c) A = firstn c A ++ [(k, a)] /\ ~ In k (map fst (firstn c A)).
Proof.
  intros Hnd Hn. destruct (nth_error_split A c Hn) as (l1 & l2 & HA & Hl). subst A c.
  split.
  - rewrite firstn_app, firstn_all2 by lia. replace (S (length l1) - length l1) with 1 by lia.
    rewrite firstn_app, firstn_all, Nat.sub_diag. cbn. now rewrite app_nil_r.
  - rewrite firstn_app, firstn_all, Nat.sub_diag. cbn [firstn]. rewrite app_nil_r.
    rewrite map_app in Hnd. cbn [map fst] in Hnd. apply NoDup_remove_2 in Hnd.
    intros Hin. apply Hnd. apply in_or_app. now left.
Qed.

Lemma flatten_app d1 d2 : flatten (d1 ++ d2) = flatten d1 ++ flatten d2.
Proof. unfold flatten. apply flat_map_app. Qed.

(* a positional token lands in the next free slot *)
Lemma parse_argument_next f len st tok k a :
  NoDup (map fst (get_arguments_all f)) -> args_named (get_arguments_all f) ->
  args_inv_st (get_arguments_all f) st ->
  nth_error (get_arguments_all f) (length (ps_args st)) = Some (k, a) ->
  parse_argument f len st tok =
    Ok {| ps_args := ps_args st ++ [(k, if a_multi a then RList [tok] else RStr tok)]; ps_opts := ps_opts st |}.
Proof.
  intros Hnd Hnm [Hk _] Hn. unfold parse_argument. rewrite has_arg_nth.
  assert (length (ps_args st) < length (get_arguments_all f)) as Hlt by (apply nth_error_Some; congruence).
  destruct (Nat.ltb_spec (length (ps_args st)) (length (get_arguments_all f))); [|lia].
  rewrite get_arg_nth, Hn. cbn [bind].
  assert (a_name a = k) as Hak by (symmetry; apply Hnm; eapply nth_error_In; eauto).
  destruct (nth_split_keys _ _ _ _ Hnd Hn) as [_ Hnotin]. rewrite <- Hk in Hnotin.
  assert (sget k (ps_args st) = None) as Hg by (apply notin_sget_none; exact Hnotin).
  rewrite Hak. unfold append_arg. rewrite Hg.
  destruct (a_multi a); (unfold sset; rewrite sset_absent by exact Hg; reflexivity).
Qed.

Lemma args_inv_snoc A st k a v o :
  NoDup (map fst A) -> args_inv_st A st -> nth_error A (length (ps_args st)) = Some (k, a) -> v <> RList [] ->
  args_inv_st A {| ps_args := ps_args st ++ [(k, v)]; ps_opts := o |}.
Proof.
  intros Hnd [Hk Hf] Hn Hv. unfold args_inv_st. cbn [ps_args]. split.
  - rewrite app_length. cbn [length]. rewrite Nat.add_1_r.
    destruct (nth_split_keys _ _ _ _ Hnd Hn) as [-> _]. rewrite !map_app, <- Hk. reflexivity.
  - apply Forall_app. split; [exact Hf|]. constructor; [exact Hv|constructor].
Qed.

Lemma forall_sset (P : str * rawarg -> Prop) k v d : Forall P d -> P (k, v) -> Forall P (sset k v d).
Proof.
  intros Hd Hv. apply Forall_forall. intros [k' v'] Hin. apply in_sset in Hin as [[-> ->]|Hin]; [exact Hv|].
  rewrite Forall_forall in Hd. now apply Hd.
Qed.

Lemma parse_argument_inv f len st tok st' :
  NoDup (map fst (get_arguments_all f)) -> args_named (get_arguments_all f) ->
  args_inv_st (get_arguments_all f) st -> parse_argument f len st tok = Ok st' ->
  args_inv_st (get_arguments_all f) st'.
Proof.
  intros Hnd Hnm Hi. destruct (nth_error (get_arguments_all f) (length (ps_args st))) as [[k a]|] eqn:Hn.
  - rewrite (parse_argument_next f len st tok k a Hnd Hnm Hi Hn). intros H. inversion H; subst.
    apply (args_inv_snoc _ _ _ a); auto. destruct (a_multi a); discriminate.
  - unfold parse_argument. rewrite has_arg_nth. apply nth_error_None in Hn.
    destruct (Nat.ltb_spec (length (ps_args st)) (length (get_arguments_all f))) as [Hlt|Hge]; [lia|].
    assert (forall nm, shas nm (ps_args st) = true -> args_inv_st (get_arguments_all f) (append_arg st nm tok)) as Happ.
    { intros nm Hs. destruct Hi as [Hk Hf]. unfold append_arg, args_inv_st. cbn [ps_args]. split.
      - assert (length (sset nm (RList (match sget nm (ps_args st) with Some (RList l) => l | _ => [] end ++ [tok])) (ps_args st))
                = length (ps_args st)) as Hlen.
        { rewrite <- (map_length fst), sset_keys, Hs, app_nil_r, map_length. reflexivity. }
        rewrite Hlen, sset_keys, Hs, app_nil_r. exact Hk.
      - apply forall_sset; [exact Hf|]. unfold entry_ok. cbn [snd].
        destruct (match sget nm (ps_args st) with Some (RList l) => l | _ => [] end); discriminate. }
    destruct (length (ps_args st)) as [|n] eqn:En.
    + rewrite has_arg_neg. destruct len; intros H; inversion H; subst; exact Hi.
    + rewrite pred_pos, has_arg_nth, get_arg_nth.
      destruct (Nat.ltb_spec n (length (get_arguments_all f))) as [Hlt2|Hge2].
      * destruct (nth_error (get_arguments_all f) n) as [[k a]|] eqn:E; cbn [bind]; [|discriminate].
        destruct (a_multi a).
        -- intros H. inversion H; subst. apply Happ.
           assert (a_name a = k) as -> by (symmetry; apply Hnm; eapply nth_error_In; eauto).
           destruct Hi as [Hk _]. rewrite shas_sget.
           destruct (sget k (ps_args st)) eqn:Eg; [reflexivity|]. exfalso.
           apply sget_none_notin in Eg. apply Eg. rewrite Hk, En.
           apply in_map_iff. exists (k, a). split; [reflexivity|].
           destruct (nth_split_keys _ _ _ _ Hnd E) as [-> _]. apply in_or_app. right. now left.
        -- destruct len; intros H; inversion H; subst; exact Hi.
      * destruct len; intros H; inversion H; subst; exact Hi.
Qed.

(* option tokens leave the scratch arguments alone *)
Lemma store_args st n o v t st' t' : store st n o v t = Ok (st', t') -> ps_args st' = ps_args st.
Proof.
  unfold store. destruct (match v with Some [] => None | x => x end) as [s|].
  - destruct (o_multi o); intros H; inversion H; reflexivity.
  - destruct (o_required o); [discriminate|]. destruct (o_multi o); [discriminate|]. intros H; inversion H; reflexivity.
Qed.
Lemma add_long_args f st n v t st' t' : add_long_option f st n v t = Ok (st', t') -> ps_args st' = ps_args st.
Proof.
  rewrite add_long_eq. destruct (negb (has_option f n true)); [discriminate|].
  destruct (get_option f n true) as [o|k]; cbn [bind]; [|discriminate].
  destruct (match v with Some _ => negb (o_accepts o) | None => false end); [discriminate|]. apply store_args.
Qed.
Lemma add_short_args f st n v t st' t' : add_short_option f st n v t = Ok (st', t') -> ps_args st' = ps_args st.
Proof.
  unfold add_short_option. destruct (negb (has_option f n true)); [discriminate|].
  destruct (get_option f n true) as [o|k]; cbn [bind]; [|discriminate]. apply add_long_args.
Qed.
Lemma parse_long_args f st tk t st' t' : parse_long_option f st tk t = Ok (st', t') -> ps_args st' = ps_args st.
Proof.
  unfold parse_long_option. destruct (split_eq (skipn 2 tk) []) as [[n v]|]; [apply add_long_args|].
  destruct (accepts f (skipn 2 tk)); [|apply add_long_args].
  destruct (take_value t) as [v t2]. apply add_long_args.
Qed.
Lemma short_set_args f : forall name st t st' t',
  fst (short_set f st name t) = Ok (st', t') -> ps_args st' = ps_args st.
Proof.
  induction name as [|c rest IH]; intros st t st' t'; cbn [short_set fst].
  - intros H. inversion H. reflexivity.
  - destruct (negb (has_option f [c] true)); [discriminate|].
    destruct (get_option f [c] true) as [o|k]; [|discriminate].
    destruct (o_accepts o).
    + destruct (add_long_option f st (o_long o) _ t) as [[s1 t1]|k] eqn:E; cbn [fst]; [|discriminate].
      intros H. inversion H; subst. eapply add_long_args; eauto.
    + destruct (add_long_option f st (o_long o) None t) as [[s1 t1]|k] eqn:E; cbn [fst]; [|discriminate].
      intros H. apply IH in H. apply add_long_args in E. congruence.
Qed.
Lemma parse_short_args f st tk t st' t' :
  fst (parse_short_option f st tk t) = Ok (st', t') -> ps_args st' = ps_args st.
Proof.
  unfold parse_short_option. destruct (skipn 1 tk) as [|c [|c2 rest]]; cbn [fst]; [discriminate| |].
  - destruct (accepts f [c]).
    + destruct (take_value t) as [v t2]. cbn [fst]. apply add_short_args.
    + cbn [fst]. apply add_short_args.
  - destruct (accepts f [c]); [cbn [fst]; apply add_short_args|apply short_set_args].
Qed.
Lemma step_args f len p st tok rest p1 st1 t1 :
  step f len p st tok rest = Ok (p1, st1, t1) ->
  ps_args st1 = ps_args st \/ parse_argument f len st tok = Ok st1.
Proof.
  unfold step.
  destruct (p && negb (nonempty tok)).
  { destruct (parse_argument f len st tok) as [s|k]; intros H; inversion H; subst; auto. }
  destruct (p && is_dd tok).
  { intros H; inversion H; subst; auto. }
  destruct (p && starts_dd tok).
  { destruct (parse_long_option f st tok rest) as [[s x]|k] eqn:E; intros H; inversion H; subst.
    left. eapply parse_long_args; eauto. }
  destruct (p && starts_dash tok && negb (str_eqb tok [DASH])).
  { destruct (fst (parse_short_option f st tok rest)) as [[s x]|k] eqn:E; intros H; inversion H; subst.
    left. eapply parse_short_args; eauto. }
  destruct (parse_argument f len st tok) as [s|k]; intros H; inversion H; subst; auto.
Qed.

Lemma args_inv_same A st st' : ps_args st' = ps_args st -> args_inv_st A st -> args_inv_st A st'.
Proof. unfold args_inv_st. intros ->. auto. Qed.

Lemma loop_inv f len : NoDup (map fst (get_arguments_all f)) -> args_named (get_arguments_all f) ->
  forall fuel p st t st', loop fuel f len p st t = (st', None) ->
  args_inv_st (get_arguments_all f) st -> args_inv_st (get_arguments_all f) st'.
Proof.
  intros Hnd Hnm. induction fuel as [|fuel IH]; intros p st t st' Hl Hi; [cbn in Hl; discriminate|].
  destruct t as [|tok rest]; [cbn in Hl; inversion Hl; subst; exact Hi|].
  destruct (step f len p st tok rest) as [[[p1 st1] t1]|k] eqn:E.
  - rewrite (loop_step_ok _ _ _ _ _ _ _ _ _ _ E) in Hl. apply (IH _ _ _ _ Hl).
    destruct (step_args _ _ _ _ _ _ _ _ _ E) as [Hs|Hs].
    + eapply args_inv_same; eauto.
    + eapply parse_argument_inv; eauto.
  - pose proof (loop_step_err _ _ fuel _ _ _ _ _ E) as He. rewrite Hl in He. discriminate.
Qed.
Lemma args_inv_empty A : args_inv_st A ps_empty.
Proof. split; [reflexivity|constructor]. Qed.

Lemma entries_flatten d : Forall entry_ok d -> length d <= length (flatten d).
Proof.
  induction 1 as [|[k v] r Hv Hr IH]; [cbn; lia|].
  change ((k, v) :: r) with ([(k, v)] ++ r). rewrite flatten_app, !app_length.
  assert (1 <= length (flatten [(k, v)])); [|cbn [length] in *; lia].
  unfold entry_ok in Hv. cbn in *. destruct v as [s|[|x l]|c]; cbn; try lia. congruence.
Qed.

Lemma reach_scans f t p st : reach f false true ps_empty t p st [] -> scans f t st.
Proof.
  intros Hr. unfold scans. destruct (reach_loop _ _ _ _ _ _ _ _ Hr (S (length t)) ltac:(lia)) as (fuel' & Hf & ->).
  destruct fuel'; [cbn in Hf; lia|reflexivity].
Qed.

(* ---- a run of plain tokens fills the argument slots in order (no multi-valued argument) ---- *)
Lemma plain_positional tok : plain tok = true -> positional true tok = true.
Proof. intros H. unfold positional. now rewrite H. Qed.

Lemma plain_run f len : NoDup (map fst (get_arguments_all f)) -> args_named (get_arguments_all f) ->
  no_multi (get_arguments_all f) = true ->
  forall pre st more, forallb plain pre = true -> args_inv_st (get_arguments_all f) st ->
  length (ps_args st) + length pre <= length (get_arguments_all f) ->
  exists st', reach f len true st (pre ++ more) true st' more /\
              length (ps_args st') = length (ps_args st) + length pre /\
              flatten (ps_args st') = flatten (ps_args st) ++ pre /\ ps_opts st' = ps_opts st.
Proof.
  intros Hnd Hnm Hm. induction pre as [|tok pre IH]; intros st more Hp Hi Hl.
  - exists st. rewrite app_nil_r, Nat.add_0_r. repeat split; auto. apply reach_here.
  - cbn [forallb] in Hp. apply andb_prop in Hp as [Ht Hp]. cbn [length] in Hl.
    destruct (nth_error (get_arguments_all f) (length (ps_args st))) as [[k a]|] eqn:Hn;
      [|apply nth_error_None in Hn; lia].
    pose proof (parse_argument_next f len st tok k a Hnd Hnm Hi Hn) as Hpa.
    rewrite (no_multi_nth _ _ _ _ Hm Hn) in Hpa.
    set (st1 := {| ps_args := ps_args st ++ [(k, RStr tok)]; ps_opts := ps_opts st |}) in *.
    assert (args_inv_st (get_arguments_all f) st1) as Hi1 by (apply (args_inv_snoc _ _ _ a); auto; discriminate).
    destruct (IH st1 more Hp Hi1) as (st' & Hr & Hlen & Hfl & Ho).
    { unfold st1. cbn [ps_args]. rewrite app_length. cbn [length]. lia. }
    exists st'. split; [|split; [|split]].
    + cbn [app]. eapply reach_next; [|exact Hr]. rewrite step_positional by (apply plain_positional; exact Ht).
      rewrite Hpa. reflexivity.
    + rewrite Hlen. unfold st1. cbn [ps_args length]. rewrite app_length. cbn [length]. lia.
    + rewrite Hfl. unfold st1. cbn [ps_args]. rewrite flatten_app, <- app_assoc. reflexivity.
    + rewrite Ho. reflexivity.
Qed.

(* option-free lines: as many plain tokens as there are slots (command names included), then one more *)
Theorem too_many_positionals f f' ar cns pre tok rest :
  aug_format f = Ok (f', ar, cns) -> args_named (get_arguments_all f) -> no_multi ar = true ->
  forallb plain pre = true -> length pre = length ar -> plain tok = true ->
  parse f false (pre ++ tok :: rest) = Err CannotParse.
Proof.
  intros Ha Hnm Hm Hp Hl Ht. destruct (aug_format_ok _ _ _ _ Ha Hnm) as [HA Hnd Hnamed _].
  destruct (plain_run f' false) with (pre := pre) (st := ps_empty) (more := tok :: rest)
    as (st' & Hr & Hlen & _); try (rewrite HA; assumption); [exact Hp|apply args_inv_empty|cbn; rewrite HA; lia|].
  apply (extra_positional_at f f' ar cns _ true st' tok rest Ha Hr).
  - apply plain_positional; exact Ht.
  - rewrite HA; exact Hm.
  - rewrite Hlen, HA. cbn. lia.
Qed.

(* ---- re-alignment against omitted command names ---- *)
Lemma skip_names_spec vals : forall cns k0 vals' cns' k, skip_names vals cns k0 = (vals', cns', k) ->
  exists m, k = k0 + m /\ cns' = skipn m cns /\ vals' = skipn m vals /\ m <= length cns /\ m <= length vals.
Proof.
  induction vals as [|v r IH]; intros cns k0 vals' cns' k; cbn [skip_names].
  - intros H. inversion H; subst. exists 0. cbn. repeat split; lia.
  - destruct cns as [|c cr].
    + intros H. inversion H; subst. exists 0. cbn. repeat split; lia.
    + destruct (nonempty v && cname_match (snd c) v).
      * intros H. apply IH in H as (m & -> & -> & -> & H1 & H2). exists (S m). cbn [skipn length]. repeat split; lia.
      * intros H. inversion H; subst. exists 0. cbn. repeat split; lia.
Qed.

Lemma in_firstn_S {X} (x : X) n l : In x (firstn n l) -> In x (firstn (S n) l).
Proof.
  revert l. induction n as [|n IH]; intros l; [cbn; tauto|].
  destruct l as [|y l]; [cbn; tauto|]. cbn [firstn In]. intros [H|H]; [auto|right; now apply IH].
Qed.

Lemma copy_values_keys vals : forall ars len fixed0 fixed, copy_values vals ars len fixed0 = Ok fixed ->
  forall n, shas n fixed = true -> shas n fixed0 = true \/ In n (map fst (firstn (length vals) ars)).
Proof.
  induction vals as [|v r IH]; intros ars len fixed0 fixed; cbn [copy_values length].
  - intros H; inversion H; subst. auto.
  - destruct ars as [|[k a] ars'].
    + destruct len; [|discriminate]. intros H; inversion H; subst. auto.
    + destruct (a_multi a); intros H n Hn; destruct (IH _ _ _ _ H n Hn) as [Hs|Hs].
      * unfold shas, ahas, sset in Hs. rewrite sget_sset in Hs.
        destruct (str_eqb_spec n k) as [->|]; [right; cbn; now left|left; exact Hs].
      * right. apply in_map_iff in Hs as (x & Hx & Hin). apply in_map_iff. exists x. split; [exact Hx|].
        now apply in_firstn_S.
      * unfold shas, ahas, sset in Hs. rewrite sget_sset in Hs.
        destruct (str_eqb_spec n k) as [->|]; [right; cbn; now left|left; exact Hs].
      * right. cbn [firstn map In]. now right.
Qed.

Lemma no_multi_skipn A m : no_multi A = true -> no_multi (skipn m A) = true.
Proof.
  unfold no_multi. rewrite !forallb_forall. intros H x Hx. apply H.
  rewrite <- (firstn_skipn m A). apply in_or_app. now right.
Qed.
Lemma copy_values_too_many vals : forall ars fixed, no_multi ars = true -> length ars < length vals ->
  copy_values vals ars false fixed = Err CannotParse.
Proof.
  induction vals as [|v r IH]; intros ars fixed Hm Hl; cbn [length] in Hl; [lia|]. cbn [copy_values].
  destruct ars as [|[k a] ars']; [reflexivity|].
  cbn [no_multi forallb snd] in Hm. apply andb_prop in Hm as [Ha Hm]. apply negb_true_iff in Ha. rewrite Ha.
  apply IH; [exact Hm|cbn [length] in Hl; lia].
Qed.

Lemma fold_sset_has {V} n (l : list (str * V)) : forall d,
  shas n (fold_left (fun d kv => sset (fst kv) (snd kv) d) l d) = shas n d || shas n l.
Proof.
  induction l as [|[k v] r IH]; intros d; cbn [fold_left fst snd]; [cbn; now rewrite orb_false_r|].
  rewrite IH. unfold shas, ahas, sset. rewrite sget_sset. cbn [aget].
  destruct (str_eqb n k); [now rewrite orb_true_r|reflexivity].
Qed.

Lemma nodup_app_disj {X} (l1 l2 : list X) x : NoDup (l1 ++ l2) -> In x l1 -> ~ In x l2.
Proof.
  induction l1 as [|y r IH]; cbn; [tauto|]. intros Hnd [->|Hin] H2.
  - inversion Hnd as [|? ? Hn _]; subst. apply Hn. apply in_or_app. now right.
  - inversion Hnd; subst. eapply IH; eauto.
Qed.
Lemma key_index (ar : list (str * arg)) j n a m :
  NoDup (map fst ar) -> nth_error ar j = Some (n, a) -> In n (map fst (firstn m ar)) -> j < m.
Proof.
  intros Hnd Hn Hin. destruct (Nat.lt_ge_cases j m) as [|Hge]; [assumption|exfalso].
  rewrite <- (firstn_skipn m ar), map_app in Hnd.
  apply (nodup_app_disj _ _ n Hnd Hin).
  assert (j < length ar) as Hj by (apply nth_error_Some; congruence).
  assert (nth_error (skipn m ar) (j - m) = Some (n, a)) as Hs.
  { rewrite <- Hn. rewrite <- (firstn_skipn m ar) at 2.
    rewrite nth_error_app2 by (rewrite firstn_length; lia). rewrite firstn_length. f_equal. lia. }
  apply nth_error_In in Hs. apply in_map_iff. exists (n, a). auto.
Qed.
Lemma firstn_add {X} a b (l : list X) : firstn (a + b) l = firstn a l ++ firstn b (skipn a l).
Proof.
  revert l. induction a as [|a IH]; intros l; [reflexivity|].
  destruct l as [|x l]; [cbn; now destruct b|]. cbn [Nat.add firstn skipn app]. now rewrite IH.
Qed.

(* ---- what a strict parse does once the token loop has gone through the whole line ---- *)
Lemma parse_after_scan f f' ar cns toks st1 :
  aug_format f = Ok (f', ar, cns) -> scans f' toks st1 ->
  parse f false toks =
  match insert_missing ar cns false st1 with
  | Err k => Err k
  | Ok st2 =>
      if missing_required ar st2 then Err CannotParse
      else do a1 <- set_arguments f {| ar_opts := []; ar_args := [] |} (ps_args st2);
           set_options f a1 (ps_opts st2)
  end.
Proof.
  intros Ha Hs. unfold parse, parse_on. rewrite Ha. unfold scans in Hs. rewrite Hs.
  destruct (insert_missing ar cns false st1) as [st2|k]; [|reflexivity].
  destruct (missing_required ar st2); reflexivity.
Qed.

(* too many positionals, found only when the values are re-aligned against omitted command names:
   vals' are the positionals left once the leading ones that spell command names are set aside *)
Theorem too_many_after_realign f f' ar cns toks st1 vals' cns' k :
  aug_format f = Ok (f', ar, cns) -> scans f' toks st1 ->
  skip_names (flatten (ps_args st1)) cns 0 = (vals', cns', k) ->
  no_multi ar = true -> length ar - length cns < length vals' ->
  parse f false toks = Err CannotParse.
Proof.
  intros Ha Hs Hsk Hm Hl. rewrite (parse_after_scan _ _ _ _ _ _ Ha Hs).
  unfold insert_missing. rewrite Hsk.
  destruct (skip_names_spec _ _ _ _ _ _ Hsk) as (m & -> & -> & -> & H1 & H2).
  rewrite copy_values_too_many; [reflexivity|apply no_multi_skipn; exact Hm|].
  rewrite !skipn_length in *. lia.
Qed.

(* ================= 6. clause 4: a required argument is missing -> CannotParse ================= *)
Lemma insert_missing_missing ar cns st1 st2 vals' cns' k j n a :
  NoDup (map fst ar) -> map fst cns = map fst (firstn (length cns) ar) ->
  skip_names (flatten (ps_args st1)) cns 0 = (vals', cns', k) ->
  insert_missing ar cns false st1 = Ok st2 ->
  nth_error ar j = Some (n, a) -> a_required a = true ->
  shas n (ps_args st1) = false -> length cns + length vals' <= j ->
  missing_required ar st2 = true.
Proof.
  intros Hnd Hcns Hsk Hi Hn Hreq Hs1 Hj. unfold insert_missing in Hi. rewrite Hsk in Hi.
  destruct (skip_names_spec _ _ _ _ _ _ Hsk) as (m & -> & -> & -> & H1 & H2).
  destruct (copy_values _ _ false _) as [fixed|k0] eqn:Ec; cbn [bind] in Hi; [|discriminate].
  inversion Hi; subst st2. clear Hi.
  unfold missing_required. apply existsb_exists. exists (n, a). split; [eapply nth_error_In; eauto|].
  cbn [fst snd ps_args]. rewrite Hreq, fold_sset_has, Hs1. cbn [andb orb].
  destruct (shas n fixed) eqn:Hf; [exfalso|reflexivity].
  destruct (copy_values_keys _ _ _ _ _ Ec n Hf) as [H0|H0].
  - (* a command-name slot *)
    assert (In n (map fst (skipn m cns))) as Hin.
    { rewrite shas_sget in H0.
      destruct (sget n (map (fun c : str * cname => (fst c, RCmd (snd c))) (skipn m cns))) as [v|] eqn:Eg; [|discriminate].
      apply sget_in in Eg. apply in_map_iff in Eg as ([k1 c1] & Hk & Hin). inversion Hk; subst.
      apply in_map_iff. exists (n, c1). auto. }
    assert (In n (map fst cns)) as Hin2.
    { rewrite <- (firstn_skipn m cns), map_app. apply in_or_app. now right. }
    rewrite Hcns in Hin2. pose proof (key_index _ _ _ _ _ Hnd Hn Hin2). lia.
  - (* one of the slots the re-aligned values were copied to *)
    rewrite (skipn_length m cns) in H0. replace (0 + m + (length cns - m)) with (length cns) in H0 by lia.
    assert (In n (map fst (firstn (length cns + length (skipn m (flatten (ps_args st1)))) ar))) as Hin.
    { rewrite firstn_add, map_app. apply in_or_app. now right. }
    pose proof (key_index _ _ _ _ _ Hnd Hn Hin). lia.
Qed.

(* GENERAL FORM.  The loop goes through the whole line; vals' are the positionals left once the leading
   ones that spell command names are set aside; the i-th declared argument (0-based, after the
   command-name slots) is required and i >= number of those positionals. *)
Theorem missing_argument f f' ar cns toks st1 vals' cns' k i n a :
  aug_format f = Ok (f', ar, cns) -> args_named (get_arguments_all f) ->
  scans f' toks st1 ->
  skip_names (flatten (ps_args st1)) cns 0 = (vals', cns', k) ->
  nth_error ar (length cns + i) = Some (n, a) -> a_required a = true -> length vals' <= i ->
  parse f false toks = Err CannotParse.
Proof.
  intros Ha Hnm Hs Hsk Hn Hreq Hi. destruct (aug_format_ok _ _ _ _ Ha Hnm) as [HA Hnd Hnamed Hcns].
  rewrite (parse_after_scan _ _ _ _ _ _ Ha Hs).
  pose proof (insert_missing_spec ar cns false st1) as Hspec.
  destruct (insert_missing ar cns false st1) as [st2|k0] eqn:Ei; [|destruct Hspec as [-> _]; reflexivity].
  assert (args_inv_st ar st1) as [Hk Hf].
  { rewrite <- HA. eapply (loop_inv f' false); try (rewrite HA; assumption); [exact Hs|apply args_inv_empty]. }
  destruct (skip_names_spec _ _ _ _ _ _ Hsk) as (m & Hk0 & Hc' & Hv' & H1 & H2).
  pose proof (entries_flatten _ Hf) as Hlen.
  assert (shas n (ps_args st1) = false) as Hs1.
  { rewrite shas_sget. destruct (sget n (ps_args st1)) as [v|] eqn:Eg; [exfalso|reflexivity].
    apply sget_in in Eg. assert (In n (map fst (ps_args st1))) as Hin by (apply in_map_iff; exists (n, v); auto).
    rewrite Hk in Hin. pose proof (key_index _ _ _ _ _ Hnd Hn Hin).
    subst vals'. rewrite skipn_length in Hi. lia. }
  rewrite (insert_missing_missing ar cns st1 st2 vals' cns' k _ n a Hnd Hcns Hsk Ei Hn Hreq Hs1); [reflexivity|lia].
Qed.

(* OPTION-FREE LINES (formats without multi-valued argument): toks are plain tokens *)
Lemma plain_scans f f' ar cns toks :
  aug_format f = Ok (f', ar, cns) -> args_named (get_arguments_all f) -> no_multi ar = true ->
  forallb plain toks = true -> length toks <= length ar ->
  exists st1, scans f' toks st1 /\ flatten (ps_args st1) = toks /\ ps_opts st1 = [].
Proof.
  intros Ha Hnm Hm Hp Hl. destruct (aug_format_ok _ _ _ _ Ha Hnm) as [HA Hnd Hnamed _].
  pose proof (plain_run f' false) as PR. rewrite HA in PR.
  destruct (PR Hnd Hnamed Hm toks ps_empty [] Hp (args_inv_empty _)) as (st' & Hr & _ & Hfl & Ho); [cbn; lia|].
  rewrite app_nil_r in Hr. exists st'. split; [apply (reach_scans _ _ _ _ Hr)|]. split; [exact Hfl|exact Ho].
Qed.

Theorem missing_argument_plain f f' ar cns toks vals' cns' k i n a :
  aug_format f = Ok (f', ar, cns) -> args_named (get_arguments_all f) -> no_multi ar = true ->
  forallb plain toks = true -> length toks <= length ar ->
  skip_names toks cns 0 = (vals', cns', k) ->
  nth_error ar (length cns + i) = Some (n, a) -> a_required a = true -> length vals' <= i ->
  parse f false toks = Err CannotParse.
Proof.
  intros Ha Hnm Hm Hp Hl Hsk Hn Hreq Hi.
  destruct (plain_scans _ _ _ _ _ Ha Hnm Hm Hp Hl) as (st1 & Hs & Hfl & _).
  eapply missing_argument; eauto. rewrite Hfl. exact Hsk.
Qed.

(* clause 5 for option-free lines, both ways of finding out: more plain tokens than there are argument
   slots once the spelled command names are discounted *)
Theorem too_many_plain f f' ar cns toks vals' cns' k :
  aug_format f = Ok (f', ar, cns) -> args_named (get_arguments_all f) -> no_multi ar = true ->
  forallb plain toks = true -> skip_names toks cns 0 = (vals', cns', k) ->
  length ar - length cns < length vals' ->
  parse f false toks = Err CannotParse.
Proof.
  intros Ha Hnm Hm Hp Hsk Hl. destruct (Nat.le_gt_cases (length toks) (length ar)) as [Hle|Hgt].
  - destruct (plain_scans _ _ _ _ _ Ha Hnm Hm Hp Hle) as (st1 & Hs & Hfl & _).
    eapply too_many_after_realign; eauto. rewrite Hfl. exact Hsk.
  - rewrite <- (firstn_skipn (length ar) toks) in Hp |- *.
    rewrite forallb_app in Hp. apply andb_prop in Hp as [Hp1 Hp2].
    destruct (skipn (length ar) toks) as [|tok rest] eqn:E.
    { assert (length (skipn (length ar) toks) = 0) as H0 by (rewrite E; reflexivity). rewrite skipn_length in H0. lia. }
    cbn [forallb] in Hp2. apply andb_prop in Hp2 as [Ht _].
    eapply too_many_positionals; eauto. rewrite firstn_length. lia.
Qed.

Open Scope string_scope.
Lemma ex_f_named : args_named (get_arguments_all ex_f).  Proof. apply args_named_b_ok. vm_compute. reflexivity. Qed.
Lemma ex_g_named : args_named (get_arguments_all ex_g).  Proof. apply args_named_b_ok. vm_compute. reflexivity. Qed.

(* clause 5 *)
Example ex_extra_positional_after_dd : parse ex_g false (T ["x"; "--verbose"; "2"; "--"; "-y"; "z"]) = Err CannotParse.
Proof.
  eapply (extra_positional_at ex_g ex_g' ex_gar ex_gcn _ false _ (S_ "-y") (T ["z"]) ex_g_aug).
  - repeat (eapply reach_next; [vm_compute; reflexivity|]). apply reach_here.
  - reflexivity.
  - vm_compute. reflexivity.
  - vm_compute. lia.
Qed.
Example ex_too_many_positionals : parse ex_f false (T ["server"; "add"; "x"; "2"; "y"; "--nope"]) = Err CannotParse.
Proof.
  apply (too_many_positionals ex_f ex_f' ex_far ex_fcn (T ["server"; "add"; "x"; "2"]) (S_ "y") (T ["--nope"]) ex_f_aug ex_f_named);
    vm_compute; reflexivity.
Qed.
Example ex_too_many_after_realign : parse ex_f false (T ["x"; "--verbose"; "2"; "y"]) = Err CannotParse.
Proof.
  eapply (too_many_after_realign ex_f ex_f' ex_far ex_fcn _ (scan_st ex_f' (T ["x"; "--verbose"; "2"; "y"])) _ _ _ ex_f_aug).
  - vm_compute. reflexivity.
  - vm_compute. reflexivity.
  - vm_compute. reflexivity.
  - vm_compute. lia.
Qed.
Example ex_too_many_plain : parse ex_f false (T ["server"; "x"; "2"; "y"]) = Err CannotParse.
Proof.
  eapply (too_many_plain ex_f ex_f' ex_far ex_fcn _ _ _ _ ex_f_aug ex_f_named); [vm_compute; reflexivity..|vm_compute; lia].
Qed.
Example ex_too_many_plain_g : parse ex_g false (T ["x"; "2"; "y"; "z"]) = Err CannotParse.
Proof.
  eapply (too_many_plain ex_g ex_g' ex_gar ex_gcn _ _ _ _ ex_g_aug ex_g_named); [vm_compute; reflexivity..|vm_compute; lia].
Qed.

(* clause 4 *)
Example ex_missing_argument : parse ex_f false (T ["server"; "--num"; "3"; "add"; "-v"]) = Err CannotParse.
Proof.
  eapply (missing_argument ex_f ex_f' ex_far ex_fcn _ (scan_st ex_f' (T ["server"; "--num"; "3"; "add"; "-v"])) _ _ _ 0 _ _
            ex_f_aug ex_f_named); [vm_compute; reflexivity..|vm_compute; lia].
Qed.
Example ex_missing_argument_names_omitted : parse ex_f false (T ["--opt"; "-q"]) = Err CannotParse.
Proof.
  eapply (missing_argument ex_f ex_f' ex_far ex_fcn _ (scan_st ex_f' (T ["--opt"; "-q"])) _ _ _ 0 _ _
            ex_f_aug ex_f_named); [vm_compute; reflexivity..|vm_compute; lia].
Qed.
Example ex_missing_argument_plain : parse ex_f false (T ["srv"; "add"]) = Err CannotParse.
Proof.
  eapply (missing_argument_plain ex_f ex_f' ex_far ex_fcn _ _ _ _ 0 _ _ ex_f_aug ex_f_named);
    [vm_compute; try reflexivity; lia..|vm_compute; lia].
Qed.
Close Scope string_scope.

(* ================= 7. clause 6: a value that does not convert to the declared type -> ValueError ================= *)
(* a stored raw value that the conversion of its argument / option rejects *)
Definition bad_arg (f : fmt) (n : str) (v : rawarg) : Prop :=
  has_argument f (AName n) true = true /\
  exists a, get_argument f (AName n) true = Ok a /\
    match v with
    | RStr s => a_multi a = false /\ exists k, parse_typed (a_type a) (a_nullable a) (VStr s) = Err k
    | RList l => a_multi a = true /\ exists s k, In s l /\ parse_typed (a_type a) (a_nullable a) (VStr s) = Err k
    | RCmd _ => False
    end.
Definition bad_opt (f : fmt) (n : str) (v : rawopt) : Prop :=
  has_option f n true = true /\
  exists o, get_option f n true = Ok o /\
    match v with
    | OStr s => o_multi o = false /\ o_accepts o = true /\
                exists k, parse_typed (o_type o) (o_nullable o) (VStr s) = Err k
    | OList l => o_multi o = true /\ exists s k, In s l /\ parse_typed (o_type o) (o_nullable o) (VStr s) = Err k
    | _ => False
    end.

Lemma parse_each_bad t nl s k : forall l, In s l -> parse_typed t nl (VStr s) = Err k ->
  exists k', parse_each t nl l = Err k'.
Proof.
  induction l as [|x r IH]; intros Hin He; [contradiction|]. cbn [parse_each].
  destruct (parse_typed t nl (VStr x)) as [v|k1] eqn:E; cbn [bind]; [|eauto].
  destruct Hin as [->|Hin]; [congruence|]. destruct (IH Hin He) as [k' ->]. cbn [bind]. eauto.
Qed.

Lemma set_argument_bad f a0 n v : bad_arg f n v -> exists k, set_argument f a0 n v = Err k.
Proof.
  intros (_ & a & Hg & Hv). unfold set_argument. rewrite Hg. cbn [bind].
  destruct v as [s|l|c]; [| |contradiction].
  - destruct Hv as (-> & k & Hk). cbn [parse_raw_arg]. rewrite Hk. cbn [bind]. eauto.
  - destruct Hv as (-> & s & k & Hin & Hk). destruct (parse_each_bad _ _ _ _ l Hin Hk) as [k' ->]. cbn [bind]. eauto.
Qed.
Lemma set_arguments_bad f n v : bad_arg f n v -> forall l a0, In (n, v) l -> exists k, set_arguments f a0 l = Err k.
Proof.
  intros Hb. induction l as [|[n0 v0] r IH]; intros a0 Hin; [contradiction|]. cbn [set_arguments].
  destruct Hin as [Heq|Hin].
  - inversion Heq; subst. destruct Hb as [Hh Hb']. rewrite Hh.
    destruct (set_argument_bad f a0 n v (conj Hh Hb')) as [k ->]. cbn [bind]. eauto.
  - destruct (has_argument f (AName n0) true); [|apply IH; exact Hin].
    destruct (set_argument f a0 n0 v0) as [a'|k]; cbn [bind]; [apply IH; exact Hin|eauto].
Qed.

Lemma set_option_bad f a0 n v : bad_opt f n v -> exists k, set_option f a0 n v = Err k.
Proof.
  intros (_ & o & Hg & Hv). unfold set_option. rewrite Hg. cbn [bind].
  destruct v as [s| |d|l]; try contradiction.
  - destruct Hv as (-> & -> & k & Hk). cbn [parse_raw_opt]. rewrite Hk. cbn [bind]. eauto.
  - destruct Hv as (-> & s & k & Hin & Hk). destruct (parse_each_bad _ _ _ _ l Hin Hk) as [k' ->]. cbn [bind]. eauto.
Qed.
Lemma set_options_bad f n v : bad_opt f n v -> forall l a0, In (n, v) l -> exists k, set_options f a0 l = Err k.
Proof.
  intros Hb. induction l as [|[n0 v0] r IH]; intros a0 Hin; [contradiction|]. cbn [set_options].
  destruct Hin as [Heq|Hin].
  - inversion Heq; subst. destruct Hb as [Hh Hb']. rewrite Hh.
    destruct (set_option_bad f a0 n v (conj Hh Hb')) as [k ->]. cbn [bind]. eauto.
  - destruct (has_option f n0 true); [|apply IH; exact Hin].
    destruct (set_option f a0 n0 v0) as [a'|k]; cbn [bind]; [apply IH; exact Hin|eauto].
Qed.

(* GENERAL FORM, arguments: the line gets through the token loop, the re-alignment and the
   required-argument check, and one of the values then stored for an argument does not convert *)
Theorem bad_argument_value f f' ar cns toks st1 st2 n v :
  aug_format f = Ok (f', ar, cns) -> scans f' toks st1 ->
  insert_missing ar cns false st1 = Ok st2 -> missing_required ar st2 = false ->
  In (n, v) (ps_args st2) -> bad_arg f n v ->
  parse f false toks = Err ValueError.
Proof.
  intros Ha Hs Hi Hm Hin Hb. rewrite (parse_after_scan _ _ _ _ _ _ Ha Hs), Hi, Hm.
  destruct (set_arguments_bad f n v Hb _ {| ar_opts := []; ar_args := [] |} Hin) as [k Hk].
  rewrite Hk. cbn [bind]. rewrite (set_arguments_err _ _ _ _ Hk). reflexivity.
Qed.

(* GENERAL FORM, options *)
Theorem bad_option_value f f' ar cns toks st1 st2 n v :
  aug_format f = Ok (f', ar, cns) -> opts_ok f' -> scans f' toks st1 ->
  insert_missing ar cns false st1 = Ok st2 -> missing_required ar st2 = false ->
  In (n, v) (ps_opts st1) -> bad_opt f n v ->
  parse f false toks = Err ValueError.
Proof.
  intros Ha Hok Hs Hi Hm Hin Hb. rewrite (parse_after_scan _ _ _ _ _ _ Ha Hs), Hi, Hm.
  pose proof (insert_missing_spec ar cns false st1) as Ho. rewrite Hi in Ho.
  destruct (loop_spec f' false Hok (S (length toks)) true ps_empty toks st_plain_empty ltac:(lia)) as [Hp _].
  unfold scans in Hs. rewrite Hs in Hp. cbn [fst] in Hp.
  destruct (set_arguments f _ (ps_args st2)) as [a1|k] eqn:Ea; cbn [bind].
  - rewrite <- Ho in Hin. destruct (set_options_bad f n v Hb _ a1 Hin) as [k Hk]. rewrite Hk.
    rewrite (set_options_err f (ps_opts st2) a1 k); [reflexivity| |exact Hk].
    intros n0 d Hd. rewrite Ho in Hd. eapply Hp; eauto.
  - rewrite (set_arguments_err _ _ _ _ Ea). reflexivity.
Qed.

(* LAST-TOKEN FORM: pre is a line the strict parser accepts; "--name=value" is put behind it, value
   not convertible to the type of option name.  No hypothesis on the other options. *)
Lemma reach_trans f len p0 st0 t0 p1 st1 t1 p2 st2 t2 :
  reach f len p0 st0 t0 p1 st1 t1 -> reach f len p1 st1 t1 p2 st2 t2 -> reach f len p0 st0 t0 p2 st2 t2.
Proof. induction 1; [auto|]. intros H2. eapply reach_next; eauto. Qed.

Lemma parse_ok_inv f f' ar cns toks r :
  aug_format f = Ok (f', ar, cns) -> parse f false toks = Ok r ->
  exists st1 st2 a1, scans f' toks st1 /\ insert_missing ar cns false st1 = Ok st2 /\
    missing_required ar st2 = false /\
    set_arguments f {| ar_opts := []; ar_args := [] |} (ps_args st2) = Ok a1 /\
    set_options f a1 (ps_opts st2) = Ok r.
Proof.
  intros Ha. unfold parse, parse_on. rewrite Ha.
  destruct (loop (S (length toks)) f' false true ps_empty toks) as [st1 e] eqn:El.
  destruct e as [k|]; [destruct k; cbn; discriminate|].
  destruct (insert_missing ar cns false st1) as [st2|k] eqn:Ei; [|cbn; discriminate].
  destruct (missing_required ar st2) eqn:Em; cbn [andb negb snd]; [discriminate|].
  destruct (set_arguments f _ (ps_args st2)) as [a1|k] eqn:Ea; cbn [bind]; [|discriminate].
  intros H. exists st1, st2, a1. repeat split; auto.
Qed.

Lemma insert_missing_same_args ar cns len st st' st2 :
  insert_missing ar cns len st = Ok st2 -> ps_args st' = ps_args st ->
  insert_missing ar cns len st' = Ok {| ps_args := ps_args st2; ps_opts := ps_opts st' |}.
Proof.
  unfold insert_missing. intros H ->.
  destruct (skip_names (flatten (ps_args st)) cns 0) as [[vals' cns'] k].
  destruct (copy_values vals' _ len _) as [fx|k0]; cbn [bind] in *; [|discriminate].
  inversion H; subst. reflexivity.
Qed.

Lemma set_options_sset_bad f name value o k0 :
  has_option f name true = true -> get_option f name true = Ok o -> o_multi o = false -> o_accepts o = true ->
  parse_typed (o_type o) (o_nullable o) (VStr value) = Err k0 ->
  forall l a r, set_options f a l = Ok r -> set_options f a (sset name (OStr value) l) = Err ValueError.
Proof.
  intros Hh Hg Hm Hacc Hk.
  assert (forall a l', set_options f a ((name, OStr value) :: l') = Err ValueError) as Hhead.
  { intros a l'. cbn [set_options]. rewrite Hh. unfold set_option. rewrite Hg. cbn [bind].
    rewrite Hm, Hacc. cbn [parse_raw_opt]. rewrite Hk. cbn [bind]. rewrite (parse_typed_str _ _ _ _ Hk). reflexivity. }
  induction l as [|[n0 x] l IH]; intros a r Hr; unfold sset; cbn [aset]; [apply Hhead|].
  destruct (str_eqb_spec name n0) as [<-|Hne]; [apply Hhead|].
  cbn [set_options] in *. destruct (has_option f n0 true); [|apply (IH _ _ Hr)].
  destruct (set_option f a n0 x) as [a'|k]; cbn [bind] in *; [apply (IH _ _ Hr)|discriminate].
Qed.

Lemma step_long_eq_value f len st name value rest o :
  no_eq name = true -> value <> [] ->
  has_option f name true = true -> get_option f name true = Ok o -> o_accepts o = true -> o_multi o = false ->
  step f len true st (long_tok (name ++ EQ :: value)) rest =
    Ok (true, {| ps_args := ps_args st; ps_opts := sset name (OStr value) (ps_opts st) |}, rest).
Proof.
  intros Hq Hv Hh Hg Hacc Hm. rewrite long_tok_dispatch by (destruct name; discriminate).
  unfold parse_long_option, long_tok. cbn [skipn]. rewrite (split_eq_found name value [] Hq). cbn [rev app].
  rewrite add_long_eq, Hh, Hg. cbn [negb bind]. rewrite Hacc. cbn [negb look fst snd]. unfold store.
  destruct value as [|c v]; [contradiction|]. rewrite Hm. reflexivity.
Qed.

Theorem bad_option_value_last f f' ar cns pre r name value o' o k0 :
  aug_format f = Ok (f', ar, cns) ->
  parse f false pre = Ok r -> existsb is_dd pre = false ->
  no_eq name = true -> value <> [] ->
  (* the option as the augmented format knows it: takes a value, single-valued *)
  has_option f' name true = true -> get_option f' name true = Ok o' -> o_accepts o' = true -> o_multi o' = false ->
  (* the option as the format itself knows it, and the conversion that fails *)
  has_option f name true = true -> get_option f name true = Ok o -> o_accepts o = true -> o_multi o = false ->
  parse_typed (o_type o) (o_nullable o) (VStr value) = Err k0 ->
  parse f false (pre ++ [long_tok (name ++ EQ :: value)]) = Err ValueError.
Proof.
  intros Ha Hok Hdd Hq Hv Hh' Hg' Hacc' Hm' Hh Hg Hacc Hm Hk.
  destruct (parse_ok_inv _ _ _ _ _ _ Ha Hok) as (st1 & st2 & a1 & Hs & Hi & Hmiss & Hsa & Hso).
  set (tok := long_tok (name ++ EQ :: value)).
  set (st1' := {| ps_args := ps_args st1; ps_opts := sset name (OStr value) (ps_opts st1) |}).
  assert (scans f' (pre ++ [tok]) st1') as Hs'.
  { eapply reach_scans, reach_trans; [apply (scans_reach f' pre st1 tok [] Hs Hdd (dashy_long _))|].
    eapply reach_next; [|apply reach_here]. apply (step_long_eq_value f' false st1 name value [] o'); assumption. }
  rewrite (parse_after_scan _ _ _ _ _ _ Ha Hs').
  rewrite (insert_missing_same_args ar cns false st1 st1' st2 Hi eq_refl).
  unfold missing_required in *. cbn [ps_args ps_opts]. rewrite Hmiss, Hsa. cbn [bind]. unfold st1'. cbn [ps_opts].
  pose proof (insert_missing_spec ar cns false st1) as Ho. rewrite Hi in Ho. rewrite Ho in Hso.
  eapply set_options_sset_bad; eauto.
Qed.

(* a line whose conversion fails is rejected with the same ValueError in lenient mode *)
Lemma modes_agree_after_scan f f' ar cns toks st1 st2 :
  aug_format f = Ok (f', ar, cns) -> scans f' toks st1 ->
  insert_missing ar cns false st1 = Ok st2 -> missing_required ar st2 = false ->
  parse f true toks = parse f false toks.
Proof.
  intros Ha Hs Hi Hm. rewrite (parse_after_scan _ _ _ _ _ _ Ha Hs), Hi, Hm.
  unfold parse, parse_on. rewrite Ha. unfold scans in Hs. rewrite (loop_mono _ _ _ _ _ _ Hs).
  rewrite (insert_missing_mono _ _ _ _ Hi), Hm. reflexivity.
Qed.

(* ================= 8. lenient counterparts ================= *)
(* decidable sufficient condition for opts_ok (used by the examples) *)
Definition opt_ok_b (o : opt) : bool := (negb (o_multi o) || o_required o) && conv_input (o_default o).
Fixpoint opts_ok_b (f : fmt) : bool :=
  match f with Fmt b _ _ _ _ os oss _ _ =>
    forallb (fun no => opt_ok_b (snd no)) os && forallb (fun no => opt_ok_b (snd no)) oss &&
    match b with Some bf => opts_ok_b bf | None => true end end.
Lemma opts_ok_b_ok f : opts_ok_b f = true -> opts_ok f.
Proof.
  unfold opts_ok. cbn [get_option].
  induction f as [cn co cs ar os oss hm ho|bf cn co cs ar os oss hm ho IH] using fmt_ind';
    cbn [opts_ok_b get_option_all]; intros H n o Hg;
    apply andb_prop in H as [H Hb]; apply andb_prop in H as [H1 H2]; rewrite forallb_forall in H1, H2.
  all: assert (opt_ok_b o = true -> (o_multi o = true -> o_required o = true) /\ conv_input (o_default o) = true) as Hfin
    by (unfold opt_ok_b; intros Hx; apply andb_prop in Hx as [Hx1 Hx2]; split; [|exact Hx2];
        intros Hmu; rewrite Hmu in Hx1; exact Hx1).
  all: destruct (sget n os) as [o1|] eqn:E1; [inversion Hg; subst; apply Hfin, (H1 (n, o)), sget_in, E1|].
  all: destruct (sget n oss) as [o2|] eqn:E2; [inversion Hg; subst; apply Hfin, (H2 (n, o)), sget_in, E2|].
  - discriminate.
  - eapply IH; eauto.
Qed.

(* no line whatsoever ends in a parse error in lenient mode; in particular none of clauses 1-5 *)
Theorem lenient_no_parse_error f f' ar cns toks :
  aug_format f = Ok (f', ar, cns) -> opts_ok f' ->
  parse f true toks <> Err NoSuchOption /\ parse f true toks <> Err CannotParse.
Proof.
  intros Ha Hok. split; intros H; destruct (parse_error_kinds f true toks f' ar cns Ha Hok _ H) as [_ Hv];
    specialize (Hv eq_refl); discriminate.
Qed.

Open Scope string_scope.
Lemma ex_f_opts_ok : opts_ok ex_f'.  Proof. apply opts_ok_b_ok. vm_compute. reflexivity. Qed.
Definition realigned (ar : list (str * arg)) (cns : list (str * cname)) (st : pstate) : pstate :=
  match insert_missing ar cns false st with Ok s => s | Err _ => st end.

Example ex_bad_argument_value : parse ex_f false (T ["server"; "add"; "x"; "--verbose"; "abc"]) = Err ValueError.
Proof.
  pose (st1 := scan_st ex_f' (T ["server"; "add"; "x"; "--verbose"; "abc"])).
  apply (bad_argument_value ex_f ex_f' ex_far ex_fcn _ st1 (realigned ex_far ex_fcn st1) (S_ "count") (RStr (S_ "abc")) ex_f_aug).
  - vm_compute. reflexivity.
  - vm_compute. reflexivity.
  - vm_compute. reflexivity.
  - vm_compute. tauto.
  - split; [vm_compute; reflexivity|]. eexists. split; [vm_compute; reflexivity|].
    split; [vm_compute; reflexivity|]. eexists. vm_compute. reflexivity.
Qed.
Example ex_bad_option_value : parse ex_f false (T ["x"; "--num=abc"; "--verbose"]) = Err ValueError.
Proof.
  pose (st1 := scan_st ex_f' (T ["x"; "--num=abc"; "--verbose"])).
  apply (bad_option_value ex_f ex_f' ex_far ex_fcn _ st1 (realigned ex_far ex_fcn st1) (S_ "num") (OStr (S_ "abc")) ex_f_aug ex_f_opts_ok).
  - vm_compute. reflexivity.
  - vm_compute. reflexivity.
  - vm_compute. reflexivity.
  - vm_compute. tauto.
  - split; [vm_compute; reflexivity|]. eexists. split; [vm_compute; reflexivity|].
    split; [vm_compute; reflexivity|]. split; [vm_compute; reflexivity|]. eexists. vm_compute. reflexivity.
Qed.
Example ex_bad_option_value_short_form : parse ex_f false (T ["x"; "-vn"; "1.5"]) = Err ValueError.
Proof.
  pose (st1 := scan_st ex_f' (T ["x"; "-vn"; "1.5"])).
  apply (bad_option_value ex_f ex_f' ex_far ex_fcn _ st1 (realigned ex_far ex_fcn st1) (S_ "num") (OStr (S_ "1.5")) ex_f_aug ex_f_opts_ok).
  - vm_compute. reflexivity.
  - vm_compute. reflexivity.
  - vm_compute. reflexivity.
  - vm_compute. tauto.
  - split; [vm_compute; reflexivity|]. eexists. split; [vm_compute; reflexivity|].
    split; [vm_compute; reflexivity|]. split; [vm_compute; reflexivity|]. eexists. vm_compute. reflexivity.
Qed.
Example ex_bad_option_value_last : parse ex_f false (T ["x"; "-v"; "--num=abc"]) = Err ValueError.
Proof.
  eapply (bad_option_value_last ex_f ex_f' ex_far ex_fcn (T ["x"; "-v"]) _ (S_ "num") (S_ "abc") _ _ _ ex_f_aug);
    try (vm_compute; reflexivity). discriminate.
Qed.
Example ex_bad_value_lenient : parse ex_f true (T ["x"; "--num=abc"; "--verbose"]) = Err ValueError.
Proof.
  pose (st1 := scan_st ex_f' (T ["x"; "--num=abc"; "--verbose"])).
  rewrite (modes_agree_after_scan ex_f ex_f' ex_far ex_fcn _ st1 (realigned ex_far ex_fcn st1) ex_f_aug);
    [exact ex_bad_option_value|vm_compute; reflexivity..].
Qed.
Example ex_lenient : parse ex_f true (T ["x"; "2"; "y"; "--nope"; "--verbose=1"; "--num"]) <> Err NoSuchOption /\
                     parse ex_f true (T ["x"; "2"; "y"; "--nope"; "--verbose=1"; "--num"]) <> Err CannotParse.
Proof. exact (lenient_no_parse_error ex_f ex_f' ex_far ex_fcn _ ex_f_aug ex_f_opts_ok). Qed.
Close Scope string_scope.

(* ================= 9. the options of the augmented format are the options the format lists =================
   so the hypotheses on f' of clauses 1-3 can be read off the option list of f itself *)
Definition opt_named (o : opt) (n : str) : bool :=
  str_eqb n (o_long o) || match o_short o with Some s => str_eqb n s | None => false end.
Definition shorts_of (L : list opt) (d : list (str * opt)) : list (str * opt) :=
  fold_left (fun d o => match o_short o with Some s => sset s o d | None => d end) L d.
Definition longs_of (L : list opt) : list (str * opt) := map (fun o => (o_long o, o)) L.
(* long names are distinct; a short name identifies its option among all long and short names *)
Definition names_ok (L : list opt) : Prop :=
  NoDup (map o_long L) /\
  forall o s, In o L -> o_short o = Some s ->
    forall o2, In o2 L -> (o_long o2 = s \/ o_short o2 = Some s) -> o2 = o.

Lemma shorts_of_has n L : forall d,
  shas n (shorts_of L d) = shas n d || existsb (fun o => match o_short o with Some s => str_eqb n s | None => false end) L.
Proof.
  unfold shorts_of. induction L as [|o r IH]; intros d; cbn [fold_left existsb]; [now rewrite orb_false_r|].
  rewrite IH. destruct (o_short o) as [s|]; [|reflexivity].
  unfold shas, ahas, sset. rewrite sget_sset. destruct (str_eqb n s); [now rewrite orb_true_r|reflexivity].
Qed.
Lemma shorts_of_get n L : forall d o, sget n (shorts_of L d) = Some o ->
  sget n d = Some o \/ (In o L /\ o_short o = Some n).
Proof.
  unfold shorts_of. induction L as [|x r IH]; intros d o; cbn [fold_left]; [auto|].
  intros H. apply IH in H as [H|[H1 H2]]; [|right; split; [now right|exact H2]].
  destruct (o_short x) as [s|] eqn:Es; [|auto].
  unfold sget, sset in H. rewrite sget_sset in H. destruct (str_eqb_spec n s) as [->|]; [|auto].
  inversion H; subst. right. split; [now left|exact Es].
Qed.
Lemma longs_of_get n L o : sget n (longs_of L) = Some o -> In o L /\ o_long o = n.
Proof.
  unfold longs_of. induction L as [|x r IH]; cbn [map aget sget]; [discriminate|].
  unfold sget. cbn [aget]. destruct (str_eqb_spec n (o_long x)) as [->|].
  - intros H; inversion H; subst. split; [now left|reflexivity].
  - intros H. apply IH in H as [H1 H2]. split; [now right|exact H2].
Qed.
Lemma longs_of_has n L : shas n (longs_of L) = existsb (fun o => str_eqb n (o_long o)) L.
Proof.
  unfold longs_of, shas, ahas. induction L as [|x r IH]; cbn [map aget existsb]; [reflexivity|].
  destruct (str_eqb n (o_long x)); [reflexivity|exact IH].
Qed.
Lemma longs_of_nodup_get L o : NoDup (map o_long L) -> In o L -> sget (o_long o) (longs_of L) = Some o.
Proof.
  unfold longs_of, sget. induction L as [|x r IH]; intros Hnd Hin; [contradiction|]. cbn [map aget].
  inversion Hnd as [|? ? Hx Hr]; subst.
  destruct Hin as [->|Hin]; [now rewrite str_eqb_refl|].
  destruct (str_eqb_spec (o_long o) (o_long x)) as [E|]; [|now apply IH].
  exfalso. apply Hx. rewrite <- E. now apply in_map.
Qed.

(* the other fields are left alone by the additions of command names and arguments *)
Definition opt_fields (f : fmt) := (f_copts f, f_copts_short f, f_opts f, f_opts_short f).
Lemma add_cnames_opts cs : forall f f1, add_elements f (map ECName cs) = Ok f1 -> opt_fields f1 = opt_fields f.
Proof.
  induction cs as [|c r IH]; intros f f1; cbn [map add_elements].
  - intros H. inversion H. auto.
  - destruct f as [b cn co cs' ar os oss hm ho]. cbn [add_command_name bind]. intros H. apply IH in H. exact H.
Qed.
Lemma add_args_opts l : forall f f1,
  add_elements f (map (fun na : str * arg => EArg (snd na)) l) = Ok f1 -> opt_fields f1 = opt_fields f.
Proof.
  induction l as [|[k a] r IH]; intros f f1; cbn [map add_elements snd].
  - intros H. inversion H. auto.
  - unfold add_argument. destruct (has_argument f (AName (a_name a)) true); [discriminate|].
    destruct (has_multi_all f); [discriminate|]. destruct (a_required a && has_optional_all f); [discriminate|].
    destruct f as [b cn co cs' ar os oss hm ho]. cbn [bind]. intros H. apply IH in H. exact H.
Qed.

Lemma add_opts_inv L2 : forall f f1 L1,
  f_base f = None -> f_copts f = [] -> f_copts_short f = [] ->
  f_opts f = longs_of L1 -> f_opts_short f = shorts_of L1 [] -> names_ok L1 ->
  add_elements f (map EOpt L2) = Ok f1 ->
  f_base f1 = None /\ f_copts f1 = [] /\ f_copts_short f1 = [] /\
  f_opts f1 = longs_of (L1 ++ L2) /\ f_opts_short f1 = shorts_of (L1 ++ L2) [] /\ names_ok (L1 ++ L2).
Proof.
  induction L2 as [|o r IH]; intros f f1 L1 Hb Hco Hcs Hos Hoss Hok; cbn [map add_elements].
  - intros H. inversion H; subst. rewrite app_nil_r. auto 10.
  - unfold add_option. destruct (opt_name_taken f (o_long o)) eqn:Hl; [discriminate|].
    destruct (optname_taken f (o_short o)) eqn:Hs; [discriminate|].
    destruct f as [b cn co cs' ar os oss hm ho]. cbn [f_base f_copts f_copts_short f_opts f_opts_short] in *. subst b co cs' os oss.
    cbn [bind]. intros H.
    assert (forall n, opt_name_taken (Fmt None cn [] [] ar (longs_of L1) (shorts_of L1 []) hm ho) n = false ->
              (forall o2, In o2 L1 -> o_long o2 <> n) /\ (forall o2, In o2 L1 -> o_short o2 <> Some n)) as Hfresh.
    { intros n Hn. unfold opt_name_taken in Hn. cbn [has_option_all has_command_option_all] in Hn.
      assert (shas n (longs_of L1) = false /\ shas n (shorts_of L1 []) = false) as [Hn1 Hn2].
      { destruct (shas n (longs_of L1)), (shas n (shorts_of L1 [])); cbn in Hn; auto; discriminate. }
      rewrite longs_of_has in Hn1. rewrite shorts_of_has in Hn2. cbn [shas ahas aget orb] in Hn2.
      split; intros o2 Hin Heq.
      - assert (existsb (fun o => str_eqb n (o_long o)) L1 = true) as Hx; [|congruence].
        apply existsb_exists. exists o2. split; [exact Hin|]. rewrite Heq. apply str_eqb_refl.
      - assert (existsb (fun o => match o_short o with Some s => str_eqb n s | None => false end) L1 = true) as Hx; [|congruence].
        apply existsb_exists. exists o2. split; [exact Hin|]. rewrite Heq. apply str_eqb_refl. }
    destruct (Hfresh _ Hl) as [Fl1 Fl2].
    assert (sset (o_long o) o (longs_of L1) = longs_of (L1 ++ [o])) as Hset.
    { unfold sset. rewrite sset_absent.
      - unfold longs_of. rewrite map_app. reflexivity.
      - apply notin_sget_none. unfold longs_of. rewrite map_map. cbn [fst]. intros Hin.
        apply in_map_iff in Hin as (o2 & He & Hin). exact (Fl1 o2 Hin He). }
    assert ((match o_short o with Some s => sset s o (shorts_of L1 []) | None => shorts_of L1 [] end) = shorts_of (L1 ++ [o]) []) as Hsh.
    { unfold shorts_of. rewrite fold_left_app. reflexivity. }
    rewrite Hset, Hsh in H.
    replace (L1 ++ o :: r) with ((L1 ++ [o]) ++ r) by (rewrite <- app_assoc; reflexivity).
    apply (IH _ _ (L1 ++ [o])) in H; auto. clear H IH.
    destruct Hok as [Hnd Huniq]. split.
    + rewrite map_app. cbn [map]. apply NoDup_app_snoc; [exact Hnd|].
      intros Hin. apply in_map_iff in Hin as (o2 & He & Hin). exact (Fl1 o2 Hin He).
    + assert (forall s, o_short o = Some s ->
                (forall o2, In o2 L1 -> o_long o2 <> s) /\ (forall o2, In o2 L1 -> o_short o2 <> Some s)) as Fs.
      { intros s Es. rewrite Es in Hs. cbn [optname_taken] in Hs. exact (Hfresh _ Hs). }
      intros o1 s Hin1 Es o2 Hin2 Hname.
      apply in_app_or in Hin1 as [Hin1|[<-|[]]]; apply in_app_or in Hin2 as [Hin2|[<-|[]]].
      * eapply Huniq; eauto.
      * exfalso. destruct Hname as [Hn|Hn]; [exact (Fl2 o1 Hin1 (eq_trans Es (f_equal Some (eq_sym Hn))))|].
        destruct (Fs s Hn) as [_ F2]. exact (F2 o1 Hin1 Es).
      * exfalso. destruct (Fs s Es) as [F1 F2]. destruct Hname as [Hn|Hn]; [exact (F1 o2 Hin2 Hn)|exact (F2 o2 Hin2 Hn)].
      * reflexivity.
Qed.

Lemma shorts_of_longs L : forall d,
  fold_left (fun d (no : str * opt) => match o_short (snd no) with Some s => sset s (snd no) d | None => d end) (longs_of L) d
  = shorts_of L d.
Proof. unfold shorts_of, longs_of. induction L as [|o r IH]; intros d; cbn [map fold_left snd]; [reflexivity|apply IH]. Qed.

Lemma existsb_map {X Y} (g : Y -> bool) (h : X -> Y) l : existsb g (map h l) = existsb (fun x => g (h x)) l.
Proof. induction l as [|x r IH]; cbn; [reflexivity|now rewrite IH]. Qed.
Lemma existsb_orb {X} (g h : X -> bool) l : existsb g l || existsb h l = existsb (fun x => g x || h x) l.
Proof.
  induction l as [|x r IH]; cbn; [reflexivity|]. rewrite <- IH.
  destruct (g x), (h x), (existsb g r), (existsb h r); reflexivity.
Qed.

(* the option indexes of the augmented format *)
Record aug_opts_ok (f : fmt) (f' : fmt) : Prop := {
  ao_names : names_ok (map snd (get_options_all f));
  ao_has : forall n, has_option f' n true = existsb (fun no => opt_named (snd no) n) (get_options_all f);
  ao_get : forall n o, get_option f' n true = Ok o ->
             In o (map snd (get_options_all f)) /\ opt_named o n = true;
  ao_long : forall o, In o (map snd (get_options_all f)) ->
             has_option f' (o_long o) true = true /\ get_option f' (o_long o) true = Ok o;
  ao_short : forall o s, In o (map snd (get_options_all f)) -> o_short o = Some s ->
             has_option f' s true = true /\ get_option f' s true = Ok o }.

Lemma aug_format_opts f f' ar cns : aug_format f = Ok (f', ar, cns) -> aug_opts_ok f f'.
Proof.
  unfold aug_format. intros H.
  destruct (format_of_elements _ None) as [f0|k] eqn:E; cbn [bind] in H; [|discriminate].
  inversion H; subst f0. clear H. unfold format_of_elements in E.
  destruct (add_elements (empty_builder None) _) as [b|k] eqn:Eb; cbn [bind] in E; [|discriminate].
  inversion E; subst f'. clear E.
  rewrite add_elements_app in Eb.
  destruct (add_elements (empty_builder None) (map ECName (get_command_names_all f))) as [b1|k] eqn:E1; cbn [bind] in Eb; [|discriminate].
  rewrite add_elements_app in Eb.
  destruct (add_elements b1 (map (fun na : str * arg => EArg (snd na)) _)) as [b2|k] eqn:E2; cbn [bind] in Eb; [|discriminate].
  pose proof (add_cnames_opts _ _ _ E1) as O1. apply add_cnames_args in E1 as [B1 A1].
  pose proof (add_args_opts _ _ _ E2) as O2.
  assert (f_base b2 = None) as B2.
  { apply add_args_args in E2; [tauto|exact B1|]. rewrite A1. constructor. }
  rewrite O1 in O2. unfold opt_fields in O2. cbn [empty_builder f_copts f_copts_short f_opts f_opts_short] in O2.
  inversion O2 as [[C1 C2 C3 C4]]. clear O1 O2. rewrite C1 in C2. rewrite C3 in C4.
  set (L := map snd (get_options_all f)) in *.
  replace (map (fun no : str * opt => EOpt (snd no)) (get_options_all f)) with (map EOpt L) in Eb
    by (unfold L; rewrite map_map; reflexivity).
  apply (add_opts_inv L b2 b []) in Eb; auto;
    [|split; [constructor|intros ? ? []]].
  cbn [app] in Eb. destruct Eb as (Bb & Cb & Csb & Ob & Osb & Hok).
  destruct b as [bb cn co cs ar' os oss hm ho]. cbn [f_base f_copts f_copts_short f_opts f_opts_short] in *. subst bb co cs os oss.
  unfold build_format. cbn [map index_copts fold_left]. rewrite shorts_of_longs.
  destruct Hok as [Hnd Huniq].
  assert (forall n o, get_option (Fmt None cn [] [] ar' (longs_of L) (shorts_of L []) hm ho) n true = Ok o ->
            In o L /\ opt_named o n = true) as Hget.
  { intros n o. cbn [get_option get_option_all]. unfold opt_named.
    destruct (sget n (longs_of L)) as [o1|] eqn:G1.
    - intros Ho; inversion Ho; subst. apply longs_of_get in G1 as [Hin <-]. split; [exact Hin|]. now rewrite str_eqb_refl.
    - destruct (sget n (shorts_of L [])) as [o2|] eqn:G2; [|discriminate].
      intros Ho; inversion Ho; subst. apply shorts_of_get in G2 as [G2|[Hin Hs]]; [discriminate|].
      split; [exact Hin|]. rewrite Hs, str_eqb_refl. apply orb_true_r. }
  constructor.
  - split; assumption.
  - intros n. cbn [has_option has_option_all]. rewrite orb_false_r, longs_of_has, shorts_of_has. cbn [shas ahas aget orb].
    unfold L, opt_named. rewrite !existsb_map, existsb_orb. reflexivity.
  - exact Hget.
  - intros o Hin. cbn [has_option has_option_all get_option get_option_all].
    rewrite shas_sget, (longs_of_nodup_get L o Hnd Hin). split; reflexivity.
  - intros o s Hin Hs. cbn [has_option has_option_all get_option get_option_all].
    assert (shas s (shorts_of L []) = true) as Hsh.
    { rewrite shorts_of_has. cbn [shas ahas aget orb]. apply existsb_exists. exists o. split; [exact Hin|].
      rewrite Hs. apply str_eqb_refl. }
    split; [rewrite Hsh, orb_false_r; apply orb_true_r|].
    destruct (sget s (longs_of L)) as [o1|] eqn:G1.
    + apply longs_of_get in G1 as [Hin1 Hl1]. f_equal. apply (Huniq o s Hin Hs o1 Hin1). now left.
    + rewrite shas_sget in Hsh. destruct (sget s (shorts_of L [])) as [o2|] eqn:G2; [|discriminate].
      apply shorts_of_get in G2 as [G2|[Hin2 Hs2]]; [discriminate|]. f_equal. apply (Huniq o s Hin Hs o2 Hin2). now right.
Qed.

(* ---- clauses 1-3 again, with the hypotheses read off the option list of f ---- *)
Definition listed (f : fmt) (o : opt) : Prop := In o (map snd (get_options_all f)).
(* n is neither the long nor the short name of any option the format lists (own or inherited) *)
Definition unknown_name (f : fmt) (n : str) : bool := negb (existsb (fun no => opt_named (snd no) n) (get_options_all f)).
(* x is the short name of a listed option that takes no value *)
Definition is_flag (f : fmt) (x : N) : bool :=
  existsb (fun no => match o_short (snd no) with Some s => str_eqb s [x] | None => false end &&
                     negb (o_accepts (snd no)) && negb (o_required (snd no)) && negb (o_multi (snd no)))
          (get_options_all f).

Lemma named_get f f' o n : aug_opts_ok f f' -> listed f o -> opt_named o n = true ->
  has_option f' n true = true /\ get_option f' n true = Ok o.
Proof.
  intros Hao Hl Hn. unfold opt_named in Hn. apply orb_prop in Hn as [Hn|Hn].
  - destruct (str_eqb_spec n (o_long o)) as [->|]; [|discriminate]. apply (ao_long _ _ Hao), Hl.
  - destruct (o_short o) as [s|] eqn:Es; [|discriminate].
    destruct (str_eqb_spec n s) as [->|]; [|discriminate]. apply (ao_short _ _ Hao); assumption.
Qed.
Lemma unknown_has f f' n : aug_opts_ok f f' -> unknown_name f n = true -> has_option f' n true = false.
Proof. intros Hao Hu. rewrite (ao_has _ _ Hao). now apply negb_true_iff. Qed.
Lemma flag_listed f f' x : aug_opts_ok f f' -> is_flag f x = true -> flag_ok f' x = true.
Proof.
  intros Hao Hf. unfold is_flag in Hf. apply existsb_exists in Hf as ([k o] & Hin & Hc). cbn [snd] in Hc.
  apply andb_prop in Hc as [Hc Hm]. apply andb_prop in Hc as [Hc Hr]. apply andb_prop in Hc as [Hs Ha].
  destruct (o_short o) as [s|] eqn:Es; [|discriminate]. destruct (str_eqb_spec s [x]) as [->|]; [|discriminate].
  assert (listed f o) as Hl by (apply in_map_iff; exists (k, o); auto).
  destruct (ao_short _ _ Hao o [x] Hl Es) as [H1 H2]. destruct (ao_long _ _ Hao o Hl) as [H3 H4].
  unfold flag_ok. rewrite H1, H2, H3, H4, Ha, Hr, Hm. reflexivity.
Qed.
Lemma flags_listed f f' flags : aug_opts_ok f f' -> forallb (is_flag f) flags = true -> forallb (flag_ok f') flags = true.
Proof.
  intros Hao. rewrite !forallb_forall. intros H x Hx. eapply flag_listed; eauto.
Qed.

Section Listed.
  Context (f f' : fmt) (ar : list (str * arg)) (cns : list (str * cname)) (pre : list str) (st : pstate).
  Hypothesis Haug : aug_format f = Ok (f', ar, cns).
  Hypothesis Hscan : scans f' pre st.              (* the tokens before are processed without error ... *)
  Hypothesis Hdd : existsb is_dd pre = false.      (* ... and "--" is not among them *)

  Theorem unknown_long_option_listed name rest :
    name <> [] -> no_eq name = true -> unknown_name f name = true ->
    parse f false (pre ++ long_tok name :: rest) = Err NoSuchOption.
  Proof.
    intros Hne Hq Hu. eapply unknown_long_option; eauto. eapply unknown_has; eauto. eapply aug_format_opts; eauto.
  Qed.
  Theorem unknown_long_option_eq_listed name value rest :
    no_eq name = true -> unknown_name f name = true ->
    parse f false (pre ++ long_tok (name ++ EQ :: value) :: rest) = Err NoSuchOption.
  Proof.
    intros Hq Hu. eapply unknown_long_option_eq; eauto. eapply unknown_has; eauto. eapply aug_format_opts; eauto.
  Qed.
  Theorem unknown_short_option_listed flags c more rest :
    starts_dash (flags ++ c :: more) = false -> forallb (is_flag f) flags = true -> unknown_name f [c] = true ->
    parse f false (pre ++ short_tok (flags ++ c :: more) :: rest) = Err NoSuchOption.
  Proof.
    intros Hd Hf Hu. pose proof (aug_format_opts _ _ _ _ Haug) as Hao.
    eapply unknown_short_option; eauto; [eapply flags_listed; eauto|eapply unknown_has; eauto].
  Qed.

  Theorem flag_given_value_listed o name value rest :
    listed f o -> opt_named o name = true -> no_eq name = true -> o_accepts o = false ->
    parse f false (pre ++ long_tok (name ++ EQ :: value) :: rest) = Err CannotParse.
  Proof.
    intros Hl Hn Hq Ha. destruct (named_get f f' o name (aug_format_opts _ _ _ _ Haug) Hl Hn) as [Hh Hg].
    eapply flag_given_value; eauto.
  Qed.

  Theorem option_value_missing_listed o name rest :
    listed f o -> opt_named o name = true -> name <> [] -> no_eq name = true -> o_required o = true ->
    no_value_next rest = true ->
    parse f false (pre ++ long_tok name :: rest) = Err CannotParse.
  Proof.
    intros Hl Hn Hne Hq Hr Hnv. destruct (named_get f f' o name (aug_format_opts _ _ _ _ Haug) Hl Hn) as [Hh Hg].
    eapply option_value_missing; eauto.
  Qed.
  Theorem option_value_empty_listed o name rest :
    listed f o -> opt_named o name = true -> no_eq name = true -> o_required o = true ->
    parse f false (pre ++ long_tok (name ++ [EQ]) :: rest) = Err CannotParse.
  Proof.
    intros Hl Hn Hq Hr. destruct (named_get f f' o name (aug_format_opts _ _ _ _ Haug) Hl Hn) as [Hh Hg].
    eapply option_value_empty; eauto.
  Qed.
  Theorem short_option_value_missing_listed o flags c rest :
    listed f o -> o_short o = Some [c] -> o_required o = true ->
    starts_dash (flags ++ [c]) = false -> forallb (is_flag f) flags = true -> no_value_next rest = true ->
    parse f false (pre ++ short_tok (flags ++ [c]) :: rest) = Err CannotParse.
  Proof.
    intros Hl Hs Hr Hd Hf Hnv. pose proof (aug_format_opts _ _ _ _ Haug) as Hao.
    destruct (ao_short _ _ Hao o [c] Hl Hs) as [H1 H2]. destruct (ao_long _ _ Hao o Hl) as [H3 H4].
    eapply short_option_value_missing; eauto. eapply flags_listed; eauto.
  Qed.
End Listed.

Open Scope string_scope.
Example ex_unknown_long_listed : parse ex_f false (T ["server"; "x"; "--opt"; "--nope"; "y"]) = Err NoSuchOption.
Proof.
  assert (scans ex_f' (T ["server"; "x"; "--opt"]) (scan_st ex_f' (T ["server"; "x"; "--opt"]))) as Hs by (vm_compute; reflexivity).
  apply (unknown_long_option_listed ex_f ex_f' ex_far ex_fcn _ _ ex_f_aug Hs eq_refl (S_ "nope") (T ["y"]));
    [discriminate|reflexivity|vm_compute; reflexivity].
Qed.
Example ex_unknown_short_listed : parse ex_f false (T ["x"; "-vqzn"; "3"]) = Err NoSuchOption.
Proof.
  assert (scans ex_f' (T ["x"]) (scan_st ex_f' (T ["x"]))) as Hs by (vm_compute; reflexivity).
  apply (unknown_short_option_listed ex_f ex_f' ex_far ex_fcn _ _ ex_f_aug Hs eq_refl (S_ "vq") 122%N (S_ "n") (T ["3"]));
    vm_compute; reflexivity.
Qed.
Example ex_flag_given_value_listed : parse ex_f false (T ["srv"; "add"; "x"; "--verbose=1"; "--nope"]) = Err CannotParse.
Proof.
  assert (scans ex_f' (T ["srv"; "add"; "x"]) (scan_st ex_f' (T ["srv"; "add"; "x"]))) as Hs by (vm_compute; reflexivity).
  apply (flag_given_value_listed ex_f ex_f' ex_far ex_fcn _ _ ex_f_aug Hs eq_refl
           (mkopt "verbose" (Some "v") 4 VNone) (S_ "verbose") (S_ "1") (T ["--nope"])); [vm_compute; tauto|reflexivity..].
Qed.
Example ex_option_value_missing_listed : parse ex_f false (T ["x"; "--num"; "--verbose"]) = Err CannotParse.
Proof.
  assert (scans ex_f' (T ["x"]) (scan_st ex_f' (T ["x"]))) as Hs by (vm_compute; reflexivity).
  apply (option_value_missing_listed ex_f ex_f' ex_far ex_fcn _ _ ex_f_aug Hs eq_refl
           (mkopt "num" (Some "n") 520 VNone) (S_ "num") (T ["--verbose"])); [vm_compute; tauto|reflexivity|discriminate|reflexivity..].
Qed.
Example ex_short_option_value_missing_listed : parse ex_f false (T ["x"; "-vqn"; ""; "7"]) = Err CannotParse.
Proof.
  assert (scans ex_f' (T ["x"]) (scan_st ex_f' (T ["x"]))) as Hs by (vm_compute; reflexivity).
  apply (short_option_value_missing_listed ex_f ex_f' ex_far ex_fcn _ _ ex_f_aug Hs eq_refl
           (mkopt "num" (Some "n") 520 VNone) (S_ "vq") 110%N (T [""; "7"])); [vm_compute; tauto|reflexivity..].
Qed.
Example ex_unknown_long_eq_listed : parse ex_f false (T ["-v"; "--num"; "3"; "--nope=1"; "--also"]) = Err NoSuchOption.
Proof.
  assert (scans ex_f' (T ["-v"; "--num"; "3"]) (scan_st ex_f' (T ["-v"; "--num"; "3"]))) as Hs by (vm_compute; reflexivity).
  apply (unknown_long_option_eq_listed ex_f ex_f' ex_far ex_fcn _ _ ex_f_aug Hs eq_refl (S_ "nope") (S_ "1") (T ["--also"]));
    vm_compute; reflexivity.
Qed.
Example ex_option_value_empty_listed : parse ex_f false (T ["x"; "--num="; "3"]) = Err CannotParse.
Proof.
  assert (scans ex_f' (T ["x"]) (scan_st ex_f' (T ["x"]))) as Hs by (vm_compute; reflexivity).
  apply (option_value_empty_listed ex_f ex_f' ex_far ex_fcn _ _ ex_f_aug Hs eq_refl
           (mkopt "num" (Some "n") 520 VNone) (S_ "num") (T ["3"])); [vm_compute; tauto|reflexivity..].
Qed.
Close Scope string_scope.

(* ---- the lenient counterpart of each clause: the same line does not end in that parse error ---- *)
Section Lenient.
  Context (f f' : fmt) (ar : list (str * arg)) (cns : list (str * cname)).
  Hypothesis Haug : aug_format f = Ok (f', ar, cns).
  Hypothesis Hok : opts_ok f'.
  Let never := fun toks => lenient_no_parse_error f f' ar cns toks Haug Hok.

  Theorem unknown_long_option_lenient pre body rest : parse f true (pre ++ long_tok body :: rest) <> Err NoSuchOption.
  Proof. apply never. Qed.
  Theorem unknown_short_option_lenient pre body rest : parse f true (pre ++ short_tok body :: rest) <> Err NoSuchOption.
  Proof. apply never. Qed.
  Theorem unknown_option_lenient pre body rest :
    parse f true (pre ++ long_tok body :: rest) <> Err NoSuchOption /\ parse f true (pre ++ short_tok body :: rest) <> Err NoSuchOption.
  Proof. split; apply never. Qed.
  Theorem flag_given_value_lenient pre name value rest :
    parse f true (pre ++ long_tok (name ++ EQ :: value) :: rest) <> Err CannotParse.
  Proof. apply never. Qed.
  Theorem option_value_missing_lenient pre body rest :
    parse f true (pre ++ long_tok body :: rest) <> Err CannotParse /\ parse f true (pre ++ short_tok body :: rest) <> Err CannotParse.
  Proof. split; apply never. Qed.
  Theorem missing_argument_lenient toks : parse f true toks <> Err CannotParse.
  Proof. apply never. Qed.
  Theorem too_many_positionals_lenient pre tok rest : parse f true (pre ++ tok :: rest) <> Err CannotParse.
  Proof. apply never. Qed.
End Lenient.

(* ================= 10. the error kinds under a hypothesis that multi-valued options meet =================
   opts_ok (ParserLemmas) asks conv_input (o_default o) of EVERY option; a multi-valued option keeps the list []
   as default (Option.set_default, dec_opt), and conv_input (VList []) = false: strict_error_kinds, lenient_total
   and bad_option_value say nothing about a format with a multi-valued option.  The default of an option is only
   ever stored when its value is not required, so this suffices: *)
Definition opts_ok_w (f : fmt) : Prop :=
  forall n o, get_option f n true = Ok o ->
    (o_multi o = true -> o_required o = true) /\ (o_required o = false -> conv_input (o_default o) = true).
Lemma opts_ok_weaken f : opts_ok f -> opts_ok_w f.
Proof. intros H n o Ho. destruct (H n o Ho) as [H1 H2]. auto. Qed.

Lemma store_spec_w st n o v t :
  (o_multi o = true -> o_required o = true) -> (o_required o = false -> conv_input (o_default o) = true) ->
  st_plain st ->
  match store st n o v t with
  | Ok (st', t') => st_plain st' /\ t' = t /\ ps_args st' = ps_args st
  | Err k => pk k
  end.
Proof.
  intros Hm Hd Hp. unfold store. destruct (match v with Some [] => None | x => x end) as [s|].
  - destruct (o_multi o); (split; [apply st_plain_set; [assumption|intros ? HH; discriminate HH]|split; reflexivity]).
  - destruct (o_required o) eqn:Hr; [left; reflexivity|].
    destruct (o_multi o) eqn:Hmu; [discriminate (Hm eq_refl)|].
    split; [|split; reflexivity]. apply st_plain_set; [assumption|].
    destruct (o_optional o); intros d Hdd; inversion Hdd; subst. exact (Hd eq_refl).
Qed.
Lemma add_long_spec_w f st n v t :
  opts_ok_w f -> st_plain st ->
  match add_long_option f st n v t with
  | Ok (st', t') => st_plain st' /\ length t' <= length t /\ ps_args st' = ps_args st
  | Err k => pk k
  end.
Proof.
  intros Hok Hp. rewrite add_long_eq.
  destruct (has_option f n true) eqn:Hh; cbn [negb]; [|right; reflexivity].
  destruct (has_option_get f n Hh) as [o Ho]. cbn [get_option]. rewrite Ho. cbn [bind].
  destruct (Hok n o Ho) as [Hm Hd].
  destruct (match v with Some _ => negb (o_accepts o) | None => false end); [left; reflexivity|].
  destruct (look_suffix (o_accepts o) v t) as [c Hc].
  pose proof (store_spec_w st n o (fst (look (o_accepts o) v t)) (snd (look (o_accepts o) v t)) Hm Hd Hp) as H.
  destruct (store st n o _ _) as [[st' t']|k]; [|exact H].
  destruct H as (H1 & -> & H3). repeat split; auto. rewrite Hc at 2. rewrite app_length. lia.
Qed.
Lemma add_short_spec_w f st n v t :
  opts_ok_w f -> st_plain st ->
  match add_short_option f st n v t with
  | Ok (st', t') => st_plain st' /\ length t' <= length t /\ ps_args st' = ps_args st
  | Err k => pk k
  end.
Proof.
  intros Hok Hp. unfold add_short_option.
  destruct (has_option f n true) eqn:Hh; cbn [negb]; [|right; reflexivity].
  destruct (has_option_get f n Hh) as [o Ho]. cbn [get_option]. rewrite Ho. cbn [bind].
  apply add_long_spec_w; assumption.
Qed.
Lemma parse_long_spec_w f st tok t :
  opts_ok_w f -> st_plain st ->
  match parse_long_option f st tok t with
  | Ok (st', t') => st_plain st' /\ length t' <= length t /\ ps_args st' = ps_args st
  | Err k => pk k
  end.
Proof.
  intros Hok Hp. unfold parse_long_option.
  destruct (split_eq (skipn 2 tok) []) as [[n v]|]; [apply add_long_spec_w; assumption|].
  destruct (accepts f (skipn 2 tok)); [|apply add_long_spec_w; assumption].
  pose proof (take_value_len t) as Hl. destruct (take_value t) as [v t']. cbn [snd] in Hl.
  pose proof (add_long_spec_w f st (skipn 2 tok) v t' Hok Hp) as H.
  destruct (add_long_option f st (skipn 2 tok) v t') as [[st' t'']|k]; [|exact H].
  destruct H as (H1 & H2 & H3). repeat split; auto; lia.
Qed.
Lemma short_set_spec_w f : opts_ok_w f -> forall name st t, st_plain st ->
  st_plain (snd (short_set f st name t)) /\ ps_args (snd (short_set f st name t)) = ps_args st /\
  match fst (short_set f st name t) with
  | Ok (st', t') => st' = snd (short_set f st name t) /\ length t' <= length t
  | Err k => pk k
  end.
Proof.
  intros Hok. induction name as [|c rest IH]; intros st t Hp; cbn [short_set fst snd].
  - repeat split; auto.
  - destruct (has_option f [c] true) eqn:Hh; cbn [negb fst snd]; [|repeat split; auto; right; reflexivity].
    destruct (has_option_get f [c] Hh) as [o Ho]. cbn [get_option]. rewrite Ho.
    destruct (o_accepts o).
    + pose proof (add_long_spec_w f st (o_long o) (match rest with [] => None | _ => Some rest end) t Hok Hp) as H.
      destruct (add_long_option f st (o_long o) _ t) as [[st' t']|k]; cbn [fst snd].
      * destruct H as (H1 & H2 & H3). repeat split; auto.
      * repeat split; auto.
    + pose proof (add_long_spec_w f st (o_long o) None t Hok Hp) as H.
      destruct (add_long_option f st (o_long o) None t) as [[st' t']|k]; cbn [fst snd].
      * destruct H as (H1 & H2 & H3). destruct (IH st' t' H1) as (I1 & I2 & I3).
        split; [exact I1|]. split; [congruence|].
        destruct (fst (short_set f st' rest t')) as [[st2 t2]|k]; [|exact I3].
        destruct I3 as [I3 I4]. split; [exact I3|lia].
      * repeat split; auto.
Qed.
Lemma parse_short_spec_w f st tok t :
  opts_ok_w f -> st_plain st -> skipn 1 tok <> [] ->
  st_plain (snd (parse_short_option f st tok t)) /\ ps_args (snd (parse_short_option f st tok t)) = ps_args st /\
  match fst (parse_short_option f st tok t) with
  | Ok (st', t') => st' = snd (parse_short_option f st tok t) /\ length t' <= length t
  | Err k => pk k
  end.
Proof.
  intros Hok Hp Hne. unfold parse_short_option.
  destruct (skipn 1 tok) as [|c [|c2 rest]]; [contradiction| |].
  - destruct (accepts f [c]).
    + pose proof (take_value_len t) as Hl. destruct (take_value t) as [v t']. cbn [snd] in Hl.
      pose proof (add_short_spec_w f st [c] v t' Hok Hp) as H.
      destruct (add_short_option f st [c] v t') as [[st' t'']|k]; cbn [fst snd].
      * destruct H as (H1 & H2 & H3). repeat split; auto; lia.
      * repeat split; auto.
    + pose proof (add_short_spec_w f st [c] None t Hok Hp) as H.
      destruct (add_short_option f st [c] None t) as [[st' t'']|k]; cbn [fst snd].
      * destruct H as (H1 & H2 & H3). repeat split; auto.
      * repeat split; auto.
  - destruct (accepts f [c]).
    + pose proof (add_short_spec_w f st [c] (Some (c2 :: rest)) t Hok Hp) as H.
      destruct (add_short_option f st [c] (Some (c2 :: rest)) t) as [[st' t'']|k]; cbn [fst snd].
      * destruct H as (H1 & H2 & H3). repeat split; auto.
      * repeat split; auto.
    + apply short_set_spec_w; assumption.
Qed.
Lemma loop_spec_w f len : opts_ok_w f -> forall fuel p st tokens, st_plain st -> length tokens < fuel ->
  st_plain (fst (loop fuel f len p st tokens)) /\
  forall k, snd (loop fuel f len p st tokens) = Some k -> pk k.
Proof.
  intros Hok. induction fuel as [|fuel IH]; intros p st tokens Hp Hf; [lia|]. cbn [loop].
  destruct tokens as [|tok rest]; [cbn; split; [exact Hp|discriminate]|]. cbn [length] in Hf.
  assert (forall st', st_plain st' -> forall p' rest', length rest' <= length rest ->
            st_plain (fst (loop fuel f len p' st' rest')) /\
            forall k, snd (loop fuel f len p' st' rest') = Some k -> pk k) as Hrec.
  { intros. apply IH; [assumption|lia]. }
  assert (st_plain (fst (match parse_argument f len st tok with
                         | Ok st' => loop fuel f len p st' rest | Err k => (st, Some k) end)) /\
          forall k, snd (match parse_argument f len st tok with
                         | Ok st' => loop fuel f len p st' rest | Err k => (st, Some k) end) = Some k -> pk k) as Harg.
  { pose proof (parse_argument_spec f len st tok Hp) as H.
    destruct (parse_argument f len st tok) as [st'|k]; [apply Hrec; [assumption|lia]|].
    cbn. split; [exact Hp|]. intros k' Hk. inversion Hk; subst. left. reflexivity. }
  destruct (p && negb (nonempty tok)); [exact Harg|].
  destruct (p && is_dd tok); [apply Hrec; [assumption|lia]|].
  destruct (p && starts_dd tok).
  { pose proof (parse_long_spec_w f st tok rest Hok Hp) as H.
    destruct (parse_long_option f st tok rest) as [[st' rest']|k].
    - destruct H as (H1 & H2 & _). apply Hrec; assumption.
    - cbn. split; [exact Hp|]. intros k' Hk. inversion Hk; subst. exact H. }
  destruct (p && starts_dash tok && negb (str_eqb tok [DASH])) eqn:Hs; [|exact Harg].
  apply andb_prop in Hs as [Hs Hnd]. apply andb_prop in Hs as [_ Hsd].
  assert (skipn 1 tok <> []) as Hne by (apply starts_dash_skipn; [assumption|now destruct (str_eqb tok [DASH])]).
  destruct (parse_short_spec_w f st tok rest Hok Hp Hne) as (S1 & _ & S3).
  destruct (parse_short_option f st tok rest) as [[[st' rest']|k] st2]; cbn [fst snd] in *.
  - destruct S3 as [-> Hl]. apply Hrec; assumption.
  - split; [exact S1|]. intros k' Hk. inversion Hk; subst. exact S3.
Qed.

Theorem parse_error_kinds_w f len toks f' arguments cns :
  aug_format f = Ok (f', arguments, cns) -> opts_ok_w f' ->
  forall k, parse f len toks = Err k ->
    allowed k /\ (len = true -> k = ValueError).
Proof.
  intros Haug Hok k. unfold parse, parse_on. rewrite Haug.
  destruct (loop_spec_w f' len Hok (S (length toks)) true ps_empty toks st_plain_empty ltac:(lia)) as [Hp He].
  destruct (loop (S (length toks)) f' len true ps_empty toks) as [st1 e]. cbn [fst snd] in *.
  assert (forall k0, (match e with
                      | Some CannotParse | Some NoSuchOption => if len then None else e
                      | _ => e end) = Some k0 -> pk k0 /\ len = false) as Hfilter.
  { intros k0. destruct e as [k1|]; [|discriminate]. destruct (He k1 eq_refl) as [->| ->];
      (destruct len; [discriminate|]); intros H; inversion H; subst; split; auto; unfold pk; auto. }
  destruct (match e with
            | Some CannotParse | Some NoSuchOption => if len then None else e
            | _ => e end) as [k0|].
  - cbn [snd]. intros H. inversion H; subst. destruct (Hfilter k eq_refl) as [[->| ->] ->];
      (split; [unfold allowed; auto|discriminate]).
  - pose proof (insert_missing_spec arguments cns len st1) as Hi.
    destruct (insert_missing arguments cns len st1) as [st2|k2].
    + destruct (missing_required arguments st2 && negb len) eqn:Hm; cbn [snd].
      * intros H. inversion H; subst. split; [unfold allowed; auto|].
        intros ->. rewrite andb_false_r in Hm. discriminate.
      * destruct (set_arguments f {| ar_opts := []; ar_args := [] |} (ps_args st2)) as [a1|k1] eqn:Ea; cbn [bind].
        -- intros H. assert (k = ValueError) as ->; [|split; [unfold allowed; auto|auto]].
           eapply set_options_err; [|exact H]. intros n d Hin. rewrite Hi in Hin. eapply Hp; eauto.
        -- intros H. inversion H; subst. assert (k = ValueError) as -> by (eapply set_arguments_err; eauto).
           split; [unfold allowed; auto|auto].
    + cbn [snd]. intros H. inversion H; subst. destruct Hi as [-> ->]. split; [unfold allowed; auto|discriminate].
Qed.

Theorem lenient_no_parse_error_w f f' ar cns toks :
  aug_format f = Ok (f', ar, cns) -> opts_ok_w f' ->
  parse f true toks <> Err NoSuchOption /\ parse f true toks <> Err CannotParse.
Proof.
  intros Ha Hok. split; intros H; destruct (parse_error_kinds_w f true toks f' ar cns Ha Hok _ H) as [_ Hv];
    specialize (Hv eq_refl); discriminate.
Qed.

Theorem bad_option_value_w f f' ar cns toks st1 st2 n v :
  aug_format f = Ok (f', ar, cns) -> opts_ok_w f' -> scans f' toks st1 ->
  insert_missing ar cns false st1 = Ok st2 -> missing_required ar st2 = false ->
  In (n, v) (ps_opts st1) -> bad_opt f n v ->
  parse f false toks = Err ValueError.
Proof.
  intros Ha Hok Hs Hi Hm Hin Hb. rewrite (parse_after_scan _ _ _ _ _ _ Ha Hs), Hi, Hm.
  pose proof (insert_missing_spec ar cns false st1) as Ho. rewrite Hi in Ho.
  destruct (loop_spec_w f' false Hok (S (length toks)) true ps_empty toks st_plain_empty ltac:(lia)) as [Hp _].
  unfold scans in Hs. rewrite Hs in Hp. cbn [fst] in Hp.
  destruct (set_arguments f _ (ps_args st2)) as [a1|k] eqn:Ea; cbn [bind].
  - rewrite <- Ho in Hin. destruct (set_options_bad f n v Hb _ a1 Hin) as [k Hk]. rewrite Hk.
    rewrite (set_options_err f (ps_opts st2) a1 k); [reflexivity| |exact Hk].
    intros n0 d Hd. rewrite Ho in Hd. eapply Hp; eauto.
  - rewrite (set_arguments_err _ _ _ _ Ea). reflexivity.
Qed.

(* decidable sufficient condition, and the evidence that the stronger hypothesis excludes such formats *)
Definition opt_ok_wb (o : opt) : bool := (negb (o_multi o) || o_required o) && (o_required o || conv_input (o_default o)).
Fixpoint opts_ok_wb (f : fmt) : bool :=
  match f with Fmt b _ _ _ _ os oss _ _ =>
    forallb (fun no => opt_ok_wb (snd no)) os && forallb (fun no => opt_ok_wb (snd no)) oss &&
    match b with Some bf => opts_ok_wb bf | None => true end end.
Lemma opts_ok_wb_ok f : opts_ok_wb f = true -> opts_ok_w f.
Proof.
  unfold opts_ok_w. cbn [get_option].
  induction f as [cn co cs ar os oss hm ho|bf cn co cs ar os oss hm ho IH] using fmt_ind';
    cbn [opts_ok_wb get_option_all]; intros H n o Hg;
    apply andb_prop in H as [H Hb]; apply andb_prop in H as [H1 H2]; rewrite forallb_forall in H1, H2.
  all: assert (opt_ok_wb o = true -> (o_multi o = true -> o_required o = true) /\
                                     (o_required o = false -> conv_input (o_default o) = true)) as Hfin
    by (unfold opt_ok_wb; intros Hx; apply andb_prop in Hx as [Hx1 Hx2]; split;
        [intros Hmu; rewrite Hmu in Hx1; exact Hx1|intros Hr; rewrite Hr in Hx2; exact Hx2]).
  all: destruct (sget n os) as [o1|] eqn:E1; [inversion Hg; subst; apply Hfin, (H1 (n, o)), sget_in, E1|].
  all: destruct (sget n oss) as [o2|] eqn:E2; [inversion Hg; subst; apply Hfin, (H2 (n, o)), sget_in, E2|].
  - discriminate.
  - eapply IH; eauto.
Qed.

Open Scope string_scope.
(* ex_f plus a multi-valued option --tag/-t with the list default [] that Option.set_default gives it *)
Definition ex_h : fmt := fmt_of (ex_cnames ++ ex_args ++ ex_opts ++ [EOpt (mkopt "tag" (Some "t") 32 (VList []))]).
Definition ex_h' := fst (fst (aug_of ex_h)).  Definition ex_har := snd (fst (aug_of ex_h)).  Definition ex_hcn := snd (aug_of ex_h).
Lemma ex_h_aug : aug_format ex_h = Ok (ex_h', ex_har, ex_hcn).  Proof. vm_compute. reflexivity. Qed.
Example ex_h_not_opts_ok : ~ opts_ok ex_h'.
Proof.
  intros H. destruct (H (S_ "tag") (mkopt "tag" (Some "t") 32 (VList []))) as [_ Hc]; [vm_compute; reflexivity|].
  vm_compute in Hc. discriminate.
Qed.
Lemma ex_h_opts_ok_w : opts_ok_w ex_h'.  Proof. apply opts_ok_wb_ok. vm_compute. reflexivity. Qed.
Example ex_bad_multi_option_value : parse ex_h false (T ["x"; "-t"; "a"; "--num=abc"; "--tag"; "b"]) = Err ValueError.
Proof.
  pose (st1 := scan_st ex_h' (T ["x"; "-t"; "a"; "--num=abc"; "--tag"; "b"])).
  apply (bad_option_value_w ex_h ex_h' ex_har ex_hcn _ st1 (realigned ex_har ex_hcn st1) (S_ "num") (OStr (S_ "abc")) ex_h_aug ex_h_opts_ok_w).
  - vm_compute. reflexivity.
  - vm_compute. reflexivity.
  - vm_compute. reflexivity.
  - vm_compute. tauto.
  - split; [vm_compute; reflexivity|]. eexists. split; [vm_compute; reflexivity|].
    split; [vm_compute; reflexivity|]. split; [vm_compute; reflexivity|]. eexists. vm_compute. reflexivity.
Qed.

Example ex_lenient_w : parse ex_h true (T ["x"; "2"; "y"; "--nope"; "-t"; "--tag"]) <> Err NoSuchOption /\
                       parse ex_h true (T ["x"; "2"; "y"; "--nope"; "-t"; "--tag"]) <> Err CannotParse.
Proof. exact (lenient_no_parse_error_w ex_h ex_h' ex_har ex_hcn _ ex_h_aug ex_h_opts_ok_w). Qed.
Example ex_error_kinds_w : parse ex_h false (T ["x"; "--tag"]) = Err CannotParse /\ allowed CannotParse.
Proof.
  assert (parse ex_h false (T ["x"; "--tag"]) = Err CannotParse) as H by (vm_compute; reflexivity).
  split; [exact H|]. exact (proj1 (parse_error_kinds_w ex_h false _ ex_h' ex_har ex_hcn ex_h_aug ex_h_opts_ok_w _ H)).
Qed.

(* ---- observations: behaviour of the parser (model = implementation on these lines, C02 tie) that the
   property text does not forbid but that may surprise ---- *)
(* a value that does not convert is harmless when the same option is given again: the last one wins *)
Example overwritten_bad_value_accepted : exists r, parse ex_f false (T ["x"; "--num=abc"; "--num=3"]) = Ok r.
Proof. vm_compute. eexists. reflexivity. Qed.
(* a short name spelled with two dashes is a known option *)
Example short_name_with_two_dashes_accepted : exists r, parse ex_f false (T ["x"; "--v"]) = Ok r.
Proof. vm_compute. eexists. reflexivity. Qed.
(* "-" and negative numbers cannot be the value of "--num <value>" (they can with "--num=<value>") *)
Example dash_value_rejected : parse ex_f false (T ["x"; "--num"; "-5"]) = Err CannotParse /\
                              exists r, parse ex_f false (T ["x"; "--num=-5"]) = Ok r.
Proof. vm_compute. split; [reflexivity|eexists; reflexivity]. Qed.
Close Scope string_scope.
