(* C02, classification clauses: WHICH malformed command line gives WHICH error (strict mode).
   Everything is stated over the model of DefaultArgsParser in Model/Parser.v; f' is the augmented
   format the parser works on (aug_format f = Ok (f', arguments, command_names)).

   Plan of the file
     0. token shapes
     1. one iteration of the token loop as a function (step), "the loop gets as far as ..." (reach),
        "the loop processes all of pre" (scans); the first failing iteration decides the strict result
     2. clause 1  unknown option            -> NoSuchOption
     3. clause 2  value given to a flag     -> CannotParse
     4. clause 3  required value left out   -> CannotParse
     5. clause 5  too many positionals      -> CannotParse
     6. clause 4  required argument missing -> CannotParse
     7. clause 6  value does not convert    -> ValueError
     8. lenient counterparts, non-vacuity examples *)
From Coq Require Import Lia String Ascii.
From Clikit Require Import Base.Prelude Base.Res Model.Conv Model.Flags Model.Format Model.Parser
     Proofs.StrLemmas Proofs.FlagsLemmas Proofs.FormatLemmas Proofs.ParserLemmas.

(* ================= 0. token shapes ================= *)
Definition long_tok (body : str) : str := DASH :: DASH :: body.     (* "--" ++ body *)
Definition short_tok (body : str) : str := DASH :: body.            (* "-" ++ body *)
(* a non-empty token that starts with "-": never taken as the value of an option *)
Definition dashy (tok : str) : bool := nonempty tok && starts_dash tok.
Definition no_eq (s : str) : bool := forallb (fun c => negb (N.eqb c EQ)) s.

Lemma split_eq_found n v : forall acc, no_eq n = true -> split_eq (n ++ EQ :: v) acc = Some (rev acc ++ n, v).
Proof.
  induction n as [|c r IH]; intros acc Hn; cbn [app split_eq].
  - rewrite N.eqb_refl, app_nil_r. reflexivity.
  - cbn [no_eq forallb] in Hn. apply andb_prop in Hn as [Hc Hr].
    destruct (N.eqb c EQ); [discriminate|]. rewrite (IH (c :: acc) Hr). cbn [rev]. rewrite <- app_assoc. reflexivity.
Qed.
Lemma split_eq_none n : forall acc, no_eq n = true -> split_eq n acc = None.
Proof.
  induction n as [|c r IH]; intros acc Hn; cbn [split_eq]; [reflexivity|].
  cbn [no_eq forallb] in Hn. apply andb_prop in Hn as [Hc Hr].
  destruct (N.eqb c EQ); [discriminate|]. apply IH, Hr.
Qed.

(* ================= 1. the token loop, one iteration at a time ================= *)
(* the look-ahead of _add_long_option and what it stores, as separate functions *)
Definition look (acc : bool) (v : option str) (t : list str) : option str * list str :=
  match v, acc, t with
  | None, true, nxt :: rest =>
      if nonempty nxt && negb (starts_dash nxt) then (Some nxt, rest)
      else if negb (nonempty nxt) then (Some [], rest)
      else (None, t)
  | _, _, _ => (v, t)
  end.
Definition store (st : pstate) (name : str) (o : opt) (value : option str) (tokens : list str)
  : res (pstate * list str) :=
  match (match value with Some [] => None | v => v end) with
  | None =>
      if o_required o then Err CannotParse
      else if o_multi o then Err (Other 2)
      else
        let v := if o_optional o then ODefault (o_default o) else OTrue in
        Ok ({| ps_args := ps_args st; ps_opts := sset name v (ps_opts st) |}, tokens)
  | Some s =>
      if o_multi o then
        let l := match sget name (ps_opts st) with Some (OList l) => l | _ => [] end in
        Ok ({| ps_args := ps_args st; ps_opts := sset name (OList (l ++ [s])) (ps_opts st) |}, tokens)
      else Ok ({| ps_args := ps_args st; ps_opts := sset name (OStr s) (ps_opts st) |}, tokens)
  end.

Lemma add_long_eq f st n v t :
  add_long_option f st n v t =
  if negb (has_option f n true) then Err NoSuchOption else
  do o <- get_option f n true;
  if (match v with Some _ => negb (o_accepts o) | None => false end) then Err CannotParse else
  store st n o (fst (look (o_accepts o) v t)) (snd (look (o_accepts o) v t)).
Proof.
  unfold add_long_option, store, look.
  destruct (negb (has_option f n true)); [reflexivity|].
  destruct (get_option f n true) as [o|k]; cbn [bind]; [|reflexivity].
  destruct v as [s|]; [destruct (negb (o_accepts o)); reflexivity|].
  destruct (o_accepts o); [|reflexivity].
  destruct t as [|nxt rest]; [reflexivity|].
  destruct (nonempty nxt && negb (starts_dash nxt)); [reflexivity|].
  destruct (negb (nonempty nxt)); reflexivity.
Qed.

Lemma look_suffix acc v t : exists c, t = c ++ snd (look acc v t).
Proof.
  unfold look. destruct v as [s|]; [exists []; reflexivity|].
  destruct acc; [|exists []; reflexivity].
  destruct t as [|nxt rest]; [exists []; reflexivity|].
  destruct (nonempty nxt && negb (starts_dash nxt)); [exists [nxt]; reflexivity|].
  destruct (negb (nonempty nxt)); [exists [nxt]; reflexivity|exists []; reflexivity].
Qed.
(* a dashy token put behind the remaining tokens does not change the look-ahead *)
Lemma look_app acc v t tok r :
  (v <> None \/ t <> [] \/ dashy tok = true) ->
  look acc v (t ++ tok :: r) = (fst (look acc v t), snd (look acc v t) ++ tok :: r).
Proof.
  intros Hc. unfold look. destruct v as [s|]; [reflexivity|].
  destruct acc; [|reflexivity].
  destruct t as [|nxt rest]; cbn [app].
  - destruct Hc as [Hc|[Hc|Hc]]; [congruence|congruence|].
    unfold dashy in Hc. apply andb_prop in Hc as [H1 H2]. rewrite H1, H2. reflexivity.
  - destruct (nonempty nxt && negb (starts_dash nxt)); [reflexivity|].
    destruct (negb (nonempty nxt)); reflexivity.
Qed.
Lemma store_tokens st n o v t :
  store st n o v t = match store st n o v [] with Ok (st', _) => Ok (st', t) | Err k => Err k end.
Proof.
  unfold store. destruct (match v with Some [] => None | x => x end) as [s|].
  - destruct (o_multi o); reflexivity.
  - destruct (o_required o); [reflexivity|]. destruct (o_multi o); reflexivity.
Qed.
Lemma store_ok_tokens st n o v t st' t' : store st n o v t = Ok (st', t') -> t' = t.
Proof. rewrite store_tokens. destruct (store st n o v []) as [[s x]|k]; intros H; inversion H; reflexivity. Qed.
Lemma store_app st n o v t st' x : store st n o v t = Ok (st', t) -> store st n o v (t ++ x) = Ok (st', t ++ x).
Proof.
  rewrite (store_tokens st n o v t), (store_tokens st n o v (t ++ x)).
  destruct (store st n o v []) as [[s y]|k]; intros H; inversion H; reflexivity.
Qed.

Lemma add_long_suffix f st n v t st' t' : add_long_option f st n v t = Ok (st', t') -> exists c, t = c ++ t'.
Proof.
  rewrite add_long_eq. destruct (negb (has_option f n true)); [discriminate|].
  destruct (get_option f n true) as [o|k]; cbn [bind]; [|discriminate].
  destruct (match v with Some _ => negb (o_accepts o) | None => false end); [discriminate|].
  intros H. apply store_ok_tokens in H. subst t'. apply look_suffix.
Qed.
Lemma add_long_app f st n v t st' t' tok r :
  add_long_option f st n v t = Ok (st', t') -> (v <> None \/ t <> [] \/ dashy tok = true) ->
  add_long_option f st n v (t ++ tok :: r) = Ok (st', t' ++ tok :: r).
Proof.
  rewrite !add_long_eq. destruct (negb (has_option f n true)); [discriminate|].
  destruct (get_option f n true) as [o|k]; cbn [bind]; [|discriminate].
  destruct (match v with Some _ => negb (o_accepts o) | None => false end); [discriminate|].
  intros H Hc. rewrite (look_app _ _ _ _ _ Hc). cbn [fst snd].
  pose proof (store_ok_tokens _ _ _ _ _ _ _ H) as Ht. subst t'. apply store_app. exact H.
Qed.

Lemma take_value_suffix t : exists c, t = c ++ snd (take_value t).
Proof.
  destruct t as [|v r]; cbn [take_value]; [exists []; reflexivity|].
  destruct (nonempty v && starts_dash v); [exists []; reflexivity|exists [v]; reflexivity].
Qed.
Lemma take_value_app t tok r : (t <> [] \/ dashy tok = true) ->
  take_value (t ++ tok :: r) = (fst (take_value t), snd (take_value t) ++ tok :: r).
Proof.
  intros Hc. destruct t as [|v rest]; cbn [app take_value].
  - destruct Hc as [Hc|Hc]; [congruence|]. unfold dashy in Hc. rewrite Hc. reflexivity.
  - destruct (nonempty v && starts_dash v); reflexivity.
Qed.
(* what take_value leaves for the look-ahead of _add_long_option *)
Lemma take_value_cond t tok : (t <> [] \/ dashy tok = true) ->
  fst (take_value t) <> None \/ snd (take_value t) <> [] \/ dashy tok = true.
Proof.
  intros Hc. destruct t as [|v rest]; cbn [take_value].
  - destruct Hc as [Hc|Hc]; [congruence|auto].
  - destruct (nonempty v && starts_dash v); cbn [fst snd]; [right; left; discriminate|left; discriminate].
Qed.

Lemma app_suffix_trans {X} (t c1 t1 c2 t2 : list X) : t = c1 ++ t1 -> t1 = c2 ++ t2 -> exists c, t = c ++ t2.
Proof. intros -> ->. exists (c1 ++ c2). now rewrite app_assoc. Qed.

Lemma parse_long_suffix f st tk t st' t' : parse_long_option f st tk t = Ok (st', t') -> exists c, t = c ++ t'.
Proof.
  unfold parse_long_option. destruct (split_eq (skipn 2 tk) []) as [[n v]|]; [apply add_long_suffix|].
  destruct (accepts f (skipn 2 tk)); [|apply add_long_suffix].
  destruct (take_value_suffix t) as [c1 H1]. destruct (take_value t) as [v t2]. cbn [snd] in H1.
  intros H. apply add_long_suffix in H as [c2 H2]. eapply app_suffix_trans; eauto.
Qed.
Lemma parse_long_app f st tk t st' t' tok r :
  parse_long_option f st tk t = Ok (st', t') -> (t <> [] \/ dashy tok = true) ->
  parse_long_option f st tk (t ++ tok :: r) = Ok (st', t' ++ tok :: r).
Proof.
  unfold parse_long_option. intros H Hc.
  destruct (split_eq (skipn 2 tk) []) as [[n v]|].
  { apply add_long_app; [exact H|left; discriminate]. }
  destruct (accepts f (skipn 2 tk)).
  - rewrite (take_value_app _ _ _ Hc). pose proof (take_value_cond _ _ Hc) as Hc2.
    destruct (take_value t) as [v t2]. cbn [fst snd] in *. apply add_long_app; assumption.
  - apply add_long_app; [exact H|right; exact Hc].
Qed.

Lemma add_short_suffix f st n v t st' t' : add_short_option f st n v t = Ok (st', t') -> exists c, t = c ++ t'.
Proof.
  unfold add_short_option. destruct (negb (has_option f n true)); [discriminate|].
  destruct (get_option f n true) as [o|k]; cbn [bind]; [|discriminate]. apply add_long_suffix.
Qed.
Lemma add_short_app f st n v t st' t' tok r :
  add_short_option f st n v t = Ok (st', t') -> (v <> None \/ t <> [] \/ dashy tok = true) ->
  add_short_option f st n v (t ++ tok :: r) = Ok (st', t' ++ tok :: r).
Proof.
  unfold add_short_option. destruct (negb (has_option f n true)); [discriminate|].
  destruct (get_option f n true) as [o|k]; cbn [bind]; [|discriminate]. apply add_long_app.
Qed.

Lemma short_set_suffix f : forall name st t st' t',
  fst (short_set f st name t) = Ok (st', t') -> exists c, t = c ++ t'.
Proof.
  induction name as [|c rest IH]; intros st t st' t'; cbn [short_set fst].
  - intros H. inversion H. exists []. reflexivity.
  - destruct (negb (has_option f [c] true)); [discriminate|].
    destruct (get_option f [c] true) as [o|k]; [|discriminate].
    destruct (o_accepts o).
    + destruct (add_long_option f st (o_long o) _ t) as [[s1 t1]|k] eqn:E; cbn [fst]; [|discriminate].
      intros H. inversion H; subst. eapply add_long_suffix; eauto.
    + destruct (add_long_option f st (o_long o) None t) as [[s1 t1]|k] eqn:E; cbn [fst]; [|discriminate].
      intros H. apply add_long_suffix in E as [c1 E]. apply IH in H as [c2 H]. eapply app_suffix_trans; eauto.
Qed.
Lemma short_set_app f tok r : dashy tok = true -> forall name st t st' t',
  fst (short_set f st name t) = Ok (st', t') ->
  fst (short_set f st name (t ++ tok :: r)) = Ok (st', t' ++ tok :: r).
Proof.
  intros Hd. induction name as [|c rest IH]; intros st t st' t'; cbn [short_set fst].
  - intros H. inversion H. reflexivity.
  - destruct (negb (has_option f [c] true)); [discriminate|].
    destruct (get_option f [c] true) as [o|k]; [|discriminate].
    destruct (o_accepts o).
    + destruct (add_long_option f st (o_long o) _ t) as [[s1 t1]|k] eqn:E; cbn [fst]; [|discriminate].
      intros H. inversion H; subst.
      rewrite (add_long_app _ _ _ _ _ _ _ tok r E) by (right; right; exact Hd). reflexivity.
    + destruct (add_long_option f st (o_long o) None t) as [[s1 t1]|k] eqn:E; cbn [fst]; [|discriminate].
      intros H. rewrite (add_long_app _ _ _ _ _ _ _ tok r E) by (right; right; exact Hd). apply IH. exact H.
Qed.

Lemma parse_short_suffix f st tk t st' t' :
  fst (parse_short_option f st tk t) = Ok (st', t') -> exists c, t = c ++ t'.
Proof.
  unfold parse_short_option. destruct (skipn 1 tk) as [|c [|c2 rest]]; cbn [fst]; [discriminate| |].
  - destruct (accepts f [c]).
    + destruct (take_value_suffix t) as [c1 H1]. destruct (take_value t) as [v t2]. cbn [snd fst] in *.
      intros H. apply add_short_suffix in H as [c2 H2]. eapply app_suffix_trans; eauto.
    + cbn [fst]. apply add_short_suffix.
  - destruct (accepts f [c]); [cbn [fst]; apply add_short_suffix|apply short_set_suffix].
Qed.
Lemma parse_short_app f st tk t st' t' tok r : dashy tok = true ->
  fst (parse_short_option f st tk t) = Ok (st', t') ->
  fst (parse_short_option f st tk (t ++ tok :: r)) = Ok (st', t' ++ tok :: r).
Proof.
  intros Hd. unfold parse_short_option. destruct (skipn 1 tk) as [|c [|c2 rest]]; cbn [fst]; [discriminate| |].
  - destruct (accepts f [c]).
    + rewrite (take_value_app t tok r) by (right; exact Hd).
      destruct (take_value t) as [v t2]. cbn [fst snd]. intros H.
      rewrite (add_short_app _ _ _ _ _ _ _ tok r H) by (right; right; exact Hd). reflexivity.
    + cbn [fst]. intros H. rewrite (add_short_app _ _ _ _ _ _ _ tok r H) by (right; right; exact Hd). reflexivity.
  - destruct (accepts f [c]).
    + cbn [fst]. intros H. rewrite (add_short_app _ _ _ _ _ _ _ tok r H) by (left; discriminate). reflexivity.
    + apply short_set_app. exact Hd.
Qed.

(* ---- one iteration of the while loop of _parse: (parse_options, scratch state, remaining tokens) ---- *)
Definition step (f : fmt) (len p : bool) (st : pstate) (tok : str) (rest : list str)
  : res (bool * pstate * list str) :=
  if p && negb (nonempty tok) then
    match parse_argument f len st tok with Ok st' => Ok (p, st', rest) | Err k => Err k end
  else if p && is_dd tok then Ok (false, st, rest)
  else if p && starts_dd tok then
    match parse_long_option f st tok rest with Ok (st', rest') => Ok (p, st', rest') | Err k => Err k end
  else if p && starts_dash tok && negb (str_eqb tok [DASH]) then
    match fst (parse_short_option f st tok rest) with Ok (st', rest') => Ok (p, st', rest') | Err k => Err k end
  else
    match parse_argument f len st tok with Ok st' => Ok (p, st', rest) | Err k => Err k end.

Lemma loop_step_ok f len fuel p st tok rest p' st' rest' :
  step f len p st tok rest = Ok (p', st', rest') ->
  loop (S fuel) f len p st (tok :: rest) = loop fuel f len p' st' rest'.
Proof.
  unfold step. cbn [loop].
  destruct (p && negb (nonempty tok)).
  { destruct (parse_argument f len st tok) as [s|k]; intros H; inversion H; subst; reflexivity. }
  destruct (p && is_dd tok).
  { intros H; inversion H; subst; reflexivity. }
  destruct (p && starts_dd tok).
  { destruct (parse_long_option f st tok rest) as [[s r]|k]; intros H; inversion H; subst; reflexivity. }
  destruct (p && starts_dash tok && negb (str_eqb tok [DASH])).
  { destruct (parse_short_option f st tok rest) as [[[s r]|k] s2]; cbn [fst]; intros H; inversion H; subst; reflexivity. }
  destruct (parse_argument f len st tok) as [s|k]; intros H; inversion H; subst; reflexivity.
Qed.
Lemma loop_step_err f len fuel p st tok rest k :
  step f len p st tok rest = Err k -> snd (loop (S fuel) f len p st (tok :: rest)) = Some k.
Proof.
  unfold step. cbn [loop].
  destruct (p && negb (nonempty tok)).
  { destruct (parse_argument f len st tok) as [s|k']; intros H; inversion H; subst; reflexivity. }
  destruct (p && is_dd tok).
  { discriminate. }
  destruct (p && starts_dd tok).
  { destruct (parse_long_option f st tok rest) as [[s r]|k']; intros H; inversion H; subst; reflexivity. }
  destruct (p && starts_dash tok && negb (str_eqb tok [DASH])).
  { destruct (parse_short_option f st tok rest) as [[[s r]|k'] s2]; cbn [fst]; intros H; inversion H; subst; reflexivity. }
  destruct (parse_argument f len st tok) as [s|k']; intros H; inversion H; subst; reflexivity.
Qed.

Lemma step_suffix f len p st tok rest p' st' rest' :
  step f len p st tok rest = Ok (p', st', rest') ->
  (exists c, rest = c ++ rest') /\ p' = p && negb (is_dd tok).
Proof.
  unfold step.
  destruct (p && negb (nonempty tok)) eqn:C1.
  { destruct (parse_argument f len st tok) as [s|k]; intros H; inversion H; subst. split; [exists []; reflexivity|].
    apply andb_prop in C1 as [-> C1]. destruct tok; [reflexivity|discriminate]. }
  destruct (p && is_dd tok) eqn:C2.
  { intros H; inversion H; subst. split; [exists []; reflexivity|].
    apply andb_prop in C2 as [-> ->]. reflexivity. }
  assert (p = p && negb (is_dd tok)) as Hp.
  { destruct p; [|reflexivity]. cbn [andb] in C2. rewrite C2. reflexivity. }
  destruct (p && starts_dd tok).
  { destruct (parse_long_option f st tok rest) as [[s r]|k] eqn:E; intros H; inversion H; subst.
    split; [eapply parse_long_suffix; eauto|exact Hp]. }
  destruct (p && starts_dash tok && negb (str_eqb tok [DASH])).
  { destruct (fst (parse_short_option f st tok rest)) as [[s r]|k] eqn:E; intros H; inversion H; subst.
    split; [eapply parse_short_suffix; eauto|exact Hp]. }
  destruct (parse_argument f len st tok) as [s|k]; intros H; inversion H; subst.
  split; [exists []; reflexivity|exact Hp].
Qed.
Lemma step_len f len p st tok rest p' st' rest' :
  step f len p st tok rest = Ok (p', st', rest') -> length rest' <= length rest.
Proof. intros H. apply step_suffix in H as [[c ->] _]. rewrite app_length. lia. Qed.

Lemma step_app f len p st tok0 t p1 st1 t1 tok r : dashy tok = true ->
  step f len p st tok0 t = Ok (p1, st1, t1) ->
  step f len p st tok0 (t ++ tok :: r) = Ok (p1, st1, t1 ++ tok :: r).
Proof.
  intros Hd. unfold step.
  destruct (p && negb (nonempty tok0)).
  { destruct (parse_argument f len st tok0) as [s|k]; intros H; inversion H; subst; reflexivity. }
  destruct (p && is_dd tok0).
  { intros H; inversion H; subst; reflexivity. }
  destruct (p && starts_dd tok0).
  { destruct (parse_long_option f st tok0 t) as [[s x]|k] eqn:E; intros H; inversion H; subst.
    rewrite (parse_long_app _ _ _ _ _ _ tok r E) by (right; exact Hd). reflexivity. }
  destruct (p && starts_dash tok0 && negb (str_eqb tok0 [DASH])).
  { destruct (fst (parse_short_option f st tok0 t)) as [[s x]|k] eqn:E; intros H; inversion H; subst.
    rewrite (parse_short_app _ _ _ _ _ _ tok r Hd E). reflexivity. }
  destruct (parse_argument f len st tok0) as [s|k]; intros H; inversion H; subst; reflexivity.
Qed.

(* reach f len p st t p' st' t': iterating from (p, st, t) the loop arrives, without error, at (p', st', t') *)
Inductive reach (f : fmt) (len : bool) : bool -> pstate -> list str -> bool -> pstate -> list str -> Prop :=
| reach_here p st t : reach f len p st t p st t
| reach_next p st tok rest p1 st1 t1 p2 st2 t2 :
    step f len p st tok rest = Ok (p1, st1, t1) -> reach f len p1 st1 t1 p2 st2 t2 ->
    reach f len p st (tok :: rest) p2 st2 t2.

Lemma reach_loop f len p st t p' st' t' :
  reach f len p st t p' st' t' -> forall fuel, length t < fuel ->
  exists fuel', length t' < fuel' /\ loop fuel f len p st t = loop fuel' f len p' st' t'.
Proof.
  induction 1 as [p st t|p st tok rest p1 st1 t1 p2 st2 t2 Hs Hr IH]; intros fuel Hf.
  - exists fuel. split; [exact Hf|reflexivity].
  - destruct fuel as [|fuel]; [lia|]. cbn [length] in Hf.
    pose proof (step_len _ _ _ _ _ _ _ _ _ Hs) as Hl.
    destruct (IH fuel ltac:(lia)) as (fuel' & Hf' & Heq).
    exists fuel'. split; [exact Hf'|]. rewrite (loop_step_ok _ _ _ _ _ _ _ _ _ _ Hs). exact Heq.
Qed.

(* the strict token loop processes all of pre without error and ends in scratch state st *)
Definition scans (f : fmt) (pre : list str) (st : pstate) : Prop :=
  loop (S (length pre)) f false true ps_empty pre = (st, None).

Lemma scans_reach_gen f len tok r : dashy tok = true -> forall fuel pre p st0 st,
  length pre < fuel -> loop fuel f len p st0 pre = (st, None) -> existsb is_dd pre = false ->
  reach f len p st0 (pre ++ tok :: r) p st (tok :: r).
Proof.
  intros Hd. induction fuel as [|fuel IH]; intros pre p st0 st Hf Hl Hdd; [lia|].
  destruct pre as [|tok0 t].
  - cbn [loop] in Hl. inversion Hl; subst. apply reach_here.
  - cbn [length] in Hf. cbn [existsb] in Hdd. apply orb_false_elim in Hdd as [Hdd0 Hddt].
    destruct (step f len p st0 tok0 t) as [[[p1 st1] t1]|k] eqn:E.
    + rewrite (loop_step_ok _ _ _ _ _ _ _ _ _ _ E) in Hl.
      destruct (step_suffix _ _ _ _ _ _ _ _ _ E) as [[c Hc] Hp].
      rewrite Hdd0, andb_true_r in Hp. subst p1.
      cbn [app]. eapply reach_next; [apply step_app; eassumption|].
      apply IH; [subst t; rewrite app_length in Hf; lia|exact Hl|].
      subst t. rewrite existsb_app in Hddt. now apply orb_false_elim in Hddt as [_ ?].
    + pose proof (loop_step_err _ _ fuel _ _ _ _ _ E) as He. rewrite Hl in He. discriminate.
Qed.
Lemma scans_reach f pre st tok r :
  scans f pre st -> existsb is_dd pre = false -> dashy tok = true ->
  reach f false true ps_empty (pre ++ tok :: r) true st (tok :: r).
Proof. intros Hs Hdd Hd. eapply scans_reach_gen; eauto. Qed.

(* ---- the first failing iteration decides the result of a strict parse ---- *)
Theorem strict_error_at f f' ar cns toks p st tok rest k :
  aug_format f = Ok (f', ar, cns) ->
  reach f' false true ps_empty toks p st (tok :: rest) ->
  step f' false p st tok rest = Err k ->
  parse f false toks = Err k.
Proof.
  intros Haug Hr Hs. unfold parse, parse_on. rewrite Haug.
  destruct (reach_loop _ _ _ _ _ _ _ _ Hr (S (length toks)) ltac:(lia)) as (fuel' & Hf & Heq).
  rewrite Heq. destruct fuel' as [|fuel']; [cbn in Hf; lia|].
  pose proof (loop_step_err _ _ fuel' _ _ _ _ _ Hs) as He.
  destruct (loop (S fuel') f' false p st (tok :: rest)) as [st1 e]. cbn [snd] in He. subst e.
  destruct k; reflexivity.
Qed.
