(* C01: what the assignment [denote f d] of Model/Spell.v reports through the read side of Args -
   "reports exactly those values, reports the declared defaults for everything not given, marks as
   set exactly what was given".  These are facts about the definition of denote (they make it
   evident that it is the intended assignment); parse_spells transfers them to the parser. *)
From Coq Require Import Lia.
From Clikit Require Import Base.Prelude Base.Res Model.Conv Model.Flags Model.Format Model.Parser Model.Spell
     Proofs.StrLemmas Proofs.FormatLemmas Proofs.ParserLemmas Proofs.SpellOpts Proofs.SpellArgs.

(* ---------- options ---------- *)
Definition ev_key (e : opt * given) : str := o_long (fst e).
Definition mentions (k : str) (es : list (opt * given)) : bool := existsb (fun e => str_eqb k (ev_key e)) es.
(* the texts given to the option named k, in line order *)
Definition texts_of (k : str) (es : list (opt * given)) : list str :=
  flat_map (fun e => if str_eqb k (ev_key e) then match snd e with GText s => [s] | _ => [] end else []) es.
(* the value a single event gives *)
Definition event_value (e : opt * given) : pyval :=
  match snd e with
  | GTrue => VBool true
  | GDefault => conv_opt (fst e) (o_default (fst e))
  | GText s => conv_opt (fst e) (VStr s)
  end.

Lemma denote_event_key acc e : exists v, denote_event acc e = sset (ev_key e) v acc.
Proof.
  unfold denote_event, ev_key. destruct (snd e); [eauto|eauto|]. destruct (o_multi (fst e)); eauto.
Qed.
Lemma shas_sset {V} k k' (v : V) d : shas k (sset k' v d) = str_eqb k k' || shas k d.
Proof. rewrite !shas_sget. unfold sget, sset. rewrite sget_sset. destruct (str_eqb k k'); reflexivity. Qed.

(* marked as set: exactly the options that occur in the line *)
Lemma denote_keys k : forall es acc,
  shas k (fold_left denote_event es acc) = shas k acc || mentions k es.
Proof.
  induction es as [|e es IH]; intros acc; cbn [fold_left mentions existsb]; [now rewrite orb_false_r|].
  fold (mentions k es). rewrite IH. destruct (denote_event_key acc e) as [v ->]. rewrite shas_sset.
  destruct (str_eqb k (ev_key e)), (shas k acc); reflexivity.
Qed.

(* an event for another option does not change the entry of k *)
Lemma denote_event_other k acc e : str_eqb k (ev_key e) = false -> sget k (denote_event acc e) = sget k acc.
Proof.
  intros H. destruct (denote_event_key acc e) as [v ->]. unfold sget, sset. rewrite sget_sset, H. reflexivity.
Qed.
Lemma denote_others k : forall es acc, mentions k es = false -> sget k (fold_left denote_event es acc) = sget k acc.
Proof.
  induction es as [|e es IH]; intros acc H; cbn [fold_left]; [reflexivity|].
  cbn [mentions existsb] in H. apply orb_false_elim in H as [H1 H2]. rewrite IH by exact H2.
  apply denote_event_other. exact H1.
Qed.

(* a single-valued option reports the value of its last occurrence *)
Lemma denote_last k es1 e es2 acc :
  str_eqb k (ev_key e) = true -> mentions k es2 = false ->
  (match snd e with GText _ => o_multi (fst e) = false | _ => True end) ->
  sget k (fold_left denote_event (es1 ++ e :: es2) acc) = Some (event_value e).
Proof.
  intros Hk H2 Hs. rewrite fold_left_app. cbn [fold_left]. rewrite denote_others by exact H2.
  apply str_eqb_eq in Hk. subst k. unfold denote_event, event_value, ev_key.
  destruct (snd e) as [| |s]; try (unfold sget, sset; rewrite sget_sset, str_eqb_refl; reflexivity).
  rewrite Hs. unfold sget, sset. rewrite sget_sset, str_eqb_refl. reflexivity.
Qed.

(* a multi-valued option reports all its texts, converted, in line order *)
Lemma denote_multi o : o_multi o = true -> forall es acc l,
  (forall e, In e es -> str_eqb (o_long o) (ev_key e) = true -> fst e = o /\ exists s, snd e = GText s) ->
  sget (o_long o) acc = Some (VList l) ->
  sget (o_long o) (fold_left denote_event es acc) =
  Some (VList (l ++ map (fun s => conv_opt o (VStr s)) (texts_of (o_long o) es))).
Proof.
  intros Hm. induction es as [|e es IH]; intros acc l Hes Hacc; cbn [fold_left texts_of flat_map map].
  - rewrite app_nil_r. exact Hacc.
  - fold (texts_of (o_long o) es).
    assert (forall e0, In e0 es -> str_eqb (o_long o) (ev_key e0) = true -> fst e0 = o /\ exists s, snd e0 = GText s) as Hes'
      by (intros e0 Hi; apply Hes; now right).
    destruct (str_eqb (o_long o) (ev_key e)) eqn:Hk.
    + destruct (Hes e (or_introl eq_refl) Hk) as [Ho [s Hs]].
      rewrite (IH (denote_event acc e) (l ++ [conv_opt o (VStr s)])); [|exact Hes'|].
      * rewrite Hs. cbn [app map]. rewrite <- app_assoc. reflexivity.
      * unfold denote_event. rewrite Hs, Ho, Hm, Hacc. unfold sget, sset. rewrite sget_sset, str_eqb_refl. reflexivity.
    + cbn [app]. apply IH; [exact Hes'|]. rewrite denote_event_other by exact Hk. exact Hacc.
Qed.
Lemma denote_multi_first o : o_multi o = true -> forall es acc,
  (forall e, In e es -> str_eqb (o_long o) (ev_key e) = true -> fst e = o /\ exists s, snd e = GText s) ->
  sget (o_long o) acc = None -> mentions (o_long o) es = true ->
  sget (o_long o) (fold_left denote_event es acc) =
  Some (VList (map (fun s => conv_opt o (VStr s)) (texts_of (o_long o) es))).
Proof.
  intros Hm. induction es as [|e es IH]; intros acc Hes Hacc Hmen; [discriminate|].
  cbn [fold_left texts_of flat_map]. fold (texts_of (o_long o) es).
  assert (forall e0, In e0 es -> str_eqb (o_long o) (ev_key e0) = true -> fst e0 = o /\ exists s, snd e0 = GText s) as Hes'
    by (intros e0 Hi; apply Hes; now right).
  cbn [mentions existsb] in Hmen. fold (mentions (o_long o) es) in Hmen.
  destruct (str_eqb (o_long o) (ev_key e)) eqn:Hk.
  - destruct (Hes e (or_introl eq_refl) Hk) as [Ho [s Hs]]. rewrite Hs. cbn [app map].
    rewrite (denote_multi o Hm es (denote_event acc e) [conv_opt o (VStr s)] Hes'); [reflexivity|].
    unfold denote_event. rewrite Hs, Ho, Hm, Hacc. unfold sget, sset. rewrite sget_sset, str_eqb_refl. reflexivity.
  - cbn [app orb] in *. apply IH; [exact Hes'| |exact Hmen]. rewrite denote_event_other by exact Hk. exact Hacc.
Qed.

(* ---------- the read side of Args on denote: options ---------- *)
Section ReadOptions.
  Variables (f : fmt) (d : ld).

  (* marked as set exactly what was given *)
  Lemma denote_option_set n o : get_option f n true = Ok o -> has_option f n true = true ->
    args_is_option_set f (denote f d) n = mentions (o_long o) (events d).
  Proof.
    intros Hg Hh. unfold args_is_option_set, denote. cbn [ar_opts]. rewrite Hh, Hg. rewrite denote_keys. reflexivity.
  Qed.
  (* the declared default for everything not given *)
  Lemma denote_option_unset n o : get_option f n true = Ok o -> mentions (o_long o) (events d) = false ->
    args_option f (denote f d) n = Ok (opt_default_value o).
  Proof.
    intros Hg Hm. unfold args_option, denote. cbn [ar_opts]. rewrite Hg. cbn [bind].
    rewrite denote_others by exact Hm. reflexivity.
  Qed.
  (* a single-valued option: the (converted) value of its last occurrence *)
  Lemma denote_option_single n o es1 e es2 : get_option f n true = Ok o ->
    events d = es1 ++ e :: es2 -> ev_key e = o_long o -> mentions (o_long o) es2 = false ->
    (match snd e with GText _ => o_multi (fst e) = false | _ => True end) ->
    args_option f (denote f d) n = Ok (event_value e).
  Proof.
    intros Hg He Hk Hm Hs. unfold args_option, denote. cbn [ar_opts]. rewrite Hg. cbn [bind]. rewrite He.
    rewrite (denote_last (o_long o) es1 e es2 [] ); [reflexivity| |exact Hm|exact Hs]. rewrite Hk. apply str_eqb_refl.
  Qed.
  (* a multi-valued option: all its values, converted, in line order *)
  Lemma denote_option_multi n o : get_option f n true = Ok o -> get_option f (o_long o) true = Ok o ->
    Forall (ev_ok f) (events d) -> o_multi o = true -> mentions (o_long o) (events d) = true ->
    args_option f (denote f d) n = Ok (VList (map (fun s => conv_opt o (VStr s)) (texts_of (o_long o) (events d)))).
  Proof.
    intros Hg Hgl Hev Hm Hmen. unfold args_option, denote. cbn [ar_opts]. rewrite Hg. cbn [bind].
    rewrite (denote_multi_first o Hm (events d) []); [reflexivity| |reflexivity|exact Hmen].
    intros e Hin Hk. rewrite Forall_forall in Hev. destruct (Hev e Hin) as [[Hge _] Hmode].
    apply str_eqb_eq in Hk. unfold ev_key in Hk. rewrite <- Hk in Hge.
    assert (fst e = o) as Ho by congruence. split; [exact Ho|]. rewrite Ho in Hmode.
    destruct (snd e) as [| |s]; [| |eauto].
    - unfold is_flag in Hmode. rewrite Hm in Hmode. rewrite andb_false_r in Hmode. discriminate.
    - unfold is_bare in Hmode. rewrite Hm in Hmode. cbn [negb] in Hmode. rewrite andb_false_r in Hmode. discriminate.
  Qed.
End ReadOptions.

(* ---------- arguments ---------- *)
Lemma sget_place_typed : forall A V i n a, NoDup (map fst A) -> shape A V = true -> nth_error A i = Some (n, a) ->
  sget n (place_typed A V) =
  if i <? length V then Some (if a_multi a then VList (map (conv_arg a) (skipn i V)) else conv_arg a (nth i V []))
  else None.
Proof.
  induction A as [|[n1 a1] A' IH]; intros V i n a Hnd Hsh Hnth; [destruct i; discriminate|].
  destruct V as [|v V']; [reflexivity|]. cbn [place_typed shape] in *.
  apply NoDup_cons_iff in Hnd as [Hn1 Hnd']. destruct i as [|i'].
  - cbn [nth_error] in Hnth. inversion Hnth; subst. cbn [Nat.ltb Nat.leb length skipn nth].
    destruct (a_multi a); cbn [sget aget]; unfold sget; cbn [aget]; rewrite str_eqb_refl; reflexivity.
  - cbn [nth_error] in Hnth. destruct (a_multi a1).
    + destruct A'; [destruct i'; discriminate|discriminate].
    + assert (str_eqb n n1 = false) as Hne.
      { destruct (str_eqb_spec n n1) as [->|]; [|reflexivity]. exfalso. apply Hn1.
        apply nth_error_In in Hnth. apply (in_map fst) in Hnth. exact Hnth. }
      unfold sget. cbn [aget]. rewrite Hne. fold (@sget pyval). rewrite (IH V' i' n a Hnd' Hsh Hnth). reflexivity.
Qed.

Section ReadArguments.
  Variables (f : fmt) (d : ld).
  Hypothesis Hnd : NoDup (map fst (get_arguments_all f)).
  Hypothesis Hfit : fits (get_arguments_all f) (values d) = true.
  (* the i-th declared argument, reached through any reference r (its name or its position) *)
  Variables (i : nat) (a : arg) (r : aref).
  Hypothesis Hnth : nth_error (get_arguments_all f) i = Some (a_name a, a).
  Hypothesis Hget : get_argument f r true = Ok a.
  Hypothesis Hhas : has_argument f r true = true.

  Let value : pyval :=
    if a_multi a then VList (map (conv_arg a) (skipn i (values d))) else conv_arg a (nth i (values d) []).

  (* an argument is marked as set iff a value reached its position *)
  Lemma denote_argument_set : args_is_argument_set f (denote f d) r = (i <? length (values d)).
  Proof.
    unfold args_is_argument_set. rewrite Hhas, Hget. unfold denote. cbn [ar_args]. rewrite shas_sget.
    rewrite (sget_place_typed _ _ i (a_name a) a Hnd (fits_shape _ _ Hfit) Hnth).
    destruct (i <? length (values d)); reflexivity.
  Qed.
  (* it reports the converted value(s), or the declared default when none was given *)
  Lemma denote_argument_value :
    args_argument f (denote f d) r = Ok (if i <? length (values d) then value else a_default a).
  Proof.
    unfold args_argument. rewrite Hget. cbn [bind]. unfold denote. cbn [ar_args].
    rewrite (sget_place_typed _ _ i (a_name a) a Hnd (fits_shape _ _ Hfit) Hnth).
    destruct (i <? length (values d)); reflexivity.
  Qed.
End ReadArguments.
