(* Proofs about Model/GateIO.v (the IO layer of the gate, C10).
   1  lists: upd
   2  the gate of one output object: out_emits is Output._may_write, whatever the kind, stream, formatter, indentation
   3  what every world a history can reach has: valid verbosities, I/Os that name two different existing outputs
   4  the writing methods of IO: the gate law after any history
   5  the setters of the I/O reach both outputs and nothing else; a section made afterwards starts with them
   6  after any history the quiet flag / verbosity of an output are the LAST ones given to it
   7  raising verbosities / leaving quiet along a history never removes a write *)
From Coq Require Import Lia Arith.
From Clikit Require Import Base.Prelude Base.Res Model.Markup Model.Gate Model.GateIO Proofs.GateLemmas Proofs.GateMonoLemmas.

(* ---------- 1. upd ---------- *)
Lemma upd_length l i f : length (upd l i f) = length l.
Proof. revert i. induction l as [|x r IH]; intros [|i]; cbn [upd length]; auto. Qed.

Lemma upd_nth l f : forall i j, nth_error (upd l i f) j = if Nat.eqb i j then option_map f (nth_error l j) else nth_error l j.
Proof.
  induction l as [|x r IH]; intros [|i] [|j]; cbn [upd nth_error Nat.eqb option_map]; auto;
    try (destruct (Nat.eqb _ _); reflexivity).
Qed.

Lemma upd_Forall (P : ost -> Prop) l i f : (forall x, P x -> P (f x)) -> Forall P l -> Forall P (upd l i f).
Proof.
  intros Hf. revert i. induction l as [|x r IH]; intros i H; [destruct i; constructor|].
  inversion H; subst. destruct i; cbn [upd]; constructor; auto.
Qed.

Lemma upd_comm l f g : (forall x, f (g x) = g (f x)) -> forall a b, upd (upd l a f) b g = upd (upd l b g) a f.
Proof.
  intros Hc. induction l as [|x r IH]; intros [|a] [|b]; cbn [upd]; try reflexivity.
  - now rewrite Hc.
  - now rewrite IH.
Qed.

(* both outputs of an I/O: one function applied at two places (idempotent, so a = b would not matter either) *)
Lemma upd2_nth l f a b j : (forall x, f (f x) = f x) ->
  nth_error (upd (upd l a f) b f) j = if Nat.eqb a j || Nat.eqb b j then option_map f (nth_error l j) else nth_error l j.
Proof.
  intros Hi. rewrite upd_nth, upd_nth. destruct (Nat.eqb b j), (Nat.eqb a j); cbn [orb]; try reflexivity.
  destruct (nth_error l j); cbn [option_map]; [now rewrite Hi|reflexivity].
Qed.

(* ---------- 2. the gate of one output object ---------- *)
Lemma wm_has_path_section a m : exists p, path KSection a (meth_of_wm m) = Some p.
Proof. destruct a, m; cbn; eauto. Qed.
Lemma io_meth_has_path k a m : exists p, path k a (snd (fst (io_delegate m))) = Some p.
Proof. destruct k, a, m; cbn; eauto. Qed.
Lemma io_meth_takes_flags m : takes_flags (snd (fst (io_delegate m))) = true.
Proof. destruct m; reflexivity. Qed.
Lemma io_meth_hands_on_the_flags m : snd (io_delegate m) = FCaller.
Proof. destruct m; reflexivity. Qed.

(* every text-writing method an output object has - output or section (of any depth), decorated or not, whatever its stream,
   formatter and indentation - puts the text on the stream exactly when Output._may_write, asked with the object's OWN quiet
   flag and verbosity and the flags the method takes, says so *)
Lemma out_emits_gate o m fl : has_method o m = true ->
  out_emits o m fl = may_write (s_quiet o) (s_verb o) (if takes_flags m then fl else None).
Proof.
  unfold has_method, out_emits. destruct (path (kind_of o) (decorated o) m) as [p|] eqn:E; [|discriminate]. intros _.
  exact (gate_iff_lemma _ _ _ _ _ fl p E).
Qed.

Lemma out_emits_monotone o o' m fl : kind_of o = kind_of o' -> decorated o = decorated o' ->
  (s_quiet o' = true -> s_quiet o = true) -> (s_verb o <= s_verb o')%Z ->
  out_emits o m fl = true -> out_emits o' m fl = true.
Proof.
  unfold out_emits. intros <- <- Hq Hv H. destruct (s_quiet o') eqn:Eq'.
  - rewrite (Hq eq_refl), emits_quiet_lemma in H. discriminate.
  - eapply emits_monotone_lemma; eauto.
Qed.

(* ---------- 3. the worlds a history can reach ---------- *)
Lemma valid_verbosity_cases v : valid_verbosity v = true -> v = NORMAL \/ v = VERBOSE \/ v = VERY_VERBOSE \/ v = DEBUG.
Proof.
  unfold valid_verbosity. rewrite !orb_true_iff, !Z.eqb_eq. tauto.
Qed.
Lemma valid_verbosity_nonneg v : valid_verbosity v = true -> (0 <= v)%Z.
Proof. intros H. destruct (valid_verbosity_cases v H) as [-> | [-> | [-> | ->]]]; unfold NORMAL, VERBOSE, VERY_VERBOSE, DEBUG; lia. Qed.

Definition io_ok (n : nat) (ab : nat * nat) : Prop := fst ab < n /\ snd ab < n /\ fst ab <> snd ab.
Definition wf (w : world) : Prop :=
  Forall (fun o => valid_verbosity (s_verb o) = true) (w_outs w) /\ Forall (io_ok (length (w_outs w))) (w_ios w).

Lemma wf_world0 k sa se cs : wf (world0 k sa se cs).
Proof.
  split; cbn.
  - repeat constructor.
  - constructor; [|constructor]. unfold io_ok; cbn. lia.
Qed.

Lemma io_ok_mono n n' ab : n <= n' -> io_ok n ab -> io_ok n' ab.
Proof. unfold io_ok. lia. Qed.

Lemma wf_set_outs w i f : (forall x, valid_verbosity (s_verb x) = true -> valid_verbosity (s_verb (f x)) = true) ->
  wf w -> wf (set_outs w (upd (w_outs w) i f)).
Proof.
  intros Hf [H1 H2]. split; cbn [set_outs w_outs w_ios].
  - apply upd_Forall; assumption.
  - now rewrite upd_length.
Qed.
Lemma wf_on_out w o f : (forall x, valid_verbosity (s_verb x) = true -> valid_verbosity (s_verb (f x)) = true) ->
  wf w -> wf (fst (on_out w o f)).
Proof. intros Hf Hw. unfold on_out. destruct (nth_error (w_outs w) o); cbn [fst]; [now apply wf_set_outs|assumption]. Qed.
Lemma wf_on_both w i f : (forall x, valid_verbosity (s_verb x) = true -> valid_verbosity (s_verb (f x)) = true) ->
  wf w -> wf (fst (on_both w i f)).
Proof.
  intros Hf Hw. unfold on_both. destruct (nth_error (w_ios w) i) as [[a b]|]; cbn [fst]; [|assumption].
  destruct Hw as [H1 H2]. split; cbn [set_outs w_outs w_ios].
  - apply upd_Forall; [assumption|]. apply upd_Forall; assumption.
  - now rewrite !upd_length.
Qed.

Lemma wf_step w op : wf w -> wf (fst (step w op)).
Proof.
  intros Hw. destruct op; cbn [step].
  - destruct (io_delegate m) as [[t om] src]. destruct (nth_error (w_ios w) i); [|assumption].
    destruct (nth_error (w_outs w) _); assumption.
  - apply wf_on_both; auto.
  - destruct (nth_error (w_ios w) i); [|assumption]. destruct (valid_verbosity v) eqn:Ev; [|assumption].
    apply wf_on_both; auto.
  - destruct (nth_error (w_ios w) i); [|assumption]. exact Hw.
  - apply wf_on_both; auto.
  - apply wf_on_both; auto.
  - destruct (nth_error (w_ios w) i) as [[a b]|]; [|assumption].
    destruct (nth_error (w_outs w) a) as [oa|] eqn:Ea; [|assumption].
    destruct (nth_error (w_outs w) b) as [ob|] eqn:Eb; [|assumption].
    destruct (w_cansec w); [|assumption]. destruct Hw as [H1 H2]. split; cbn [fst w_outs w_ios].
    + apply Forall_app. split; [assumption|].
      pose proof (proj1 (Forall_forall _ _) H1) as HF.
      constructor; [|constructor; [|constructor]]; cbn [section_of s_verb]; apply HF; eapply nth_error_In; eauto.
    + rewrite app_length. cbn [length]. apply Forall_app. split.
      * eapply Forall_impl; [|exact H2]. intros ab. apply io_ok_mono. lia.
      * constructor; [|constructor]. unfold io_ok; cbn [fst snd]. lia.
  - destruct (nth_error (w_outs w) o); [|assumption]. destruct (has_method _ _); assumption.
  - apply wf_on_out; auto.
  - destruct (nth_error (w_outs w) o); [|assumption]. destruct (valid_verbosity v) eqn:Ev; [|assumption].
    apply wf_on_out; auto.
  - apply wf_on_out; auto.
  - apply wf_on_out; auto.
  - apply wf_on_out; auto.
  - destruct (nth_error (w_outs w) o) as [x|] eqn:Ex; [|assumption]. destruct Hw as [H1 H2]. split; cbn [fst w_outs w_ios].
    + apply Forall_app. split; [assumption|]. constructor; [|constructor]. cbn [section_of s_verb].
      apply (proj1 (Forall_forall _ _) H1). eapply nth_error_In; eauto.
    + rewrite app_length. cbn [length]. eapply Forall_impl; [|exact H2]. intros ab. apply io_ok_mono. lia.
Qed.

Lemma wf_exec : forall h w, wf w -> wf (exec w h).
Proof. unfold exec. induction h as [|op r IH]; intros w Hw; cbn [fold_left]; [assumption|]. apply IH, wf_step, Hw. Qed.

Lemma run_exec : forall h w, fst (run w h) = exec w h.
Proof.
  unfold exec. induction h as [|op r IH]; intros w; cbn [run fold_left]; [reflexivity|].
  destruct (step w op) as [w1 x] eqn:E. specialize (IH w1). destruct (run w1 r) as [w2 xs]. cbn [fst] in *. exact IH.
Qed.

(* the outputs an I/O of a reachable world names exist *)
Lemma wf_io_outputs w i a b : wf w -> nth_error (w_ios w) i = Some (a, b) ->
  (exists oa, nth_error (w_outs w) a = Some oa) /\ (exists ob, nth_error (w_outs w) b = Some ob) /\ a <> b.
Proof.
  intros [_ H2] Hi. pose proof (proj1 (Forall_forall _ _) H2 (a, b) (nth_error_In _ _ Hi)) as (Ha & Hb & Hn). cbn [fst snd] in *.
  repeat split; [| |assumption].
  - destruct (nth_error (w_outs w) a) eqn:E; [eauto|]. apply nth_error_None in E. lia.
  - destruct (nth_error (w_outs w) b) eqn:E; [eauto|]. apply nth_error_None in E. lia.
Qed.

(* ---------- 4. the writing methods of IO ---------- *)
(* in ANY world (any integer verbosities): the call changes nothing and its text goes to the stream of the output it delegates
   to exactly when that output's _may_write allows the caller's flags *)
Lemma io_write_step w i m fl ab o : nth_error (w_ios w) i = Some ab ->
  nth_error (w_outs w) (pick (fst (fst (io_delegate m))) ab) = Some o ->
  step w (IWrite i m fl) = (w, OWrote (s_sid o) (may_write (s_quiet o) (s_verb o) fl)).
Proof.
  intros Hi Ho. cbn [step]. pose proof (io_meth_has_path (kind_of o) (decorated o) m) as [p Hp].
  pose proof (io_meth_takes_flags m) as Ht. pose proof (io_meth_hands_on_the_flags m) as Hs.
  destruct (io_delegate m) as [[t om] src]. cbn [fst snd] in *. subst src. rewrite Hi, Ho. cbn [flags_given].
  rewrite out_emits_gate by (unfold has_method; now rewrite Hp). now rewrite Ht.
Qed.

(* after ANY history from the start: the iff of the property *)
Lemma io_gate_after_history k sa se cs h i m fl ab o :
  let w := fst (run (world0 k sa se cs) h) in
  nth_error (w_ios w) i = Some ab -> nth_error (w_outs w) (pick (fst (fst (io_delegate m))) ab) = Some o ->
  step w (IWrite i m fl) = (w, OWrote (s_sid o) (negb (s_quiet o) && (lowest_level fl <=? s_verb o)%Z)).
Proof.
  intros w Hi Ho. rewrite (io_write_step w i m fl ab o Hi Ho). f_equal. f_equal. apply may_write_level.
  assert (wf w) as [H1 _] by (unfold w; rewrite run_exec; apply wf_exec, wf_world0).
  apply valid_verbosity_nonneg. apply (proj1 (Forall_forall _ _) H1). eapply nth_error_In; eauto.
Qed.

(* the same for a text-writing method called on an output object itself *)
Lemma out_write_step w j m fl o : nth_error (w_outs w) j = Some o -> has_method o (meth_of_wm m) = true ->
  step w (OWrite j m fl) =
    (w, OWrote (s_sid o) (may_write (s_quiet o) (s_verb o) (if takes_flags (meth_of_wm m) then fl else None))).
Proof. intros Ho Hm. cbn [step]. rewrite Ho, Hm. now rewrite out_emits_gate. Qed.

Lemma reachable_wf k sa se cs h : wf (fst (run (world0 k sa se cs) h)).
Proof. rewrite run_exec. apply wf_exec, wf_world0. Qed.

(* ---------- 5. the setters of the I/O ---------- *)
Lemma put_quiet_idem q x : put_quiet q (put_quiet q x) = put_quiet q x. Proof. reflexivity. Qed.
Lemma put_verb_idem v x : put_verb v (put_verb v x) = put_verb v x. Proof. reflexivity. Qed.

Lemma on_both_spec w i a b f : (forall x, f (f x) = f x) -> nth_error (w_ios w) i = Some (a, b) ->
  let w' := fst (on_both w i f) in
  snd (on_both w i f) = ODone /\ w_ios w' = w_ios w /\ w_inter w' = w_inter w /\ w_cansec w' = w_cansec w /\
  length (w_outs w') = length (w_outs w) /\
  forall j, nth_error (w_outs w') j = if Nat.eqb a j || Nat.eqb b j then option_map f (nth_error (w_outs w) j) else nth_error (w_outs w) j.
Proof.
  intros Hi Hio. unfold on_both. rewrite Hio. cbn [fst snd set_outs w_ios w_outs w_inter w_cansec].
  repeat split; [now rewrite !upd_length|]. intros j. now apply upd2_nth.
Qed.

(* ---------- 6. the LAST value given ---------- *)
(* the quiet value / the verbosity a call gives to output j (in a world whose I/Os are those of w) *)
Definition gives_quiet (w : world) (op : iop) (j : nat) : option bool :=
  match op with
  | ISetQuiet i q => match nth_error (w_ios w) i with
                     | Some (a, b) => if Nat.eqb a j || Nat.eqb b j then Some q else None | None => None end
  | OSetQuiet o q => if Nat.eqb o j then Some q else None
  | _ => None
  end.
Definition gives_verb (w : world) (op : iop) (j : nat) : option Z :=
  match op with
  | ISetVerbosity i v => match nth_error (w_ios w) i with
                         | Some (a, b) => if (Nat.eqb a j || Nat.eqb b j) && valid_verbosity v then Some v else None | None => None end
  | OSetVerbosity o v => if Nat.eqb o j && valid_verbosity v then Some v else None
  | _ => None
  end.
Definition last_given {X} (gives : iop -> option X) (h : list iop) : option X :=
  fold_left (fun acc op => match gives op with Some x => Some x | None => acc end) h None.
Definition or_else {X} (o : option X) (d : X) : X := match o with Some x => x | None => d end.

(* wc is a world reached from w: the I/Os of w are still there, every I/O made since has outputs made since *)
Definition ext (w wc : world) : Prop :=
  exists extra, w_ios wc = w_ios w ++ extra /\
                Forall (fun ab : nat * nat => length (w_outs w) <= fst ab /\ length (w_outs w) <= snd ab) extra /\
                length (w_outs w) <= length (w_outs wc).
Lemma ext_refl w : ext w w.
Proof. exists []. rewrite app_nil_r. repeat split; auto. Qed.

Lemma ext_ios w wc i : ext w wc -> forall ab, nth_error (w_ios wc) i = Some ab ->
  nth_error (w_ios w) i = Some ab \/ (nth_error (w_ios w) i = None /\ length (w_outs w) <= fst ab /\ length (w_outs w) <= snd ab).
Proof.
  intros (extra & He & Hf & _) ab H. rewrite He in H. destruct (lt_dec i (length (w_ios w))) as [Hl|Hl].
  - left. now rewrite nth_error_app1 in H.
  - right. rewrite nth_error_app2 in H by lia. split; [apply nth_error_None; lia|].
    apply (proj1 (Forall_forall _ _) Hf ab). eapply nth_error_In; eauto.
Qed.
Lemma ext_ios_old w wc i ab : ext w wc -> nth_error (w_ios w) i = Some ab -> nth_error (w_ios wc) i = Some ab.
Proof. intros (extra & He & _) H. rewrite He. rewrite nth_error_app1; [assumption|]. apply nth_error_Some. congruence. Qed.

Lemma ext_set_outs w wc l : ext w wc -> length l = length (w_outs wc) -> ext w (set_outs wc l).
Proof. intros (extra & He & Hf & Hl) E. exists extra. cbn [set_outs w_ios w_outs]. rewrite E. auto. Qed.

Lemma ext_step w wc op : ext w wc -> ext w (fst (step wc op)).
Proof.
  intros He. destruct op; cbn [step].
  - destruct (io_delegate m) as [[t om] src]. destruct (nth_error (w_ios wc) i); [|assumption].
    destruct (nth_error (w_outs wc) _); assumption.
  - unfold on_both. destruct (nth_error (w_ios wc) i) as [[a b]|]; [|assumption]. apply ext_set_outs; [assumption|now rewrite !upd_length].
  - destruct (nth_error (w_ios wc) i) as [[a b]|] eqn:E; [|assumption]. destruct (valid_verbosity v); [|assumption].
    unfold on_both. rewrite E. apply ext_set_outs; [assumption|now rewrite !upd_length].
  - destruct (nth_error (w_ios wc) i); [|assumption]. exact He.
  - unfold on_both. destruct (nth_error (w_ios wc) i) as [[a b]|]; [|assumption]. apply ext_set_outs; [assumption|now rewrite !upd_length].
  - unfold on_both. destruct (nth_error (w_ios wc) i) as [[a b]|]; [|assumption]. apply ext_set_outs; [assumption|now rewrite !upd_length].
  - destruct (nth_error (w_ios wc) i) as [[a b]|]; [|assumption].
    destruct (nth_error (w_outs wc) a); [|assumption]. destruct (nth_error (w_outs wc) b); [|assumption].
    destruct (w_cansec wc); [|assumption]. destruct He as (extra & E & Hf & Hl).
    exists (extra ++ [(length (w_outs wc), S (length (w_outs wc)))]). cbn [fst w_ios w_outs]. rewrite E, app_assoc.
    repeat split; [|rewrite app_length; lia]. apply Forall_app. split; [assumption|]. constructor; [|constructor]. cbn [fst snd]. lia.
  - destruct (nth_error (w_outs wc) o); [|assumption]. destruct (has_method _ _); assumption.
  - unfold on_out. destruct (nth_error (w_outs wc) o); [|assumption]. apply ext_set_outs; [assumption|now rewrite upd_length].
  - destruct (nth_error (w_outs wc) o) eqn:E; [|assumption]. destruct (valid_verbosity v); [|assumption].
    unfold on_out. rewrite E. apply ext_set_outs; [assumption|now rewrite upd_length].
  - unfold on_out. destruct (nth_error (w_outs wc) o); [|assumption]. apply ext_set_outs; [assumption|now rewrite upd_length].
  - unfold on_out. destruct (nth_error (w_outs wc) o); [|assumption]. apply ext_set_outs; [assumption|now rewrite upd_length].
  - unfold on_out. destruct (nth_error (w_outs wc) o); [|assumption]. apply ext_set_outs; [assumption|now rewrite upd_length].
  - destruct (nth_error (w_outs wc) o); [|assumption]. destruct He as (extra & E & Hf & Hl). exists extra. cbn [fst w_ios w_outs].
    rewrite app_length. repeat split; auto. lia.
Qed.

(* one call, seen from output j of the starting world: the settings it has afterwards *)
Definition field_after {X} (given : option X) (before : option X) : option X :=
  match before with Some old => Some (or_else given old) | None => None end.

Lemma nth_app_old {X} (l l' : list X) j : j < length l -> nth_error (l ++ l') j = nth_error l j.
Proof. intros H. now apply nth_error_app1. Qed.

Lemma eqb_false_of_le a j : j < a -> Nat.eqb a j = false.
Proof. intros H. apply Nat.eqb_neq. lia. Qed.

Lemma step_quiet_of w wc op j : ext w wc -> j < length (w_outs w) ->
  option_map s_quiet (nth_error (w_outs (fst (step wc op))) j) =
  field_after (gives_quiet w op j) (option_map s_quiet (nth_error (w_outs wc) j)).
Proof.
  intros He Hj. assert (j < length (w_outs wc)) as Hjc by (destruct He as (_ & _ & _ & Hl); lia).
  destruct (nth_error (w_outs wc) j) as [x|] eqn:Ex; [|apply nth_error_None in Ex; lia].
  cbn [option_map field_after].
  assert (forall f, (forall y, s_quiet (f y) = s_quiet y) -> forall l, nth_error l j = Some x ->
          forall i, option_map s_quiet (nth_error (upd l i f) j) = Some (s_quiet x)) as Hkeep.
  { intros f Hf l Hl i. rewrite upd_nth, Hl. destruct (Nat.eqb i j); cbn [option_map]; now rewrite ?Hf. }
  assert (forall f, (forall y, s_quiet (f y) = s_quiet y) -> forall i,
          option_map s_quiet (nth_error (w_outs (fst (on_both wc i f))) j) = Some (s_quiet x)) as Hboth.
  { intros f Hf i. unfold on_both. destruct (nth_error (w_ios wc) i) as [[a b]|]; cbn [fst set_outs w_outs]; [|(cbn [fst w_outs]; now rewrite Ex)].
    rewrite upd_nth. destruct (Nat.eqb b j).
    - rewrite upd_nth, Ex. destruct (Nat.eqb a j); cbn [option_map]; now rewrite ?Hf.
    - apply Hkeep; assumption. }
  assert (forall f, (forall y, s_quiet (f y) = s_quiet y) -> forall o,
          option_map s_quiet (nth_error (w_outs (fst (on_out wc o f))) j) = Some (s_quiet x)) as Hone.
  { intros f Hf o. unfold on_out. destruct (nth_error (w_outs wc) o); cbn [fst set_outs w_outs]; [|(cbn [fst w_outs]; now rewrite Ex)]. now apply Hkeep. }
  destruct op; cbn [step gives_quiet or_else].
  - destruct (io_delegate m) as [[t om] src]. destruct (nth_error (w_ios wc) i) as [ab|]; [|(cbn [fst w_outs]; now rewrite Ex)].
    destruct (nth_error (w_outs wc) (pick t ab)); (cbn [fst w_outs]; now rewrite Ex).
  - (* io.set_quiet *)
    unfold on_both. destruct (nth_error (w_ios wc) i) as [[a b]|] eqn:Ei.
    + cbn [fst set_outs w_outs]. rewrite upd2_nth by reflexivity. rewrite Ex. cbn [option_map].
      destruct (ext_ios w wc i He _ Ei) as [Hw|(Hw & Ha & Hb)]; rewrite Hw.
      * destruct (Nat.eqb a j || Nat.eqb b j); reflexivity.
      * cbn [fst snd] in *. rewrite (eqb_false_of_le a j), (eqb_false_of_le b j) by lia. reflexivity.
    + cbn [fst]. rewrite Ex. destruct (nth_error (w_ios w) i) as [ab|] eqn:Ew; [|reflexivity].
      rewrite (ext_ios_old w wc i ab He Ew) in Ei. discriminate.
  - destruct (nth_error (w_ios wc) i); [|(cbn [fst w_outs]; now rewrite Ex)]. destruct (valid_verbosity v); [|(cbn [fst w_outs]; now rewrite Ex)]. now apply Hboth.
  - destruct (nth_error (w_ios wc) i); (cbn [fst w_outs]; now rewrite Ex).
  - now apply Hboth.
  - now apply Hboth.
  - destruct (nth_error (w_ios wc) i) as [[a b]|]; [|(cbn [fst w_outs]; now rewrite Ex)].
    destruct (nth_error (w_outs wc) a); [|(cbn [fst w_outs]; now rewrite Ex)]. destruct (nth_error (w_outs wc) b); [|(cbn [fst w_outs]; now rewrite Ex)].
    destruct (w_cansec wc); cbn [fst w_outs]; [|(cbn [fst w_outs]; now rewrite Ex)]. now rewrite nth_app_old, Ex.
  - destruct (nth_error (w_outs wc) o); [|(cbn [fst w_outs]; now rewrite Ex)]. destruct (has_method _ _); (cbn [fst w_outs]; now rewrite Ex).
  - (* output.set_quiet *)
    unfold on_out. destruct (nth_error (w_outs wc) o) eqn:Eo; cbn [fst set_outs w_outs].
    + rewrite upd_nth, Ex. destruct (Nat.eqb o j); reflexivity.
    + rewrite Ex. destruct (Nat.eqb o j) eqn:E; [|reflexivity]. apply Nat.eqb_eq in E. subst. congruence.
  - destruct (nth_error (w_outs wc) o); [|(cbn [fst w_outs]; now rewrite Ex)]. destruct (valid_verbosity v); [|(cbn [fst w_outs]; now rewrite Ex)]. now apply Hone.
  - now apply Hone.
  - now apply Hone.
  - now apply Hone.
  - destruct (nth_error (w_outs wc) o); cbn [fst w_outs]; [|(cbn [fst w_outs]; now rewrite Ex)]. now rewrite nth_app_old, Ex.
Qed.

Lemma step_verb_of w wc op j : ext w wc -> j < length (w_outs w) ->
  option_map s_verb (nth_error (w_outs (fst (step wc op))) j) =
  field_after (gives_verb w op j) (option_map s_verb (nth_error (w_outs wc) j)).
Proof.
  intros He Hj. assert (j < length (w_outs wc)) as Hjc by (destruct He as (_ & _ & _ & Hl); lia).
  destruct (nth_error (w_outs wc) j) as [x|] eqn:Ex; [|apply nth_error_None in Ex; lia].
  cbn [option_map field_after].
  assert (forall f, (forall y, s_verb (f y) = s_verb y) -> forall l, nth_error l j = Some x ->
          forall i, option_map s_verb (nth_error (upd l i f) j) = Some (s_verb x)) as Hkeep.
  { intros f Hf l Hl i. rewrite upd_nth, Hl. destruct (Nat.eqb i j); cbn [option_map]; now rewrite ?Hf. }
  assert (forall f, (forall y, s_verb (f y) = s_verb y) -> forall i,
          option_map s_verb (nth_error (w_outs (fst (on_both wc i f))) j) = Some (s_verb x)) as Hboth.
  { intros f Hf i. unfold on_both. destruct (nth_error (w_ios wc) i) as [[a b]|]; cbn [fst set_outs w_outs]; [|(cbn [fst w_outs]; now rewrite Ex)].
    rewrite upd_nth. destruct (Nat.eqb b j).
    - rewrite upd_nth, Ex. destruct (Nat.eqb a j); cbn [option_map]; now rewrite ?Hf.
    - apply Hkeep; assumption. }
  assert (forall f, (forall y, s_verb (f y) = s_verb y) -> forall o,
          option_map s_verb (nth_error (w_outs (fst (on_out wc o f))) j) = Some (s_verb x)) as Hone.
  { intros f Hf o. unfold on_out. destruct (nth_error (w_outs wc) o); cbn [fst set_outs w_outs]; [|(cbn [fst w_outs]; now rewrite Ex)]. now apply Hkeep. }
  destruct op; cbn [step gives_verb or_else].
  - destruct (io_delegate m) as [[t om] src]. destruct (nth_error (w_ios wc) i) as [ab|]; [|(cbn [fst w_outs]; now rewrite Ex)].
    destruct (nth_error (w_outs wc) (pick t ab)); (cbn [fst w_outs]; now rewrite Ex).
  - now apply Hboth.
  - (* io.set_verbosity *)
    destruct (nth_error (w_ios wc) i) as [[a b]|] eqn:Ei.
    + destruct (ext_ios w wc i He _ Ei) as [Hw|(Hw & Ha & Hb)]; rewrite Hw.
      * destruct (valid_verbosity v); [|rewrite andb_false_r; (cbn [fst w_outs]; now rewrite Ex)].
        unfold on_both. rewrite Ei. cbn [fst set_outs w_outs]. rewrite upd2_nth by reflexivity. rewrite Ex, andb_true_r.
        destruct (Nat.eqb a j || Nat.eqb b j); reflexivity.
      * cbn [fst snd or_else] in *. destruct (valid_verbosity v); [|(cbn [fst w_outs]; now rewrite Ex)].
        unfold on_both. rewrite Ei. cbn [fst set_outs w_outs]. rewrite upd2_nth by reflexivity.
        rewrite (eqb_false_of_le a j), (eqb_false_of_le b j) by lia. cbn [orb]. (cbn [fst w_outs]; now rewrite Ex).
    + cbn [fst]. rewrite Ex. destruct (nth_error (w_ios w) i) as [ab|] eqn:Ew; [|reflexivity].
      rewrite (ext_ios_old w wc i ab He Ew) in Ei. discriminate.
  - destruct (nth_error (w_ios wc) i); (cbn [fst w_outs]; now rewrite Ex).
  - now apply Hboth.
  - now apply Hboth.
  - destruct (nth_error (w_ios wc) i) as [[a b]|]; [|(cbn [fst w_outs]; now rewrite Ex)].
    destruct (nth_error (w_outs wc) a); [|(cbn [fst w_outs]; now rewrite Ex)]. destruct (nth_error (w_outs wc) b); [|(cbn [fst w_outs]; now rewrite Ex)].
    destruct (w_cansec wc); cbn [fst w_outs]; [|(cbn [fst w_outs]; now rewrite Ex)]. now rewrite nth_app_old, Ex.
  - destruct (nth_error (w_outs wc) o); [|(cbn [fst w_outs]; now rewrite Ex)]. destruct (has_method _ _); (cbn [fst w_outs]; now rewrite Ex).
  - now apply Hone.
  - (* output.set_verbosity *)
    destruct (nth_error (w_outs wc) o) eqn:Eo.
    + destruct (valid_verbosity v); [|rewrite andb_false_r; (cbn [fst w_outs]; now rewrite Ex)].
      unfold on_out. rewrite Eo. cbn [fst set_outs w_outs]. rewrite upd_nth, Ex, andb_true_r. destruct (Nat.eqb o j); reflexivity.
    + cbn [fst]. rewrite Ex. destruct (Nat.eqb o j) eqn:E; [|reflexivity]. apply Nat.eqb_eq in E. subst. congruence.
  - now apply Hone.
  - now apply Hone.
  - now apply Hone.
  - destruct (nth_error (w_outs wc) o); cbn [fst w_outs]; [|(cbn [fst w_outs]; now rewrite Ex)]. now rewrite nth_app_old, Ex.
Qed.

Lemma ext_exec : forall h w wc, ext w wc -> ext w (exec wc h).
Proof. unfold exec. induction h as [|op r IH]; intros w wc He; cbn [fold_left]; [assumption|]. apply IH, ext_step, He. Qed.

Lemma exec_snoc w h op : exec w (h ++ [op]) = fst (step (exec w h) op).
Proof. unfold exec. now rewrite fold_left_app. Qed.
Lemma last_given_snoc {X} (g : iop -> option X) h op :
  last_given g (h ++ [op]) = match g op with Some x => Some x | None => last_given g h end.
Proof. unfold last_given. now rewrite fold_left_app. Qed.

(* after ANY history (setters of every kind, set_stream, set_formatter, indent, section() at both levels, writes, calls that
   raise) the quiet flag and the verbosity of an output that existed at the start are the LAST ones a call gave it - or
   what it had, when no call gave it one *)
Lemma last_value_lemma w j o : nth_error (w_outs w) j = Some o -> forall h,
  option_map s_quiet (nth_error (w_outs (exec w h)) j) = Some (or_else (last_given (fun op => gives_quiet w op j) h) (s_quiet o)) /\
  option_map s_verb (nth_error (w_outs (exec w h)) j) = Some (or_else (last_given (fun op => gives_verb w op j) h) (s_verb o)).
Proof.
  intros Ho. assert (j < length (w_outs w)) as Hj by (apply nth_error_Some; congruence).
  induction h as [|op h IH] using rev_ind.
  - cbn. rewrite Ho. split; reflexivity.
  - destruct IH as [IHq IHv]. rewrite exec_snoc, !last_given_snoc.
    pose proof (ext_exec h w w (ext_refl w)) as He. split.
    + rewrite (step_quiet_of w _ op j He Hj), IHq. cbn [field_after]. destruct (gives_quiet w op j); reflexivity.
    + rewrite (step_verb_of w _ op j He Hj), IHv. cbn [field_after]. destruct (gives_verb w op j); reflexivity.
Qed.

(* ---------- 7. monotone along histories ---------- *)
(* op' is op, or the same setter leaving quiet where op entered it / giving a higher (valid) verbosity *)
Inductive raises : iop -> iop -> Prop :=
| r_same op : raises op op
| r_io_quiet i q q' : (q' = true -> q = true) -> raises (ISetQuiet i q) (ISetQuiet i q')
| r_out_quiet o q q' : (q' = true -> q = true) -> raises (OSetQuiet o q) (OSetQuiet o q')
| r_io_verb i v v' : valid_verbosity v = true -> valid_verbosity v' = true -> (v <= v')%Z ->
                     raises (ISetVerbosity i v) (ISetVerbosity i v')
| r_out_verb o v v' : valid_verbosity v = true -> valid_verbosity v' = true -> (v <= v')%Z ->
                      raises (OSetVerbosity o v) (OSetVerbosity o v').

Definition le_out (o o' : ost) : Prop :=
  (s_quiet o' = true -> s_quiet o = true) /\ (s_verb o <= s_verb o')%Z /\ s_indent o = s_indent o' /\ s_fk o = s_fk o' /\
  s_sid o = s_sid o' /\ s_sansi o = s_sansi o' /\ s_fo o = s_fo o' /\ s_sec o = s_sec o'.
Definition le_world (w w' : world) : Prop :=
  Forall2 le_out (w_outs w) (w_outs w') /\ w_ios w = w_ios w' /\ w_inter w = w_inter w' /\ w_cansec w = w_cansec w'.
Definition obs_le (x x' : obs) : Prop :=
  match x, x' with
  | OWrote s e, OWrote s' e' => s = s' /\ (e = true -> e' = true)
  | ODone, ODone | ONothing, ONothing => True
  | ORaised k, ORaised k' => k = k'
  | _, _ => False
  end.

Lemma le_out_refl o : le_out o o.
Proof. unfold le_out. repeat split; auto. lia. Qed.
Lemma le_world_refl w : le_world w w.
Proof. split; [|auto]. induction (w_outs w); constructor; auto using le_out_refl. Qed.

Lemma Forall2_nth {X} (R : X -> X -> Prop) l l' : Forall2 R l l' -> forall i,
  match nth_error l i, nth_error l' i with
  | Some x, Some x' => R x x'
  | None, None => True
  | _, _ => False
  end.
Proof.
  induction 1 as [|x x' l l' Hx _ IH]; intros [|i]; cbn [nth_error]; auto. apply IH.
Qed.
Lemma Forall2_len {X} (R : X -> X -> Prop) l l' : Forall2 R l l' -> length l = length l'.
Proof. induction 1; cbn [length]; congruence. Qed.
Lemma Forall2_upd (R : ost -> ost -> Prop) f f' : (forall x x', R x x' -> R (f x) (f' x')) ->
  forall l l', Forall2 R l l' -> forall i, Forall2 R (upd l i f) (upd l' i f').
Proof.
  intros Hf. induction 1 as [|x x' l l' Hx Hl IH]; intros [|i]; cbn [upd]; constructor; auto.
Qed.

Lemma le_out_emits o o' m fl : le_out o o' -> out_emits o m fl = true -> out_emits o' m fl = true.
Proof.
  intros (Hq & Hv & _ & Hk & _ & _ & Hfo & Hsec). apply out_emits_monotone; auto.
  - unfold kind_of. now rewrite Hsec.
  - unfold decorated. now rewrite Hfo, Hk.
Qed.
Lemma le_out_has_method o o' m : le_out o o' -> has_method o m = has_method o' m.
Proof. intros (_ & _ & _ & Hk & _ & _ & Hfo & Hsec). unfold has_method, kind_of, decorated. now rewrite Hsec, Hfo, Hk. Qed.
Lemma le_out_section o o' : le_out o o' -> le_out (section_of o) (section_of o').
Proof. intros (Hq & Hv & Hi & Hk & Hs & Ha & Hfo & Hsec). unfold le_out. cbn [section_of s_quiet s_verb s_indent s_fk s_sid s_sansi s_fo s_sec]. rewrite Hk, Ha. repeat split; auto. Qed.

Lemma le_on_out w w' o f f' : (forall x x', le_out x x' -> le_out (f x) (f' x')) -> le_world w w' ->
  le_world (fst (on_out w o f)) (fst (on_out w' o f')) /\ obs_le (snd (on_out w o f)) (snd (on_out w' o f')).
Proof.
  intros Hf (Ho & Hi & Hn & Hc). unfold on_out. pose proof (Forall2_nth _ _ _ Ho o) as Hn'.
  destruct (nth_error (w_outs w) o), (nth_error (w_outs w') o); try contradiction; cbn [fst snd obs_le]; split; auto.
  - split; [|cbn; auto]. cbn [set_outs w_outs]. now apply Forall2_upd.
  - repeat split; assumption.
Qed.
Lemma le_on_both w w' i f f' : (forall x x', le_out x x' -> le_out (f x) (f' x')) -> le_world w w' ->
  le_world (fst (on_both w i f)) (fst (on_both w' i f')) /\ obs_le (snd (on_both w i f)) (snd (on_both w' i f')).
Proof.
  intros Hf (Ho & Hi & Hn & Hc). unfold on_both. rewrite <- Hi.
  destruct (nth_error (w_ios w) i) as [[a b]|]; cbn [fst snd obs_le]; split; auto.
  - split; [|cbn; auto]. cbn [set_outs w_outs]. apply Forall2_upd; [assumption|]. now apply Forall2_upd.
  - repeat split; assumption.
Qed.

Lemma le_put_same (g : ost -> ost) :
  (forall x, s_quiet (g x) = s_quiet x) -> (forall x, s_verb (g x) = s_verb x) ->
  (forall x x', le_out x x' -> s_indent (g x) = s_indent (g x') /\ s_fk (g x) = s_fk (g x') /\ s_sid (g x) = s_sid (g x') /\
                s_sansi (g x) = s_sansi (g x') /\ s_fo (g x) = s_fo (g x') /\ s_sec (g x) = s_sec (g x')) ->
  forall x x', le_out x x' -> le_out (g x) (g x').
Proof.
  intros Hq Hv Hr x x' H. pose proof (Hr x x' H) as (A & B & C & D & E & F). destruct H as (Q & V & _).
  unfold le_out. rewrite !Hq, !Hv. repeat split; auto.
Qed.
Lemma le_put_indent incr n x x' : le_out x x' -> le_out (put_indent incr n x) (put_indent incr n x').
Proof. intros (Q & V & I & K & S & A & F & C). unfold le_out; cbn. rewrite I. repeat split; auto. Qed.
Lemma le_put_formatter k x x' : le_out x x' -> le_out (put_formatter k x) (put_formatter k x').
Proof. intros (Q & V & I & K & S & A & F & C). unfold le_out; cbn. rewrite A. repeat split; auto. Qed.
Lemma le_put_stream sid sa x x' : le_out x x' -> le_out (put_stream sid sa x) (put_stream sid sa x').
Proof. intros (Q & V & I & K & S & A & F & C). unfold le_out; cbn. rewrite K. repeat split; auto. Qed.
Lemma le_put_quiet q q' x x' : (q' = true -> q = true) -> le_out x x' -> le_out (put_quiet q x) (put_quiet q' x').
Proof. intros Hq (Q & V & I & K & S & A & F & C). unfold le_out; cbn. repeat split; auto. Qed.
Lemma le_put_verb v v' x x' : (v <= v')%Z -> le_out x x' -> le_out (put_verb v x) (put_verb v' x').
Proof. intros Hv (Q & V & I & K & S & A & F & C). unfold le_out; cbn. repeat split; auto. Qed.

Lemma step_le_same w w' op : le_world w w' ->
  le_world (fst (step w op)) (fst (step w' op)) /\ obs_le (snd (step w op)) (snd (step w' op)).
Proof.
  intros Hw. pose proof Hw as (Ho & Hi & Hn & Hc). destruct op; cbn [step].
  - destruct (io_delegate m) as [[t om] src]. rewrite <- Hi. destruct (nth_error (w_ios w) i) as [ab|]; [|cbn; auto].
    pose proof (Forall2_nth _ _ _ Ho (pick t ab)) as Hx.
    destruct (nth_error (w_outs w) (pick t ab)) as [x|], (nth_error (w_outs w') (pick t ab)) as [x'|]; try contradiction; cbn [fst snd obs_le]; auto.
    split; [assumption|]. split; [apply Hx|]. now apply le_out_emits.
  - apply le_on_both; [|assumption]. intros x x'. apply le_put_quiet. auto.
  - rewrite <- Hi. destruct (nth_error (w_ios w) i); [|cbn; auto]. destruct (valid_verbosity v); [|cbn; auto].
    apply le_on_both; [|assumption]. intros x x'. apply le_put_verb. lia.
  - rewrite <- Hi. destruct (nth_error (w_ios w) i); cbn [fst snd obs_le]; auto. split; [|exact I].
    split; [assumption|]. cbn. auto.
  - apply le_on_both; [|assumption]. intros x x'. apply le_put_formatter.
  - apply le_on_both; [|assumption]. intros x x'. apply le_put_indent.
  - rewrite <- Hi. destruct (nth_error (w_ios w) i) as [[a b]|]; [|cbn; auto].
    pose proof (Forall2_nth _ _ _ Ho a) as Ha. pose proof (Forall2_nth _ _ _ Ho b) as Hb.
    destruct (nth_error (w_outs w) a) as [oa|], (nth_error (w_outs w') a) as [oa'|]; try contradiction; [|cbn; auto].
    destruct (nth_error (w_outs w) b) as [ob|], (nth_error (w_outs w') b) as [ob'|]; try contradiction; [|cbn; auto].
    rewrite <- Hc. destruct (w_cansec w); cbn [fst snd obs_le]; auto. split; [|exact I].
    split; cbn [w_outs w_ios w_inter w_cansec].
    + apply Forall2_app; [assumption|]. constructor; [now apply le_out_section|]. constructor; [now apply le_out_section|constructor].
    + rewrite (Forall2_len _ _ _ Ho), Hi. auto.
  - pose proof (Forall2_nth _ _ _ Ho o) as Hx.
    destruct (nth_error (w_outs w) o) as [x|], (nth_error (w_outs w') o) as [x'|]; try contradiction; [|cbn; auto].
    rewrite <- (le_out_has_method x x' _ Hx). destruct (has_method x _); cbn [fst snd obs_le]; auto.
    split; [assumption|]. split; [apply Hx|]. now apply le_out_emits.
  - apply le_on_out; [|assumption]. intros x x'. apply le_put_quiet. auto.
  - pose proof (Forall2_nth _ _ _ Ho o) as Hx.
    destruct (nth_error (w_outs w) o) as [x|] eqn:E, (nth_error (w_outs w') o) as [x'|] eqn:E'; try contradiction; [|cbn; auto].
    destruct (valid_verbosity v); [|cbn; auto]. apply le_on_out; [|assumption]. intros y y'. apply le_put_verb. lia.
  - apply le_on_out; [|assumption]. intros x x'. apply le_put_formatter.
  - apply le_on_out; [|assumption]. intros x x'. apply le_put_stream.
  - apply le_on_out; [|assumption]. intros x x'. apply le_put_indent.
  - pose proof (Forall2_nth _ _ _ Ho o) as Hx.
    destruct (nth_error (w_outs w) o) as [x|], (nth_error (w_outs w') o) as [x'|]; try contradiction; cbn [fst snd obs_le]; auto.
    split; [|exact I]. split; cbn [w_outs w_ios w_inter w_cansec]; [|auto].
    apply Forall2_app; [assumption|]. constructor; [now apply le_out_section|constructor].
Qed.

Lemma step_le w w' op op' : le_world w w' -> raises op op' ->
  le_world (fst (step w op)) (fst (step w' op')) /\ obs_le (snd (step w op)) (snd (step w' op')).
Proof.
  intros Hw Hr. pose proof Hw as (Ho & Hi & Hn & Hc). destruct Hr as [op|i q q' Hq|o q q' Hq|i v v' Hv Hv' Hl|o v v' Hv Hv' Hl].
  - now apply step_le_same.
  - cbn [step]. apply le_on_both; [|assumption]. intros x x'. now apply le_put_quiet.
  - cbn [step]. apply le_on_out; [|assumption]. intros x x'. now apply le_put_quiet.
  - cbn [step]. rewrite <- Hi, Hv, Hv'. destruct (nth_error (w_ios w) i); [|cbn; auto].
    apply le_on_both; [|assumption]. intros x x'. now apply le_put_verb.
  - cbn [step]. rewrite Hv, Hv'. pose proof (Forall2_nth _ _ _ Ho o) as Hx.
    destruct (nth_error (w_outs w) o), (nth_error (w_outs w') o); try contradiction; [|cbn; auto].
    apply le_on_out; [|assumption]. intros y y'. now apply le_put_verb.
Qed.

Lemma run_le : forall h h', Forall2 raises h h' -> forall w w', le_world w w' ->
  Forall2 obs_le (snd (run w h)) (snd (run w' h')) /\ le_world (fst (run w h)) (fst (run w' h')).
Proof.
  induction 1 as [|op op' h h' Hop _ IH]; intros w w' Hw; cbn [run].
  - split; [constructor|assumption].
  - destruct (step_le w w' op op' Hw Hop) as [Hw1 Hx].
    destruct (step w op) as [w1 x], (step w' op') as [w1' x']. cbn [fst snd] in *.
    destruct (IH w1 w1' Hw1) as [Hxs Hw2]. destruct (run w1 h) as [w2 xs], (run w1' h') as [w2' xs']. cbn [fst snd] in *.
    split; [constructor; assumption|assumption].
Qed.

(* ---------- 8. set_quiet and set_verbosity commute (as whole worlds) ---------- *)
Lemma nth_error_ext {X} : forall (l l' : list X), (forall j, nth_error l j = nth_error l' j) -> l = l'.
Proof.
  induction l as [|x r IH]; intros [|x' r'] H.
  - reflexivity.
  - specialize (H 0). discriminate.
  - specialize (H 0). discriminate.
  - pose proof (H 0) as H0. cbn in H0. inversion H0; subst. f_equal. apply IH. intros j. exact (H (S j)).
Qed.
Lemma world_ext w w' : w_outs w = w_outs w' -> w_ios w = w_ios w' -> w_inter w = w_inter w' -> w_cansec w = w_cansec w' -> w = w'.
Proof. destruct w, w'; cbn. intros; subst; reflexivity. Qed.

Definition is_quiet_setter (s : iop) : bool := match s with ISetQuiet _ _ | OSetQuiet _ _ => true | _ => false end.
Definition is_verb_setter (s : iop) : bool := match s with ISetVerbosity _ _ | OSetVerbosity _ _ => true | _ => false end.
(* which outputs a gate setter reaches, and what it does to each *)
Definition setter_touch (w : world) (s : iop) (j : nat) : bool :=
  match s with
  | ISetQuiet i _ | ISetVerbosity i _ =>
    match nth_error (w_ios w) i with Some (a, b) => Nat.eqb a j || Nat.eqb b j | None => false end
  | OSetQuiet o _ | OSetVerbosity o _ => Nat.eqb o j
  | _ => false
  end.
Definition setter_fn (s : iop) : ost -> ost :=
  match s with
  | ISetQuiet _ q | OSetQuiet _ q => put_quiet q
  | ISetVerbosity _ v | OSetVerbosity _ v => if valid_verbosity v then put_verb v else (fun x => x)
  | _ => fun x => x
  end.
Lemma option_map_id {X} (o : option X) : option_map (fun x => x) o = o.
Proof. destruct o; reflexivity. Qed.

Lemma on_out_effect w o f :
  let w' := fst (on_out w o f) in
  w_ios w' = w_ios w /\ w_inter w' = w_inter w /\ w_cansec w' = w_cansec w /\
  forall j, nth_error (w_outs w') j = if Nat.eqb o j then option_map f (nth_error (w_outs w) j) else nth_error (w_outs w) j.
Proof.
  unfold on_out. destruct (nth_error (w_outs w) o) eqn:E; cbn [fst set_outs w_ios w_inter w_cansec w_outs]; repeat split.
  - intros j. apply upd_nth.
  - intros j. destruct (Nat.eqb o j) eqn:Ej; [|reflexivity]. apply Nat.eqb_eq in Ej. subst. now rewrite E.
Qed.
Lemma on_both_effect w i f : (forall x, f (f x) = f x) ->
  let w' := fst (on_both w i f) in
  w_ios w' = w_ios w /\ w_inter w' = w_inter w /\ w_cansec w' = w_cansec w /\
  forall j, nth_error (w_outs w') j =
            if match nth_error (w_ios w) i with Some (a, b) => Nat.eqb a j || Nat.eqb b j | None => false end
            then option_map f (nth_error (w_outs w) j) else nth_error (w_outs w) j.
Proof.
  intros Hi. unfold on_both. destruct (nth_error (w_ios w) i) as [[a b]|]; cbn [fst set_outs w_ios w_inter w_cansec w_outs]; repeat split.
  intros j. now apply upd2_nth.
Qed.

Lemma setter_effect w s : is_quiet_setter s || is_verb_setter s = true ->
  let w' := fst (step w s) in
  w_ios w' = w_ios w /\ w_inter w' = w_inter w /\ w_cansec w' = w_cansec w /\
  forall j, nth_error (w_outs w') j =
            if setter_touch w s j then option_map (setter_fn s) (nth_error (w_outs w) j) else nth_error (w_outs w) j.
Proof.
  destruct s; cbn [is_quiet_setter is_verb_setter orb]; try discriminate; intros _; cbn [step setter_touch setter_fn].
  - apply on_both_effect. reflexivity.
  - destruct (nth_error (w_ios w) i) as [[a b]|] eqn:Ei.
    + destruct (valid_verbosity v).
      * pose proof (on_both_effect w i (put_verb v) (fun x => eq_refl)) as H. rewrite Ei in H. exact H.
      * cbn [fst]. repeat split. intros j. rewrite option_map_id. now destruct (_ || _).
    + cbn [fst]. repeat split.
  - apply on_out_effect.
  - destruct (nth_error (w_outs w) o) eqn:Eo.
    + destruct (valid_verbosity v).
      * apply on_out_effect.
      * cbn [fst]. repeat split. intros j. rewrite option_map_id. now destruct (Nat.eqb o j).
    + cbn [fst]. repeat split. intros j. destruct (Nat.eqb o j) eqn:Ej; [|reflexivity]. apply Nat.eqb_eq in Ej. subst.
      rewrite Eo. reflexivity.
Qed.

Lemma setter_touch_ios w w' s j : w_ios w = w_ios w' -> setter_touch w s j = setter_touch w' s j.
Proof. intros E. destruct s; cbn [setter_touch]; try reflexivity; now rewrite E. Qed.

Lemma quiet_verb_fn_commute s1 s2 x : is_quiet_setter s1 = true -> is_verb_setter s2 = true ->
  setter_fn s2 (setter_fn s1 x) = setter_fn s1 (setter_fn s2 x).
Proof.
  destruct s1; cbn [is_quiet_setter]; try discriminate; destruct s2; cbn [is_verb_setter]; try discriminate; intros _ _;
    cbn [setter_fn]; destruct (valid_verbosity _); reflexivity.
Qed.

(* a set_quiet and a set_verbosity - each on an I/O or on an output, the same or different ones, valid or raising - leave
   the same world in either order *)
Lemma quiet_verb_commute w s1 s2 : is_quiet_setter s1 = true -> is_verb_setter s2 = true ->
  exec w [s1; s2] = exec w [s2; s1].
Proof.
  intros H1 H2. unfold exec. cbn [fold_left].
  assert (is_quiet_setter s1 || is_verb_setter s1 = true) as G1 by now rewrite H1.
  assert (is_quiet_setter s2 || is_verb_setter s2 = true) as G2 by (rewrite H2; apply orb_true_r).
  pose proof (setter_effect w s1 G1) as (A1 & B1 & C1 & D1). pose proof (setter_effect (fst (step w s1)) s2 G2) as (A2 & B2 & C2 & D2).
  pose proof (setter_effect w s2 G2) as (A3 & B3 & C3 & D3). pose proof (setter_effect (fst (step w s2)) s1 G1) as (A4 & B4 & C4 & D4).
  apply world_ext; try congruence. apply nth_error_ext. intros j. rewrite D2, D1, D4, D3.
  rewrite (setter_touch_ios _ w s2 j A1), (setter_touch_ios _ w s1 j A3).
  destruct (setter_touch w s2 j), (setter_touch w s1 j); try reflexivity.
  destruct (nth_error (w_outs w) j); cbn [option_map]; [|reflexivity]. now rewrite quiet_verb_fn_commute.
Qed.

(* ---------- 9. the setters of the I/O, in full ---------- *)
Lemma io_section_step w i a b oa ob : nth_error (w_ios w) i = Some (a, b) ->
  nth_error (w_outs w) a = Some oa -> nth_error (w_outs w) b = Some ob -> w_cansec w = true ->
  step w (ISection i) = ({| w_outs := w_outs w ++ [section_of oa; section_of ob];
                            w_ios := w_ios w ++ [(length (w_outs w), S (length (w_outs w)))];
                            w_inter := w_inter w; w_cansec := w_cansec w |}, ODone).
Proof. intros Hi Ha Hb Hc. cbn [step]. now rewrite Hi, Ha, Hb, Hc. Qed.

Lemma nth_error_app_at {X} (l : list X) x r : nth_error (l ++ x :: r) (length l) = Some x.
Proof. rewrite nth_error_app2 by lia. now rewrite Nat.sub_diag. Qed.
Lemma nth_error_app_at1 {X} (l : list X) x y r : nth_error (l ++ x :: y :: r) (S (length l)) = Some y.
Proof. rewrite nth_error_app2 by lia. replace (S (length l) - length l) with 1 by lia. reflexivity. Qed.

(* what a setter of the I/O that applies f to both outputs leaves, and what a section made right afterwards starts with *)
Lemma io_setter_both w i a b oa ob f : (forall x, f (f x) = f x) ->
  nth_error (w_ios w) i = Some (a, b) -> nth_error (w_outs w) a = Some oa -> nth_error (w_outs w) b = Some ob ->
  let w' := fst (on_both w i f) in
  snd (on_both w i f) = ODone /\
  nth_error (w_outs w') a = Some (f oa) /\ nth_error (w_outs w') b = Some (f ob) /\
  (forall j, j <> a -> j <> b -> nth_error (w_outs w') j = nth_error (w_outs w) j) /\
  w_ios w' = w_ios w /\ length (w_outs w') = length (w_outs w) /\
  (w_cansec w = true ->
   let w2 := fst (step w' (ISection i)) in
   snd (step w' (ISection i)) = ODone /\
   nth_error (w_ios w2) (length (w_ios w)) = Some (length (w_outs w), S (length (w_outs w))) /\
   nth_error (w_outs w2) (length (w_outs w)) = Some (section_of (f oa)) /\
   nth_error (w_outs w2) (S (length (w_outs w))) = Some (section_of (f ob))).
Proof.
  intros Hf Hi Ha Hb. pose proof (on_both_spec w i a b f Hf Hi) as (S1 & S2 & S3 & S4 & S5 & S6). cbn zeta in *.
  assert (nth_error (w_outs (fst (on_both w i f))) a = Some (f oa)) as Ea.
  { rewrite S6, Nat.eqb_refl, Ha. reflexivity. }
  assert (nth_error (w_outs (fst (on_both w i f))) b = Some (f ob)) as Eb.
  { rewrite S6, Nat.eqb_refl, orb_true_r, Hb. reflexivity. }
  repeat split; try assumption.
  - intros j Hja Hjb. rewrite S6. rewrite (proj2 (Nat.eqb_neq a j)), (proj2 (Nat.eqb_neq b j)) by congruence. reflexivity.
  - rewrite (io_section_step _ i a b (f oa) (f ob)); [reflexivity| | | |]; try assumption; congruence.
  - rewrite (io_section_step _ i a b (f oa) (f ob)); try assumption; try congruence. cbn [fst w_ios]. rewrite S2, S5.
    apply nth_error_app_at.
  - rewrite (io_section_step _ i a b (f oa) (f ob)); try assumption; try congruence. cbn [fst w_outs]. rewrite <- S5.
    apply nth_error_app_at.
  - rewrite (io_section_step _ i a b (f oa) (f ob)); try assumption; try congruence. cbn [fst w_outs]. rewrite <- S5.
    apply nth_error_app_at1.
Qed.

Lemma io_set_verbosity_valid w i ab v : nth_error (w_ios w) i = Some ab -> valid_verbosity v = true ->
  step w (ISetVerbosity i v) = on_both w i (put_verb v).
Proof. intros Hi Hv. cbn [step]. now rewrite Hi, Hv. Qed.
Lemma io_set_verbosity_invalid w i ab v : nth_error (w_ios w) i = Some ab -> valid_verbosity v = false ->
  step w (ISetVerbosity i v) = (w, ORaised ValueError).
Proof. intros Hi Hv. cbn [step]. now rewrite Hi, Hv. Qed.

(* sections made BEFORE a setter of the I/O is called keep what they have *)
Lemma older_section_untouched w i a b oa ob s : nth_error (w_ios w) i = Some (a, b) ->
  nth_error (w_outs w) a = Some oa -> nth_error (w_outs w) b = Some ob -> w_cansec w = true ->
  (exists q, s = ISetQuiet i q) \/ (exists v, s = ISetVerbosity i v) ->
  let w1 := fst (step w (ISection i)) in
  let w2 := fst (step w1 s) in
  nth_error (w_ios w2) (length (w_ios w)) = Some (length (w_outs w), S (length (w_outs w))) /\
  nth_error (w_outs w2) (length (w_outs w)) = Some (section_of oa) /\
  nth_error (w_outs w2) (S (length (w_outs w))) = Some (section_of ob).
Proof.
  intros Hi Ha Hb Hc Hs. cbn zeta. rewrite (io_section_step w i a b oa ob Hi Ha Hb Hc). cbn [fst].
  set (w1 := {| w_outs := _; w_ios := _; w_inter := _; w_cansec := _ |}).
  assert (a < length (w_outs w)) as La by (apply nth_error_Some; congruence).
  assert (b < length (w_outs w)) as Lb by (apply nth_error_Some; congruence).
  assert (nth_error (w_ios w1) i = Some (a, b)) as Hi1.
  { cbn [w1 w_ios]. rewrite nth_error_app1; [assumption|]. apply nth_error_Some. congruence. }
  assert (is_quiet_setter s || is_verb_setter s = true) as G by (destruct Hs as [[q ->]|[v ->]]; reflexivity).
  pose proof (setter_effect w1 s G) as (A & _ & _ & D). cbn zeta in *.
  assert (forall j, length (w_outs w) <= j -> setter_touch w1 s j = false) as Ht.
  { intros j Hj. destruct Hs as [[q ->]|[v ->]]; cbn [setter_touch]; rewrite Hi1;
      rewrite (proj2 (Nat.eqb_neq a j)), (proj2 (Nat.eqb_neq b j)) by lia; reflexivity. }
  split; [|split].
  - rewrite A. cbn [w1 w_ios]. apply nth_error_app_at.
  - rewrite D, Ht by lia. cbn [w1 w_outs]. apply nth_error_app_at.
  - rewrite D, Ht by lia. cbn [w1 w_outs]. apply nth_error_app_at1.
Qed.

(* Output.section() - on an output or on a section output (a section of a section) *)
Lemma out_section_step w j x : nth_error (w_outs w) j = Some x ->
  step w (OSection j) = ({| w_outs := w_outs w ++ [section_of x]; w_ios := w_ios w; w_inter := w_inter w; w_cansec := w_cansec w |}, ODone) /\
  s_quiet (section_of x) = s_quiet x /\ s_verb (section_of x) = s_verb x /\ s_indent (section_of x) = s_indent x /\
  s_sid (section_of x) = s_sid x /\ s_fk (section_of x) = s_fk x /\ s_sec (section_of x) = true.
Proof. intros H. cbn [step]. rewrite H. repeat split. Qed.

(* the gate of an output does not look at its stream, formatter, indentation or kind *)
Lemma out_gate_ignores_the_rest o o' m fl : s_quiet o = s_quiet o' -> s_verb o = s_verb o' ->
  has_method o (meth_of_wm m) = true -> has_method o' (meth_of_wm m) = true ->
  out_emits o (meth_of_wm m) fl = out_emits o' (meth_of_wm m) fl.
Proof. intros Hq Hv H1 H2. rewrite !out_emits_gate by assumption. now rewrite Hq, Hv. Qed.

Definition emitted (x : obs) : option bool := match x with OWrote _ e => Some e | _ => None end.

(* two histories that give the outputs of I/O i the same LAST quiet value and the same LAST verbosity leave every writing
   method of that I/O with the same answer - whatever else they did, in whatever order *)
Lemma same_last_values_same_gate w i a b h1 h2 : wf w -> nth_error (w_ios w) i = Some (a, b) ->
  (forall j, j = a \/ j = b ->
     last_given (fun op => gives_quiet w op j) h1 = last_given (fun op => gives_quiet w op j) h2 /\
     last_given (fun op => gives_verb w op j) h1 = last_given (fun op => gives_verb w op j) h2) ->
  forall m fl, emitted (snd (step (exec w h1) (IWrite i m fl))) = emitted (snd (step (exec w h2) (IWrite i m fl))).
Proof.
  intros Hw Hi Hl m fl.
  destruct (wf_io_outputs w i a b Hw Hi) as ([oa Ha] & [ob Hb] & _).
  set (j := pick (fst (fst (io_delegate m))) (a, b)).
  assert (j = a \/ j = b) as Hj by (unfold j, pick; destruct (fst (fst (io_delegate m))); cbn; auto).
  assert (exists o, nth_error (w_outs w) j = Some o) as [o Ho] by (destruct Hj as [-> | ->]; eauto).
  destruct (Hl j Hj) as [Lq Lv].
  destruct (last_value_lemma w j o Ho h1) as [Q1 V1]. destruct (last_value_lemma w j o Ho h2) as [Q2 V2].
  assert (forall h, nth_error (w_ios (exec w h)) i = Some (a, b)) as Hio.
  { intros h. apply (ext_ios_old w). apply ext_exec, ext_refl. assumption. }
  destruct (nth_error (w_outs (exec w h1)) j) as [o1|] eqn:E1; [|discriminate].
  destruct (nth_error (w_outs (exec w h2)) j) as [o2|] eqn:E2; [|discriminate].
  rewrite (io_write_step _ i m fl (a, b) o1 (Hio h1) E1), (io_write_step _ i m fl (a, b) o2 (Hio h2) E2).
  cbn [snd emitted option_map] in *. injection Q1 as Q1. injection Q2 as Q2. injection V1 as V1. injection V2 as V2.
  now rewrite Q1, Q2, V1, V2, Lq, Lv.
Qed.

Lemma io_setters_lemma : forall w i a b oa ob,
  nth_error (w_ios w) i = Some (a, b) -> nth_error (w_outs w) a = Some oa -> nth_error (w_outs w) b = Some ob ->
  (forall q, let r := step w (ISetQuiet i q) in let w' := fst r in
     snd r = ODone /\ nth_error (w_outs w') a = Some (put_quiet q oa) /\ nth_error (w_outs w') b = Some (put_quiet q ob) /\
     (forall j, j <> a -> j <> b -> nth_error (w_outs w') j = nth_error (w_outs w) j) /\
     w_ios w' = w_ios w /\ length (w_outs w') = length (w_outs w) /\
     (w_cansec w = true ->
      let w2 := fst (step w' (ISection i)) in
      snd (step w' (ISection i)) = ODone /\
      nth_error (w_ios w2) (length (w_ios w)) = Some (length (w_outs w), S (length (w_outs w))) /\
      nth_error (w_outs w2) (length (w_outs w)) = Some (section_of (put_quiet q oa)) /\
      nth_error (w_outs w2) (S (length (w_outs w))) = Some (section_of (put_quiet q ob)))) /\
  (forall v, valid_verbosity v = true -> let r := step w (ISetVerbosity i v) in let w' := fst r in
     snd r = ODone /\ nth_error (w_outs w') a = Some (put_verb v oa) /\ nth_error (w_outs w') b = Some (put_verb v ob) /\
     (forall j, j <> a -> j <> b -> nth_error (w_outs w') j = nth_error (w_outs w) j) /\
     w_ios w' = w_ios w /\ length (w_outs w') = length (w_outs w) /\
     (w_cansec w = true ->
      let w2 := fst (step w' (ISection i)) in
      snd (step w' (ISection i)) = ODone /\
      nth_error (w_ios w2) (length (w_ios w)) = Some (length (w_outs w), S (length (w_outs w))) /\
      nth_error (w_outs w2) (length (w_outs w)) = Some (section_of (put_verb v oa)) /\
      nth_error (w_outs w2) (S (length (w_outs w))) = Some (section_of (put_verb v ob)))) /\
  (forall v, valid_verbosity v = false -> step w (ISetVerbosity i v) = (w, ORaised ValueError)).
Proof.
  intros w i a b oa ob Hi Ha Hb. split; [|split].
  - intros q. exact (io_setter_both w i a b oa ob (put_quiet q) (put_quiet_idem q) Hi Ha Hb).
  - intros v Hv. cbn zeta. rewrite (io_set_verbosity_valid w i (a, b) v Hi Hv).
    exact (io_setter_both w i a b oa ob (put_verb v) (put_verb_idem v) Hi Ha Hb).
  - intros v Hv. exact (io_set_verbosity_invalid w i (a, b) v Hi Hv).
Qed.

Lemma io_monotone_lemma k sa se cs h h' : Forall2 raises h h' ->
  Forall2 obs_le (snd (run (world0 k sa se cs) h)) (snd (run (world0 k sa se cs) h')).
Proof. intros H. exact (proj1 (run_le h h' H _ _ (le_world_refl _))). Qed.
