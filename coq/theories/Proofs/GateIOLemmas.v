(* Proofs about Model/GateIO.v (the IO layer of the gate, C10). *)
From Coq Require Import Lia.
From Clikit Require Import Base.Prelude Base.Res Model.Markup Model.Gate Model.GateIO Proofs.GateLemmas Proofs.GateMonoLemmas.
