(* C13, the rendered text of a page in the proven region (layout_ok: every text that holds a "<" has only words that fit its
   wrap width, no hyphen in a tag name), through the plain formatter: WHITE SPACE ASIDE, what is written for an element is the
   visible form of its label followed by the visible form of its text - nothing is lost, nothing is added.  (vis x: the
   undecorated rendering of x, its white space dropped.)
   A. the undecorated rendering splits at a safe cut (where textwrap may put a line break in without a blank being there).
   B. the wrap loop keeps the visible characters.   C. one element.   D. the page; the section of a page. *)
From Coq Require Import Lia.
From Clikit Require Import Base.Prelude Base.Res Model.Conv Model.Flags Model.Format Model.Markup Model.Wrap Model.Help.
From Clikit Require Import Proofs.WrapLemmas Proofs.HelpLemmas Proofs.MarkupLemmas Proofs.LiteralLemmas Proofs.MarkupShrinkLemmas
  Proofs.HelpPlainLemmas Proofs.HelpCleanLemmas Proofs.HelpRenderLemmas Proofs.HelpBytesLemmas.

(* the raw text of every tag the scanner found ends with ">" *)
Definition done_gt (st : lexst) : Prop := Forall (fun sg => exists r, raw_text (snd sg) = r ++ [GT]) (l_done st).
Lemma lex_step_done_gt st c : done_gt st -> done_gt (lex_step st c).
Proof.
  intros H. destruct (lex_step_shape st c) as [[_ ->]|[[_ ->]|[(k & _ & _ & _ & ->)|(cl & nm & _ & ->)]]];
    unfold done_gt, mk; cbn [l_done]; auto.
  apply Forall_app. split; [exact H|]. constructor; [|constructor]. cbn [snd raw_text]. eexists. reflexivity.
Qed.
Lemma fold_done_gt m : forall st, done_gt st -> done_gt (fold_left lex_step m st).
Proof. induction m as [|c r IH]; intros st H; cbn [fold_left]; [exact H|]. apply IH, lex_step_done_gt, H. Qed.
Lemma scan_done_gt a : done_gt (scan a).
Proof. apply fold_done_gt. constructor. Qed.
Lemma scan_tagish a : lex_tagish (scan a).
Proof. apply lex_fold_tagish, lex_init_tagish. Qed.

Section Vis.
Variable sty : styles.

(* ================= A. splitting the rendering ================= *)
Lemma plain_segs_ends : forall d first, Forall (fun sg => exists r, raw_text (snd sg) = r ++ [GT]) d ->
  ends_with_bsl (plain_segs sty false first d) = false.
Proof.
  induction d as [|[pre t] r IH]; intros first H; [reflexivity|]. inversion H as [|? ? (r0 & Hr0) Hr]; subst. cbn [snd] in Hr0.
  cbn [plain_segs]. rewrite ends_app. destruct (kept sty (esc_of false first pre) t ++ plain_segs sty false false r) as [|z zs] eqn:E.
  - apply app_eq_nil in E as [E _]. unfold kept in E. rewrite Hr0 in E.
    destruct (esc_of false first pre || negb (recognised sty t)) eqn:Ec; [destruct r0; discriminate|].
    apply orb_false_elim in Ec as [Ec _]. now rewrite esc_of_false in Ec.
  - rewrite <- E, ends_app. destruct (plain_segs sty false false r) as [|y ys] eqn:Ep.
    + rewrite app_nil_r in E. unfold kept in *. destruct (esc_of false first pre || negb (recognised sty t)); [|discriminate].
      rewrite Hr0. now rewrite ends_snoc.
    + rewrite <- Ep. now apply IH.
Qed.
(* the output of a scanner started behind finished tags d and pending text c, position-0 rule off: the pending text must not end
   with a backslash - unless the first tag found behind it has text of its own in front *)
Lemma wout_glue0 d c st :
  (ends_with_bsl c = false \/ match l_done st with (p, _) :: _ => p <> [] | [] => True end) ->
  wout sty false (glue d c st) = plain_segs sty false true d ++ c ++ wout sty false st.
Proof.
  intros Hc. unfold wout, glue, mk. destruct (l_done st) as [|[p t] r]; cbn [l_done l_cur l_cand plain_segs app].
  - now rewrite <- !app_assoc.
  - rewrite plain_segs_app. cbn [plain_segs]. rewrite !esc_of_false, ends_app.
    assert (match p with [] => ends_with_bsl c | _ => ends_with_bsl p end = ends_with_bsl p) as ->.
    { destruct p; [|reflexivity]. destruct Hc as [Hc|Hc]; [exact Hc|congruence]. }
    now rewrite <- !app_assoc.
Qed.
Lemma wout_glue_head y0 c st : exists z, wout sty false (glue [] (y0 :: c) st) = y0 :: z.
Proof.
  unfold wout, glue, mk. destruct (l_done st) as [|[p t] r]; cbn [l_done l_cur l_cand plain_segs app]; eexists; reflexivity.
Qed.
Lemma scan_cons_text y0 Y : y0 <> LT -> scan (y0 :: Y) = glue [] [y0] (scan Y).
Proof.
  intros H. unfold scan. cbn [fold_left].
  assert (lex_step lex_init y0 = mk [] [y0] CText) as -> by (unfold lex_step, mk; apply N.eqb_neq in H; now rewrite H).
  now rewrite <- glue_init, glue_fold.
Qed.

(* the undecorated rendering of X ++ y0 :: Y is that of X followed by that of y0 :: Y when y0 neither continues a tag candidate
   pending behind X nor is a "<" directly behind a backslash (safe_cut) *)
Theorem plain_of_cut X y0 Y : safe_cut (scan X) y0 = true ->
  plain_of sty false (X ++ y0 :: Y) = plain_of sty false X ++ plain_of sty false (y0 :: Y).
Proof.
  intros Hsafe. pose proof (scan_tagish X) as Ht. pose proof (scan_done_gt X) as Hg. set (st := scan X) in *.
  unfold safe_cut in Hsafe. apply andb_prop in Hsafe as [Hc Hl]. apply negb_true_iff in Hc. apply negb_true_iff in Hl.
  pose proof (raw_ends st Ht) as Hraw. set (c' := l_cur st ++ raw_of (l_cand st)).
  assert (lex_step st y0 = glue (l_done st) c' (lex_step lex_init y0)) as EA.
  { destruct (N.eqb_spec y0 LT) as [->|Hne].
    - assert (lex_step st LT = mk (l_done st) (l_cur st ++ raw_of (l_cand st)) COpen) as ->.
      { unfold lex_step, mk. change (N.eqb LT LT) with true. cbv iota. now rewrite app_nil_r. }
      assert (lex_step lex_init LT = mk [] [] COpen) as -> by reflexivity.
      unfold glue, mk. cbn [l_done l_cur l_cand]. now rewrite app_nil_r.
    - assert (lex_step st y0 = mk (l_done st) (l_cur st ++ raw_of (l_cand st) ++ [y0]) CText) as ->.
      { unfold lex_step, mk. apply N.eqb_neq in Hne. rewrite Hne. destruct (l_cand st) as [| | |cl nm]; cbn [continues] in Hc.
        - reflexivity.
        - apply orb_false_elim in Hc as [-> ->]. reflexivity.
        - apply orb_false_elim in Hc as [-> ->]. reflexivity.
        - apply orb_false_elim in Hc as [-> ->]. reflexivity. }
      assert (lex_step lex_init y0 = mk [] [y0] CText) as -> by (unfold lex_step, mk; apply N.eqb_neq in Hne; now rewrite Hne).
      unfold glue, mk. cbn [l_done l_cur l_cand]. subst c'. now rewrite <- app_assoc. }
  assert (scan (X ++ y0 :: Y) = glue (l_done st) c' (scan (y0 :: Y))) as EB.
  { unfold scan at 1. rewrite fold_left_app. fold (scan X). fold st. cbn [fold_left]. rewrite EA, glue_fold. reflexivity. }
  assert (ends_with_bsl c' = false \/ y0 <> LT) as Hc'.
  { destruct (N.eqb_spec y0 LT) as [->|Hne]; [left|now right]. change (N.eqb LT LT) with true in Hl. cbn [andb] in Hl. subst c'.
    destruct (l_cand st) eqn:Ek; [cbn [raw_of]; now rewrite app_nil_r| | |];
      (apply ends_false_app; [exact Hraw|discriminate]). }
  assert (wout_of sty false (X ++ y0 :: Y) = wout_of sty false X ++ wout_of sty false (y0 :: Y)) as EC.
  { unfold wout_of. fold (scan (X ++ y0 :: Y)) (scan X) (scan (y0 :: Y)). fold st. rewrite EB, wout_glue0.
    - unfold wout at 2. subst c'. now rewrite <- !app_assoc.
    - destruct Hc' as [Hc'|Hne]; [now left|right]. rewrite (scan_cons_text y0 Y Hne), glue_done.
      destruct (l_done (scan Y)) as [|[p t] r]; [exact I|discriminate]. }
  unfold plain_of. fold (wout_of sty false (X ++ y0 :: Y)) (wout_of sty false X) (wout_of sty false (y0 :: Y)). rewrite EC.
  apply unescape_app. destruct (N.eqb_spec y0 LT) as [->|Hne].
  - left. unfold wout_of. fold (scan X). fold st. unfold wout. subst c'. rewrite ends_app.
    destruct (l_cur st ++ raw_of (l_cand st)) as [|z zs] eqn:Ec; [apply plain_segs_ends, Hg|].
    destruct Hc' as [Hc'|Hc']; [exact Hc'|congruence].
  - right. unfold wout_of. fold (scan (y0 :: Y)). rewrite (scan_cons_text y0 Y Hne).
    destruct (wout_glue_head y0 [] (scan Y)) as [z ->]. exact Hne.
Qed.

(* ---- the visible characters ---- *)
Definition vis (x : str) : str := filter nsp (plain_of sty false x).
Lemma vis_nil : vis [] = []. Proof. reflexivity. Qed.
Lemma blank_inert t : Forall (fun c => is_space c = true) t -> Forall inert t. Proof. apply inert_blank. Qed.
Lemma vis_blank_suffix x t : Forall (fun c => is_space c = true) t -> vis (x ++ t) = vis x.
Proof.
  intros Ht. unfold vis. rewrite !plain_of_render, render_inert_suffix by now apply blank_inert.
  now rewrite filter_app, (filter_nsp_spaces t Ht), app_nil_r.
Qed.
Lemma vis_blank_prefix t x : Forall (fun c => is_space c = true) t -> vis (t ++ x) = vis x.
Proof. intros Ht. unfold vis. rewrite plain_of_inert_prefix by now apply blank_inert. now rewrite filter_app, (filter_nsp_spaces t Ht). Qed.
Lemma vis_sep x r y : r <> [] -> Forall (fun c => is_space c = true) r -> vis (x ++ r ++ y) = vis x ++ vis y.
Proof.
  intros Hne Hr. destruct r as [|r1 r']; [congruence|]. inversion Hr as [|? ? H1 H2]; subst. cbn [app].
  unfold vis. rewrite (plain_of_sep sty false x r1 (r' ++ y) (inert_space r1 H1)).
  rewrite plain_of_inert_prefix by now apply blank_inert.
  change (plain_of sty false x ++ r1 :: r' ++ plain_of sty false y) with (plain_of sty false x ++ (r1 :: r') ++ plain_of sty false y).
  now rewrite !filter_app, (filter_nsp_spaces (r1 :: r') Hr).
Qed.
Lemma vis_cut X y0 Y : safe_cut (scan X) y0 = true -> vis (X ++ y0 :: Y) = vis X ++ vis (y0 :: Y).
Proof. intros H. unfold vis. now rewrite (plain_of_cut X y0 Y H), filter_app. Qed.
Lemma unescape_no_lt : forall s, no_lt s -> unescape s = s.
Proof.
  induction s as [|c|c d r IHr IHd] using list_ind2; intros H; [reflexivity|reflexivity|].
  rewrite unescape_cons2. inversion H as [|? ? Hc Hdr]; subst. inversion Hdr as [|? ? Hd Hr]; subst.
  apply N.eqb_neq in Hd. rewrite Hd, andb_false_r. f_equal. now apply IHd.
Qed.
Lemma vis_text t : no_lt t -> vis t = filter nsp t.
Proof. intros H. unfold vis, plain_of. fold (scan t). rewrite (scan_text t H). unfold wout, mk. cbn [l_done l_cur l_cand plain_segs raw_of app]. now rewrite app_nil_r, unescape_no_lt. Qed.
Lemma vis_nsp x : filter nsp (vis x) = vis x.
Proof.
  unfold vis. induction (plain_of sty false x) as [|c r IH]; [reflexivity|]. cbn [filter]. destruct (nsp c) eqn:E; [|exact IH].
  cbn [filter]. now rewrite E, IH.
Qed.

(* ================= B. the wrap loop ================= *)
Lemma vis_join prefix : Forall (fun c => is_space c = true) prefix -> forall lines, vis (join_lines prefix lines) = concat (map vis lines).
Proof.
  intros Hp. induction lines as [|x r IH]; [reflexivity|]. destruct r as [|y r]; [cbn [join_lines map concat]; now rewrite app_nil_r|].
  change (join_lines prefix (x :: y :: r)) with (x ++ (10%N :: prefix) ++ join_lines prefix (y :: r)).
  rewrite vis_sep; [|discriminate|constructor; [reflexivity|exact Hp]]. rewrite IH. reflexivity.
Qed.

Section WrapLoopVis.
  Variables (width : nat) (CS : list str).
  Hypothesis Hfit : Forall (fun c : str => length c <= width) CS.
  Hypothesis Hne : Forall ne CS.
  Hypothesis Hbnd : all_bnd CS.
  Hypothesis Hcuts : cuts_ok (concat CS).

  (* the chunks A are consumed, the lines written: the text consumed is O followed by blanks T, and the lines show what O shows *)
  Definition vloop_inv (A : list str) (lines : list str) : Prop :=
    exists O T, concat A = O ++ T /\ Forall (fun c => is_space c = true) T /\ (lines <> [] -> O <> []) /\ (lines = [] -> O = []) /\
      concat (map vis lines) = vis O.

  Lemma vloop_step (A : list str) (c0 : str) (r0 lines : list str) : CS = A ++ c0 :: r0 -> vloop_inv A lines ->
    exists A', CS = A' ++ snd (wstep width c0 r0 lines) /\
      vloop_inv A' (match fst (wstep width c0 r0 lines) with [] => lines | _ => lines ++ [concat (fst (wstep width c0 r0 lines))] end).
  Proof.
    intros HCS (O & T & HO & HT & HOne & HOnil & Hvis).
    assert (Forall (fun c : str => length c <= width) (c0 :: r0)) as Hfit'.
    { rewrite HCS in Hfit. apply Forall_app in Hfit. tauto. }
    destruct (wstep_nobreak width c0 r0 lines Hfit') as (D & taken & rest & Hsplit & -> & HDb & HDl & HD0).
    cbn [fst snd]. destruct (dropblank_blank taken) as (B & HB & HBb). set (line := dropblank taken) in *.
    exists (A ++ D ++ taken). split; [rewrite HCS, Hsplit; now rewrite <- !app_assoc|].
    assert (Forall ne taken) as Hnet.
    { rewrite HCS, Hsplit in Hne. apply Forall_app in Hne as [_ Hne']. apply Forall_app in Hne' as [_ Hne'].
      apply Forall_app in Hne'. tauto. }
    assert (concat (A ++ D ++ taken) = O ++ (T ++ concat D) ++ concat line ++ concat B) as Econs.
    { rewrite !concat_app, HO, HB, concat_app. now rewrite <- !app_assoc. }
    destruct line as [|l0 line'] eqn:Eline.
    - exists O, ((T ++ concat D) ++ concat B). split; [rewrite Econs; cbn [concat app]; now rewrite <- !app_assoc|].
      split; [repeat (apply Forall_app; split); assumption|]. repeat split; assumption.
    - set (L := concat (l0 :: line')).
      assert (L <> []) as HL.
      { subst L. rewrite HB in Hnet. apply Forall_app in Hnet as [Hnet _]. inversion Hnet as [|? ? Hl0 _]; subst.
        cbn [concat]. destruct l0; [now elim Hl0|discriminate]. }
      exists (O ++ (T ++ concat D) ++ L), (concat B). split; [rewrite Econs; now rewrite <- !app_assoc|].
      split; [exact HBb|]. split; [intros _; destruct O; [destruct (T ++ concat D); [cbn; exact HL|discriminate]|discriminate]|].
      split; [intros E; destruct lines; discriminate|].
      set (R := T ++ concat D) in *.
      assert (Forall (fun c => is_space c = true) R) as HR by (apply Forall_app; split; assumption).
      rewrite map_app, concat_app. cbn [map concat]. rewrite app_nil_r, Hvis.
      destruct lines as [|x0 lines0].
      + rewrite (HOnil eq_refl). cbn [app]. now rewrite vis_nil, vis_blank_prefix.
      + destruct R as [|r1 R'] eqn:ER.
        * (* no blank between the lines: the line break is put in at a chunk boundary *)
          cbn [app]. destruct L as [|y0 L'] eqn:EL; [congruence|]. symmetry. apply vis_cut.
          assert (T = [] /\ concat D = []) as [ET ED] by (subst R; destruct T; [split; [reflexivity|exact ER]|discriminate]).
          assert (D = []) as ->.
          { destruct D as [|d D']; [reflexivity|]. exfalso. rewrite HCS, Hsplit in Hne. apply Forall_app in Hne as [_ Hne'].
            inversion Hne' as [|? ? Hd _]; subst. cbn [concat] in ED. destruct d; [now elim Hd|discriminate]. }
          cbn [app] in Hsplit. rewrite ET, app_nil_r in HO.
          assert (A <> []) as HA.
          { intros ->. cbn in HO. specialize (HOne ltac:(discriminate)). congruence. }
          assert (exists b0 rest0, taken ++ rest = b0 :: rest0 /\ hd 0%N b0 = y0) as (b0 & rest0 & Eb0 & Ey0).
          { rewrite HB. cbn [app]. exists l0, (line' ++ B ++ rest). split; [now rewrite <- app_assoc|].
            assert (ne l0) as Hl0 by (rewrite HB in Hnet; cbn [app] in Hnet; now inversion Hnet).
            subst L. cbn [concat] in EL. destruct l0 as [|z l0']; [now elim Hl0|]. cbn [app] in EL. now injection EL as -> _. }
          rewrite <- HO. apply (Hcuts (concat A) y0 (L' ++ concat B ++ concat rest)).
          -- rewrite HCS, Hsplit, HB, !concat_app. fold L. rewrite EL. cbn [app]. now rewrite <- !app_assoc.
          -- rewrite HO. apply HOne. discriminate.
          -- rewrite HCS, Hsplit, Eb0 in Hbnd, Hne. destruct (all_bnd_split A b0 rest0 Hbnd Hne HA) as [H|H].
             ++ now rewrite H.
             ++ rewrite Ey0 in H. now rewrite H, orb_true_r.
        * symmetry. apply vis_sep; [discriminate|exact HR].
  Qed.

  Lemma vloop_all : forall f A cs lines ls, CS = A ++ cs -> vloop_inv A lines ->
    wrap_chunks f width cs lines = Some ls -> vloop_inv CS ls.
  Proof.
    induction f as [|f IH]; intros A cs lines ls HCS Hinv H; [discriminate|].
    destruct cs as [|c0 r0]; [cbn in H; injection H as <-; now rewrite HCS, app_nil_r|].
    rewrite wrap_chunks_S in H. destruct (vloop_step A c0 r0 lines HCS Hinv) as (A' & HCS' & Hinv').
    eapply IH; eauto.
  Qed.
End WrapLoopVis.

(* wrapping a text none of whose words has to be broken, at safe cuts only, keeps the visible characters *)
Theorem wrap_keeps_visible t w ls : wrap t w = Ok ls -> words_fit w t -> cuts_ok (munge t) ->
  concat (map vis ls) = vis (munge t).
Proof.
  unfold wrap. destruct (w <=? 0)%Z eqn:Ew; [discriminate|]. apply Z.leb_gt in Ew.
  destruct (wrap_chunks _ _ (chunks (munge t)) []) as [l|] eqn:E; [|discriminate]. intros H Hfit Hcuts. injection H as ->.
  assert (vloop_inv (chunks (munge t)) ls) as (O & T & HO & HT & _ & _ & Hv).
  { apply (vloop_all (Z.to_nat w) (chunks (munge t))) with (f := 2 * length t + 2) (A := []) (cs := chunks (munge t)) (lines := []).
    - eapply Forall_impl; [|exact Hfit]. intros c Hc. cbv beta in Hc. lia.
    - apply chunks_ne.
    - apply chunks_bnd.
    - now rewrite chunks_concat.
    - reflexivity.
    - exists [], []. repeat split; try congruence. constructor.
    - exact E. }
  rewrite chunks_concat in HO. now rewrite Hv, HO, vis_blank_suffix.
Qed.
(* a text without "<": whatever textwrap breaks *)
Lemma wrap_keeps_visible_text t w ls : wrap t w = Ok ls -> no_lt t -> concat (map vis ls) = vis (munge t).
Proof.
  intros Hw Hn. pose proof (munge_no_lt t Hn) as Hm. rewrite (vis_text _ Hm).
  pose proof (wrap_keeps_text_lemma t w ls Hw) as Hk. change (fun c => negb (is_space c)) with nsp in Hk. rewrite <- Hk.
  pose proof (wrap_lines_chars_lemma (fun c => c <> LT) t w ls Hw Hm) as Hl. clear - Hl.
  induction Hl as [|x r Hx _ IH]; [reflexivity|]. cbn [map concat]. now rewrite filter_app, IH, (vis_text x Hx).
Qed.
Lemma text_ok_visible w t ls : wrap t w = Ok ls -> text_ok sty w t -> concat (map vis ls) = vis (munge t).
Proof.
  intros Hw [Hn|(Hf & Hnh & _)]; [now apply (wrap_keeps_visible_text t w ls)|].
  apply (wrap_keeps_visible t w ls Hw Hf). now apply nh_cuts.
Qed.

(* ================= C. one element ================= *)
(* the visible characters of an element: of its label, then of its text as textwrap sees it *)
Definition elem_vis (e : elem) : str := vis (elem_label e) ++ vis (munge (elem_text e)).
Lemma vis_rstrip s : vis (rstrip s) = vis s.
Proof. destruct (rstrip_prefix_space s) as (t & E & Ht). rewrite E at 2. now rewrite vis_blank_suffix. Qed.
Lemma spaces_blank n : Forall (fun c => is_space c = true) (spaces n).
Proof. apply Forall_forall. intros c Hc. apply repeat_spec in Hc. now subst c. Qed.

Theorem elem_written_visible W off ind e raw : elem_ok sty W off ind e ->
  elem_raw W off ind (vis_of sty (elem_label e)) e = Ok raw -> vis raw = elem_vis e.
Proof.
  intros Hok Hr. destruct e as [t|label text padding aligned|]; unfold elem_vis; cbn [elem_label elem_text elem_ok] in *.
  - destruct (para_raw_shape _ _ _ _ _ _ Hr) as (lines & Hw & ->). rewrite vis_nil. cbn [app].
    rewrite vis_blank_prefix by apply spaces_blank. rewrite vis_blank_suffix by (constructor; [reflexivity|constructor]).
    rewrite vis_rstrip, vis_join by apply spaces_blank. cbn [wrap_width] in Hok.
    exact (text_ok_visible _ _ _ Hw Hok).
  - destruct Hok as (_ & _ & Hpad & Htext). cbn [elem_raw] in Hr. cbv zeta in Hr.
    set (to := Z.max (if aligned then (off - Z.of_nat ind)%Z else 0%Z) (vis_of sty label + Z.of_nat padding)) in *.
    destruct (wrap text (W - 1 - to - Z.of_nat ind)) as [lines|k] eqn:Hw; [|discriminate]. cbn [bind] in Hr. injection Hr as <-.
    rewrite vis_blank_suffix by (constructor; [reflexivity|constructor]). rewrite vis_rstrip.
    rewrite vis_blank_prefix by apply spaces_blank. unfold ljust.
    replace (to + (zlen label - vis_of sty label) - zlen label)%Z with (to - vis_of sty label)%Z by lia. rewrite <- app_assoc.
    rewrite vis_sep; [|assert (1 <= Z.to_nat (to - vis_of sty label)) as Hk by (subst to; lia);
                       destruct (Z.to_nat (to - vis_of sty label)); [lia|discriminate]|apply spaces_blank].
    f_equal. rewrite vis_rstrip, vis_join by (apply Forall_app; split; apply spaces_blank).
    cbn [wrap_width] in Htext. fold to in Htext. exact (text_ok_visible _ _ _ Hw Htext).
  - injection Hr as <-. reflexivity.
Qed.
End Vis.

(* ================= D. the page ================= *)
Lemma align_is_align_vis : forall l f acc a, f_kind f = FPlain -> align f l acc = Ok a -> snd a = align_vis (f_styles f) l acc.
Proof.
  induction l as [|[ind e] r IH]; intros f acc a Hk H; cbn [align align_vis] in *; [now injection H as <-|].
  destruct e as [t|label text padding aligned|]; [eapply IH; eassumption| |eapply IH; eassumption].
  destruct aligned; [|eapply IH; eassumption].
  destruct (remove_format f label) as [x1|k] eqn:E1; [|discriminate]. cbn [bind] in H.
  apply remove_format_plain_of in E1; [|congruence]. destruct E1 as (E1 & E2 & E3).
  rewrite (IH _ _ _ (eq_trans E2 Hk) H), E3, E1. reflexivity.
Qed.
(* the texts written, with the text column the alignment computes *)
Theorem page_plain_is_elements_at W f l s : f_kind f = FPlain -> render_page W f l = Ok s ->
  exists ps, written (f_styles f) W (align_vis (f_styles f) l 0) l ps /\ s = concat ps.
Proof.
  intros Hk H. unfold render_page in H. destruct (align f l 0) as [a|k] eqn:Ea; [|discriminate]. cbn [bind] in H.
  destruct (render_all W (snd a) (fst a) l []) as [x|k] eqn:E; [|discriminate]. cbn [bind] in H. injection H as <-.
  pose proof (align_plain _ _ _ _ Hk Ea) as Hk'.
  destruct (render_all_plain _ _ _ _ _ _ Hk' E) as (_ & _ & ps & Hps & Ex). exists ps. split; [|exact Ex].
  rewrite (align_styles _ _ _ _ Hk Ea), (align_is_align_vis _ _ _ _ Hk Ea) in Hps. exact Hps.
Qed.

(* what is written for one element: a text ended by a line break *)
Lemma elem_raw_nl W off ind vis0 e raw : elem_raw W off ind vis0 e = Ok raw -> exists body, raw = body ++ [10%N].
Proof.
  destruct e as [t|label text padding aligned|]; cbn [elem_raw]; cbv zeta.
  - destruct (wrap t _); cbn [bind]; [|discriminate]. intros H. injection H as <-. eexists. now rewrite app_assoc.
  - destruct (wrap text _); cbn [bind]; [|discriminate]. intros H. injection H as <-. eexists. reflexivity.
  - intros H. injection H as <-. exists []. reflexivity.
Qed.
(* a page in the region: white space aside, the text written for each element is its visible characters; each ends with a line break *)
Definition shows (sty : styles) (x : nat * elem) (p : str) : Prop :=
  filter nsp p = elem_vis sty (snd x) /\ exists body, p = body ++ [10%N].
Lemma written_shows sty W off l ps : Forall (fun x => elem_ok sty W off (fst x) (snd x)) l -> written sty W off l ps ->
  Forall2 (shows sty) l ps.
Proof.
  intros Hok Hps. induction Hps as [|x p l ps (raw & Er & ->) _ IH]; [constructor|]. inversion Hok as [|? ? Hx Hl]; subst.
  constructor; [|now apply IH]. unfold elem_text_for in Er. split.
  - exact (elem_written_visible sty W off (fst x) (snd x) raw Hx Er).
  - destruct (elem_raw_nl _ _ _ _ _ _ Er) as (body & ->). rewrite plain_of_render, render_body. eexists. reflexivity.
Qed.
Theorem page_bytes_visible W f l s : f_kind f = FPlain -> layout_ok (f_styles f) W l -> render_page W f l = Ok s ->
  exists ps, Forall2 (shows (f_styles f)) l ps /\ s = concat ps.
Proof.
  intros Hk Hok H. destruct (page_plain_is_elements_at W f l s Hk H) as (ps & Hps & ->). exists ps. split; [|reflexivity].
  exact (written_shows _ _ _ _ _ Hok Hps).
Qed.
Corollary page_bytes_are_the_visible_texts W f l s : f_kind f = FPlain -> layout_ok (f_styles f) W l -> render_page W f l = Ok s ->
  filter nsp s = concat (map (fun x => elem_vis (f_styles f) (snd x)) l).
Proof.
  intros Hk Hok H. destruct (page_bytes_visible W f l s Hk Hok H) as (ps & Hps & ->). clear H Hok.
  induction Hps as [|x p l ps [Hp _] _ IH]; [reflexivity|]. cbn [concat map]. now rewrite filter_app, Hp, IH.
Qed.

(* ---- a part of the page: l = before ++ section ++ after ---- *)
(* a word (no white space in it) that is in the text written for some elements is in the text written for one of them *)
Lemma infix_split_nl n a b : no_nl n -> infix_of n (a ++ 10%N :: b) -> infix_of n a \/ infix_of n b.
Proof.
  intros Hn (u & v & E). symmetry in E. apply app_split in E as [(y' & -> & ->)|(x' & -> & E)].
  - (* the line break lies in u *) right. exists y', v. reflexivity.
  - apply app_split in E as [(y' & E & _)|(x'' & -> & ->)].
    + exfalso. rewrite E in Hn. apply Forall_app in Hn as [_ Hn]. inversion Hn; congruence.
    + left. exists u, x''. reflexivity.
Qed.
Lemma word_in_one_element sty n : no_nl n -> forall l ps, Forall2 (shows sty) l ps -> infix_of n (concat ps) -> n <> [] ->
  exists x p, In x l /\ shows sty x p /\ infix_of n p.
Proof.
  intros Hn. induction 1 as [|x p l ps Hx _ IH]; intros Hi Hne.
  - destruct Hi as (u & v & E). cbn in E. destruct u; [destruct n; [congruence|discriminate]|discriminate].
  - cbn [concat] in Hi. destruct Hx as [Hv (body & ->)]. rewrite <- app_assoc in Hi. cbn [app] in Hi.
    destruct (infix_split_nl n body (concat ps) Hn Hi) as [H1|H2].
    + exists x, (body ++ [10%N]). split; [now left|]. split; [split; [exact Hv|eexists; reflexivity]|now apply infix_app_l].
    + destruct (IH H2 Hne) as (x' & p' & Hin & Hs & Hi'). exists x', p'. split; [now right|auto].
Qed.
Lemma infix_filter (p : N -> bool) n s : infix_of n s -> infix_of (filter p n) (filter p s).
Proof. intros (u & v & ->). exists (filter p u), (filter p v). now rewrite !filter_app. Qed.

(* a section of a page in the region: its text is a piece of the page, and a word (no white space in it) found in the section's
   text is found in the visible characters of one of the section's elements *)
Lemma spacefree_no_nl n : spacefree n -> no_nl n.
Proof. intros H. eapply Forall_impl; [|exact H]. intros c Hc ->. discriminate. Qed.
Lemma spacefree_filter n : spacefree n -> filter nsp n = n.
Proof. induction 1 as [|c n Hc _ IH]; [reflexivity|]. cbn [filter]. unfold nsp at 1. now rewrite Hc, IH. Qed.
Theorem section_words W f before sec after s :
  f_kind f = FPlain -> layout_ok (f_styles f) W (before ++ sec ++ after) -> render_page W f (before ++ sec ++ after) = Ok s ->
  exists s1 s2 s3, s = s1 ++ s2 ++ s3 /\ text_of (f_styles f) W sec s2 /\
    forall n, n <> [] -> spacefree n -> infix_of n s2 -> exists x, In x sec /\ infix_of n (elem_vis (f_styles f) (snd x)).
Proof.
  intros Hk Hok H. destruct (page_plain_is_elements_at W f _ s Hk H) as (ps & Hps & ->). unfold layout_ok in Hok.
  set (off := align_vis (f_styles f) (before ++ sec ++ after) 0) in *. clearbody off. unfold written in Hps.
  apply Forall2_app_inv_l' in Hps as (p1 & p23 & -> & H1 & H23). apply Forall2_app_inv_l' in H23 as (p2 & p3 & -> & H2 & H3).
  apply Forall_app in Hok as [_ Hok]. apply Forall_app in Hok as [Hok _]. pose proof (written_shows _ _ _ _ _ Hok H2) as Hs2.
  exists (concat p1), (concat p2), (concat p3). split; [now rewrite !concat_app|]. split; [exists off, p2; split; [exact H2|reflexivity]|].
  intros n Hne Hsf Hi. destruct (word_in_one_element (f_styles f) n (spacefree_no_nl n Hsf) sec p2 Hs2 Hi Hne) as (x & p & Hin & [Hv _] & Hp).
  exists x. split; [exact Hin|]. rewrite <- Hv, <- (spacefree_filter n Hsf). now apply infix_filter.
Qed.

(* COMMANDS of a command page: a word of the section is a word of its heading or of an element of the block of an enabled, named,
   non-hidden sub-command *)
Lemma commands_section_elems subs x : In x (commands_section subs) ->
  x = (0, EPara H_COMMANDS) \/ exists sv, In sv subs /\ visible sv = true /\ In x (sub_block sv).
Proof.
  destruct (commands_section_spec subs) as (-> & _ & _). destruct (named_subs subs); [contradiction|].
  intros [<-|Hin]; [now left|right]. apply in_flat_map in Hin as (sv & Hsv & Hx). apply listed_subs_in in Hsv as [H1 H2].
  exists sv. auto.
Qed.
Theorem commands_section_words W f sty app_name ch aliases help subs s :
  f_kind f = FPlain -> layout_ok (f_styles f) W (command_page sty app_name ch aliases help subs) ->
  render_page W f (command_page sty app_name ch aliases help subs) = Ok s ->
  exists s1 s2 s3, s = s1 ++ s2 ++ s3 /\ text_of (f_styles f) W (commands_section subs) s2 /\
    forall n, n <> [] -> spacefree n -> infix_of n s2 ->
      infix_of n (vis (f_styles f) H_COMMANDS)
      \/ exists sv x, In sv subs /\ visible sv = true /\ In x (sub_block sv) /\ infix_of n (elem_vis (f_styles f) (snd x)).
Proof.
  intros Hk Hok H. rewrite command_page_decomposes in Hok, H.
  destruct (section_words W f _ _ _ s Hk Hok H) as (s1 & s2 & s3 & E & Hps & Hw).
  exists s1, s2, s3. split; [exact E|]. split; [exact Hps|]. intros n Hne Hsf Hi. destruct (Hw n Hne Hsf Hi) as (x & Hin & Hx).
  apply commands_section_elems in Hin as [->|(sv & H1 & H2 & H3)].
  - left. unfold elem_vis in Hx. cbn [snd elem_label elem_text] in Hx. rewrite vis_nil in Hx. cbn [app] in Hx.
    assert (munge H_COMMANDS = H_COMMANDS) as Em by reflexivity. now rewrite Em in Hx.
  - right. exists sv, x. auto.
Qed.
(* AVAILABLE COMMANDS of the application page *)
Lemma available_section_elems cmds x : In x (available_section cmds) ->
  x = (0, EPara H_AVAILABLE) \/ x = (0, EEmpty) \/ exists c, In c cmds /\ cmd_visible c = true /\ x = cmd_line c.
Proof.
  destruct (available_section_spec cmds) as (-> & _ & _). destruct (named_cmds cmds); [contradiction|].
  intros [<-|Hin]; [now left|right]. apply in_app_or in Hin as [Hin|[<-|[]]]; [right|now left].
  apply in_map_iff in Hin as (c & <- & Hc). apply listed_cmds_in in Hc as [H1 H2]. exists c. auto.
Qed.
Theorem available_section_words W f sty app_name display version gopts cmds help s :
  f_kind f = FPlain -> layout_ok (f_styles f) W (application_page sty app_name display version gopts cmds help) ->
  render_page W f (application_page sty app_name display version gopts cmds help) = Ok s ->
  exists s1 s2 s3, s = s1 ++ s2 ++ s3 /\ text_of (f_styles f) W (available_section cmds) s2 /\
    forall n, n <> [] -> spacefree n -> infix_of n s2 ->
      infix_of n (vis (f_styles f) H_AVAILABLE)
      \/ exists c, In c cmds /\ cmd_visible c = true /\ infix_of n (elem_vis (f_styles f) (snd (cmd_line c))).
Proof.
  intros Hk Hok H. rewrite application_page_decomposes in Hok, H.
  destruct (section_words W f _ _ _ s Hk Hok H) as (s1 & s2 & s3 & E & Hps & Hw).
  exists s1, s2, s3. split; [exact E|]. split; [exact Hps|]. intros n Hne Hsf Hi. destruct (Hw n Hne Hsf Hi) as (x & Hin & Hx).
  apply available_section_elems in Hin as [->|[->|(c & H1 & H2 & ->)]].
  - left. unfold elem_vis in Hx. cbn [snd elem_label elem_text] in Hx. rewrite vis_nil in Hx. cbn [app] in Hx.
    assert (munge H_AVAILABLE = H_AVAILABLE) as Em by reflexivity. now rewrite Em in Hx.
  - exfalso. unfold elem_vis in Hx. cbn in Hx. destruct Hx as (u & v & E'). destruct u; [destruct n; [congruence|discriminate]|discriminate].
  - right. exists c. auto.
Qed.

(* ---- a decision procedure for "is a piece of", for the examples ---- *)
Fixpoint prefixb (p s : str) : bool :=
  match p, s with [], _ => true | c :: p', d :: s' => N.eqb c d && prefixb p' s' | _ :: _, [] => false end.
Fixpoint infixb (p s : str) : bool := prefixb p s || match s with [] => false | _ :: s' => infixb p s' end.
Lemma prefixb_spec p : forall s, prefixb p s = true <-> exists v, s = p ++ v.
Proof.
  induction p as [|c p IH]; intros s; cbn [prefixb]; [split; [intros _; exists s; reflexivity|reflexivity]|].
  destruct s as [|d s]; [split; [discriminate|intros [v E]; discriminate]|]. rewrite andb_true_iff, IH, N.eqb_eq. split.
  - intros [-> [v ->]]. exists v. reflexivity.
  - intros [v E]. injection E as -> ->. split; [reflexivity|exists v; reflexivity].
Qed.
Lemma infixb_spec p : forall s, infixb p s = true <-> infix_of p s.
Proof.
  induction s as [|d s IH]; cbn [infixb]; rewrite orb_true_iff, prefixb_spec.
  - split; [intros [[v E]|E]; [exists [], v; exact E|discriminate]|].
    intros (u & v & E). left. destruct u; [exists v; exact E|discriminate].
  - rewrite IH. split.
    + intros [[v E]|(u & v & E)]; [exists [], v; exact E|exists (d :: u), v; now rewrite E].
    + intros (u & v & E). destruct u as [|c u]; [left; exists v; exact E|right]. injection E as -> E. exists u, v. exact E.
Qed.
Lemma not_infixb p s : infixb p s = false -> ~ infix_of p s.
Proof. intros H Hi. apply infixb_spec in Hi. congruence. Qed.
