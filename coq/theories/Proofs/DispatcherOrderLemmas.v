(* C12: the statements of the property composed for REACHABLE logs - the sortedness hypothesis of spec_order_sorted
   discharged, the answer of a dispatch after any history given directly, and the order determined uniquely. *)
From Coq Require Import Lia Permutation Sorted.
From Clikit Require Import Base.Prelude Model.Dispatcher Proofs.DispatcherLemmas Proofs.DispatcherQueryLemmas.

(* a log whose i-th entry carries listener id i is sorted by id *)
Lemma numbered_sorted : forall regs, numbered regs -> StronglySorted (fun a b => (r_lid a < r_lid b)%N) regs.
Proof.
  intros regs. induction regs as [|r l IH] using rev_ind; intros H; [constructor|].
  apply sorted_snoc_reg.
  - apply IH. intros i x Hx. apply H. rewrite nth_error_app1; auto. apply nth_error_Some. congruence.
  - apply Forall_forall. intros x Hx. apply In_nth_error in Hx as [i Hi].
    assert (i < length l) by (apply nth_error_Some; congruence).
    rewrite (H i x) by (rewrite nth_error_app1; auto).
    rewrite (H (length l) r) by (rewrite nth_error_app2, Nat.sub_diag; auto). lia.
Qed.
Definition before (a b : reg) : Prop := (r_prio a > r_prio b)%Z \/ (r_prio a = r_prio b /\ (r_lid a < r_lid b)%N).
Lemma before_asym a b : before a b -> before b a -> False.
Proof. unfold before. intros [H1|[H1 H2]] [H3|[H3 H4]]; lia. Qed.

Theorem reachable_order ops ev : StronglySorted before (sort_desc r_prio (regs_of (log_of ops) ev)).
Proof. apply spec_order_sorted_lemma, numbered_sorted. intros i r. apply log_numbered. Qed.

(* the answer of a dispatch after ANY history *)
Theorem dispatch_answer ops ev :
  snd (dstep (dafter dinit ops) (Dispatch ev)) =
  OCalled (run_until_stop (spec_stops (log_of ops)) (spec_order (log_of ops) ev)).
Proof.
  pose proof (reach_init ops) as H. destruct (qstep_sim _ _ (Dispatch ev) H) as [_ Ho].
  rewrite Ho. rewrite qstep_out by discriminate. rewrite qafter_init_log. reflexivity.
Qed.

(* the property, in one statement *)
Theorem dispatch_characterized ops ev :
  let regs := log_of ops in
  let L := sort_desc r_prio (regs_of regs ev) in
  snd (dstep (dafter dinit ops) (Dispatch ev)) = OCalled (run_until_stop (spec_stops regs) (map r_lid L)) /\
  Permutation L (regs_of regs ev) /\
  (forall r, In r L <-> In r regs /\ r_ev r = ev) /\
  NoDup (map r_lid L) /\
  StronglySorted before L /\
  (forall L', Permutation L' (regs_of regs ev) -> StronglySorted before L' -> L' = L).
Proof.
  cbv zeta. split; [apply dispatch_answer|]. split; [apply sort_perm|]. split; [|split; [|split; [apply reachable_order|]]].
  - intros r. split.
    + intros Hr. apply (Permutation_in _ (sort_perm r_prio (regs_of (log_of ops) ev))) in Hr.
      unfold regs_of in Hr. apply filter_In in Hr as [H1 H2]. split; [exact H1|]. now apply N.eqb_eq.
    + intros [H1 H2]. apply (Permutation_in _ (Permutation_sym (sort_perm r_prio (regs_of (log_of ops) ev)))).
      unfold regs_of. apply filter_In. split; [exact H1|]. now apply N.eqb_eq.
  - (* each listener once: ids are positions in the log *)
    apply (Permutation_NoDup (Permutation_map r_lid (Permutation_sym (sort_perm r_prio (regs_of (log_of ops) ev))))).
    assert (StronglySorted (fun a b => (r_lid a < r_lid b)%N) (regs_of (log_of ops) ev)) as HS.
    { unfold regs_of. apply StronglySorted_filter, numbered_sorted. intros i r. apply log_numbered. }
    induction HS as [|a l HS IH HF]; [constructor|]. cbn [map]. constructor; [|exact IH].
    intros Hin. apply in_map_iff in Hin as (b & E & Hb). rewrite Forall_forall in HF. specialize (HF b Hb). lia.
  - intros L' HP HS. apply (sorted_perm_unique before before_asym); [exact HS|apply reachable_order|].
    eapply Permutation_trans; [exact HP|apply Permutation_sym, sort_perm].
Qed.
