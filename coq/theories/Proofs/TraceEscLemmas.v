(* C20: (a) whether pastel's colorize succeeds, and the style stack it leaves, do not depend on whether it decorates -
   so "render never fails" needs no hypothesis about ESC in the inputs;
   (b) the style table of the formatters clikit builds: pastel's own four styles and the styles of the style set - with
   DefaultStyleSet (what PlainFormatter() / AnsiFormatter() / DefaultApplicationConfig use) "error" and "b" resolve, so
   the theorems about the report hold for these formatters without a premise on the style table. *)
From Coq Require Import Lia.
From Clikit Require Import Base.Prelude Base.Res Model.Conv Model.Markup Model.OutputM Model.Trace
  Proofs.StrLemmas Proofs.MarkupLemmas Proofs.OutputLemmas Proofs.TraceLemmas Proofs.LiteralLemmas Proofs.TraceRenderLemmas
  Proofs.TraceSolutionLemmas.

(* ------------------------------------------------------------------ (a) success and stack are the same, decorated or not *)
Definition same_status {A B} (f : A -> stack) (g : B -> stack) (r1 : res A) (r2 : res B) : Prop :=
  match r1, r2 with Ok a, Ok b => f a = g b | Err _, Err _ => True | _, _ => False end.

Lemma do_tag_status sty e t sk :
  same_status fst fst (do_tag sty true e t sk) (do_tag sty false e t sk).
Proof.
  destruct t as [raw cl nm]. unfold do_tag. destruct e; [reflexivity|].
  destruct (cl && match nm with [] => true | _ => false end); [reflexivity|].
  destruct (resolve sty (py_lower nm)) as [[p|]|er]; cbn [bind]; try reflexivity.
  destruct cl; [|reflexivity]. destruct (pop_style p sk); cbn [bind]; reflexivity.
Qed.

Lemma run_segs_status sty a0 : forall segs first sk o1 o2 le,
  same_status (fun x => fst (fst x)) (fun x => fst (fst x))
    (run_segs sty true a0 first segs sk o1 le) (run_segs sty false a0 first segs sk o2 le).
Proof.
  induction segs as [|[pre t] r IH]; intros first sk o1 o2 le; cbn [run_segs]; [reflexivity|].
  pose proof (do_tag_status sty (match pre with [] => first && a0 | _ => ends_with_bsl pre end) t sk) as H.
  unfold same_status in H.
  destruct (do_tag sty true _ t sk) as [x1|e1]; destruct (do_tag sty false _ t sk) as [x2|e2]; cbn [bind]; try contradiction; [|exact I].
  rewrite H. apply IH.
Qed.

Theorem colorize_status sty sk m sk' t :
  colorize sty false sk m = Ok (sk', t) -> exists out, colorize sty true sk m = Ok (sk', out).
Proof.
  unfold colorize. destruct (lex m) as [segs tail]. destruct segs as [|s segs].
  - intros H. inversion H; subst. eexists. reflexivity.
  - pose proof (run_segs_status sty (ends_with_bsl m) (s :: segs) true sk [] [] false) as H. unfold same_status in H.
    destruct (run_segs sty true _ true (s :: segs) sk [] false) as [[[a b] c]|e1];
    destruct (run_segs sty false _ true (s :: segs) sk [] false) as [[[a' b'] c']|e2]; cbn [bind fst] in *; try contradiction.
    + intros E. inversion E; subst. eexists. reflexivity.
    + discriminate.
Qed.

(* a line of literals and safe separators never makes the formatter fail and leaves the style stack as it was:
   decorated or not, whatever the texts hold (ESC included) *)
Theorem line_never_raises_any sty sk col ps : pieces_ok sty ps -> exists out, colorize sty col sk (line_str ps) = Ok (sk, out).
Proof.
  intros H. pose proof (line_plain sty sk ps H) as HP. destruct col; [exact (colorize_status _ _ _ _ _ HP)|eauto].
Qed.

Lemma fmt_pieces_any sty f (on : bool) ps :
  f_kind f <> FNull -> f_stack f = [] -> f_styles f = sty -> pieces_ok sty ps ->
  exists text,
    (if on then format f (line_str ps) None else remove_format f (line_str ps))
    = Ok ({| f_kind := f_kind f; f_styles := f_styles f; f_stack := [] |}, text).
Proof.
  intros Hk Hs Hst Hok. subst sty. destruct on.
  - unfold format. destruct (f_kind f) as [fb| |] eqn:EK; [| |congruence].
    + destruct (line_never_raises_any (f_styles f) (f_stack f) true ps Hok) as (out & HC).
      rewrite HC. cbn [bind fst snd]. rewrite Hs. eauto.
    + rewrite (line_plain (f_styles f) (f_stack f) ps Hok). cbn [bind fst snd]. rewrite Hs. eauto.
  - unfold remove_format. destruct (f_kind f) as [fb| |] eqn:EK; [| |congruence];
      rewrite (line_plain (f_styles f) (f_stack f) ps Hok); cbn [bind fst snd]; rewrite Hs; eauto.
Qed.

Theorem write_good_any sty o ind l : out_ok sty o -> good_line sty l ->
  exists o', write (with_indent o ind) l true true = Ok o' /\ out_ok sty o' /\ o_on o' = o_on o /\ f_kind (o_fmt o') = f_kind (o_fmt o).
Proof.
  intros (Hsec & Hk & Hs & Hst) (ps & Hok & ->). rewrite (write_unfold o ind _ Hsec), (wpieces_str sty ind ps Hok).
  destruct (fmt_pieces_any sty (o_fmt o) (o_on o) (wpieces ind ps) Hk Hs Hst (wpieces_ok sty ind ps Hok)) as (text & HF).
  rewrite HF. cbn [bind fst snd]. eexists. split; [reflexivity|].
  unfold out_ok. cbn [o_sec o_on o_fmt o_buf f_kind f_stack f_styles]. repeat split; try assumption; reflexivity.
Qed.

Theorem write_lines_good_any sty : forall ls o, out_ok sty o -> Forall (fun wl : wline => good_line sty (snd wl)) ls ->
  exists o', write_lines o ls = Ok o' /\ out_ok sty o' /\ o_on o' = o_on o /\ f_kind (o_fmt o') = f_kind (o_fmt o).
Proof.
  induction ls as [|[ind l] r IH]; intros o Ho HG; cbn [write_lines].
  - exists o. split; [reflexivity|]. split; [exact Ho|]. split; reflexivity.
  - inversion HG as [|? ? Hl Hr]; subst. cbn [snd] in Hl.
    destruct (write_good_any sty o ind l Ho Hl) as (o1 & HW & Ho1 & Hon1 & Hk1). rewrite HW. cbn [bind].
    destruct (IH o1 Ho1 Hr) as (o2 & HW2 & Ho2 & Hon2 & Hk2). exists o2. split; [exact HW2|]. split; [exact Ho2|]. split; congruence.
Qed.

(* THE statement, without the ESC hypothesis: for every exception case, configuration, report mode and every ordinary
   output with an ANSI or plain formatter (empty style stack) whose style table resolves "error" and "b" - decorating or
   not, whatever the class name, message, file names and sources hold - render returns its bytes *)
Theorem render_never_fails_any sty c simple o x :
  out_ok sty o -> resolvable sty st_error -> resolvable sty st_b -> exists bytes, render c simple o x = Ok bytes.
Proof.
  intros Ho Herr Hb. destruct (render_lines_total c simple (o_indent o) x) as (ls & HL). unfold render. rewrite HL. cbn [bind].
  destruct (write_lines_good_any sty ls o Ho (render_lines_good sty Herr Hb c simple _ x ls HL)) as (o' & HW & _).
  rewrite HW. cbn [bind]. eauto.
Qed.
Theorem render_sol_never_fails_any sty c simple o x sols :
  out_ok sty o -> resolvable sty st_error -> resolvable sty st_b -> exists bytes, render_sol c simple o x sols = Ok bytes.
Proof.
  intros Ho Herr Hb. destruct (render_lines_sol_total c simple (o_indent o) x sols) as (ls & HL). unfold render_sol. rewrite HL. cbn [bind].
  destruct (write_lines_good_any sty ls o Ho (render_lines_sol_good sty Herr Hb c simple _ x sols ls HL)) as (o' & HW & _).
  rewrite HW. cbn [bind]. eauto.
Qed.
(* the ESC hypothesis was needed for the TEXT under the escape codes only (strip_sgr of the output = the shown texts):
   a message holding ESC [ 3 1 m is shown as it is and stripping the codes would strip it too *)

(* ------------------------------------------------------------------ (b) the style table of a clikit formatter *)
Lemma style_set_keeps n : forall l acc ss, style_set l acc = Ok ss ->
  (exists w, aget str_eqb n acc = Some w) -> exists w, aget str_eqb n ss = Some w.
Proof.
  induction l as [|c r IH]; intros acc ss H Hn; cbn [style_set] in H; [injection H as <-; exact Hn|].
  destruct (c_tag c) as [[|ch t]|]; try discriminate. apply (IH _ _ H). apply aset_keeps, Hn.
Qed.
Lemma style_set_has n : forall l acc ss c, style_set l acc = Ok ss -> In c l -> c_tag c = Some n ->
  exists w, aget str_eqb n ss = Some w.
Proof.
  induction l as [|c0 r IH]; intros acc ss c H Hin Ht; [destruct Hin|]. cbn [style_set] in H.
  destruct Hin as [->|Hin].
  - rewrite Ht in H. destruct n as [|ch t]; [discriminate|]. apply (style_set_keeps _ _ _ _ H).
    rewrite sget_sset, str_eqb_refl. eauto.
  - destruct (c_tag c0) as [[|ch t]|]; try discriminate. apply (IH _ _ c H Hin Ht).
Qed.
Lemma register_has n : forall l sty sty', register l sty = Ok sty' -> (exists w, aget str_eqb n l = Some w) ->
  exists w, aget str_eqb n sty' = Some w.
Proof.
  induction l as [|[t c] r IH]; intros sty sty' H (w & Hn); [discriminate|]. cbn [register] in H.
  destruct (convert c) as [p|e]; cbn [bind] in H; [|discriminate]. cbn [aget] in Hn.
  destruct (str_eqb_spec n t) as [->|Hne].
  - apply (register_keeps t r _ _ H). rewrite sget_sset, str_eqb_refl. eauto.
  - apply (IH _ _ H). eauto.
Qed.

(* a formatter built over a style set that has a style tagged t resolves t (t in lower case, as all of clikit's are) *)
Theorem new_formatter_resolves k set f c t : new_formatter k set = Ok f -> k <> FNull -> In c set -> c_tag c = Some t ->
  py_lower t = t -> resolvable (f_styles f) t.
Proof.
  intros H Hk Hin Ht Hl. apply registered_resolvable; [exact Hl|]. unfold new_formatter in H.
  assert ((do ss <- style_set set []; do sty <- register ss pastel_defaults; Ok {| f_kind := k; f_styles := sty; f_stack := [] |}) = Ok f) as H'
    by (destruct k; [exact H|exact H|congruence]). clear H.
  destruct (style_set set []) as [ss|e] eqn:ES; cbn [bind] in H'; [|discriminate].
  destruct (register ss pastel_defaults) as [sty|e] eqn:ER; cbn [bind] in H'; [|discriminate]. injection H' as <-. cbn [f_styles].
  apply (register_has t ss pastel_defaults sty ER). apply (style_set_has t set [] ss c ES Hin Ht).
Qed.
Corollary new_formatter_b k set f c : new_formatter k set = Ok f -> k <> FNull -> In c set -> c_tag c = Some st_b ->
  resolvable (f_styles f) st_b.
Proof. intros H Hk Hin Ht. apply (new_formatter_resolves k set f c st_b H Hk Hin Ht). reflexivity. Qed.

(* clikit.formatter.DefaultStyleSet *)
Definition mk_style (tag : str) (fg : option str) (bold underlined : bool) : cstyle :=
  {| c_tag := Some tag; c_fg := fg; c_bg := None; c_bold := bold; c_italic := false; c_dark := false;
     c_underlined := underlined; c_blinking := false; c_inverse := false; c_hidden := false |}.
Definition default_style_set : list cstyle :=
  [mk_style [105;110;102;111]%N (Some [103;114;101;101;110]%N) false false;                  (* info: green *)
   mk_style [99;111;109;109;101;110;116]%N (Some [99;121;97;110]%N) false false;             (* comment: cyan *)
   mk_style [113;117;101;115;116;105;111;110]%N (Some [98;108;117;101]%N) false false;       (* question: blue *)
   mk_style st_error (Some [114;101;100]%N) true false;                                      (* error: red, bold *)
   mk_style st_b None true false;                                                            (* b: bold *)
   mk_style [117]%N None false true;                                                         (* u: underlined *)
   mk_style [99;49]%N (Some [99;121;97;110]%N) false false;                                  (* c1: cyan *)
   mk_style [99;50]%N (Some [121;101;108;108;111;119]%N) false false].                       (* c2: yellow *)

(* every formatter over a style set that contains DefaultStyleSet's styles *)
Definition clikit_formatter (f : formatter) : Prop :=
  exists k set, k <> FNull /\ incl default_style_set set /\ new_formatter k set = Ok f.
Lemma clikit_formatter_styles f : clikit_formatter f -> resolvable (f_styles f) st_error /\ resolvable (f_styles f) st_b.
Proof.
  intros (k & set & Hk & Hin & H). split; [apply (new_formatter_error k set f H Hk)|].
  apply (new_formatter_b k set f (mk_style st_b None true false) H Hk); [|reflexivity].
  apply Hin. do 4 right. left. reflexivity.
Qed.
Lemma clikit_formatter_kind f : clikit_formatter f -> f_kind f <> FNull /\ f_stack f = [].
Proof.
  intros (k & set & Hk & _ & H). unfold new_formatter in H.
  destruct k as [b| |]; [| |congruence];
    (destruct (style_set set []) as [ss|e]; cbn [bind] in H; [|discriminate]; destruct (register ss pastel_defaults) as [sty|e]; cbn [bind] in H; [|discriminate];
     injection H as <-; split; [discriminate|reflexivity]).
Qed.
(* an ordinary output (not a section) that writes through such a formatter *)
Definition clikit_output (o : outp) : Prop := o_sec o = false /\ clikit_formatter (o_fmt o).
Lemma clikit_output_ok o : clikit_output o ->
  out_ok (f_styles (o_fmt o)) o /\ resolvable (f_styles (o_fmt o)) st_error /\ resolvable (f_styles (o_fmt o)) st_b.
Proof.
  intros (Hs & Hf). destruct (clikit_formatter_kind _ Hf) as [Hk Hst]. destruct (clikit_formatter_styles _ Hf) as [He Hb].
  split; [|auto]. unfold out_ok. auto.
Qed.

(* the closed instances: the plain and the two ANSI formatters over DefaultStyleSet itself build, and resolve both *)
Definition default_formatter (k : fkind) : formatter :=
  match new_formatter k default_style_set with Ok f => f | Err _ => {| f_kind := FNull; f_styles := []; f_stack := [] |} end.
Example default_formatters_build :
  new_formatter FPlain default_style_set = Ok (default_formatter FPlain) /\
  new_formatter (FAnsi false) default_style_set = Ok (default_formatter (FAnsi false)) /\
  new_formatter (FAnsi true) default_style_set = Ok (default_formatter (FAnsi true)).
Proof. vm_compute. repeat split. Qed.
Example default_formatters_are_clikit k : k <> FNull -> clikit_formatter (default_formatter k).
Proof.
  intros Hk. exists k, default_style_set. split; [exact Hk|]. split; [apply incl_refl|].
  destruct default_formatters_build as (H1 & H2 & H3). destruct k as [[|]| |]; [exact H3|exact H2|exact H1|congruence].
Qed.
Example default_styles_resolve k : k <> FNull ->
  resolvable (f_styles (default_formatter k)) st_error /\ resolvable (f_styles (default_formatter k)) st_b.
Proof. intros Hk. apply clikit_formatter_styles, default_formatters_are_clikit, Hk. Qed.
(* what "error" and "b" resolve to there: clikit's red bold (not pastel's white on red), and bold *)
Example default_styles_values :
  resolve (f_styles (default_formatter FPlain)) st_error = Ok (Some {| p_fg := Some 31%N; p_bg := None; p_opts := [1%N] |}) /\
  resolve (f_styles (default_formatter FPlain)) st_b = Ok (Some {| p_fg := None; p_bg := None; p_opts := [1%N] |}).
Proof. vm_compute. split; reflexivity. Qed.

(* ------------------------------------------------------------------ the theorems, for clikit's formatters *)
Theorem render_never_fails_clikit c simple o x : clikit_output o -> exists bytes, render c simple o x = Ok bytes.
Proof. intros H. destruct (clikit_output_ok o H) as (Ho & He & Hb). exact (render_never_fails_any _ c simple o x Ho He Hb). Qed.
Theorem render_sol_never_fails_clikit c simple o x sols : clikit_output o -> exists bytes, render_sol c simple o x sols = Ok bytes.
Proof. intros H. destruct (clikit_output_ok o H) as (Ho & He & Hb). exact (render_sol_never_fails_any _ c simple o x sols Ho He Hb). Qed.
Theorem render_lines_good_clikit o c simple ind x ls : clikit_output o -> render_lines c simple ind x = Ok ls ->
  Forall (fun wl => good_line (f_styles (o_fmt o)) (snd wl)) ls.
Proof. intros H. destruct (clikit_output_ok o H) as (Ho & He & Hb). exact (render_lines_good _ He Hb c simple ind x ls). Qed.
Theorem simple_bytes_clikit c o x : clikit_output o -> decorated o = false -> (o_indent o <= 0)%Z ->
  render c true o x = Ok (o_buf o ++ shown (x_msg x) ++ [NL]).
Proof. intros H. destruct (clikit_output_ok o H) as (Ho & He & Hb). exact (simple_bytes_0 _ c o x Ho He). Qed.
Theorem full_bytes_clikit c o x : clikit_output o -> decorated o = false -> (0 <= o_indent o)%Z -> x_frames x <> [] ->
  let ind := (o_indent o + 2)%Z in
  exists tr_p sn_p,
    render_trace c ind (x_frames x) = Ok (map pline_w tr_p) /\
    render_snippet c ind (last (x_frames x) dflt_frame) = Ok (map pline_w sn_p) /\
    render c false o x
    = Ok (o_buf o ++ flat_map shown_line tr_p
            ++ [NL] ++ spaces ind ++ shown (ind_text ind (x_name x)) ++ [NL]
            ++ [NL] ++ spaces ind ++ shown (ind_text ind (msg_text (x_msg x))) ++ [NL]
            ++ flat_map shown_line sn_p).
Proof. intros H. destruct (clikit_output_ok o H) as (Ho & He & Hb). exact (full_bytes_total _ c o x Ho He Hb). Qed.
