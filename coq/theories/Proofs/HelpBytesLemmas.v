(* C13, the RENDERED TEXT of a help page (the bytes render_page returns), through the plain formatter.
   command_page_complete & co (HelpLemmas) are statements about the layout - the elements handed to BlockLayout.  Here: what
   the layout's labels and names look like in the text written.
   A. text on a line.   B. what the undecorated formatter keeps: text outside every tag candidate, free of "<" and backslash,
   comes out as it is, where it is.   C. the text of one element; the page is the texts of its elements, in order.
   D. labels (options, arguments, commands of the application page) are on one line.   E. paragraphs (the names of the
   sub-commands): on one line when the paragraph fits its line, else with white space put in where textwrap broke it. *)
From Coq Require Import Lia.
From Clikit Require Import Base.Prelude Base.Res Model.Conv Model.Flags Model.Format Model.Markup Model.Wrap Model.Help.
From Clikit Require Import Proofs.WrapLemmas Proofs.HelpLemmas Proofs.MarkupLemmas Proofs.LiteralLemmas Proofs.MarkupShrinkLemmas
  Proofs.HelpPlainLemmas Proofs.HelpCleanLemmas Proofs.HelpRenderLemmas.

(* ================= A. infixes and lines ================= *)
Lemma infix_refl p : infix_of p p.
Proof. exists [], []. now rewrite app_nil_r. Qed.
Lemma infix_trans a b c : infix_of a b -> infix_of b c -> infix_of a c.
Proof. intros (u & v & ->) (u' & v' & ->). exists (u' ++ u), (v ++ v'). now rewrite <- !app_assoc. Qed.
Lemma infix_app_l p a b : infix_of p a -> infix_of p (a ++ b).
Proof. intros (u & v & ->). exists u, (v ++ b). now rewrite <- !app_assoc. Qed.
Lemma infix_app_r p a b : infix_of p b -> infix_of p (a ++ b).
Proof. intros (u & v & ->). exists (a ++ u), v. now rewrite <- !app_assoc. Qed.
Lemma infix_mid p a b : infix_of p (a ++ p ++ b).
Proof. exists a, b. reflexivity. Qed.
Lemma infix_sub a p b q : infix_of p q -> infix_of p (a ++ q ++ b).
Proof. intros H. apply infix_app_r, infix_app_l, H. Qed.
Lemma infix_concat p x : forall l, In x l -> infix_of p x -> infix_of p (concat l).
Proof.
  induction l as [|y l IH]; [contradiction|]. intros [->|H] Hp; cbn [concat]; [now apply infix_app_l|apply infix_app_r; auto].
Qed.

(* p is part of one line of the text s *)
Definition on_line (p s : str) : Prop := exists ln, In ln (split_on 10%N s) /\ infix_of p ln.
Lemma hd_split_in s : In (hd [] (split_on 10%N s)) (split_on 10%N s).
Proof. destruct (split_on 10%N s) as [|l ls] eqn:E; [destruct (split_on_nonempty _ _ E)|now left]. Qed.
(* a piece of the text that holds no line break lies on one line *)
Lemma infix_on_line p s : no_nl p -> infix_of p s -> on_line p s.
Proof.
  intros Hp (u & v & ->). unfold on_line. induction u as [|c u (ln & Hin & Hl)].
  - cbn [app]. exists (hd [] (split_on 10%N (p ++ v))). split; [apply hd_split_in|].
    rewrite hd_split_no_nl by exact Hp. apply infix_app_l, infix_refl.
  - cbn [app]. destruct (N.eqb c 10) eqn:E.
    + cbn [split_on]. rewrite E. exists ln. split; [now right|exact Hl].
    + destruct (split_on_cons 10%N c (u ++ p ++ v) E) as (l & ls & E1 & ->). rewrite E1 in Hin. destruct Hin as [<-|Hin].
      * exists (c :: l). split; [now left|]. destruct Hl as (a & b & ->). exists (c :: a), b. reflexivity.
      * exists ln. split; [now right|exact Hl].
Qed.
Lemma on_line_infix p s : on_line p s -> infix_of p s.
Proof.
  intros (ln & Hin & Hl). eapply infix_trans; [exact Hl|]. clear Hl. revert ln Hin.
  induction s as [|c s IH]; intros ln Hin.
  - cbn in Hin. destruct Hin as [<-|[]]. apply infix_refl.
  - destruct (N.eqb c 10) eqn:E.
    + cbn [split_on] in Hin. rewrite E in Hin. destruct Hin as [<-|Hin]; [exists [], (c :: s); reflexivity|].
      change (c :: s) with ([c] ++ s). apply infix_app_r, IH, Hin.
    + destruct (split_on_cons 10%N c s E) as (l & ls & E1 & E2). rewrite E2 in Hin. destruct Hin as [<-|Hin].
      * destruct (IH l) as (a & b & Es); [rewrite E1; now left|].
        destruct (hd_split_prefix s) as [t2 Et]. rewrite E1 in Et. cbn [hd] in Et. exists [], t2. cbn [app]. now rewrite Et at 1.
      * change (c :: s) with ([c] ++ s). apply infix_app_r, IH. rewrite E1. now right.
Qed.
Lemma on_line_app_l p a b : on_line p a -> no_nl p -> on_line p (a ++ b).
Proof. intros H Hp. apply infix_on_line; [exact Hp|]. apply infix_app_l, on_line_infix, H. Qed.

(* ================= B. what the undecorated formatter keeps ================= *)
(* behind ">" and behind a blank or a line break no tag candidate is pending *)
Lemma cand_after_gt st : l_cand (lex_step st GT) = CText.
Proof.
  unfold lex_step. change (N.eqb GT LT) with false. cbv iota.
  destruct (l_cand st); cbn [l_cand]; try reflexivity.
Qed.
Lemma cand_after_inert st c : inert c -> l_cand (lex_step st c) = CText.
Proof. intros H. now rewrite (inert_step st c H). Qed.
Lemma cand_snoc_gt a : l_cand (scan (a ++ [GT])) = CText.
Proof. unfold scan. rewrite fold_left_app. apply cand_after_gt. Qed.
(* text without "<" in front does not change what is pending behind *)
Lemma cand_text_prefix t a : no_lt t -> l_cand (scan (t ++ a)) = l_cand (scan a).
Proof. intros Ht. rewrite scan_app by now rewrite (scan_text t Ht). apply glue_cand. Qed.

(* THE KEPT TEXT.  Behind a where no tag candidate is pending, a text n without "<" and backslash comes out as it is, between
   the rendering of what is before it and the rendering of what is behind it. *)
Lemma wout_kept sty a0 a n b : l_cand (scan a) = CText -> n <> [] -> no_lt n -> ends_with_bsl n = false ->
  wout_of sty a0 (a ++ n ++ b) = wout_of sty a0 a ++ n ++ wout_of sty false b.
Proof.
  intros Ha Hn Hlt Hb. unfold wout_of. fold (scan (a ++ n ++ b)) (scan a) (scan b).
  assert (scan (a ++ n ++ b) = glue (l_done (scan a)) (l_cur (scan a) ++ n) (scan b)) as ->.
  { unfold scan at 1. rewrite !fold_left_app. fold (scan a). destruct (scan a) as [d c k]. cbn [l_cand l_done l_cur] in *. subst k.
    rewrite (lex_text n Hlt d c). change {| l_done := d; l_cur := c ++ n; l_cand := CText |} with (mk d (c ++ n) CText).
    now rewrite <- glue_init, glue_fold. }
  rewrite wout_glue.
  - unfold wout at 2. rewrite Ha. cbn [raw_of]. now rewrite app_nil_r, <- !app_assoc.
  - destruct (l_cur (scan a)); [exact Hn|discriminate].
  - rewrite ends_app. destruct n; [congruence|exact Hb].
Qed.
Theorem plain_of_kept sty a0 a n b : l_cand (scan a) = CText -> n <> [] -> no_lt n -> no_bsl n ->
  plain_of sty a0 (a ++ n ++ b) = plain_of sty a0 a ++ n ++ plain_of sty false b.
Proof.
  intros Ha Hn Hlt Hb. unfold plain_of. change (wout sty a0 (fold_left lex_step (a ++ n ++ b) lex_init)) with (wout_of sty a0 (a ++ n ++ b)).
  rewrite (wout_kept sty a0 a n b Ha Hn Hlt (no_bsl_ends n Hb)). fold (wout_of sty a0 a) (wout_of sty false b).
  rewrite unescape_app_r.
  - rewrite unescape_app_l by now apply no_bsl_ends. now rewrite (unescape_id n Hb).
  - destruct n as [|c n']; [congruence|]. cbn [app no_lt_start]. now inversion Hlt.
Qed.
Corollary plain_of_keeps sty a0 a n b : l_cand (scan a) = CText -> n <> [] -> no_lt n -> no_bsl n ->
  infix_of n (plain_of sty a0 (a ++ n ++ b)).
Proof. intros. rewrite plain_of_kept by assumption. apply infix_mid. Qed.

(* inert text in front is written as it is *)
Lemma plain_of_inert_prefix sty t b : Forall inert t -> plain_of sty false (t ++ b) = t ++ plain_of sty false b.
Proof. intros H. rewrite !plain_of_render. now apply render_inert_prefix. Qed.

(* ================= C. one element, the page ================= *)
(* rstrip stops at a character that is no white space *)
Lemma rstrip_rev_stop x c y : is_space c = false -> rstrip_rev (x ++ c :: y) = rstrip_rev x ++ c :: y.
Proof.
  intros Hc. induction x as [|d x IH]; cbn [app rstrip_rev]; [now rewrite Hc|].
  destruct (is_space d); [exact IH|reflexivity].
Qed.
Lemma rstrip_behind a c b : is_space c = false -> rstrip (a ++ c :: b) = a ++ c :: rstrip b.
Proof.
  intros Hc. unfold rstrip. rewrite rev_app_distr. cbn [rev]. rewrite <- app_assoc. cbn [app].
  rewrite (rstrip_rev_stop (rev b) c (rev a) Hc), rev_app_distr. cbn [rev]. rewrite rev_involutive, <- app_assoc. reflexivity.
Qed.
Lemma rstrip_nil : rstrip [] = []. Proof. reflexivity. Qed.
(* a text whose last character is no white space *)
Definition ends_visible (s : str) : Prop := exists s' c, s = s' ++ [c] /\ is_space c = false.
Lemma rstrip_ends_visible a b : ends_visible a -> rstrip (a ++ b) = a ++ rstrip b.
Proof. intros (a' & c & -> & Hc). rewrite <- !app_assoc. cbn [app]. now apply rstrip_behind. Qed.
Lemma rstrip_id a : ends_visible a -> rstrip a = a.
Proof. intros H. rewrite <- (app_nil_r a) at 1. rewrite (rstrip_ends_visible a [] H), rstrip_nil. apply app_nil_r. Qed.
Lemma ends_visible_app a b : ends_visible b -> ends_visible (a ++ b).
Proof. intros (b' & c & -> & Hc). exists (a ++ b'), c. now rewrite app_assoc. Qed.

(* the text a labelled paragraph hands to the formatter: indentation, label, and the rest - when the label does not end with
   white space (else the blanks stripped from an empty text could belong to the label) *)
Lemma lab_raw_shape W off ind vis label text padding aligned raw :
  elem_raw W off ind vis (ELab label text padding aligned) = Ok raw -> ends_visible label ->
  exists rest, raw = spaces ind ++ label ++ rest ++ [10%N].
Proof.
  intros H Hl. cbn [elem_raw] in H. cbv zeta in H. destruct (wrap text _) as [lines|k]; [|discriminate]. cbn [bind] in H.
  injection H as <-. unfold ljust. rewrite <- !app_assoc, (app_assoc (spaces ind) label).
  rewrite (rstrip_ends_visible (spaces ind ++ label) _ (ends_visible_app _ _ Hl)).
  match goal with |- context [rstrip ?b] => exists (rstrip b) end. now rewrite <- !app_assoc.
Qed.

(* what the plain formatter writes for one element: the rendering of the text elem_raw builds - the visible width of the label
   being what the formatter itself leaves of the label (vis_of) *)
Definition elem_text_for (sty : styles) (W off : Z) (x : nat * elem) : res str :=
  elem_raw W off (fst x) (vis_of sty (elem_label (snd x))) (snd x).
Lemma render_elem_plain W off f ind e x : f_kind f = FPlain -> render_elem W off f ind e = Ok x ->
  f_kind (fst x) = FPlain /\ f_styles (fst x) = f_styles f /\
  exists raw, elem_text_for (f_styles f) W off (ind, e) = Ok raw /\ snd x = plain_of (f_styles f) false raw.
Proof.
  intros Hk H.
  assert (Hgen : forall f0 raw, f_kind f0 = FPlain -> f_styles f0 = f_styles f -> emit f0 raw = Ok x ->
            elem_text_for (f_styles f) W off (ind, e) = Ok raw ->
            f_kind (fst x) = FPlain /\ f_styles (fst x) = f_styles f /\
            exists raw, elem_text_for (f_styles f) W off (ind, e) = Ok raw /\ snd x = plain_of (f_styles f) false raw).
  { intros f0 raw Hk0 Hs0 He Er. apply emit_plain_of in He; [|exact Hk0]. destruct He as (E & E1 & E2).
    split; [exact E1|]. split; [congruence|]. exists raw. split; [exact Er|].
    rewrite E, Hs0. unfold elem_text_for in Er. now rewrite (elem_raw_ends _ _ _ _ _ _ Er). }
  destruct e as [t|label text padding aligned|]; unfold render_elem in H.
  - destruct (elem_raw W off ind 0 (EPara t)) as [raw|k] eqn:Er; [|discriminate]. cbn [bind] in H.
    apply (Hgen f raw Hk eq_refl H). exact Er.
  - destruct (remove_format f label) as [x1|k] eqn:E1; [|discriminate]. cbn [bind] in H.
    apply remove_format_plain_of in E1; [|congruence]. destruct E1 as (Ev & Ek1 & Es1). rewrite Ev in H.
    destruct (elem_raw W off ind _ (ELab label text padding aligned)) as [raw|k] eqn:Er; [|discriminate]. cbn [bind] in H.
    apply (Hgen (fst x1) raw (eq_trans Ek1 Hk) Es1 H). exact Er.
  - destruct (elem_raw W off ind 0 EEmpty) as [raw|k] eqn:Er; [|discriminate]. cbn [bind] in H.
    apply (Hgen f raw Hk eq_refl H). exact Er.
Qed.

(* the texts written for the elements of l, one behind the other *)
Definition written (sty : styles) (W off : Z) (l : layout) (ps : list str) : Prop :=
  Forall2 (fun x p => exists raw, elem_text_for sty W off x = Ok raw /\ p = plain_of sty false raw) l ps.
Lemma render_all_plain W off : forall l f out x, f_kind f = FPlain -> render_all W off f l out = Ok x ->
  f_kind (fst x) = FPlain /\ f_styles (fst x) = f_styles f /\
  exists ps, written (f_styles f) W off l ps /\ snd x = out ++ concat ps.
Proof.
  induction l as [|[ind e] r IH]; intros f out x Hk H; cbn [render_all] in H.
  - injection H as <-. cbn [fst snd]. split; [exact Hk|]. split; [reflexivity|]. exists []. split; [constructor|now rewrite app_nil_r].
  - destruct (render_elem W off f ind e) as [y|k] eqn:Ee; [|discriminate]. cbn [bind] in H.
    destruct (render_elem_plain _ _ _ _ _ _ Hk Ee) as (Hk' & Hs' & raw & Er & Ey).
    destruct (IH _ _ _ Hk' H) as (Hk2 & Hs2 & ps & Hps & Ex). split; [exact Hk2|]. split; [congruence|].
    exists (snd y :: ps). split.
    + constructor; [exists raw; split; [exact Er|exact Ey]|]. unfold written in Hps. now rewrite Hs' in Hps.
    + rewrite Ex. cbn [concat]. now rewrite <- app_assoc.
Qed.
(* rendering the two halves of a layout one after the other *)
Lemma render_all_app W off : forall l1 l2 f out, render_all W off f (l1 ++ l2) out =
  (do x <- render_all W off f l1 out; render_all W off (fst x) l2 (snd x)).
Proof.
  induction l1 as [|[ind e] r IH]; intros l2 f out; cbn [app render_all bind]; [reflexivity|].
  destruct (render_elem W off f ind e) as [y|k]; cbn [bind]; [apply IH|reflexivity].
Qed.

Lemma align_styles : forall l f acc a, f_kind f = FPlain -> align f l acc = Ok a -> f_styles (fst a) = f_styles f.
Proof.
  induction l as [|[ind e] r IH]; intros f acc a Hk H; cbn [align] in H; [now injection H as <-|].
  destruct e as [t|label text padding aligned|]; [eapply IH; eassumption| |eapply IH; eassumption].
  destruct aligned; [|eapply IH; eassumption].
  destruct (remove_format f label) as [x1|k] eqn:E1; [|discriminate]. cbn [bind] in H.
  apply remove_format_plain_of in E1; [|congruence]. destruct E1 as (_ & E2 & E3). rewrite <- E3. eapply IH; [congruence|exact H].
Qed.
(* THE PAGE: the text of a page that the plain formatter renders is the texts of its elements, in order *)
Theorem page_plain_is_elements W f l s : f_kind f = FPlain -> render_page W f l = Ok s ->
  exists off ps, written (f_styles f) W off l ps /\ s = concat ps.
Proof.
  intros Hk H. unfold render_page in H. destruct (align f l 0) as [a|k] eqn:Ea; [|discriminate]. cbn [bind] in H.
  destruct (render_all W (snd a) (fst a) l []) as [x|k] eqn:E; [|discriminate]. cbn [bind] in H. injection H as <-.
  pose proof (align_plain _ _ _ _ Hk Ea) as Hk'.
  destruct (render_all_plain _ _ _ _ _ _ Hk' E) as (_ & _ & ps & Hps & Ex). exists (snd a), ps. split; [|exact Ex].
  now rewrite (align_styles _ _ _ _ Hk Ea) in Hps.
Qed.
(* s is the text written for the layout l: the texts of its elements, one behind the other *)
Definition text_of (sty : styles) (W : Z) (l : layout) (s : str) : Prop := exists off ps, written sty W off l ps /\ s = concat ps.
Lemma page_text_of W f l s : f_kind f = FPlain -> render_page W f l = Ok s -> text_of (f_styles f) W l s.
Proof. exact (page_plain_is_elements W f l s). Qed.
Lemma Forall2_app_inv_l' {X Y} (R : X -> Y -> Prop) : forall l1 l2 ps, Forall2 R (l1 ++ l2) ps ->
  exists p1 p2, ps = p1 ++ p2 /\ Forall2 R l1 p1 /\ Forall2 R l2 p2.
Proof.
  induction l1 as [|x l1 IH]; intros l2 ps H; [exists [], ps; repeat split; [constructor|exact H]|].
  inversion H as [|? p ? ps' Hx Hr]; subst. destruct (IH l2 ps' Hr) as (p1 & p2 & -> & H1 & H2).
  exists (p :: p1), p2. repeat split; [constructor; assumption|exact H2].
Qed.
(* the text of a part of the layout is a part of the text *)
Lemma text_of_section sty W a b c s : text_of sty W (a ++ b ++ c) s -> exists s1 s2 s3, s = s1 ++ s2 ++ s3 /\ text_of sty W b s2.
Proof.
  intros (off & ps & Hps & ->). unfold written in Hps.
  apply Forall2_app_inv_l' in Hps as (p1 & p23 & -> & H1 & H23). apply Forall2_app_inv_l' in H23 as (p2 & p3 & -> & H2 & H3).
  exists (concat p1), (concat p2), (concat p3). split; [now rewrite !concat_app|]. exists off, p2. split; [exact H2|reflexivity].
Qed.
Lemma written_in sty W off l ps x : written sty W off l ps -> In x l ->
  exists raw, elem_text_for sty W off x = Ok raw /\ infix_of (plain_of sty false raw) (concat ps).
Proof.
  induction 1 as [|y p l ps (raw & Er & Ep) _ IH]; [contradiction|]. intros [->|Hin].
  - exists raw. split; [exact Er|]. subst p. cbn [concat]. apply infix_app_l, infix_refl.
  - destruct (IH Hin) as (raw' & Er' & Hi). exists raw'. split; [exact Er'|]. cbn [concat]. now apply infix_app_r.
Qed.

(* ================= D. labels ================= *)
(* a piece n of a label, behind a part p of the label that leaves no tag candidate pending, is in the text written - on one line
   when it holds no line break *)
Theorem label_piece_written sty W l s ind label text padding aligned p n q :
  text_of sty W l s -> In (ind, ELab label text padding aligned) l ->
  ends_visible label -> label = p ++ n ++ q -> l_cand (scan p) = CText -> n <> [] -> plain n ->
  infix_of n s /\ (no_nl n -> on_line n s).
Proof.
  intros H Hin Hv El Hp Hn [Hlt Hb].
  assert (infix_of n s) as Hi.
  { destruct H as (off & ps & Hps & ->).
    destruct (written_in _ _ _ _ _ _ Hps Hin) as (raw & Er & Hi). eapply infix_trans; [|exact Hi].
    unfold elem_text_for in Er. cbn [fst snd elem_label] in Er.
    destruct (lab_raw_shape _ _ _ _ _ _ _ _ _ Er Hv) as (rest & ->). rewrite El, <- !app_assoc, (app_assoc (spaces ind) p).
    apply plain_of_keeps; try assumption. rewrite cand_text_prefix; [exact Hp|]. apply Forall_forall. intros c Hc.
    apply repeat_spec in Hc. subst c. discriminate. }
  split; [exact Hi|]. intros Hnl. now apply infix_on_line.
Qed.

Corollary label_piece_on_line sty W l s ind label text padding aligned p n q :
  text_of sty W l s -> In (ind, ELab label text padding aligned) l ->
  ends_visible label -> label = p ++ n ++ q -> l_cand (scan p) = CText -> n <> [] -> plain n -> no_nl n -> on_line n s.
Proof. intros H Hin Hv El Hp Hn Hpl Hnl. now apply (label_piece_written sty W l s ind label text padding aligned p n q). Qed.

(* ---- the labels of the help model ---- *)
Lemma C1E_visible x : ends_visible (x ++ C1E).
Proof. apply ends_visible_app. exists [60;47;99;49]%N, 62%N. split; reflexivity. Qed.
Lemma paren_visible x : ends_visible (x ++ [41%N]).
Proof. exists x, 41%N. split; reflexivity. Qed.
Lemma paren_visible_gen x c : is_space c = false -> ends_visible (x ++ [c]).
Proof. intros H. exists x, c. split; [reflexivity|exact H]. Qed.
Lemma option_label_visible h : ends_visible (elem_label (render_option h)).
Proof.
  rewrite render_option_names_lemma. destruct (bit (o_flags (h_o h)) 0).
  - destruct (o_short (h_o h)) as [sh|].
    + rewrite !app_assoc. apply paren_visible.
    + rewrite app_nil_r, app_assoc. apply C1E_visible.
  - rewrite !app_assoc. apply paren_visible.
Qed.
Lemma argument_label_visible a : ends_visible (elem_label (render_argument a)).
Proof. rewrite render_argument_name_lemma, !app_assoc. apply C1E_visible. Qed.
Lemma cand_C1 : l_cand (scan C1) = CText. Proof. reflexivity. Qed.
Lemma cand_behind_C1E x : l_cand (scan (x ++ C1E)) = CText.
Proof. change C1E with ([60;47;99;49]%N ++ [GT]). rewrite app_assoc. apply cand_snoc_gt. Qed.
Lemma cand_behind_C1 x : l_cand (scan (x ++ C1)) = CText.
Proof. change C1 with ([60;99;49]%N ++ [GT]). rewrite app_assoc. apply cand_snoc_gt. Qed.
Lemma plain_cons c n : c <> LT -> c <> BSL -> plain n -> plain (c :: n).
Proof. intros H1 H2 [A B]. split; constructor; assumption. Qed.
Lemma plain_snoc n c : c <> LT -> c <> BSL -> plain n -> plain (n ++ [c]).
Proof. intros H1 H2 Hn. apply plain_app; [exact Hn|]. split; constructor; auto; constructor. Qed.
Lemma no_nl_cons c n : c <> 10%N -> no_nl n -> no_nl (c :: n).
Proof. intros; constructor; assumption. Qed.

(* the names of an option, as they are typed on the command line, are pieces of its label *)
Definition long_form (h : hopt) : str := DASH :: DASH :: o_long (h_o h).
Definition short_form (sh : str) : str := DASH :: sh.
Lemma option_label_long h : exists p q, elem_label (render_option h) = p ++ long_form h ++ q /\ l_cand (scan p) = CText.
Proof.
  rewrite render_option_names_lemma. unfold long_form. destruct (bit (o_flags (h_o h)) 0).
  - exists C1. eexists. split; [reflexivity|exact cand_C1].
  - eexists (C1 ++ (DASH :: match o_short (h_o h) with Some s => s | None => [] end) ++ C1E ++ [32; 40]%N), [41%N].
    split; [now rewrite <- !app_assoc|].
    change [32;40]%N with ([32%N] ++ [40%N]). rewrite !app_assoc. unfold scan. rewrite fold_left_app. cbn [fold_left].
    set (st := fold_left _ _ _). unfold lex_step. change (N.eqb 40 LT) with false. cbv iota.
    assert (l_cand st = CText) as ->; [|reflexivity]. subst st. rewrite fold_left_app. cbn [fold_left].
    apply cand_after_inert, inert_space. reflexivity.
Qed.
Lemma option_label_short h sh : o_short (h_o h) = Some sh ->
  exists p q, elem_label (render_option h) = p ++ short_form sh ++ q /\ l_cand (scan p) = CText.
Proof.
  intros Hs. rewrite render_option_names_lemma, Hs. unfold short_form. destruct (bit (o_flags (h_o h)) 0).
  - eexists (C1 ++ (DASH :: DASH :: o_long (h_o h)) ++ C1E ++ [32; 40]%N), [41%N].
    split; [now rewrite <- !app_assoc|].
    change [32;40]%N with ([32%N] ++ [40%N]). rewrite !app_assoc. unfold scan. rewrite fold_left_app. cbn [fold_left].
    set (st := fold_left _ _ _). unfold lex_step. change (N.eqb 40 LT) with false. cbv iota.
    assert (l_cand st = CText) as ->; [|reflexivity]. subst st. rewrite fold_left_app. cbn [fold_left].
    apply cand_after_inert, inert_space. reflexivity.
  - exists C1. eexists. split; [reflexivity|exact cand_C1].
Qed.

(* the name of an argument: "name>" is a piece of the label behind the second <c1>; the "<" in front of it is written by the
   element <c1><</c1>, which comes out as "<" when c1 is a style of the formatter (else the tags are text and stand between) *)
Definition ARG_OPEN : str := C1 ++ [LT] ++ C1E ++ C1.
Lemma argument_label_name a : elem_label (render_argument a) = ARG_OPEN ++ (a_name (h_a a) ++ [GT]) ++ C1E /\ l_cand (scan ARG_OPEN) = CText.
Proof. split; [rewrite render_argument_name_lemma; unfold ARG_OPEN; now rewrite <- !app_assoc|reflexivity]. Qed.
Lemma recognised_c1 sty raw cl : resolvable sty NM_C1 -> recognised sty (Tag raw cl NM_C1) = true.
Proof. intros [p Hp]. unfold recognised. rewrite Hp. apply orb_true_r. Qed.
Lemma plain_of_ARG_OPEN sty : resolvable sty NM_C1 -> plain_of sty false ARG_OPEN = [LT].
Proof.
  intros Hr. unfold plain_of.
  assert (fold_left lex_step ARG_OPEN lex_init = mk [([], Tag C1 false NM_C1); ([LT], Tag C1E true NM_C1); ([], Tag C1 false NM_C1)] [] CText) as ->
    by (vm_compute; reflexivity).
  unfold wout. cbn [mk l_done l_cur l_cand raw_of plain_segs]. unfold kept. rewrite !(recognised_c1 sty _ _ Hr). unfold esc_of.
  change (ends_with_bsl [LT]) with false. cbn [andb orb negb app]. reflexivity.
Qed.
Theorem argument_name_written sty W l s ind a :
  text_of sty W l s -> In (ind, render_argument a) l -> plain (a_name (h_a a)) -> no_nl (a_name (h_a a)) ->
  on_line (a_name (h_a a) ++ [GT]) s /\ (resolvable sty NM_C1 -> on_line (LT :: a_name (h_a a) ++ [GT]) s).
Proof.
  intros H Hin Hp Hnl. destruct (argument_label_name a) as [El Hc].
  assert (plain (a_name (h_a a) ++ [GT])) as Hp' by (apply plain_snoc; [discriminate|discriminate|exact Hp]).
  assert (no_nl (a_name (h_a a) ++ [GT])) as Hnl' by (apply no_nl_app; [exact Hnl|constructor; [discriminate|constructor]]).
  split.
  - destruct (render_argument a) as [t|label text padding aligned|] eqn:Ee; try (cbn [elem_label] in El; destruct (a_name (h_a a)); discriminate).
    cbn [elem_label] in El.
    apply (label_piece_on_line sty W l s ind label text padding aligned ARG_OPEN (a_name (h_a a) ++ [GT]) C1E H Hin); auto.
    + rewrite El, !app_assoc. apply C1E_visible.
    + destruct (a_name (h_a a)); discriminate.
  - intros Hr. apply infix_on_line; [constructor; [discriminate|exact Hnl']|].
    destruct H as (off & ps & Hps & ->).
    destruct (written_in _ _ _ _ _ _ Hps Hin) as (raw & Er & Hi). eapply infix_trans; [|exact Hi].
    unfold elem_text_for in Er. cbn [fst snd] in Er.
    destruct (render_argument a) as [t|label text padding aligned|] eqn:Ee; try (cbn [elem_label] in El; destruct (a_name (h_a a)); discriminate).
    cbn [elem_label] in El, Er.
    assert (ends_visible label) as Hv by (rewrite El, !app_assoc; apply C1E_visible).
    destruct (lab_raw_shape _ _ _ _ _ _ _ _ _ Er Hv) as (rest & ->).
    assert (a_name (h_a a) ++ [GT] <> []) as Hne by (destruct (a_name (h_a a)); discriminate).
    set (N := a_name (h_a a) ++ [GT]) in *. rewrite El, <- !app_assoc, (app_assoc (spaces ind) ARG_OPEN).
    rewrite (plain_of_kept _ false (spaces ind ++ ARG_OPEN) N).
    + rewrite plain_of_inert_prefix by apply inert_spaces. rewrite (plain_of_ARG_OPEN _ Hr).
      match goal with |- infix_of _ ((_ ++ _) ++ _ ++ ?x) => exists (spaces ind), x end.
      rewrite <- !app_assoc. reflexivity.
    + rewrite cand_text_prefix; [exact Hc|]. apply Forall_forall. intros c Hc'. apply repeat_spec in Hc'. subst c. discriminate.
    + exact Hne.
    + apply Hp'.
    + apply Hp'.
Qed.
(* an option: both spellings *)
Theorem option_names_written sty W l s ind h :
  text_of sty W l s -> In (ind, render_option h) l ->
  (plain (o_long (h_o h)) -> no_nl (o_long (h_o h)) -> on_line (long_form h) s)
  /\ (forall sh, o_short (h_o h) = Some sh -> plain sh -> no_nl sh -> on_line (short_form sh) s).
Proof.
  intros H Hin. pose proof (option_label_visible h) as Hv.
  destruct (render_option h) as [t|label text padding aligned|] eqn:Ee;
    try (exfalso; destruct Hv as (s' & c & E & _); cbn [elem_label] in E; destruct s'; discriminate).
  cbn [elem_label] in Hv. split.
  - intros Hp Hnl. destruct (option_label_long h) as (p & q & El & Hc). rewrite Ee in El. cbn [elem_label] in El.
    apply (label_piece_on_line sty W l s ind label text padding aligned p (long_form h) q H Hin Hv El Hc); [discriminate| |].
    + unfold long_form. apply plain_cons; [discriminate|discriminate|]. apply plain_cons; [discriminate|discriminate|exact Hp].
    + unfold long_form. repeat apply no_nl_cons; try discriminate. exact Hnl.
  - intros sh Hs Hp Hnl. destruct (option_label_short h sh Hs) as (p & q & El & Hc). rewrite Ee in El. cbn [elem_label] in El.
    apply (label_piece_on_line sty W l s ind label text padding aligned p (short_form sh) q H Hin Hv El Hc); [discriminate| |].
    + unfold short_form. apply plain_cons; [discriminate|discriminate|exact Hp].
    + unfold short_form. apply no_nl_cons; [discriminate|exact Hnl].
Qed.
(* a command of the application page: <c1>name</c1> *)
Theorem command_label_written sty W l s ind name text padding aligned :
  text_of sty W l s -> In (ind, ELab (C1 ++ name ++ C1E) text padding aligned) l ->
  name <> [] -> plain name -> no_nl name -> on_line name s.
Proof.
  intros H Hin Hne Hp Hnl.
  apply (label_piece_on_line sty W l s ind _ text padding aligned C1 name C1E H Hin); auto.
  rewrite app_assoc. apply C1E_visible.
Qed.

(* ================= E. paragraphs ================= *)
Lemma para_raw_shape W off ind vis t raw : elem_raw W off ind vis (EPara t) = Ok raw ->
  exists lines, wrap t (W - 1 - Z.of_nat ind) = Ok lines /\ raw = spaces ind ++ rstrip (join_lines (spaces ind) lines) ++ [10%N].
Proof.
  cbn [elem_raw]. destruct (wrap t _) as [lines|k]; [|discriminate]. cbn [bind]. intros H. injection H as <-. eauto.
Qed.

(* ---- a paragraph that fits its line is written on one line ---- *)
Lemma tw_space_is_space c : tw_space c = true -> is_space c = true.
Proof.
  unfold tw_space. intros H. apply existsb_exists in H as (x & Hin & E). apply N.eqb_eq in E. subst x.
  cbn [In] in Hin. repeat (destruct Hin as [<-|Hin]; [reflexivity|]). contradiction.
Qed.
Definition spacefree (t : str) : Prop := Forall (fun c => is_space c = false) t.
Lemma spacefree_munge t : spacefree t -> munge t = t.
Proof.
  intros H. apply munge_id. eapply Forall_impl; [|exact H]. intros c Hc. cbv beta in *.
  destruct (tw_space c) eqn:E; [|reflexivity]. apply tw_space_is_space in E. congruence.
Qed.
Lemma Forall_concat_in {X} (P : X -> Prop) (l : list (list X)) x : Forall P (concat l) -> In x l -> Forall P x.
Proof.
  induction l as [|y l IH]; [contradiction|]. cbn [concat]. intros H Hin. apply Forall_app in H as [H1 H2].
  destruct Hin as [->|Hin]; auto.
Qed.
Lemma wrap_one_line t w : t <> [] -> spacefree t -> (Z.of_nat (length t) <= w)%Z -> wrap t w = Ok [t].
Proof.
  intros Hne Hsf Hw. unfold wrap. destruct (Z.leb_spec w 0) as [H0|H0]; [destruct t; [congruence|cbn [length] in Hw; lia]|].
  rewrite (spacefree_munge t Hsf). pose proof (chunks_concat t) as Hc. pose proof (chunks_ne t) as Hn.
  destruct (chunks t) as [|c0 r0] eqn:Ecs; [cbn in Hc; congruence|]. set (width := Z.to_nat w) in *.
  assert (length t <= width) as Hlen by (subst width; lia).
  assert (forall l, In l (c0 :: r0) -> blank l = false) as Hnb.
  { intros l Hl. rewrite <- Hc in Hsf. pose proof (Forall_concat_in _ _ _ Hsf Hl) as Hl'. rewrite Forall_forall in Hn.
    specialize (Hn l Hl). destruct l as [|x l']; [now elim Hn|]. inversion Hl' as [|? ? Hx _]; subst. unfold blank. cbn [forallb]. now rewrite Hx. }
  replace (2 * length t + 2) with (S (S (2 * length t))) by lia. rewrite wrap_chunks_S.
  assert (wstep width c0 r0 [] = (c0 :: r0, [])) as ->.
  { unfold wstep. cbv zeta. rewrite andb_false_r.
    destruct (fill_line_spec width (c0 :: r0) [] 0) as (taken & rest & H1 & H2 & H3 & H4). cbn [app Nat.add] in H1, H4.
    rewrite H1. destruct rest as [|c r].
    - rewrite app_nil_r in H2. subst taken. f_equal. unfold dropblank.
      destruct (rev (c0 :: r0)) as [|l ls] eqn:Er; [reflexivity|]. rewrite Hnb; [reflexivity|].
      apply in_rev. rewrite Er. now left.
    - exfalso. rewrite H2, concat_app in Hc. cbn [concat] in Hc. rewrite <- Hc, !app_length in Hlen. lia. }
  cbn [fst snd wrap_chunks app]. f_equal. f_equal. exact Hc.
Qed.
(* a piece n of a paragraph that fits its line, behind a ">" *)
Theorem para_piece_on_line sty W l s ind t a n b :
  text_of sty W l s -> In (ind, EPara t) l ->
  t = a ++ [GT] ++ n ++ b -> spacefree t -> ends_visible t -> (zlen t <= W - 1 - Z.of_nat ind)%Z ->
  n <> [] -> plain n -> no_nl n -> on_line n s.
Proof.
  intros H Hin Et Hsf Hv Hfit Hn [Hlt Hb] Hnl. apply infix_on_line; [exact Hnl|].
  destruct H as (off & ps & Hps & ->).
  destruct (written_in _ _ _ _ _ _ Hps Hin) as (raw & Er & Hi). eapply infix_trans; [|exact Hi].
  unfold elem_text_for in Er. cbn [fst snd] in Er. destruct (para_raw_shape _ _ _ _ _ _ Er) as (lines & Hw & ->).
  rewrite wrap_one_line in Hw; [|rewrite Et; destruct a; discriminate|exact Hsf|exact Hfit]. injection Hw as <-.
  cbn [join_lines]. rewrite (rstrip_id t Hv), Et, <- !app_assoc, (app_assoc (spaces ind) a), (app_assoc _ [GT]).
  apply plain_of_keeps; try assumption. apply cand_snoc_gt.
Qed.

(* ---- in general: the piece is written with white space put in (a line break and the indentation) where textwrap broke it ---- *)
Definition spaced_in (n s : str) : Prop := exists m, infix_of m s /\ filter nsp m = filter nsp n.
Lemma filter_nsp_spaces t : Forall (fun c => is_space c = true) t -> filter nsp t = [].
Proof. induction 1 as [|c t Hc _ IH]; [reflexivity|]. cbn [filter]. unfold nsp at 1. rewrite Hc. exact IH. Qed.
Lemma filter_nsp_join prefix : Forall (fun c => is_space c = true) prefix -> forall lines,
  filter nsp (join_lines prefix lines) = filter nsp (concat lines).
Proof.
  intros Hp. induction lines as [|x r IH]; [reflexivity|]. destruct r as [|y r]; [cbn [join_lines concat]; now rewrite app_nil_r|].
  change (join_lines prefix (x :: y :: r)) with (x ++ [10%N] ++ prefix ++ join_lines prefix (y :: r)).
  change (concat (x :: y :: r)) with (x ++ concat (y :: r)). rewrite !filter_app, IH, (filter_nsp_spaces prefix Hp). reflexivity.
Qed.
Lemma filter_nsp_munge t : filter nsp (munge t) = filter nsp t.
Proof.
  induction t as [|c t IH]; [reflexivity|]. cbn [munge map filter]. fold (munge t). rewrite IH.
  destruct (tw_space c) eqn:E; [|reflexivity]. unfold nsp. rewrite (tw_space_is_space c E). reflexivity.
Qed.
Lemma filter_nsp_rstrip s : filter nsp (rstrip s) = filter nsp s.
Proof.
  destruct (rstrip_prefix_space s) as (t & E & Ht). rewrite E at 2. now rewrite filter_app, (filter_nsp_spaces t Ht), app_nil_r.
Qed.
Lemma filter_app_inv {X} (p : X -> bool) : forall l x y, filter p l = x ++ y ->
  exists l1 l2, l = l1 ++ l2 /\ filter p l1 = x /\ filter p l2 = y /\
    (x = [] -> l1 = []) /\ (x <> [] -> exists l1' c, l1 = l1' ++ [c] /\ p c = true).
Proof.
  induction l as [|c l IH]; intros x y E.
  - cbn in E. symmetry in E. apply app_eq_nil in E as [-> ->]. exists [], []. repeat split; auto; congruence.
  - cbn [filter] in E. destruct (p c) eqn:Ec.
    + destruct x as [|x0 x'].
      * exists [], (c :: l). cbn [app filter]. rewrite Ec. repeat split; auto; congruence.
      * cbn [app] in E. injection E as <- E. destruct (IH x' y E) as (l1 & l2 & -> & F1 & F2 & G1 & G2).
        exists (c :: l1), l2. cbn [app filter]. rewrite Ec, F1. split; [reflexivity|]. split; [reflexivity|]. split; [exact F2|].
        split; [discriminate|]. intros _. destruct x' as [|x1 x''].
        -- rewrite (G1 eq_refl). exists [], c. auto.
        -- destruct (G2 ltac:(discriminate)) as (l1' & d & -> & Hd). exists (c :: l1'), d. auto.
    + destruct (IH x y E) as (l1 & l2 & -> & F1 & F2 & G1 & G2). destruct x as [|x0 x'].
      * rewrite (G1 eq_refl) in *. exists [], (c :: l2). cbn [app filter]. rewrite Ec.
        split; [reflexivity|]. split; [reflexivity|]. split; [exact F2|]. split; [reflexivity|congruence].
      * exists (c :: l1), l2. cbn [app filter]. rewrite Ec. split; [reflexivity|]. split; [exact F1|]. split; [exact F2|].
        split; [discriminate|]. intros _.
        destruct (G2 ltac:(discriminate)) as (l1' & d & -> & Hd). exists (c :: l1'), d. auto.
Qed.
Lemma space_not_special c : is_space c = true -> c <> LT /\ c <> BSL.
Proof. intros H. destruct (inert_space c H) as (H1 & _ & _ & H4 & _). auto. Qed.
Lemma spaced_plain n m : plain n -> filter nsp m = filter nsp n -> plain m.
Proof.
  intros [Hlt Hb] E.
  assert (forall c, In c m -> c <> LT /\ c <> BSL) as H.
  { intros c Hc. destruct (is_space c) eqn:Es; [now apply space_not_special|].
    assert (In c (filter nsp n)) as Hin by (rewrite <- E; apply filter_In; split; [exact Hc|unfold nsp; now rewrite Es]).
    apply filter_In in Hin as [Hin _]. unfold no_lt, no_bsl in *. rewrite Forall_forall in Hlt, Hb. auto. }
  split; apply Forall_forall; intros c Hc; now apply H.
Qed.
Theorem para_piece_spaced sty W l s ind t a n b :
  text_of sty W l s -> In (ind, EPara t) l ->
  t = a ++ [GT] ++ n ++ b -> plain n -> spaced_in n s.
Proof.
  intros H Hin Et Hp.
  destruct (filter nsp n) as [|n0 nr] eqn:En. { exists []. split; [exists [], s; reflexivity|now rewrite En]. }
  destruct H as (off & ps & Hps & ->).
  destruct (written_in _ _ _ _ _ _ Hps Hin) as (raw & Er & Hi).
  unfold elem_text_for in Er. cbn [fst snd] in Er. destruct (para_raw_shape _ _ _ _ _ _ Er) as (lines & Hw & ->).
  set (R := rstrip (join_lines (spaces ind) lines)) in *.
  assert (filter nsp R = (filter nsp a ++ [GT]) ++ filter nsp n ++ filter nsp b) as ER.
  { subst R. rewrite filter_nsp_rstrip, filter_nsp_join.
    - pose proof (wrap_keeps_text_lemma t _ lines Hw) as Hkt. change (fun c => negb (is_space c)) with nsp in Hkt.
      rewrite Hkt, filter_nsp_munge, Et, !filter_app.
      cbn [filter]. change (nsp GT) with true. cbv iota. now rewrite <- !app_assoc.
    - apply Forall_forall. intros c Hc. apply repeat_spec in Hc. now subst c. }
  destruct (filter_app_inv nsp R _ _ ER) as (R1 & R23 & ER' & F1 & F23 & _ & G).
  destruct (G ltac:(destruct (filter nsp a); discriminate)) as (R1' & c & -> & Hc).
  rewrite filter_app in F1. cbn [filter] in F1. rewrite Hc in F1. apply app_inj_tail in F1 as [_ ->].
  destruct (filter_app_inv nsp R23 _ _ F23) as (R2 & R3 & -> & F2 & _ & _ & _).
  exists R2. split; [|exact F2]. eapply infix_trans; [|exact Hi].
  rewrite ER', <- !app_assoc, (app_assoc (spaces ind) R1'), (app_assoc _ [GT]).
  pose proof (spaced_plain n R2 Hp F2) as [Hlt Hb].
  apply plain_of_keeps; [apply cand_snoc_gt| |exact Hlt|exact Hb].
  intros ->. cbn in F2. rewrite En in F2. discriminate.
Qed.

(* ================= F. the pages ================= *)
(* what is written of an argument: "name>" on a line, and "<name>" when c1 is a style of the formatter *)
Definition arg_written (sty : styles) (a : harg) (s : str) : Prop :=
  on_line (a_name (h_a a) ++ [GT]) s /\ (resolvable sty NM_C1 -> on_line (LT :: a_name (h_a a) ++ [GT]) s).
(* of an option: --long and -s, each on a line *)
Definition opt_written (h : hopt) (s : str) : Prop :=
  (plain (o_long (h_o h)) -> no_nl (o_long (h_o h)) -> on_line (long_form h) s)
  /\ (forall sh, o_short (h_o h) = Some sh -> plain sh -> no_nl sh -> on_line (short_form sh) s).
Definition arg_name_ok (a : harg) : Prop := plain (a_name (h_a a)) /\ no_nl (a_name (h_a a)).
Definition name_ok (n : str) : Prop := n <> [] /\ plain n /\ no_nl n.
(* of the name of a sub-command under COMMANDS (a paragraph <u>name</u>): the name with white space put in where textwrap broke
   the paragraph; on one line when the name holds no white space and the paragraph - tags included: textwrap counts them -
   fits its line *)
Definition name_written (W : Z) (ind : nat) (n s : str) : Prop :=
  (plain n -> spaced_in n s)
  /\ (name_ok n -> spacefree n -> (zlen (u_tag n) <= W - 1 - Z.of_nat ind)%Z -> on_line n s).

Lemma u_tag_shape n : u_tag n = [60;117]%N ++ [GT] ++ n ++ [60;47;117;62]%N.
Proof. reflexivity. Qed.
Lemma name_para_written sty W l s ind n : text_of sty W l s -> In (ind, EPara (u_tag n)) l -> name_written W ind n s.
Proof.
  intros H Hin. split.
  - intros Hp. exact (para_piece_spaced sty W l s ind (u_tag n) _ n _ H Hin (u_tag_shape n) Hp).
  - intros (Hne & Hp & Hnl) Hsf Hfit.
    apply (para_piece_on_line sty W l s ind (u_tag n) _ n _ H Hin (u_tag_shape n)); auto.
    + rewrite u_tag_shape. repeat (apply Forall_app; split); try exact Hsf; repeat constructor.
    + rewrite u_tag_shape. exists ([60;117]%N ++ [GT] ++ n ++ [60;47;117]%N), 62%N. split; [now rewrite <- !app_assoc|reflexivity].
Qed.

(* ---- the name of a sub-command in USAGE: the synopsis of the sub-command spells  app cmd ... name  in its LABEL, which is
   never wrapped ---- *)
Lemma join_with_snoc sep : forall l z, l <> [] -> join_with sep (l ++ [z]) = join_with sep l ++ sep :: z.
Proof.
  induction l as [|x l IH]; intros z Hne; [congruence|]. destruct l as [|y l]; [reflexivity|].
  change ((x :: y :: l) ++ [z]) with (x :: (y :: l) ++ [z]).
  change (join_with sep (x :: (y :: l) ++ [z])) with (x ++ sep :: join_with sep ((y :: l) ++ [z])).
  rewrite IH by discriminate. change (join_with sep (x :: y :: l)) with (x ++ sep :: join_with sep (y :: l)).
  now rewrite <- app_assoc.
Qed.
Lemma synopsis_is_lab sty app_name names opts args prefix lo :
  synopsis sty app_name names opts args prefix lo =
  ELab (elem_label (synopsis sty app_name names opts args prefix lo)) (elem_text (synopsis sty app_name names opts args prefix lo)) 1 false.
Proof. reflexivity. Qed.
Lemma synopsis_label_last sty app_name names nm opts args prefix lo :
  exists X Y, elem_label (synopsis sty app_name (names ++ [nm]) opts args prefix lo) = X ++ u_tag nm ++ Y /\ (Y = [] \/ Y = [93%N]).
Proof.
  unfold synopsis. cbv zeta. cbn [elem_label]. set (a := u_tag _). rewrite map_app. cbn [map].
  change (a :: map u_tag names ++ [u_tag nm]) with ((a :: map u_tag names) ++ [u_tag nm]). set (P0 := a :: map u_tag names).
  assert (P0 <> []) as HP by (subst P0; discriminate). destruct lo.
  - rewrite removelast_last, last_last, join_with_snoc by exact HP.
    exists (prefix ++ join_with 32%N P0 ++ [32; 91]%N), [93%N]. split; [now rewrite <- !app_assoc|now right].
  - rewrite join_with_snoc by exact HP. exists (prefix ++ join_with 32%N P0 ++ [32]%N), []. split; [now rewrite <- !app_assoc, app_nil_r|now left].
Qed.
Theorem sub_name_in_usage sty0 W sty app_name ch aliases help subs s sb :
  text_of sty0 W (command_page sty app_name ch aliases help subs) s ->
  In sb subs -> sb_enabled sb = true -> sb_anonymous sb = false -> (sb_default sb = true \/ sb_hidden sb = false) ->
  name_ok (sb_name sb) -> on_line (sb_name sb) s.
Proof.
  intros H Hin He Ha Hv (Hne & Hp & Hnl).
  assert (exists lo, In (sub_fmt ch sb, lo) (usage_entries ch subs)) as (lo & Hu).
  { destruct (sb_default sb) eqn:Ed.
    - eexists. exact (usage_lists_defaults ch subs sb Hin He Ed).
    - destruct Hv as [Hv|Hv]; [discriminate|]. eexists. exact (usage_lists_visible ch subs sb Hin He Ed Hv). }
  unfold sub_fmt in Hu. rewrite Ha in Hu.
  destruct (command_page_usage sty app_name ch aliases help subs _ _ _ _ Hu) as (prefix & Hl). rewrite synopsis_is_lab in Hl.
  destruct (synopsis_label_last sty app_name (chain_names ch) (sb_name sb) (sb_opts sb) (chain_args ch ++ sb_args sb) prefix lo) as (X & Y & El & HY).
  apply (label_piece_on_line sty0 W _ s 2 _ _ 1 false (X ++ [60;117;62]%N) (sb_name sb) ([60;47;117;62]%N ++ Y) H Hl); auto.
  - rewrite El. destruct HY as [->| ->].
    + rewrite app_nil_r. apply ends_visible_app. exists ([60;117;62]%N ++ sb_name sb ++ [60;47;117]%N), 62%N. split; [|reflexivity].
      unfold u_tag. now rewrite <- !app_assoc.
    + rewrite !app_assoc. apply paren_visible_gen. reflexivity.
  - rewrite El. unfold u_tag. now rewrite <- !app_assoc.
  - change [60;117;62]%N with ([60;117]%N ++ [GT]). rewrite app_assoc. apply cand_snoc_gt.
Qed.

(* ---- the command page ---- *)
Theorem command_page_text_complete sty0 W sty app_name ch aliases help subs s :
  text_of sty0 W (command_page sty app_name ch aliases help subs) s ->
  (forall a, In a (chain_args ch) -> arg_name_ok a -> arg_written sty0 a s)
  /\ (forall h, In h (own_opts ch) \/ In h (base_opts ch) -> opt_written h s)
  /\ (forall sb, In sb subs -> sb_enabled sb = true -> sb_anonymous sb = false -> sb_hidden sb = false ->
        (name_ok (sb_name sb) -> on_line (sb_name sb) s)
        /\ (forall a, In a (sb_args sb) -> arg_name_ok a -> arg_written sty0 a s)
        /\ (forall h, In h (sb_opts sb) -> opt_written h s)).
Proof.
  intros H. destruct (command_page_complete_lemma sty app_name ch aliases help subs) as (C1 & C2 & C3 & C4).
  split; [|split].
  - intros a Ha [Hp Hnl]. exact (argument_name_written sty0 W _ s 2 a H (C1 a Ha) Hp Hnl).
  - intros h [Hh|Hh]; [exact (option_names_written sty0 W _ s 2 h H (C2 h Hh))|exact (option_names_written sty0 W _ s 2 h H (C3 h Hh))].
  - intros sb Hin He Ha Hh. destruct (C4 sb Hin He Ha Hh) as (_ & D1 & D2 & D3). split; [|split].
    + intros Hn. exact (sub_name_in_usage sty0 W sty app_name ch aliases help subs s sb H Hin He Ha (or_intror Hh) Hn).
    + intros a Hia [Hp Hnl]. exact (argument_name_written sty0 W _ s 4 a H (D2 a Hia) Hp Hnl).
    + intros h Hih. exact (option_names_written sty0 W _ s 4 h H (D3 h Hih)).
Qed.
(* the COMMANDS section: a piece of the page that holds, for every enabled, named, non-hidden sub-command, its name (broken only
   where textwrap breaks it), its arguments and its options *)
Definition section_complete (sty0 : styles) (W : Z) (subs : list sub) (s2 : str) : Prop :=
  forall sb, In sb subs -> sb_enabled sb = true -> sb_anonymous sb = false -> sb_hidden sb = false ->
    name_written W 2 (sb_name sb) s2
    /\ (forall a, In a (sb_args sb) -> arg_name_ok a -> arg_written sty0 a s2)
    /\ (forall h, In h (sb_opts sb) -> opt_written h s2).
Theorem commands_section_text sty0 W subs s2 : text_of sty0 W (commands_section subs) s2 -> section_complete sty0 W subs s2.
Proof.
  intros H2 sb Hin He Ha Hh.
  assert (visible sb = true) as Hv by (unfold visible; now rewrite He, Ha, Hh).
  pose proof (commands_section_lists subs sb Hin Hv) as Hincl. destruct (sub_block_lists sb) as (B1 & B2 & B3 & _).
  split; [|split].
  - exact (name_para_written sty0 W _ s2 2 (sb_name sb) H2 (Hincl _ B1)).
  - intros a Hia [Hp Hnl]. exact (argument_name_written sty0 W _ s2 4 a H2 (Hincl _ (B2 a Hia)) Hp Hnl).
  - intros h Hih. exact (option_names_written sty0 W _ s2 4 h H2 (Hincl _ (B3 h Hih))).
Qed.
Theorem commands_section_text_complete sty0 W sty app_name ch aliases help subs s :
  text_of sty0 W (command_page sty app_name ch aliases help subs) s ->
  exists s1 s2 s3, s = s1 ++ s2 ++ s3 /\ text_of sty0 W (commands_section subs) s2 /\ section_complete sty0 W subs s2.
Proof.
  intros H. rewrite command_page_decomposes in H. destruct (text_of_section _ _ _ _ _ _ H) as (s1 & s2 & s3 & E & H2).
  exists s1, s2, s3. split; [exact E|]. split; [exact H2|]. now apply commands_section_text.
Qed.
Theorem command_page_bytes_complete_lemma W f sty app_name ch aliases help subs s :
  f_kind f = FPlain -> render_page W f (command_page sty app_name ch aliases help subs) = Ok s ->
  (forall a, In a (chain_args ch) -> arg_name_ok a -> arg_written (f_styles f) a s)
  /\ (forall h, In h (own_opts ch) \/ In h (base_opts ch) -> opt_written h s)
  /\ (forall sb, In sb subs -> sb_enabled sb = true -> sb_anonymous sb = false -> sb_hidden sb = false ->
        (name_ok (sb_name sb) -> on_line (sb_name sb) s)
        /\ (forall a, In a (sb_args sb) -> arg_name_ok a -> arg_written (f_styles f) a s)
        /\ (forall h, In h (sb_opts sb) -> opt_written h s)).
Proof. intros Hk H. exact (command_page_text_complete _ W sty app_name ch aliases help subs s (page_text_of W f _ s Hk H)). Qed.
Theorem commands_section_bytes_complete_lemma W f sty app_name ch aliases help subs s :
  f_kind f = FPlain -> render_page W f (command_page sty app_name ch aliases help subs) = Ok s ->
  exists s1 s2 s3, s = s1 ++ s2 ++ s3 /\ text_of (f_styles f) W (commands_section subs) s2 /\ section_complete (f_styles f) W subs s2.
Proof. intros Hk H. exact (commands_section_text_complete _ W sty app_name ch aliases help subs s (page_text_of W f _ s Hk H)). Qed.

(* ---- the application page ---- *)
Theorem application_page_bytes_complete_lemma W f sty app_name display version gopts cmds help s :
  f_kind f = FPlain -> render_page W f (application_page sty app_name display version gopts cmds help) = Ok s ->
  (forall h, In h gopts -> opt_written h s)
  /\ arg_written (f_styles f) the_command_arg s /\ arg_written (f_styles f) the_arg_arg s
  /\ (forall c, In c cmds -> ac_enabled c && negb (ac_anonymous c) && negb (ac_hidden c) = true ->
        name_ok (ac_name c) -> on_line (ac_name c) s).
Proof.
  intros Hk H0. pose proof (page_text_of W f _ s Hk H0) as H.
  destruct (application_page_complete_lemma sty app_name display version gopts cmds help) as (C1 & C2 & C3 & _ & C5).
  split; [|split; [|split]].
  - intros h Hh. exact (option_names_written _ W _ s 2 h H (C1 h Hh)).
  - apply (argument_name_written _ W _ s 2 the_command_arg H C2); [split|]; repeat constructor; discriminate.
  - apply (argument_name_written _ W _ s 2 the_arg_arg H C3); [split|]; repeat constructor; discriminate.
  - intros c Hc Hv (Hne & Hp & Hnl). exact (command_label_written _ W _ s 2 (ac_name c) (ac_desc c) 2 true H (C5 c Hc Hv) Hne Hp Hnl).
Qed.

(* ---- through the ANSI formatter: the same of the visible text (SGR sequences removed), for layouts without ESC and backslash ---- *)
Lemma as_plain_kind f : f_kind (as_plain f) = FPlain. Proof. reflexivity. Qed.
Theorem command_page_bytes_complete_ansi_lemma W f sty app_name ch aliases help subs s :
  is_ansi f -> good_layout (command_page sty app_name ch aliases help subs) ->
  render_page W f (command_page sty app_name ch aliases help subs) = Ok s ->
  (forall a, In a (chain_args ch) -> arg_name_ok a -> arg_written (f_styles f) a (strip_sgr s))
  /\ (forall h, In h (own_opts ch) \/ In h (base_opts ch) -> opt_written h (strip_sgr s))
  /\ (forall sb, In sb subs -> sb_enabled sb = true -> sb_anonymous sb = false -> sb_hidden sb = false ->
        (name_ok (sb_name sb) -> on_line (sb_name sb) (strip_sgr s))
        /\ (forall a, In a (sb_args sb) -> arg_name_ok a -> arg_written (f_styles f) a (strip_sgr s))
        /\ (forall h, In h (sb_opts sb) -> opt_written h (strip_sgr s))).
Proof.
  intros Hk Hg H. apply (ansi_page_visible_lemma W f _ s Hk Hg) in H.
  exact (command_page_bytes_complete_lemma W (as_plain f) sty app_name ch aliases help subs (strip_sgr s) (as_plain_kind f) H).
Qed.
Theorem application_page_bytes_complete_ansi_lemma W f sty app_name display version gopts cmds help s :
  is_ansi f -> good_layout (application_page sty app_name display version gopts cmds help) ->
  render_page W f (application_page sty app_name display version gopts cmds help) = Ok s ->
  (forall h, In h gopts -> opt_written h (strip_sgr s))
  /\ arg_written (f_styles f) the_command_arg (strip_sgr s) /\ arg_written (f_styles f) the_arg_arg (strip_sgr s)
  /\ (forall c, In c cmds -> ac_enabled c && negb (ac_anonymous c) && negb (ac_hidden c) = true ->
        name_ok (ac_name c) -> on_line (ac_name c) (strip_sgr s)).
Proof.
  intros Hk Hg H. apply (ansi_page_visible_lemma W f _ s Hk Hg) in H.
  exact (application_page_bytes_complete_lemma W (as_plain f) sty app_name display version gopts cmds help (strip_sgr s) (as_plain_kind f) H).
Qed.
