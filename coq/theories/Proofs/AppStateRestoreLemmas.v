(* C17: the hypothesis restores_effective of Proofs/AppStateLemmas.v discharged, for EVERY application.

   The override the help resolver's restore records is keyed by the POSITION of the command object it was handed
   (Model/AppState.v: help_pick / help_target_pos), apply_cmd applies it to the command at that position and to no
   other, eff reads the command at that position.  A position holds one command, so recording the effective value
   again changes nothing - whatever the names of the siblings are.  (The previous model keyed the override by the
   path of NAMES and needed siblings_distinct: two sub-commands of one name shared the key.)

   Second part: the position is the right one.  help_target (Model/Switches.v) is help_pick followed by the lenient
   parse (help_target_is_pick); the position help_pick reports always exists, holds exactly the command that the
   collections resolved (walk: the LAST non-anonymous sibling of that name, level by level; then, if any, the LAST
   default sibling of the picked name), and the names along it are the reported path (help_pick_position). *)
From Coq Require Import Lia.
From Clikit Require Import Base.Prelude Base.Res Model.Conv Model.Format Model.Parser Model.Resolver Model.Run
     Model.Tokenizer Model.Switches Model.AppState Proofs.StrLemmas Proofs.AppStateLemmas.

(* ---------- induction over command trees ---------- *)
Lemma bcmd_ind' (P : bcmd -> Prop) :
  (forall n al d an len f subs, Forall P subs -> P (BCmd n al d an len f subs)) -> forall c, P c.
Proof.
  intros H. fix IH 1. intros [n al d an len f subs]. apply H.
  induction subs as [|s r IHr]; constructor; [apply IH|exact IHr].
Qed.

Lemma apply_cmd_name st p c : b_name (apply_cmd st p c) = b_name c.
Proof. destruct c. rewrite apply_cmd_eq. reflexivity. Qed.
Lemma apply_cmd_aliases st p c : b_aliases (apply_cmd st p c) = b_aliases c.
Proof. destruct c. rewrite apply_cmd_eq. reflexivity. Qed.
Lemma apply_cmd_default st p c : b_default (apply_cmd st p c) = b_default c.
Proof. destruct c. rewrite apply_cmd_eq. reflexivity. Qed.
Lemma apply_cmd_anonymous st p c : b_anonymous (apply_cmd st p c) = b_anonymous c.
Proof. destruct c. rewrite apply_cmd_eq. reflexivity. Qed.
Lemma apply_cmd_fmt st p c : b_fmt (apply_cmd st p c) = b_fmt c.
Proof. destruct c. rewrite apply_cmd_eq. reflexivity. Qed.
Lemma apply_cmd_subs st p c : b_subs (apply_cmd st p c) = apply_forest st p 0 (b_subs c).
Proof. destruct c. rewrite apply_cmd_eq. reflexivity. Qed.

(* the leniency the command c at position p has in state st *)
Definition efflen (st : overrides) (p : pos) (c : bcmd) : bool :=
  match lookup st p with Some x => x | None => b_lenient c end.
Lemma apply_cmd_lenient st p c : b_lenient (apply_cmd st p c) = efflen st p c.
Proof. destruct c. rewrite apply_cmd_eq. reflexivity. Qed.

(* ---------- the command at a position ---------- *)
(* below c: r = [] is c itself *)
Definition desc (c : bcmd) (r : pos) : option bcmd := match r with [] => Some c | _ => cmd_at (b_subs c) r end.
Lemma cmd_at_cons cs j r : cmd_at cs (j :: r) = match nth_error cs j with None => None | Some c => desc c r end.
Proof. reflexivity. Qed.

Lemma nth_apply_forest st q : forall l i j,
  nth_error (apply_forest st q i l) j = option_map (apply_cmd st (q ++ [i + j])) (nth_error l j).
Proof.
  induction l as [|s r IH]; intros i [|j]; cbn [apply_forest nth_error option_map]; try reflexivity.
  - now rewrite Nat.add_0_r.
  - rewrite IH. now rewrite Nat.add_succ_r.
Qed.

(* apply_state keeps the shape: the command at a position of the application in state st is the command at that
   position of the application as built, with the override of that very position *)
Lemma cmd_at_apply st : forall p q cs c',
  cmd_at (apply_forest st q 0 cs) p = Some c' -> exists c, cmd_at cs p = Some c /\ c' = apply_cmd st (q ++ p) c.
Proof.
  induction p as [|j r IH]; intros q cs c'; [discriminate|]. rewrite !cmd_at_cons, nth_apply_forest. cbn [Nat.add].
  destruct (nth_error cs j) as [c|]; cbn [option_map]; [|discriminate]. destruct r as [|k r']; cbn [desc].
  - intros E. injection E as <-. now exists c.
  - rewrite apply_cmd_subs. intros E. apply IH in E as (c0 & Hc & ->). exists c0. split; [exact Hc|].
    now rewrite <- app_assoc.
Qed.
Lemma cmd_at_apply_conv st : forall p q cs c,
  cmd_at cs p = Some c -> cmd_at (apply_forest st q 0 cs) p = Some (apply_cmd st (q ++ p) c).
Proof.
  induction p as [|j r IH]; intros q cs c; [discriminate|]. rewrite !cmd_at_cons, nth_apply_forest. cbn [Nat.add].
  destruct (nth_error cs j) as [c1|]; cbn [option_map]; [|discriminate]. destruct r as [|k r']; cbn [desc].
  - intros E. injection E as <-. reflexivity.
  - rewrite apply_cmd_subs. intros E. rewrite (IH _ _ _ E). now rewrite <- app_assoc.
Qed.

(* eff reads the command at that position and its own override *)
Lemma eff_spec st a p : eff st a p = option_map (efflen st p) (cmd_at (ap_cmds a) p).
Proof.
  unfold eff, apply_state. cbn [ap_cmds]. destruct (cmd_at (ap_cmds a) p) as [c|] eqn:E; cbn [option_map].
  - rewrite (cmd_at_apply_conv st p [] _ c E). cbn [option_map app]. now rewrite apply_cmd_lenient.
  - destruct (cmd_at (apply_forest st [] 0 (ap_cmds a)) p) as [c'|] eqn:E'; [|reflexivity].
    apply cmd_at_apply in E' as (c & Hc & _). congruence.
Qed.

(* cmd_eff_ok asks for the value b at the one place below c, if any, whose position is p *)
Lemma forest_eff_ok_nth st q p b : forall l i0,
  (forall j s, nth_error l j = Some s -> cmd_eff_ok st (q ++ [i0 + j]) p b s) -> forest_eff_ok st q p b i0 l.
Proof.
  induction l as [|s r IH]; intros i0 H; cbn [forest_eff_ok]; [exact I|]. split.
  - specialize (H 0 s eq_refl). now rewrite Nat.add_0_r in H.
  - apply IH. intros j s' Hs. specialize (H (S j) s' Hs). now rewrite Nat.add_succ_r in H.
Qed.
Lemma cmd_eff_ok_desc st p b : forall c q,
  (forall r c0, desc c r = Some c0 -> q ++ r = p -> efflen st p c0 = b) -> cmd_eff_ok st q p b c.
Proof.
  induction c as [n al d an len f subs IH] using bcmd_ind'. intros q H. rewrite cmd_eff_ok_eq. split.
  - intros E. apply (H [] (BCmd n al d an len f subs)); [reflexivity|now rewrite app_nil_r].
  - apply forest_eff_ok_nth. cbn [Nat.add]. intros j s Hs. rewrite Forall_forall in IH.
    apply (IH s (nth_error_In _ _ Hs)). intros r c0 Hd E.
    apply (H (j :: r) c0); [|now rewrite <- E, <- app_assoc]. cbn [desc]. rewrite cmd_at_cons. cbn [b_subs]. now rewrite Hs.
Qed.

(* the command at position p has the effective leniency b: recording (p, b) is harmless *)
Lemma app_eff_ok_at st a p c : cmd_at (ap_cmds a) p = Some c -> app_eff_ok st a p (efflen st p c).
Proof.
  intros Hc. unfold app_eff_ok. apply forest_eff_ok_nth. cbn [Nat.add app]. intros j s Hs.
  apply cmd_eff_ok_desc. intros r c0 Hd E. cbn [app] in E. subst p. rewrite cmd_at_cons, Hs in Hc. congruence.
Qed.

(* ---------- the hypothesis of leniency_restored / runs_independent, discharged for every application ---------- *)
Lemma restores_effective_holds st a toks : restores_effective st a toks.
Proof.
  unfold restores_effective. destruct (help_resolver_ran _); [|exact I].
  destruct (help_target_pos (apply_state st a) toks) as [p|]; [|exact I]. rewrite eff_spec.
  destruct (cmd_at (ap_cmds a) p) as [c|] eqn:E; cbn [option_map]; [|exact I]. now apply app_eff_ok_at.
Qed.

Lemma run_on_state_holds st a toks : apply_state (fst (run_on st a toks)) a = apply_state st a.
Proof. apply run_on_state, restores_effective_holds. Qed.
Lemma runs_independent_from a lines st :
  apply_state st a = apply_state [] a -> runs_on st a lines = map (fun l => snd (run_on [] a l)) lines.
Proof. intros Hst. apply runs_independent_lemma; [exact Hst|]. intros st' toks _. apply restores_effective_holds. Qed.
Lemma runs_independent_fresh a lines : runs_on [] a lines = map (fun l => snd (run_on [] a l)) lines.
Proof. now apply runs_independent_from. Qed.

(* ====================== the position is that of the command the resolver was handed ====================== *)

(* ---------- collections: under a name, the LAST sibling added under it ---------- *)
Lemma last_named_spec keep m : forall l i, last_named keep m l = Some i ->
  exists c, nth_error l i = Some c /\ keep c = true /\ b_name c = m.
Proof.
  induction l as [|c r IH]; intros i; cbn [last_named]; [discriminate|].
  destruct (last_named keep m r) as [j|].
  - intros E. injection E as <-. destruct (IH j eq_refl) as (c' & H1 & H2 & H3). exists c'. now repeat split.
  - destruct (keep c) eqn:Hk; cbn [andb]; [|discriminate]. destruct (str_eqb_spec (b_name c) m) as [Hn|]; [|discriminate].
    intros E. injection E as <-. exists c. now repeat split.
Qed.
(* ... and no later kept sibling has that name *)
Lemma last_named_last keep m : forall l i, last_named keep m l = Some i ->
  forall j c, i < j -> nth_error l j = Some c -> keep c && str_eqb (b_name c) m = false.
Proof.
  induction l as [|c r IH]; intros i; cbn [last_named]; [discriminate|].
  destruct (last_named keep m r) as [k|] eqn:E.
  - intros E'. injection E' as <-. intros [|j] c' Hj; [lia|]. cbn [nth_error]. apply (IH k eq_refl). lia.
  - destruct (keep c && str_eqb (b_name c) m); [|discriminate]. intros E'. injection E' as <-.
    intros [|j] c' Hj; [lia|]. cbn [nth_error]. clear IH Hj. revert j. induction r as [|c1 r1 IHr]; intros j; [destruct j; discriminate|].
    cbn [last_named] in E. destruct (last_named keep m r1); [discriminate|].
    destruct (keep c1 && str_eqb (b_name c1) m) eqn:E1; [discriminate|]. destruct j as [|j]; cbn [nth_error].
    + intros H. injection H as <-. exact E1.
    + now apply IHr.
Qed.

Lemma coll_cmds_fold keep m : forall l c0,
  sget m (cc_cmds (fold_left coll_add (filter keep l) c0)) =
  match last_named keep m l with Some i => nth_error l i | None => sget m (cc_cmds c0) end.
Proof.
  induction l as [|c r IH]; intros c0; cbn [filter fold_left last_named]; [reflexivity|].
  destruct (keep c); cbn [fold_left andb]; rewrite IH; destruct (last_named keep m r); try reflexivity.
  unfold coll_add. cbn [cc_cmds]. unfold sget, sset. rewrite sget_sset, (str_eqb_sym m). destruct (str_eqb (b_name c) m); reflexivity.
Qed.
Lemma coll_cmds_get keep m l b : sget m (cc_cmds (coll_of (filter keep l))) = Some b ->
  exists i, last_named keep (b_name b) l = Some i /\ nth_error l i = Some b.
Proof.
  unfold coll_of. rewrite coll_cmds_fold. destruct (last_named keep m l) as [i|] eqn:E; [|discriminate].
  intros Hn. destruct (last_named_spec _ _ _ _ E) as (c & Hc & _ & Hm). assert (c = b) as -> by congruence.
  exists i. now rewrite Hm.
Qed.
(* by name or through the alias index: what a collection returns is the last sibling filed under the name it has *)
Lemma coll_get_pos keep l n b : coll_get (coll_of (filter keep l)) n = Ok b ->
  exists i, last_named keep (b_name b) l = Some i /\ nth_error l i = Some b.
Proof.
  unfold coll_get. destruct (sget n (cc_cmds _)) as [b0|] eqn:E.
  - intros H. injection H as <-. eapply coll_cmds_get, E.
  - destruct (sget n (cc_alias _)) as [m|]; [|discriminate]. destruct (sget m (cc_cmds _)) as [b0|] eqn:E'; [|discriminate].
    intros H. injection H as <-. eapply coll_cmds_get, E'.
Qed.

(* the keys of a collection are distinct (a dict) *)
Lemma sset_keys_some {V} k (v w : V) d : sget k d = Some w -> map fst (sset k v d) = map fst d.
Proof.
  unfold sget, sset. induction d as [|[k' v'] r IH]; cbn [aget aset map fst]; [discriminate|].
  destruct (str_eqb k k'); [reflexivity|]. intros H. cbn [map fst]. now rewrite IH.
Qed.
Lemma NoDup_snoc {X} (l : list X) k : NoDup l -> ~ In k l -> NoDup (l ++ [k]).
Proof.
  induction l as [|x r IH]; cbn [app]; intros Hn Hk; [constructor; [intros []|constructor]|].
  inversion Hn as [|? ? Hx Hr]; subst. constructor.
  - rewrite in_app_iff. intros [H|[H|[]]]; [contradiction|]. apply Hk. now left.
  - apply IH; [assumption|]. intros H. apply Hk. now right.
Qed.
Lemma sset_nodup {V} k (v : V) d : NoDup (map fst d) -> NoDup (map fst (sset k v d)).
Proof.
  intros H. destruct (sget k d) as [w|] eqn:E.
  - now rewrite (sset_keys_some k v w d E).
  - unfold sget, sset in *. rewrite (sset_absent k v d E), map_app. cbn [map fst]. apply NoDup_snoc; [exact H|].
    now apply sget_none_notin.
Qed.
Lemma coll_fold_nodup : forall l c0, NoDup (map fst (cc_cmds c0)) -> NoDup (map fst (cc_cmds (fold_left coll_add l c0))).
Proof. induction l as [|c r IH]; intros c0 H; cbn [fold_left]; [exact H|]. apply IH. unfold coll_add. cbn [cc_cmds]. now apply sset_nodup. Qed.
Lemma sget_of_in {V} n (v : V) d : NoDup (map fst d) -> In (n, v) d -> sget n d = Some v.
Proof.
  unfold sget. induction d as [|[k w] r IH]; cbn [map fst aget]; intros Hn Hin; [destruct Hin|].
  inversion Hn as [|? ? Hk Hr]; subst. destruct Hin as [E|Hin].
  - injection E as -> ->. now rewrite str_eqb_refl.
  - destruct (str_eqb_spec n k) as [->|]; [|now apply IH]. exfalso. apply Hk. change k with (fst (k, v)). now apply in_map.
Qed.
Lemma defaults_of_pos l dc : In dc (defaults_of l) ->
  exists i, last_named b_default (b_name dc) l = Some i /\ nth_error l i = Some dc.
Proof.
  unfold defaults_of. intros H. apply in_map_iff in H as ([m b] & E & Hin). cbn [snd] in E. subst b.
  apply (coll_cmds_get b_default m). apply sget_of_in; [|exact Hin]. unfold coll_of. apply coll_fold_nodup. constructor.
Qed.

(* the default command picked is one of the collection *)
Lemma pick_default_in toks : forall ds first dc r, help_pick_default ds toks first = Ok (Some (dc, r)) ->
  In dc ds \/ exists k, first = Some (dc, k).
Proof.
  induction ds as [|d r0 IH]; intros first dc r; cbn [help_pick_default].
  - destruct first as [[b k]|]; [|discriminate]. intros E. injection E as <- _. right. now exists k.
  - destruct (parse (b_fmt d) (b_lenient d) toks) as [x|k].
    + intros E. injection E as <- _. left. now left.
    + destruct k; try discriminate; intros E; apply IH in E as [Hin|[k Hk]]; try (left; now right);
        (destruct first as [[b0 k0]|]; [right; now exists k|]; injection Hk as <- _; left; now left).
Qed.

(* ---------- the names along a position ---------- *)
Fixpoint names_at (cs : list bcmd) (p : pos) : option path :=
  match p with
  | [] => Some []
  | i :: r => match nth_error cs i with None => None | Some c => option_map (cons (b_name c)) (names_at (b_subs c) r) end
  end.
Lemma locate_named_names : forall q cs p, locate_named cs q = Some p -> names_at cs p = Some q.
Proof.
  induction q as [|n r IH]; intros cs p; cbn [locate_named].
  - intros E. injection E as <-. reflexivity.
  - destruct (last_named is_named n cs) as [i|] eqn:El; [|discriminate].
    destruct (last_named_spec _ _ _ _ El) as (c & Hc & _ & Hn). rewrite Hc.
    destruct (locate_named (b_subs c) r) as [p'|] eqn:E'; cbn [option_map]; [|discriminate].
    intros E. injection E as <-. cbn [names_at]. rewrite Hc, (IH _ _ E'), Hn. reflexivity.
Qed.
(* one level further down *)
Lemma cmd_at_snoc : forall p cs c i, cmd_at cs p = Some c -> cmd_at cs (p ++ [i]) = nth_error (b_subs c) i.
Proof.
  induction p as [|j r IH]; intros cs c i; [discriminate|]. cbn [app]. rewrite !cmd_at_cons.
  destruct (nth_error cs j) as [c1|]; [|discriminate]. destruct r as [|k r']; cbn [desc app].
  - intros E. injection E as <-. rewrite cmd_at_cons. destruct (nth_error (b_subs c1) i); reflexivity.
  - intros E. exact (IH _ _ i E).
Qed.
Lemma names_at_snoc : forall p cs q c i d, names_at cs p = Some q -> cmd_at cs p = Some c -> nth_error (b_subs c) i = Some d ->
  names_at cs (p ++ [i]) = Some (q ++ [b_name d]).
Proof.
  induction p as [|j r IH]; intros cs q c i d; [discriminate|]. cbn [app names_at]. rewrite cmd_at_cons.
  destruct (nth_error cs j) as [c1|]; [|discriminate].
  destruct (names_at (b_subs c1) r) as [q'|] eqn:Eq; cbn [option_map]; [|discriminate]. intros E. injection E as <-.
  destruct r as [|k r']; cbn [desc app].
  - intros E Hd. injection E as <-. cbn [names_at] in *. injection Eq as <-. rewrite Hd. reflexivity.
  - intros E Hd. change (k :: r' ++ [i]) with ((k :: r') ++ [i]). rewrite (IH _ _ _ _ _ Eq E Hd). reflexivity.
Qed.

(* ---------- walk: the command reached sits at the position located along the recorded names ---------- *)
Definition cur_path (cur : option (bcmd * list str)) : list str := match cur with Some (_, p) => p | None => [] end.
Lemma walk_locate : forall names cs cur b pth, walk (named_of cs) cur names = Ok (Some (b, pth)) ->
  cur = Some (b, pth) \/
  exists q p, pth = cur_path cur ++ q /\ locate_named cs q = Some p /\ cmd_at cs p = Some b.
Proof.
  induction names as [|n r IH]; intros cs cur b pth; cbn [walk].
  - intros E. injection E as ->. now left.
  - destruct (coll_contains (named_of cs) n); cbn [negb]; [|intros E; injection E as ->; now left].
    destruct (coll_get (named_of cs) n) as [b1|k] eqn:Eg; cbn [bind]; [|discriminate].
    unfold named_of in Eg. apply coll_get_pos in Eg as (i & Hi & Hn). fold (cur_path cur). intros E. right.
    apply IH in E as [E|(q & p & -> & Hq & Hp)].
    + injection E as <- <-. exists [b_name b1], [i]. repeat split.
      * cbn [locate_named]. unfold is_named. rewrite Hi, Hn. reflexivity.
      * rewrite cmd_at_cons, Hn. reflexivity.
    + cbn [cur_path]. exists (b_name b1 :: q), (i :: p). repeat split.
      * now rewrite <- app_assoc.
      * cbn [locate_named]. unfold is_named. rewrite Hi, Hn, Hq. reflexivity.
      * rewrite cmd_at_cons, Hn. destruct p; [discriminate|exact Hp].
Qed.

(* ---------- help_target is help_pick followed by the lenient parse ---------- *)
Definition strip_help (toks : list str) : list str :=
  match toks with t :: r => if str_eqb t S_help then r else toks | [] => [] end.
Lemma help_target_is_pick a toks :
  help_target a toks =
  (do t <- help_pick a toks; let '(c, pth, _) := t in do x <- help_lenient (b_fmt c) (strip_help toks); Ok pth).
Proof.
  unfold help_target, help_pick. fold (strip_help toks).
  destruct (walk (named_of (ap_cmds a)) None (leading (strip_help toks))) as [[[b pth]|]|k]; cbn [bind]; [| |reflexivity].
  - destruct (help_pick_default (defaults_of (b_subs b)) (strip_help toks) None) as [[[dc r]|]|k]; reflexivity.
  - destruct (leading (strip_help toks)); [|reflexivity].
    destruct (help_pick_default (defaults_of (ap_cmds a)) (strip_help toks) None) as [[[dc r]|]|k]; reflexivity.
Qed.

(* the position help_pick reports exists, holds exactly the command picked, and its names are the reported path *)
Lemma help_pick_position a toks c pth o : help_pick a toks = Ok (c, pth, o) ->
  exists p, o = Some p /\ cmd_at (ap_cmds a) p = Some c /\ names_at (ap_cmds a) p = Some pth.
Proof.
  unfold help_pick. fold (strip_help toks).
  destruct (walk (named_of (ap_cmds a)) None (leading (strip_help toks))) as [[[b pb]|]|k] eqn:Ew; cbn [bind]; [| |discriminate].
  - apply walk_locate in Ew as [Ew|(q & p & -> & Hq & Hp)]; [discriminate|]. cbn [cur_path app].
    destruct (help_pick_default (defaults_of (b_subs b)) (strip_help toks) None) as [[[dc r]|]|k] eqn:Ed; cbn [bind]; [| |discriminate].
    + intros E. injection E as <- <- <-. apply pick_default_in in Ed as [Hin|[k Hk]]; [|discriminate].
      apply defaults_of_pos in Hin as (i & Hi & Hn). rewrite Hq, Hi. exists (p ++ [i]). repeat split.
      * now rewrite (cmd_at_snoc _ _ _ i Hp).
      * apply (names_at_snoc p _ q b i dc); [now apply locate_named_names|exact Hp|exact Hn].
    + intros E. injection E as <- <- <-. exists p. repeat split; [exact Hq|exact Hp|now apply locate_named_names].
  - destruct (leading (strip_help toks)); [|discriminate].
    destruct (help_pick_default (defaults_of (ap_cmds a)) (strip_help toks) None) as [[[dc r]|]|k] eqn:Ed; cbn [bind]; [| |discriminate]; [|discriminate].
    intros E. injection E as <- <- <-. apply pick_default_in in Ed as [Hin|[k Hk]]; [|discriminate].
    apply defaults_of_pos in Hin as (i & Hi & Hn). rewrite Hi. exists [i]. cbn [option_map]. repeat split.
    + rewrite cmd_at_cons, Hn. reflexivity.
    + cbn [names_at]. rewrite Hn. reflexivity.
Qed.

(* so whenever the help resolver reports a page (or fails in its lenient parse), the override written is on the command
   it was handed, and the value is the leniency that command had when the run began: was_lenient *)
Lemma help_target_has_position a toks pth : help_target a toks = Ok pth ->
  exists c p, help_pick a toks = Ok (c, pth, Some p) /\ help_target_pos a toks = Some p /\
              cmd_at (ap_cmds a) p = Some c /\ names_at (ap_cmds a) p = Some pth.
Proof.
  rewrite help_target_is_pick. unfold help_target_pos. destruct (help_pick a toks) as [[[c q] o]|k] eqn:E; cbn [bind]; [|discriminate].
  destruct (help_lenient (b_fmt c) (strip_help toks)); cbn [bind]; [|discriminate]. intros H. injection H as <-.
  destruct (help_pick_position _ _ _ _ _ E) as (p & -> & Hc & Hn). now exists c, p.
Qed.
Lemma run_on_records st a toks c pth o : help_pick (apply_state st a) toks = Ok (c, pth, o) ->
  exists p, help_target_pos (apply_state st a) toks = Some p /\ eff st a p = Some (b_lenient c).
Proof.
  intros E. unfold help_target_pos. rewrite E. destruct (help_pick_position _ _ _ _ _ E) as (p & -> & Hc & _).
  exists p. split; [reflexivity|]. unfold eff. now rewrite Hc.
Qed.
