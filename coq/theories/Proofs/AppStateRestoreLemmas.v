(* C17: the hypothesis restores_effective of Proofs/AppStateLemmas.v discharged.

   The override the help resolver's restore records is keyed by the PATH of names, apply_cmd applies it to every
   command reached under that path, find_path (eff) reads the first sibling with that name.  So the restore is
   harmless as soon as all commands that share a path share their leniency (lenient_by_path), in particular when
   sibling commands have distinct names at every level (siblings_distinct, a boolean on the application).
   build_cmds rejects a second top-level command with a name already present; the sub-commands of a command are
   all kept (build_cmd), so for a built application the condition is one on the sub-command names of the
   configuration (cfg_subs_distinct).  Without it the statement is false of the model: Props/C17.v,
   restores_effective_refuted_duplicate_subcommands. *)
From Coq Require Import Lia.
From Clikit Require Import Base.Prelude Base.Res Model.Conv Model.Format Model.Parser Model.Resolver Model.Run
     Model.Tokenizer Model.Switches Model.AppState Proofs.StrLemmas Proofs.AppStateLemmas.

(* ---------- induction over command trees; the nested fixpoints as map / Forall ---------- *)
Lemma bcmd_ind' (P : bcmd -> Prop) :
  (forall n al d an len f subs, Forall P subs -> P (BCmd n al d an len f subs)) -> forall c, P c.
Proof.
  intros H. fix IH 1. intros [n al d an len f subs]. apply H.
  induction subs as [|s r IHr]; constructor; [apply IH|exact IHr].
Qed.
Lemma cmd_ind' (P : cmd -> Prop) :
  (forall n al d an en len os ars subs, Forall P subs -> P (Cmd n al d an en len os ars subs)) -> forall c, P c.
Proof.
  intros H. fix IH 1. intros [n al d an en len os ars subs]. apply H.
  induction subs as [|s r IHr]; constructor; [apply IH|exact IHr].
Qed.

Lemma apply_cmd_eq st pre n al d an len f subs :
  apply_cmd st pre (BCmd n al d an len f subs) =
  BCmd n al d an (match lookup st (pre ++ [n]) with Some b => b | None => len end) f
       (map (apply_cmd st (pre ++ [n])) subs).
Proof. reflexivity. Qed.

Lemma cmd_eff_ok_eq st pre p b n al d an len f subs :
  cmd_eff_ok st pre p b (BCmd n al d an len f subs) <->
  (pre ++ [n] = p -> (match lookup st p with Some x => x | None => len end) = b) /\
  Forall (cmd_eff_ok st (pre ++ [n]) p b) subs.
Proof.
  cbn [cmd_eff_ok]. split; intros [H1 H2]; (split; [exact H1|]).
  - induction subs as [|s r IH]; constructor; [apply H2|apply IH, H2].
  - induction subs as [|s r IH]; [exact I|]. inversion H2; subst. split; [assumption|apply IH; assumption].
Qed.

Lemma apply_cmd_name st pre c : b_name (apply_cmd st pre c) = b_name c.
Proof. destruct c. rewrite apply_cmd_eq. reflexivity. Qed.
Lemma apply_cmd_subs st pre c : b_subs (apply_cmd st pre c) = map (apply_cmd st (pre ++ [b_name c])) (b_subs c).
Proof. destruct c. rewrite apply_cmd_eq. reflexivity. Qed.

(* the leniency a command at path p has in state st *)
Definition efflen (st : overrides) (p : path) (c : bcmd) : bool :=
  match lookup st p with Some x => x | None => b_lenient c end.
Lemma apply_cmd_lenient st pre c : b_lenient (apply_cmd st pre c) = efflen st (pre ++ [b_name c]) c.
Proof. destruct c. rewrite apply_cmd_eq. reflexivity. Qed.

(* ---------- the commands at a path of names (all of them: siblings may share a name) ---------- *)
Inductive at_path : list bcmd -> path -> bcmd -> Prop :=
| ap_here cs c n : In c cs -> b_name c = n -> at_path cs [n] c
| ap_down cs d n q c : In d cs -> b_name d = n -> at_path (b_subs d) q c -> at_path cs (n :: q) c.

Lemma at_path_nil cs c : ~ at_path cs [] c.
Proof. intros H. inversion H. Qed.
Lemma at_path_incl cs cs' q c : (forall x, In x cs -> In x cs') -> at_path cs q c -> at_path cs' q c.
Proof. intros Hi H. destruct H; [apply ap_here|eapply ap_down]; eauto. Qed.

(* app_eff_ok says: every command at path p has effective leniency b *)
Lemma cmd_eff_ok_at st p b : forall c pre,
  (forall q c', pre ++ q = p -> at_path [c] q c' -> efflen st p c' = b) -> cmd_eff_ok st pre p b c.
Proof.
  induction c as [n al d an len f subs IH] using bcmd_ind'. intros pre H. rewrite cmd_eff_ok_eq. split.
  - intros E. apply (H [n] (BCmd n al d an len f subs) E). apply ap_here; [now left|reflexivity].
  - rewrite Forall_forall in IH |- *. intros s Hs. apply (IH s Hs). intros q c' E Hat.
    apply (H (n :: q) c'); [rewrite <- E, <- app_assoc; reflexivity|].
    eapply ap_down; [now left|reflexivity|]. cbn [b_subs].
    eapply at_path_incl; [|exact Hat]. intros x [<-|[]]. exact Hs.
Qed.
Lemma forest_eff_ok_at st p b cs pre :
  (forall q c, pre ++ q = p -> at_path cs q c -> efflen st p c = b) -> Forall (cmd_eff_ok st pre p b) cs.
Proof.
  intros H. rewrite Forall_forall. intros c Hin. apply cmd_eff_ok_at. intros q c' E Hat. apply (H q c' E).
  eapply at_path_incl; [|exact Hat]. intros x [<-|[]]. exact Hin.
Qed.

(* what eff reads is the leniency of ONE command at that path (the first sibling of that name, level by level) *)
Lemma find_apply st pre n cs :
  find (fun c => str_eqb (b_name c) n) (map (apply_cmd st pre) cs) =
  option_map (apply_cmd st pre) (find (fun c => str_eqb (b_name c) n) cs).
Proof.
  induction cs as [|c r IH]; cbn [map find option_map]; [reflexivity|]. rewrite apply_cmd_name.
  destruct (str_eqb (b_name c) n); [reflexivity|exact IH].
Qed.
Lemma find_path_apply st : forall q cs pre c',
  find_path (map (apply_cmd st pre) cs) q = Some c' ->
  exists c, at_path cs q c /\ b_lenient c' = efflen st (pre ++ q) c.
Proof.
  induction q as [|n r IH]; intros cs pre c'; cbn [find_path]; [discriminate|].
  rewrite find_apply. destruct (find (fun c => str_eqb (b_name c) n) cs) as [c0|] eqn:F; cbn [option_map]; [|discriminate].
  apply find_some in F as [Hin Hn]. destruct (str_eqb_spec (b_name c0) n) as [Hn'|]; [|discriminate]. clear Hn.
  destruct r as [|m r'].
  - intros E. injection E as <-. exists c0. split; [now apply ap_here|]. rewrite apply_cmd_lenient, Hn'. reflexivity.
  - rewrite apply_cmd_subs. intros E. apply IH in E as (c & Hat & Hl). exists c. split.
    + eapply ap_down; eauto.
    + rewrite Hl, Hn', <- app_assoc. reflexivity.
Qed.

(* ---------- the condition: commands that share a path share their leniency ---------- *)
Definition lenient_by_path (a : application) : Prop :=
  forall q c c', at_path (ap_cmds a) q c -> at_path (ap_cmds a) q c' -> b_lenient c = b_lenient c'.

Lemma restores_effective_by_path st a toks : lenient_by_path a -> restores_effective st a toks.
Proof.
  intros Hco. unfold restores_effective.
  destruct (sm_action (run_summary false (apply_state st a) toks)) as [|p|k|p|p|k]; try exact I.
  destruct (eff st a p) as [b|] eqn:E; [|exact I]. unfold eff in E.
  destruct (find_path (ap_cmds (apply_state st a)) p) as [c'|] eqn:F; [|discriminate].
  cbn [option_map] in E. injection E as <-. unfold apply_state in F. cbn [ap_cmds] in F.
  apply find_path_apply in F as (c & Hat & Hl). cbn [app] in Hl.
  apply forest_eff_ok_at. intros q c1 Eq Hat1. cbn [app] in Eq. subst q. rewrite Hl. unfold efflen.
  destruct (lookup st p); [reflexivity|]. exact (Hco p c1 c Hat1 Hat).
Qed.

(* ---------- sibling commands with distinct names, at every level ---------- *)
Fixpoint names_distinct (l : list str) : bool :=
  match l with [] => true | x :: r => negb (existsb (str_eqb x) r) && names_distinct r end.
Fixpoint cmd_distinct (c : bcmd) : bool :=
  match c with
  | BCmd _ _ _ _ _ _ subs =>
    names_distinct (map b_name subs) &&
    (fix go (l : list bcmd) : bool := match l with [] => true | s :: r => cmd_distinct s && go r end) subs
  end.
Definition forest_distinct (cs : list bcmd) : bool := names_distinct (map b_name cs) && forallb cmd_distinct cs.
Definition siblings_distinct (a : application) : bool := forest_distinct (ap_cmds a).

Lemma cmd_distinct_eq n al d an len f subs : cmd_distinct (BCmd n al d an len f subs) = forest_distinct subs.
Proof.
  reflexivity.
Qed.
Lemma existsb_str_false x l : existsb (str_eqb x) l = false <-> ~ In x l.
Proof.
  split.
  - intros H Hin. assert (existsb (str_eqb x) l = true) as Ht by (apply existsb_exists; exists x; split; [exact Hin|apply str_eqb_refl]).
    congruence.
  - intros Hn. destruct (existsb (str_eqb x) l) eqn:E; [|reflexivity]. apply existsb_exists in E as (y & Hy & Ey).
    destruct (str_eqb_spec x y) as [->|]; [contradiction|discriminate].
Qed.
Lemma names_distinct_NoDup l : names_distinct l = true <-> NoDup l.
Proof.
  induction l as [|x r IH]; cbn [names_distinct]; [split; [constructor|reflexivity]|].
  rewrite andb_true_iff, negb_true_iff, existsb_str_false, IH. split.
  - intros [H1 H2]. now constructor.
  - intros H. inversion H; subst. now split.
Qed.
Lemma NoDup_map_inj_in {X Y} (f : X -> Y) l x y : NoDup (map f l) -> In x l -> In y l -> f x = f y -> x = y.
Proof.
  induction l as [|z r IH]; cbn [map]; intros Hnd Hx Hy E; [destruct Hx|]. inversion Hnd as [|? ? Hz Hr]; subst.
  destruct Hx as [->|Hx], Hy as [->|Hy].
  - reflexivity.
  - exfalso. apply Hz. rewrite E. now apply in_map.
  - exfalso. apply Hz. rewrite <- E. now apply in_map.
  - now apply IH.
Qed.

(* at most one command at each path *)
Lemma at_path_functional : forall q cs c c',
  forest_distinct cs = true -> at_path cs q c -> at_path cs q c' -> c = c'.
Proof.
  induction q as [|n r IH]; intros cs c c' Hd H1 H2; [destruct (at_path_nil _ _ H1)|].
  unfold forest_distinct in Hd. apply andb_prop in Hd as [Hnd Hsub]. apply names_distinct_NoDup in Hnd.
  rewrite forallb_forall in Hsub.
  inversion H1 as [? ? ? Hin1 Hn1|? d1 ? ? ? Hin1 Hn1 Hat1]; subst;
    inversion H2 as [? ? ? Hin2 Hn2|? d2 ? ? ? Hin2 Hn2 Hat2]; subst.
  - eapply NoDup_map_inj_in; eauto.
  - destruct (at_path_nil _ _ Hat2).
  - destruct (at_path_nil _ _ Hat1).
  - assert (d1 = d2) as <- by (eapply NoDup_map_inj_in; eauto).
    apply (IH (b_subs d1)); [|assumption|assumption].
    specialize (Hsub d1 Hin1). destruct d1. rewrite cmd_distinct_eq in Hsub. exact Hsub.
Qed.
Lemma siblings_distinct_by_path a : siblings_distinct a = true -> lenient_by_path a.
Proof. intros H q c c' H1 H2. now rewrite (at_path_functional q _ c c' H H1 H2). Qed.

(* the hypothesis of leniency_restored / runs_independent, discharged *)
Lemma restores_effective_holds st a toks : siblings_distinct a = true -> restores_effective st a toks.
Proof. intros H. apply restores_effective_by_path, siblings_distinct_by_path, H. Qed.

Lemma runs_independent_by_path a lines st : lenient_by_path a ->
  apply_state st a = apply_state [] a -> runs_on st a lines = map (fun l => snd (run_on [] a l)) lines.
Proof. intros H Hst. apply runs_independent_lemma; [exact Hst|]. intros st' toks _. now apply restores_effective_by_path. Qed.
Lemma runs_independent_from a lines st : siblings_distinct a = true ->
  apply_state st a = apply_state [] a -> runs_on st a lines = map (fun l => snd (run_on [] a l)) lines.
Proof. intros H. apply runs_independent_by_path, siblings_distinct_by_path, H. Qed.
Lemma runs_independent_fresh a lines : siblings_distinct a = true ->
  runs_on [] a lines = map (fun l => snd (run_on [] a l)) lines.
Proof. intros H. now apply runs_independent_from. Qed.
(* and the state after any history is again equivalent to the fresh one *)
Lemma run_on_state_holds st a toks : siblings_distinct a = true ->
  apply_state (fst (run_on st a toks)) a = apply_state st a.
Proof. intros H. apply run_on_state, restores_effective_holds, H. Qed.

(* ---------- built applications ---------- *)
Definition c_name (c : cmd) : str := let '(Cmd n _ _ _ _ _ _ _ _) := c in n.
Definition c_enabled (c : cmd) : bool := let '(Cmd _ _ _ _ en _ _ _ _) := c in en.
Definition c_subs (c : cmd) : list cmd := let '(Cmd _ _ _ _ _ _ _ _ s) := c in s.

(* the enabled sub-commands of every enabled command have distinct names (disabled configurations are never built) *)
Fixpoint cfg_cmd_distinct (c : cmd) : bool :=
  match c with
  | Cmd _ _ _ _ _ _ _ _ subs =>
    names_distinct (map c_name (filter c_enabled subs)) &&
    (fix go (l : list cmd) : bool :=
       match l with [] => true | s :: r => (if c_enabled s then cfg_cmd_distinct s else true) && go r end) subs
  end.
Definition cfg_enabled_distinct (l : list cmd) : bool :=
  forallb (fun s => if c_enabled s then cfg_cmd_distinct s else true) l.
Definition cfg_subs_distinct (cfg : appcfg) : bool := cfg_enabled_distinct (ac_cmds cfg).

Lemma cfg_cmd_distinct_eq n al d an en len os ars subs :
  cfg_cmd_distinct (Cmd n al d an en len os ars subs) =
  names_distinct (map c_name (filter c_enabled subs)) && cfg_enabled_distinct subs.
Proof.
  reflexivity.
Qed.

Fixpoint build_subs (f : fmt) (l : list cmd) : res (list bcmd) :=
  match l with
  | [] => Ok []
  | s :: r => if c_enabled s then (do b <- build_cmd (Some f) s; do bs <- build_subs f r; Ok (b :: bs))
              else build_subs f r
  end.
Lemma build_cmd_eq base n al d an en len os ars subs :
  build_cmd base (Cmd n al d an en len os ars subs) =
  (do f <- format_of_elements (cmd_elements n al an os ars) base;
   do bs <- build_subs f subs;
   Ok (BCmd n al d an len f bs)).
Proof.
  cbn [build_cmd]. destruct (format_of_elements (cmd_elements n al an os ars) base) as [f|k]; cbn [bind]; [|reflexivity].
  match goal with |- bind ?x _ = bind ?y _ => assert (x = y) as -> end; [|reflexivity].
  induction subs as [|s r IH]; cbn [build_subs]; [reflexivity|].
  destruct s as [n' al' d' an' en' len' os' ars' subs']. cbn [c_enabled]. rewrite IH. reflexivity.
Qed.

Lemma build_cmd_distinct : forall c base b, build_cmd base c = Ok b ->
  b_name b = c_name c /\ (cfg_cmd_distinct c = true -> cmd_distinct b = true).
Proof.
  induction c as [n al d an en len os ars subs IH] using cmd_ind'. intros base b. rewrite build_cmd_eq.
  destruct (format_of_elements (cmd_elements n al an os ars) base) as [f|k]; cbn [bind]; [|discriminate].
  destruct (build_subs f subs) as [bs|k] eqn:Hb; cbn [bind]; [|discriminate]. intros E. injection E as <-.
  split; [reflexivity|]. rewrite cfg_cmd_distinct_eq, cmd_distinct_eq. unfold forest_distinct.
  assert (map b_name bs = map c_name (filter c_enabled subs) /\
          (cfg_enabled_distinct subs = true -> forallb cmd_distinct bs = true)) as [Hn Hs].
  { clear -IH Hb. revert bs Hb. induction subs as [|s r IHr]; intros bs Hb; cbn [build_subs] in Hb.
    - injection Hb as <-. split; reflexivity.
    - inversion IH as [|? ? Hs Hr]; subst. specialize (IHr Hr). unfold cfg_enabled_distinct. cbn [filter forallb].
      destruct (c_enabled s).
      + destruct (build_cmd (Some f) s) as [b|k] eqn:Eb; cbn [bind] in Hb; [|discriminate].
        destruct (build_subs f r) as [bs'|k] eqn:Ebs; cbn [bind] in Hb; [|discriminate]. injection Hb as <-.
        destruct (Hs _ _ Eb) as [Hname Hd]. destruct (IHr _ eq_refl) as [Hnames Hds]. cbn [map forallb]. split.
        * now rewrite Hname, Hnames.
        * intros H. apply andb_prop in H as [H1 H2]. rewrite (Hd H1). exact (Hds H2).
      + destruct (IHr _ Hb) as [Hnames Hds]. split; [exact Hnames|]. cbn [andb]. exact Hds. }
  rewrite Hn. intros H. apply andb_prop in H as [H1 H2]. rewrite H1. exact (Hs H2).
Qed.

(* the top level: build_cmds itself refuses a name already present *)
Lemma build_cmds_distinct g : forall l seen bs, build_cmds g seen l = Ok bs ->
  names_distinct (map b_name bs) = true /\ (forall y, In y (map b_name bs) -> ~ In y seen) /\
  (cfg_enabled_distinct l = true -> forallb cmd_distinct bs = true).
Proof.
  induction l as [|c r IH]; intros seen bs; cbn [build_cmds].
  - intros E. injection E as <-. repeat split. intros y [].
  - destruct c as [n al d an en len os ars subs]. unfold cfg_enabled_distinct. cbn [forallb c_enabled].
    destruct en; cbn [negb].
    + destruct n as [|ch n']; [discriminate|]. set (n := ch :: n') in *.
      destruct (existsb (str_eqb n) seen) eqn:Hseen; [discriminate|].
      destruct (build_cmd (Some g) (Cmd n al d an true len os ars subs)) as [b|k] eqn:Eb; cbn [bind]; [|discriminate].
      match goal with |- context [build_cmds g ?sn r] =>
        destruct (build_cmds g sn r) as [bs'|k] eqn:Ebs; cbn [bind]; [|discriminate] end.
      intros E. injection E as <-. destruct (build_cmd_distinct _ _ _ Eb) as [Hname Hd]. cbn [c_name] in Hname.
      destruct (IH _ _ Ebs) as (Hnd & Hout & Hds). cbn [map names_distinct forallb]. rewrite Hname. repeat split.
      * rewrite Hnd, andb_true_r, negb_true_iff. apply existsb_str_false. intros Hin. apply (Hout _ Hin). now left.
      * intros y [<-|Hy]; [now apply existsb_str_false|].
        intros Hin. apply (Hout _ Hy). right. apply in_or_app. now right.
      * intros H. apply andb_prop in H as [H1 H2]. rewrite (Hd H1). exact (Hds H2).
    + intros E. destruct (IH _ _ E) as (Hnd & Hout & Hds). repeat split; assumption.
Qed.

Lemma build_app_siblings_distinct cfg a : build_app cfg = Ok a -> cfg_subs_distinct cfg = true -> siblings_distinct a = true.
Proof.
  unfold build_app. destruct (format_of_elements _ None) as [g|k]; cbn [bind]; [|discriminate].
  destruct (build_cmds g [] (ac_cmds cfg)) as [cs|k] eqn:E; cbn [bind]; [|discriminate].
  intros Ea. injection Ea as <-. intros Hc. unfold siblings_distinct, forest_distinct. cbn [ap_cmds].
  destruct (build_cmds_distinct _ _ _ _ E) as (Hnd & _ & Hds). rewrite Hnd. exact (Hds Hc).
Qed.

(* a configuration without sub-sub-structure to check: no command has sub-commands *)
Lemma cfg_flat_distinct cfg : forallb (fun c => match c_subs c with [] => true | _ => false end) (ac_cmds cfg) = true ->
  cfg_subs_distinct cfg = true.
Proof.
  unfold cfg_subs_distinct, cfg_enabled_distinct. intros H. rewrite forallb_forall in H |- *. intros c Hc.
  specialize (H c Hc). destruct c as [n al d an en len os ars subs]. cbn [c_subs c_enabled] in *.
  destruct subs; [|discriminate]. destruct en; reflexivity.
Qed.

(* ---------- every built application ---------- *)
Lemma restores_effective_built cfg a st toks :
  build_app cfg = Ok a -> cfg_subs_distinct cfg = true -> restores_effective st a toks.
Proof. intros Hb Hc. apply restores_effective_holds. eapply build_app_siblings_distinct; eauto. Qed.
Lemma runs_independent_built_from cfg a lines st :
  build_app cfg = Ok a -> cfg_subs_distinct cfg = true -> apply_state st a = apply_state [] a ->
  runs_on st a lines = map (fun l => snd (run_on [] a l)) lines.
Proof. intros Hb Hc. apply runs_independent_from. eapply build_app_siblings_distinct; eauto. Qed.
Lemma runs_independent_built cfg a lines :
  build_app cfg = Ok a -> cfg_subs_distinct cfg = true ->
  runs_on [] a lines = map (fun l => snd (run_on [] a l)) lines.
Proof. intros Hb Hc. now apply (runs_independent_built_from cfg). Qed.
