(* Proofs about Model/Tokenizer.v (C08). *)
From Coq Require Import Lia.
From Clikit Require Import Base.Prelude Base.Res Model.Tokenizer.

(* ---------- termination: the fuel never runs out ---------- *)
Lemma esc_shorter s sq r : s <> [] -> esc s = (sq, r) -> length r < length s.
Proof.
  destruct s as [|a [|n t]]; intros Hs H; [contradiction| |]; cbn in H.
  - inversion H; subst. cbn. lia.
  - destruct (is_quote n); inversion H; subst; cbn; lia.
Qed.

Lemma quoted_fuel : forall f d s acc, length s < f ->
  exists inner r, quoted f d s acc = TOk (inner, r) /\ length r <= length s.
Proof.
  induction f as [|f IH]; intros d s acc H; [lia|]. cbn [quoted].
  destruct s as [|c r]; [exists acc, []; auto|]. cbn [length] in H.
  destruct (N.eqb c d); [exists acc, r; cbn; split; [reflexivity|lia]|].
  destruct (N.eqb c BS).
  - destruct (esc (c :: r)) as [sq r'] eqn:E.
    assert (length r' < length (c :: r)) as Hl by (eapply esc_shorter; [discriminate|exact E]).
    cbn [length] in Hl.
    destruct (IH d r' (acc ++ sq) ltac:(lia)) as (i & r2 & -> & Hr). exists i, r2. split; [reflexivity|cbn; lia].
  - destruct (is_quote c).
    + destruct (IH c r [] ltac:(lia)) as (i1 & r1 & -> & H1).
      destruct (IH d r1 (acc ++ [c] ++ i1 ++ [c]) ltac:(lia)) as (i2 & r2 & -> & H2).
      exists i2, r2. split; [reflexivity|cbn; lia].
    + destruct (IH d r (acc ++ [c]) ltac:(lia)) as (i & r2 & -> & Hr). exists i, r2. split; [reflexivity|cbn; lia].
Qed.

Lemma token_fuel : forall f s acc, length s < f ->
  exists t r, token f s acc = TOk (t, r) /\ length r <= length s /\ (s <> [] -> length r < length s).
Proof.
  induction f as [|f IH]; intros s acc H; [lia|]. cbn [token].
  destruct s as [|c r]; [exists acc, []; repeat split; auto; intros; contradiction|]. cbn [length] in H.
  destruct (is_space c); [exists acc, r; cbn; repeat split; auto; lia|].
  destruct (N.eqb c BS).
  - destruct (esc (c :: r)) as [sq r'] eqn:E.
    assert (length r' < length (c :: r)) as Hl by (eapply esc_shorter; [discriminate|exact E]).
    cbn [length] in Hl.
    destruct (IH r' (acc ++ sq) ltac:(lia)) as (t & r2 & -> & Hr & _). exists t, r2. cbn. repeat split; auto; lia.
  - destruct (is_quote c).
    + destruct (quoted_fuel f c r [] ltac:(lia)) as (i1 & r1 & -> & H1).
      destruct (IH r1 (acc ++ i1) ltac:(lia)) as (t & r2 & -> & H2 & _). exists t, r2. cbn. repeat split; auto; lia.
    + destruct (IH r (acc ++ [c]) ltac:(lia)) as (t & r2 & -> & Hr & _). exists t, r2. cbn. repeat split; auto; lia.
Qed.

Lemma toks_fuel : forall f s, length s + 1 < f -> exists ts, toks f s = TOk ts.
Proof.
  induction f as [|f IH]; intros s H; [lia|]. cbn [toks].
  destruct s as [|c r]; [exists []; reflexivity|]. cbn [length] in H.
  destruct (is_space c); [apply IH; lia|].
  destruct (token_fuel f (c :: r) [] ltac:(cbn; lia)) as (t & r2 & -> & _ & Hlt).
  specialize (Hlt ltac:(discriminate)). cbn [length] in Hlt.
  destruct (IH r2 ltac:(lia)) as (ts & ->). exists (t :: ts). reflexivity.
Qed.

Lemma tokenize_total_lemma s : exists ts, tokenize s = TOk ts.
Proof. unfold tokenize. apply toks_fuel. lia. Qed.

(* ---------- option tokens ---------- *)
Lemma option_tokens_all ts : forallb (fun t => negb (is_ddash t)) ts = true -> option_tokens ts = ts.
Proof.
  induction ts as [|t r IH]; cbn; [reflexivity|]. intros H. apply andb_prop in H as [Ht Hr].
  destruct (is_ddash t); [discriminate|]. now rewrite IH.
Qed.
Lemma option_tokens_cut l1 l2 :
  forallb (fun t => negb (is_ddash t)) l1 = true -> option_tokens (l1 ++ [DASH; DASH] :: l2) = l1.
Proof.
  induction l1 as [|t r IH]; cbn; [reflexivity|]. intros H. apply andb_prop in H as [Ht Hr].
  destruct (is_ddash t); [discriminate|]. now rewrite IH.
Qed.

(* ---------- unquoted text splits exactly at runs of whitespace ---------- *)
Definition plain_char (c : N) : bool := negb (is_quote c) && negb (N.eqb c BS).
(* the specification: maximal runs of non-whitespace characters *)
Fixpoint words_aux (cur : str) (s : str) : list str :=
  match s with
  | [] => match cur with [] => [] | _ => [cur] end
  | c :: r => if is_space c then (match cur with [] => words_aux [] r | _ => cur :: words_aux [] r end)
              else words_aux (cur ++ [c]) r
  end.
Definition words (s : str) : list str := words_aux [] s.

Lemma plain_not_bs c : plain_char c = true -> N.eqb c BS = false /\ is_quote c = false.
Proof. unfold plain_char. intros H. apply andb_prop in H as [H1 H2]. now destruct (N.eqb c BS), (is_quote c). Qed.

Fixpoint tw (s : str) : str :=      (* the leading non-whitespace run *)
  match s with [] => [] | c :: r => if is_space c then [] else c :: tw r end.
Fixpoint dw (s : str) : str :=      (* what follows that run and the one whitespace character ending it *)
  match s with [] => [] | c :: r => if is_space c then r else dw r end.

Lemma wa_span : forall s acc,
  words_aux acc s = match acc ++ tw s with [] => words_aux [] (dw s) | w => w :: words_aux [] (dw s) end.
Proof.
  induction s as [|c r IH]; intros acc; cbn [words_aux tw dw].
  - rewrite app_nil_r. destruct acc; reflexivity.
  - destruct (is_space c).
    + rewrite app_nil_r. destruct acc; reflexivity.
    + rewrite IH, <- app_assoc. reflexivity.
Qed.
Lemma dw_len s : length (dw s) <= length s.
Proof. induction s as [|c r IH]; cbn [dw length]; [lia|]. destruct (is_space c); lia. Qed.
Lemma dw_plain s : forallb plain_char s = true -> forallb plain_char (dw s) = true.
Proof.
  induction s as [|c r IH]; cbn [dw forallb]; [auto|]. intros H. apply andb_prop in H as [Hc Hr].
  destruct (is_space c); [exact Hr | apply IH, Hr].
Qed.

Lemma token_plain : forall f s acc, forallb plain_char s = true -> length s < f ->
  token f s acc = TOk (acc ++ tw s, dw s).
Proof.
  induction f as [|f IH]; intros s acc Hp H; [lia|]. cbn [token].
  destruct s as [|c r]; [cbn; now rewrite app_nil_r|].
  cbn [length] in H. cbn in Hp. apply andb_prop in Hp as [Hc Hr].
  destruct (plain_not_bs c Hc) as [Hbs Hq]. cbn [tw dw].
  destruct (is_space c); [now rewrite app_nil_r|].
  rewrite Hbs, Hq, (IH r (acc ++ [c]) Hr ltac:(lia)), <- app_assoc. reflexivity.
Qed.

Lemma toks_plain : forall f s, forallb plain_char s = true -> length s + 1 < f -> toks f s = TOk (words s).
Proof.
  induction f as [|f IH]; intros s Hp H; [lia|]. cbn [toks]. unfold words.
  destruct s as [|c r]; [reflexivity|]. cbn [length] in H.
  pose proof Hp as Hp'. cbn in Hp'. apply andb_prop in Hp' as [Hc Hr].
  destruct (is_space c) eqn:Es.
  - cbn [words_aux]. rewrite Es. apply IH; [assumption|lia].
  - rewrite (token_plain f (c :: r) [] Hp ltac:(cbn; lia)).
    rewrite wa_span. cbn [app tw dw]. rewrite Es.
    pose proof (dw_len r).
    rewrite (IH (dw r) (dw_plain r Hr) ltac:(lia)). reflexivity.
Qed.

Lemma unquoted_split_lemma s : forallb plain_char s = true -> tokenize s = TOk (words s).
Proof. intros H. unfold tokenize. apply toks_plain; [assumption|lia]. Qed.

(* ---------- quoting is inverted by tokenising ---------- *)
(* A token is expressible by the quoting scheme iff, reading left to right, every backslash is
   followed by a character that is not a quote (that pair is then read back literally); i.e. every
   run of backslashes that is followed by a quote character or ends the token has even length. *)
Lemma quote_cases q : is_quote q = true -> q = SQ \/ q = DQ.
Proof.
  unfold is_quote. intros H. apply orb_prop in H as [H|H]; apply N.eqb_eq in H; auto.
Qed.

Lemma quoted_escape : forall n t, length t <= n -> forall q rest acc f,
  is_quote q = true -> expressible t = true -> length (escape t ++ q :: rest) < f ->
  quoted f q (escape t ++ q :: rest) acc = TOk (acc ++ t, rest).
Proof.
  induction n as [|n IH]; intros t Hn q rest acc f Hq He Hf.
  - destruct t; [|cbn in Hn; lia]. cbn in *. destruct f; [lia|]. cbn. rewrite N.eqb_refl, app_nil_r. reflexivity.
  - destruct t as [|c r].
    + cbn in *. destruct f; [lia|]. cbn. rewrite N.eqb_refl, app_nil_r. reflexivity.
    + cbn [length] in Hn. destruct f as [|f]; [lia|].
      assert (N.eqb BS q = false) as Hbq by (destruct (quote_cases q Hq); subst; reflexivity).
      cbn [expressible] in He.
      destruct (N.eqb c BS) eqn:Ecb.
      * apply N.eqb_eq in Ecb. subst c.
        destruct r as [|d r']; [discriminate|]. destruct (is_quote d) eqn:Ed; [discriminate|].
        cbn [escape]. change (is_quote BS) with false. cbn iota. rewrite Ed.
        cbn [app quoted]. rewrite Hbq. change (N.eqb BS BS) with true. cbn iota. cbn [esc]. rewrite Ed.
        cbn [length] in Hn.
        rewrite (IH r' ltac:(lia) q rest (acc ++ [BS; d]) f Hq He).
        -- rewrite <- app_assoc. reflexivity.
        -- cbn [escape app length] in Hf. change (is_quote BS) with false in Hf. cbn iota in Hf. rewrite Ed in Hf.
           cbn [app length] in Hf. lia.
      * cbn [escape]. destruct (is_quote c) eqn:Ec.
        -- cbn [app quoted]. rewrite Hbq. change (N.eqb BS BS) with true. cbn iota. cbn [esc]. rewrite Ec.
           rewrite (IH r ltac:(lia) q rest (acc ++ [c]) f Hq He).
           ++ rewrite <- app_assoc. reflexivity.
           ++ cbn [escape app length] in Hf. rewrite Ec in Hf. cbn [app length] in Hf. lia.
        -- cbn [app quoted]. rewrite Ecb.
           assert (N.eqb c q = false) as ->.
           { apply N.eqb_neq. intros ->. congruence. }
           rewrite Ec.
           rewrite (IH r ltac:(lia) q rest (acc ++ [c]) f Hq He).
           ++ rewrite <- app_assoc. reflexivity.
           ++ cbn [escape app length] in Hf. rewrite Ec in Hf. cbn [app length] in Hf. lia.
Qed.

(* what may follow a token: the end of the string or a whitespace character *)
Definition sep_start (rest : str) : bool := match rest with [] => true | w :: _ => is_space w end.

Lemma token_quoted q t rest f :
  is_quote q = true -> expressible t = true -> sep_start rest = true ->
  length (quote q t ++ rest) < f -> token f (quote q t ++ rest) [] = TOk (t, tl rest).
Proof.
  intros Hq He Hs Hf. unfold quote in *. cbn [app] in *. destruct f as [|f]; [cbn in Hf; lia|].
  cbn [token].
  assert (is_space q = false /\ N.eqb q BS = false) as [-> ->] by (destruct (quote_cases q Hq); subst; split; reflexivity).
  rewrite Hq. rewrite <- app_assoc. cbn [app].
  rewrite (quoted_escape (length t) t (le_n _) q rest [] f Hq He).
  - cbn [app]. cbn [length] in Hf. rewrite app_length, app_length in Hf. cbn [length] in Hf.
    destruct f as [|f]; [lia|]. destruct rest as [|w r]; cbn [token tl]; [reflexivity|].
    cbn in Hs. rewrite Hs. reflexivity.
  - cbn [length] in Hf. rewrite <- app_assoc in Hf. cbn [app] in Hf. lia.
Qed.

Definition bare_char (c : N) : bool := plain_char c && negb (is_space c).
Lemma token_bare : forall t rest acc f,
  forallb bare_char t = true -> sep_start rest = true -> length (t ++ rest) < f ->
  token f (t ++ rest) acc = TOk (acc ++ t, tl rest).
Proof.
  induction t as [|c r IH]; intros rest acc f Hb Hs Hf.
  - cbn [app] in *. rewrite app_nil_r. destruct f; [lia|]. destruct rest as [|w r]; cbn [token tl]; [reflexivity|].
    cbn in Hs. now rewrite Hs.
  - cbn [app length] in *. destruct f; [lia|]. cbn [token].
    cbn in Hb. apply andb_prop in Hb as [Hc Hr]. unfold bare_char in Hc. apply andb_prop in Hc as [Hp Hns].
    destruct (plain_not_bs c Hp) as [Hbs Hq].
    destruct (is_space c); [discriminate|]. rewrite Hbs, Hq.
    rewrite (IH rest (acc ++ [c]) f Hr Hs ltac:(lia)), <- app_assoc. reflexivity.
Qed.

Inductive style := Bare | Single | Double.
Definition rend (st : style) (t : str) : str :=
  match st with Bare => t | Single => quote SQ t | Double => quote DQ t end.
Definition item_ok (st : style) (t : str) : bool :=
  match st with
  | Bare => negb (match t with [] => true | _ => false end) && forallb bare_char t
  | _ => expressible t
  end.

Lemma token_item st t rest f :
  item_ok st t = true -> sep_start rest = true -> length (rend st t ++ rest) < f ->
  token f (rend st t ++ rest) [] = TOk (t, tl rest).
Proof.
  intros Hi Hs Hf. destruct st; cbn [rend item_ok] in *.
  - apply andb_prop in Hi as [_ Hb]. apply (token_bare t rest [] f Hb Hs Hf).
  - apply token_quoted; auto.
  - apply token_quoted; auto.
Qed.
Lemma rend_head st t : item_ok st t = true -> exists c r, rend st t = c :: r /\ is_space c = false.
Proof.
  intros Hi. destruct st; cbn [rend item_ok] in *.
  - apply andb_prop in Hi as [Hn Hb]. destruct t as [|c r]; [discriminate|]. exists c, r. split; [reflexivity|].
    cbn in Hb. apply andb_prop in Hb as [Hc _]. unfold bare_char in Hc. apply andb_prop in Hc as [_ Hc].
    now destruct (is_space c).
  - eexists _, _. split; [reflexivity|reflexivity].
  - eexists _, _. split; [reflexivity|reflexivity].
Qed.

(* a command string: each token (in some style) preceded by a run of whitespace, then trailing whitespace *)
Definition item := (str * style * str)%type.       (* (whitespace before, style, token) *)
Definition it_tok (i : item) : str := snd i.
Fixpoint render (items : list item) (trail : str) : str :=
  match items with
  | [] => trail
  | (pre, st, t) :: r => pre ++ rend st t ++ render r trail
  end.
Definition all_space (s : str) : bool := forallb is_space s.
Definition items_ok (items : list item) : bool :=
  forallb (fun i : item => let '(pre, st, t) := i in all_space pre && item_ok st t) items.
(* every token but the first is separated from its predecessor by at least one whitespace character *)
Definition seps_ok (items : list item) : bool :=
  match items with
  | [] => true
  | _ :: r => forallb (fun i : item => let '(pre, _, _) := i in negb (match pre with [] => true | _ => false end)) r
  end.

Lemma toks_all_space : forall s f, all_space s = true -> length s + 1 < f -> toks f s = TOk [].
Proof.
  induction s as [|c r IH]; intros f Hs Hf; (destruct f; [lia|]); cbn [toks]; [reflexivity|].
  cbn in Hs. apply andb_prop in Hs as [Hc Hr]. rewrite Hc. apply IH; [assumption|cbn in Hf; lia].
Qed.
Lemma toks_skip : forall pre X f, all_space pre = true -> length (pre ++ X) + 1 < f ->
  exists f', length X + 1 < f' /\ toks f (pre ++ X) = toks f' X.
Proof.
  induction pre as [|c r IH]; intros X f Hs Hf.
  - exists f. auto.
  - cbn in Hs. apply andb_prop in Hs as [Hc Hr]. destruct f; [lia|]. cbn [app toks]. rewrite Hc.
    apply IH; [assumption|cbn in Hf; lia].
Qed.

Lemma render_rest_ok r trail :
  items_ok r = true -> all_space trail = true -> seps_ok (([], Bare, []) :: r) = true ->
  sep_start (render r trail) = true.
Proof.
  intros Hi Ht Hs. destruct r as [|[[pre st] t] r']; cbn [render].
  - destruct trail; cbn in *; [reflexivity|]. apply andb_prop in Ht as [H _]. exact H.
  - cbn in Hs, Hi. apply andb_prop in Hs as [Hp _]. apply andb_prop in Hi as [Hi _]. apply andb_prop in Hi as [Hpre _].
    destruct pre as [|w p]; [discriminate|]. cbn in *. apply andb_prop in Hpre as [Hw _]. exact Hw.
Qed.

Lemma tl_render r trail :
  items_ok r = true -> all_space trail = true -> seps_ok (([], Bare, []) :: r) = true ->
  exists r' trail', tl (render r trail) = render r' trail' /\ map it_tok r' = map it_tok r /\
                    items_ok r' = true /\ all_space trail' = true /\ seps_ok r' = true /\ length r' = length r.
Proof.
  intros Hi Ht Hs. destruct r as [|[[pre st] t] r2].
  - exists [], (tl trail). cbn. repeat split; auto. destruct trail; cbn in *; auto. apply andb_prop in Ht as [_ H]. exact H.
  - cbn in Hs. apply andb_prop in Hs as [Hp Hs2].
    destruct pre as [|w p]; [discriminate|].
    exists ((p, st, t) :: r2), trail. cbn [render app tl map it_tok snd]. repeat split; auto.
    unfold items_ok in *. cbn [forallb] in *. apply andb_prop in Hi as [H1 H2]. apply andb_prop in H1 as [Hsp Hit].
    unfold all_space in Hsp. cbn [forallb] in Hsp. apply andb_prop in Hsp as [_ Hsp].
    apply andb_true_intro; split; [apply andb_true_intro; split; assumption | assumption].
Qed.

Lemma toks_render : forall n items trail f, length items = n ->
  items_ok items = true -> all_space trail = true -> seps_ok items = true ->
  length (render items trail) + 1 < f ->
  toks f (render items trail) = TOk (map it_tok items).
Proof.
  induction n as [|n IH]; intros items trail f Hn Hi Ht Hs Hf.
  - destruct items; [|discriminate]. cbn. apply toks_all_space; assumption.
  - destruct items as [|[[pre st] t] r]; [discriminate|]. cbn [length] in Hn. injection Hn as Hn.
    cbn [render] in *. cbn in Hi. apply andb_prop in Hi as [H1 Hir]. apply andb_prop in H1 as [Hpre Hit].
    destruct (toks_skip pre _ f Hpre Hf) as (f' & Hf' & ->).
    destruct (rend_head st t Hit) as (c & rr & Hrend & Hc).
    assert (sep_start (render r trail) = true) as Hsep by (apply render_rest_ok; auto).
    destruct f' as [|f']; [lia|].
    assert (length (rend st t ++ render r trail) < f') as Hft by lia.
    pose proof (token_item st t (render r trail) f' Hit Hsep Hft) as Htok.
    revert Htok Hf' Hft. rewrite Hrend. cbn [app]. intros Htok Hf' Hft.
    cbn [toks]. rewrite Hc. rewrite Htok.
    destruct (tl_render r trail Hir Ht Hs) as (r' & trail' & Htl & Hmap & Hi' & Ht' & Hs' & Hlen).
    rewrite Htl. rewrite (IH r' trail' f' ltac:(lia) Hi' Ht' Hs').
    + cbn [map it_tok snd]. now rewrite Hmap.
    + rewrite <- Htl. cbn [length] in Hft. rewrite app_length in Hft.
      assert (length (tl (render r trail)) <= length (render r trail)) by (destruct (render r trail); cbn; lia).
      lia.
Qed.

Lemma roundtrip_lemma items trail :
  items_ok items = true -> all_space trail = true -> seps_ok items = true ->
  tokenize (render items trail) = TOk (map it_tok items).
Proof.
  intros. unfold tokenize. eapply toks_render; eauto. lia.
Qed.
