(* C09: the help switch on a line WITHOUT a leading plain token ("-h", "-q -h", "-h cmd", "-q -h srv").
   The PRE_RESOLVE listener parses the line leniently with the help command's format as before; what differs is whether
   the argument "command" gets a value:
   - a line of option-like tokens only: no positional is read, "command" stays unset, HelpTextHandler prints the
     APPLICATION page (help_options_only);
   - otherwise the handler asks HelpResolver, whose walk finds no leading token and falls back to the application's
     default commands (help_target_no_path): with DefaultApplicationConfig that is the help command itself. *)
From Coq Require Import Lia.
From Clikit Require Import Base.Prelude Base.Res Model.Conv Model.Flags Model.Format Model.Parser Model.Spell
     Model.Resolver Model.Tokenizer Model.Switches
     Proofs.StrLemmas Proofs.FormatLemmas Proofs.ParserLemmas Proofs.SpellOpts Proofs.SpellArgs Proofs.FmtOkLemmas
     Proofs.ResolverLemmas Proofs.SwitchesLemmas Proofs.HelpTargetLemmas Proofs.HelpSamePageLemmas Proofs.HelpRunLemmas
     Proofs.SwitchesHelpLemmas Proofs.HelpAnywhereLemmas Proofs.HelpAnywhereVersionLemmas.

(* an option-like token: starts with "-", is neither "-" nor "--" *)
Definition optlike (t : str) : bool := starts_dash t && negb (str_eqb t [DASH]) && negb (is_dd t).

(* ---------- the option branches hand back a suffix of the tokens they were given ---------- *)
Definition suffix (t t' : list str) : Prop := exists pre, t = pre ++ t'.
Lemma suffix_refl t : suffix t t.
Proof. now exists []. Qed.
Lemma suffix_trans t1 t2 t3 : suffix t1 t2 -> suffix t2 t3 -> suffix t1 t3.
Proof. intros [p1 ->] [p2 ->]. exists (p1 ++ p2). now rewrite app_assoc. Qed.
Lemma suffix_forall (P : str -> Prop) t t' : suffix t t' -> Forall P t -> Forall P t'.
Proof. intros [pre ->] H. apply Forall_app in H. tauto. Qed.
Lemma tail_rel_suffix t t' : tail_rel t t' -> suffix t t'.
Proof. intros [->|(x & -> & _)]; [apply suffix_refl|now exists [x]]. Qed.

Lemma add_long_suffix g st n v t st' t' : add_long_option g st n v t = Ok (st', t') -> suffix t t'.
Proof. intros H. apply add_long_keys in H as [_ H]. now apply tail_rel_suffix. Qed.
Lemma parse_long_suffix g st tok t st' t' : parse_long_option g st tok t = Ok (st', t') -> suffix t t'.
Proof.
  intros H. apply parse_long_keys in H as [_ H]. apply (H (fun x => suffix t x)); [|apply suffix_refl].
  intros a b Hab Ha. eapply suffix_trans; [exact Ha|now apply tail_rel_suffix].
Qed.
Lemma short_set_suffix g : forall name st t st' t', fst (short_set g st name t) = Ok (st', t') -> suffix t t'.
Proof.
  induction name as [|c rest IH]; intros st t st' t'; cbn [short_set fst].
  - intros H. inversion H. apply suffix_refl.
  - destruct (negb (has_option g [c] true)); cbn [fst]; [discriminate|].
    destruct (get_option g [c] true) as [o|k]; cbn [fst]; [|discriminate].
    destruct (o_accepts o).
    + destruct (add_long_option g st (o_long o) _ t) as [[st1 t1]|k] eqn:E; cbn [fst]; [|discriminate].
      intros H. inversion H; subst. eapply add_long_suffix; eauto.
    + destruct (add_long_option g st (o_long o) None t) as [[st1 t1]|k] eqn:E; cbn [fst]; [|discriminate].
      intros H. eapply suffix_trans; [eapply add_long_suffix; eauto|eapply IH; eauto].
Qed.
Lemma add_short_suffix g st c v t st' t' : add_short_option g st [c] v t = Ok (st', t') -> suffix t t'.
Proof. intros H. apply add_short_keys in H as (o & _ & _ & H). now apply tail_rel_suffix. Qed.
Lemma parse_short_suffix g st tok t st' t' : fst (parse_short_option g st tok t) = Ok (st', t') -> suffix t t'.
Proof.
  unfold parse_short_option. destruct (skipn 1 tok) as [|c [|c2 rest]]; cbn [fst]; [discriminate| |].
  - destruct (accepts g [c]).
    + pose proof (take_value_tail t) as Ht. destruct (take_value t) as [v t1]. cbn [snd] in Ht.
      destruct (add_short_option g st [c] v t1) as [[st1 t2]|k] eqn:E; cbn [fst]; [|discriminate].
      intros H. inversion H; subst st1 t2. apply (suffix_trans t t1 t'); [apply tail_rel_suffix, Ht|eapply add_short_suffix; eauto].
    + destruct (add_short_option g st [c] None t) as [[st1 t2]|k] eqn:E; cbn [fst]; [|discriminate].
      intros H. inversion H; subst. eapply add_short_suffix; eauto.
  - destruct (accepts g [c]).
    + destruct (add_short_option g st [c] (Some (c2 :: rest)) t) as [[st1 t2]|k] eqn:E; cbn [fst]; [|discriminate].
      intros H. inversion H; subst. eapply add_short_suffix; eauto.
    + apply short_set_suffix.
Qed.

(* ---------- a line of option-like tokens: the token loop reads no positional ---------- *)
Lemma loop_options_only g len : forall fuel toks st, Forall (fun t => optlike t = true) toks ->
  ps_args (fst (loop fuel g len true st toks)) = ps_args st.
Proof.
  induction fuel as [|fuel IH]; intros toks st Ht; cbn [loop]; [reflexivity|].
  destruct toks as [|tok rest]; [reflexivity|]. inversion Ht as [|? ? Hk Hr]; subst.
  unfold optlike in Hk. apply andb_prop in Hk as [Hk Hdd]. apply andb_prop in Hk as [Hsd Hd1].
  assert (nonempty tok = true) as -> by (destruct tok; [discriminate|reflexivity]).
  apply negb_true_iff in Hdd. rewrite Hdd. cbn [andb negb].
  destruct (starts_dd tok).
  - destruct (parse_long_option g st tok rest) as [[st' rest']|k] eqn:E; [|reflexivity].
    rewrite IH; [eapply parse_long_args; eauto|]. eapply suffix_forall; [eapply parse_long_suffix; eauto|exact Hr].
  - rewrite Hsd, Hd1. cbn [andb]. destruct (parse_short_args g st tok rest) as [S1 S2].
    pose proof (parse_short_suffix g st tok rest) as S3.
    destruct (parse_short_option g st tok rest) as [[[st' rest']|k] st2]; cbn [fst snd] in *; [|exact S1].
    rewrite IH; [exact (S2 _ _ eq_refl)|]. eapply suffix_forall; [exact (S3 _ _ eq_refl)|exact Hr].
Qed.

Lemma supd_keys_in {V} (X : list (str * V)) : forall D k, In k (map fst (supd D X)) -> In k (map fst D) \/ In k (map fst X).
Proof.
  unfold supd. induction X as [|[k1 v1] r IH]; intros D k; cbn [fold_left fst snd map]; [auto|].
  intros H. apply IH in H as [H|H]; [|right; now right]. apply in_keys_sset in H as [->|H]; [right; now left|now left].
Qed.

(* no positional on the line: the parse sets no argument of the format (any format with the facts of C01) *)
Lemma parse_options_only f toks x : fmt_inv f -> Forall (fun t => optlike t = true) toks ->
  parse f true toks = Ok x -> ar_args x = [].
Proof.
  intros Hinv Ht. pose proof (wf_implies_fmt_ok_lemma f Hinv) as Hok. apply fmt_ok_inv in Hok as (g & A & cns & FF).
  unfold parse, parse_on. rewrite (ff_aug _ _ _ _ FF).
  pose proof (loop_options_only g true (S (length toks)) toks ps_empty Ht) as Hl.
  destruct (loop (S (length toks)) g true true ps_empty toks) as [[pa po] e]. cbn [fst ps_args ps_empty] in Hl. subst pa.
  destruct (match e with Some CannotParse | Some NoSuchOption => None | _ => e end) as [k|]; [cbn [snd]; discriminate|].
  unfold insert_missing. cbn [ps_args ps_opts flatten flat_map skip_names copy_values bind]. rewrite andb_false_r. cbn [snd ps_args ps_opts].
  set (fixed0 := map (fun c : str * cname => (fst c, RCmd (snd c))) cns).
  change (fold_left (fun d kv => sset (fst kv) (snd kv) d) fixed0 []) with (supd [] fixed0).
  rewrite set_arguments_filter, filter_none.
  - cbn [set_arguments bind]. intros H. now rewrite (set_options_args f _ _ _ H).
  - intros k Hk. apply supd_keys_in in Hk as [[]|Hk]. rewrite shas_sget, (ff_fresh _ _ _ _ FF k); [reflexivity|].
    unfold fixed0 in Hk. rewrite map_map in Hk. exact Hk.
Qed.

(* ---------- the run ---------- *)
Section NoPath.
  Variables (cfg : appcfg) (a : application) (debug : bool) (toks : list str).
  Hypothesis Hb : build_app cfg = Ok a.
  Hypothesis Hcfg : default_help_config cfg = true.
  Hypothesis Hsw : wants_help (option_tokens toks) = true.

  (* a line of option-like tokens only: the application page (or name and version; or the value error of a global option) *)
  Lemma help_options_only : Forall (fun t => optlike t = true) toks ->
    sm_action (run_summary debug a toks) =
      match help_line_parse a toks with
      | Err k => AError k
      | Ok (fx, x) => if args_is_option_set fx x S_version || wants_version (option_tokens toks) then AVersion [S_help] else AHelpApp
      end.
  Proof.
    intros Ht. rewrite (run_with_help_switch debug a toks Hsw).
    destruct (default_help_setup cfg a Hb Hcfg) as (hc & f & arg & o & HS).
    unfold help_line_parse. rewrite (setup_find a hc f arg o HS), (setup_fmt a hc f arg o HS).
    destruct (parse f true toks) as [x|k] eqn:E; cbn [bind]; [|reflexivity].
    destruct (args_is_option_set f x S_version || wants_version (option_tokens toks)); [reflexivity|].
    pose proof (parse_options_only f toks x (hs_inv _ _ _ _ _ HS) Ht E) as Ha.
    destruct (command_arg_spec arg (hs_arg _ _ _ _ _ HS)) as (N & _).
    unfold args_is_argument_set, has_argument, get_argument. cbn [get_arguments].
    rewrite (hs_args _ _ _ _ _ HS), N. unfold shas at 1, ahas, sget. cbn [aget]. rewrite str_eqb_refl, Ha. reflexivity.
  Qed.

  (* no leading plain token: the help resolver falls back to the application's default commands *)
  Lemma help_target_no_path : leading toks = [] ->
    help_target a toks =
      (do d <- help_pick_default (defaults_of (ap_cmds a)) toks None;
       match d with
       | Some (dc, _) => do _ <- help_lenient (b_fmt dc) toks; Ok [b_name dc]
       | None => Err CannotResolve
       end).
  Proof.
    intros Hl. unfold help_target.
    assert ((match toks with t :: r => if str_eqb t S_help then r else toks | [] => [] end) = toks) as ->.
    { destruct toks as [|t r]; [reflexivity|]. destruct (str_eqb_spec t S_help) as [->|]; [|reflexivity].
      rewrite leading_step in Hl. discriminate. }
    rewrite Hl. cbn [walk bind].
    destruct (help_pick_default (defaults_of (ap_cmds a)) toks None) as [[[dc r]|]|k]; reflexivity.
  Qed.
  Lemma help_no_path_run : leading toks = [] ->
    sm_action (run_summary debug a toks) =
      match help_line_parse a toks with
      | Err k => AError k
      | Ok (fx, x) =>
        if args_is_option_set fx x S_version || wants_version (option_tokens toks) then AVersion [S_help]
        else if args_is_argument_set fx x (AName COMMAND) then
          match (do d <- help_pick_default (defaults_of (ap_cmds a)) toks None;
                 match d with
                 | Some (dc, _) => do _ <- help_lenient (b_fmt dc) toks; Ok [b_name dc]
                 | None => Err CannotResolve
                 end) with Ok p => AHelpCmd p | Err k => AHelpFail k end
        else AHelpApp
      end.
  Proof.
    intros Hl. rewrite (run_with_help_switch debug a toks Hsw). unfold help_page. now rewrite (help_target_no_path Hl).
  Qed.
End NoPath.
