(* C02, classification clauses at the level of LINE DESCRIPTIONS (Model/Spell.v): a line that is
   well-formed except for ONE fault is rejected with the documented error.

   The vocabulary is that of parse_spells (C01): a line description d : ld lists the command-name
   spellings, the option items in their written forms, the positionals and the "--" tail; render d
   are its tokens; values d its positional values; events d what it gives to the options.  wf_line f d
   (under which parse f len (render d) = Ok (denote f d), SpellLemmas.parse_spells_lemma) is the
   conjunction of
     names_ok / items_ok / no_clash   the written forms are unambiguous
     fits                             no more values than arguments, and every text converts
     req_ok                           every required argument gets a value.
   forms_ok f d below is the first group with the conversions of the option texts taken out
   (items_form): wf_line f d = forms_ok f d && texts_convert d && fits .. && req_ok .. (wf_line_conjuncts, section 7).
   Each clause keeps forms_ok and breaks ONE of the other conjuncts:

     1. surplus_positional       forms_ok, no multi-valued argument, more values than arguments
                                 -> Err CannotParse (strict)
     2. missing_required         forms_ok, the values fit in number (shape), req_ok = false
                                 -> Err CannotParse (strict)
     3. unconvertible_positional forms_ok, shape, req_ok, fits = false          -> Err ValueError (both modes)
        unconvertible_option_value  forms_ok, shape, req_ok, one occurrence (o, text) whose text
                                 does not convert and that is the last mention of o unless o is
                                 multi-valued                                   -> Err ValueError (both modes)
     4. one extra token put at an item boundary of a WELL-FORMED line (scans_rendered_prefix is the
        bridge to the prefix theorems of ClassifyLemmas): unknown "--name" -> NoSuchOption,
        "--flag=v" -> CannotParse, "--opt" (value required) with no value behind it -> CannotParse.
   The format hypothesis is fmt_ok f, as in parse_spells (true of every API-built format:
   FmtOkLemmas.api_format_fmt_ok_lemma).  The lenient counterparts of 1 and 2 ask, as the other
   lenient theorems of C02 do, that the options are valid objects - here read off the option list
   of f itself (opts_listed_ok).

   Names: this file imports ClassifyLemmas BEFORE the Spell files, so long_tok, short_tok, no_eq,
   is_flag, names_ok unqualified are those of Model/Spell.v; the ClassifyLemmas ones are qualified. *)
From Coq Require Import Lia String Ascii.
From Clikit Require Import Base.Prelude Base.Res Model.Conv Model.Flags Model.Format Model.Parser
     Proofs.StrLemmas Proofs.FormatLemmas Proofs.ParserLemmas Proofs.ClassifyLemmas
     Model.Spell Proofs.SpellOpts Proofs.SpellArgs Proofs.SpellDenote Proofs.SpellLemmas.

(* ================= 0. the written forms, conversions apart ================= *)
(* last_ok / item_ok / items_ok of Model/Spell.v with text_ok o s (= o takes values AND s converts)
   replaced by o_accepts o *)
Definition last_form (f f' : fmt) (l : opt * glast) : bool :=
  let o := fst l in
  Spell.opt_ok f f' o && Spell.short_ok f' o &&
  match snd l with
  | GGlued s => nonempty s && o_accepts o
  | GSep s => plain_tok s && o_accepts o
  | GBare => is_bare o
  end.
Definition item_form (f f' : fmt) (it : item) : bool :=
  match it with
  | IFlag o long => Spell.opt_ok f f' o && Spell.is_flag o && (long || Spell.short_ok f' o)
  | IBare o long => Spell.opt_ok f f' o && is_bare o && (long || Spell.short_ok f' o)
  | IVal o form s =>
      Spell.opt_ok f f' o && o_accepts o &&
      match form with
      | LongEq => nonempty s
      | LongSep => plain_tok s
      | ShortGlued => Spell.short_ok f' o && nonempty s
      | ShortSep => Spell.short_ok f' o && plain_tok s
      end
  | IGroup fl last =>
      forallb (fun o => Spell.opt_ok f f' o && Spell.is_flag o && Spell.short_ok f' o) fl &&
      match last with
      | None => match fl with _ :: _ :: _ => true | _ => false end
      | Some l => match fl with _ :: _ => true | [] => false end && last_form f f' l
      end
  | IPos s => pos_tok s
  end.
Fixpoint items_form (f f' : fmt) (l : list item) : bool :=
  match l with
  | [] => true
  | it :: r =>
      item_form f f' it &&
      (if looks_ahead it then match r with IPos s :: _ => str_eqb s [DASH] | _ => true end else true) &&
      items_form f f' r
  end.
(* the conjuncts of wf_line that concern the written forms *)
Definition forms_ok (f : fmt) (d : ld) : bool :=
  match aug_format f with
  | Err _ => false
  | Ok (f', _, cns) =>
      Spell.names_ok cns (ld_names d) && items_form f f' (ld_items d) && no_clash cns (ld_names d) (values d)
  end.

Lemma item_ok_form f g it : item_ok f g it = true -> item_form f g it = true.
Proof.
  destruct it as [o long|o form s|o long|fl last|s]; cbn [item_ok item_form]; intros H; try exact H.
  - apply andb_prop in H as [H Hform]. apply andb_prop in H as [H Ht]. rewrite H, Hform, (text_ok_acc o s Ht). reflexivity.
  - apply andb_prop in H as [Hfl Hlast]. rewrite Hfl. cbn [andb]. destruct last as [[o gl]|]; [|exact Hlast].
    apply andb_prop in Hlast as [Hne Hlast]. rewrite Hne. cbn [andb]. unfold last_ok in Hlast. unfold last_form.
    cbn [fst snd] in *. apply andb_prop in Hlast as [Hlast Hgl]. rewrite Hlast. cbn [andb].
    destruct gl as [s|s|]; [| |exact Hgl]; apply andb_prop in Hgl as [H1 H2]; rewrite H1, (text_ok_acc o s H2); reflexivity.
Qed.
Lemma items_ok_form f g l : items_ok f g l = true -> items_form f g l = true.
Proof.
  induction l as [|it r IH]; cbn [items_ok items_form]; intros H; [reflexivity|].
  apply andb_prop in H as [H Hr]. apply andb_prop in H as [Hi Hla]. rewrite (item_ok_form f g it Hi), Hla, (IH Hr). reflexivity.
Qed.
Lemma wf_line_forms f d : wf_line f d = true ->
  forms_ok f d = true /\ fits (get_arguments_all f) (values d) = true /\ req_ok (get_arguments_all f) (values d) = true.
Proof.
  unfold wf_line, forms_ok. destruct (aug_format f) as [[[g A] cns]|]; [|discriminate]. intros H.
  apply andb_prop in H as [H Hc]. apply andb_prop in H as [H Hr]. apply andb_prop in H as [H Hf].
  apply andb_prop in H as [Hn Hi]. rewrite Hn, (items_ok_form f g _ Hi), Hc. auto.
Qed.

(* ================= 1. the token loop over the written forms (SpellOpts.item_step, SpellArgs.loop_items and
   SpellLemmas.loop_line again, for item_form: their proofs never use the conversions) ================= *)
Lemma gflags_form f g fl :
  forallb (fun o => Spell.opt_ok f g o && Spell.is_flag o && Spell.short_ok g o) fl = true -> Forall (gflag_ok g) fl.
Proof. apply gflags_ok. Qed.

Lemma group_step_form f g len fl last : item_form f g (IGroup fl last) = true ->
  forall fuel st rest, (looks_ahead (IGroup fl last) = true -> next_dash rest = true) ->
  loop (S fuel) g len true st (render_item (IGroup fl last) ++ rest) =
  loop fuel g len true (st_evs st (item_events (IGroup fl last))) rest.
Proof.
  cbn [item_form]. intros H fuel st rest Hla. apply andb_prop in H as [Hfl Hlast].
  pose proof (gflags_form f g fl Hfl) as Hall.
  destruct fl as [|o1 fl']; [destruct last; discriminate|].
  inversion Hall as [|? ? Ho1 Hall']; subst. destruct Ho1 as (Hk1 & Hf1 & c1 & Hs1).
  pose proof Hs1 as (_ & Hd1 & _ & _).
  assert (forall tailchars rest0 st' rest',
            flat_map short_char fl' ++ tailchars <> [] ->
            fst (short_set g (st_evs st (flag_events (o1 :: fl'))) tailchars rest0) = Ok (st', rest') ->
            loop (S fuel) g len true st ((group_tok (o1 :: fl') ++ tailchars) :: rest0) = loop fuel g len true st' rest') as Hgo.
  { intros tailchars rest0 st' rest' Hx Hss. unfold group_tok. cbn [flat_map]. rewrite (short_char_known g o1 c1 Hs1).
    cbn [app].
    destruct (short_tok_class c1 (flat_map short_char fl' ++ tailchars) Hd1) as (T1 & T2 & T3 & T4).
    apply loop_short_ok; try assumption.
    rewrite (ps_group g o1 c1 st _ rest0 (conj Hk1 (conj Hf1 (ex_intro _ c1 Hs1))) Hs1 Hx).
    change (c1 :: flat_map short_char fl' ++ tailchars) with ([c1] ++ flat_map short_char fl' ++ tailchars).
    rewrite <- (short_char_known g o1 c1 Hs1). rewrite app_assoc.
    change (short_char o1 ++ flat_map short_char fl') with (flat_map short_char (o1 :: fl')).
    rewrite short_set_flags by exact Hall. exact Hss. }
  destruct last as [[o gl]|].
  - apply andb_prop in Hlast as [_ Hlast]. unfold last_form in Hlast. cbn [fst snd] in Hlast.
    apply andb_prop in Hlast as [Hlast Hgl]. apply andb_prop in Hlast as [Hok Hsok].
    apply opt_ok_inv in Hok as (_ & Hk & _ & _). apply short_ok_inv in Hsok as [c Hs].
    cbn [item_events]. fold (flag_events (o1 :: fl')). rewrite st_evs_app. cbn [last_event fst snd].
    assert (forall s, flat_map short_char fl' ++ short_char o ++ s <> []) as Hne.
    { intros s. rewrite (short_char_known g o c Hs). destruct (flat_map short_char fl'); discriminate. }
    destruct gl as [s|s|]; cbn [render_item app st_evs fold_left].
    + apply andb_prop in Hgl as [Hn Ht]. apply Hgo; [apply Hne|].
      rewrite (short_char_known g o c Hs). cbn [app]. apply short_set_last; [exact Hs|exact Ht|].
      destruct s as [|c2 s]; [discriminate|]. apply alo_text; [exact Hk|exact Ht|reflexivity].
    + apply andb_prop in Hgl as [Hn Ht]. rewrite <- (app_nil_r (short_char o)). apply Hgo; [apply Hne|].
      rewrite (short_char_known g o c Hs). cbn [app]. apply short_set_last; [exact Hs|exact Ht|].
      apply alo_sep; [exact Hk|exact Ht|exact Hn].
    + assert (o_accepts o = true) as Ha by (unfold is_bare in Hgl; destruct (o_accepts o); [reflexivity|discriminate]).
      rewrite <- (app_nil_r (short_char o)). apply Hgo; [apply Hne|].
      rewrite (short_char_known g o c Hs). cbn [app]. apply short_set_last; [exact Hs|exact Ha|].
      apply alo_bare; [exact Hk|exact Hgl|]. apply Hla. reflexivity.
  - destruct fl' as [|o2 fl'']; [discriminate|].
    cbn [item_events render_item app]. rewrite app_nil_r. fold (flag_events (o1 :: o2 :: fl'')).
    rewrite <- (app_nil_r (group_tok (o1 :: o2 :: fl''))). apply Hgo; [|reflexivity].
    inversion Hall' as [|? ? (_ & _ & c2 & Hs2) _]; subst. cbn [flat_map]. rewrite (short_char_known g o2 c2 Hs2). discriminate.
Qed.

Lemma item_step_form f g len it : item_form f g it = true -> is_pos it = false ->
  forall fuel st rest, (looks_ahead it = true -> next_dash rest = true) ->
  loop (S fuel) g len true st (render_item it ++ rest) = loop fuel g len true (st_evs st (item_events it)) rest.
Proof.
  intros Hok Hnp fuel st rest Hla. destruct it as [o long|o form s|o long|fl last|s]; [| | | |discriminate].
  - exact (item_step f g len (IFlag o long) Hok Hnp fuel st rest Hla).
  - cbn [item_form] in Hok. apply andb_prop in Hok as [Hok Hform]. apply andb_prop in Hok as [Hok Ha].
    apply opt_ok_inv in Hok as (_ & Hk & Hne & Hneq).
    cbn [item_events st_evs fold_left].
    destruct form; cbn [render_item app].
    + destruct (long_tok_class o (EQ :: s) Hne) as (T1 & T2 & T3).
      apply loop_long_ok; try assumption. apply pl_eq; assumption.
    + destruct (long_tok_class o [] Hne) as (T1 & T2 & T3). rewrite app_nil_r in T1, T2, T3.
      apply loop_long_ok; try assumption. apply pl_sep; assumption.
    + apply andb_prop in Hform as [Hso Hn]. apply short_ok_inv in Hso as [c Hs]. unfold short_tok.
      rewrite (short_char_known g o c Hs). cbn [app].
      pose proof Hs as (_ & Hd & _ & _). destruct (short_tok_class c s Hd) as (T1 & T2 & T3 & T4).
      apply loop_short_ok; try assumption. apply ps_glued; assumption.
    + apply andb_prop in Hform as [Hso Hn]. apply short_ok_inv in Hso as [c Hs]. unfold short_tok.
      rewrite (short_char_known g o c Hs).
      pose proof Hs as (_ & Hd & _ & _). destruct (short_tok_class c [] Hd) as (T1 & T2 & T3 & T4).
      apply loop_short_ok; try assumption. apply ps_sep; assumption.
  - exact (item_step f g len (IBare o long) Hok Hnp fuel st rest Hla).
  - eapply group_step_form; eassumption.
Qed.

Lemma item_first_dash_form it rest : is_pos it = false -> next_dash (render_item it ++ rest) = true.
Proof.
  intros Hnp. destruct it as [o long|o form s|o long|fl last|s]; [| | | |discriminate].
  - destruct long; reflexivity.
  - destruct form; reflexivity.
  - destruct long; reflexivity.
  - destruct last as [[o [s|s|]]|]; reflexivity.
Qed.

(* what follows an item that looks ahead cannot be taken for a value *)
Lemma after_look_ahead (it : item) r tl :
  (if looks_ahead it then match r with IPos s :: _ => str_eqb s [DASH] | _ => true end else true) = true ->
  next_dash tl = true -> looks_ahead it = true -> next_dash (flat_map render_item r ++ tl) = true.
Proof.
  intros Hla Htl Hlk. rewrite Hlk in Hla. destruct r as [|it2 r']; [exact Htl|].
  cbn [flat_map]. rewrite <- app_assoc.
  destruct (is_pos it2) eqn:Hp2; [|apply (item_first_dash_form it2 _ Hp2)].
  destruct it2 as [| | | |s2]; try discriminate. apply str_eqb_eq in Hla. subst s2. reflexivity.
Qed.

Section LoopForm.
  Variables (f g : fmt) (A : list (str * arg)).
  Hypothesis HA : get_arguments_all g = A.
  Hypothesis Hnm : Forall (fun na => fst na = a_name (snd na)) A.
  Hypothesis Hnd : NoDup (map fst A).

  Lemma loop_items_form len : forall items Pdone st fuel tl,
    ps_args st = place A Pdone -> shape A (Pdone ++ flat_map item_pos items) = true ->
    items_form f g items = true -> next_dash tl = true ->
    length (flat_map render_item items ++ tl) < fuel ->
    loop fuel g len true st (flat_map render_item items ++ tl) =
    loop (fuel - length items) g len true
         {| ps_args := place A (Pdone ++ flat_map item_pos items);
            ps_opts := fold_left raw_event (flat_map item_events items) (ps_opts st) |} tl.
  Proof.
    induction items as [|it r IH]; intros Pdone st fuel tl Hst Hsh Hok Htl Hf.
    - cbn [flat_map app length fold_left]. rewrite app_nil_r, Nat.sub_0_r, <- Hst. destruct st; reflexivity.
    - cbn [items_form] in Hok. apply andb_prop in Hok as [Hok Hr]. apply andb_prop in Hok as [Hit Hla].
      cbn [flat_map] in *. rewrite <- app_assoc in *. rewrite app_length in Hf.
      pose proof (render_item_length it) as Hl1.
      destruct fuel as [|fuel]; [lia|]. cbn [length Nat.sub].
      destruct (is_pos it) eqn:Hp.
      + destruct it as [| | | |s]; try discriminate. cbn [render_item item_pos item_events app] in *.
        change (s :: flat_map item_pos r) with ([s] ++ flat_map item_pos r) in Hsh. rewrite app_assoc in Hsh.
        rewrite (pos_step g A len HA Hnm Hnd fuel true st s _ Pdone Hst); [|eapply shape_app_l; exact Hsh|intros _; exact Hit].
        rewrite (IH (Pdone ++ [s])); [|reflexivity|exact Hsh|exact Hr|exact Htl|cbn in Hf; lia].
        cbn [ps_opts]. rewrite <- app_assoc. reflexivity.
      + rewrite (item_step_form f g len it Hit Hp).
        * assert (item_pos it = []) as Hnil by (destruct it; try reflexivity; discriminate).
          rewrite Hnil in *. cbn [app] in *.
          rewrite (IH Pdone); [|rewrite st_evs_args; exact Hst|exact Hsh|exact Hr|exact Htl|lia].
          rewrite st_evs_opts, fold_left_app. reflexivity.
        * apply (after_look_ahead it r tl Hla Htl).
  Qed.

  (* ---- strict mode, no multi-valued argument, one positional too many: the loop stops with CannotParse ---- *)
  Hypothesis Hsingle : no_multi A = true.

  Lemma shape_single : forall A0 P, no_multi A0 = true -> length P <= length A0 -> shape A0 P = true.
  Proof.
    induction A0 as [|[n a] A0' IH]; intros [|p P'] Hm Hl; cbn [shape]; try reflexivity; [cbn in Hl; lia|].
    cbn [no_multi forallb snd] in Hm. apply andb_prop in Hm as [Ha Hm]. apply negb_true_iff in Ha. rewrite Ha.
    apply IH; [exact Hm|cbn in Hl; lia].
  Qed.
  Lemma place_single_length : forall A0 P, no_multi A0 = true -> length P <= length A0 -> length (place A0 P) = length P.
  Proof.
    induction A0 as [|[n a] A0' IH]; intros [|p P'] Hm Hl; cbn [place length]; try reflexivity; [cbn in Hl; lia|].
    cbn [no_multi forallb snd] in Hm. apply andb_prop in Hm as [Ha Hm]. apply negb_true_iff in Ha. rewrite Ha.
    cbn [length]. f_equal. apply IH; [exact Hm|cbn in Hl; lia].
  Qed.

  Lemma pos_full fuel p st tok rest Pdone :
    ps_args st = place A Pdone -> length Pdone = length A -> (p = true -> pos_tok tok = true) ->
    loop (S fuel) g false p st (tok :: rest) = (st, Some CannotParse).
  Proof.
    intros Hst Hl Hp. rewrite loop_arg by exact Hp. rewrite parse_argument_full; [reflexivity| |rewrite HA; exact Hsingle].
    rewrite HA, Hst, place_single_length; [lia|exact Hsingle|lia].
  Qed.

  Lemma loop_items_surplus : forall items Pdone st fuel tl,
    ps_args st = place A Pdone -> length Pdone <= length A -> length A < length (Pdone ++ flat_map item_pos items) ->
    items_form f g items = true -> next_dash tl = true ->
    length (flat_map render_item items ++ tl) < fuel ->
    snd (loop fuel g false true st (flat_map render_item items ++ tl)) = Some CannotParse.
  Proof.
    induction items as [|it r IH]; intros Pdone st fuel tl Hst Hle Hgt Hok Htl Hf.
    - cbn [flat_map] in Hgt. rewrite app_nil_r in Hgt. lia.
    - cbn [items_form] in Hok. apply andb_prop in Hok as [Hok Hr]. apply andb_prop in Hok as [Hit Hla].
      cbn [flat_map] in *. rewrite <- app_assoc in *. rewrite app_length in Hf.
      pose proof (render_item_length it) as Hl1.
      destruct fuel as [|fuel]; [lia|].
      destruct (is_pos it) eqn:Hp.
      + destruct it as [| | | |s]; try discriminate. cbn [render_item item_pos item_events app] in *.
        destruct (Nat.eq_dec (length Pdone) (length A)) as [Heq|Hne].
        * rewrite (pos_full fuel true st s _ Pdone Hst Heq); [reflexivity|intros _; exact Hit].
        * rewrite (pos_step g A false HA Hnm Hnd fuel true st s _ Pdone Hst);
            [|apply shape_single; [exact Hsingle|rewrite app_length; cbn; lia]|intros _; exact Hit].
          apply (IH (Pdone ++ [s])); [reflexivity|rewrite app_length; cbn; lia| |exact Hr|exact Htl|cbn in Hf; lia].
          rewrite <- app_assoc. exact Hgt.
      + rewrite (item_step_form f g false it Hit Hp).
        * assert (item_pos it = []) as Hnil by (destruct it; try reflexivity; discriminate).
          rewrite Hnil in *. cbn [app] in *.
          apply (IH Pdone); [rewrite st_evs_args; exact Hst|exact Hle|exact Hgt|exact Hr|exact Htl|lia].
        * apply (after_look_ahead it r tl Hla Htl).
  Qed.

  Lemma loop_tail_surplus : forall tl Pdone st fuel,
    ps_args st = place A Pdone -> length Pdone <= length A -> length A < length (Pdone ++ tl) -> length tl < fuel ->
    snd (loop fuel g false false st tl) = Some CannotParse.
  Proof.
    induction tl as [|t tl IH]; intros Pdone st fuel Hst Hle Hgt Hf.
    - rewrite app_nil_r in Hgt. lia.
    - destruct fuel as [|fuel]; [cbn in Hf; lia|]. cbn [length] in Hf.
      destruct (Nat.eq_dec (length Pdone) (length A)) as [Heq|Hne].
      + rewrite (pos_full fuel false st t tl Pdone Hst Heq); [reflexivity|discriminate].
      + rewrite (pos_step g A false HA Hnm Hnd fuel false st t tl Pdone Hst);
          [|apply shape_single; [exact Hsingle|rewrite app_length; cbn; lia]|discriminate].
        apply (IH (Pdone ++ [t])); [reflexivity|rewrite app_length; cbn; lia| |lia].
        rewrite <- app_assoc. exact Hgt.
  Qed.
End LoopForm.

(* ---------- the whole rendered line ---------- *)
Lemma items_form_names f g names items : Forall (fun s => plain_tok s = true) names ->
  items_form f g items = true -> items_form f g (map IPos names ++ items) = true.
Proof.
  induction 1 as [|s r Hs Hr IH]; intros Hi; [exact Hi|]. cbn [map app items_form item_form looks_ahead].
  rewrite (IH Hi). unfold plain_tok in Hs. apply andb_prop in Hs as [_ Hs]. unfold pos_tok. rewrite Hs. reflexivity.
Qed.

(* the state the token loop ends in on a line whose positionals fit in number *)
Definition line_state (A : list (str * arg)) (d : ld) : pstate :=
  {| ps_args := place A (ld_names d ++ values d); ps_opts := fold_left raw_event (events d) [] |}.

Lemma loop_line_form f g A cns len d :
  fmt_facts f g A cns -> Spell.names_ok cns (ld_names d) = true -> items_form f g (ld_items d) = true ->
  shape A (ld_names d ++ values d) = true ->
  loop (S (length (render d))) g len true ps_empty (render d) = (line_state A d, None).
Proof.
  intros FF Hn Hit Hsh. unfold line_state. destruct d as [names items tail]. unfold render, values, events in *.
  cbn [ld_names ld_items ld_tail] in *.
  set (items' := map IPos names ++ items).
  destruct (names_as_items names items) as (E1 & E2 & E3). fold items' in E1, E2, E3.
  rewrite app_assoc, <- E1.
  assert (items_form f g items' = true) as Hit' by (apply items_form_names; [eapply names_ok_plain; exact Hn|exact Hit]).
  pose proof (render_items_length items') as Hlen.
  assert (next_dash (render_tail tail) = true) as Hnd by (destruct tail; reflexivity).
  rewrite app_assoc in Hsh. rewrite <- E2 in Hsh.
  rewrite (loop_items_form f g A (ff_args _ _ _ _ FF) (ff_names _ _ _ _ FF) (ff_nodup _ _ _ _ FF) len items' [] ps_empty);
    [|symmetry; apply place_nil|cbn [app]; eapply shape_app_l; exact Hsh|exact Hit'|exact Hnd|rewrite app_length; lia].
  cbn [app ps_opts ps_empty]. rewrite E3. rewrite app_length.
  destruct tail as [tl|]; cbn [render_tail].
  - cbn [length].
    replace (S (length (flat_map render_item items') + S (length tl)) - length items')
      with (S (S (length (flat_map render_item items') + length tl - length items'))) by lia.
    rewrite loop_dd. rewrite (loop_tail g A len (ff_args _ _ _ _ FF) (ff_names _ _ _ _ FF) (ff_nodup _ _ _ _ FF) tl
                                (flat_map item_pos items'));
      [|reflexivity|exact Hsh|lia].
    cbn [ps_opts]. rewrite E2, <- app_assoc. reflexivity.
  - cbn [length]. rewrite Nat.add_0_r.
    replace (S (length (flat_map render_item items')) - length items')
      with (S (length (flat_map render_item items') - length items')) by lia.
    cbn [loop]. rewrite E2, app_nil_r. reflexivity.
Qed.

(* THE BRIDGE, whole line: the strict loop goes through a line whose forms are right and whose positionals
   fit in number *)
Lemma scans_rendered_line f g A cns d :
  fmt_facts f g A cns -> Spell.names_ok cns (ld_names d) = true -> items_form f g (ld_items d) = true ->
  shape A (ld_names d ++ values d) = true -> scans g (render d) (line_state A d).
Proof. intros FF Hn Hit Hsh. exact (loop_line_form f g A cns false d FF Hn Hit Hsh). Qed.

Lemma loop_line_surplus f g A cns d :
  fmt_facts f g A cns -> Spell.names_ok cns (ld_names d) = true -> items_form f g (ld_items d) = true ->
  no_multi A = true -> length A < length (ld_names d ++ values d) ->
  snd (loop (S (length (render d))) g false true ps_empty (render d)) = Some CannotParse.
Proof.
  intros FF Hn Hit Hm Hgt. destruct d as [names items tail]. unfold render, values in *.
  cbn [ld_names ld_items ld_tail] in *.
  set (items' := map IPos names ++ items).
  destruct (names_as_items names items) as (E1 & E2 & E3). fold items' in E1, E2, E3.
  rewrite app_assoc, <- E1. rewrite app_assoc, <- E2 in Hgt.
  assert (items_form f g items' = true) as Hit' by (apply items_form_names; [eapply names_ok_plain; exact Hn|exact Hit]).
  pose proof (render_items_length items') as Hlen.
  assert (next_dash (render_tail tail) = true) as Hnd by (destruct tail; reflexivity).
  pose proof (ff_args _ _ _ _ FF) as HA. pose proof (ff_names _ _ _ _ FF) as Hnm. pose proof (ff_nodup _ _ _ _ FF) as Hndp.
  destruct (Nat.lt_ge_cases (length A) (length (flat_map item_pos items'))) as [Hin|Hout].
  - (* the surplus positional comes before "--" *)
    apply (loop_items_surplus f g A HA Hnm Hndp Hm items' [] ps_empty);
      [symmetry; apply place_nil|cbn; lia|exact Hin|exact Hit'|exact Hnd|rewrite !app_length; lia].
  - (* it comes after "--" *)
    rewrite (loop_items_form f g A HA Hnm Hndp false items' [] ps_empty);
      [|symmetry; apply place_nil|cbn [app]; apply shape_single; assumption|exact Hit'|exact Hnd|rewrite !app_length; lia].
    cbn [app ps_opts ps_empty]. rewrite app_length.
    destruct tail as [tl|]; cbn [render_tail] in *; [|rewrite app_nil_r in Hgt; lia].
    cbn [length].
    replace (S (length (flat_map render_item items') + S (length tl)) - length items')
      with (S (S (length (flat_map render_item items') + length tl - length items'))) by lia.
    rewrite loop_dd.
    apply (loop_tail_surplus g A HA Hnm Hndp Hm tl (flat_map item_pos items')); [reflexivity|exact Hout|exact Hgt|lia].
Qed.

(* ---------- the arguments of the augmented format ---------- *)
Section Facts.
  Variables (f g : fmt) (A : list (str * arg)) (cns : list (str * cname)).
  Hypothesis FF : fmt_facts f g A cns.
  Let real := get_arguments_all f.

  Lemma A_len : length A = length cns + length real.
  Proof.
    rewrite (A_split f g A cns FF) at 1. rewrite app_length, (pseudo_len f g A cns FF). reflexivity.
  Qed.
  Lemma A_single : no_multi real = true -> no_multi A = true.
  Proof.
    intros H. rewrite (A_split f g A cns FF). unfold no_multi. rewrite forallb_app. apply andb_true_intro. split; [|exact H].
    apply forallb_forall. intros na Hin. pose proof (pseudo_single f g A cns FF) as Hs. rewrite Forall_forall in Hs.
    rewrite (Hs na Hin). reflexivity.
  Qed.
  Lemma real_named : args_named real.
  Proof.
    intros k a Hin. pose proof (real_names f g A cns FF) as H. rewrite Forall_forall in H. exact (H (k, a) Hin).
  Qed.
  Lemma A_nth_real i : nth_error A (length cns + i) = nth_error real i.
  Proof.
    rewrite (A_split f g A cns FF) at 1. rewrite nth_error_app2 by (rewrite (pseudo_len f g A cns FF); lia).
    rewrite (pseudo_len f g A cns FF). f_equal. lia.
  Qed.
  Lemma shape_line_sh names V : Spell.names_ok cns names = true -> shape real V = true -> shape A (names ++ V) = true.
  Proof.
    intros Hn Hsh. rewrite (A_split f g A cns FF), (shape_app_single _ _ _ (pseudo_single f g A cns FF)), (pseudo_len f g A cns FF).
    eapply shape_shorter; [exact Hsh|]. pose proof (names_ok_length _ _ Hn). rewrite skipn_length, app_length. lia.
  Qed.
End Facts.

(* ================= 2. clause 5 on line descriptions: more positional values than declared arguments ================= *)
Theorem surplus_positional_rejected_lemma f d :
  fmt_ok f = true -> forms_ok f d = true ->
  no_multi (get_arguments_all f) = true -> length (get_arguments_all f) < length (values d) ->
  parse f false (render d) = Err CannotParse.
Proof.
  intros Hf Hwf Hm Hgt. destruct (fmt_ok_inv f Hf) as (g & A & cns & FF).
  unfold forms_ok in Hwf. rewrite (ff_aug _ _ _ _ FF) in Hwf.
  apply andb_prop in Hwf as [Hwf Hclash]. apply andb_prop in Hwf as [Hn Hit].
  pose proof (A_single f g A cns FF Hm) as HmA. pose proof (A_len f g A cns FF) as HlA.
  destruct (Nat.lt_ge_cases (length A) (length (ld_names d ++ values d))) as [Hover|Hin].
  - (* found by the token loop *)
    pose proof (loop_line_surplus f g A cns d FF Hn Hit HmA Hover) as Hl.
    unfold parse, parse_on. rewrite (ff_aug _ _ _ _ FF).
    destruct (loop (S (length (render d))) g false true ps_empty (render d)) as [st1 e]. cbn [snd] in Hl. subst e. reflexivity.
  - (* found when the values are re-aligned against the omitted command names *)
    assert (shape A (ld_names d ++ values d) = true) as Hsh by (apply shape_single; assumption).
    eapply (too_many_after_realign f g A cns (render d) (line_state A d) (values d));
      [exact (ff_aug _ _ _ _ FF)|exact (scans_rendered_line f g A cns d FF Hn Hit Hsh)| |exact HmA|lia].
    unfold line_state. cbn [ps_args]. rewrite (flatten_place _ _ Hsh).
    apply (SpellArgs.skip_names_spec (values d) (ld_names d) cns 0 Hn Hclash).
Qed.

(* the options of f are valid objects: multi-valued => value required; the default of an option whose value may
   be omitted is None / a bool / an int / a string (ClassifyLemmas.opt_ok_wb, on the option list of f) *)
Definition opts_listed_ok (f : fmt) : bool := forallb (fun no => opt_ok_wb (snd no)) (get_options_all f).
Lemma opts_listed_ok_w f g A cns : aug_format f = Ok (g, A, cns) -> opts_listed_ok f = true -> opts_ok_w g.
Proof.
  intros Ha Hl n o Hg. destruct (ao_get _ _ (aug_format_opts _ _ _ _ Ha) n o Hg) as [Hin _].
  apply in_map_iff in Hin as (no & <- & Hin). unfold opts_listed_ok in Hl. rewrite forallb_forall in Hl.
  specialize (Hl no Hin). unfold opt_ok_wb in Hl. apply andb_prop in Hl as [H1 H2]. split.
  - intros Hmu. rewrite Hmu in H1. exact H1.
  - intros Hr. rewrite Hr in H2. exact H2.
Qed.
Theorem line_lenient_no_parse_error f : fmt_ok f = true -> opts_listed_ok f = true ->
  forall toks, parse f true toks <> Err CannotParse /\ parse f true toks <> Err NoSuchOption.
Proof.
  intros Hf Ho toks. destruct (fmt_ok_inv f Hf) as (g & A & cns & FF).
  destruct (lenient_no_parse_error_w f g A cns toks (ff_aug _ _ _ _ FF) (opts_listed_ok_w f g A cns (ff_aug _ _ _ _ FF) Ho)); auto.
Qed.
Theorem surplus_positional_lenient_lemma f d :
  fmt_ok f = true -> opts_listed_ok f = true -> parse f true (render d) <> Err CannotParse.
Proof. intros Hf Ho. apply (line_lenient_no_parse_error f Hf Ho). Qed.

(* ================= 3. clause 4 on line descriptions: a required argument gets no value ================= *)
Lemma req_ok_false : forall R V, req_ok R V = false ->
  exists i n a, nth_error R i = Some (n, a) /\ a_required a = true /\ length V <= i.
Proof.
  induction R as [|[n a] R' IH]; intros V H; [discriminate|]. cbn [req_ok] in H. destruct V as [|v V'].
  - destruct (a_required a) eqn:Hr.
    + exists 0, n, a. split; [reflexivity|]. split; [exact Hr|cbn; lia].
    + cbn [negb andb] in H. destruct (IH [] H) as (i & n' & a' & Hn & Hr' & Hl). exists (S i), n', a'.
      split; [exact Hn|]. split; [exact Hr'|cbn; lia].
  - destruct (IH V' H) as (i & n' & a' & Hn & Hr' & Hl). exists (S i), n', a'.
    split; [exact Hn|]. split; [exact Hr'|cbn [length]; lia].
Qed.

Theorem missing_required_rejected_lemma f d :
  fmt_ok f = true -> forms_ok f d = true ->
  shape (get_arguments_all f) (values d) = true -> req_ok (get_arguments_all f) (values d) = false ->
  parse f false (render d) = Err CannotParse.
Proof.
  intros Hf Hwf Hsh Hreq. destruct (fmt_ok_inv f Hf) as (g & A & cns & FF).
  unfold forms_ok in Hwf. rewrite (ff_aug _ _ _ _ FF) in Hwf.
  apply andb_prop in Hwf as [Hwf Hclash]. apply andb_prop in Hwf as [Hn Hit].
  pose proof (shape_line_sh f g A cns FF _ _ Hn Hsh) as HshA.
  destruct (req_ok_false _ _ Hreq) as (i & n & a & Hnth & Hr & Hl).
  eapply (missing_argument f g A cns (render d) (line_state A d) (values d) _ _ i n a);
    [exact (ff_aug _ _ _ _ FF)|exact (real_named f g A cns FF)|exact (scans_rendered_line f g A cns d FF Hn Hit HshA)| |
     rewrite (A_nth_real f g A cns FF); exact Hnth|exact Hr|exact Hl].
  unfold line_state. cbn [ps_args]. rewrite (flatten_place _ _ HshA).
  apply (SpellArgs.skip_names_spec (values d) (ld_names d) cns 0 Hn Hclash).
Qed.
Theorem missing_required_lenient_lemma f d :
  fmt_ok f = true -> opts_listed_ok f = true -> parse f true (render d) <> Err CannotParse.
Proof. intros Hf Ho. apply (line_lenient_no_parse_error f Hf Ho). Qed.

(* ---------- non-vacuity: the hypotheses of clauses 5 and 4 on concrete formats and lines ---------- *)
Module LineExamples.
  Import SpellExamples.
  Definition L names items tail := {| ld_names := names; ld_items := items; ld_tail := tail |}.
  (* F1 of SpellExamples without the multi-valued argument: server [add] <host> [<port:int>], six options *)
  Definition F4 := mk [ECName c_server; ECName c_add; EArg a_host; EArg a_port;
                       EOpt o_verbose; EOpt o_quiet; EOpt o_num; EOpt o_tag; EOpt o_color; EOpt o_level] None.
  Example F4_ok : fmt_ok F4 = true /\ opts_listed_ok F4 = true /\ opts_listed_ok F1 = true.
  Proof. repeat split; vm_compute; reflexivity. Qed.

  (* the well-formed line  srv h1 --verbose -n 5 8080  and three ways of putting one value too many *)
  Definition W1 := L [s "srv"] [IPos (s "h1"); IFlag o_verbose true; IVal o_num ShortSep (s "5"); IPos (s "8080")] None.
  Example W1_wf : wf_line F4 W1 = true. Proof. vm_compute. reflexivity. Qed.
  (* ... before "--": found by the re-alignment (the command name "add" is omitted, so the loop has a slot left) *)
  Definition S1 := L [s "srv"] [IPos (s "h1"); IFlag o_verbose true; IVal o_num ShortSep (s "5"); IPos (s "8080"); IPos (s "x")] None.
  Example S1_rejected : render S1 = [s "srv"; s "h1"; s "--verbose"; s "-n"; s "5"; s "8080"; s "x"] /\
                        parse F4 false (render S1) = Err CannotParse /\ parse F4 true (render S1) <> Err CannotParse.
  Proof.
    split; [vm_compute; reflexivity|]. split.
    - apply surplus_positional_rejected_lemma; vm_compute; first [reflexivity|lia].
    - apply surplus_positional_lenient_lemma; vm_compute; reflexivity.
  Qed.
  (* ... all command names spelled: found by the token loop; the surplus value after "--", dash-leading *)
  Definition S2 := L [s "srv"; s "add"] [IPos (s "h1"); IFlag o_verbose true; IVal o_num ShortSep (s "5"); IPos (s "8080")] (Some [s "-x"]).
  Example S2_rejected : parse F4 false (render S2) = Err CannotParse.
  Proof. apply surplus_positional_rejected_lemma; vm_compute; first [reflexivity|lia]. Qed.
  (* ... no command name spelled, "-" and the empty token as values, two too many, an unconvertible option text on the way *)
  Definition S3 := L [] [IVal o_num LongEq (s "abc"); IPos (s "-"); IPos (s ""); IGroup [o_verbose; o_quiet] None; IPos (s "-")] (Some [s "--"]).
  Example S3_rejected : parse F4 false (render S3) = Err CannotParse.
  Proof. apply surplus_positional_rejected_lemma; vm_compute; first [reflexivity|lia]. Qed.
  (* what no_clash (a conjunct of wf_line and of forms_ok) excludes: the first value spells the omitted command name -
     these tokens ARE the well-formed line  server h1 8080 *)
  Definition S4 := L [] [IPos (s "server"); IPos (s "h1"); IPos (s "8080")] None.
  Example S4_is_another_line : forms_ok F4 S4 = false /\ render S4 = render (L [s "server"] [IPos (s "h1"); IPos (s "8080")] None) /\
                               wf_line F4 (L [s "server"] [IPos (s "h1"); IPos (s "8080")] None) = true.
  Proof. repeat split; vm_compute; reflexivity. Qed.

  (* a required argument without value: the line  srv add -v --num 5  for  server add <host> [<port>] [<files>...] *)
  Definition M1 := L [s "srv"; s "add"] [IFlag o_verbose false; IVal o_num LongSep (s "5")] None.
  Example M1_rejected : render M1 = [s "srv"; s "add"; s "-v"; s "--num"; s "5"] /\
                        parse F1 false (render M1) = Err CannotParse /\ parse F1 true (render M1) <> Err CannotParse.
  Proof.
    split; [vm_compute; reflexivity|]. split.
    - apply missing_required_rejected_lemma; vm_compute; reflexivity.
    - apply missing_required_lenient_lemma; vm_compute; reflexivity.
  Qed.
  (* the second of two required arguments, command names omitted, an empty "--" tail *)
  Definition a_port_req := {| a_name := s "port"; a_flags := 65; a_default := VNone |}.      (* REQUIRED | INTEGER *)
  Definition F6 := mk [ECName c_server; EArg a_host; EArg a_port_req; EOpt o_verbose; EOpt o_num; EOpt o_color; EOpt o_tag] None.
  Definition M2 := L [] [IGroup [o_verbose] (Some (o_color, GBare)); IPos (s "-")] (Some []).
  Example M2_rejected : fmt_ok F6 = true /\ render M2 = [s "-vc"; s "-"; s "--"] /\ parse F6 false (render M2) = Err CannotParse.
  Proof.
    split; [vm_compute; reflexivity|]. split; [vm_compute; reflexivity|].
    apply missing_required_rejected_lemma; vm_compute; reflexivity.
  Qed.
End LineExamples.

(* ================= 4. clause 6 on line descriptions: a text that does not convert ================= *)
(* ---------- after the token loop (SpellArgs.finish again, for values that fit in number only) ---------- *)
Section FinishShape.
  Variables (f g : fmt) (A : list (str * arg)) (cns : list (str * cname)).
  Hypothesis FF : fmt_facts f g A cns.
  Variables (names V : list str).
  Hypothesis Hnames : Spell.names_ok cns names = true.
  Hypothesis Hsh : shape (get_arguments_all f) V = true.
  Hypothesis Hclash : no_clash cns names V = true.
  Hypothesis Hreq : req_ok (get_arguments_all f) V = true.

  Let real := get_arguments_all f.
  Let m := length cns.
  Let pseudo := firstn m A.

  Lemma finish_shape len po :
    exists st2,
      insert_missing A cns len {| ps_args := place A (names ++ V); ps_opts := po |} = Ok st2 /\
      ps_opts st2 = po /\ missing_required A st2 = false /\
      filter (keyin real) (ps_args st2) = place real V.
  Proof.
    pose proof (names_ok_length _ _ Hnames) as Hk. fold m in Hk.
    pose proof (A_split f g A cns FF) as HAs. pose proof (pseudo_len f g A cns FF) as Hpl.
    pose proof (pseudo_keys f g A cns FF) as Hpk. pose proof (pseudo_single f g A cns FF) as Hps.
    pose proof (real_nodup f g A cns FF) as Hrn. cbv zeta in HAs, Hpl, Hpk, Hps, Hrn.
    fold m in HAs, Hpl, Hpk, Hps. fold pseudo in HAs, Hpl, Hpk, Hps. fold real in HAs, Hrn.
    assert (forall n, In n (map fst cns) -> shas n real = false) as Hcnr by (intros n Hn; exact (cns_not_real f g A cns FF n Hn)).
    set (fixed0 := map (fun c : str * cname => (fst c, RCmd (snd c))) (skipn (length names) cns)).
    assert (forall n, In n (map fst fixed0) -> In n (map fst cns)) as Hfx.
    { intros n Hn. unfold fixed0 in Hn. rewrite map_map in Hn. cbn [fst] in Hn.
      rewrite <- (firstn_skipn (length names) cns), map_app, in_app_iff. now right. }
    assert (copy_values V real len fixed0 = Ok (fixed0 ++ place real V)) as Hcopy.
    { apply copy_values_place; [exact Hsh|exact Hrn|].
      intros n Hn Hn2. apply Hfx in Hn2. apply Hcnr in Hn2. rewrite (in_keys_shas real n Hn) in Hn2. discriminate. }
    pose proof (shape_line_sh f g A cns FF _ _ Hnames Hsh) as HshA.
    exists {| ps_args := supd (place A (names ++ V)) (fixed0 ++ place real V); ps_opts := po |}.
    split; [|split; [reflexivity|split]].
    - unfold insert_missing. cbn [ps_args ps_opts]. rewrite (flatten_place _ _ HshA).
      rewrite (SpellArgs.skip_names_spec V names cns 0 Hnames Hclash). cbn [Nat.add].
      replace (length names + length (skipn (length names) cns)) with m by (rewrite skipn_length; fold m; lia).
      unfold m. rewrite (ff_real _ _ _ _ FF). fold real. fold fixed0. rewrite Hcopy. reflexivity.
    - cbn [ps_args]. unfold missing_required.
      destruct (existsb _ A) eqn:E; [exfalso|reflexivity].
      apply existsb_exists in E as [[n a] [Hin H]]. cbn [fst snd ps_args] in H.
      apply andb_prop in H as [Hr Hs]. apply negb_true_iff in Hs.
      rewrite HAs in Hin. apply in_app_or in Hin as [Hin|Hin].
      + assert (In n (map fst cns)) as Hn.
        { rewrite <- Hpk. change n with (fst (n, a)). now apply in_map. }
        rewrite <- (firstn_skipn (length names) cns), map_app, in_app_iff in Hn. destruct Hn as [Hn|Hn].
        * rewrite supd_keeps in Hs; [discriminate|]. apply in_keys_shas.
          rewrite HAs, (place_app _ _ _ Hps), map_app, in_app_iff. left.
          rewrite (place_single_keys _ _ Hps), Hpk, firstn_length, Hpl, app_length.
          rewrite <- firstn_map in Hn. eapply firstn_in_le; [|exact Hn]. lia.
        * rewrite supd_has in Hs; [discriminate|]. rewrite map_app, in_app_iff. left.
          unfold fixed0. rewrite map_map. cbn [fst]. exact Hn.
      + rewrite supd_has in Hs; [discriminate|]. rewrite map_app, in_app_iff. right.
        eapply req_ok_in; eauto.
    - cbn [ps_args]. rewrite filter_supd, filter_app.
      rewrite (filter_none real fixed0) by (intros k0 Hk0; apply Hcnr, Hfx, Hk0).
      rewrite (filter_all real (place real V)) by (intros k0 Hk0; apply in_keys_shas; eapply place_keys_in; exact Hk0).
      cbn [app].
      rewrite HAs at 1. rewrite (place_app _ _ _ Hps), filter_app, Hpl.
      rewrite (filter_none real (place pseudo _)).
      2:{ intros k0 Hk0. apply Hcnr. rewrite <- Hpk. eapply place_keys_in. exact Hk0. }
      rewrite (filter_all real (place real _)) by (intros k0 Hk0; apply in_keys_shas; eapply place_keys_in; exact Hk0).
      cbn [app].
      pose proof (supd_prefix (place real V) (place real (skipn m (names ++ V))) []) as Hsup. cbn [app] in Hsup.
      apply Hsup.
      + apply place_keys_nodup. exact Hrn.
      + apply place_keys_prefix. rewrite skipn_length, app_length. lia.
  Qed.
End FinishShape.

(* ---------- a positional value that does not convert ---------- *)
Lemma arg_by_name f n a : sget n (get_arguments_all f) = Some a ->
  has_argument f (AName n) true = true /\ get_argument f (AName n) true = Ok a.
Proof. intros H. unfold has_argument, get_argument. cbn [get_arguments]. rewrite shas_sget, H. split; reflexivity. Qed.
Lemma forallb_false_ex {X} (p : X -> bool) l : forallb p l = false -> exists x, In x l /\ p x = false.
Proof.
  induction l as [|x r IH]; cbn [forallb]; [discriminate|]. destruct (p x) eqn:E; cbn [andb].
  - intros H. destruct (IH H) as (y & Hy & Hp). exists y. split; [now right|exact Hp].
  - intros _. exists x. split; [now left|exact E].
Qed.
Lemma res_ok_false {X} (r : res X) : res_ok r = false -> exists k, r = Err k.
Proof. destruct r; [discriminate|eauto]. Qed.

Lemma unfit_bad_arg f : NoDup (map fst (get_arguments_all f)) ->
  forall R1 V, incl R1 (get_arguments_all f) -> shape R1 V = true -> fits R1 V = false ->
  exists n v, In (n, v) (place R1 V) /\ bad_arg f n v.
Proof.
  intros Hnd. induction R1 as [|[n a] R1' IH]; intros V Hincl Hsh Hfit.
  - destruct V; discriminate.
  - destruct V as [|v V']; [discriminate|].
    assert (In (n, a) (get_arguments_all f)) as Hin by (apply Hincl; now left).
    pose proof (sget_nodup_in _ n a Hnd Hin) as Hget. destruct (arg_by_name f n a Hget) as [Hh Hg].
    cbn [place shape fits] in *. destruct (a_multi a) eqn:Hm.
    + rewrite Hsh in Hfit. cbn [andb] in Hfit. apply forallb_false_ex in Hfit as (x & Hx & Hp).
      apply res_ok_false in Hp as [k Hk].
      exists n, (RList (v :: V')). split; [now left|]. split; [exact Hh|]. exists a. split; [exact Hg|].
      split; [exact Hm|]. exists x, k. split; assumption.
    + destruct (parse_typed (a_type a) (a_nullable a) (VStr v)) as [pv|k] eqn:Ek.
      * cbn [res_ok andb] in Hfit. destruct (IH V' (fun x Hx => Hincl x (or_intror Hx)) Hsh Hfit) as (n' & v' & Hin' & Hb).
        exists n', v'. split; [now right|exact Hb].
      * exists n, (RStr v). split; [now left|]. split; [exact Hh|]. exists a. split; [exact Hg|].
        split; [exact Hm|]. exists k. exact Ek.
Qed.

(* ---------- the events of a line whose forms are right ---------- *)
Definition ev_form (f : fmt) (e : opt * given) : Prop :=
  known f (fst e) /\
  match snd e with
  | GTrue => Spell.is_flag (fst e) = true
  | GDefault => is_bare (fst e) = true
  | GText s => o_accepts (fst e) = true
  end.
Lemma item_events_form f g it : item_form f g it = true -> Forall (ev_form f) (item_events it).
Proof.
  destruct it as [o long|o form s|o long|fl last|s]; cbn [item_form item_events]; intros H.
  - apply andb_prop in H as [H _]. apply andb_prop in H as [H1 H2]. apply opt_ok_inv in H1 as (Hk & _).
    constructor; [split; assumption|constructor].
  - apply andb_prop in H as [H _]. apply andb_prop in H as [H1 H2]. apply opt_ok_inv in H1 as (Hk & _).
    constructor; [split; assumption|constructor].
  - apply andb_prop in H as [H _]. apply andb_prop in H as [H1 H2]. apply opt_ok_inv in H1 as (Hk & _).
    constructor; [split; assumption|constructor].
  - apply andb_prop in H as [Hfl Hlast]. apply Forall_app. split.
    + clear Hlast. induction fl as [|o fl IH]; cbn in *; [constructor|].
      apply andb_prop in Hfl as [H Hr]. apply andb_prop in H as [H _]. apply andb_prop in H as [H1 H2].
      apply opt_ok_inv in H1 as (Hk & _). constructor; [split; assumption|exact (IH Hr)].
    + destruct last as [[o gl]|]; [|constructor]. apply andb_prop in Hlast as [_ Hlast]. unfold last_form in Hlast.
      cbn [fst snd] in Hlast. apply andb_prop in Hlast as [Hlast Hgl]. apply andb_prop in Hlast as [Hok _].
      apply opt_ok_inv in Hok as (Hk & _). constructor; [|constructor]. unfold last_event. cbn [fst snd].
      destruct gl as [s|s|]; (split; [exact Hk|]); cbn [fst snd]; [| |exact Hgl]; now apply andb_prop in Hgl as [_ Hgl].
  - constructor.
Qed.
Lemma items_events_form f g l : items_form f g l = true -> Forall (ev_form f) (flat_map item_events l).
Proof.
  induction l as [|it r IH]; cbn [items_form flat_map]; intros H; [constructor|].
  apply andb_prop in H as [H Hr]. apply andb_prop in H as [Hi _].
  apply Forall_app. split; [eapply item_events_form; eauto|exact (IH Hr)].
Qed.

(* ---------- the option scratch map of such a line ---------- *)
Lemma known_same f o o' : known f o -> known f o' -> o_long o = o_long o' -> o = o'.
Proof. intros [H1 _] [H2 _] E. rewrite E in H1. congruence. Qed.

(* every default stored for an omitted optional value converts *)
Definition defaults_ok (f : fmt) (R : list (str * rawopt)) : Prop :=
  forall n d, In (n, ODefault d) R -> forall o, get_option f n true = Ok o ->
    res_ok (parse_typed (o_type o) (o_nullable o) d) = true.
Lemma raw_event_defaults f R e : ev_form f e -> defaults_ok f R -> defaults_ok f (raw_event R e).
Proof.
  intros [[Hg Hh] He] HR. destruct e as [o gv]. cbn [fst snd] in *. unfold raw_event. cbn [fst snd].
  destruct gv as [| |s].
  - intros n d Hin. apply in_sset in Hin as [[_ Hv]|Hin]; [discriminate|exact (HR n d Hin)].
  - intros n d Hin. apply in_sset in Hin as [[Hn Hv]|Hin]; [|exact (HR n d Hin)].
    inversion Hv; subst. intros o' Ho'. rewrite Hg in Ho'. inversion Ho'; subst o'.
    unfold is_bare in He. now apply andb_prop in He as [_ He].
  - destruct (o_multi o); intros n d Hin; apply in_sset in Hin as [[_ Hv]|Hin]; try discriminate; exact (HR n d Hin).
Qed.
Lemma raw_events_defaults f es : Forall (ev_form f) es -> forall R, defaults_ok f R -> defaults_ok f (fold_left raw_event es R).
Proof.
  induction 1 as [|e es He Hes IH]; intros R HR; cbn [fold_left]; [exact HR|]. apply IH. now apply raw_event_defaults.
Qed.

(* Args.set_option over such a map fails with ValueError only (ParserLemmas.set_options_err, with the hypothesis
   on the stored defaults that the line conditions give) *)
Lemma set_options_err_def f : forall l a k, defaults_ok f l -> set_options f a l = Err k -> k = ValueError.
Proof.
  induction l as [|[n v] r IH]; intros a k Hd; cbn [set_options]; [discriminate|].
  assert (defaults_ok f r) as Hd' by (intros n0 d Hin; apply (Hd n0 d); now right).
  destruct (has_option f n true) eqn:Hh; [|apply IH; assumption].
  destruct (has_option_get f n Hh) as [o Ho]. unfold set_option. cbn [get_option]. rewrite Ho. cbn [bind].
  assert (forall k0, parse_raw_opt (o_type o) (o_nullable o) v = Err k0 -> k0 = ValueError) as Hraw.
  { intros k0 Hk0. destruct v as [s| |d|l0].
    - eapply parse_raw_opt_err; [|exact Hk0]. intros d Hd0; discriminate.
    - eapply parse_raw_opt_err; [|exact Hk0]. intros d Hd0; discriminate.
    - cbn [parse_raw_opt] in Hk0. pose proof (Hd n d (or_introl eq_refl) o Ho) as Hv. rewrite Hk0 in Hv. discriminate.
    - eapply parse_raw_opt_err; [|exact Hk0]. intros d Hd0; discriminate. }
  set (X := if o_multi o then _ else _). destruct X as [pv|k'] eqn:E; subst X; cbn [bind].
  - apply IH; assumption.
  - intros H. inversion H; subst. clear H. destruct (o_multi o).
    + destruct v as [s| |d|l0].
      * destruct (parse_raw_opt (o_type o) (o_nullable o) (OStr s)) eqn:E2; cbn [bind] in E; [discriminate|].
        inversion E; subst. eapply Hraw; eauto.
      * destruct (parse_raw_opt (o_type o) (o_nullable o) OTrue) eqn:E2; cbn [bind] in E; [discriminate|].
        inversion E; subst. eapply Hraw; eauto.
      * destruct (parse_raw_opt (o_type o) (o_nullable o) (ODefault d)) eqn:E2; cbn [bind] in E; [discriminate|].
        inversion E; subst. eapply Hraw; eauto.
      * destruct (parse_each (o_type o) (o_nullable o) l0) eqn:E2; cbn [bind] in E; [discriminate|].
        inversion E; subst. eapply parse_each_err; eauto.
    + destruct (o_accepts o); [eapply Hraw; eauto|discriminate].
Qed.

(* where the text of an occurrence ends up *)
Lemma raw_event_other k R e : str_eqb k (ev_key e) = false -> sget k (raw_event R e) = sget k R.
Proof.
  unfold raw_event, ev_key. intros H. destruct (snd e); [| |destruct (o_multi (fst e))]; unfold sget, sset; rewrite sget_sset, H; reflexivity.
Qed.
Lemma raw_others k : forall es R, mentions k es = false -> sget k (fold_left raw_event es R) = sget k R.
Proof.
  unfold mentions. induction es as [|e r IH]; intros R H; cbn [fold_left]; [reflexivity|]. cbn [existsb] in H.
  apply orb_false_elim in H as [H1 H2]. rewrite IH by exact H2. apply raw_event_other, H1.
Qed.
Lemma raw_multi_keeps f o s : known f o -> o_multi o = true -> forall es R l,
  Forall (ev_form f) es -> sget (o_long o) R = Some (OList l) -> In s l ->
  exists l', sget (o_long o) (fold_left raw_event es R) = Some (OList l') /\ In s l'.
Proof.
  intros Hk Hm. induction es as [|e r IH]; intros R l Hes Hg Hin; cbn [fold_left]; [eauto|].
  inversion Hes as [|? ? He Hr]; subst.
  destruct (str_eqb_spec (o_long o) (ev_key e)) as [E|Hne].
  - destruct e as [o' gv]. unfold ev_key in E. cbn [fst] in E. destruct He as [Hk' Hgv]. cbn [fst snd] in *.
    assert (o' = o) as -> by (symmetry; eapply known_same; eauto).
    destruct gv as [| |s'].
    + unfold Spell.is_flag in Hgv. apply andb_prop in Hgv as [_ Hgv]. rewrite Hm in Hgv. discriminate.
    + unfold is_bare in Hgv. apply andb_prop in Hgv as [Hgv _]. apply andb_prop in Hgv as [_ Hgv]. rewrite Hm in Hgv. discriminate.
    + apply (IH _ (l ++ [s'])); [exact Hr| |apply in_or_app; now left].
      unfold raw_event. cbn [fst snd]. rewrite Hm, Hg. unfold sget, sset. rewrite sget_sset, str_eqb_refl. reflexivity.
  - apply (IH _ l); [exact Hr| |exact Hin]. rewrite raw_event_other; [exact Hg|].
    destruct (str_eqb_spec (o_long o) (ev_key e)); [contradiction|reflexivity].
Qed.
Lemma raw_bad_entry f es1 o s es2 R0 :
  Forall (ev_form f) (es1 ++ (o, GText s) :: es2) ->
  (o_multi o = true \/ mentions (o_long o) es2 = false) ->
  exists v, In (o_long o, v) (fold_left raw_event (es1 ++ (o, GText s) :: es2) R0) /\
            if o_multi o then exists l, v = OList l /\ In s l else v = OStr s.
Proof.
  intros Hall Hlast. apply Forall_app in Hall as [_ Hall]. inversion Hall as [|? ? [Hk Ha] Hes2]; subst. cbn [fst snd] in *.
  rewrite fold_left_app. cbn [fold_left]. set (R1 := fold_left raw_event es1 R0).
  destruct (o_multi o) eqn:Hm.
  - assert (exists l, sget (o_long o) (raw_event R1 (o, GText s)) = Some (OList l) /\ In s l) as (l & Hg & Hin).
    { unfold raw_event. cbn [fst snd]. rewrite Hm. eexists. split; [unfold sget, sset; rewrite sget_sset, str_eqb_refl; reflexivity|].
      apply in_or_app. right. now left. }
    destruct (raw_multi_keeps f o s Hk Hm es2 _ l Hes2 Hg Hin) as (l' & Hg' & Hin').
    exists (OList l'). split; [apply sget_in in Hg'; exact Hg'|eauto].
  - destruct Hlast as [Hc|Hlast]; [discriminate|].
    exists (OStr s). split; [|reflexivity].
    assert (sget (o_long o) (fold_left raw_event es2 (raw_event R1 (o, GText s))) = Some (OStr s)) as Hg.
    { rewrite raw_others by exact Hlast. unfold raw_event. cbn [fst snd]. rewrite Hm. unfold sget, sset.
      rewrite sget_sset, str_eqb_refl. reflexivity. }
    apply sget_in in Hg. exact Hg.
Qed.

(* ---------- a line whose forms are right, whose values fit in number and reach every required argument:
   all that is left to the parser, in both modes, is the conversion of the stored texts ---------- *)
Lemma parse_form_line f d : fmt_ok f = true -> forms_ok f d = true ->
  shape (get_arguments_all f) (values d) = true -> req_ok (get_arguments_all f) (values d) = true ->
  forall len, parse f len (render d) =
    do a1 <- set_arguments f {| ar_opts := []; ar_args := [] |} (place (get_arguments_all f) (values d));
    set_options f a1 (fold_left raw_event (events d) []).
Proof.
  intros Hf Hwf Hsh Hreq len. destruct (fmt_ok_inv f Hf) as (g & A & cns & FF).
  unfold forms_ok in Hwf. rewrite (ff_aug _ _ _ _ FF) in Hwf.
  apply andb_prop in Hwf as [Hwf Hclash]. apply andb_prop in Hwf as [Hn Hit].
  pose proof (shape_line_sh f g A cns FF _ _ Hn Hsh) as HshA.
  pose proof (scans_rendered_line f g A cns d FF Hn Hit HshA) as Hscan.
  destruct (finish_shape f g A cns FF (ld_names d) (values d) Hn Hsh Hclash Hreq false (fold_left raw_event (events d) []))
    as (st2 & Hins & Hopts & Hmiss & Hfil).
  fold (line_state A d) in Hins.
  assert (parse f len (render d) = parse f false (render d)) as ->.
  { destruct len; [|reflexivity]. exact (modes_agree_after_scan f g A cns _ _ _ (ff_aug _ _ _ _ FF) Hscan Hins Hmiss). }
  rewrite (parse_after_scan f g A cns _ _ (ff_aug _ _ _ _ FF) Hscan), Hins, Hmiss, set_arguments_filter, Hfil, Hopts.
  reflexivity.
Qed.

(* GENERAL FORM: some positional text does not convert, or the option scratch map holds a text that does not *)
Theorem unconvertible_value_lemma f d : fmt_ok f = true -> forms_ok f d = true ->
  shape (get_arguments_all f) (values d) = true -> req_ok (get_arguments_all f) (values d) = true ->
  (fits (get_arguments_all f) (values d) = false \/
   exists n v, In (n, v) (fold_left raw_event (events d) []) /\ bad_opt f n v) ->
  forall len, parse f len (render d) = Err ValueError.
Proof.
  intros Hf Hwf Hsh Hreq Hbad len. rewrite (parse_form_line f d Hf Hwf Hsh Hreq).
  destruct (fmt_ok_inv f Hf) as (g & A & cns & FF).
  destruct (set_arguments f _ (place (get_arguments_all f) (values d))) as [a1|k] eqn:Ea; cbn [bind].
  - destruct Hbad as [Hfit|(n & v & Hin & Hb)].
    + destruct (unfit_bad_arg f (real_nodup f g A cns FF) _ _ (incl_refl _) Hsh Hfit) as (n & v & Hin & Hb).
      destruct (set_arguments_bad f n v Hb _ {| ar_opts := []; ar_args := [] |} Hin) as [k Hk]. congruence.
    + destruct (set_options_bad f n v Hb _ a1 Hin) as [k Hk]. rewrite Hk. f_equal.
      eapply set_options_err_def; [|exact Hk].
      unfold forms_ok in Hwf. rewrite (ff_aug _ _ _ _ FF) in Hwf.
      apply andb_prop in Hwf as [Hwf _]. apply andb_prop in Hwf as [_ Hit].
      apply (raw_events_defaults f (events d)); [exact (items_events_form f g _ Hit)|]. intros ? ? [].
  - f_equal. eapply set_arguments_err; eauto.
Qed.

(* ONE positional text does not convert (any number of them, in fact) *)
Theorem unconvertible_positional_rejected_lemma f d : fmt_ok f = true -> forms_ok f d = true ->
  shape (get_arguments_all f) (values d) = true -> req_ok (get_arguments_all f) (values d) = true ->
  fits (get_arguments_all f) (values d) = false ->
  forall len, parse f len (render d) = Err ValueError.
Proof. intros Hf Hwf Hsh Hreq Hfit. apply unconvertible_value_lemma; auto. Qed.

(* ONE occurrence of an option carries a text that does not convert; the option is multi-valued, or the line
   does not mention it again (a single-valued option keeps what its last mention gives) *)
Theorem unconvertible_option_value_rejected_lemma f d o s es1 es2 : fmt_ok f = true -> forms_ok f d = true ->
  shape (get_arguments_all f) (values d) = true -> req_ok (get_arguments_all f) (values d) = true ->
  events d = es1 ++ (o, GText s) :: es2 ->
  res_ok (parse_typed (o_type o) (o_nullable o) (VStr s)) = false ->
  (o_multi o = true \/ mentions (o_long o) es2 = false) ->
  forall len, parse f len (render d) = Err ValueError.
Proof.
  intros Hf Hwf Hsh Hreq Hev Hconv Hlast. apply unconvertible_value_lemma; auto. right.
  destruct (fmt_ok_inv f Hf) as (g & A & cns & FF).
  pose proof Hwf as Hwf'. unfold forms_ok in Hwf'. rewrite (ff_aug _ _ _ _ FF) in Hwf'.
  apply andb_prop in Hwf' as [Hwf' _]. apply andb_prop in Hwf' as [_ Hit].
  pose proof (items_events_form f g _ Hit) as Hall. fold (events d) in Hall. rewrite Hev in Hall |- *.
  destruct (raw_bad_entry f es1 o s es2 [] Hall Hlast) as (v & Hin & Hv).
  apply Forall_app in Hall as [_ Hall]. inversion Hall as [|? ? [[Hg Hh] Ha] _]; subst. cbn [fst snd] in *.
  apply res_ok_false in Hconv as [k Hk].
  exists (o_long o), v. split; [exact Hin|]. split; [exact Hh|]. exists o. split; [exact Hg|].
  destruct (o_multi o) eqn:Hm.
  - destruct Hv as (l & -> & Hl). split; [reflexivity|]. exists s, k. split; assumption.
  - subst v. split; [reflexivity|]. split; [exact Ha|]. exists k. exact Hk.
Qed.

(* the same, pointing at the ITEM that carries the text *)
Definition item_text (it : item) : option (opt * str) :=
  match it with
  | IVal o _ s => Some (o, s)
  | IGroup _ (Some (o, GGlued s)) | IGroup _ (Some (o, GSep s)) => Some (o, s)
  | _ => None
  end.
Lemma item_text_events it o s : item_text it = Some (o, s) -> exists pre, item_events it = pre ++ [(o, GText s)].
Proof.
  destruct it as [o' long|o' form s'|o' long|fl [[o' [s'|s'|]]|]|s']; cbn [item_text]; intros H; inversion H; subst.
  - exists []. reflexivity.
  - eexists. reflexivity.
  - eexists. reflexivity.
Qed.
Theorem unconvertible_option_item_rejected_lemma f d its1 it its2 o s : fmt_ok f = true -> forms_ok f d = true ->
  shape (get_arguments_all f) (values d) = true -> req_ok (get_arguments_all f) (values d) = true ->
  ld_items d = its1 ++ it :: its2 -> item_text it = Some (o, s) ->
  res_ok (parse_typed (o_type o) (o_nullable o) (VStr s)) = false ->
  (o_multi o = true \/ mentions (o_long o) (flat_map item_events its2) = false) ->
  forall len, parse f len (render d) = Err ValueError.
Proof.
  intros Hf Hwf Hsh Hreq Hits Htxt Hconv Hlast. destruct (item_text_events it o s Htxt) as [pre Hpre].
  apply (unconvertible_option_value_rejected_lemma f d o s (flat_map item_events its1 ++ pre) (flat_map item_events its2));
    auto.
  unfold events. rewrite Hits, flat_map_app. cbn [flat_map]. rewrite Hpre, <- !app_assoc. reflexivity.
Qed.

(* ---------- non-vacuity of clause 6 ---------- *)
Module ValueExamples.
  Import SpellExamples LineExamples.
  (* the well-formed line  srv add h1 --num=5 8080  for  server add <host> [<port:int>] [<files>...], and its mutations *)
  Definition W2 := L [s "srv"; s "add"] [IPos (s "h1"); IVal o_num LongEq (s "5"); IPos (s "8080")] None.
  Example W2_wf : wf_line F1 W2 = true. Proof. vm_compute. reflexivity. Qed.
  (* the port is not a number *)
  Definition U1 := L [s "srv"; s "add"] [IPos (s "h1"); IVal o_num LongEq (s "5"); IPos (s "http")] None.
  Example U1_rejected : render U1 = [s "srv"; s "add"; s "h1"; s "--num=5"; s "http"] /\
                        forall len, parse F1 len (render U1) = Err ValueError.
  Proof. split; [vm_compute; reflexivity|]. apply unconvertible_positional_rejected_lemma; vm_compute; reflexivity. Qed.
  (* ... after "--", command names omitted; "-" is not a number either *)
  Definition U2 := L [] [IPos (s "h1")] (Some [s "-"; s "f"]).
  Example U2_rejected : forall len, parse F1 len (render U2) = Err ValueError.
  Proof. apply unconvertible_positional_rejected_lemma; vm_compute; reflexivity. Qed.
  (* the text of --num is not a number: the only mention of the option *)
  Definition U3 := L [s "srv"; s "add"] [IPos (s "h1"); IVal o_num LongEq (s "five"); IPos (s "8080")] None.
  Example U3_rejected : forall len, parse F1 len (render U3) = Err ValueError.
  Proof.
    apply (unconvertible_option_item_rejected_lemma F1 U3 [IPos (s "h1")] (IVal o_num LongEq (s "five")) [IPos (s "8080")] o_num (s "five"));
      try (vm_compute; reflexivity). right. vm_compute. reflexivity.
  Qed.
  (* ... the LAST of two mentions, written in a group of short options with a separate value *)
  Definition U4 := L [s "srv"] [IVal o_num ShortGlued (s "5"); IPos (s "h1"); IGroup [o_verbose; o_quiet] (Some (o_num, GSep (s "1.5")))] (Some []).
  Example U4_rejected : render U4 = [s "srv"; s "-n5"; s "h1"; s "-vqn"; s "1.5"; s "--"] /\
                        forall len, parse F1 len (render U4) = Err ValueError.
  Proof.
    split; [vm_compute; reflexivity|].
    apply (unconvertible_option_item_rejected_lemma F1 U4 [IVal o_num ShortGlued (s "5"); IPos (s "h1")]
             (IGroup [o_verbose; o_quiet] (Some (o_num, GSep (s "1.5")))) [] o_num (s "1.5"));
      try (vm_compute; reflexivity). right. vm_compute. reflexivity.
  Qed.
  (* why "last": a single-valued option keeps what its last mention gives; an earlier text is never converted *)
  Definition U5 := L [s "srv"] [IVal o_num LongEq (s "five"); IPos (s "h1"); IVal o_num ShortSep (s "5")] None.
  Example overwritten_bad_text_accepted : forms_ok F1 U5 = true /\ wf_line F1 U5 = false /\
    render U5 = [s "srv"; s "--num=five"; s "h1"; s "-n"; s "5"] /\
    forall len, parse F1 len (render U5) = Ok {| ar_opts := [(s "num", VInt 5)]; ar_args := [(s "host", VStr (s "h1"))] |}.
  Proof. split; [|split; [|split; [|intros []]]]; vm_compute; reflexivity. Qed.
  (* ... an omitted optional value as the last mention hides an earlier bad text as well *)
  Definition U6 := L [] [IVal o_level LongEq (s "x"); IPos (s "h1"); IBare o_level true] None.
  Example overwritten_by_default_accepted : forms_ok F1 U6 = true /\
    forall len, parse F1 len (render U6) = Ok {| ar_opts := [(s "level", VInt 3)]; ar_args := [(s "host", VStr (s "h1"))] |}.
  Proof. split; [|intros []]; vm_compute; reflexivity. Qed.
  (* a multi-valued option converts every text it collected: the bad one need not be the last *)
  Definition o_ids := {| o_long := s "ids"; o_short := Some (s "i"); o_flags := 554; o_default := VList [] |}.  (* REQUIRED_VALUE | MULTI_VALUED | INTEGER *)
  Definition F7 := mk [EArg a_host; EOpt o_verbose; EOpt o_ids; EOpt o_num] None.
  Definition U7 := L [] [IVal o_ids LongEq (s "1"); IPos (s "h"); IVal o_ids ShortSep (s "x"); IVal o_ids ShortGlued (s "3")] None.
  Example U7_rejected : fmt_ok F7 = true /\ o_multi o_ids = true /\ forall len, parse F7 len (render U7) = Err ValueError.
  Proof.
    split; [vm_compute; reflexivity|]. split; [vm_compute; reflexivity|].
    apply (unconvertible_option_item_rejected_lemma F7 U7 [IVal o_ids LongEq (s "1"); IPos (s "h")] (IVal o_ids ShortSep (s "x"))
             [IVal o_ids ShortGlued (s "3")] o_ids (s "x")); try (vm_compute; reflexivity). left. vm_compute. reflexivity.
  Qed.
  (* the events form of the statement on the same line *)
  Example U7_rejected_events : forall len, parse F7 len (render U7) = Err ValueError.
  Proof.
    apply (unconvertible_option_value_rejected_lemma F7 U7 o_ids (s "x") [(o_ids, GText (s "1"))] [(o_ids, GText (s "3"))]);
      try (vm_compute; reflexivity). left. vm_compute. reflexivity.
  Qed.
End ValueExamples.

(* ================= 5. THE BRIDGE, prefixes: the strict loop processes the rendering of any item prefix of a line
   whose forms are right and whose values fit in number - scans, the hypothesis of the prefix theorems of
   ClassifyLemmas (clauses 1-3) ================= *)
Definition prefix_line (d : ld) (k : nat) : ld :=
  {| ld_names := ld_names d; ld_items := firstn k (ld_items d); ld_tail := None |}.
(* the tokens of the command names and of the first k items / of the remaining items and the "--" tail *)
Definition prefix_toks (d : ld) (k : nat) : list str := render (prefix_line d k).
Definition suffix_toks (d : ld) (k : nat) : list str :=
  flat_map render_item (skipn k (ld_items d)) ++ render_tail (ld_tail d).
(* the line with one more token at the k-th item boundary *)
Definition insert_tok (d : ld) (k : nat) (tok : str) : list str := prefix_toks d k ++ tok :: suffix_toks d k.

Lemma render_split d k : render d = prefix_toks d k ++ suffix_toks d k.
Proof.
  unfold prefix_toks, suffix_toks, render, prefix_line. cbn [ld_names ld_items ld_tail render_tail].
  rewrite app_nil_r, <- !app_assoc. f_equal. rewrite app_assoc, <- flat_map_app, firstn_skipn. reflexivity.
Qed.

Lemma items_form_firstn f g : forall l k, items_form f g l = true -> items_form f g (firstn k l) = true.
Proof.
  induction l as [|it r IH]; intros k H; [destruct k; reflexivity|]. destruct k as [|k]; [reflexivity|].
  cbn [firstn items_form] in *. apply andb_prop in H as [H Hr]. apply andb_prop in H as [Hi Hla].
  rewrite Hi, (IH k Hr). cbn [andb]. rewrite andb_true_r.
  destruct (looks_ahead it); [|reflexivity]. destruct r as [|it2 r']; [destruct k; reflexivity|].
  destruct k; [reflexivity|]. exact Hla.
Qed.

Lemma scans_rendered_prefix_gen f g A cns d k :
  fmt_facts f g A cns -> Spell.names_ok cns (ld_names d) = true -> items_form f g (ld_items d) = true ->
  shape A (ld_names d ++ values d) = true ->
  scans g (prefix_toks d k) (line_state A (prefix_line d k)).
Proof.
  intros FF Hn Hit Hsh. apply (scans_rendered_line f g A cns (prefix_line d k) FF); cbn [prefix_line ld_names ld_items];
    [exact Hn|apply items_form_firstn; exact Hit|].
  unfold values in *. cbn [ld_items ld_tail]. rewrite app_nil_r.
  rewrite <- (firstn_skipn k (ld_items d)), flat_map_app, <- app_assoc, app_assoc in Hsh.
  eapply shape_app_l. exact Hsh.
Qed.

(* none of those tokens is the "--" separator *)
Lemma starts_dd_is_dd tok : starts_dd tok = false -> is_dd tok = false.
Proof. unfold is_dd. destruct (str_eqb_spec tok [DASH; DASH]) as [->|]; [discriminate|reflexivity]. Qed.
Lemma plain_no_dd s : plain_tok s = true -> is_dd s = false.
Proof.
  unfold plain_tok. intros H. apply andb_prop in H as [_ H]. apply negb_true_iff in H.
  unfold is_dd. destruct (str_eqb_spec s [DASH; DASH]) as [->|]; [discriminate|reflexivity].
Qed.
Lemma pos_no_dd s : pos_tok s = true -> is_dd s = false.
Proof.
  unfold pos_tok, is_dd. destruct (str_eqb_spec s [DASH; DASH]) as [->|]; [discriminate|reflexivity].
Qed.
Lemma long_no_dd o x : nonempty (o_long o) = true -> is_dd (long_tok o ++ x) = false.
Proof. intros H. now destruct (long_tok_class o x H) as (_ & H2 & _). Qed.
Lemma short_no_dd g o x : Spell.short_ok g o = true -> is_dd (short_tok o ++ x) = false.
Proof.
  intros H. apply short_ok_inv in H as [c Hs]. unfold short_tok. rewrite (short_char_known g o c Hs). cbn [app].
  pose proof Hs as (_ & Hd & _ & _). destruct (short_tok_class c x Hd) as (_ & T2 & _). apply starts_dd_is_dd, T2.
Qed.
Lemma render_item_no_dd f g it : item_form f g it = true -> existsb is_dd (render_item it) = false.
Proof.
  destruct it as [o long|o form s|o long|fl last|s]; cbn [item_form]; intros H.
  - apply andb_prop in H as [H Hform]. apply andb_prop in H as [Hok _]. apply opt_ok_inv in Hok as (_ & _ & Hne & _).
    destruct long; cbn [render_item existsb]; rewrite orb_false_r.
    + rewrite <- (app_nil_r (long_tok o)). now apply long_no_dd.
    + cbn [orb] in Hform. rewrite <- (app_nil_r (short_tok o)). eapply short_no_dd; eauto.
  - apply andb_prop in H as [H Hform]. apply andb_prop in H as [Hok _]. apply opt_ok_inv in Hok as (_ & _ & Hne & _).
    destruct form; cbn [render_item existsb]; rewrite ?orb_false_r.
    + now apply long_no_dd.
    + rewrite <- (app_nil_r (long_tok o)), (long_no_dd o [] Hne), (plain_no_dd s Hform). reflexivity.
    + apply andb_prop in Hform as [Hso _]. eapply short_no_dd; eauto.
    + apply andb_prop in Hform as [Hso Hp]. rewrite <- (app_nil_r (short_tok o)), (short_no_dd g o [] Hso), (plain_no_dd s Hp). reflexivity.
  - apply andb_prop in H as [H Hform]. apply andb_prop in H as [Hok _]. apply opt_ok_inv in Hok as (_ & _ & Hne & _).
    destruct long; cbn [render_item existsb]; rewrite orb_false_r.
    + rewrite <- (app_nil_r (long_tok o)). now apply long_no_dd.
    + cbn [orb] in Hform. rewrite <- (app_nil_r (short_tok o)). eapply short_no_dd; eauto.
  - apply andb_prop in H as [Hfl Hlast].
    assert (forall x, is_dd (group_tok fl ++ x) = false) as Hg.
    { intros x. destruct fl as [|o1 fl']; [destruct last; discriminate|]. cbn [forallb] in Hfl.
      apply andb_prop in Hfl as [H1 _]. apply andb_prop in H1 as [_ Hso].
      unfold group_tok. cbn [flat_map]. change (DASH :: short_char o1 ++ flat_map short_char fl') with (short_tok o1 ++ flat_map short_char fl').
      rewrite <- app_assoc. eapply short_no_dd; eauto. }
    destruct last as [[o [s|s|]]|]; cbn [render_item existsb]; rewrite ?orb_false_r.
    + apply Hg.
    + rewrite Hg. apply andb_prop in Hlast as [_ Hlast]. unfold last_form in Hlast. cbn [fst snd] in Hlast.
      apply andb_prop in Hlast as [_ Hgl]. apply andb_prop in Hgl as [Hp _]. rewrite (plain_no_dd s Hp). reflexivity.
    + apply Hg.
    + rewrite <- (app_nil_r (group_tok fl)). apply Hg.
  - cbn [render_item existsb]. rewrite orb_false_r. now apply pos_no_dd.
Qed.
Lemma render_items_no_dd f g : forall l, items_form f g l = true -> existsb is_dd (flat_map render_item l) = false.
Proof.
  induction l as [|it r IH]; cbn [items_form flat_map]; intros H; [reflexivity|].
  apply andb_prop in H as [H Hr]. apply andb_prop in H as [Hi _].
  rewrite existsb_app, (render_item_no_dd f g it Hi), (IH Hr). reflexivity.
Qed.
Lemma prefix_no_dd f g cns d k : Spell.names_ok cns (ld_names d) = true -> items_form f g (ld_items d) = true ->
  existsb is_dd (prefix_toks d k) = false.
Proof.
  intros Hn Hit. unfold prefix_toks, render, prefix_line. cbn [ld_names ld_items ld_tail render_tail].
  rewrite app_nil_r, existsb_app, (render_items_no_dd f g _ (items_form_firstn f g _ k Hit)), orb_false_r.
  apply names_ok_plain in Hn. induction Hn as [|s r Hs Hr IH]; [reflexivity|]. cbn [existsb]. rewrite (plain_no_dd s Hs). exact IH.
Qed.

(* for a WELL-FORMED line, as a statement about the parser's own format *)
Theorem scans_rendered_prefix_lemma f d k : fmt_ok f = true -> wf_line f d = true ->
  exists g A cns st, aug_format f = Ok (g, A, cns) /\ scans g (prefix_toks d k) st /\ existsb is_dd (prefix_toks d k) = false /\
                     st = line_state A (prefix_line d k).
Proof.
  intros Hf Hwf. destruct (fmt_ok_inv f Hf) as (g & A & cns & FF).
  destruct (wf_line_forms f d Hwf) as (Hfo & Hfit & _). unfold forms_ok in Hfo. rewrite (ff_aug _ _ _ _ FF) in Hfo.
  apply andb_prop in Hfo as [Hfo _]. apply andb_prop in Hfo as [Hn Hit].
  exists g, A, cns, (line_state A (prefix_line d k)). split; [exact (ff_aug _ _ _ _ FF)|]. split; [|split; [|reflexivity]].
  - apply (scans_rendered_prefix_gen f g A cns d k FF Hn Hit). apply (shape_line_sh f g A cns FF _ _ Hn), fits_shape, Hfit.
  - exact (prefix_no_dd f g cns d k Hn Hit).
Qed.

(* ================= 6. clauses 1-3 on line descriptions: ONE extra token at an item boundary of a well-formed line
   (before the "--" tail) ================= *)
Section Inserted.
  Variables (f : fmt) (d : ld) (k : nat).
  Hypothesis Hf : fmt_ok f = true.
  Hypothesis Hwf : wf_line f d = true.

  (* an unknown "--name" / "--name=value" / "-x" behind known flags *)
  Theorem unknown_option_in_line_rejected_lemma name :
    name <> [] -> ClassifyLemmas.no_eq name = true -> unknown_name f name = true ->
    parse f false (insert_tok d k (ClassifyLemmas.long_tok name)) = Err NoSuchOption.
  Proof.
    intros Hne Hq Hu. destruct (scans_rendered_prefix_lemma f d k Hf Hwf) as (g & A & cns & st & Ha & Hs & Hdd & _).
    exact (unknown_long_option_listed f g A cns _ st Ha Hs Hdd name _ Hne Hq Hu).
  Qed.
  Theorem unknown_option_with_value_in_line_rejected_lemma name value :
    ClassifyLemmas.no_eq name = true -> unknown_name f name = true ->
    parse f false (insert_tok d k (ClassifyLemmas.long_tok (name ++ EQ :: value))) = Err NoSuchOption.
  Proof.
    intros Hq Hu. destruct (scans_rendered_prefix_lemma f d k Hf Hwf) as (g & A & cns & st & Ha & Hs & Hdd & _).
    exact (unknown_long_option_eq_listed f g A cns _ st Ha Hs Hdd name value _ Hq Hu).
  Qed.
  Theorem unknown_short_option_in_line_rejected_lemma flags c more :
    starts_dash (flags ++ c :: more) = false -> forallb (ClassifyLemmas.is_flag f) flags = true -> unknown_name f [c] = true ->
    parse f false (insert_tok d k (ClassifyLemmas.short_tok (flags ++ c :: more))) = Err NoSuchOption.
  Proof.
    intros Hd Hfl Hu. destruct (scans_rendered_prefix_lemma f d k Hf Hwf) as (g & A & cns & st & Ha & Hs & Hdd & _).
    exact (unknown_short_option_listed f g A cns _ st Ha Hs Hdd flags c more _ Hd Hfl Hu).
  Qed.

  (* "--flag=value" for an option that takes no value *)
  Theorem flag_with_value_in_line_rejected_lemma o name value :
    listed f o -> opt_named o name = true -> ClassifyLemmas.no_eq name = true -> o_accepts o = false ->
    parse f false (insert_tok d k (ClassifyLemmas.long_tok (name ++ EQ :: value))) = Err CannotParse.
  Proof.
    intros Hl Hn Hq Hacc. destruct (scans_rendered_prefix_lemma f d k Hf Hwf) as (g & A & cns & st & Ha & Hs & Hdd & _).
    exact (flag_given_value_listed f g A cns _ st Ha Hs Hdd o name value _ Hl Hn Hq Hacc).
  Qed.

  (* "--opt" / "-o" (behind known flags) for an option whose value is required, where no value follows: the end of the
     line, the "--" separator, another option, an empty token or "-" *)
  Theorem value_missing_in_line_rejected_lemma o name :
    listed f o -> opt_named o name = true -> name <> [] -> ClassifyLemmas.no_eq name = true -> o_required o = true ->
    no_value_next (suffix_toks d k) = true ->
    parse f false (insert_tok d k (ClassifyLemmas.long_tok name)) = Err CannotParse.
  Proof.
    intros Hl Hn Hne Hq Hr Hnv. destruct (scans_rendered_prefix_lemma f d k Hf Hwf) as (g & A & cns & st & Ha & Hs & Hdd & _).
    exact (option_value_missing_listed f g A cns _ st Ha Hs Hdd o name _ Hl Hn Hne Hq Hr Hnv).
  Qed.
  Theorem value_empty_in_line_rejected_lemma o name :
    listed f o -> opt_named o name = true -> ClassifyLemmas.no_eq name = true -> o_required o = true ->
    parse f false (insert_tok d k (ClassifyLemmas.long_tok (name ++ [EQ]))) = Err CannotParse.
  Proof.
    intros Hl Hn Hq Hr. destruct (scans_rendered_prefix_lemma f d k Hf Hwf) as (g & A & cns & st & Ha & Hs & Hdd & _).
    exact (option_value_empty_listed f g A cns _ st Ha Hs Hdd o name _ Hl Hn Hq Hr).
  Qed.
  Theorem short_value_missing_in_line_rejected_lemma o flags c :
    listed f o -> o_short o = Some [c] -> o_required o = true ->
    starts_dash (flags ++ [c]) = false -> forallb (ClassifyLemmas.is_flag f) flags = true ->
    no_value_next (suffix_toks d k) = true ->
    parse f false (insert_tok d k (ClassifyLemmas.short_tok (flags ++ [c]))) = Err CannotParse.
  Proof.
    intros Hl Hsh Hr Hd Hfl Hnv. destruct (scans_rendered_prefix_lemma f d k Hf Hwf) as (g & A & cns & st & Ha & Hs & Hdd & _).
    exact (short_option_value_missing_listed f g A cns _ st Ha Hs Hdd o flags c _ Hl Hsh Hr Hd Hfl Hnv).
  Qed.
End Inserted.

(* ---------- non-vacuity of the bridge and of clauses 1-3 on a well-formed line: D1 of SpellExamples,
   srv add --verbose h1 --num=-5 -tx -vqt y 8080 -c --tag z --level -- -a "" b   (items 0..8, then the tail) ---------- *)
Module InsertExamples.
  Import SpellExamples LineExamples.
  Example D1_prefix_scans : exists g A cns st, aug_format F1 = Ok (g, A, cns) /\ scans g (prefix_toks D1 7) st /\
    existsb is_dd (prefix_toks D1 7) = false /\ st = line_state A (prefix_line D1 7).
  Proof. exact (scans_rendered_prefix_lemma F1 D1 7 F1_ok D1_wf). Qed.
  Example D1_prefix_tokens : prefix_toks D1 7 = [s "srv"; s "add"; s "--verbose"; s "h1"; s "--num=-5"; s "-tx"; s "-vqt"; s "y"; s "8080"; s "-c"] /\
                             suffix_toks D1 7 = [s "--tag"; s "z"; s "--level"; s "--"; s "-a"; s ""; s "b"].
  Proof. split; vm_compute; reflexivity. Qed.

  (* an unknown option right behind "-c", whose optional value is omitted *)
  Example unknown_long_inserted :
    insert_tok D1 7 (s "--nope") = [s "srv"; s "add"; s "--verbose"; s "h1"; s "--num=-5"; s "-tx"; s "-vqt"; s "y"; s "8080"; s "-c";
                                    s "--nope"; s "--tag"; s "z"; s "--level"; s "--"; s "-a"; s ""; s "b"] /\
    parse F1 false (insert_tok D1 7 (s "--nope")) = Err NoSuchOption.
  Proof.
    split; [vm_compute; reflexivity|].
    apply (unknown_option_in_line_rejected_lemma F1 D1 7 F1_ok D1_wf (s "nope")); [discriminate|vm_compute; reflexivity..].
  Qed.
  Example unknown_long_with_value_inserted : parse F1 false (insert_tok D1 0 (s "--nope=1")) = Err NoSuchOption.
  Proof. apply (unknown_option_with_value_in_line_rejected_lemma F1 D1 0 F1_ok D1_wf (s "nope") (s "1")); vm_compute; reflexivity. Qed.
  (* "-vz": z behind the known flag v, in front of the group -vqt *)
  Example unknown_short_inserted : parse F1 false (insert_tok D1 4 (s "-vz")) = Err NoSuchOption.
  Proof. apply (unknown_short_option_in_line_rejected_lemma F1 D1 4 F1_ok D1_wf (s "v") 122%N []); vm_compute; reflexivity. Qed.
  (* a value for the flag --quiet, at the very beginning of the items *)
  Example flag_with_value_inserted : parse F1 false (insert_tok D1 0 (s "--quiet=1")) = Err CannotParse.
  Proof.
    apply (flag_with_value_in_line_rejected_lemma F1 D1 0 F1_ok D1_wf o_quiet (s "quiet") (s "1"));
      [vm_compute; tauto|vm_compute; reflexivity..].
  Qed.
  (* "--num" without value: at the end of the items (the "--" separator follows), and in front of another option *)
  Example value_missing_inserted_at_end : suffix_toks D1 9 = [s "--"; s "-a"; s ""; s "b"] /\
    parse F1 false (insert_tok D1 9 (s "--num")) = Err CannotParse.
  Proof.
    split; [vm_compute; reflexivity|].
    apply (value_missing_in_line_rejected_lemma F1 D1 9 F1_ok D1_wf o_num (s "num"));
      [vm_compute; tauto|vm_compute; reflexivity|discriminate|vm_compute; reflexivity..].
  Qed.
  Example value_missing_inserted_before_option : parse F1 false (insert_tok D1 2 (s "--num")) = Err CannotParse.
  Proof.
    apply (value_missing_in_line_rejected_lemma F1 D1 2 F1_ok D1_wf o_num (s "num"));
      [vm_compute; tauto|vm_compute; reflexivity|discriminate|vm_compute; reflexivity..].
  Qed.
  (* ... at the very end of a line without "--" tail *)
  Example value_missing_inserted_last : insert_tok D2 5 (s "--tag") = render D2 ++ [s "--tag"] /\
    parse F1 false (insert_tok D2 5 (s "--tag")) = Err CannotParse.
  Proof.
    split; [vm_compute; reflexivity|].
    apply (value_missing_in_line_rejected_lemma F1 D2 5 F1_ok (proj1 D2_parses) o_tag (s "tag"));
      [vm_compute; tauto|vm_compute; reflexivity|discriminate|vm_compute; reflexivity..].
  Qed.
  Example value_empty_inserted : parse F1 false (insert_tok D1 5 (s "--num=")) = Err CannotParse.
  Proof.
    apply (value_empty_in_line_rejected_lemma F1 D1 5 F1_ok D1_wf o_num (s "num")); [vm_compute; tauto|vm_compute; reflexivity..].
  Qed.
  Example short_value_missing_inserted : parse F1 false (insert_tok D1 9 (s "-vqn")) = Err CannotParse.
  Proof.
    apply (short_value_missing_in_line_rejected_lemma F1 D1 9 F1_ok D1_wf o_num (s "vq") 110%N);
      [vm_compute; tauto|vm_compute; reflexivity..].
  Qed.
  (* what no_value_next excludes: "--num" in front of the positional 8080 takes it as its value; what remains is another
     line, judged on its own - here "-a" moves to the port: ValueError, not the CannotParse of this clause *)
  Example value_found_instead : no_value_next (suffix_toks D1 5) = false /\
    parse F1 false (insert_tok D1 5 (s "--num")) = Err ValueError.
  Proof. split; vm_compute; reflexivity. Qed.
End InsertExamples.

(* ================= 7. wf_line, conjunct by conjunct =================
   wf_line = forms_ok (written forms) && texts_convert (every option text converts) && fits (the values fit in number
   - shape - and convert) && req_ok.  Clause 5 breaks shape, clause 4 req_ok, clause 6 the conversions in fits or
   texts_convert; forms_ok is kept throughout. *)
From Coq Require Import Btauto.
Definition ev_conv (e : opt * given) : bool :=
  match snd e with
  | GText s => res_ok (parse_typed (o_type (fst e)) (o_nullable (fst e)) (VStr s))
  | _ => true
  end.
Definition texts_convert (d : ld) : bool := forallb ev_conv (events d).

Lemma flags_conv fl : forallb ev_conv (map (fun o => (o, GTrue)) fl) = true.
Proof. induction fl as [|o r IH]; [reflexivity|exact IH]. Qed.
Lemma item_ok_split f g it : item_ok f g it = item_form f g it && forallb ev_conv (item_events it).
Proof.
  destruct it as [o long|o form s|o long|fl [[o gl]|]|s]; cbn [item_ok item_form item_events].
  - cbn. btauto.
  - unfold text_ok. cbn [forallb ev_conv fst snd]. destruct form; btauto.
  - cbn. btauto.
  - rewrite forallb_app, flags_conv. unfold last_ok, last_form, last_event, text_ok. cbn [fst snd].
    destruct gl; cbn [forallb ev_conv fst snd]; btauto.
  - rewrite app_nil_r, flags_conv. btauto.
  - cbn. btauto.
Qed.
Lemma items_ok_split f g : forall l, items_ok f g l = items_form f g l && forallb ev_conv (flat_map item_events l).
Proof.
  induction l as [|it r IH]; [reflexivity|]. cbn [items_ok items_form flat_map]. rewrite forallb_app, IH, item_ok_split. btauto.
Qed.
Theorem wf_line_conjuncts f d :
  wf_line f d = forms_ok f d && texts_convert d &&
                fits (get_arguments_all f) (values d) && req_ok (get_arguments_all f) (values d).
Proof.
  unfold wf_line, forms_ok, texts_convert, events. destruct (aug_format f) as [[[g A] cns]|]; [|reflexivity].
  rewrite items_ok_split. btauto.
Qed.
