(* C09: the help switch ANYWHERE among the tokens of the line before "--" (not only directly behind a path of plain
   tokens): further global switches, the command's own options with their values, the command's arguments.

   What the code does (DefaultApplicationConfig.resolve_help_command, PRE_RESOLVE): it looks for "-h" / "--help" among the
   RAW option tokens; when one is there it parses the whole line LENIENTLY with the format of the built-in command "help"
   and makes that command the resolved one.  The help command's format knows the global options only, and its single
   argument "command" is multi-valued: the leading plain tokens of the line land on the pseudo-argument of the command
   name "help" and on "command", every later positional is appended to "command", and the lenient parse STOPS at the
   first token it cannot handle (an option of the user's command).  Whatever stands behind the leading tokens, "command"
   is set as soon as the line starts with one plain token that is not the word "help" - so HelpTextHandler shows the
   page of the command HelpResolver resolves the line to (Model/Switches.v help_target), unless the version switch was
   given as well (PRE_HANDLE listener: name and version instead) or the help command's own parse raised a value error.

   No hypothesis on what stands behind the leading tokens: the proof follows the token loop over ARBITRARY tokens with
   the invariant "the argument scratch map is the placement of the positionals read so far" (SpellArgs.place), which
   the option branches leave alone and every positional extends, because a format ending in a multi-valued argument
   absorbs any number of values. *)
From Coq Require Import Lia.
From Clikit Require Import Base.Prelude Base.Res Model.Conv Model.Flags Model.Format Model.Parser Model.Spell
     Model.Resolver Model.Tokenizer Model.Switches
     Proofs.StrLemmas Proofs.FormatLemmas Proofs.ParserLemmas Proofs.SpellOpts Proofs.SpellArgs Proofs.FmtOkLemmas
     Proofs.ResolverLemmas Proofs.SwitchesLemmas Proofs.HelpTargetLemmas Proofs.HelpSamePageLemmas Proofs.HelpRunLemmas Proofs.SwitchesHelpLemmas.

(* ================= the option branches of the token loop leave the argument scratch map alone ================= *)
Lemma add_long_args f st n v t st' t' : add_long_option f st n v t = Ok (st', t') -> ps_args st' = ps_args st.
Proof.
  unfold add_long_option. destruct (negb (has_option f n true)); [discriminate|].
  destruct (get_option f n true) as [o|k]; cbn [bind]; [|discriminate].
  destruct (match v with Some _ => negb (o_accepts o) | None => false end); [discriminate|].
  match goal with |- (let '(value, tokens) := ?X in _) = _ -> _ => destruct X as [v1 t1] end.
  destruct (match v1 with Some [] => None | x => x end) as [s|].
  - destruct (o_multi o); intros H; inversion H; reflexivity.
  - destruct (o_required o); [discriminate|]. destruct (o_multi o); [discriminate|]. intros H; inversion H; reflexivity.
Qed.
Lemma add_short_args f st n v t st' t' : add_short_option f st n v t = Ok (st', t') -> ps_args st' = ps_args st.
Proof.
  unfold add_short_option. destruct (negb (has_option f n true)); [discriminate|].
  destruct (get_option f n true) as [o|k]; cbn [bind]; [|discriminate]. apply add_long_args.
Qed.
Lemma parse_long_args f st tok t st' t' : parse_long_option f st tok t = Ok (st', t') -> ps_args st' = ps_args st.
Proof.
  unfold parse_long_option. destruct (split_eq (skipn 2 tok) []) as [[n v]|]; [apply add_long_args|].
  destruct (accepts f (skipn 2 tok)); [|apply add_long_args].
  destruct (take_value t) as [v t1]. apply add_long_args.
Qed.
Lemma short_set_args f : forall name st t,
  ps_args (snd (short_set f st name t)) = ps_args st /\
  forall st' t', fst (short_set f st name t) = Ok (st', t') -> ps_args st' = ps_args st.
Proof.
  induction name as [|c rest IH]; intros st t; cbn [short_set fst snd].
  - split; [reflexivity|]. intros st' t' H. inversion H. reflexivity.
  - destruct (negb (has_option f [c] true)); cbn [fst snd]; [split; [reflexivity|discriminate]|].
    destruct (get_option f [c] true) as [o|k]; cbn [fst snd]; [|split; [reflexivity|discriminate]].
    destruct (o_accepts o).
    + destruct (add_long_option f st (o_long o) _ t) as [[st1 t1]|k] eqn:E; cbn [fst snd]; [|split; [reflexivity|discriminate]].
      apply add_long_args in E. split; [exact E|]. intros st' t' H. inversion H; subst. exact E.
    + destruct (add_long_option f st (o_long o) None t) as [[st1 t1]|k] eqn:E; cbn [fst snd]; [|split; [reflexivity|discriminate]].
      apply add_long_args in E. destruct (IH st1 t1) as [I1 I2]. split; [congruence|].
      intros st' t' H. rewrite (I2 _ _ H). exact E.
Qed.
Lemma parse_short_args f st tok t :
  ps_args (snd (parse_short_option f st tok t)) = ps_args st /\
  forall st' t', fst (parse_short_option f st tok t) = Ok (st', t') -> ps_args st' = ps_args st.
Proof.
  unfold parse_short_option. destruct (skipn 1 tok) as [|c [|c2 rest]].
  - cbn [fst snd]. split; [reflexivity|discriminate].
  - destruct (accepts f [c]).
    + destruct (take_value t) as [v t1].
      destruct (add_short_option f st [c] v t1) as [[st1 t2]|k] eqn:E; cbn [fst snd]; [|split; [reflexivity|discriminate]].
      apply add_short_args in E. split; [exact E|]. intros st' t' H. inversion H; subst. exact E.
    + destruct (add_short_option f st [c] None t) as [[st1 t2]|k] eqn:E; cbn [fst snd]; [|split; [reflexivity|discriminate]].
      apply add_short_args in E. split; [exact E|]. intros st' t' H. inversion H; subst. exact E.
  - destruct (accepts f [c]).
    + destruct (add_short_option f st [c] (Some (c2 :: rest)) t) as [[st1 t2]|k] eqn:E; cbn [fst snd]; [|split; [reflexivity|discriminate]].
      apply add_short_args in E. split; [exact E|]. intros st' t' H. inversion H; subst. exact E.
    + apply short_set_args.
Qed.

(* ================= a format whose arguments absorb every sequence of values ================= *)
Section Absorb.
  Variables (g : fmt) (A : list (str * arg)).
  Hypothesis HA : get_arguments_all g = A.
  Hypothesis Hnm : Forall (fun na => fst na = a_name (snd na)) A.
  Hypothesis Hnd : NoDup (map fst A).
  Hypothesis Habs : forall P, shape A P = true.

  Lemma absorb_argument len st tok Pdone : ps_args st = place A Pdone ->
    parse_argument g len st tok = Ok {| ps_args := place A (Pdone ++ [tok]); ps_opts := ps_opts st |}.
  Proof.
    intros Hst. destruct st as [pa po]. cbn [ps_args ps_opts] in *. subst pa.
    pose proof (parg_place g len po tok A [] [] Pdone HA Hnm Hnd eq_refl (Habs _)) as H. cbn [app] in H. exact H.
  Qed.

  (* the token loop over ARBITRARY tokens: whatever the options do (stored, refused, unknown - the loop may stop at
     any of them), the argument scratch map stays the placement of the positionals read so far *)
  Lemma loop_absorbs len : forall fuel toks p st Pdone, ps_args st = place A Pdone ->
    exists more, ps_args (fst (loop fuel g len p st toks)) = place A (Pdone ++ more).
  Proof.
    induction fuel as [|fuel IH]; intros toks p st Pdone Hst; cbn [loop].
    - exists []. now rewrite app_nil_r.
    - destruct toks as [|tok rest]; [exists []; now rewrite app_nil_r|].
      assert (exists more, ps_args (fst (match parse_argument g len st tok with
                                          | Ok st' => loop fuel g len p st' rest | Err k => (st, Some k) end))
                           = place A (Pdone ++ more)) as Harg.
      { rewrite (absorb_argument len st tok Pdone Hst).
        destruct (IH rest p {| ps_args := place A (Pdone ++ [tok]); ps_opts := ps_opts st |} (Pdone ++ [tok]) eq_refl) as [more Hm].
        exists (tok :: more). rewrite Hm, <- app_assoc. reflexivity. }
      destruct (p && negb (nonempty tok)); [exact Harg|].
      destruct (p && is_dd tok); [apply IH; exact Hst|].
      destruct (p && starts_dd tok).
      { destruct (parse_long_option g st tok rest) as [[st' rest']|k] eqn:E.
        - apply IH. rewrite (parse_long_args _ _ _ _ _ _ E). exact Hst.
        - exists []. now rewrite app_nil_r. }
      destruct (p && starts_dash tok && negb (str_eqb tok [DASH])); [|exact Harg].
      destruct (parse_short_args g st tok rest) as [S1 S2].
      destruct (parse_short_option g st tok rest) as [[[st' rest']|k] st2]; cbn [fst snd] in *.
      + apply IH. rewrite (S2 _ _ eq_refl). exact Hst.
      + exists []. rewrite app_nil_r, S1. exact Hst.
  Qed.
End Absorb.

Lemma set_option_args f a n v a' : set_option f a n v = Ok a' -> ar_args a' = ar_args a.
Proof.
  unfold set_option. destruct (get_option f n true) as [o|k]; cbn [bind]; [|discriminate].
  match goal with |- (do pv <- ?X; _) = _ -> _ => destruct X as [pv|k]; cbn [bind]; [|discriminate] end.
  intros H. inversion H. reflexivity.
Qed.
Lemma set_options_args f : forall l a a', set_options f a l = Ok a' -> ar_args a' = ar_args a.
Proof.
  induction l as [|[n v] r IH]; intros a a'; cbn [set_options]; [intros H; inversion H; reflexivity|].
  destruct (has_option f n true); [|apply IH].
  destruct (set_option f a n v) as [a1|k] eqn:E; cbn [bind]; [|discriminate].
  intros H. rewrite (IH _ _ H). eapply set_option_args; eauto.
Qed.

(* ================= the help command's lenient parse of ANY line that starts with a plain token ================= *)
Section HelpParseAny.
  Variables (f : fmt) (a : arg).
  Hypothesis Hinv : fmt_inv f.
  Hypothesis Hargs : get_arguments_all f = [(a_name a, a)].
  Hypothesis Hcns : get_command_names_all f = [help_cname].
  Hypothesis Hmulti : a_multi a = true.
  Hypothesis Htype : a_type a = TStr.

  Lemma fits_some t V : fits (get_arguments_all f) (t :: V) = true /\ req_ok (get_arguments_all f) (t :: V) = true.
  Proof.
    rewrite Hargs. cbn [fits req_ok]. rewrite Hmulti, Htype. split; [|reflexivity].
    cbn [andb]. apply forallb_forall. intros s _. apply string_text_ok.
  Qed.

  (* every line t1 :: r whose first token is plain and is not the word "help": when the lenient parse succeeds,
     the argument "command" is set (to all the positionals the loop read, t1 first) *)
  Lemma help_parse_sets_command t1 r x : lead_ok t1 = true -> str_eqb t1 S_help = false ->
    parse f true (t1 :: r) = Ok x -> shas (a_name a) (ar_args x) = true.
  Proof.
    intros Hl Hh. pose proof (wf_implies_fmt_ok_lemma f Hinv) as Hok. apply fmt_ok_inv in Hok as (g & A & cns & FF).
    destruct (aug_shape f Hinv Hcns) as (g' & A' & n & E'). rewrite (ff_aug _ _ _ _ FF) in E'. inversion E'; subst g' A' cns. clear E'.
    assert (forall P, shape A P = true) as Habs.
    { intros P. apply (shape_line f g A [(n, help_cname)] FF [] P eq_refl).
      destruct P as [|p P']; [rewrite Hargs; reflexivity|apply (fits_some p P')]. }
    unfold parse, parse_on. rewrite (ff_aug _ _ _ _ FF).
    (* the first token is a positional *)
    assert (pos_tok t1 = true) as Hpos.
    { unfold lead_ok in Hl. unfold pos_tok. destruct (starts_dash t1); [now rewrite andb_false_r in Hl|reflexivity]. }
    cbn [length]. rewrite (loop_arg g true _ true ps_empty t1 r (fun _ => Hpos)).
    rewrite (absorb_argument g A (ff_args _ _ _ _ FF) (ff_names _ _ _ _ FF) (ff_nodup _ _ _ _ FF) Habs true ps_empty t1 [] (eq_sym (place_nil A))).
    cbn [app ps_opts ps_empty].
    destruct (loop_absorbs g A (ff_args _ _ _ _ FF) (ff_names _ _ _ _ FF) (ff_nodup _ _ _ _ FF) Habs true (S (length r)) r true
                {| ps_args := place A [t1]; ps_opts := [] |} [t1] eq_refl) as [more Hm].
    destruct (loop (S (length r)) g true true {| ps_args := place A [t1]; ps_opts := [] |} r) as [[pa po] e]. cbn [fst ps_args] in Hm.
    subst pa. cbn [app] in *.
    destruct (match e with Some CannotParse | Some NoSuchOption => None | _ => e end) as [k|]; [cbn [snd]; discriminate|].
    destruct (fits_some t1 more) as [Hfit Hreq].
    assert (no_clash [(n, help_cname)] [] (t1 :: more) = true) as Hclash.
    { unfold no_clash. cbn [length skipn snd]. unfold cname_match, help_cname. cbn [cn_name cn_aliases existsb].
      rewrite str_eqb_sym, Hh. now rewrite andb_false_r. }
    destruct (finish f g A [(n, help_cname)] FF [] (t1 :: more) eq_refl Hfit Hclash Hreq true po) as (st2 & I1 & I2 & I3 & I4).
    cbn [app] in I1. rewrite I1, I3. cbn [andb snd]. rewrite I4. cbn [bind]. intros H.
    rewrite (set_options_args f _ _ _ H). cbn [ar_args]. rewrite Hargs. cbn [place_typed]. rewrite Hmulti.
    unfold shas, ahas. cbn [aget]. now rewrite str_eqb_refl.
  Qed.
End HelpParseAny.

(* ================= what DefaultApplicationConfig's set-up gives, once and for all ================= *)
(* the facts about the built application that HelpRunLemmas.help_same_run derives inline *)
Record help_setup (a : application) (hc : bcmd) (f : fmt) (arg : arg) (o : opt) : Prop := {
  hs_cmd : exists dflt len, hc = BCmd S_help [] dflt false len f [];
  hs_named : coll_contains (named_of (ap_cmds a)) S_help = true /\ coll_get (named_of (ap_cmds a)) S_help = Ok hc;
  hs_all : coll_get (coll_of (ap_cmds a)) S_help = Ok hc;
  hs_inv : fmt_inv f;
  hs_sound : short_sound f;
  hs_args : get_arguments_all f = [(a_name arg, arg)];
  hs_cns : get_command_names_all f = [help_cname];
  hs_arg : is_command_arg arg = true;
  hs_car : carries o f;
  hs_opt : is_help_option o = true;
  hs_tree : Forall (tree_ok (carries o)) (ap_cmds a) }.

Lemma default_help_setup cfg a : build_app cfg = Ok a -> default_help_config cfg = true ->
  exists hc f arg o, help_setup a hc f arg o.
Proof.
  intros Hb Hcfg. unfold default_help_config in Hcfg.
  apply andb_prop in Hcfg as [Hcfg Hcmd]. apply andb_prop in Hcfg as [Hdef Hga].
  destruct (ac_args cfg) as [|? ?] eqn:Eargs; [|discriminate]. clear Hga.
  pose proof Hdef as Hdef'. unfold defines_help in Hdef'. apply existsb_exists in Hdef' as [o [Hoin Ho]].
  pose proof (build_app_carries cfg a o Hb Hoin) as Htree.
  apply existsb_exists in Hcmd as [c [Hcin Hc]].
  destruct c as [name [|? ?] dflt [|] [|] len opts [|arg [|? ?]] [|? ?]]; try discriminate.
  cbn [is_help_command] in Hc. apply andb_prop in Hc as [Hname Harg].
  destruct (str_eqb_spec name S_help) as [->|]; [|discriminate].
  unfold build_app in Hb. rewrite Eargs in Hb.
  destruct (format_of_elements (map EArg [] ++ map EOpt (ac_opts cfg)) None) as [g|k] eqn:Eg; cbn [bind] in Hb; [|discriminate].
  destruct (build_cmds g [] (ac_cmds cfg)) as [cs|k] eqn:Ec; cbn [bind] in Hb; [|discriminate].
  inversion Hb; subst a. clear Hb. cbn [ap_cmds] in *.
  destruct (build_cmds_in g S_help [] dflt false len opts [arg] _ _ _ Ec Hcin) as [f [Ef Hin]].
  destruct (build_cmds_nodup g _ _ _ Ec) as [Hnd _].
  destruct (help_inv _ _ _ _ _ Eg Ef Harg) as [Hinv Hsound].
  destruct (help_shape _ _ _ _ _ Eg Ef) as [Hargs Hcns].
  assert (carries o f) as Hcar.
  { pose proof (proj1 (Forall_forall _ _) Htree _ Hin) as Ht. apply tree_ok_unfold in Ht as [Ht _]. exact Ht. }
  exists (BCmd S_help [] dflt false len f []), f, arg, o. constructor; try assumption.
  - eauto.
  - cbn [ap_cmds]. apply (coll_of_found _ (BCmd S_help [] dflt false len f [])); [now apply nodup_names_filter|].
    apply filter_In. split; [exact Hin|reflexivity].
  - cbn [ap_cmds]. apply (coll_of_found _ (BCmd S_help [] dflt false len f []) Hnd Hin).
Qed.

(* ================= the run ================= *)
(* resolve_help_command: command = application.get_command("help"); parsed_args = command.parse(args, True) *)
Definition help_line_parse (a : application) (toks : list str) : res (fmt * args) :=
  match find_cmd a S_help with
  | None => Err NoSuchCommand
  | Some hc => do x <- parse (b_fmt hc) true toks; Ok (b_fmt hc, x)
  end.

Lemma run_with_help_switch debug a toks : wants_help (option_tokens toks) = true ->
  sm_action (run_summary debug a toks) =
    match help_line_parse a toks with
    | Err k => AError k
    | Ok (f, x) =>
      if args_is_option_set f x S_version || wants_version (option_tokens toks) then AVersion [S_help]
      else if args_is_argument_set f x (AName COMMAND) then help_page a toks else AHelpApp
    end.
Proof.
  intros H. unfold run_summary, help_line_parse. cbn [sm_action]. rewrite H.
  destruct (find_cmd a S_help) as [hc|]; [|reflexivity].
  destruct (parse (b_fmt hc) true toks) as [x|k]; reflexivity.
Qed.

Section RunAny.
  Variables (a : application) (hc : bcmd) (f : fmt) (arg : arg) (o : opt).
  Hypothesis HS : help_setup a hc f arg o.

  Lemma setup_fmt : b_fmt hc = f.
  Proof. destruct (hs_cmd _ _ _ _ _ HS) as (dflt & len & ->). reflexivity. Qed.
  Lemma setup_find : find_cmd a S_help = Some hc.
  Proof. unfold find_cmd. now rewrite (hs_all _ _ _ _ _ HS). Qed.

  (* the line starts with a plain token that is not the word "help": the listener's parse sets "command" *)
  Lemma command_set_on_any_line t1 r fx x : lead_ok t1 = true -> str_eqb t1 S_help = false ->
    help_line_parse a (t1 :: r) = Ok (fx, x) -> fx = f /\ args_is_argument_set fx x (AName COMMAND) = true.
  Proof.
    intros Hl Hh. unfold help_line_parse. rewrite setup_find, setup_fmt.
    destruct (parse f true (t1 :: r)) as [x0|k] eqn:Ep; cbn [bind]; [|discriminate].
    intros H. inversion H; subst fx x0. split; [reflexivity|].
    destruct (command_arg_spec arg (hs_arg _ _ _ _ _ HS)) as (N & M & _ & _ & T).
    pose proof (help_parse_sets_command f arg (hs_inv _ _ _ _ _ HS) (hs_args _ _ _ _ _ HS) (hs_cns _ _ _ _ _ HS) M T t1 r x Hl Hh Ep) as Hset.
    unfold args_is_argument_set, has_argument, get_argument. cbn [get_arguments].
    rewrite (hs_args _ _ _ _ _ HS), N. unfold shas at 1, ahas, sget. cbn [aget]. rewrite str_eqb_refl.
    exact Hset.
  Qed.

  Lemma run_help_anywhere debug t1 r : lead_ok t1 = true -> str_eqb t1 S_help = false ->
    wants_help (option_tokens (t1 :: r)) = true ->
    sm_action (run_summary debug a (t1 :: r)) =
      match help_line_parse a (t1 :: r) with
      | Err k => AError k
      | Ok (fx, x) =>
        if args_is_option_set fx x S_version || wants_version (option_tokens (t1 :: r)) then AVersion [S_help]
        else help_page a (t1 :: r)
      end.
  Proof.
    intros Hl Hh Hw. rewrite (run_with_help_switch debug a _ Hw).
    destruct (help_line_parse a (t1 :: r)) as [[fx x]|k] eqn:E; [|reflexivity].
    destruct (command_set_on_any_line t1 r fx x Hl Hh E) as [_ ->]. reflexivity.
  Qed.
End RunAny.

(* ================= the page: HelpResolver on the same line ================= *)
(* the help target of a line whose leading tokens walk to b (name path p): b's first default sub-command that parses the
   line (under its own leniency), else the first one, else b itself - parsed LENIENTLY in the end *)
Lemma help_target_walks a toks b p :
  (match toks with t :: _ => str_eqb t S_help = false | [] => True end) ->
  walk (named_of (ap_cmds a)) None (leading toks) = Ok (Some (b, p)) ->
  help_target a toks =
    (do d <- help_pick_default (defaults_of (b_subs b)) toks None;
     match d with
     | Some (dc, _) => do _ <- help_lenient (b_fmt dc) toks; Ok (p ++ [b_name dc])
     | None => do _ <- help_lenient (b_fmt b) toks; Ok p
     end).
Proof.
  intros Hh Hw. unfold help_target.
  assert ((match toks with t :: r => if str_eqb t S_help then r else toks | [] => [] end) = toks) as ->.
  { destruct toks as [|t r]; [reflexivity|now rewrite Hh]. }
  rewrite Hw. cbn [bind].
  destruct (help_pick_default (defaults_of (b_subs b)) toks None) as [[[dc r]|]|k]; cbn [bind]; reflexivity.
Qed.

(* a line = its leading plain tokens followed by a rest that starts with a stopper (an option-like token, "--", the
   empty token) or is empty *)
Definition starts_stopped (rest : list str) : bool := match rest with [] => true | s :: _ => stopper s end.
Lemma leading_app_stopped path rest : forallb lead_ok path = true -> starts_stopped rest = true -> leading (path ++ rest) = path.
Proof.
  intros Hp Hr. destruct rest as [|s r]; [rewrite app_nil_r; now apply leading_all|]. now apply leading_cut.
Qed.
Lemma line_decomposes toks : exists path rest, toks = path ++ rest /\ forallb lead_ok path = true /\ starts_stopped rest = true /\
  path = leading toks.
Proof.
  induction toks as [|t r (path & rest & E & Hp & Hr & El)].
  - exists [], []. repeat split.
  - rewrite leading_step. destruct (lead_ok t) eqn:Ht.
    + exists (t :: path), rest. subst r. cbn [app forallb]. rewrite Ht, Hp, <- El. repeat split; assumption.
    + exists [], (t :: r). cbn [app forallb starts_stopped]. unfold stopper. rewrite Ht. repeat split.
Qed.
Lemma wants_help_line path rest : forallb lead_ok path = true ->
  wants_help (option_tokens (path ++ rest)) = wants_help (option_tokens rest).
Proof.
  intros Hp. rewrite (option_tokens_plain _ _ Hp). unfold wants_help. rewrite !has_token_app.
  now rewrite (has_token_plain T_h _ eq_refl Hp), (has_token_plain T_help _ eq_refl Hp).
Qed.
Lemma wants_version_line path rest : forallb lead_ok path = true ->
  wants_version (option_tokens (path ++ rest)) = wants_version (option_tokens rest).
Proof.
  intros Hp. rewrite (option_tokens_plain _ _ Hp). unfold wants_version. rewrite !has_token_app.
  now rewrite (has_token_plain T_V _ eq_refl Hp), (has_token_plain T_version _ eq_refl Hp).
Qed.
(* the switch stands somewhere among the option tokens *)
Lemma wants_help_in sw ots : sw = T_help \/ sw = T_h -> In sw ots -> wants_help ots = true.
Proof.
  intros Hsw Hin. unfold wants_help, has_token.
  assert (existsb (str_eqb sw) ots = true) as H by (apply existsb_exists; exists sw; split; [exact Hin|apply str_eqb_refl]).
  destruct Hsw as [-> | ->]; rewrite H; [apply orb_true_r|reflexivity].
Qed.

(* ================= the configuration-level statements ================= *)
Section Anywhere.
  Variables (cfg : appcfg) (a : application) (debug : bool) (path rest : list str).
  Hypothesis Hb : build_app cfg = Ok a.
  Hypothesis Hcfg : default_help_config cfg = true.
  Hypothesis Hplain : forallb lead_ok path = true.
  Hypothesis Hne : path <> [].
  Hypothesis Hh : match path with t :: _ => str_eqb t S_help = false | [] => True end.
  Hypothesis Hsw : wants_help (option_tokens rest) = true.

  (* the general statement: an error of the help command's own lenient parse (a value error of a global option: nothing
     else is possible, see help_line_parse_errors), name and version when the version switch was given as well (parsed,
     or as a token), else the page of the help target of the line (or the reason why there is none) *)
  Lemma help_anywhere_run :
    sm_action (run_summary debug a (path ++ rest)) =
      match help_line_parse a (path ++ rest) with
      | Err k => AError k
      | Ok (fx, x) =>
        if args_is_option_set fx x S_version || wants_version (option_tokens rest) then AVersion [S_help]
        else help_page a (path ++ rest)
      end.
  Proof.
    destruct (default_help_setup cfg a Hb Hcfg) as (hc & f & arg & o & HS).
    destruct path as [|t1 p']; [congruence|]. cbn [forallb] in Hplain. apply andb_prop in Hplain as [Ht Hp'].
    assert (forallb lead_ok (t1 :: p') = true) as Hpl by (cbn [forallb]; now rewrite Ht, Hp').
    rewrite <- (wants_version_line (t1 :: p') rest Hpl). cbn [app].
    apply (run_help_anywhere a hc f arg o HS debug t1 (p' ++ rest) Ht Hh).
    change (t1 :: p' ++ rest) with ((t1 :: p') ++ rest). now rewrite (wants_help_line _ _ Hpl).
  Qed.

  (* never the handler, never the error of resolving the line itself *)
  Lemma help_anywhere_no_handler :
    match sm_action (run_summary debug a (path ++ rest)) with AHandler _ => False | _ => True end.
  Proof. apply help_switch_lemma. now rewrite (wants_help_line _ _ Hplain). Qed.

  Section Page.
    (* the version switch is not given as well, and the help command's parse does not fail *)
    Variables (fx : fmt) (x : args).
    Hypothesis Hparse : help_line_parse a (path ++ rest) = Ok (fx, x).
    Hypothesis Hnov : args_is_option_set fx x S_version = false.
    Hypothesis Hnovt : wants_version (option_tokens rest) = false.

    Lemma help_anywhere_page : sm_action (run_summary debug a (path ++ rest)) = help_page a (path ++ rest).
    Proof. rewrite help_anywhere_run, Hparse, Hnov, Hnovt. reflexivity. Qed.

    Hypothesis Hstop : starts_stopped rest = true.
    Variables (b : bcmd) (p : list str).
    Hypothesis Hw : walk (named_of (ap_cmds a)) None path = Ok (Some (b, p)).

    Lemma first_not_help : match path ++ rest with t :: _ => str_eqb t S_help = false | [] => True end.
    Proof. destruct path as [|t r]; [congruence|exact Hh]. Qed.

    Lemma help_anywhere_target :
      help_target a (path ++ rest) =
        (do d <- help_pick_default (defaults_of (b_subs b)) (path ++ rest) None;
         match d with
         | Some (dc, _) => do _ <- help_lenient (b_fmt dc) (path ++ rest); Ok (p ++ [b_name dc])
         | None => do _ <- help_lenient (b_fmt b) (path ++ rest); Ok p
         end).
    Proof. apply help_target_walks; [exact first_not_help|]. now rewrite (leading_app_stopped _ _ Hplain Hstop). Qed.

    (* THAT command's page: b has no default sub-command *)
    Lemma help_anywhere_that_command : defaults_of (b_subs b) = [] ->
      sm_action (run_summary debug a (path ++ rest)) =
        match help_lenient (b_fmt b) (path ++ rest) with Ok _ => AHelpCmd p | Err k => AHelpFail k end.
    Proof.
      intros Hd. rewrite help_anywhere_page. unfold help_page. rewrite help_anywhere_target, Hd. cbn [help_pick_default bind].
      destruct (help_lenient (b_fmt b) (path ++ rest)); reflexivity.
    Qed.
    Lemma help_anywhere_that_command_ok : defaults_of (b_subs b) = [] -> help_lenient (b_fmt b) (path ++ rest) = Ok tt ->
      sm_action (run_summary debug a (path ++ rest)) = AHelpCmd p /\
      prints_page (sm_action (run_summary debug a (path ++ rest))) = true.
    Proof. intros Hd Hp. rewrite (help_anywhere_that_command Hd), Hp. auto. Qed.

    (* with default sub-commands: the page of the first default sub-command that parses the line under its own
       leniency (the line WITH the switch and everything else on it); the ones before it refuse the line or meet a
       value that does not convert *)
    Lemma help_anywhere_default ds1 d ds2 y : defaults_of (b_subs b) = ds1 ++ d :: ds2 ->
      Forall (unfit (path ++ rest)) ds1 ->
      parse (b_fmt d) (b_lenient d) (path ++ rest) = Ok y -> help_lenient (b_fmt d) (path ++ rest) = Ok tt ->
      sm_action (run_summary debug a (path ++ rest)) = AHelpCmd (p ++ [b_name d]).
    Proof.
      intros Hd H1 H2 H3. rewrite help_anywhere_page. unfold help_page. rewrite help_anywhere_target, Hd.
      rewrite (help_pick_first_parsable ds1 d y ds2 _ H1 H2 None). cbn [bind]. now rewrite H3.
    Qed.
    (* ... none of them parses it: the page of the FIRST default sub-command *)
    Lemma help_anywhere_default_none d ds : defaults_of (b_subs b) = d :: ds ->
      Forall (unfit (path ++ rest)) (d :: ds) -> help_lenient (b_fmt d) (path ++ rest) = Ok tt ->
      sm_action (run_summary debug a (path ++ rest)) = AHelpCmd (p ++ [b_name d]).
    Proof.
      intros Hd H1 H3. rewrite help_anywhere_page. unfold help_page. rewrite help_anywhere_target, Hd.
      destruct (help_pick_none_parsable (path ++ rest) (d :: ds) None H1) as [k ->]. cbn [bind]. now rewrite H3.
    Qed.
  End Page.
End Anywhere.
