(* Proofs about Model/RunLine.v (C04): the whole of ConsoleApplication.run. *)
From Coq Require Import Lia.
From Clikit Require Import Base.Prelude Base.Res Model.Conv Model.Flags Model.Format Model.Parser Model.Resolver Model.Run
  Model.Tokenizer Model.Gate Model.Switches Model.RunLine Proofs.RunLemmas Proofs.SwitchesLemmas.

(* ------------------------------------------------------------------ 1. the line model contains the run model *)
Section Generic.
Context {A : Type}.
Implicit Types (a : A) (h : A -> outcome).

Lemma do_handle_with_spec ls h a :
  do_handle ls (h a) = (fst (do_handle_with ls h a), length (snd (do_handle_with ls h a))).
Proof. unfold do_handle, do_handle_with. destruct (dispatch_pre ls None) as [[st|]|e]; [reflexivity| |reflexivity]. destruct (h a); reflexivity. Qed.

Lemma handle_convert debug ls h a :
  handle debug ls (h a) = (status_of debug (fst (do_handle_with ls h a)), length (snd (do_handle_with ls h a))).
Proof. unfold handle. rewrite do_handle_with_spec. reflexivity. Qed.

(* io built, line resolved: end, report and report mode are those of Run.run on the outcome of the handler applied to
   the resolved arguments, and the number of logged invocations is its call counter *)
Lemma run_line_is_run catch ok quiet debug a ls h :
  let r := run_cmdline catch ok quiet debug None (inl a) ls h in
  let r0 := run catch debug ok ls (h a) in
  l_end r = r_end r0 /\ length (l_calls r) = r_handler_calls r0 /\ l_reported r = r_reported r0 /\ l_simple r = r_simple r0
  /\ l_printed r = r_reported r0 && negb quiet.
Proof.
  cbv zeta. unfold run_cmdline, run. rewrite handle_convert.
  destruct (do_handle_with ls h a) as [r calls]. cbn [fst snd].
  destruct (status_of debug r) as [s|e]; [cbn; repeat split; reflexivity|].
  unfold on_exception. destruct (e_keyboard e); [cbn; repeat split; reflexivity|].
  destruct catch; [|cbn; repeat split; reflexivity]. destruct ok; cbn; repeat split; reflexivity.
Qed.

(* ------------------------------------------------------------------ 2. the handler gets what the resolver gave *)
(* exactly one invocation, with the resolved arguments - whatever the handler then does and whatever the flags *)
Lemma calls_resolved catch ok quiet debug a ls h :
  listeners_pass ls -> l_calls (run_cmdline catch ok quiet debug None (inl a) ls h) = [a].
Proof.
  unfold listeners_pass, run_cmdline, do_handle_with. intros ->.
  destruct (status_of debug _); [reflexivity|]. unfold on_exception.
  destruct (e_keyboard e); [reflexivity|]. destruct catch; [|reflexivity]. destruct ok; reflexivity.
Qed.
(* a listener handled the event or failed: no invocation *)
Lemma calls_none_listener catch ok quiet debug a ls h :
  ~ listeners_pass ls -> l_calls (run_cmdline catch ok quiet debug None (inl a) ls h) = [].
Proof.
  unfold listeners_pass, run_cmdline, do_handle_with. intros Hn.
  destruct (dispatch_pre ls None) as [[st|]|e]; [| exfalso; apply Hn; reflexivity |].
  - destruct (status_of debug _); [reflexivity|]. unfold on_exception.
    destruct (e_keyboard e); [reflexivity|]. destruct catch; [|reflexivity]. destruct ok; reflexivity.
  - destruct (status_of debug _) as [s|e']; [reflexivity|]. unfold on_exception.
    destruct (e_keyboard e'); [reflexivity|]. destruct catch; [|reflexivity]. destruct ok; reflexivity.
Qed.
Lemma on_exception_calls catch ok shown (calls : list A) e : l_calls (on_exception catch ok shown calls e) = calls.
Proof. unfold on_exception. destruct (e_keyboard e); [reflexivity|]. destruct catch; [|reflexivity]. destruct ok; reflexivity. Qed.
(* the io factory raised, or resolution did: no handler runs at all *)
Lemma calls_none_io catch ok quiet debug e (rs : A + exn) ls h :
  l_calls (run_cmdline catch ok quiet debug (Some e) rs ls h) = [].
Proof. unfold run_cmdline. apply on_exception_calls. Qed.
Lemma calls_none_resolution catch ok quiet debug e ls h :
  l_calls (run_cmdline (A:=A) catch ok quiet debug None (inr e) ls h) = [].
Proof. unfold run_cmdline. apply on_exception_calls. Qed.
(* in every case: never more than one invocation, and only ever with the resolved arguments *)
Lemma calls_at_most_resolved catch ok quiet debug io (rs : A + exn) ls h :
  l_calls (run_cmdline catch ok quiet debug io rs ls h) = [] \/
  exists a, io = None /\ rs = inl a /\ listeners_pass ls /\ l_calls (run_cmdline catch ok quiet debug io rs ls h) = [a].
Proof.
  destruct io as [e|]; [left; apply calls_none_io|]. destruct rs as [a|e]; [|left; apply calls_none_resolution].
  destruct (dispatch_pre ls None) as [[st|]|e] eqn:E.
  - left. apply calls_none_listener. unfold listeners_pass. rewrite E. discriminate.
  - right. exists a. repeat split; try assumption. apply calls_resolved. exact E.
  - left. apply calls_none_listener. unfold listeners_pass. rewrite E. discriminate.
Qed.

(* ------------------------------------------------------------------ 3. status and report *)
Lemma on_exception_caught shown (calls : list A) e : e_keyboard e = false ->
  on_exception true true shown calls e
  = {| l_end := Status 1; l_calls := calls; l_reported := true; l_simple := e_clikit e; l_printed := shown |}.
Proof. unfold on_exception. intros ->. reflexivity. Qed.
Lemma on_exception_keyboard catch ok shown (calls : list A) e : e_keyboard e = true ->
  on_exception catch ok shown calls e
  = {| l_end := Status 1; l_calls := calls; l_reported := false; l_simple := false; l_printed := false |}.
Proof. unfold on_exception. intros ->. reflexivity. Qed.

Lemma convert_range debug r s : status_of debug r = inl s -> (0 <= s <= 255)%Z.
Proof.
  unfold status_of. destruct r as [v|e].
  - destruct (truthy v); cbn [negb]; [|intros H; inversion H; lia].
    destruct (to_int v); intros H; inversion H. pose proof (clamp_range z). lia.
  - destruct (e_keyboard e && negb debug); [cbn; intros H; inversion H; lia|discriminate].
Qed.

(* catching on, renderer returning: WHATEVER fails - the io factory, the resolution, a listener, the handler, int(status)
   - the run returns an integer status in 0..255 *)
Lemma line_status_lemma quiet debug io (rs : A + exn) ls h :
  exists s, l_end (run_cmdline true true quiet debug io rs ls h) = Status s /\ (0 <= s <= 255)%Z.
Proof.
  assert (Hx : forall shown calls e, exists s, l_end (on_exception (A:=A) true true shown calls e) = Status s /\ (0 <= s <= 255)%Z).
  { intros shown calls e. unfold on_exception. destruct (e_keyboard e); cbn; exists 1%Z; split; auto; lia. }
  unfold run_cmdline. destruct io as [e|]; [apply Hx|]. destruct rs as [a|e]; [|apply Hx].
  destruct (do_handle_with ls h a) as [r calls]. destruct (status_of debug r) as [s|e] eqn:E; [|apply Hx].
  exists s. split; [reflexivity|]. eapply convert_range; eauto.
Qed.

(* resolution fails (unknown command, unknown option, too many arguments, a value of the wrong type, a failing resolver):
   no handler, status 1, the report - simple for library errors - printed unless the io is quiet *)
Lemma resolution_failure_lemma quiet debug e ls h : e_keyboard e = false ->
  run_cmdline (A:=A) true true quiet debug None (inr e) ls h
  = {| l_end := Status 1; l_calls := []; l_reported := true; l_simple := e_clikit e; l_printed := negb quiet |}.
Proof. intros He. unfold run_cmdline. apply on_exception_caught. exact He. Qed.
(* the io factory fails: no resolution, no handler, status 1, the report on the preliminary io - which no switch silences *)
Lemma io_failure_lemma quiet debug e (rs : A + exn) ls h : e_keyboard e = false ->
  run_cmdline true true quiet debug (Some e) rs ls h
  = {| l_end := Status 1; l_calls := []; l_reported := true; l_simple := e_clikit e; l_printed := true |}.
Proof. intros He. unfold run_cmdline. apply on_exception_caught. exact He. Qed.
(* KeyboardInterrupt out of either: status 1, no report *)
Lemma early_keyboard_lemma catch ok quiet debug io (rs : A + exn) e ls h :
  (io = Some e \/ (io = None /\ rs = inr e)) -> e_keyboard e = true ->
  run_cmdline catch ok quiet debug io rs ls h
  = {| l_end := Status 1; l_calls := []; l_reported := false; l_simple := false; l_printed := false |}.
Proof. intros [->|[-> ->]] He; unfold run_cmdline; apply on_exception_keyboard; exact He. Qed.
(* with catching off the failure of either step escapes as it is *)
Lemma early_failure_escapes ok quiet debug io (rs : A + exn) e ls h :
  (io = Some e \/ (io = None /\ rs = inr e)) -> e_keyboard e = false ->
  l_end (run_cmdline false ok quiet debug io rs ls h) = Escaped e.
Proof. intros [->|[-> ->]] He; unfold run_cmdline, on_exception; rewrite He; reflexivity. Qed.

(* a report is printed exactly when it was rendered and the io in force lets it through *)
Lemma printed_lemma catch ok quiet debug io (rs : A + exn) ls h :
  l_printed (run_cmdline catch ok quiet debug io rs ls h)
  = l_reported (run_cmdline catch ok quiet debug io rs ls h) && (match io with Some _ => true | None => negb quiet end).
Proof.
  assert (Hx : forall shown calls e, l_printed (on_exception (A:=A) catch ok shown calls e) = l_reported (on_exception catch ok shown calls e) && shown).
  { intros shown calls e. unfold on_exception. destruct (e_keyboard e); [reflexivity|]. destruct catch; [|reflexivity]. destruct ok; reflexivity. }
  unfold run_cmdline. destruct io as [e|]; [apply Hx|]. destruct rs as [a|e]; [|apply Hx].
  destruct (do_handle_with ls h a) as [r calls]. destruct (status_of debug r); [reflexivity|apply Hx].
Qed.
End Generic.

(* ------------------------------------------------------------------ 4. the application: the default resolver *)
(* what resolve returns for a line are the arguments one of the application's commands parses from exactly that line,
   with that command's own leniency, under that command's format *)
Lemma pick_default_parsed ds toks first d x :
  pick_default ds toks first = Ok (Some (d, Ok x)) -> parse (b_fmt d) (b_lenient d) toks = Ok x.
Proof.
  revert first. induction ds as [|c r IH]; intros first; cbn [pick_default].
  - destruct first as [[b k]|]; intros H; inversion H.
  - destruct (parse (b_fmt c) (b_lenient c) toks) as [a|k] eqn:E.
    + intros H. inversion H; subst. exact E.
    + destruct k; try discriminate. apply IH.
Qed.
Lemma resolve_args_parsed a toks path f x :
  resolve a toks = Ok (path, f, x) -> exists b, f = b_fmt b /\ parse (b_fmt b) (b_lenient b) toks = Ok x.
Proof.
  unfold resolve. destruct (walk (named_of (ap_cmds a)) None (leading toks)) as [[[b p]|]|k]; cbn [bind]; [| |discriminate].
  - destruct (pick_default (defaults_of (b_subs b)) toks None) as [[[dc r]|]|k] eqn:E; cbn [bind]; [| |discriminate].
    + destruct r as [y|k]; cbn [bind]; [|discriminate]. intros H. inversion H; subst. exists dc. split; [reflexivity|].
      eapply pick_default_parsed; eauto.
    + destruct (parse (b_fmt b) (b_lenient b) toks) as [y|k] eqn:Ep; cbn [bind]; [|discriminate].
      intros H. inversion H; subst. exists b. split; [reflexivity|exact Ep].
  - destruct (leading toks); [|discriminate].
    destruct (pick_default (defaults_of (ap_cmds a)) toks None) as [[[dc r]|]|k] eqn:E; cbn [bind]; [| |discriminate]; [|discriminate].
    destruct r as [y|k]; cbn [bind]; [|discriminate]. intros H. inversion H; subst. exists dc. split; [reflexivity|].
    eapply pick_default_parsed; eauto.
Qed.

(* the clause of the statement: the handler of the selected command is invoked exactly once with the arguments parsed
   for that command - the strict (or, for a lenient command, lenient) parse of the very line the run was given *)
Lemma handler_args_lemma catch ok ap toks ls h path f x :
  resolve ap toks = Ok (path, f, x) -> listeners_pass ls ->
  l_calls (run_app catch ok ap None RDefault toks ls h) = [(path, f, x)]
  /\ exists b, f = b_fmt b /\ parse (b_fmt b) (b_lenient b) toks = Ok x.
Proof.
  intros Hr Hl. split; [|eapply resolve_args_parsed; eauto].
  unfold run_app, resolution. rewrite Hr. cbn [of_res]. apply calls_resolved. exact Hl.
Qed.
(* a resolver of one's own that hands other tokens to the default one: the handler gets the arguments parsed from THOSE *)
Lemma handler_args_delegate catch ok ap toks toks' ls h path f x :
  resolve ap toks' = Ok (path, f, x) -> listeners_pass ls ->
  l_calls (run_app catch ok ap None (RDelegate toks') toks ls h) = [(path, f, x)].
Proof. intros Hr Hl. unfold run_app, resolution. rewrite Hr. cbn [of_res]. apply calls_resolved. exact Hl. Qed.
(* the line does not resolve: no handler, status 1, the report *)
Lemma unresolved_line_lemma ap toks ls h k :
  resolve ap toks = Err k ->
  run_app true true ap None RDefault toks ls h
  = {| l_end := Status 1; l_calls := []; l_reported := true; l_simple := e_clikit (exn_of_kind k); l_printed := negb (line_quiet toks) |}.
Proof. intros Hr. unfold run_app, resolution. rewrite Hr. cbn [of_res]. apply resolution_failure_lemma. reflexivity. Qed.
Lemma app_status_lemma ap io rv toks ls h :
  exists s, l_end (run_app true true ap io rv toks ls h) = Status s /\ (0 <= s <= 255)%Z.
Proof. unfold run_app. apply line_status_lemma. Qed.

(* the lines of this model are lines on which C09's summary of the run says "that command's handler runs" *)
Lemma in_domain_handler ap toks path f x :
  in_domain ap RDefault toks = true -> resolve ap toks = Ok (path, f, x) ->
  sm_action (run_summary false ap toks) = AHandler path.
Proof.
  unfold in_domain, resolution. intros Hd Hr. rewrite Hr in Hd. cbn [of_res] in Hd.
  apply andb_prop in Hd. destruct Hd as [Hsw Hp]. apply andb_prop in Hp. destruct Hp as [Hh Hv].
  apply negb_true_iff in Hsw. apply orb_false_iff in Hsw. destruct Hsw as [H1 H2].
  apply negb_true_iff in Hh. apply negb_true_iff in Hv.
  apply (handler_runs_lemma false ap toks path f x H1 H2 Hr Hv).
  intros p ->. exact Hh.
Qed.


(* ------------------------------------------------------------------ 5. examples: the hypotheses are inhabited *)
Module RunLineExamples.
Definition s_go : str := [103;111]%N.  Definition s_tgt : str := [116;103;116]%N.
Definition s_target : str := [116;97;114;103;101;116]%N.
Definition s_nosuch : str := [110;111;115;117;99;104]%N.
Definition s_ddnosuch : str := [45;45;110;111;115;117;99;104]%N.
Definition T_q : str := [45;113]%N.
(* go [target] *)
Definition ex_cfg : appcfg :=
  {| ac_opts := []; ac_args := [];
     ac_cmds := [Cmd s_go [] false false true false [] [{| a_name := s_target; a_flags := 2; a_default := VNone |}] []] |}.
Definition ex_run (toks : list str) (h : outcome) :=
  match build_app ex_cfg with
  | Ok ap => Some (let r := run_app true true ap None RDefault toks [] (fun _ => h) in
                   (l_end r, map (fun c => (fst (fst c), args_arguments (snd (fst c)) (snd c) true)) (l_calls r), l_printed r, l_simple r))
  | Err _ => None
  end.
(* "go tgt": one invocation, target = tgt; the handler's 300 is clamped *)
Example ex_go_tgt : ex_run [s_go; s_tgt] (Ret (RInt 300)) = Some (Status 255, [([s_go], [(s_target, VStr s_tgt)])], false, false).
Proof. vm_compute. reflexivity. Qed.
(* "nosuch": no invocation, status 1, simple report *)
Example ex_nosuch : ex_run [s_nosuch] (Ret RNone) = Some (Status 1, [], true, true).
Proof. vm_compute. reflexivity. Qed.
(* "go --nosuch" and "go tgt tgt": the same *)
Example ex_bad_option : ex_run [s_go; s_ddnosuch] (Ret RNone) = Some (Status 1, [], true, true).
Proof. vm_compute. reflexivity. Qed.
Example ex_too_many : ex_run [s_go; s_tgt; s_tgt] (Ret RNone) = Some (Status 1, [], true, true).
Proof. vm_compute. reflexivity. Qed.
(* "nosuch -q": reported to a quiet io - nothing printed *)
Example ex_nosuch_quiet : ex_run [s_nosuch; T_q] (Ret RNone) = Some (Status 1, [], false, true).
Proof. vm_compute. reflexivity. Qed.
End RunLineExamples.
