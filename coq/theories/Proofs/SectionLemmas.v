(* Proofs about Model/Section.v (C15): the screen is the stack of the sections' VISIBLE contents - the texts are markup,
   the sections are indented.
   0   the terminal ignores SGR sequences; the event scanner of the decorated bytes against Markup.strip_sgr
   1-3 the formatter on lines put together: the tag scanner on a concatenation, "fine" messages (no ESC, no escaped tag,
       no backslash at the end), the undecorated rendering of a concatenation, the decorated one against it
   4-6 list facts; the formatter between two operations, good lines and their visible text; rows
   7   the invariant: screen = stack, every section's row count = rows of its visible content, the style stack is empty
   8-11 the theorems of Props/C15.v *)
From Coq Require Import Lia Arith.
From Clikit Require Import Base.Prelude Base.Res Base.Term Model.Conv Model.Markup Model.Section
  Proofs.TermLemmas Proofs.MarkupLemmas Proofs.LiteralLemmas.

(* ---------- 0. the terminal ignores SGR; the event scanner against strip_sgr ---------- *)
Definition is_sgr (e : emit) : bool := match e with Sgr _ => true | _ => false end.
Definition drop_sgr (es : list emit) : list emit := filter (fun e => negb (is_sgr e)) es.
Lemma feed_drop_sgr w es : forall t, feed w t es = feed w t (drop_sgr es).
Proof.
  induction es as [|e r IH]; intros t; [reflexivity|]. unfold feed in *. cbn [fold_left drop_sgr filter].
  destruct e; cbn [is_sgr negb fold_left]; try apply IH.
Qed.
Lemma drop_sgr_app a b : drop_sgr (a ++ b) = drop_sgr a ++ drop_sgr b.
Proof. unfold drop_sgr. apply filter_app. Qed.
Lemma emits_of_text_app a b : emits_of_text (a ++ b) = emits_of_text a ++ emits_of_text b.
Proof. unfold emits_of_text. apply map_app. Qed.
Lemma drop_sgr_text s : drop_sgr (emits_of_text s) = emits_of_text s.
Proof.
  unfold drop_sgr, emits_of_text. induction s as [|c s IH]; [reflexivity|]. cbn [map filter].
  destruct (N.eqb c LF); cbn [is_sgr negb]; now rewrite IH.
Qed.

Lemma ansi_step_strip e o g c : drop_sgr e = emits_of_text o ->
  snd (ansi_step (e, g) c) = snd (strip_step (o, g) c) /\
  drop_sgr (fst (ansi_step (e, g) c)) = emits_of_text (fst (strip_step (o, g) c)).
Proof.
  intros H. unfold ansi_step, strip_step.
  destruct g as [| |p]; cbn [pending_of].
  - destruct (N.eqb c ESC); cbn [fst snd]; split; try reflexivity; now rewrite drop_sgr_app, drop_sgr_text, H, !emits_of_text_app.
  - destruct (N.eqb c 91); [cbn; auto|].
    destruct (N.eqb c ESC); cbn [fst snd]; split; try reflexivity; now rewrite drop_sgr_app, drop_sgr_text, H, !emits_of_text_app.
  - destruct (is_digit c || N.eqb c SEMI); [cbn; auto|].
    destruct (N.eqb c 109).
    + cbn [fst snd]. split; [reflexivity|]. rewrite drop_sgr_app. cbn. now rewrite app_nil_r.
    + destruct (N.eqb c ESC); cbn [fst snd]; split; try reflexivity; now rewrite drop_sgr_app, drop_sgr_text, H, !emits_of_text_app.
Qed.
Lemma ansi_fold_strip s : forall e o g, drop_sgr e = emits_of_text o ->
  snd (fold_left ansi_step s (e, g)) = snd (fold_left strip_step s (o, g)) /\
  drop_sgr (fst (fold_left ansi_step s (e, g))) = emits_of_text (fst (fold_left strip_step s (o, g))).
Proof.
  induction s as [|c s IH]; intros e o g H; cbn [fold_left]; [auto|].
  destruct (ansi_step_strip e o g c H) as [H1 H2].
  destruct (ansi_step (e, g) c) as [e' g1], (strip_step (o, g) c) as [o' g2]. cbn [fst snd] in *. subst g2. apply IH, H2.
Qed.
(* what the terminal makes of the decorated bytes is what it makes of the text under the SGR sequences *)
Lemma drop_sgr_ansi s : drop_sgr (emits_of_ansi s) = emits_of_text (strip_sgr s).
Proof.
  unfold emits_of_ansi, ansi_end, strip_sgr, strip_end.
  destruct (ansi_fold_strip s [] [] GNone eq_refl) as [H1 H2].
  rewrite drop_sgr_app, drop_sgr_text, emits_of_text_app, H1, H2. reflexivity.
Qed.
Lemma feed_ansi w t s : feed w t (emits_of_ansi s) = feed w t (emits_of_text (strip_sgr s)).
Proof. now rewrite feed_drop_sgr, drop_sgr_ansi. Qed.

(* ---------- 1. the scanner on a concatenation ---------- *)
(* the scanner state reached from a state with finished segments d0 and pending text c0 instead of the initial one *)
Definition graft (d0 : list (str * tag)) (c0 : str) (st : lexst) : lexst :=
  match l_done st with
  | [] => {| l_done := d0; l_cur := c0 ++ l_cur st; l_cand := l_cand st |}
  | (p, t) :: r => {| l_done := d0 ++ (c0 ++ p, t) :: r; l_cur := l_cur st; l_cand := l_cand st |}
  end.
Lemma lex_step_graft d0 c0 st c : lex_step (graft d0 c0 st) c = graft d0 c0 (lex_step st c).
Proof.
  destruct st as [done cur cand]. unfold lex_step, graft. cbn [l_done l_cur l_cand].
  destruct done as [|[p t] r]; cbn [l_done l_cur l_cand];
    (destruct (N.eqb c LT); [cbn [l_done l_cur l_cand app]; now rewrite <- ?app_assoc|]);
    destruct cand as [| | |cl nm]; cbn [l_done l_cur l_cand raw_of app];
    repeat match goal with |- context [if ?b then _ else _] => destruct b end;
    cbn [l_done l_cur l_cand app]; rewrite <- ?app_assoc; reflexivity.
Qed.
Lemma fold_graft d0 c0 s : forall st, fold_left lex_step s (graft d0 c0 st) = graft d0 c0 (fold_left lex_step s st).
Proof. induction s as [|c s IH]; intros st; cbn [fold_left]; [reflexivity|]. now rewrite lex_step_graft, IH. Qed.

(* a message after which the scanner has no tag candidate pending *)
Definition closed (a : str) : Prop := l_cand (fold_left lex_step a lex_init) = CText.
Definition lex_cat (la lb : list (str * tag) * str) : list (str * tag) * str :=
  match fst lb with
  | [] => (fst la, snd la ++ snd lb)
  | (p, t) :: r => (fst la ++ (snd la ++ p, t) :: r, snd lb)
  end.
Lemma lex_app a b : closed a -> lex (a ++ b) = lex_cat (lex a) (lex b).
Proof.
  unfold closed, lex. intros Hc. rewrite fold_left_app.
  set (sa := fold_left lex_step a lex_init) in *.
  assert (sa = graft (l_done sa) (l_cur sa) lex_init) as E.
  { destruct sa as [d c k]. cbn in Hc. subst k. unfold graft, lex_init. cbn. now rewrite app_nil_r. }
  rewrite E at 1. rewrite fold_graft. set (sb := fold_left lex_step b lex_init).
  unfold lex_cat, lex_end, graft. rewrite Hc. cbn [raw_of fst snd]. rewrite app_nil_r.
  destruct (l_done sb) as [|[p t] r]; cbn [l_done l_cur l_cand fst snd]; [now rewrite app_assoc|reflexivity].
Qed.

Lemma lex_step_nl st : lex_step st NL = {| l_done := l_done st; l_cur := l_cur st ++ raw_of (l_cand st) ++ [NL]; l_cand := CText |}.
Proof. unfold lex_step. destruct (l_cand st); reflexivity. Qed.
Lemma lex_nl a : closed (a ++ [NL]) /\ lex (a ++ [NL]) = (fst (lex a), snd (lex a) ++ [NL]).
Proof.
  unfold closed, lex. rewrite fold_left_app. cbn [fold_left]. rewrite lex_step_nl. split; [reflexivity|].
  unfold lex_end. cbn [l_done l_cur l_cand raw_of fst snd]. now rewrite app_nil_r, app_assoc.
Qed.
Lemma blanks_no_lt n : no_lt (blanks n).
Proof. unfold blanks. induction n; cbn; [constructor|constructor; [discriminate|assumption]]. Qed.
Lemma lex_blanks n : closed (blanks n) /\ lex (blanks n) = ([], blanks n).
Proof.
  split; [|apply lex_no_tag, blanks_no_lt]. unfold closed, lex_init. now rewrite (lex_text _ (blanks_no_lt n)).
Qed.
Lemma closed_nil : closed []. Proof. reflexivity. Qed.

(* the raw text of a tag consists of '<', '/', '>' and tag characters *)
Definition tagch (c : N) : Prop := c = LT \/ c = SLASH \/ c = GT \/ tag_char c = true.
Definition rawsP (st : lexst) : Prop :=
  Forall (fun sg : str * tag => Forall tagch (raw_text (snd sg))) (l_done st) /\ Forall tagch (raw_of (l_cand st)).
Lemma lex_step_raws st c : rawsP st -> rawsP (lex_step st c).
Proof.
  intros [Hd Hk]. unfold lex_step, rawsP.
  assert (tagch LT) as HLT by (left; reflexivity).
  assert (tagch SLASH) as HSL by (right; left; reflexivity).
  assert (tagch GT) as HGT by (right; right; left; reflexivity).
  assert (forall x, tag_char x = true -> tagch x) as HTC by (intros x Hx; right; right; right; exact Hx).
  assert (forall x, tag_start x = true -> tagch x) as HTS by (intros x Hx; apply HTC, tag_start_char, Hx).
  destruct (N.eqb_spec c LT) as [->|Hlt]; cbn [l_done l_cand raw_of]; [split; [exact Hd|auto]|].
  destruct (l_cand st) as [| | |cl nm] eqn:Ek; cbn [l_done l_cand raw_of].
  - split; [exact Hd|constructor].
  - destruct (N.eqb_spec c SLASH) as [->|]; cbn [l_done l_cand raw_of]; [split; [exact Hd|auto]|].
    destruct (tag_start c) eqn:Ec; cbn [l_done l_cand raw_of app]; (split; [exact Hd|]); auto.
  - destruct (N.eqb_spec c GT) as [->|]; cbn [l_done l_cand raw_of].
    + split; [|constructor]. apply Forall_app. split; [exact Hd|]. constructor; [|constructor]. cbn [snd raw_text app]. auto.
    + destruct (tag_start c) eqn:Ec; cbn [l_done l_cand raw_of app]; (split; [exact Hd|]); auto.
  - destruct (N.eqb_spec c GT) as [->|]; cbn [l_done l_cand raw_of].
    + split; [|constructor]. apply Forall_app. split; [exact Hd|]. constructor; [|constructor]. cbn [snd raw_text].
      apply Forall_app. split; [exact Hk|auto].
    + destruct (tag_char c) eqn:Ec; cbn [l_done l_cand raw_of app]; (split; [exact Hd|]); [|constructor].
      cbn [raw_of] in Hk. inversion Hk as [|? ? H1 H2]; subst. constructor; [exact H1|].
      rewrite app_assoc. apply Forall_app. split; [exact H2|auto].
Qed.
Lemma tagch_good c : tagch c -> good c.
Proof. intros [->|[->|[->|H]]]; [split; discriminate..|apply tag_char_good, H]. Qed.
Lemma lex_raws_good m : Forall (fun sg : str * tag => Forall good (raw_text (snd sg))) (fst (lex m)).
Proof.
  unfold lex, lex_end. cbn [fst].
  assert (forall st, rawsP st -> rawsP (fold_left lex_step m st)) as H.
  { induction m as [|c r IH]; intros st Hst; cbn [fold_left]; [exact Hst|]. apply IH, lex_step_raws, Hst. }
  destruct (H lex_init) as [H1 _]; [split; cbn; constructor|].
  eapply Forall_impl; [|exact H1]. intros sg Hsg. eapply Forall_impl; [|exact Hsg]. exact tagch_good.
Qed.

(* ---------- 2. fine messages: no ESC, no escaped tag, no backslash at the end ---------- *)
Definition mfine (m : str) : Prop :=
  no_esc m /\ ends_with_bsl m = false /\ Forall (fun sg : str * tag => ends_with_bsl (fst sg) = false) (fst (lex m)).
Lemma fineb_mfine m : fineb m = true -> mfine m.
Proof.
  unfold fineb. intros H. apply Bool.andb_true_iff in H as [H H3]. apply Bool.andb_true_iff in H as [H1 H2].
  repeat split.
  - rewrite forallb_forall in H1. apply Forall_forall. intros c Hc Ec. specialize (H1 c Hc). rewrite Ec in H1. discriminate.
  - now destruct (ends_with_bsl m).
  - rewrite forallb_forall in H3. apply Forall_forall. intros sg Hsg. specialize (H3 sg Hsg). now destruct (ends_with_bsl (fst sg)).
Qed.
Lemma mfine_segs m : mfine m -> Forall seg_fine (fst (lex m)) /\ no_esc (snd (lex m)).
Proof.
  intros (H1 & H2 & H3). destruct (lex_P (fun c => c <> ESC) m H1) as [HP HT]. split; [|exact HT].
  pose proof (lex_raws_good m) as HR.
  rewrite Forall_forall in *. intros sg Hsg. destruct (HP sg Hsg) as [Hpre _]. repeat split; auto.
Qed.
Lemma mfine_tail m : mfine m -> ends_with_bsl (snd (lex m)) = false.
Proof.
  intros (_ & H2 & _). pose proof (lex_lossless m) as HL. destruct (snd (lex m)) as [|c t] eqn:E; [reflexivity|].
  rewrite <- HL, ends_app in H2. exact H2.
Qed.
Lemma mfine_nil : mfine []. Proof. repeat split; constructor. Qed.
Lemma mfine_app a b : closed a -> mfine a -> mfine b -> mfine (a ++ b).
Proof.
  intros Hc Ha Hb. pose proof (mfine_tail a Ha) as Ht. destruct Ha as (A1 & A2 & A3), Hb as (B1 & B2 & B3). repeat split.
  - apply Forall_app. split; assumption.
  - rewrite ends_app. destruct b; assumption.
  - rewrite (lex_app a b Hc). unfold lex_cat. destruct (fst (lex b)) as [|[p t] r]; cbn [fst]; [exact A3|].
    apply Forall_app. split; [exact A3|]. inversion B3 as [|? ? Hp Hr]; subst. constructor; [|exact Hr].
    cbn [fst] in *. rewrite ends_app. destruct p; assumption.
Qed.
Lemma mfine_nl a : mfine a -> mfine (a ++ [NL]).
Proof.
  intros (A1 & A2 & A3). destruct (lex_nl a) as [_ E]. repeat split.
  - apply Forall_app. split; [exact A1|]. constructor; [discriminate|constructor].
  - now rewrite ends_app.
  - rewrite E. exact A3.
Qed.
Lemma blanks_no_bsl n : no_bsl (blanks n).
Proof. unfold blanks. induction n; cbn; [constructor|constructor; [discriminate|assumption]]. Qed.
Lemma blanks_no_esc n : no_esc (blanks n).
Proof. unfold blanks. induction n; cbn; [constructor|constructor; [discriminate|assumption]]. Qed.
Lemma mfine_blanks n : mfine (blanks n).
Proof.
  destruct (lex_blanks n) as [_ E]. repeat split.
  - apply blanks_no_esc.
  - apply no_bsl_ends, blanks_no_bsl.
  - rewrite E. constructor.
Qed.

(* ---------- 3. the undecorated rendering, piece by piece ---------- *)
Lemma colorize_plain_eq sty sk m :
  colorize sty false sk m =
  match run_segs sty false (ends_with_bsl m) true (fst (lex m)) sk [] false with
  | Ok (sk', out, _) => Ok (sk', unescape (out ++ snd (lex m)))
  | Err e => Err e
  end.
Proof.
  unfold colorize. pose proof (lex_lossless m) as HL. destruct (lex m) as [segs tail]. cbn [fst snd] in *.
  destruct segs as [|sg segs'] eqn:ES.
  - cbn [run_segs flat_map app] in *. now subst tail.
  - rewrite <- ES. destruct (run_segs sty false (ends_with_bsl m) true segs sk [] false) as [[[sk' out] le]|e]; cbn [bind]; [|reflexivity].
    rewrite !apply_cur_false, removelast_lastchar. destruct le; reflexivity.
Qed.

Lemma run_segs_prefix sty col at0 : forall segs first sk o out le,
  run_segs sty col at0 first segs sk (o ++ out) le =
  match run_segs sty col at0 first segs sk out le with Ok (s, r, l) => Ok (s, o ++ r, l) | Err e => Err e end.
Proof.
  induction segs as [|[pre t] r IH]; intros first sk o out le; cbn [run_segs]; [reflexivity|].
  destruct (do_tag sty col _ t sk) as [x|e]; cbn [bind]; [|reflexivity]. rewrite <- app_assoc. apply IH.
Qed.
Lemma run_segs_le sty col at0 first sg segs sk out le le' :
  run_segs sty col at0 first (sg :: segs) sk out le = run_segs sty col at0 first (sg :: segs) sk out le'.
Proof. destruct sg. reflexivity. Qed.
Lemma run_segs_graft sty f (c0 p : list N) t (r : list (list N * tag)) sk out le : ends_with_bsl c0 = false ->
  run_segs sty false false f ((c0 ++ p, t) :: r) sk out le
  = run_segs sty false false false ((p, t) :: r) sk (out ++ c0) le.
Proof.
  intros Hc. cbn [run_segs]. rewrite !esc_flag, ends_app.
  assert ((match p with [] => ends_with_bsl c0 | _ :: _ => ends_with_bsl p end) = ends_with_bsl p) as -> by (destruct p; [exact Hc|reflexivity]).
  destruct (do_tag sty false (ends_with_bsl p) t sk) as [x|e]; cbn [bind]; [|reflexivity].
  rewrite !apply_cur_false, <- !app_assoc. reflexivity.
Qed.

Lemma do_tag_plain_out sty esc raw cl nm sk sk' x :
  do_tag sty false esc (Tag raw cl nm) sk = Ok (sk', x) -> x = [] \/ x = raw.
Proof.
  unfold do_tag. rewrite apply_cur_false. destruct esc; [intros H; inversion H; auto|].
  destruct (cl && match nm with [] => true | _ => false end); [intros H; inversion H; auto|].
  destruct (resolve sty (py_lower nm)) as [[st|]|e]; cbn [bind]; try discriminate.
  - destruct cl; [destruct (pop_style st sk); cbn [bind]; try discriminate|]; intros H; inversion H; auto.
  - intros H; inversion H; auto.
Qed.
Lemma run_segs_ends sty : forall segs f sk out le s r l,
  Forall seg_fine segs -> ends_with_bsl out = false ->
  run_segs sty false false f segs sk out le = Ok (s, r, l) -> ends_with_bsl r = false.
Proof.
  induction segs as [|[pre [raw cl nm]] rest IH]; intros f sk out le s r l Hs Ho H; cbn [run_segs] in H.
  - inversion H; subst. exact Ho.
  - inversion Hs as [|? ? (Hpre & Epre & Hraw) Hr]; subst. cbn [fst snd raw_text] in *.
    destruct (do_tag sty false _ (Tag raw cl nm) sk) as [[sk' x]|e] eqn:ET; cbn [bind fst snd] in H; [|discriminate].
    apply (IH _ _ _ _ _ _ _ Hr) in H; [exact H|]. rewrite apply_cur_false.
    apply ends_app_false; [exact Ho|]. apply ends_app_false; [exact Epre|].
    destruct (do_tag_plain_out _ _ _ _ _ _ _ _ ET) as [->| ->]; [reflexivity|apply no_bsl_ends, good_no_bsl, Hraw].
Qed.
Lemma run_segs_P sty (P : N -> Prop) : forall segs f at0 sk out le s r l,
  Forall (segP P) segs -> Forall P out ->
  run_segs sty false at0 f segs sk out le = Ok (s, r, l) -> Forall P r.
Proof.
  induction segs as [|[pre [raw cl nm]] rest IH]; intros f at0 sk out le s r l Hs Ho H; cbn [run_segs] in H.
  - inversion H; subst. exact Ho.
  - inversion Hs as [|? ? [Hpre Hraw] Hr]; subst. cbn [fst snd tagP] in *.
    destruct (do_tag sty false _ (Tag raw cl nm) sk) as [[sk' x]|e] eqn:ET; cbn [bind fst snd] in H; [|discriminate].
    apply (IH _ _ _ _ _ _ _ _ Hr) in H; [exact H|]. rewrite apply_cur_false.
    apply Forall_app. split; [exact Ho|]. apply Forall_app. split; [exact Hpre|].
    destruct (do_tag_plain_out _ _ _ _ _ _ _ _ ET) as [->| ->]; [constructor|exact Hraw].
Qed.
(* the undecorated rendering only rearranges characters of the message *)
Lemma colorize_plain_P sty (P : N -> Prop) sk m sk' o : Forall P m -> colorize sty false sk m = Ok (sk', o) -> Forall P o.
Proof.
  intros Hm. rewrite colorize_plain_eq. destruct (lex_P P m Hm) as [Hs Ht].
  destruct (run_segs sty false (ends_with_bsl m) true (fst (lex m)) sk [] false) as [[[s r] l]|e] eqn:ER; [|discriminate].
  intros H. inversion H; subst. apply unescape_P, Forall_app. split; [|exact Ht].
  apply (run_segs_P sty P _ _ _ _ _ _ _ _ _ Hs (Forall_nil _) ER).
Qed.

Lemma plain_out_ends sty sk m s r l : mfine m ->
  run_segs sty false false true (fst (lex m)) sk [] false = Ok (s, r, l) -> ends_with_bsl (r ++ snd (lex m)) = false.
Proof.
  intros Hm HR. destruct (mfine_segs m Hm) as [Hs _]. pose proof (mfine_tail m Hm) as Ht.
  apply ends_app_false; [|exact Ht]. apply (run_segs_ends sty (fst (lex m)) true sk [] false s r l Hs eq_refl HR).
Qed.

(* a closed fine message followed by a fine one: rendered one after the other *)
Lemma colorize_plain_app sty sk a b sk1 o1 sk2 o2 : closed a -> mfine a -> mfine b ->
  colorize sty false sk a = Ok (sk1, o1) -> colorize sty false sk1 b = Ok (sk2, o2) ->
  colorize sty false sk (a ++ b) = Ok (sk2, o1 ++ o2).
Proof.
  intros Hc Ha Hb. pose proof (mfine_app a b Hc Ha Hb) as Hab.
  rewrite !colorize_plain_eq, (lex_app a b Hc).
  assert (ends_with_bsl a = false) as A2 by apply Ha. assert (ends_with_bsl b = false) as B2 by apply Hb.
  assert (ends_with_bsl (a ++ b) = false) as C2 by apply Hab. rewrite A2, B2, C2.
  destruct (run_segs sty false false true (fst (lex a)) sk [] false) as [[[s1 r1] l1]|e] eqn:RA; [|discriminate].
  intros H; inversion H; subst sk1 o1; clear H.
  destruct (run_segs sty false false true (fst (lex b)) s1 [] false) as [[[s2 r2] l2]|e] eqn:RB; [|discriminate].
  intros H; inversion H; subst sk2 o2; clear H.
  pose proof (plain_out_ends sty sk a s1 r1 l1 Ha RA) as EA. pose proof (mfine_tail a Ha) as TA.
  set (ta := snd (lex a)) in *. set (tb := snd (lex b)) in *.
  unfold lex_cat. fold ta tb. destruct (fst (lex b)) as [|[p t] r] eqn:EL; cbn [fst snd]; unfold str in *.
  - cbn [run_segs] in RB. inversion RB; subst. rewrite RA. cbn [app]. rewrite app_assoc, (unescape_app_l _ _ EA). reflexivity.
  - rewrite run_segs_app, RA, (run_segs_graft sty false ta p t r s1 r1 l1 TA).
    rewrite (run_segs_le _ _ _ _ _ _ _ _ l1 false), <- (app_nil_r (r1 ++ ta)), run_segs_prefix. unfold str in *.
    rewrite <- (run_segs_first sty false true ((p, t) :: r) s1 [] false). unfold str in *. rewrite RB.
    rewrite <- app_assoc, (unescape_app_l _ _ EA). reflexivity.
Qed.
Lemma colorize_plain_nl sty sk a sk1 o1 : mfine a ->
  colorize sty false sk a = Ok (sk1, o1) -> colorize sty false sk (a ++ [NL]) = Ok (sk1, o1 ++ [NL]).
Proof.
  intros Ha. pose proof (mfine_nl a Ha) as Hn. destruct (lex_nl a) as [_ E].
  rewrite !colorize_plain_eq, E. destruct Ha as (_ & A2 & _), Hn as (_ & N2 & _). rewrite A2, N2. cbn [fst snd].
  destruct (run_segs sty false false true (fst (lex a)) sk [] false) as [[[s1 r1] l1]|e]; [|discriminate].
  intros H; inversion H; subst. rewrite app_assoc, unescape_app_r; [reflexivity|]. cbn. discriminate.
Qed.
Lemma colorize_plain_blanks sty sk n : colorize sty false sk (blanks n) = Ok (sk, blanks n).
Proof.
  unfold colorize. destruct (lex_blanks n) as [_ ->]. now rewrite (unescape_id _ (blanks_no_bsl n)).
Qed.
Lemma colorize_nil sty col sk : colorize sty col sk [] = Ok (sk, []).
Proof. reflexivity. Qed.

(* decorated against undecorated, when the style stack is empty at the end: the same text under the SGR sequences *)
Lemma apply_cur_empty x : apply_cur true [] x = x.
Proof. destruct x; reflexivity. Qed.
Lemma colorize_deco sty sk m o2 : mfine m -> colorize sty false sk m = Ok ([], o2) ->
  exists o1, colorize sty true sk m = Ok ([], o1) /\ strip_sgr o1 = o2.
Proof.
  intros Hm. destruct (mfine_segs m Hm) as [Hs Ht]. destruct Hm as (M1 & M2 & M3).
  unfold colorize. pose proof (lex_lossless m) as HL. destruct (lex m) as [segs tail]. cbn [fst snd] in *.
  destruct segs as [|sg segs'] eqn:ES.
  - intros H. inversion H; subst. eexists. split; [reflexivity|].
    apply strips_sgr_strip, strips_text, unescape_P, M1.
  - unfold str in *. rewrite <- ES in *. rewrite M2.
    pose proof (run_segs_lockstep_gen sty segs sk [] [] true false Hs lock_nil) as HR.
    destruct (run_segs sty true false true segs sk [] false) as [[[s1 r1] l1]|e1],
             (run_segs sty false false true segs sk [] false) as [[[s2 r2] l2]|e2]; try contradiction; cbn [bind]; [|discriminate].
    destruct HR as (-> & -> & (E1 & E2 & HK) & El). rewrite El, ES.
    rewrite !apply_cur_false, removelast_lastchar. intros H. inversion H; subst s2 o2. clear H.
    rewrite !apply_cur_empty, removelast_lastchar. eexists. split; [reflexivity|].
    rewrite (unescape_app_l _ _ E1), (unescape_app_l _ _ E2).
    apply strips_sgr_strip, strips_app; [exact HK|]. apply strips_text, unescape_P, Ht.
Qed.

(* ---------- 4. small list facts ---------- *)
Lemma flat_map_map {X Y Z} (f : Y -> list Z) (g : X -> Y) l : flat_map f (map g l) = flat_map (fun x => f (g x)) l.
Proof. induction l as [|x l IH]; cbn; [reflexivity|]. now rewrite IH. Qed.
Lemma flat_map_flat_map {X Y Z} (f : Y -> list Z) (g : X -> list Y) l :
  flat_map f (flat_map g l) = flat_map (fun x => flat_map f (g x)) l.
Proof. induction l as [|x l IH]; cbn; [reflexivity|]. now rewrite flat_map_app, IH. Qed.
Lemma Forall_flat_map {X Y} (P : Y -> Prop) (g : X -> list Y) l : Forall (fun x => Forall P (g x)) l -> Forall P (flat_map g l).
Proof. induction 1; cbn; [constructor|]. apply Forall_app. split; assumption. Qed.

Lemma join_cons2 (x y : str) r : join_with NL (x :: y :: r) = (x ++ [NL]) ++ join_with NL (y :: r).
Proof. cbn [join_with]. now rewrite <- app_assoc. Qed.
Lemma lines_of_ne s : lines_of s <> [].
Proof. induction s as [|c r IH]; cbn [lines_of]; [discriminate|]. destruct (N.eqb c LF); [discriminate|]. destruct (lines_of r); [contradiction|discriminate]. Qed.
Lemma join_lines s : join_with NL (lines_of s) = s.
Proof.
  induction s as [|c r IH]; [reflexivity|]. cbn [lines_of]. pose proof (lines_of_ne r) as Hne.
  destruct (N.eqb_spec c LF) as [->|Hc].
  - destruct (lines_of r) as [|l ls] eqn:E; [contradiction|]. rewrite join_cons2. cbn [app]. now rewrite IH.
  - destruct (lines_of r) as [|l ls] eqn:E; [contradiction|]. destruct ls as [|l2 ls]; cbn [join_with] in *; now rewrite <- IH.
Qed.
Definition no_lf (l : str) : Prop := Forall (fun c => N.eqb c LF = false) l.
Lemma lines_of_no_lf s : Forall no_lf (lines_of s).
Proof.
  induction s as [|c r IH]; cbn [lines_of]; [repeat constructor|]. destruct (N.eqb c LF) eqn:E.
  - constructor; [constructor|exact IH].
  - destruct (lines_of r) as [|l ls]; [repeat constructor; exact E|]. inversion IH; subst. constructor; [constructor; assumption|assumption].
Qed.

Definition nl_lines (vs : list str) : str := flat_map (fun v => v ++ [NL]) vs.
Lemma emits_no_lf l : no_lf l -> emits_of_text l = map Ch l.
Proof. unfold emits_of_text. induction 1 as [|c r Hc Hr IH]; cbn; [reflexivity|]. now rewrite Hc, IH. Qed.
Lemma emits_nl_lines vs : Forall no_lf vs -> emits_of_text (nl_lines vs) = flat_map (fun v => map Ch v ++ [Nl]) vs.
Proof.
  induction 1 as [|v r Hv Hr IH]; [reflexivity|]. unfold nl_lines in *. cbn [flat_map].
  rewrite !emits_of_text_app, IH, (emits_no_lf v Hv). reflexivity.
Qed.
Lemma emits_join vs : vs <> [] -> Forall no_lf vs ->
  emits_of_text (join_with NL vs) ++ [Nl] = flat_map (fun v => map Ch v ++ [Nl]) vs.
Proof.
  induction vs as [|v r IH]; intros Hne H; [congruence|]. inversion H as [|? ? Hv Hr]; subst.
  destruct r as [|v2 r].
  - cbn [join_with flat_map]. now rewrite (emits_no_lf v Hv), app_nil_r.
  - rewrite join_cons2. cbn [flat_map]. rewrite !emits_of_text_app, (emits_no_lf v Hv), <- !app_assoc.
    rewrite (IH ltac:(discriminate) Hr). change (emits_of_text [NL]) with [Nl]. cbn [flat_map]. now rewrite <- !app_assoc.
Qed.

Lemma split_at {X} (st : list X) i s : nth_error st i = Some s ->
  st = firstn i st ++ s :: skipn (S i) st /\ length (firstn i st) = i.
Proof.
  revert i. induction st as [|x r IH]; intros [|i] H; cbn in *; try discriminate.
  - inversion H. auto.
  - destruct (IH i H) as [E L]. split; [now rewrite <- E|now rewrite L].
Qed.
Lemma lastn_droplast {X} n (l : list X) : l = droplast n l ++ lastn n l.
Proof. unfold droplast, lastn. symmetry. apply firstn_skipn. Qed.

Section W.
Variable w : nat.
Hypothesis w_pos : 1 <= w.
Variable sty : styles.                      (* the style table of the formatter the sections share *)

(* ---------- 5. the formatter between two operations; good lines ---------- *)
Definition fmt_ok (f : formatter) : Prop := is_ansi f /\ f_styles f = sty /\ f_stack f = [].
Lemma format_ok f m o : fmt_ok f -> colorize sty true [] m = Ok ([], o) ->
  exists f', format f m None = Ok (f', o) /\ fmt_ok f'.
Proof.
  intros (Hk & Hs & Hst) H. unfold format, is_ansi in *. destruct (f_kind f) eqn:Ek; try contradiction.
  rewrite Hs, Hst, H. cbn [bind fst snd]. eexists. split; [reflexivity|]. unfold fmt_ok, is_ansi. cbn. rewrite ?Ek. auto.
Qed.
Lemma remove_format_ok f m o : fmt_ok f -> colorize sty false [] m = Ok ([], o) ->
  exists f', remove_format f m = Ok (f', o) /\ fmt_ok f'.
Proof.
  intros (Hk & Hs & Hst) H. unfold remove_format, is_ansi in *. destruct (f_kind f) eqn:Ek; try contradiction.
  rewrite Hs, Hst, H. cbn [bind fst snd]. eexists. split; [reflexivity|]. unfold fmt_ok, is_ansi. cbn. rewrite ?Ek. auto.
Qed.

(* the visible text of a line of markup *)
Definition vis (l : str) : str := match colorize sty false [] l with Ok (_, v) => v | Err _ => [] end.
Definition okline (l : str) : Prop := no_lf l /\ mfine l /\ colorize sty false [] l = Ok ([], vis l).
Lemma good_line_ok l : good_lineb sty l = true -> okline l.
Proof.
  unfold good_lineb. intros H. apply Bool.andb_true_iff in H as [H H3]. apply Bool.andb_true_iff in H as [H1 H2].
  repeat split.
  - rewrite forallb_forall in H1. apply Forall_forall. intros c Hc. specialize (H1 c Hc).
    apply Bool.andb_true_iff in H1 as [H1 _]. now destruct (N.eqb c LF).
  - apply fineb_mfine, H2.
  - apply fineb_mfine, H2.
  - apply fineb_mfine, H2.
  - unfold vis. destruct (colorize sty false [] l) as [[sk v]|e]; [|discriminate]. destruct sk; [reflexivity|discriminate].
Qed.
Lemma vis_eq l v : colorize sty false [] l = Ok ([], v) -> vis l = v.
Proof. unfold vis. now intros ->. Qed.
Lemma vis_no_lf l : okline l -> no_lf (vis l).
Proof. intros (H1 & _ & H3). exact (colorize_plain_P sty _ [] l [] (vis l) H1 H3). Qed.
Lemma okline_nil : okline [] /\ vis [] = [].
Proof. repeat split; try constructor. Qed.
Lemma blanks_no_lf n : no_lf (blanks n).
Proof. unfold blanks. induction n; cbn; [constructor|constructor; [reflexivity|assumption]]. Qed.
Lemma okline_indent n l : okline l -> okline (blanks n ++ l) /\ vis (blanks n ++ l) = blanks n ++ vis l.
Proof.
  intros (H1 & H2 & H3). destruct (lex_blanks n) as [Hc _].
  pose proof (colorize_plain_app sty [] (blanks n) l [] (blanks n) [] (vis l) Hc (mfine_blanks n) H2
                (colorize_plain_blanks sty [] n) H3) as HC.
  pose proof (vis_eq _ _ HC) as HV. repeat split.
  - apply Forall_app. split; [apply blanks_no_lf|exact H1].
  - apply (mfine_app _ _ Hc (mfine_blanks n) H2).
  - apply (mfine_app _ _ Hc (mfine_blanks n) H2).
  - apply (mfine_app _ _ Hc (mfine_blanks n) H2).
  - now rewrite HV.
  - exact HV.
Qed.

(* lines, each followed by a line feed, in one message: the lines one after the other *)
Lemma nl_lines_plain ls : Forall okline ls ->
  mfine (nl_lines ls) /\ colorize sty false [] (nl_lines ls) = Ok ([], nl_lines (map vis ls)).
Proof.
  induction 1 as [|l r (L1 & L2 & L3) Hr [IH1 IH2]]; [split; [apply mfine_nil|reflexivity]|].
  unfold nl_lines in *. cbn [flat_map map]. destruct (lex_nl l) as [Hc _]. split.
  - apply mfine_app; [exact Hc|apply mfine_nl, L2|exact IH1].
  - apply (colorize_plain_app sty [] (l ++ [NL]) _ [] (vis l ++ [NL]) [] _ Hc (mfine_nl l L2) IH1); [|exact IH2].
    apply colorize_plain_nl; assumption.
Qed.
(* lines joined by line feeds *)
Lemma join_plain es : es <> [] -> Forall okline es ->
  mfine (join_with NL es) /\ colorize sty false [] (join_with NL es) = Ok ([], join_with NL (map vis es)).
Proof.
  induction es as [|x r IH]; intros Hne H; [congruence|]. inversion H as [|? ? (L1 & L2 & L3) Hr]; subst.
  destruct r as [|y r].
  - cbn [join_with map]. split; assumption.
  - destruct (IH ltac:(discriminate) Hr) as [IH1 IH2]. cbn [map]. rewrite !join_cons2. destruct (lex_nl x) as [Hc _]. split.
    + apply mfine_app; [exact Hc|apply mfine_nl, L2|exact IH1].
    + apply (colorize_plain_app sty [] (x ++ [NL]) _ [] (vis x ++ [NL]) [] _ Hc (mfine_nl x L2) IH1); [|exact IH2].
      apply colorize_plain_nl; assumption.
Qed.
(* what the formatter writes for such a message: the visible text under SGR sequences; the style stack stays empty *)
Lemma deco_of_plain m v f : mfine m -> colorize sty false [] m = Ok ([], v) -> fmt_ok f ->
  exists f' a, format f m None = Ok (f', a) /\ fmt_ok f' /\ strip_sgr a = v.
Proof.
  intros Hm Hp Hf. destruct (colorize_deco sty [] m v Hm Hp) as (a & Ha & Hs).
  destruct (format_ok f m a Hf Ha) as (f' & H1 & H2). eauto.
Qed.

(* ---------- 6. rows ---------- *)
Definition line_rows (v : str) : list row := fill w [] v.
Definition vrows (ls : list str) : list row := flat_map (fun c => line_rows (vis c)) ls.     (* content lines -> rows *)
Definition sec_rows (s : sec) : list row := vrows (sc_content s).
Definition stacked (st : secs) : list row := flat_map sec_rows st.
Definition scr (R : list row) : term := {| rows := R ++ [[]]; cr := length R; cc := 0 |}.
Definition screen (st : secs) : term := scr (stacked st).
Definition sec_ok (s : sec) : Prop := sc_lines s = length (sec_rows s) /\ Forall okline (sc_content s).

Lemma count_rows_fill l : count_rows w l = length (line_rows l).
Proof.
  unfold count_rows, line_rows. rewrite (fill_length w w_pos l []) by (cbn; lia). cbn [length].
  destruct (length l) as [|n] eqn:E; [reflexivity|].
  replace (0 + S n - 1) with n by lia. replace (S n + w - 1) with (1 * w + n) by lia.
  rewrite Nat.div_add_l by lia. lia.
Qed.
Lemma feed_lines : forall vs R, Forall no_lf vs ->
  feed w (scr R) (flat_map (fun l => map Ch l ++ [Nl]) vs) = scr (R ++ flat_map line_rows vs).
Proof.
  unfold scr. induction vs as [|l r IH]; intros R Hn; cbn [flat_map].
  - now rewrite app_nil_r.
  - inversion Hn; subst. rewrite feed_app, (feed_line w w_pos l R).
    replace (length R + length (fill w [] l)) with (length (R ++ fill w [] l)) by (rewrite app_length; reflexivity).
    rewrite app_assoc. rewrite (IH (R ++ fill w [] l)) by assumption.
    unfold line_rows. now rewrite <- !app_assoc.
Qed.
Lemma pop_feed R1 R2 :
  feed w (scr (R1 ++ R2)) (if Nat.eqb (length R2) 0 then [] else [Up (length R2); EraseBelow]) = scr R1.
Proof.
  unfold scr. destruct (Nat.eqb (length R2) 0) eqn:E.
  - apply Nat.eqb_eq in E. destruct R2; [|cbn in E; lia]. cbn. now rewrite !app_nil_r.
  - rewrite <- app_assoc, app_length. apply (up_erase w w_pos R1 R2).
Qed.
Lemma stacked_app A B : stacked (A ++ B) = stacked A ++ stacked B.
Proof. unfold stacked. apply flat_map_app. Qed.
Lemma vrows_app a b : vrows (a ++ b) = vrows a ++ vrows b.
Proof. unfold vrows. apply flat_map_app. Qed.
Lemma vrows_vis ls : vrows ls = flat_map line_rows (map vis ls).
Proof. unfold vrows. now rewrite flat_map_map. Qed.
Lemma sum_lines B : Forall sec_ok B -> fold_left (fun a s => a + sc_lines s) B 0 = length (stacked B).
Proof.
  assert (forall B x, Forall sec_ok B -> fold_left (fun a s => a + sc_lines s) B x = x + length (stacked B)) as H.
  { induction B0 as [|s r IH]; intros x Hok; cbn; [lia|]. inversion Hok as [|? ? [Hl _] Hr]; subst.
    rewrite IH by assumption. unfold stacked. cbn [flat_map]. rewrite app_length, Hl. fold (stacked r). lia. }
  intros Hok. now rewrite H.
Qed.

(* _count_rows over good lines: their rows, and the formatter as it was *)
Lemma measure_ok : forall ls f acc, fmt_ok f -> Forall okline ls ->
  exists f', measure w f ls acc = Ok (f', acc + length (vrows ls)) /\ fmt_ok f'.
Proof.
  induction ls as [|l r IH]; intros f acc Hf H; cbn [measure].
  - exists f. split; [cbn; f_equal; f_equal; lia|exact Hf].
  - inversion H as [|? ? (L1 & L2 & L3) Hr]; subst. destruct (remove_format_ok f l (vis l) Hf L3) as (f1 & E1 & Hf1).
    rewrite E1. cbn [bind fst snd]. destruct (IH f1 (acc + count_rows w (vis l)) Hf1 Hr) as (f2 & E2 & Hf2).
    exists f2. split; [|exact Hf2]. rewrite E2, count_rows_fill. unfold vrows. cbn [flat_map]. rewrite app_length.
    f_equal. f_equal. lia.
Qed.

(* the newer sections printed again, in one format call *)
Lemma content_str_all B : flat_map content_str B = nl_lines (flat_map sc_content B).
Proof. unfold content_str, nl_lines. now rewrite flat_map_flat_map. Qed.
Lemma stacked_all B : stacked B = vrows (flat_map sc_content B).
Proof. unfold stacked, sec_rows, vrows. now rewrite flat_map_flat_map. Qed.
Lemma reprint_ok B f R : fmt_ok f -> Forall sec_ok B ->
  exists f' a, format f (flat_map content_str B) None = Ok (f', a) /\ fmt_ok f' /\
               feed w (scr R) (emits_of_ansi a) = scr (R ++ stacked B).
Proof.
  intros Hf Hok. rewrite content_str_all, stacked_all. set (ls := flat_map sc_content B).
  assert (Forall okline ls) as Hls.
  { apply Forall_flat_map. eapply Forall_impl; [|exact Hok]. intros s [_ H]. exact H. }
  destruct (nl_lines_plain ls Hls) as [H1 H2]. destruct (deco_of_plain _ _ f H1 H2 Hf) as (f' & a & E & Hf' & Hs).
  exists f', a. split; [exact E|]. split; [exact Hf'|].
  assert (Forall no_lf (map vis ls)) as Hv.
  { apply Forall_map. eapply Forall_impl; [|exact Hls]. exact vis_no_lf. }
  rewrite feed_ansi, Hs, (emits_nl_lines _ Hv), (feed_lines _ R Hv), vrows_vis. reflexivity.
Qed.

(* the written text: its lines as the stream gets them and as add_content keeps them *)
Lemma indent_text_join n text : indent_text n text = join_with NL (content_lines n text).
Proof. unfold indent_text, content_lines. destruct (Nat.eqb n 0); [now rewrite join_lines|reflexivity]. Qed.
Lemma content_lines_ok n text : Forall okline (lines_of text) -> Forall okline (content_lines n text) /\ content_lines n text <> [].
Proof.
  intros H. pose proof (lines_of_ne text) as Hne. unfold content_lines. destruct (Nat.eqb n 0); [split; assumption|]. split.
  - apply Forall_map. eapply Forall_impl; [|exact H]. intros l Hl. unfold indent_line. destruct l; [exact Hl|].
    apply okline_indent, Hl.
  - destruct (lines_of text); [contradiction|discriminate].
Qed.
Lemma write_ok f n text R : fmt_ok f -> Forall okline (lines_of text) ->
  exists f' a, format f (indent_text n text) None = Ok (f', a) /\ fmt_ok f' /\
               feed w (scr R) (emits_of_ansi a ++ [Nl]) = scr (R ++ vrows (content_lines n text)).
Proof.
  intros Hf H. destruct (content_lines_ok n text H) as [Hes Hne]. rewrite indent_text_join.
  destruct (join_plain _ Hne Hes) as [H1 H2]. destruct (deco_of_plain _ _ f H1 H2 Hf) as (f' & a & E & Hf' & Hs).
  exists f', a. split; [exact E|]. split; [exact Hf'|].
  assert (Forall no_lf (map vis (content_lines n text))) as Hv.
  { apply Forall_map. eapply Forall_impl; [|exact Hes]. exact vis_no_lf. }
  assert (map vis (content_lines n text) <> []) as Hne' by (destruct (content_lines n text); [contradiction|discriminate]).
  rewrite feed_drop_sgr, drop_sgr_app, drop_sgr_ansi, Hs. change (drop_sgr [Nl]) with [Nl].
  rewrite (emits_join _ Hne' Hv), (feed_lines _ R Hv), vrows_vis. reflexivity.
Qed.

(* ---------- 7. the invariant: the screen is the stack, every row count is right, the style stack is empty ---------- *)
Lemma good_text_spec text : good_textb sty text = true -> Forall okline (lines_of text).
Proof.
  unfold good_textb. intros H. rewrite forallb_forall in H. apply Forall_forall. intros l Hl. apply good_line_ok, H, Hl.
Qed.

Definition Inv (st : secs) (f : formatter) (t : term) : Prop := t = screen st /\ Forall sec_ok st /\ fmt_ok f.

Lemma Forall_split (st : secs) i s : Forall sec_ok st -> nth_error st i = Some s ->
  Forall sec_ok (firstn i st) /\ sec_ok s /\ Forall sec_ok (skipn (S i) st).
Proof.
  intros Hok Hn. destruct (split_at st i s Hn) as [E _]. rewrite E in Hok.
  apply Forall_app in Hok as [H1 H2]. inversion H2; subst. auto.
Qed.

Lemma write_step st f t i text nl s :
  Inv st f t -> nth_error st i = Some s -> good_textb sty text = true ->
  exists st' f' es, sstep_ansi w st f (SWrite i text nl) = Ok (st', f', es) /\ Inv st' f' (feed w t es).
Proof.
  intros (-> & Hok & Hf) Hn Hg. pose proof (good_text_spec _ Hg) as Hlines.
  destruct (Forall_split st i s Hok Hn) as (HA & [Hl Hc] & HB). destruct (split_at st i s Hn) as [E _].
  cbn [sstep_ansi]. rewrite Hn. unfold erased, pop_ctl, newer.
  set (A := firstn i st) in *. set (B := skipn (S i) st) in *. set (n := sc_indent s) in *.
  destruct (content_lines_ok n text Hlines) as [Hcl _].
  destruct (measure_ok (content_lines n text) f (sc_lines s) Hf Hcl) as (f1 & E1 & Hf1). rewrite E1. cbn [bind fst snd].
  destruct (write_ok f1 n text (stacked A ++ sec_rows s) Hf1 Hlines) as (f2 & a & E2 & Hf2 & F2). rewrite E2. cbn [bind fst snd].
  destruct (reprint_ok B f2 ((stacked A ++ sec_rows s) ++ vrows (content_lines n text)) Hf2 HB) as (f3 & a2 & E3 & Hf3 & F3).
  rewrite E3. cbn [bind fst snd].
  eexists _, _, _. split; [reflexivity|]. split; [|split; [|exact Hf3]].
  - unfold screen. rewrite E at 1. rewrite stacked_app. cbn [stacked flat_map]. fold (stacked B).
    rewrite !feed_app. cbn [Nat.add]. rewrite (sum_lines B HB).
    rewrite (app_assoc (stacked A) (sec_rows s) (stacked B)), pop_feed.
    rewrite <- (feed_app w _ (emits_of_ansi a) [Nl]), F2, F3.
    unfold set_sec. fold A B. rewrite stacked_app. cbn [stacked flat_map]. fold (stacked B).
    unfold sec_rows at 2. cbn [sc_content]. rewrite vrows_app. fold (sec_rows s). now rewrite <- !app_assoc.
  - unfold set_sec. fold A B. apply Forall_app. split; [exact HA|]. constructor; [|exact HB].
    split; cbn [sc_lines sc_content].
    + unfold sec_rows. cbn [sc_content]. rewrite vrows_app, app_length, Hl. reflexivity.
    + apply Forall_app. split; assumption.
Qed.

Lemma clear_step st f t i n s :
  Inv st f t -> nth_error st i = Some s ->
  exists st' f' es, sstep_ansi w st f (SClear i n) = Ok (st', f', es) /\ Inv st' f' (feed w t es).
Proof.
  intros (-> & Hok & Hf) Hn. cbn [sstep_ansi]. rewrite Hn.
  destruct (sc_content s) as [|c0 cs] eqn:Ec.
  { eexists _, _, _. split; [reflexivity|]. repeat split; auto; apply Hf. }
  rewrite <- Ec.
  destruct (Forall_split st i s Hok Hn) as (HA & [Hl Hc] & HB). destruct (split_at st i s Hn) as [E _].
  unfold erased, pop_ctl, newer. set (A := firstn i st) in *. set (B := skipn (S i) st) in *.
  (* what is kept, how many rows go away, the formatter afterwards *)
  assert (exists keep gone f1, sc_content s = keep ++ gone /\ fmt_ok f1 /\
            match n with
            | Some (S k) => do m <- measure w f (lastn (S k) (sc_content s)) 0; Ok (droplast (S k) (sc_content s), snd m, fst m)
            | _ => Ok ([], sc_lines s, f)
            end = Ok (keep, length (vrows gone), f1)) as (keep & gone & f1 & Hsplit & Hf1 & Hkr).
  { destruct n as [[|k]|].
    - exists [], (sc_content s), f. split; [reflexivity|]. split; [exact Hf|]. now rewrite Hl.
    - assert (Forall okline (lastn (S k) (sc_content s))) as Hg.
      { rewrite (lastn_droplast (S k) (sc_content s)) in Hc. apply Forall_app in Hc. tauto. }
      destruct (measure_ok _ f 0 Hf Hg) as (f1 & E1 & Hf1).
      exists (droplast (S k) (sc_content s)), (lastn (S k) (sc_content s)), f1.
      split; [apply lastn_droplast|]. split; [exact Hf1|]. rewrite E1. reflexivity.
    - exists [], (sc_content s), f. split; [reflexivity|]. split; [exact Hf|]. now rewrite Hl. }
  rewrite Hkr. cbn [bind].
  assert (sec_rows s = vrows keep ++ vrows gone) as Hrows by (unfold sec_rows; rewrite Hsplit; apply vrows_app).
  destruct (reprint_ok B f1 (stacked A ++ vrows keep) Hf1 HB) as (f3 & a2 & E3 & Hf3 & F3). rewrite E3. cbn [bind fst snd].
  eexists _, _, _. split; [reflexivity|]. split; [|split; [|exact Hf3]].
  - unfold screen. rewrite E at 1. rewrite stacked_app. cbn [stacked flat_map]. fold (stacked B). rewrite Hrows.
    rewrite feed_app, (sum_lines B HB), <- app_length.
    replace (stacked A ++ (vrows keep ++ vrows gone) ++ stacked B) with ((stacked A ++ vrows keep) ++ (vrows gone ++ stacked B))
      by (now rewrite <- !app_assoc).
    rewrite pop_feed, F3. unfold set_sec. fold A B. rewrite stacked_app. cbn [stacked flat_map]. fold (stacked B).
    unfold sec_rows at 1. cbn [sc_content]. now rewrite <- !app_assoc.
  - unfold set_sec. fold A B. apply Forall_app. split; [exact HA|]. constructor; [|exact HB].
    split; cbn [sc_lines sc_content].
    + unfold sec_rows at 1. cbn [sc_content]. rewrite Hl, Hrows, app_length. lia.
    + rewrite Hsplit in Hc. apply Forall_app in Hc. tauto.
Qed.

(* one operation *)
Lemma step_inv st f t o : Inv st f t -> good_opb sty o = true ->
  exists st' f' es, sstep w st f o = Ok (st', f', es) /\ Inv st' f' (feed w t es).
Proof.
  intros HI Hg. destruct o as [ind|i0 text0|i text nl|i text|i n|i n]; cbn [sstep good_opb] in *.
  2: discriminate.      (* add_content alone is outside the class *)
  - (* create *)
    cbn [sstep_ansi]. eexists _, _, _. split; [reflexivity|].
    destruct HI as (-> & Hok & Hf). split; [|split; [|exact Hf]].
    + unfold screen. rewrite stacked_app. cbn. now rewrite app_nil_r.
    + apply Forall_app. split; [exact Hok|]. constructor; [|constructor]. split; cbn; constructor.
  - destruct (nth_error st i) as [s|] eqn:Hn.
    + apply (write_step st f t i text nl s HI Hn Hg).
    + cbn [sstep_ansi]. rewrite Hn. eexists _, _, _. split; [reflexivity|exact HI].
  - (* overwrite = clear, then write_line *)
    destruct (nth_error st i) as [s|] eqn:Hn.
    + destruct (clear_step st f t i None s HI Hn) as (st1 & f1 & e1 & E1 & HI1). rewrite E1. cbn [bind fst snd].
      destruct (nth_error st1 i) as [s1|] eqn:Hn1.
      * destruct (write_step st1 f1 _ i text true s1 HI1 Hn1 Hg) as (st2 & f2 & e2 & E2 & HI2). rewrite E2. cbn [bind fst snd].
        eexists _, _, _. split; [reflexivity|]. now rewrite feed_app.
      * cbn [sstep_ansi]. rewrite Hn1. cbn [bind fst snd]. eexists _, _, _. split; [reflexivity|]. now rewrite app_nil_r.
    + cbn [sstep_ansi]. rewrite Hn. cbn [bind fst snd sstep_ansi]. rewrite Hn.
      eexists _, _, _. split; [reflexivity|exact HI].
  - destruct (nth_error st i) as [s|] eqn:Hn.
    + apply (clear_step st f t i n s HI Hn).
    + cbn [sstep_ansi]. rewrite Hn. eexists _, _, _. split; [reflexivity|exact HI].
  - (* indent: nothing on the screen changes *)
    cbn [sstep_ansi]. destruct (nth_error st i) as [s|] eqn:Hn.
    + eexists _, _, _. split; [reflexivity|].
      destruct HI as (-> & Hok & Hf). destruct (Forall_split st i s Hok Hn) as (HA & [Hl Hc] & HB).
      destruct (split_at st i s Hn) as [E _].
      assert (stacked (set_sec st i (with_indent s n)) = stacked st) as ES.
      { rewrite E at 2. unfold set_sec. now rewrite !stacked_app. }
      split; [unfold screen; now rewrite ES|]. split; [|exact Hf]. unfold set_sec. apply Forall_app. split; [exact HA|].
      constructor; [|exact HB]. split; assumption.
    + eexists _, _, _. split; [reflexivity|exact HI].
Qed.

Lemma run_inv ops : forall st f t, Inv st f t -> good_opsb sty ops = true ->
  exists st' f' es, srun true w st f ops = Ok (st', f', es) /\ Inv st' f' (feed w t es).
Proof.
  induction ops as [|o r IH]; intros st f t HI Hg; cbn [srun].
  - eexists _, _, _. split; [reflexivity|exact HI].
  - cbn [good_opsb forallb] in Hg. apply Bool.andb_true_iff in Hg as [Hg1 Hg2].
    destruct (step_inv st f t o HI Hg1) as (st1 & f1 & e1 & E1 & HI1). rewrite E1. cbn [bind fst snd].
    destruct (IH st1 f1 _ HI1 Hg2) as (st2 & f2 & e2 & E2 & HI2). rewrite E2. cbn [bind fst snd].
    eexists _, _, _. split; [reflexivity|]. now rewrite feed_app.
Qed.
End W.

(* ---------- 8. the theorem ---------- *)
Lemma screen_is_stack_lemma w : 1 <= w -> forall f0 ops, is_ansi f0 -> f_stack f0 = [] ->
  good_opsb (f_styles f0) ops = true ->
  exists st f es, srun true w [] f0 ops = Ok (st, f, es) /\
    feed w term_init es = screen w (f_styles f0) st /\ Forall (sec_ok w (f_styles f0)) st /\ fmt_ok (f_styles f0) f.
Proof.
  intros w_pos f0 ops Hk Hs Hg.
  assert (Inv w (f_styles f0) [] f0 term_init) as H0.
  { split; [reflexivity|]. split; [constructor|]. repeat split; auto. }
  destruct (run_inv w w_pos (f_styles f0) ops [] f0 term_init H0 Hg) as (st & f & es & E & Ht & Hok & Hf).
  exists st, f, es. auto.
Qed.

(* ---------- 9. the special case: plain texts, indentation 0 ---------- *)
Definition plain_char (c : N) : Prop := c <> LT /\ c <> BSL /\ c <> ESC /\ c <> TAB.
Definition plain_text (t : str) : Prop := Forall plain_char t.
Definition plain_op (o : sop) : Prop :=
  match o with SWrite _ t _ | SOverwrite _ t => plain_text t | SIndent _ n => n = 0 | SCreate ind => ind = 0
             | SAddContent _ _ => False | _ => True end.

Lemma lines_of_P (P : N -> Prop) s : Forall P s -> Forall (Forall P) (lines_of s).
Proof.
  induction 1 as [|c r Hc Hr IH]; cbn [lines_of]; [repeat constructor|]. destruct (N.eqb c LF).
  - constructor; [constructor|exact IH].
  - destruct (lines_of r) as [|l ls]; [repeat constructor; exact Hc|]. inversion IH; subst. constructor; [constructor; assumption|assumption].
Qed.
Lemma plain_colorize sty sk l : Forall plain_char l -> colorize sty false sk l = Ok (sk, l).
Proof.
  intros H. unfold colorize. rewrite lex_no_tag.
  - rewrite unescape_id; [reflexivity|]. eapply Forall_impl; [|exact H]. intros c (_ & Hc & _). exact Hc.
  - eapply Forall_impl; [|exact H]. intros c (Hc & _). exact Hc.
Qed.
Lemma plain_vis sty l : Forall plain_char l -> vis sty l = l.
Proof. intros H. unfold vis. now rewrite plain_colorize. Qed.
Lemma plain_line_good sty l : Forall plain_char l -> no_lf l -> good_lineb sty l = true.
Proof.
  intros H Hn. unfold good_lineb, fineb. rewrite (plain_colorize sty [] l H), lex_no_tag.
  2: { eapply Forall_impl; [|exact H]. intros c (Hc & _). exact Hc. }
  rewrite (no_bsl_ends l). 2: { eapply Forall_impl; [|exact H]. intros c (_ & Hc & _). exact Hc. }
  cbn [fst forallb negb andb]. rewrite !Bool.andb_true_r. apply Bool.andb_true_iff. split.
  - apply forallb_forall. intros c Hc. unfold no_lf in Hn. rewrite Forall_forall in H, Hn.
    rewrite (Hn c Hc). destruct (H c Hc) as (_ & _ & _ & Ht). destruct (N.eqb_spec c TAB); [contradiction|reflexivity].
  - apply forallb_forall. intros c Hc. rewrite Forall_forall in H. destruct (H c Hc) as (_ & _ & He & _).
    destruct (N.eqb_spec c ESC); [contradiction|reflexivity].
Qed.
Lemma plain_text_good sty text : plain_text text -> good_textb sty text = true.
Proof.
  intros H. unfold good_textb.
  apply forallb_forall. intros l Hl. pose proof (lines_of_P _ text H) as HP. pose proof (lines_of_no_lf text) as HN.
  rewrite Forall_forall in HP, HN. apply plain_line_good; auto.
Qed.
Lemma plain_ops_good sty ops : Forall plain_op ops -> good_opsb sty ops = true.
Proof.
  unfold good_opsb. intros H. apply forallb_forall. intros o Ho. rewrite Forall_forall in H. specialize (H o Ho).
  destruct o; cbn [good_opb plain_op] in *; try reflexivity; try contradiction; apply plain_text_good, H.
Qed.

(* the content lines of a run of plain operations are the lines written: plain, not indented *)
Definition all_content (P : str -> Prop) (st : secs) : Prop := Forall (fun s => Forall P (sc_content s) /\ sc_indent s = 0) st.
Lemma all_content_set (P : str -> Prop) st i s s' : nth_error st i = Some s -> all_content P st ->
  Forall P (sc_content s') -> sc_indent s' = 0 -> all_content P (set_sec st i s').
Proof.
  intros Hn H H1 H2. destruct (split_at st i s Hn) as [E _]. unfold all_content, set_sec in *. rewrite E in H.
  apply Forall_app in H as [HA HB]. inversion HB; subst. apply Forall_app. split; [exact HA|]. constructor; auto.
Qed.
Lemma all_content_nth (P : str -> Prop) st i s : nth_error st i = Some s -> all_content P st -> Forall P (sc_content s) /\ sc_indent s = 0.
Proof. intros Hn H. unfold all_content in H. rewrite Forall_forall in H. apply H. eapply nth_error_In. exact Hn. Qed.
Lemma firstn_P {X} (P : X -> Prop) n l : Forall P l -> Forall P (firstn n l).
Proof. intros H. rewrite <- (firstn_skipn n l) in H. apply Forall_app in H. tauto. Qed.
Lemma step_ansi_content w st f o st' f' es : plain_op o -> all_content (Forall plain_char) st ->
  sstep_ansi w st f o = Ok (st', f', es) -> all_content (Forall plain_char) st'.
Proof.
  intros Ho Ha. destruct o as [ind|i0 text0|i text nl|i text|i n|i n]; cbn [sstep_ansi plain_op] in *.
  2: contradiction.
  - intros H. inversion H; subst. apply Forall_app. split; [exact Ha|]. repeat constructor.
  - destruct (nth_error st i) as [s|] eqn:Hn; [|intros H; inversion H; subst; exact Ha].
    destruct (all_content_nth _ st i s Hn Ha) as [Hc Hi]. rewrite Hi.
    destruct (measure w f _ _) as [m|e]; cbn [bind]; [|discriminate].
    destruct (format (fst m) _ None) as [x|e]; cbn [bind]; [|discriminate].
    destruct (format (fst x) _ None) as [y|e]; cbn [bind]; [|discriminate].
    intros H. inversion H; subst. apply (all_content_set _ st i s _ Hn Ha); [|first [reflexivity|exact Hi]]. cbn [sc_content].
    apply Forall_app. split; [exact Hc|]. unfold content_lines. cbn [Nat.eqb]. apply lines_of_P, Ho.
  - intros H. inversion H; subst. exact Ha.
  - destruct (nth_error st i) as [s|] eqn:Hn; [|intros H; inversion H; subst; exact Ha].
    destruct (all_content_nth _ st i s Hn Ha) as [Hc Hi].
    destruct (sc_content s) as [|c0 cs] eqn:Ec; [intros H; inversion H; subst; exact Ha|]. rewrite <- Ec in *.
    destruct n as [[|k]|]; cbn [bind].
    + destruct (format f _ None) as [y|e]; cbn [bind]; [|discriminate]. intros H. inversion H; subst.
      apply (all_content_set _ st i s _ Hn Ha); [constructor|first [reflexivity|exact Hi]].
    + destruct (measure w f _ 0) as [m|e]; cbn [bind]; [|discriminate].
      destruct (format (fst m) _ None) as [y|e]; cbn [bind]; [|discriminate]. intros H. inversion H; subst.
      apply (all_content_set _ st i s _ Hn Ha); [|first [reflexivity|exact Hi]]. cbn [sc_content]. apply firstn_P, Hc.
    + destruct (format f _ None) as [y|e]; cbn [bind]; [|discriminate]. intros H. inversion H; subst.
      apply (all_content_set _ st i s _ Hn Ha); [constructor|first [reflexivity|exact Hi]].
  - subst n. destruct (nth_error st i) as [s|] eqn:Hn; intros H; inversion H; subst; [|exact Ha].
    destruct (all_content_nth _ st i s Hn Ha) as [Hc Hi]. apply (all_content_set _ st i s _ Hn Ha); [exact Hc|reflexivity].
Qed.
Lemma step_content w st f o st' f' es : plain_op o -> all_content (Forall plain_char) st ->
  sstep w st f o = Ok (st', f', es) -> all_content (Forall plain_char) st'.
Proof.
  intros Ho Ha. destruct o as [ind|i0 text0|i text nl|i text|i n|i n]; try apply (step_ansi_content w st f _ st' f' es Ho Ha).
  cbn [sstep]. destruct (sstep_ansi w st f (SClear i None)) as [[[st1 f1] e1]|e] eqn:E1; cbn [bind fst snd]; [|discriminate].
  pose proof (step_ansi_content w st f (SClear i None) st1 f1 e1 I Ha E1) as H1.
  destruct (sstep_ansi w st1 f1 (SWrite i text true)) as [[[st2 f2] e2]|e] eqn:E2; cbn [bind fst snd]; [|discriminate].
  intros H. inversion H; subst. apply (step_ansi_content w st1 f1 (SWrite i text true) _ _ _ Ho H1 E2).
Qed.
Lemma run_content w ops : forall st f st' f' es, Forall plain_op ops -> all_content (Forall plain_char) st ->
  srun true w st f ops = Ok (st', f', es) -> all_content (Forall plain_char) st'.
Proof.
  induction ops as [|o r IH]; intros st f st' f' es Ho Ha; cbn [srun]; [intros H; inversion H; subst; exact Ha|].
  inversion Ho as [|? ? Ho1 Hor]; subst.
  destruct (sstep w st f o) as [[[st1 f1] e1]|e] eqn:E1; cbn [bind fst snd]; [|discriminate].
  destruct (srun true w st1 f1 r) as [[[st2 f2] e2]|e] eqn:E2; cbn [bind fst snd]; [|discriminate].
  intros H. inversion H; subst. apply (IH st1 f1 _ _ _ Hor (step_content w st f o st1 f1 e1 Ho1 Ha E1) E2).
Qed.

(* the rows of the raw content lines *)
Definition plain_rows (w : nat) (st : secs) : list (list N) := flat_map (fun s => flat_map (fill w []) (sc_content s)) st.
Definition plain_screen (w : nat) (st : secs) : term := scr (plain_rows w st).
Lemma plain_stacked w sty st : all_content (Forall plain_char) st -> stacked w sty st = plain_rows w st.
Proof.
  unfold stacked, plain_rows, sec_rows, vrows, line_rows, all_content. induction 1 as [|s r [Hs _] Hr IH]; cbn [flat_map]; [reflexivity|].
  rewrite IH. f_equal. clear -Hs. induction Hs as [|l ls Hl Hls IH]; cbn [flat_map]; [reflexivity|]. now rewrite IH, (plain_vis sty l Hl).
Qed.
Lemma screen_is_stack_plain_lemma w : 1 <= w -> forall f0 ops, is_ansi f0 -> f_stack f0 = [] -> Forall plain_op ops ->
  exists st f es, srun true w [] f0 ops = Ok (st, f, es) /\
    feed w term_init es = plain_screen w st /\
    Forall (fun s => sc_lines s = length (flat_map (fill w []) (sc_content s)) /\ sc_indent s = 0) st.
Proof.
  intros w_pos f0 ops Hk Hs Hp.
  destruct (screen_is_stack_lemma w w_pos f0 ops Hk Hs (plain_ops_good (f_styles f0) ops Hp))
    as (st & f & es & E & Ht & Hok & _).
  pose proof (run_content w ops [] f0 st f es Hp (Forall_nil _) E) as Hc.
  exists st, f, es. split; [exact E|]. split.
  - rewrite Ht. unfold screen, plain_screen. now rewrite (plain_stacked w (f_styles f0) st Hc).
  - unfold all_content in Hc. rewrite Forall_forall in *. intros s Hin. destruct (Hok s Hin) as [Hl _]. destruct (Hc s Hin) as [Hpl Hi].
    split; [|exact Hi]. rewrite Hl. unfold sec_rows, vrows, line_rows. f_equal.
    clear -Hpl. induction Hpl as [|l ls Hl Hls IH]; cbn [flat_map]; [reflexivity|]. now rewrite IH, (plain_vis _ l Hl).
Qed.

(* ---------- 10. without ANSI support: no control codes at all, only appended text ---------- *)
Definition plain_emit (e : emit) : bool := match e with Ch _ | Nl => true | _ => false end.
Lemma emits_of_text_plain s : forallb plain_emit (emits_of_text s) = true.
Proof. unfold emits_of_text. induction s as [|c r IH]; cbn; [reflexivity|]. destruct (N.eqb c LF); cbn; exact IH. Qed.
Lemma write_plain_emits f n text nl x : write_plain f n text nl = Ok x -> forallb plain_emit (snd x) = true.
Proof.
  unfold write_plain. destruct (remove_format f _) as [y|e]; cbn [bind]; [|discriminate]. intros H. inversion H; subst. cbn [snd].
  rewrite forallb_app, emits_of_text_plain. destruct nl; reflexivity.
Qed.
Lemma plain_degrades_lemma w ops : forall st f r, srun false w st f ops = Ok r -> forallb plain_emit (snd r) = true.
Proof.
  induction ops as [|o r IH]; intros st f x; cbn [srun]; [intros H; inversion H; reflexivity|].
  destruct (sstep_plain w st f o) as [[[st1 f1] e1]|e] eqn:E1; cbn [bind fst snd]; [|discriminate].
  destruct (srun false w st1 f1 r) as [[[st2 f2] e2]|e] eqn:E2; cbn [bind fst snd]; [|discriminate].
  intros H. inversion H; subst. cbn [snd]. rewrite forallb_app. specialize (IH st1 f1 _ E2). cbn [snd] in IH. rewrite IH, Bool.andb_true_r.
  destruct o as [ind|i0 text0|i text nl|i text|i n|i n]; cbn [sstep_plain] in E1.
  - inversion E1; reflexivity.
  - unfold add_content_step in E1. destruct (nth_error st i0); [|inversion E1; reflexivity].
    destruct (measure w f _ _) as [m|e]; cbn [bind] in E1; [|discriminate]. inversion E1; reflexivity.
  - destruct (nth_error st i); [|inversion E1; reflexivity].
    destruct (write_plain f _ text nl) as [y|e] eqn:EW; cbn [bind] in E1; [|discriminate]. inversion E1; subst. apply (write_plain_emits _ _ _ _ _ EW).
  - destruct (nth_error st i); [|inversion E1; reflexivity].
    destruct (write_plain f _ text true) as [y|e] eqn:EW; cbn [bind] in E1; [|discriminate]. inversion E1; subst. apply (write_plain_emits _ _ _ _ _ EW).
  - inversion E1; reflexivity.
  - destruct (nth_error st i); inversion E1; reflexivity.
Qed.

(* ---------- 11. one good line ---------- *)
Lemma good_line_shown_lemma w sty f l : fmt_ok sty f -> good_lineb sty l = true ->
  (exists f', remove_format f l = Ok (f', vis sty l) /\ fmt_ok sty f') /\
  (exists f' a, format f l None = Ok (f', a) /\ fmt_ok sty f' /\ strip_sgr a = vis sty l) /\
  (exists f', measure w f [l] 0 = Ok (f', count_rows w (vis sty l)) /\ fmt_ok sty f').
Proof.
  intros Hf Hg. destruct (good_line_ok sty l Hg) as (H1 & H2 & H3). split; [|split].
  - apply (remove_format_ok sty f l _ Hf H3).
  - apply (deco_of_plain sty l _ f H2 H3 Hf).
  - cbn [measure]. destruct (remove_format_ok sty f l _ Hf H3) as (f' & E & Hf'). rewrite E. cbn [bind fst snd]. eauto.
Qed.

(* ---------- 12. the run told in full (srun_part) is the run ---------- *)
Lemma srun_part_ok ansi w ops : forall st f st' f' es,
  srun ansi w st f ops = Ok (st', f', es) <-> srun_part ansi w st f ops = (st', f', es, None).
Proof.
  induction ops as [|o r IH]; intros st f st' f' es; cbn [srun srun_part].
  - split; intros H; inversion H; reflexivity.
  - destruct (if ansi then sstep w st f o else sstep_plain w st f o) as [[[st1 f1] e1]|k]; cbn [bind fst snd].
    2: split; discriminate.
    specialize (IH st1 f1).
    destruct (srun ansi w st1 f1 r) as [[[st2 f2] e2]|k2]; cbn [bind fst snd];
      destruct (srun_part ansi w st1 f1 r) as [[[st3 f3] e3] [[j k3]|]]; cbn [option_map].
    + pose proof (proj1 (IH st2 f2 e2) eq_refl) as X. discriminate X.
    + pose proof (proj1 (IH st2 f2 e2) eq_refl) as X. inversion X; subst. split; intros H; inversion H; reflexivity.
    + split; discriminate.
    + pose proof (proj2 (IH st3 f3 e3) eq_refl) as X. discriminate X.
Qed.
(* ... and when a call raises, everything before it is the run of the calls before it *)
Lemma srun_part_err ansi w ops : forall st f st' f' es j k,
  srun_part ansi w st f ops = (st', f', es, Some (j, k)) ->
  srun ansi w st f (firstn j ops) = Ok (st', f', es) /\
  exists o, nth_error ops j = Some o /\ (if ansi then sstep w st' f' o else sstep_plain w st' f' o) = Err k.
Proof.
  induction ops as [|o r IH]; intros st f st' f' es j k; cbn [srun_part]; [discriminate|].
  destruct (if ansi then sstep w st f o else sstep_plain w st f o) as [[[st1 f1] e1]|k1] eqn:E1; cbn [fst snd].
  - destruct (srun_part ansi w st1 f1 r) as [[[st3 f3] e3] [[j3 k3]|]] eqn:E2; cbn [option_map fst snd]; [|discriminate].
    intros H. inversion H; subst. destruct (IH _ _ _ _ _ _ _ E2) as (Hr & o' & Hn & He).
    split; [|exists o'; split; assumption]. cbn [firstn srun]. rewrite E1. cbn [bind fst snd]. rewrite Hr. reflexivity.
  - intros H. inversion H; subst. split; [reflexivity|]. exists o. split; [reflexivity|exact E1].
Qed.

(* ---------- 13. without ANSI support: exactly the appended lines ---------- *)
(* what an undecorated run puts on the stream, said without the formatter: for every write / write_line / overwrite on a
   section that exists, the VISIBLE text of the indented lines of the text, joined by line feeds, and one more line feed
   after write_line / overwrite; nothing for section(), indent, clear.  inds: the indentation of every section. *)
Definition set_ind (inds : list nat) (i n : nat) : list nat :=
  match nth_error inds i with Some _ => firstn i inds ++ n :: skipn (S i) inds | None => inds end.
Definition vis_text (sty : styles) (n : nat) (text : str) : str := join_with NL (map (vis sty) (content_lines n text)).
Fixpoint plain_out (sty : styles) (inds : list nat) (ops : list sop) : list emit :=
  match ops with
  | [] => []
  | SCreate k :: r => plain_out sty (inds ++ [k]) r
  | SIndent i n :: r => plain_out sty (set_ind inds i n) r
  | SWrite i text nl :: r =>
    (match nth_error inds i with Some n => emits_of_text (vis_text sty n text) ++ (if nl then [Nl] else []) | None => [] end)
    ++ plain_out sty inds r
  | SOverwrite i text :: r =>
    (match nth_error inds i with Some n => emits_of_text (vis_text sty n text) ++ [Nl] | None => [] end) ++ plain_out sty inds r
  | _ :: r => plain_out sty inds r
  end.

Definition pfmt_ok (sty : styles) (f : formatter) : Prop := f_kind f <> FNull /\ f_styles f = sty /\ f_stack f = [].
Lemma remove_format_pok sty f m o : pfmt_ok sty f -> colorize sty false [] m = Ok ([], o) ->
  exists f', remove_format f m = Ok (f', o) /\ pfmt_ok sty f'.
Proof.
  intros (Hk & Hs & Hst) H. unfold remove_format. destruct (f_kind f) eqn:Ek; try congruence;
    rewrite Hs, Hst, H; cbn [bind fst snd]; eexists; (split; [reflexivity|]); unfold pfmt_ok; cbn; rewrite ?Ek; repeat split; congruence.
Qed.
Lemma write_plain_ok sty f n text nl : pfmt_ok sty f -> good_textb sty text = true ->
  exists f', write_plain f n text nl = Ok (f', emits_of_text (vis_text sty n text) ++ (if nl then [Nl] else [])) /\ pfmt_ok sty f'.
Proof.
  intros Hf Hg. pose proof (good_text_spec sty text Hg) as Hl. destruct (content_lines_ok sty n text Hl) as [Hes Hne].
  unfold write_plain. rewrite indent_text_join. destruct (join_plain sty _ Hne Hes) as [_ H2].
  destruct (remove_format_pok sty f _ _ Hf H2) as (f' & E & Hf'). rewrite E. cbn [bind fst snd]. eauto.
Qed.
Lemma map_indent_set st i s n : nth_error st i = Some s ->
  map sc_indent (set_sec st i (with_indent s n)) = set_ind (map sc_indent st) i n.
Proof.
  intros H. unfold set_sec, set_ind. rewrite (map_nth_error sc_indent _ _ H), map_app. cbn [map with_indent sc_indent].
  now rewrite firstn_map, skipn_map.
Qed.
Lemma nth_indent st i : nth_error (map sc_indent st) i = option_map sc_indent (nth_error st i).
Proof.
  destruct (nth_error st i) as [s|] eqn:E; [exact (map_nth_error sc_indent _ _ E)|].
  apply nth_error_None. rewrite map_length. now apply nth_error_None.
Qed.
Lemma plain_run_appends w sty ops : forall st f, pfmt_ok sty f -> good_opsb sty ops = true ->
  exists st' f', srun false w st f ops = Ok (st', f', plain_out sty (map sc_indent st) ops) /\ pfmt_ok sty f'.
Proof.
  induction ops as [|o r IH]; intros st f Hf Hg; cbn [srun].
  - eexists _, _. split; [reflexivity|exact Hf].
  - cbn [good_opsb forallb] in Hg. apply Bool.andb_true_iff in Hg as [Hg1 Hg2].
    destruct o as [ind|i0 text0|i text nl|i text|i n|i n]; cbn [sstep_plain plain_out good_opb] in *.
    + cbn [bind fst snd]. destruct (IH (st ++ [new_sec ind]) f Hf Hg2) as (st' & f' & E & Hf'). rewrite E. cbn [bind fst snd app].
      rewrite map_app in *. eexists _, _. split; [reflexivity|exact Hf'].
    + discriminate.
    + rewrite nth_indent. destruct (nth_error st i) as [s|]; cbn [option_map].
      * destruct (write_plain_ok sty f (sc_indent s) text nl Hf Hg1) as (f1 & E1 & Hf1). rewrite E1. cbn [bind fst snd].
        destruct (IH st f1 Hf1 Hg2) as (st' & f' & E & Hf'). rewrite E. cbn [bind fst snd]. eexists _, _. split; [reflexivity|exact Hf'].
      * cbn [bind fst snd]. destruct (IH st f Hf Hg2) as (st' & f' & E & Hf'). rewrite E. cbn [bind fst snd app]. eexists _, _. split; [reflexivity|exact Hf'].
    + rewrite nth_indent. destruct (nth_error st i) as [s|]; cbn [option_map].
      * destruct (write_plain_ok sty f (sc_indent s) text true Hf Hg1) as (f1 & E1 & Hf1). rewrite E1. cbn [bind fst snd].
        destruct (IH st f1 Hf1 Hg2) as (st' & f' & E & Hf'). rewrite E. cbn [bind fst snd]. eexists _, _. split; [reflexivity|exact Hf'].
      * cbn [bind fst snd]. destruct (IH st f Hf Hg2) as (st' & f' & E & Hf'). rewrite E. cbn [bind fst snd app]. eexists _, _. split; [reflexivity|exact Hf'].
    + cbn [bind fst snd]. destruct (IH st f Hf Hg2) as (st' & f' & E & Hf'). rewrite E. cbn [bind fst snd app]. eexists _, _. split; [reflexivity|exact Hf'].
    + destruct (nth_error st i) as [s|] eqn:En; cbn [bind fst snd].
      * destruct (IH (set_sec st i (with_indent s n)) f Hf Hg2) as (st' & f' & E & Hf'). rewrite E. cbn [bind fst snd app].
        rewrite (map_indent_set st i s n En) in *. eexists _, _. split; [reflexivity|exact Hf'].
      * destruct (IH st f Hf Hg2) as (st' & f' & E & Hf'). rewrite E. cbn [bind fst snd app].
        unfold set_ind. rewrite nth_indent, En. cbn [option_map]. eexists _, _. split; [reflexivity|exact Hf'].
Qed.
(* ... and no escape byte is among them *)
Lemma vis_no_esc sty l : okline sty l -> no_esc (vis sty l).
Proof. intros (_ & (H1 & _) & H3). exact (colorize_plain_P sty _ [] l [] (vis sty l) H1 H3). Qed.
Lemma join_no_esc (ls : list str) : Forall no_esc ls -> no_esc (join_with NL ls).
Proof.
  induction 1 as [|l r Hl Hr IH]; [constructor|]. destruct r as [|y r]; cbn [join_with]; [exact Hl|].
  apply Forall_app. split; [exact Hl|]. constructor; [discriminate|exact IH].
Qed.
Lemma emits_no_esc s : no_esc s -> Forall (fun e => e <> Ch ESC) (emits_of_text s).
Proof.
  unfold emits_of_text. induction 1 as [|c r Hc Hr IH]; cbn [map]; constructor; [|exact IH].
  destruct (N.eqb c LF); [discriminate|]. intros E. inversion E. contradiction.
Qed.
Lemma vis_text_no_esc sty n text : good_textb sty text = true -> no_esc (vis_text sty n text).
Proof.
  intros Hg. destruct (content_lines_ok sty n text (good_text_spec sty text Hg)) as [Hes _].
  apply join_no_esc, Forall_map. eapply Forall_impl; [|exact Hes]. apply vis_no_esc.
Qed.
Lemma plain_out_no_esc sty ops : forall inds, good_opsb sty ops = true -> Forall (fun e => e <> Ch ESC) (plain_out sty inds ops).
Proof.
  induction ops as [|o r IH]; intros inds Hg; [constructor|].
  cbn [good_opsb forallb] in Hg. apply Bool.andb_true_iff in Hg as [Hg1 Hg2].
  destruct o as [ind|i0 text0|i text nl|i text|i n|i n]; cbn [plain_out good_opb] in *; try (apply IH; exact Hg2).
  - apply Forall_app. split; [|apply IH; exact Hg2]. destruct (nth_error inds i); [|constructor].
    apply Forall_app. split; [apply emits_no_esc, vis_text_no_esc, Hg1|]. destruct nl; repeat constructor; discriminate.
  - apply Forall_app. split; [|apply IH; exact Hg2]. destruct (nth_error inds i); [|constructor].
    apply Forall_app. split; [apply emits_no_esc, vis_text_no_esc, Hg1|]. repeat constructor; discriminate.
Qed.
