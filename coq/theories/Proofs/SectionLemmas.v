(* Proofs about Model/Section.v (C15): the screen is the stack of the sections' contents. *)
From Coq Require Import Lia Arith.
From Clikit Require Import Base.Prelude Base.Res Base.Term Model.Section Proofs.TermLemmas.

Section W.
Variable w : nat.
Hypothesis w_pos : 1 <= w.

Definition line_rows (l : str) : list row := fill w [] l.
Definition sec_rows (s : sec) : list row := flat_map line_rows (sc_content s).
Definition stack (st : secs) : list row := flat_map sec_rows st.
Definition screen (st : secs) : term := {| rows := stack st ++ [[]]; cr := length (stack st); cc := 0 |}.
Definition no_lf (l : str) : Prop := Forall (fun c => N.eqb c LF = false) l.
Definition sec_ok (s : sec) : Prop := sc_lines s = length (sec_rows s) /\ Forall no_lf (sc_content s).

Lemma count_rows_fill l : count_rows w l = length (line_rows l).
Proof.
  unfold count_rows, line_rows. rewrite (fill_length w w_pos l []) by (cbn; lia). cbn [length].
  destruct (length l) as [|n] eqn:E; [reflexivity|].
  replace (0 + S n - 1) with n by lia. replace (S n + w - 1) with (1 * w + n) by lia.
  rewrite Nat.div_add_l by lia. lia.
Qed.

Lemma emits_no_lf l : no_lf l -> emits_of_text l = map Ch l.
Proof.
  unfold emits_of_text. induction 1 as [|c r Hc Hr IH]; cbn; [reflexivity|]. now rewrite Hc, IH.
Qed.

(* text ++ "\n" is its lines, each followed by LF *)
Lemma lines_of_spec s :
  emits_of_text s ++ [Nl] = flat_map (fun l => map Ch l ++ [Nl]) (lines_of s) /\ Forall no_lf (lines_of s) /\ lines_of s <> [].
Proof.
  induction s as [|c r (IH1 & IH2 & IH3)]; cbn [lines_of].
  - repeat split; cbn; auto; [repeat constructor | discriminate].
  - destruct (N.eqb c LF) eqn:E.
    + cbn [emits_of_text map app flat_map]. rewrite E. cbn [map app]. repeat split.
      * f_equal. exact IH1.
      * constructor; [constructor|exact IH2].
      * discriminate.
    + destruct (lines_of r) as [|l ls] eqn:El; [contradiction|].
      cbn [emits_of_text map app flat_map] in *. rewrite E. repeat split.
      * cbn [map app]. f_equal. exact IH1.
      * inversion IH2; subst. constructor; [constructor; assumption|assumption].
      * discriminate.
Qed.

(* feeding lines *)
Lemma feed_lines : forall ls R, Forall no_lf ls ->
  feed w {| rows := R ++ [[]]; cr := length R; cc := 0 |} (flat_map (fun l => map Ch l ++ [Nl]) ls)
  = {| rows := (R ++ flat_map line_rows ls) ++ [[]]; cr := length (R ++ flat_map line_rows ls); cc := 0 |}.
Proof.
  induction ls as [|l r IH]; intros R Hn; cbn [flat_map].
  - now rewrite app_nil_r.
  - inversion Hn; subst. rewrite feed_app, (feed_line w w_pos l R).
    replace (length R + length (fill w [] l)) with (length (R ++ fill w [] l)) by (rewrite app_length; reflexivity).
    rewrite app_assoc. rewrite (IH (R ++ fill w [] l)) by assumption.
    unfold line_rows. now rewrite <- !app_assoc.
Qed.

Lemma content_text_spec s : Forall no_lf (sc_content s) ->
  content_text s = flat_map (fun l => map Ch l ++ [Nl]) (sc_content s).
Proof.
  unfold content_text. induction 1 as [|l r Hl Hr IH]; cbn [flat_map]; [reflexivity|].
  now rewrite (emits_no_lf l Hl), IH.
Qed.

Lemma feed_sections : forall B R, Forall sec_ok B ->
  feed w {| rows := R ++ [[]]; cr := length R; cc := 0 |} (flat_map content_text B)
  = {| rows := (R ++ stack B) ++ [[]]; cr := length (R ++ stack B); cc := 0 |}.
Proof.
  induction B as [|s r IH]; intros R Hok; cbn [flat_map stack].
  - now rewrite app_nil_r.
  - inversion Hok as [|? ? [Hl Hn] Hr]; subst. rewrite feed_app, (content_text_spec s Hn), (feed_lines _ R Hn).
    fold (sec_rows s). rewrite (IH (R ++ sec_rows s) Hr). unfold stack. cbn [flat_map]. now rewrite <- !app_assoc.
Qed.

Lemma sum_lines B : Forall sec_ok B -> fold_left (fun a s => a + sc_lines s) B 0 = length (stack B).
Proof.
  assert (forall B x, Forall sec_ok B -> fold_left (fun a s => a + sc_lines s) B x = x + length (stack B)) as H.
  { induction B0 as [|s r IH]; intros x Hok; cbn; [lia|]. inversion Hok as [|? ? [Hl _] Hr]; subst.
    rewrite IH by assumption. unfold stack. cbn [flat_map]. rewrite app_length, Hl. fold (stack r). lia. }
  intros Hok. now rewrite H.
Qed.
Lemma sum_rows ls x : fold_left (fun a l => a + count_rows w l) ls x = x + length (flat_map line_rows ls).
Proof.
  revert x. induction ls as [|l r IH]; intros x; cbn; [lia|]. rewrite IH, app_length, count_rows_fill. lia.
Qed.

(* decomposition of the section list around index i *)
Lemma split_at (st : secs) i s : nth_error st i = Some s ->
  st = firstn i st ++ s :: skipn (S i) st /\ length (firstn i st) = i.
Proof.
  revert i. induction st as [|x r IH]; intros [|i] H; cbn in *; try discriminate.
  - inversion H. auto.
  - destruct (IH i H) as [E L]. split; [now rewrite <- E|now rewrite L].
Qed.
Lemma stack_app A B : stack (A ++ B) = stack A ++ stack B.
Proof. unfold stack. apply flat_map_app. Qed.
Lemma Forall_split (st : secs) i s : Forall sec_ok st -> nth_error st i = Some s ->
  Forall sec_ok (firstn i st) /\ sec_ok s /\ Forall sec_ok (skipn (S i) st).
Proof.
  intros Hok Hn. destruct (split_at st i s Hn) as [E _]. rewrite E in Hok.
  apply Forall_app in Hok as [H1 H2]. inversion H2; subst. auto.
Qed.

(* up over the newer sections (plus `clear` rows of this one), erase, re-print the newer ones *)
Lemma pop_and_reprint A (C : list row) B :
  Forall sec_ok B ->
  let total := length C + fold_left (fun a s => a + sc_lines s) B 0 in
  feed w {| rows := (A ++ C ++ stack B) ++ [[]]; cr := length (A ++ C ++ stack B); cc := 0 |}
       ((if Nat.eqb total 0 then [] else [Up total; EraseBelow]) ++ flat_map content_text B)
  = {| rows := (A ++ stack B) ++ [[]]; cr := length (A ++ stack B); cc := 0 |}.
Proof.
  intros Hok total. unfold total. rewrite (sum_lines B Hok). rewrite feed_app.
  assert (feed w {| rows := (A ++ C ++ stack B) ++ [[]]; cr := length (A ++ C ++ stack B); cc := 0 |}
               (if Nat.eqb (length C + length (stack B)) 0 then [] else [Up (length C + length (stack B)); EraseBelow])
          = {| rows := A ++ [[]]; cr := length A; cc := 0 |}) as ->.
  { destruct (Nat.eqb (length C + length (stack B)) 0) eqn:E.
    - apply Nat.eqb_eq in E. assert (C = []) as -> by (destruct C; [reflexivity|cbn in E; lia]).
      assert (stack B = []) as -> by (destruct (stack B); [reflexivity|cbn in E; lia]).
      cbn. now rewrite !app_nil_r.
    - rewrite <- (app_length C (stack B)).
      rewrite <- (app_assoc A (C ++ stack B) [[]]).
      rewrite (app_length A (C ++ stack B)).
      apply (up_erase w w_pos A (C ++ stack B)). }
  apply feed_sections, Hok.
Qed.

Lemma sec_rows_app s ls n :
  sec_rows {| sc_content := sc_content s ++ ls; sc_lines := n |} = sec_rows s ++ flat_map line_rows ls.
Proof. unfold sec_rows. cbn [sc_content]. apply flat_map_app. Qed.

Definition Inv (st : secs) (t : term) : Prop := t = screen st /\ Forall sec_ok st.

Lemma set_sec_split (st : secs) i s s' : nth_error st i = Some s ->
  set_sec st i s' = firstn i st ++ s' :: skipn (S i) st.
Proof. reflexivity. Qed.

Lemma write_step st t i text nl s :
  Inv st t -> nth_error st i = Some s ->
  let '(st', es) := sstep_ansi w st (SWrite i text nl) in Inv st' (feed w t es).
Proof.
  intros [-> Hok] Hn. cbn [sstep_ansi]. rewrite Hn. unfold pop_until, newer.
  destruct (Forall_split st i s Hok Hn) as (HA & [Hl Hnl] & HB).
  destruct (split_at st i s Hn) as [E _].
  set (A := firstn i st) in *. set (B := skipn (S i) st) in *.
  destruct (lines_of_spec text) as (Htext & Hlf & _).
  cbn [Nat.add]. split.
  - unfold screen. rewrite E at 1 2. rewrite stack_app. cbn [stack flat_map]. fold (stack B).
    rewrite (app_assoc (emits_of_text text) [Nl]), Htext.
    rewrite feed_app, feed_app.
    (* first: up + erase *)
    assert (feed w {| rows := (stack A ++ sec_rows s ++ stack B) ++ [[]]; cr := length (stack A ++ sec_rows s ++ stack B); cc := 0 |}
                 (if Nat.eqb (fold_left (fun a s0 => a + sc_lines s0) B 0) 0 then []
                  else [Up (fold_left (fun a s0 => a + sc_lines s0) B 0); EraseBelow])
            = {| rows := (stack A ++ sec_rows s) ++ [[]]; cr := length (stack A ++ sec_rows s); cc := 0 |}) as ->.
    { pose proof (pop_and_reprint (stack A ++ sec_rows s) [] []) as H0. cbn [length Nat.add app flat_map] in H0.
      rewrite (sum_lines B HB).
      destruct (Nat.eqb (length (stack B)) 0) eqn:E0.
      - apply Nat.eqb_eq in E0. destruct (stack B); [|cbn in E0; lia]. cbn. now rewrite !app_nil_r, <- app_assoc.
      - rewrite (app_assoc (stack A)). rewrite <- (app_assoc (stack A ++ sec_rows s) (stack B) [[]]).
        rewrite (app_length (stack A ++ sec_rows s) (stack B)).
        apply (up_erase w w_pos (stack A ++ sec_rows s) (stack B)). }
    rewrite (feed_lines (lines_of text) (stack A ++ sec_rows s) Hlf).
    rewrite (feed_sections B _ HB).
    rewrite set_sec_split with (s := s) by assumption. fold A B.
    rewrite stack_app. cbn [stack flat_map]. fold (stack B). rewrite !sec_rows_app. now rewrite <- !app_assoc.
  - rewrite set_sec_split with (s := s) by assumption. fold A B.
    apply Forall_app. split; [exact HA|]. constructor; [|exact HB].
    split; cbn [sc_lines sc_content].
    + rewrite sum_rows, Hl, sec_rows_app. now rewrite app_length.
    + apply Forall_app. auto.
Qed.

Lemma lastn_droplast {X} n (l : list X) : l = droplast n l ++ lastn n l.
Proof. unfold droplast, lastn. symmetry. apply firstn_skipn. Qed.

Lemma clear_step st t i n s :
  Inv st t -> nth_error st i = Some s ->
  let '(st', es) := sstep_ansi w st (SClear i n) in Inv st' (feed w t es).
Proof.
  intros [-> Hok] Hn. cbn [sstep_ansi]. rewrite Hn.
  destruct (sc_content s) as [|c0 cs] eqn:Ec; [cbn; split; auto|]. rewrite <- Ec.
  destruct (Forall_split st i s Hok Hn) as (HA & [Hl Hnl] & HB).
  destruct (split_at st i s Hn) as [E _].
  set (A := firstn i st) in *. set (B := skipn (S i) st) in *.
  (* what is kept, and how many rows go away *)
  set (kr := match n with
             | Some (S k) => (droplast (S k) (sc_content s),
                              fold_left (fun a l => a + count_rows w l) (lastn (S k) (sc_content s)) 0)
             | _ => ([], sc_lines s) end).
  assert (exists keep gone, sc_content s = keep ++ gone /\ kr = (keep, length (flat_map line_rows gone))) as (keep & gone & Hsplit & Hkr).
  { unfold kr. destruct n as [[|k]|].
    - exists [], (sc_content s). split; [reflexivity|]. now rewrite Hl.
    - exists (droplast (S k) (sc_content s)), (lastn (S k) (sc_content s)). split; [apply lastn_droplast|].
      now rewrite sum_rows.
    - exists [], (sc_content s). split; [reflexivity|]. now rewrite Hl. }
  fold kr. rewrite Hkr. unfold pop_until, newer. fold B.
  assert (sec_rows s = flat_map line_rows keep ++ flat_map line_rows gone) as Hrows
    by (unfold sec_rows; rewrite Hsplit; apply flat_map_app).
  split.
  - unfold screen. rewrite E at 1 2. rewrite stack_app. cbn [stack flat_map]. fold (stack B). rewrite Hrows.
    pose proof (pop_and_reprint (stack A ++ flat_map line_rows keep) (flat_map line_rows gone) B HB) as Hpop.
    cbn zeta in Hpop. rewrite <- !app_assoc in Hpop. rewrite <- !app_assoc. rewrite Hpop.
    rewrite set_sec_split with (s := s) by assumption. fold A B.
    rewrite stack_app. cbn [stack flat_map]. fold (stack B). unfold sec_rows at 1. cbn [sc_content].
    now rewrite <- !app_assoc.
  - rewrite set_sec_split with (s := s) by assumption. fold A B.
    apply Forall_app. split; [exact HA|]. constructor; [|exact HB].
    split; cbn [sc_lines sc_content].
    + unfold sec_rows at 1. cbn [sc_content]. rewrite Hl, Hrows, app_length. lia.
    + rewrite Hsplit in Hnl. apply Forall_app in Hnl. tauto.
Qed.

Lemma write_step_any st t i text nl :
  Inv st t -> let '(st', es) := sstep_ansi w st (SWrite i text nl) in Inv st' (feed w t es).
Proof.
  intros HI. destruct (nth_error st i) as [s|] eqn:Hn.
  - apply (write_step st t i text nl s HI Hn).
  - cbn [sstep_ansi]. rewrite Hn. exact HI.
Qed.
Lemma clear_step_any st t i n :
  Inv st t -> let '(st', es) := sstep_ansi w st (SClear i n) in Inv st' (feed w t es).
Proof.
  intros HI. destruct (nth_error st i) as [s|] eqn:Hn.
  - apply (clear_step st t i n s HI Hn).
  - cbn [sstep_ansi]. rewrite Hn. exact HI.
Qed.

Lemma step_inv st t o : Inv st t -> let '(st', es) := sstep w st o in Inv st' (feed w t es).
Proof.
  intros HI. destruct o as [|i text nl|i text|i n].
  - (* create *)
    cbn. destruct HI as [-> Hok]. split.
    + unfold screen. rewrite stack_app. cbn. now rewrite !app_nil_r.
    + apply Forall_app. split; [exact Hok|]. constructor; [|constructor]. split; cbn; constructor.
  - apply write_step_any, HI.
  - cbn [sstep]. pose proof (clear_step_any st t i None HI) as H1.
    destruct (sstep_ansi w st (SClear i None)) as [st1 e1].
    pose proof (write_step_any st1 (feed w t e1) i text true H1) as H2.
    destruct (sstep_ansi w st1 (SWrite i text true)) as [st2 e2].
    rewrite feed_app. exact H2.
  - apply clear_step_any, HI.
Qed.

(* every reachable state: the screen shows exactly the stacked section contents *)
Lemma run_inv ops : forall st t, Inv st t ->
  let '(st', es) := srun true w st ops in Inv st' (feed w t es).
Proof.
  induction ops as [|o r IH]; intros st t HI; cbn [srun]; [exact HI|].
  pose proof (step_inv st t o HI) as H1. destruct (sstep w st o) as [st1 e1].
  pose proof (IH st1 (feed w t e1) H1) as H2. destruct (srun true w st1 r) as [st2 e2].
  rewrite feed_app. exact H2.
Qed.

Lemma screen_is_stack_lemma ops :
  let '(st, es) := srun true w [] ops in
  feed w term_init es = screen st /\ Forall sec_ok st.
Proof.
  assert (Inv [] term_init) as H0 by (split; [reflexivity|constructor]).
  pose proof (run_inv ops [] term_init H0) as H. destruct (srun true w [] ops) as [st es]. exact H.
Qed.

(* without ANSI support: no control codes at all, only appended text *)
Definition plain_emit (e : emit) : bool := match e with Ch _ | Nl => true | _ => false end.
Lemma emits_of_text_plain s : forallb plain_emit (emits_of_text s) = true.
Proof. unfold emits_of_text. induction s as [|c r IH]; cbn; [reflexivity|]. destruct (N.eqb c LF); cbn; exact IH. Qed.
Lemma plain_degrades_lemma ops : forall st, forallb plain_emit (snd (srun false w st ops)) = true.
Proof.
  induction ops as [|o r IH]; intros st; cbn [srun]; [reflexivity|].
  destruct (sstep_plain st o) as [st1 e1] eqn:E1. specialize (IH st1). destruct (srun false w st1 r) as [st2 e2].
  cbn [snd] in *. rewrite forallb_app, IH, andb_true_r.
  destruct o; cbn in E1; inversion E1; subst; cbn; rewrite ?forallb_app, ?emits_of_text_plain; try reflexivity.
  destruct new_line; reflexivity.
Qed.
End W.
