(* C04: the whole run (Model/RunLine.v) composed with the trace renderer of C20, as Proofs/RunTraceLemmas.v does for
   Model/Run.v. *)
From Coq Require Import Lia.
From Clikit Require Import Base.Prelude Base.Res Model.Conv Model.Markup Model.OutputM Model.Trace Model.Run Model.RunLine
  Proofs.MarkupLemmas Proofs.OutputLemmas Proofs.TraceLemmas Proofs.LiteralLemmas Proofs.TraceRenderLemmas
  Proofs.TraceSolutionLemmas Proofs.RunLemmas Proofs.RunTraceLemmas Proofs.RunLineLemmas.

(* ------------------------------------------------------------------ the renderer discharged (C20's trace model) *)
(* render_ok is "ExceptionTrace.render returned": report_ok of Proofs/RunTraceLemmas.v, true under the hypotheses on the
   output, whatever the exception case and the solutions - so the whole run never lets anything escape, whichever step
   fails *)
Lemma run_line_rendered {A} sty c o x sols simple catch quiet debug io (rs : A + exn) ls h :
  out_ok sty o -> resolvable sty st_error -> resolvable sty st_b ->
  (decorated o = true -> inputs_ne c x /\ Forall sol_ne sols) ->
  run_cmdline catch (report_ok c o x sols simple) quiet debug io rs ls h = run_cmdline catch true quiet debug io rs ls h.
Proof. intros Ho Herr Hb Hne. rewrite (report_ok_true sty c o x sols simple Ho Herr Hb Hne). reflexivity. Qed.
Lemma line_status_rendered {A} sty c o x sols simple quiet debug io (rs : A + exn) ls h :
  out_ok sty o -> resolvable sty st_error -> resolvable sty st_b ->
  (decorated o = true -> inputs_ne c x /\ Forall sol_ne sols) ->
  exists s, l_end (run_cmdline true (report_ok c o x sols simple) quiet debug io rs ls h) = Status s /\ (0 <= s <= 255)%Z.
Proof. intros Ho Herr Hb Hne. rewrite (run_line_rendered sty c o x sols simple true quiet debug io rs ls h Ho Herr Hb Hne). apply line_status_lemma. Qed.

