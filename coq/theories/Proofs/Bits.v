(* f & (1 << k) as a bit test; f | (1 << k) as setting a bit — for all integers f (negative ones included). *)
From Coq Require Import Lia.
From Clikit Require Import Base.Prelude.

Lemma land_pow2_testbit f k : (0 <= k)%Z -> (Z.land f (2 ^ k) =? 0)%Z = negb (Z.testbit f k).
Proof.
  intros Hk. destruct (Z.testbit f k) eqn:E; cbn.
  - apply Z.eqb_neq. intros H. assert (Z.testbit (Z.land f (2 ^ k)) k = false) by (rewrite H; apply Z.bits_0).
    rewrite Z.land_spec, E, Z.pow2_bits_true in H0 by assumption. discriminate.
  - apply Z.eqb_eq. apply Z.bits_inj'. intros n Hn. rewrite Z.land_spec, Z.bits_0.
    destruct (Z.eq_dec n k) as [->|Hne]; [now rewrite E|].
    rewrite Z.pow2_bits_false by lia. apply andb_false_r.
Qed.
Lemma testbit_lor_pow2 f j k : (0 <= j)%Z -> (0 <= k)%Z ->
  Z.testbit (Z.lor f (2 ^ j)) k = Z.testbit f k || (k =? j)%Z.
Proof.
  intros Hj Hk. rewrite Z.lor_spec. f_equal.
  destruct (Z.eqb_spec k j) as [->|Hne]; [apply Z.pow2_bits_true; lia | apply Z.pow2_bits_false; lia].
Qed.
