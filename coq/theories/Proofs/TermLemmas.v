(* The terminal: writing a line occupies max 1 (ceil (L / w)) rows (the line lemma), cursor moves. *)
From Coq Require Import Lia Arith.
From Clikit Require Import Base.Prelude Base.Term.

Section W.
Variable w : nat.
Hypothesis w_pos : 1 <= w.

Lemma put_cell_end : forall r c, put_cell r (length r) c = r ++ [c].
Proof. induction r as [|x r IH]; intros c; cbn; [reflexivity| now rewrite IH]. Qed.
Lemma upd_row_last : forall (R : list row) cur f, upd_row (R ++ [cur]) (length R) f = R ++ [f cur].
Proof. induction R as [|r R IH]; intros cur f; cbn; [reflexivity| now rewrite IH]. Qed.
Lemma upd_row_new : forall (R : list row) f, upd_row R (length R) f = R ++ [f []].
Proof. induction R as [|r R IH]; intros f; cbn; [reflexivity| now rewrite IH]. Qed.

Lemma feed_app t a b : feed w t (a ++ b) = feed w (feed w t a) b.
Proof. unfold feed. apply fold_left_app. Qed.

Lemma feed1_full : forall R cur c, length cur = w ->
  feed1 w {| rows := R ++ [cur]; cr := length R; cc := length cur |} (Ch c)
  = {| rows := (R ++ [cur]) ++ [[c]]; cr := length (R ++ [cur]); cc := length [c] |}.
Proof.
  intros R cur c H. unfold feed1. cbn [cc cr rows].
  rewrite (proj2 (Nat.eqb_eq _ _) H).
  replace (S (length R)) with (length (R ++ [cur])) by (rewrite app_length; cbn; lia).
  rewrite upd_row_new. reflexivity.
Qed.
Lemma feed1_room : forall R cur c, length cur <> w ->
  feed1 w {| rows := R ++ [cur]; cr := length R; cc := length cur |} (Ch c)
  = {| rows := R ++ [cur ++ [c]]; cr := length R; cc := length (cur ++ [c]) |}.
Proof.
  intros R cur c H. unfold feed1. cbn [cc cr rows].
  rewrite (proj2 (Nat.eqb_neq _ _) H).
  rewrite upd_row_last, put_cell_end, app_length. cbn [length].
  replace (length cur + 1) with (S (length cur)) by lia. reflexivity.
Qed.

Lemma fill_ne : forall s cur, fill w cur s <> [].
Proof. induction s as [|c s IH]; intros cur; cbn; [discriminate|]. destruct (Nat.eqb (length cur) w); [discriminate| apply IH]. Qed.

(* the state after writing s into a terminal whose last row is cur (cursor at its end) *)
Lemma feed_text : forall s R cur, length cur <= w ->
  feed w {| rows := R ++ [cur]; cr := length R; cc := length cur |} (map Ch s)
  = {| rows := R ++ fill w cur s; cr := length R + length (fill w cur s) - 1;
       cc := length (last (fill w cur s) []) |}.
Proof.
  induction s as [|c s IH]; intros R cur Hc.
  - cbn. f_equal. lia.
  - cbn [map fill]. unfold feed in *. cbn [fold_left].
    destruct (Nat.eqb (length cur) w) eqn:E.
    + apply Nat.eqb_eq in E. rewrite (feed1_full R cur c E).
      rewrite (IH (R ++ [cur]) [c] w_pos). f_equal.
      * now rewrite <- app_assoc.
      * rewrite app_length. cbn [length]. lia.
      * pose proof (fill_ne s [c]) as Hne. destruct (fill w [c] s); [congruence| reflexivity].
    + apply Nat.eqb_neq in E. rewrite (feed1_room R cur c E).
      apply IH. rewrite app_length. cbn [length]. lia.
Qed.

(* a whole line followed by LF, starting in an empty last row *)
Lemma feed_line : forall line R,
  feed w {| rows := R ++ [[]]; cr := length R; cc := 0 |} (map Ch line ++ [Nl])
  = {| rows := R ++ fill w [] line ++ [[]]; cr := length R + length (fill w [] line); cc := 0 |}.
Proof.
  intros line R. rewrite feed_app.
  change 0 with (length (@nil N)) at 1. rewrite (feed_text line R [] ltac:(cbn; lia)).
  unfold feed. cbn [fold_left feed1 cr rows].
  pose proof (fill_ne line []) as Hne.
  assert (length (fill w [] line) >= 1) by (destruct (fill w [] line); [congruence|cbn; lia]).
  assert (S (length R + length (fill w [] line) - 1) = length (R ++ fill w [] line)) as E by (rewrite app_length; lia).
  rewrite E, upd_row_new, app_length, <- app_assoc. reflexivity.
Qed.

(* the number of rows of a line: max 1 (ceil (L / w)) *)
Lemma fill_length : forall s cur, length cur <= w ->
  length (fill w cur s) = match length s with O => 1 | S _ => 1 + (length cur + length s - 1) / w end.
Proof.
  induction s as [|c s IH]; intros cur Hc; [reflexivity|].
  cbn [fill length]. destruct (Nat.eqb (length cur) w) eqn:E.
  - apply Nat.eqb_eq in E. cbn [length]. rewrite (IH [c] w_pos). cbn [length].
    rewrite E. destruct (length s) as [|n] eqn:Es.
    + replace (w + 1 - 1) with (1 * w) by lia. rewrite Nat.div_mul by lia. reflexivity.
    + replace (w + S (S n) - 1) with (1 * w + (1 + S n - 1)) by lia.
      rewrite Nat.div_add_l by lia. lia.
  - apply Nat.eqb_neq in E. rewrite (IH (cur ++ [c])) by (rewrite app_length; cbn; lia).
    rewrite app_length. cbn [length]. destruct (length s) as [|n] eqn:Es.
    + replace (length cur + 1 - 1) with (length cur) by lia. rewrite Nat.div_small by lia. reflexivity.
    + f_equal. f_equal. lia.
Qed.

(* cursor up over a block and erase below *)
Lemma up_erase : forall (A B : list row),
  feed w {| rows := A ++ B ++ [[]]; cr := length A + length B; cc := 0 |} [Up (length B); EraseBelow]
  = {| rows := A ++ [[]]; cr := length A; cc := 0 |}.
Proof.
  intros A B. unfold feed. cbn [fold_left feed1 cr cc rows].
  replace (length A + length B - length B) with (length A) by lia.
  rewrite firstn_app, firstn_all, Nat.sub_diag. cbn [firstn]. now rewrite app_nil_r.
Qed.
End W.
