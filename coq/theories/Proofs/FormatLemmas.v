(* Proofs about Model/Format.v (C06). *)
From Coq Require Import Lia.
From Clikit Require Import Base.Prelude Base.Res Model.Conv Model.Flags Model.Format Proofs.StrLemmas.

(* ---------- what a name denotes, across the format and all its bases ---------- *)
Definition olist {X} (o : option X) : list X := match o with Some x => [x] | None => [] end.
Fixpoint denot (f : fmt) (n : str) : list (opt + copt) :=
  match f with Fmt b _ co cs _ os oss _ _ =>
    map inl (olist (sget n os)) ++ map inl (olist (sget n oss)) ++
    map inr (olist (sget n co)) ++ map inr (olist (sget n cs)) ++
    match b with Some bf => denot bf n | None => [] end end.

(* every long name, short name and alias identifies at most one option across the format and its bases *)
Definition names_wf (f : fmt) : Prop := forall n x y, In x (denot f n) -> In y (denot f n) -> x = y.

Lemma shas_sget {V} n (d : list (str * V)) : shas n d = match sget n d with Some _ => true | None => false end.
Proof. reflexivity. Qed.

(* structural induction over the base chain *)
Lemma fmt_ind' (P : fmt -> Prop) :
  (forall cn co cs ar os oss hm ho, P (Fmt None cn co cs ar os oss hm ho)) ->
  (forall bf cn co cs ar os oss hm ho, P bf -> P (Fmt (Some bf) cn co cs ar os oss hm ho)) ->
  forall f, P f.
Proof.
  intros H0 H1. fix F 1. intros [[bf|] cn co cs ar os oss hm ho].
  - apply H1. apply F.
  - apply H0.
Qed.

Lemma taken_denot f n : opt_name_taken f n = false <-> denot f n = [].
Proof.
  unfold opt_name_taken. induction f as [cn co cs ar os oss hm ho|bf cn co cs ar os oss hm ho IH] using fmt_ind';
    cbn [has_option_all has_command_option_all denot]; rewrite !shas_sget.
  - destruct (sget n os), (sget n oss), (sget n co), (sget n cs); cbn; split; intros H; try discriminate; reflexivity.
  - destruct (sget n os), (sget n oss), (sget n co), (sget n cs); cbn; try (split; intros H; discriminate);
      try (rewrite orb_true_r; split; intros H; discriminate).
    exact IH.
Qed.

(* ---------- add_option ---------- *)
Lemma add_option_denot f o f' : add_option f o = Ok f' ->
  forall n, denot f' n =
    (if str_eqb n (o_long o) then [inl o] else []) ++
    (match o_short o with Some s => if str_eqb n s then [inl o] else [] | None => [] end) ++ denot f n
    \/ (denot f n = [] /\ forall x, In x (denot f' n) -> x = inl o).
Proof.
  unfold add_option. destruct (opt_name_taken f (o_long o)) eqn:Hl; [discriminate|].
  destruct (optname_taken f (o_short o)) eqn:Hs; [discriminate|].
  destruct f as [b cn co cs ar os oss hm ho]. intros H. inversion H; subst. clear H. intros n.
  apply taken_denot in Hl.
  destruct (str_eqb_spec n (o_long o)) as [->|Hnl].
  - right. split; [exact Hl|].
    cbn [denot] in *. apply app_eq_nil in Hl as [H1 Hl]. apply app_eq_nil in Hl as [H2 Hl].
    apply app_eq_nil in Hl as [H3 Hl]. apply app_eq_nil in Hl as [H4 Hl]. rewrite H3, H4, Hl.
    unfold sset, sget in *. rewrite sget_sset, str_eqb_refl. cbn.
    destruct (o_short o) as [s|]; [rewrite sget_sset|]; intros x.
    + destruct (str_eqb (o_long o) s).
      * cbn. intros [<-|[<-|[]]]; reflexivity.
      * destruct (aget str_eqb (o_long o) oss); [discriminate|]. cbn. intros [<-|[]]; reflexivity.
    + destruct (aget str_eqb (o_long o) oss); [discriminate|]. cbn. intros [<-|[]]; reflexivity.
  - destruct (o_short o) as [s|] eqn:Es.
    + cbn [optname_taken] in Hs. apply taken_denot in Hs.
      destruct (str_eqb_spec n s) as [->|Hns].
      * right. split; [exact Hs|].
        cbn [denot] in *. apply app_eq_nil in Hs as [H1 Hs]. apply app_eq_nil in Hs as [H2 Hs].
        apply app_eq_nil in Hs as [H3 Hs]. apply app_eq_nil in Hs as [H4 Hs]. rewrite H3, H4, Hs.
        unfold sset, sget in *. rewrite !sget_sset, str_eqb_refl.
        destruct (str_eqb_spec s (o_long o)); [congruence|].
        destruct (aget str_eqb s os); [discriminate|]. cbn. intros x [<-|[]]. reflexivity.
      * left. cbn [denot app]. unfold sset, sget. rewrite !sget_sset.
        destruct (str_eqb_spec n (o_long o)); [congruence|]. destruct (str_eqb_spec n s); [congruence|]. reflexivity.
    + left. cbn [denot app]. unfold sset, sget. rewrite !sget_sset.
      destruct (str_eqb_spec n (o_long o)); [congruence|]. reflexivity.
Qed.

Lemma add_option_keeps_wf f o f' : names_wf f -> add_option f o = Ok f' -> names_wf f'.
Proof.
  intros Hwf Hadd n x y Hx Hy.
  destruct (add_option_denot f o f' Hadd n) as [Heq|[Hnil Hall]].
  - rewrite Heq in Hx, Hy.
    assert (forall z, In z ((if str_eqb n (o_long o) then [inl o] else []) ++
              match o_short o with Some s => if str_eqb n s then [inl o] else [] | None => [] end ++ denot f n) ->
            (z = inl o /\ denot f n = []) \/ In z (denot f n)) as Hcase.
    { intros z Hz. apply in_app_or in Hz as [Hz|Hz].
      - destruct (str_eqb_spec n (o_long o)) as [->|]; [|contradiction]. destruct Hz as [<-|[]]. left. split; [reflexivity|].
        unfold add_option in Hadd. destruct (opt_name_taken f (o_long o)) eqn:E; [discriminate|]. now apply taken_denot.
      - apply in_app_or in Hz as [Hz|Hz]; [|now right].
        destruct (o_short o) as [s|] eqn:Es; [|contradiction].
        destruct (str_eqb_spec n s) as [->|]; [|contradiction]. destruct Hz as [<-|[]]. left. split; [reflexivity|].
        unfold add_option in Hadd. destruct (opt_name_taken f (o_long o)); [discriminate|]. rewrite Es in Hadd.
        destruct (optname_taken f (Some s)) eqn:E; [discriminate|]. now apply taken_denot. }
    destruct (Hcase x Hx) as [[-> Hn]|Hx'], (Hcase y Hy) as [[-> Hn']|Hy']; auto.
    + rewrite Hn in Hy'. contradiction.
    + rewrite Hn' in Hx'. contradiction.
    + eapply Hwf; eauto.
  - rewrite (Hall x Hx), (Hall y Hy). reflexivity.
Qed.

(* a rejected add returns no new state: the builder is the old one (bstep keeps f) *)
Lemma bstep_add_option_rejects_or_keeps f o :
  names_wf f ->
  (exists k, bstep f (AddOption o) = (f, Some k)) \/
  (exists f', bstep f (AddOption o) = (f', None) /\ names_wf f').
Proof.
  intros Hwf. cbn [bstep]. destruct (add_option f o) as [f'|k] eqn:E; cbn [lift].
  - right. exists f'. split; [reflexivity|]. eapply add_option_keeps_wf; eauto.
  - left. eauto.
Qed.

(* ---------- add_command_option ---------- *)
Definition copt_has_name (c : copt) (n : str) : bool :=
  str_eqb n (co_long c) || match co_short c with Some s => str_eqb n s | None => false end ||
  existsb (str_eqb n) (co_lals c) || existsb (str_eqb n) (co_sals c).

Lemma existsb_taken_false f als n :
  existsb (opt_name_taken f) als = false -> existsb (str_eqb n) als = true -> opt_name_taken f n = false.
Proof.
  intros H Hn. apply existsb_exists in Hn as [a [Ha Hna]]. destruct (str_eqb_spec n a) as [->|]; [|discriminate].
  destruct (opt_name_taken f a) eqn:E; [|reflexivity].
  assert (existsb (opt_name_taken f) als = true) by (apply existsb_exists; eauto). congruence.
Qed.

Lemma add_copt_denot f c f' : add_command_option f c = Ok f' ->
  forall n, (copt_has_name c n = false /\ denot f' n = denot f n) \/
            (denot f n = [] /\ forall x, In x (denot f' n) -> x = inr c).
Proof.
  unfold add_command_option. destruct (opt_name_taken f (co_long c)) eqn:Hl; [discriminate|].
  destruct (existsb (opt_name_taken f) (co_lals c)) eqn:Hla; [discriminate|].
  destruct (optname_taken f (co_short c)) eqn:Hs; [discriminate|].
  destruct (existsb (opt_name_taken f) (co_sals c)) eqn:Hsa; [discriminate|].
  destruct f as [b cn co cs ar os oss hm ho]. intros H. inversion H; subst. clear H. intros n.
  set (F := Fmt b cn co cs ar os oss hm ho) in *.
  assert (copt_has_name c n = true -> denot F n = []) as Hfresh.
  { unfold copt_has_name. intros Hn. apply taken_denot.
    apply orb_prop in Hn as [Hn|Hn]; [apply orb_prop in Hn as [Hn|Hn]; [apply orb_prop in Hn as [Hn|Hn]|]|].
    - destruct (str_eqb_spec n (co_long c)) as [E|]; [rewrite E; exact Hl|discriminate].
    - destruct (co_short c) as [s|]; [|discriminate]. destruct (str_eqb_spec n s) as [E|]; [rewrite E; exact Hs|discriminate].
    - exact (existsb_taken_false F (co_lals c) n Hla Hn).
    - exact (existsb_taken_false F (co_sals c) n Hsa Hn). }
  cbn [denot]. unfold sget, sset in *. rewrite !sget_fold_sset.
  destruct (copt_has_name c n) eqn:Hn.
  - right. specialize (Hfresh eq_refl). split; [exact Hfresh|].
    unfold F in Hfresh. cbn [denot] in Hfresh. unfold sget in Hfresh.
    apply app_eq_nil in Hfresh as [H1 Hf]. apply app_eq_nil in Hf as [H2 Hf].
    apply app_eq_nil in Hf as [H3 Hf]. apply app_eq_nil in Hf as [H4 Hf]. rewrite H1, H2, Hf. cbn [app].
    intros x Hx. apply in_app_or in Hx as [Hx|Hx]; [|rewrite app_nil_r in Hx].
    + destruct (existsb (str_eqb n) (co_lals c)); [destruct Hx as [<-|[]]; reflexivity|].
      rewrite sget_sset in Hx. destruct (str_eqb n (co_long c)); [destruct Hx as [<-|[]]; reflexivity|].
      unfold sget in H3. destruct (aget str_eqb n co); [discriminate|contradiction].
    + destruct (existsb (str_eqb n) (co_sals c)); [destruct Hx as [<-|[]]; reflexivity|].
      destruct (co_short c) as [s|].
      * rewrite sget_sset in Hx. destruct (str_eqb n s); [destruct Hx as [<-|[]]; reflexivity|].
        unfold sget in H4. destruct (aget str_eqb n cs); [discriminate|contradiction].
      * unfold sget in H4. destruct (aget str_eqb n cs); [discriminate|contradiction].
  - left. split; [reflexivity|]. unfold copt_has_name in Hn.
    apply orb_false_elim in Hn as [Hn H4]. apply orb_false_elim in Hn as [Hn H3]. apply orb_false_elim in Hn as [H1 H2].
    rewrite H3, H4, sget_sset, H1. destruct (co_short c) as [s|]; [rewrite sget_sset, H2|]; reflexivity.
Qed.

Lemma add_copt_keeps_wf f c f' : names_wf f -> add_command_option f c = Ok f' -> names_wf f'.
Proof.
  intros Hwf Hadd n x y Hx Hy.
  destruct (add_copt_denot f c f' Hadd n) as [[_ Heq]|[_ Hall]].
  - rewrite Heq in Hx, Hy. eapply Hwf; eauto.
  - rewrite (Hall x Hx), (Hall y Hy). reflexivity.
Qed.

(* ---------- arguments ---------- *)
Definition arg_valid (a : arg) : bool := xorb (a_required a) (a_optional a).
Definition args_of (f : fmt) : list arg := map snd (get_arguments_all f).
(* at most one multi-valued argument and it is last; no required argument after an optional one *)
Fixpoint order_ok (l : list arg) : bool :=
  match l with
  | [] => true
  | a :: r => (if a_multi a then match r with [] => true | _ => false end else true) &&
              (if a_required a then true else forallb (fun b => negb (a_required b)) r) && order_ok r
  end.

Fixpoint args_inv (f : fmt) : Prop :=
  match f with Fmt b _ _ _ ar _ _ hm ho =>
    hm = existsb a_multi (map snd ar) /\ ho = existsb a_optional (map snd ar) /\
    NoDup (map fst ar) /\ forallb arg_valid (map snd ar) = true /\
    match b with
    | None => True
    | Some bf => args_inv bf /\ (forall k, In k (map fst ar) -> sget k (get_arguments_all bf) = None)
    end end.
Definition args_wf (f : fmt) : Prop := args_inv f /\ order_ok (args_of f) = true.

Lemma supdate_fresh {V} (d1 d2 : list (str * V)) :
  NoDup (map fst d2) -> (forall k, In k (map fst d2) -> sget k d1 = None) -> supdate d1 d2 = d1 ++ d2.
Proof.
  unfold supdate. revert d1. induction d2 as [|[k v] r IH]; intros d1 Hnd Hfr; cbn; [now rewrite app_nil_r|].
  inversion Hnd as [|? ? Hk Hr]; subst.
  unfold sset, sget in *. rewrite sset_absent by (apply Hfr; now left).
  rewrite IH; [now rewrite <- app_assoc|assumption|].
  intros k' Hk'. rewrite sget_app. rewrite Hfr by (now right). cbn.
  destruct (str_eqb_spec k' k) as [->|]; [contradiction|reflexivity].
Qed.

Lemma args_all_app f : args_inv f ->
  get_arguments_all f = match f_base f with Some bf => get_arguments_all bf | None => [] end ++ f_args f.
Proof.
  destruct f as [[bf|] cn co cs ar os oss hm ho]; cbn; [|reflexivity].
  intros (_ & _ & Hnd & _ & _ & Hfr). now apply supdate_fresh.
Qed.

Lemma has_multi_all_spec f : args_inv f -> has_multi_all f = existsb a_multi (args_of f).
Proof.
  induction f as [cn co cs ar os oss hm ho|bf cn co cs ar os oss hm ho IH] using fmt_ind'; intros Hi.
  - destruct Hi as (-> & _). cbn. now rewrite orb_false_r.
  - unfold args_of. rewrite (args_all_app _ Hi). cbn [f_base f_args has_multi_all].
    destruct Hi as (-> & _ & _ & _ & Hb & _). rewrite map_app, existsb_app, (IH Hb). apply orb_comm.
Qed.
Lemma has_optional_all_spec f : args_inv f -> has_optional_all f = existsb a_optional (args_of f).
Proof.
  induction f as [cn co cs ar os oss hm ho|bf cn co cs ar os oss hm ho IH] using fmt_ind'; intros Hi.
  - destruct Hi as (_ & -> & _). cbn. now rewrite orb_false_r.
  - unfold args_of. rewrite (args_all_app _ Hi). cbn [f_base f_args has_optional_all].
    destruct Hi as (_ & -> & _ & _ & Hb & _). rewrite map_app, existsb_app, (IH Hb). apply orb_comm.
Qed.
Lemma args_valid_all f : args_inv f -> forallb arg_valid (args_of f) = true.
Proof.
  induction f as [cn co cs ar os oss hm ho|bf cn co cs ar os oss hm ho IH] using fmt_ind'; intros Hi.
  - destruct Hi as (_ & _ & _ & H & _). exact H.
  - unfold args_of. rewrite (args_all_app _ Hi). cbn [f_base f_args].
    destruct Hi as (_ & _ & _ & H & Hb & _). rewrite map_app, forallb_app, H. fold (args_of bf). now rewrite (IH Hb).
Qed.

Lemma order_ok_snoc l a :
  order_ok l = true -> existsb a_multi l = false ->
  (a_required a = true -> forallb a_required l = true) -> order_ok (l ++ [a]) = true.
Proof.
  induction l as [|x r IH]; intros Ho Hm Hr; cbn.
  - destruct (a_multi a), (a_required a); reflexivity.
  - cbn in Ho, Hm. apply orb_false_elim in Hm as [Hx Hmr].
    apply andb_prop in Ho as [Ho Hor]. apply andb_prop in Ho as [_ Hreq].
    rewrite Hx. cbn [andb].
    assert (a_required a = true -> a_required x = true /\ forallb a_required r = true) as Hr'.
    { intros H. specialize (Hr H). cbn in Hr. now apply andb_prop in Hr. }
    rewrite IH; auto; [|intros H; apply Hr', H]. rewrite andb_true_r.
    destruct (a_required x) eqn:Ex; [reflexivity|].
    rewrite forallb_app, Hreq. cbn. rewrite andb_true_r.
    destruct (a_required a) eqn:Ea; [|reflexivity]. destruct (Hr' eq_refl) as [H _]. congruence.
Qed.
Lemma order_ok_prefix l1 l2 : order_ok (l1 ++ l2) = true -> order_ok l1 = true.
Proof.
  induction l1 as [|x r IH]; cbn; [reflexivity|]. intros H.
  apply andb_prop in H as [H Hr]. apply andb_prop in H as [Hm Hq]. rewrite (IH Hr), andb_true_r.
  apply andb_true_intro; split.
  - destruct (a_multi x); [|reflexivity]. destruct r; [reflexivity|discriminate].
  - destruct (a_required x); [reflexivity|]. rewrite forallb_app in Hq. now apply andb_prop in Hq as [Hq _].
Qed.

Lemma no_optional_all_required l :
  forallb arg_valid l = true -> existsb a_optional l = false -> forallb a_required l = true.
Proof.
  induction l as [|x r IH]; cbn; [reflexivity|]. intros Hv Ho.
  apply andb_prop in Hv as [Hx Hr]. apply orb_false_elim in Ho as [Hox Hor].
  unfold arg_valid in Hx. rewrite Hox in Hx. destruct (a_required x); [|discriminate]. cbn. auto.
Qed.

Lemma fold_sset_keeps {V} k : forall (r d : list (str * V)),
  (exists w, sget k d = Some w) ->
  exists w, sget k (fold_left (fun d kv => sset (fst kv) (snd kv) d) r d) = Some w.
Proof.
  induction r as [|[k2 v2] r IH]; intros d Hd; cbn; [exact Hd|]. apply IH. unfold sget, sset.
  rewrite sget_sset. destruct (str_eqb k k2); eauto.
Qed.
Lemma sget_supdate_own {V} n (d1 d2 : list (str * V)) :
  sget n (supdate d1 d2) = None -> sget n d2 = None.
Proof.
  unfold supdate. revert d1. induction d2 as [|[k v] r IH]; intros d1; cbn; [reflexivity|].
  intros H. destruct (str_eqb_spec n k) as [E|Hn].
  - exfalso. subst k. destruct (fold_sset_keeps n r (sset n v d1)) as [w Hw].
    + unfold sget, sset. rewrite sget_sset, str_eqb_refl. eauto.
    + congruence.
  - eapply IH; eauto.
Qed.

Lemma add_argument_keeps_wf f a f' :
  args_wf f -> arg_valid a = true -> add_argument f a = Ok f' -> args_wf f'.
Proof.
  intros [Hi Ho] Hv. unfold add_argument. cbn [has_argument get_arguments].
  destruct (shas (a_name a) (get_arguments_all f)) eqn:Hname; [discriminate|].
  destruct (has_multi_all f) eqn:Hm; [discriminate|].
  destruct (a_required a && has_optional_all f) eqn:Hreq; [discriminate|].
  rewrite has_multi_all_spec in Hm by assumption. rewrite has_optional_all_spec in Hreq by assumption.
  assert (sget (a_name a) (get_arguments_all f) = None) as Hnone.
  { rewrite shas_sget in Hname. destruct (sget (a_name a) (get_arguments_all f)); [discriminate|reflexivity]. }
  destruct f as [b cn co cs ar os oss hm ho]. intros H. inversion H; subst. clear H.
  assert (sget (a_name a) ar = None) as Hown.
  { destruct b as [bf|]; [|exact Hnone]. cbn in Hnone. eapply sget_supdate_own; eauto. }
  assert (sset (a_name a) a ar = ar ++ [(a_name a, a)]) as Hset by (unfold sset; now apply sset_absent).
  assert (args_inv (Fmt b cn co cs (sset (a_name a) a ar) os oss (hm || a_multi a) (ho || a_optional a))) as Hi'.
  { cbn [args_inv] in *. destruct Hi as (-> & -> & Hnd & Hval & Hb). rewrite Hset, !map_app, !existsb_app. cbn.
    rewrite !orb_false_r. repeat split; auto.
    - apply NoDup_app_snoc; [assumption | now apply sget_none_notin].
    - rewrite forallb_app, Hval. cbn. now rewrite Hv.
    - destruct b as [bf|]; [|exact I]. destruct Hb as [Hb Hfr]. split; [assumption|].
      intros k Hk. apply in_app_or in Hk as [Hk|[<-|[]]]; [now apply Hfr|].
      cbn in Hnone. rewrite supdate_fresh in Hnone by assumption.
      unfold sget in *. rewrite sget_app in Hnone. destruct (aget str_eqb (a_name a) (get_arguments_all bf)); [discriminate|reflexivity]. }
  split; [exact Hi'|].
  unfold args_of in *. rewrite (args_all_app _ Hi'). rewrite (args_all_app _ Hi) in Ho, Hm, Hreq.
  cbn [f_base f_args] in *. rewrite Hset, app_assoc, map_app. cbn [map snd].
  apply order_ok_snoc; auto.
  intros Hr. rewrite Hr in Hreq. cbn in Hreq.
  apply no_optional_all_required; [|exact Hreq].
  pose proof (args_valid_all _ Hi) as Hva. unfold args_of in Hva. rewrite (args_all_app _ Hi) in Hva. exact Hva.
Qed.

(* ---------- every reachable builder state is well-formed ---------- *)
Definition wf (f : fmt) : Prop := names_wf f /\ args_wf f.

Definition bop_valid (o : bop) : bool :=
  match o with
  | AddArgument a => arg_valid a
  | SetArguments l => forallb arg_valid l
  | _ => true
  end.

Lemma args_wf_same b cn co cs ar os oss hm ho cn' co' cs' os' oss' :
  args_wf (Fmt b cn co cs ar os oss hm ho) -> args_wf (Fmt b cn' co' cs' ar os' oss' hm ho).
Proof. intros H. exact H. Qed.
Lemma names_wf_same b cn co cs ar os oss hm ho cn' ar' hm' ho' :
  names_wf (Fmt b cn co cs ar os oss hm ho) -> names_wf (Fmt b cn' co cs ar' os oss hm' ho').
Proof. intros H. exact H. Qed.

Lemma add_option_wf f o f' : wf f -> add_option f o = Ok f' -> wf f'.
Proof.
  intros [Hn Ha] H. split; [eapply add_option_keeps_wf; eauto|].
  unfold add_option in H. destruct (opt_name_taken f (o_long o)); [discriminate|].
  destruct (optname_taken f (o_short o)); [discriminate|].
  destruct f. inversion H; subst. exact Ha.
Qed.
Lemma add_copt_wf f c f' : wf f -> add_command_option f c = Ok f' -> wf f'.
Proof.
  intros [Hn Ha] H. split; [eapply add_copt_keeps_wf; eauto|].
  unfold add_command_option in H.
  repeat match type of H with (if ?c then _ else _) = _ => destruct c; [discriminate|] end.
  destruct f. inversion H; subst. exact Ha.
Qed.
Lemma add_argument_wf f a f' : wf f -> arg_valid a = true -> add_argument f a = Ok f' -> wf f'.
Proof.
  intros [Hn Ha] Hv H. split; [|eapply add_argument_keeps_wf; eauto].
  unfold add_argument in H.
  repeat match type of H with (if ?c then _ else _) = _ => destruct c; [discriminate|] end.
  destruct f. inversion H; subst. exact Hn.
Qed.
Lemma add_cname_wf f c f' : wf f -> add_command_name f c = Ok f' -> wf f'.
Proof. intros Hw H. destruct f. cbn in H. inversion H; subst. exact Hw. Qed.

Lemma add_all_wf {X} (add : fmt -> X -> res fmt) (ok : X -> bool) :
  (forall f x f', wf f -> ok x = true -> add f x = Ok f' -> wf f') ->
  forall xs f, wf f -> forallb ok xs = true -> wf (fst (add_all add f xs)).
Proof.
  intros Hadd. induction xs as [|x r IH]; intros f Hw Hok; cbn; [exact Hw|].
  cbn in Hok. apply andb_prop in Hok as [Hx Hr].
  destruct (add f x) as [f'|k] eqn:E; [|exact Hw]. apply IH; [eapply Hadd; eauto|exact Hr].
Qed.

Lemma sublist_denot_reset_opts b cn co cs ar os oss hm ho n x :
  In x (denot (Fmt b cn co cs ar [] [] hm ho) n) -> In x (denot (Fmt b cn co cs ar os oss hm ho) n).
Proof. cbn [denot]. cbn. intros H. apply in_or_app. right. apply in_or_app. right. exact H. Qed.
Lemma sublist_denot_reset_copts b cn co cs ar os oss hm ho n x :
  In x (denot (Fmt b cn [] [] ar os oss hm ho) n) -> In x (denot (Fmt b cn co cs ar os oss hm ho) n).
Proof.
  cbn [denot]. cbn. intros H. apply in_app_or in H as [H|H]; [apply in_or_app; now left|].
  apply in_app_or in H as [H|H]; apply in_or_app; right; apply in_or_app; [now left|right].
  apply in_or_app. right. apply in_or_app. now right.
Qed.

Lemma reset_args_wf b cn co cs ar os oss hm ho :
  wf (Fmt b cn co cs ar os oss hm ho) -> wf (Fmt b cn co cs [] os oss false false).
Proof.
  intros [Hn [Hi Ho]]. split; [exact Hn|]. split.
  - cbn [args_inv] in *. destruct Hi as (_ & _ & _ & _ & Hb). repeat split; auto; try constructor.
    destruct b as [bf|]; [|exact I]. destruct Hb as [Hb _]. split; [exact Hb|]. intros k [].
  - unfold args_of in *. rewrite (args_all_app _ Hi) in Ho. cbn [f_base f_args] in Ho.
    rewrite map_app in Ho. apply order_ok_prefix in Ho.
    destruct b as [bf|]; cbn; [|reflexivity]. exact Ho.
Qed.

Lemma bstep_wf f o : wf f -> bop_valid o = true -> wf (fst (bstep f o)).
Proof.
  intros Hw Hv. destruct o as [o|c|a|c|l|l|l|l]; cbn [bstep bop_valid] in *.
  - destruct (add_option f o) eqn:E; cbn; [eapply add_option_wf; eauto|exact Hw].
  - destruct (add_command_option f c) eqn:E; cbn; [eapply add_copt_wf; eauto|exact Hw].
  - destruct (add_argument f a) eqn:E; cbn; [eapply add_argument_wf; eauto|exact Hw].
  - destruct (add_command_name f c) eqn:E; cbn; [eapply add_cname_wf; eauto|exact Hw].
  - destruct f as [b cn co cs ar os oss hm ho].
    apply (add_all_wf add_option (fun _ => true)); [intros; eapply add_option_wf; eauto| |clear; induction l; cbn; auto].
    destruct Hw as [Hn Ha]. split; [|exact Ha]. intros n x y Hx Hy.
    apply sublist_denot_reset_opts with (os := os) (oss := oss) in Hx, Hy. eapply Hn; eauto.
  - destruct f as [b cn co cs ar os oss hm ho].
    apply (add_all_wf add_command_option (fun _ => true)); [intros; eapply add_copt_wf; eauto| |clear; induction l; cbn; auto].
    destruct Hw as [Hn Ha]. split; [|exact Ha]. intros n x y Hx Hy.
    apply sublist_denot_reset_copts with (co := co) (cs := cs) in Hx, Hy. eapply Hn; eauto.
  - destruct f as [b cn co cs ar os oss hm ho].
    apply (add_all_wf add_argument arg_valid); [intros; eapply add_argument_wf; eauto| |exact Hv].
    eapply reset_args_wf; eauto.
  - destruct f as [b cn co cs ar os oss hm ho].
    apply (add_all_wf add_command_name (fun _ => true)); [intros; eapply add_cname_wf; eauto| |clear; induction l; cbn; auto].
    exact Hw.
Qed.

Fixpoint brun (f : fmt) (ops : list bop) : fmt :=
  match ops with [] => f | o :: r => brun (fst (bstep f o)) r end.
Lemma reachable_wf_lemma ops : forall f, wf f -> forallb bop_valid ops = true -> wf (brun f ops).
Proof.
  induction ops as [|o r IH]; intros f Hw Hv; cbn; [exact Hw|].
  cbn in Hv. apply andb_prop in Hv as [Ho Hr]. apply IH; [apply bstep_wf; assumption|exact Hr].
Qed.

(* a rejected single addition leaves the builder exactly as it was *)
Lemma rejected_add_unchanged f o k :
  match o with AddOption _ | AddCommandOption _ | AddArgument _ | AddCommandName _ => True | _ => False end ->
  snd (bstep f o) = Some k -> fst (bstep f o) = f.
Proof.
  destruct o; try contradiction; intros _; cbn [bstep];
    match goal with |- context [lift ?r f] => destruct r end; cbn; congruence.
Qed.

(* an empty builder over a well-formed base format is well-formed; so is the empty builder without base *)
Lemma empty_builder_wf_none : wf (empty_builder None).
Proof.
  split; [intros n x y Hx; cbn in Hx; contradiction|]. split; cbn; repeat split; auto; constructor.
Qed.
Lemma empty_builder_wf_some bf : wf bf -> wf (empty_builder (Some bf)).
Proof.
  intros [Hn [Hi Ho]]. split; [intros n x y Hx Hy; cbn in Hx, Hy; eapply Hn; eauto|].
  split.
  - cbn. repeat split; auto; try constructor. intros k [].
  - unfold args_of. cbn. exact Ho.
Qed.

(* the built format keeps base, arguments, options, command names and flags of the builder verbatim *)
Lemma build_format_same f :
  f_base (build_format f) = f_base f /\ f_cnames (build_format f) = f_cnames f /\ f_args (build_format f) = f_args f /\
  f_opts (build_format f) = f_opts f /\ f_has_multi (build_format f) = f_has_multi f /\ f_has_opt (build_format f) = f_has_opt f.
Proof.
  destruct f as [b cn co cs ar os oss hm ho]. unfold build_format.
  destruct (index_copts (map snd co)). cbn. repeat split; reflexivity.
Qed.
Lemma build_format_args_wf f : args_wf f -> args_wf (build_format f).
Proof.
  destruct f as [b cn co cs ar os oss hm ho]. unfold build_format.
  destruct (index_copts (map snd co)). intros H. exact H.
Qed.
Lemma build_format_arg_queries f r incl :
  has_argument (build_format f) r incl = has_argument f r incl /\
  get_argument (build_format f) r incl = get_argument f r incl /\
  get_arguments (build_format f) incl = get_arguments f incl /\
  has_multi (build_format f) incl = has_multi f incl /\ has_optional (build_format f) incl = has_optional f incl /\
  has_required (build_format f) incl = has_required f incl /\
  get_command_names (build_format f) incl = get_command_names f incl /\
  get_options (build_format f) incl = get_options f incl.
Proof.
  destruct f as [b cn co cs ar os oss hm ho]. unfold build_format.
  destruct (index_copts (map snd co)). repeat split; reflexivity.
Qed.
