(* C15, rows ABOVE the sections: the invariant of Proofs/SectionLemmas.v (screen = stacked contents) holds as well on a
   terminal that already shows complete rows P above the cursor - the rows stay what they were and the sections are
   stacked below them.  (A cursor movement beyond the first section's first row is invisible on an empty terminal:
   the oracle of harness/props/C15.py replays the bytes below three rows; this is the theorem behind that clause.)
   The step lemmas of SectionLemmas are stated for "scr R" with ANY rows R, so the proofs are theirs with P in front. *)
From Coq Require Import Lia Arith List.
Import ListNotations.
From Clikit Require Import Base.Prelude Base.Res Base.Term Model.Conv Model.Markup Model.Section
  Proofs.TermLemmas Proofs.MarkupLemmas Proofs.LiteralLemmas Proofs.SectionLemmas.

Section W.
Variable w : nat.
Hypothesis w_pos : 1 <= w.
Variable sty : styles.
Variable P : list (list N).                 (* the rows the terminal shows already, each complete *)

Definition InvP (st : secs) (f : formatter) (t : term) : Prop :=
  t = scr (P ++ stacked w sty st) /\ Forall (sec_ok w sty) st /\ fmt_ok sty f.

Lemma write_stepP st f t i text nl s :
  InvP st f t -> nth_error st i = Some s -> good_textb sty text = true ->
  exists st' f' es, sstep_ansi w st f (SWrite i text nl) = Ok (st', f', es) /\ InvP st' f' (feed w t es).
Proof.
  intros (-> & Hok & Hf) Hn Hg. pose proof (good_text_spec sty _ Hg) as Hlines.
  destruct (Forall_split w sty st i s Hok Hn) as (HA & [Hl Hc] & HB). destruct (split_at st i s Hn) as [E _].
  cbn [sstep_ansi]. rewrite Hn. unfold erased, pop_ctl, newer.
  set (A := firstn i st) in *. set (B := skipn (S i) st) in *. set (n := sc_indent s) in *.
  destruct (content_lines_ok sty n text Hlines) as [Hcl _].
  destruct (measure_ok w w_pos sty (content_lines n text) f (sc_lines s) Hf Hcl) as (f1 & E1 & Hf1). rewrite E1. cbn [bind fst snd].
  destruct (write_ok w w_pos sty f1 n text ((P ++ stacked w sty A) ++ sec_rows w sty s) Hf1 Hlines) as (f2 & a & E2 & Hf2 & F2).
  rewrite E2. cbn [bind fst snd].
  destruct (reprint_ok w w_pos sty B f2 (((P ++ stacked w sty A) ++ sec_rows w sty s) ++ vrows w sty (content_lines n text)) Hf2 HB)
    as (f3 & a2 & E3 & Hf3 & F3).
  rewrite E3. cbn [bind fst snd].
  eexists _, _, _. split; [reflexivity|]. split; [|split; [|exact Hf3]].
  - rewrite E at 1. rewrite stacked_app. cbn [stacked flat_map]. fold (stacked w sty B).
    rewrite !feed_app. cbn [Nat.add]. rewrite (sum_lines w w_pos sty B HB).
    replace (P ++ stacked w sty A ++ sec_rows w sty s ++ stacked w sty B)
      with (((P ++ stacked w sty A) ++ sec_rows w sty s) ++ stacked w sty B) by (now rewrite <- !app_assoc).
    rewrite (pop_feed w w_pos).
    rewrite <- (feed_app w _ (emits_of_ansi a) [Nl]), F2, F3.
    unfold set_sec. fold A B. rewrite stacked_app. cbn [stacked flat_map]. fold (stacked w sty B).
    unfold sec_rows at 2. cbn [sc_content]. rewrite vrows_app. fold (sec_rows w sty s). now rewrite <- !app_assoc.
  - unfold set_sec. fold A B. apply Forall_app. split; [exact HA|]. constructor; [|exact HB].
    split; cbn [sc_lines sc_content].
    + unfold sec_rows. cbn [sc_content]. rewrite vrows_app, app_length, Hl. reflexivity.
    + apply Forall_app. split; assumption.
Qed.

Lemma clear_stepP st f t i n s :
  InvP st f t -> nth_error st i = Some s ->
  exists st' f' es, sstep_ansi w st f (SClear i n) = Ok (st', f', es) /\ InvP st' f' (feed w t es).
Proof.
  intros (-> & Hok & Hf) Hn. cbn [sstep_ansi]. rewrite Hn.
  destruct (sc_content s) as [|c0 cs] eqn:Ec.
  { eexists _, _, _. split; [reflexivity|]. repeat split; auto; apply Hf. }
  rewrite <- Ec.
  destruct (Forall_split w sty st i s Hok Hn) as (HA & [Hl Hc] & HB). destruct (split_at st i s Hn) as [E _].
  unfold erased, pop_ctl, newer. set (A := firstn i st) in *. set (B := skipn (S i) st) in *.
  assert (exists keep gone f1, sc_content s = keep ++ gone /\ fmt_ok sty f1 /\
            match n with
            | Some (S k) => do m <- measure w f (lastn (S k) (sc_content s)) 0; Ok (droplast (S k) (sc_content s), snd m, fst m)
            | _ => Ok ([], sc_lines s, f)
            end = Ok (keep, length (vrows w sty gone), f1)) as (keep & gone & f1 & Hsplit & Hf1 & Hkr).
  { destruct n as [[|k]|].
    - exists [], (sc_content s), f. split; [reflexivity|]. split; [exact Hf|]. now rewrite Hl.
    - assert (Forall (okline sty) (lastn (S k) (sc_content s))) as Hg.
      { rewrite (lastn_droplast (S k) (sc_content s)) in Hc. apply Forall_app in Hc. tauto. }
      destruct (measure_ok w w_pos sty _ f 0 Hf Hg) as (f1 & E1 & Hf1).
      exists (droplast (S k) (sc_content s)), (lastn (S k) (sc_content s)), f1.
      split; [apply lastn_droplast|]. split; [exact Hf1|]. rewrite E1. reflexivity.
    - exists [], (sc_content s), f. split; [reflexivity|]. split; [exact Hf|]. now rewrite Hl. }
  rewrite Hkr. cbn [bind].
  assert (sec_rows w sty s = vrows w sty keep ++ vrows w sty gone) as Hrows by (unfold sec_rows; rewrite Hsplit; apply vrows_app).
  destruct (reprint_ok w w_pos sty B f1 ((P ++ stacked w sty A) ++ vrows w sty keep) Hf1 HB) as (f3 & a2 & E3 & Hf3 & F3).
  rewrite E3. cbn [bind fst snd].
  eexists _, _, _. split; [reflexivity|]. split; [|split; [|exact Hf3]].
  - rewrite E at 1. rewrite stacked_app. cbn [stacked flat_map]. fold (stacked w sty B). rewrite Hrows.
    rewrite feed_app, (sum_lines w w_pos sty B HB), <- app_length.
    replace (P ++ stacked w sty A ++ (vrows w sty keep ++ vrows w sty gone) ++ stacked w sty B)
      with (((P ++ stacked w sty A) ++ vrows w sty keep) ++ (vrows w sty gone ++ stacked w sty B))
      by (now rewrite <- !app_assoc).
    rewrite (pop_feed w w_pos), F3. unfold set_sec. fold A B. rewrite stacked_app. cbn [stacked flat_map]. fold (stacked w sty B).
    unfold sec_rows at 1. cbn [sc_content]. now rewrite <- !app_assoc.
  - unfold set_sec. fold A B. apply Forall_app. split; [exact HA|]. constructor; [|exact HB].
    split; cbn [sc_lines sc_content].
    + unfold sec_rows at 1. cbn [sc_content]. rewrite Hl, Hrows, app_length. lia.
    + rewrite Hsplit in Hc. apply Forall_app in Hc. tauto.
Qed.

Lemma step_invP st f t o : InvP st f t -> good_opb sty o = true ->
  exists st' f' es, sstep w st f o = Ok (st', f', es) /\ InvP st' f' (feed w t es).
Proof.
  intros HI Hg. destruct o as [ind|i0 text0|i text nl|i text|i n|i n]; cbn [sstep good_opb] in *.
  2: discriminate.
  - cbn [sstep_ansi]. eexists _, _, _. split; [reflexivity|].
    destruct HI as (-> & Hok & Hf). split; [|split; [|exact Hf]].
    + rewrite stacked_app. cbn. now rewrite !app_nil_r.
    + apply Forall_app. split; [exact Hok|]. constructor; [|constructor]. split; cbn; constructor.
  - destruct (nth_error st i) as [s|] eqn:Hn.
    + apply (write_stepP st f t i text nl s HI Hn Hg).
    + cbn [sstep_ansi]. rewrite Hn. eexists _, _, _. split; [reflexivity|exact HI].
  - destruct (nth_error st i) as [s|] eqn:Hn.
    + destruct (clear_stepP st f t i None s HI Hn) as (st1 & f1 & e1 & E1 & HI1). rewrite E1. cbn [bind fst snd].
      destruct (nth_error st1 i) as [s1|] eqn:Hn1.
      * destruct (write_stepP st1 f1 _ i text true s1 HI1 Hn1 Hg) as (st2 & f2 & e2 & E2 & HI2). rewrite E2. cbn [bind fst snd].
        eexists _, _, _. split; [reflexivity|]. now rewrite feed_app.
      * cbn [sstep_ansi]. rewrite Hn1. cbn [bind fst snd]. eexists _, _, _. split; [reflexivity|]. now rewrite app_nil_r.
    + cbn [sstep_ansi]. rewrite Hn. cbn [bind fst snd sstep_ansi]. rewrite Hn.
      eexists _, _, _. split; [reflexivity|exact HI].
  - destruct (nth_error st i) as [s|] eqn:Hn.
    + apply (clear_stepP st f t i n s HI Hn).
    + cbn [sstep_ansi]. rewrite Hn. eexists _, _, _. split; [reflexivity|exact HI].
  - cbn [sstep_ansi]. destruct (nth_error st i) as [s|] eqn:Hn.
    + eexists _, _, _. split; [reflexivity|].
      destruct HI as (-> & Hok & Hf). destruct (Forall_split w sty st i s Hok Hn) as (HA & [Hl Hc] & HB).
      destruct (split_at st i s Hn) as [E _].
      assert (stacked w sty (set_sec st i (with_indent s n)) = stacked w sty st) as ES.
      { rewrite E at 2. unfold set_sec. now rewrite !stacked_app. }
      split; [now rewrite ES|]. split; [|exact Hf]. unfold set_sec. apply Forall_app. split; [exact HA|].
      constructor; [|exact HB]. split; assumption.
    + eexists _, _, _. split; [reflexivity|exact HI].
Qed.

Lemma run_invP ops : forall st f t, InvP st f t -> good_opsb sty ops = true ->
  exists st' f' es, srun true w st f ops = Ok (st', f', es) /\ InvP st' f' (feed w t es).
Proof.
  induction ops as [|o r IH]; intros st f t HI Hg; cbn [srun].
  - eexists _, _, _. split; [reflexivity|exact HI].
  - cbn [good_opsb forallb] in Hg. apply Bool.andb_true_iff in Hg as [Hg1 Hg2].
    destruct (step_invP st f t o HI Hg1) as (st1 & f1 & e1 & E1 & HI1). rewrite E1. cbn [bind fst snd].
    destruct (IH st1 f1 _ HI1 Hg2) as (st2 & f2 & e2 & E2 & HI2). rewrite E2. cbn [bind fst snd].
    eexists _, _, _. split; [reflexivity|]. now rewrite feed_app.
Qed.
End W.

(* the terminal that shows the complete rows P, the cursor at the start of the row below them *)
Definition below (P : list (list N)) : term := scr P.

Lemma rows_above_are_kept_lemma w : 1 <= w -> forall f0 ops P, is_ansi f0 -> f_stack f0 = [] ->
  good_opsb (f_styles f0) ops = true ->
  exists st f es, srun true w [] f0 ops = Ok (st, f, es) /\
    feed w (below P) es = below (P ++ stacked w (f_styles f0) st) /\
    feed w term_init es = screen w (f_styles f0) st.
Proof.
  intros w_pos f0 ops P Hk Hs Hg.
  assert (InvP w (f_styles f0) P [] f0 (below P)) as H0.
  { split; [unfold below; cbn; now rewrite app_nil_r|]. split; [constructor|]. repeat split; auto. }
  destruct (run_invP w w_pos (f_styles f0) P ops [] f0 (below P) H0 Hg) as (st & f & es & E & Ht & Hok & Hf).
  destruct (screen_is_stack_lemma w w_pos f0 ops Hk Hs Hg) as (st' & f' & es' & E' & Ht' & _).
  rewrite E in E'. injection E' as <- <- <-.
  exists st, f, es. auto.
Qed.
