(* C18, additions: which error a question fails with, the shape of the answer, index / value at the level of ask() (typed
   lines, surrounding blanks included) - and the choices for which it does NOT hold -, a budget of zero attempts. *)
From Coq Require Import Lia.
From Clikit Require Import Base.Prelude Base.Res Model.Conv Model.Question Proofs.StrLemmas Proofs.FlagsLemmas Proofs.QuestionLemmas.

(* ---------- single-select answers one value, multi-select a list ---------- *)
Lemma validate_shape q s a : validate q s = inr a ->
  if q_multi q then exists l, a = AMany l else exists v, a = AOne v.
Proof.
  unfold validate. destruct s as [s|]; [|discriminate]. destruct (q_multi q).
  - destruct (forallb _ _); [|discriminate]. destruct (validate_values _ _); [discriminate|]. intros H. inversion H. eauto.
  - destruct (validate_value _ _); [discriminate|]. intros H. inversion H. eauto.
Qed.
Lemma answer_shape_lemma q script a : o_end (ask_choice true q script) = Answered a ->
  if q_multi q then exists l, a = AMany l else exists v, a = AOne v.
Proof.
  unfold ask_choice. cbn [negb]. intros H. destruct (ask_loop_answer _ _ _ _ _ _ _ _ H) as [s Hs]. eapply validate_shape, Hs.
Qed.

(* ---------- the error a question fails with is the error of the LAST entry it was allowed ---------- *)
Lemma ask_loop_exhaust_err q : forall pre l rest er last n e p,
  Forall (entry_invalid q) pre -> validate q (effective_answer q l) = inl er ->
  o_end (ask_loop q ((pre ++ [l]) ++ rest) (Some (length (pre ++ [l]))) last n e p) = Failed er.
Proof.
  induction pre as [|x r IH]; intros l rest er last n e p Hb Hl.
  - cbn [app length ask_loop]. rewrite Hl. cbn [option_map pred]. rewrite ask_loop_zero. reflexivity.
  - inversion Hb as [|? ? [ex Hex] Hr]; subst. cbn [app length ask_loop]. rewrite Hex. cbn [option_map pred].
    apply (IH l rest er _ _ _ _ Hr Hl).
Qed.
Lemma attempts_exact_err q pre l rest er :
  Forall (entry_invalid q) pre -> validate q (effective_answer q l) = inl er -> q_attempts q = Some (length (pre ++ [l])) ->
  let o := ask_choice true q ((pre ++ [l]) ++ rest) in
  o_end o = Failed er /\ o_lines_read o = length pre + 1 /\ o_errors_printed o = length pre.
Proof.
  intros Hb Hl Ha. cbv zeta.
  assert (Forall (entry_invalid q) (pre ++ [l])) as Hall.
  { apply Forall_app. split; [exact Hb|]. constructor; [exists er; exact Hl|constructor]. }
  destruct (attempts_exact_lemma q (pre ++ [l]) rest Hall ltac:(destruct pre; discriminate) Ha) as (_ & H2 & H3). cbv zeta in H2, H3.
  split; [|rewrite H2, H3, app_length; cbn; lia].
  unfold ask_choice. cbn [negb]. rewrite Ha. apply ask_loop_exhaust_err; assumption.
Qed.

(* a budget of zero attempts: nothing is read, nothing is printed, the question fails (Python: `raise None`, a TypeError) *)
Lemma zero_attempts q script : q_attempts q = Some 0 ->
  ask_choice true q script = {| o_end := Failed VOther; o_lines_read := 0; o_errors_printed := 0; o_prompts := 0 |}.
Proof. intros H. unfold ask_choice. cbn [negb]. rewrite H. apply ask_loop_zero. Qed.

(* ---------- an index and the value it denotes, at the level of ask(): typed lines ---------- *)
Lemma dec_text_nonempty z : dec_text z <> [].
Proof. intros E. pose proof (int_of_str_dec_text z) as H. rewrite E in H. discriminate H. Qed.

Lemma ask_first_valid q line rest a : q_attempts q <> Some 0 -> validate q (effective_answer q line) = inr a ->
  ask_choice true q (line :: rest) = {| o_end := Answered a; o_lines_read := 1; o_errors_printed := 0; o_prompts := 1 |}.
Proof.
  intros Hk Hv. unfold ask_choice. cbn [negb]. destruct (q_attempts q) as [[|k]|]; [congruence| |]; cbn [ask_loop]; now rewrite Hv.
Qed.

(* l1 is the index typed (blanks around it or not), l2 the value typed (likewise); the value is a choice that occurs once,
   is not empty and is not changed by stripping; the index text is not itself a choice *)
Lemma ask_index_value q i c l1 l2 rest1 rest2 :
  q_multi q = false -> q_attempts q <> Some 0 -> nth_error (q_choices q) i = Some c ->
  positions (q_choices q) c 0 = [i] -> positions (q_choices q) (dec_text (Z.of_nat i)) 0 = [] ->
  strip_ws l1 = dec_text (Z.of_nat i) -> strip_ws l2 = c -> c <> [] ->
  ask_choice true q (l1 :: rest1) = {| o_end := Answered (AOne c); o_lines_read := 1; o_errors_printed := 0; o_prompts := 1 |} /\
  ask_choice true q (l2 :: rest2) = {| o_end := Answered (AOne c); o_lines_read := 1; o_errors_printed := 0; o_prompts := 1 |}.
Proof.
  intros Hm Hk Hn Hp Hi E1 E2 Hc. destruct (index_value_lemma q i c Hm Hn Hp Hi) as [V1 V2].
  split; apply ask_first_valid; try exact Hk; unfold effective_answer.
  - rewrite E1. pose proof (dec_text_nonempty (Z.of_nat i)) as Hd. destruct (dec_text (Z.of_nat i)); [congruence|exact V1].
  - rewrite E2. destruct c; [congruence|]. exact V2.
Qed.

(* ---------- where it does not hold ---------- *)
Module Spaced.
  Definition sp : N := 32. Definition a_ : N := 97. Definition b_ : N := 98. Definition zero : N := 48.
  (* single-select, choices " a" and "b", one attempt *)
  Definition q1 : choiceq := {| q_choices := [[sp; a_]; [b_]]; q_multi := false; q_default := None; q_attempts := Some 1 |}.
  (* typing 0 answers " a"; typing " a" (stripped to "a" before it is validated) is invalid *)
  Example index_works_value_does_not :
    o_end (ask_choice true q1 [[zero]]) = Answered (AOne [sp; a_]) /\ o_end (ask_choice true q1 [[sp; a_]]) = Failed VInvalid.
  Proof. vm_compute. split; reflexivity. Qed.
  (* multi-select, choices "a b" and "c": the blanks are removed from what was typed *)
  Definition q2 : choiceq := {| q_choices := [[a_; sp; b_]; [99%N]]; q_multi := true; q_default := None; q_attempts := Some 1 |}.
  Example multi_index_works_value_does_not :
    o_end (ask_choice true q2 [[zero]]) = Answered (AMany [[a_; sp; b_]]) /\ o_end (ask_choice true q2 [[a_; sp; b_]]) = Failed VInvalid.
  Proof. vm_compute. split; reflexivity. Qed.
End Spaced.
