(* C19, history-indexed statements about Model/Spinner.v.
   The earlier statements said "every write is frame c m for SOME message m" (any string): a residue of a longer frame
   or two frames glued together are again "frame c m'" for a suitable m', so they excluded nothing.  Here:
   * the screen after any write history is given EXACTLY (screen_of): every row is empty or is one of the frames
     written so far, whole, and the current line is the most recent write;
   * the frames written by the caller's thread show, in order, exactly the messages set (start message, every
     set_message up to a raise, end message on a normal exit);
   * every frame written by the spinner shows a message that the caller had set when the spinner formatted it: the
     message of a caller frame written before it, or of the caller's next frame after it (set already, frame still
     on its way to the stream).
   Manual mode: the frames are append-only, and the frame(s) an operation adds show the indicator position and the
   message that are current after that operation; the current message is the one most recently set. *)
From Coq Require Import Lia Arith.
From Clikit Require Import Base.Prelude Base.Res Base.Term Model.Spinner Proofs.TermLemmas Proofs.SpinnerLemmas.

(* ---------- the screen after a write history, exactly ---------- *)
Fixpoint screen_of (R : list (list N)) (r : list N) (ws : list (option str)) : list (list N) :=
  match ws with
  | [] => R ++ [r]
  | Some f :: t => screen_of R f t           (* a frame replaces the current line, whatever it held *)
  | None :: t => screen_of (R ++ [r]) [] t   (* a line break keeps it and opens an empty line *)
  end.

Lemma screen_exact w (Hw : 1 <= w) : forall ws R r c, Forall (short w) ws ->
  rows (feed w {| rows := R ++ [r]; cr := length R; cc := c |} (flat_map emits_of_write ws)) = screen_of R r ws.
Proof.
  induction ws as [|x ws IH]; intros R r c Hs; cbn [flat_map screen_of].
  - reflexivity.
  - inversion Hs as [|? ? Sx Sws]; subst. rewrite feed_app. destruct x as [f|].
    + rewrite (frame_replaces_line w Hw R r c f Sx). apply IH, Sws.
    + cbn [emits_of_write]. unfold feed at 2. cbn [fold_left feed1 rows cr].
      replace (S (length R)) with (length (R ++ [r])) by (rewrite app_length; cbn; lia).
      rewrite upd_row_new. apply IH, Sws.
Qed.

(* every row of that screen is a row it started with, or empty, or one of the frames written - whole *)
Lemma screen_of_rows : forall ws R r,
  Forall (fun x => In x (R ++ [r]) \/ x = [] \/ In (Some x) ws) (screen_of R r ws).
Proof.
  induction ws as [|x ws IH]; intros R r; cbn [screen_of].
  - apply Forall_forall. intros y Hy. left. exact Hy.
  - destruct x as [f|].
    + eapply Forall_impl; [|apply IH]. cbn beta. intros y [Hy|[Hy|Hy]].
      * apply in_app_or in Hy. destruct Hy as [Hy|[Hy|[]]]; [left; apply in_or_app; left; exact Hy|].
        subst y. right. right. left. reflexivity.
      * right. left. exact Hy.
      * right. right. right. exact Hy.
    + eapply Forall_impl; [|apply IH]. cbn beta. intros y [Hy|[Hy|Hy]].
      * apply in_app_or in Hy. destruct Hy as [Hy|[Hy|[]]]; [left; exact Hy|]. right. left. symmetry. exact Hy.
      * right. left. exact Hy.
      * right. right. right. exact Hy.
Qed.

(* the current line (last row) is the most recent write: that frame, or empty after a line break *)
Definition latest (r : list N) (ws : list (option str)) : list N :=
  match last ws (Some r) with Some f => f | None => [] end.
Lemma last_cons_indep {X : Type} : forall (l : list X) a d d', last (a :: l) d = last (a :: l) d'.
Proof. induction l as [|b l IH]; intros a d d'; [reflexivity|]. cbn [last] in *. apply (IH b). Qed.
Lemma latest_cons r x ws : latest r (x :: ws) = latest (match x with Some f => f | None => [] end) ws.
Proof.
  unfold latest. destruct ws as [|y ws]; [destruct x; reflexivity|].
  change (last (x :: y :: ws) (Some r)) with (last (y :: ws) (Some r)). now rewrite (last_cons_indep ws y (Some r) (Some match x with Some f => f | None => [] end)).
Qed.
Lemma screen_of_last : forall ws R r, exists R', screen_of R r ws = R' ++ [latest r ws].
Proof.
  induction ws as [|x ws IH]; intros R r; cbn [screen_of].
  - exists R. reflexivity.
  - rewrite latest_cons. destruct x as [f|]; apply IH.
Qed.

(* ---------- the messages of the caller's frames ---------- *)
Definition msg_of (f : str) : str := skipn 3 f.
Lemma msg_of_frame c m : msg_of (frame c m) = m.
Proof. reflexivity. Qed.
Definition pmsg (p : pending) : option str := match p with PW (Some f) => Some (msg_of f) | _ => None end.
Fixpoint mmsgs (ws : list (bool * option str)) : list str :=
  match ws with
  | [] => []
  | (false, Some f) :: r => msg_of f :: mmsgs r
  | _ :: r => mmsgs r
  end.
Lemma mmsgs_app a b : mmsgs (a ++ b) = mmsgs a ++ mmsgs b.
Proof. induction a as [|[[|] [f|]] a IH]; cbn; auto. now rewrite IH. Qed.
Definition olist {X : Type} (o : option X) : list X := match o with Some x => [x] | None => [] end.
Lemma mmsgs_snoc_main ws t : mmsgs (ws ++ [(false, t)]) = mmsgs ws ++ olist (pmsg (PW t)).
Proof. rewrite mmsgs_app. destruct t; reflexivity. Qed.
Lemma mmsgs_snoc_spinner ws t : mmsgs (ws ++ [(true, t)]) = mmsgs ws.
Proof. rewrite mmsgs_app. destruct t; cbn; apply app_nil_r. Qed.

(* the messages the body sets before it raises (all of them when it does not) *)
Fixpoint until_raise (acts : list action) : list str :=
  match acts with
  | [] => []
  | ASet m :: r => m :: until_raise r
  | AWork _ :: r => until_raise r
  | ARaise :: _ => []
  end.
Definition caller_messages (sm em : str) (acts : list action) : list str :=
  sm :: until_raise acts ++ (if has_raise acts then [] else [em]).

Definition future (s : st) : list str :=
  match mphase_ s with
  | MBody => until_raise (body s) ++ (if has_raise (body s) then [] else [end_msg s])
  | MAfterJoinExit => [end_msg s]
  | _ => []
  end.
Definition T (target : list str) (s : st) : Prop := mmsgs (writes s) ++ olist (pmsg (mp s)) ++ future s = target.

Lemma main_to_yield_future s :
  olist (pmsg (mp (main_to_yield s))) ++ future (main_to_yield s) = future s /\ writes (main_to_yield s) = writes s.
Proof.
  unfold main_to_yield, future. destruct (mphase_ s) as [| | | | |r]; cbn [mphase_ body upd_st mp end_msg writes pmsg olist app]; auto.
  destruct (body s) as [|[m|d|] rest]; cbn [mphase_ body upd_st mp end_msg writes pmsg olist app until_raise has_raise existsb orb msg_of frame skipn]; auto.
Qed.

Lemma T_same tg s s' : mp s' = mp s -> mphase_ s' = mphase_ s -> body s' = body s -> end_msg s' = end_msg s ->
  mmsgs (writes s') = mmsgs (writes s) -> T tg s -> T tg s'.
Proof. unfold T, future. intros -> -> -> -> ->. auto. Qed.

Lemma step_T tg s b : T tg s -> T tg (step s b).
Proof.
  intros H. destruct b; cbn [step].
  - unfold step_spinner. destruct (sp s) as [t|d| |]; try exact H.
    + eapply T_same; [..|exact H]; cbn [upd_st mp mphase_ body end_msg writes]; auto using mmsgs_snoc_spinner.
    + match goal with |- T tg (spin_to_yield ?x) => set (s' := x) end.
      destruct (spin_to_yield_fields s') as (F1 & F2 & _ & F4). destruct (spin_to_yield_same s') as [F5 F6].
      eapply T_same; [..|exact H]; rewrite ?F1, ?F2, ?F4, ?F5, ?F6; reflexivity.
  - unfold step_main, T in *. destruct (mp s) as [t|d| |] eqn:Em; try exact H.
    + match goal with |- context [main_to_yield ?x] => set (s' := x) end.
      destruct (main_to_yield_future s') as [F1 F2]. rewrite F2, F1. subst s'. cbn [writes upd_st].
      rewrite mmsgs_snoc_main, <- app_assoc. exact H.
    + match goal with |- context [main_to_yield ?x] => set (s' := x) end.
      destruct (main_to_yield_future s') as [F1 F2]. rewrite F2, F1. exact H.
    + destruct (sp s); try (rewrite Em; exact H).
      destruct (main_to_yield_future s) as [F1 F2]. rewrite F2, F1. exact H.
    + rewrite Em. exact H.
Qed.
Lemma run_schedule_T tg sched : forall s, T tg s -> T tg (run_schedule s sched).
Proof. unfold run_schedule. induction sched as [|b r IH]; intros s H; cbn; [exact H|]. apply IH, step_T, H. Qed.
Lemma complete_T tg fuel : forall s, T tg s -> T tg (complete fuel s).
Proof.
  induction fuel as [|f IH]; intros s H; cbn; [exact H|]. destruct (all_done s); [exact H|].
  apply IH. destruct (main_blocked s); [apply (step_T tg s true H)|apply (step_T tg s false H)].
Qed.

(* the caller's frames show, in order, exactly the messages set *)
Lemma caller_frames_lemma t0 iv sm em acts sched :
  mmsgs (writes (run_auto t0 iv sm em acts sched)) = caller_messages sm em acts.
Proof.
  assert (T (caller_messages sm em acts) (run_auto t0 iv sm em acts sched)) as HT.
  { unfold run_auto. apply complete_T, run_schedule_T. unfold init. apply (step_T _ _ false). reflexivity. }
  pose proof (exit_kind_lemma t0 iv sm em acts sched) as Hk.
  destruct (auto_always_stops t0 iv sm em acts sched) as [Hd _]. cbv zeta in Hd.
  unfold T, future, all_done in *. rewrite Hk in HT.
  destruct (mp (run_auto t0 iv sm em acts sched)); try discriminate. cbn in HT. rewrite app_nil_r in HT. exact HT.
Qed.

(* ---------- the spinner's frames show a message the caller had set ---------- *)
Definition firstm (ws : list (bool * option str)) (pend : option str) : option str :=
  match mmsgs ws with m :: _ => Some m | [] => pend end.
Fixpoint sp_ok (seen : list str) (ws : list (bool * option str)) (pend : option str) : Prop :=
  match ws with
  | [] => True
  | (true, Some f) :: r => (exists c m, f = frame c m /\ (In m seen \/ firstm r pend = Some m)) /\ sp_ok seen r pend
  | (false, Some f) :: r => (exists c m, f = frame c m) /\ sp_ok (seen ++ [msg_of f]) r pend
  | (_, None) :: r => sp_ok seen r pend
  end.

Lemma sp_ok_snoc : forall ws seen pd x p',
  sp_ok seen ws pd ->
  (forall r m, firstm r pd = Some m -> firstm (r ++ [x]) p' = Some m) ->
  sp_ok (seen ++ mmsgs ws) [x] p' ->
  sp_ok seen (ws ++ [x]) p'.
Proof.
  induction ws as [|[b [f|]] ws IH]; intros seen pd x p' H St Hx.
  - cbn [mmsgs] in Hx. rewrite app_nil_r in Hx. exact Hx.
  - destruct b; cbn [sp_ok app] in *.
    + destruct H as [(c & m & Hf & Hm) H]. split.
      * exists c, m. split; [exact Hf|]. destruct Hm as [Hm|Hm]; [left; exact Hm|right; apply St, Hm].
      * apply (IH seen pd); auto.
    + destruct H as [Hf H]. split; [exact Hf|]. apply (IH _ pd); auto.
      cbn [mmsgs] in Hx. rewrite <- app_assoc. exact Hx.
  - assert (sp_ok seen (ws ++ [x]) p') as G.
    { apply (IH seen pd); auto. - destruct b; exact H. - destruct b; exact Hx. }
    destruct b; exact G.
Qed.

Lemma sp_ok_weaken : forall ws seen p, sp_ok seen ws None -> sp_ok seen ws p.
Proof.
  induction ws as [|[b [f|]] ws IH]; intros seen p H; [exact I| |].
  - destruct b; cbn [sp_ok] in *.
    + destruct H as [(c & m & Hf & Hm) H]. split; [|apply IH, H]. exists c, m. split; [exact Hf|].
      destruct Hm as [Hm|Hm]; [left; exact Hm|right]. unfold firstm in *. destruct (mmsgs ws); [discriminate|exact Hm].
    + destruct H as [Hf H]. split; [exact Hf|apply IH, H].
  - destruct b; cbn [sp_ok] in *; apply IH, H.
Qed.

Lemma firstm_stable_main r t m p' : firstm r (pmsg (PW t)) = Some m -> firstm (r ++ [(false, t)]) p' = Some m.
Proof.
  unfold firstm. rewrite mmsgs_snoc_main. destruct (mmsgs r) as [|a l]; cbn [app]; [|auto].
  destruct (pmsg (PW t)); cbn; [auto|discriminate].
Qed.
Lemma firstm_stable_spinner r t m p : firstm r p = Some m -> firstm (r ++ [(true, t)]) p = Some m.
Proof. unfold firstm. rewrite mmsgs_snoc_spinner. auto. Qed.

Definition H (s : st) : Prop :=
  sp_ok [] (writes s) (pmsg (mp s)) /\
  (match sp s with PW (Some f) => exists c m, f = frame c m /\ (In m (mmsgs (writes s)) \/ pmsg (mp s) = Some m) | _ => True end) /\
  (match mp s with PW (Some f) => exists c m, f = frame c m | _ => True end) /\
  (match pmsg (mp s) with Some m => msg s = m | None => exists l, mmsgs (writes s) = l ++ [msg s] end).
(* the same with the caller's pending write gone (just performed, or none) *)
Definition H0 (s : st) : Prop :=
  sp_ok [] (writes s) None /\
  (match sp s with PW (Some f) => exists c m, f = frame c m /\ In m (mmsgs (writes s)) | _ => True end) /\
  (exists l, mmsgs (writes s) = l ++ [msg s]).

Lemma main_to_yield_H s : H0 s -> H (main_to_yield s).
Proof.
  intros (A1 & A2 & A4). unfold main_to_yield, H.
  assert (match sp s with PW (Some f) => exists c m, f = frame c m /\ (In m (mmsgs (writes s)) \/ @None str = Some m) | _ => True end) as A2'.
  { destruct (sp s) as [[f|]| | |]; auto. destruct A2 as (c & m & E1 & E2). eauto. }
  assert (forall m', match sp s with PW (Some f) => exists c m, f = frame c m /\ (In m (mmsgs (writes s)) \/ Some m' = Some m) | _ => True end) as A2''.
  { intros m'. destruct (sp s) as [[f|]| | |]; auto. destruct A2 as (c & m & E1 & E2). eauto. }
  destruct (mphase_ s) as [| | | | |r]; cbn [mphase_ body upd_st mp sp msg writes pmsg];
    try (repeat split; auto; fail).
  - destruct (body s) as [|[m|d|] rest]; cbn [mphase_ body upd_st mp sp msg writes pmsg msg_of frame skipn];
      try (repeat split; auto; fail).
    repeat split; auto using sp_ok_weaken; [apply A2''|eauto].
  - cbn [msg_of frame skipn]. repeat split; auto using sp_ok_weaken; [apply A2''|eauto].
Qed.

Lemma step_H s b : H s -> H (step s b).
Proof.
  intros (H1 & H2 & H3 & H4). destruct b; cbn [step].
  - unfold step_spinner. destruct (sp s) as [t|d| |] eqn:Es; try (unfold H; rewrite Es; auto; fail).
    + unfold H. cbn [upd_st writes sp mp msg]. rewrite mmsgs_snoc_spinner. repeat split; auto.
      apply (sp_ok_snoc _ _ (pmsg (mp s))); auto using firstm_stable_spinner.
      cbn [app sp_ok]. destruct t as [f|]; [|exact I]. split; [|exact I].
      destruct H2 as (c & m & E1 & E2). exists c, m. split; [exact E1|]. destruct E2; auto.
    + unfold spin_to_yield, H. cbn [stop clock upd msg cur interval upd_st writes sp mp].
      destruct (stop s); [cbn [upd_st writes sp mp msg]; auto|].
      destruct (clock s + d <? upd s)%Z; cbn [upd_st writes sp mp msg]; repeat split; auto.
      exists (S (cur s)), (msg s). split; [reflexivity|].
      destruct (pmsg (mp s)) as [m|]; [right; now rewrite H4|left]. destruct H4 as [l ->]. apply in_or_app. right. left. reflexivity.
  - unfold step_main. destruct (mp s) as [t|d| |] eqn:Em.
    + apply main_to_yield_H. unfold H0. cbn [upd_st writes sp msg]. rewrite mmsgs_snoc_main. repeat split.
      * apply (sp_ok_snoc _ _ (pmsg (PW t))); auto using firstm_stable_main.
        cbn [app sp_ok]. destruct t as [f|]; [|exact I]. split; [exact H3|exact I].
      * destruct (sp s) as [[f|]| | |]; auto. destruct H2 as (c & m & E1 & E2). exists c, m. split; [exact E1|].
        apply in_or_app. destruct E2 as [E2|E2]; [left; exact E2|right]. rewrite E2. left. reflexivity.
      * destruct (pmsg (PW t)) as [m|]; cbn [olist]; [exists (mmsgs (writes s)); now rewrite H4|]. rewrite app_nil_r. exact H4.
    + apply main_to_yield_H. unfold H0. cbn [upd_st writes sp msg]. cbn [pmsg] in *. repeat split; auto.
      destruct (sp s) as [[f|]| | |]; auto. destruct H2 as (c & m & E1 & [E2|E2]); [eauto|discriminate].
    + cbn [pmsg] in *. destruct (sp s) as [[f|]| | |] eqn:Es; try (unfold H; rewrite Em, Es; cbn [pmsg]; auto; fail).
      apply main_to_yield_H. unfold H0. rewrite Es. auto.
    + unfold H. rewrite Em. auto.
Qed.
Lemma run_schedule_H sched : forall s, H s -> H (run_schedule s sched).
Proof. unfold run_schedule. induction sched as [|b r IH]; intros s Hs; cbn; [exact Hs|]. apply IH, step_H, Hs. Qed.
Lemma complete_H fuel : forall s, H s -> H (complete fuel s).
Proof.
  induction fuel as [|f IH]; intros s Hs; cbn; [exact Hs|]. destruct (all_done s); [exact Hs|].
  apply IH. destruct (main_blocked s); [apply (step_H s true Hs)|apply (step_H s false Hs)].
Qed.
Lemma init_H t0 iv sm em acts : H (init t0 iv sm em acts).
Proof.
  unfold init. apply (step_H _ false). unfold H; cbn. repeat split; auto. exists 0, sm. reflexivity.
Qed.

(* readable form of sp_ok: whatever way the history is cut at a frame *)
Lemma sp_ok_split : forall ws seen pd, sp_ok seen ws pd ->
  forall pre b f post, ws = pre ++ (b, Some f) :: post ->
  exists c m, f = frame c m /\ (b = true -> In m (seen ++ mmsgs pre) \/ firstm post pd = Some m).
Proof.
  induction ws as [|[b0 [f0|]] ws IH]; intros seen pd Hs pre b f post E.
  - destruct pre; discriminate.
  - destruct pre as [|y pre]; cbn [app] in E.
    + inversion E; subst. destruct b; cbn [sp_ok] in Hs.
      * destruct Hs as [(c & m & Hf & Hm) _]. exists c, m. split; [exact Hf|]. intros _. cbn [mmsgs]. rewrite app_nil_r. exact Hm.
      * destruct Hs as [(c & m & Hf) _]. exists c, m. split; [exact Hf|discriminate].
    + inversion E; subst. destruct b0; cbn [sp_ok] in Hs.
      * destruct Hs as [_ Hs]. destruct (IH seen pd Hs pre b f post eq_refl) as (c & m & Hf & Hm).
        exists c, m. split; [exact Hf|]. cbn [mmsgs]. exact Hm.
      * destruct Hs as [_ Hs]. destruct (IH _ pd Hs pre b f post eq_refl) as (c & m & Hf & Hm).
        exists c, m. split; [exact Hf|]. cbn [mmsgs]. rewrite <- app_assoc in Hm. exact Hm.
  - destruct pre as [|y pre]; cbn [app] in E; [discriminate|]. inversion E; subst.
    assert (sp_ok seen (pre ++ (b, Some f) :: post) pd) as Hs' by (destruct b0; exact Hs).
    destruct (IH seen pd Hs' pre b f post eq_refl) as (c & m & Hf & Hm).
    exists c, m. split; [exact Hf|]. destruct b0; exact Hm.
Qed.

Lemma frames_show_set_messages_lemma t0 iv sm em acts sched :
  let f := run_auto t0 iv sm em acts sched in
  forall pre b x post, writes f = pre ++ (b, Some x) :: post ->
  exists c m, x = frame c m /\ In (indicator c) values /\
    (b = true -> In m (mmsgs pre) \/ firstm post None = Some m).
Proof.
  cbv zeta. intros pre b x post E.
  assert (H (run_auto t0 iv sm em acts sched)) as (H1 & _).
  { unfold run_auto. apply complete_H, run_schedule_H, init_H. }
  destruct (auto_always_stops t0 iv sm em acts sched) as [Hd _]. cbv zeta in Hd. unfold all_done in Hd.
  destruct (mp (run_auto t0 iv sm em acts sched)); try discriminate. cbn [pmsg] in H1.
  destruct (sp_ok_split _ _ _ H1 pre b x post E) as (c & m & Hf & Hm).
  exists c, m. split; [exact Hf|]. split; [apply indicator_in_values|exact Hm].
Qed.

(* ---------- the screen at every point of the write history ---------- *)
Lemma writes_short w t0 iv sm em acts sched :
  fits w sm -> fits w em -> Forall (act_ok (fits w)) acts ->
  Forall (short w) (map snd (writes (run_auto t0 iv sm em acts sched))).
Proof.
  intros Hs He Ha. pose proof (all_writes_wholeP (fits w) t0 iv sm em acts sched Hs He Ha) as HW.
  apply Forall_map. eapply Forall_impl; [|exact HW]. intros [b [x|]]; cbn; auto. intros (c & m & E & Hm). subst x.
  unfold frame, fits in *. cbn [length]. lia.
Qed.

Lemma screen_at_every_point_lemma w t0 iv sm em acts sched n :
  1 <= w -> fits w sm -> fits w em -> Forall (act_ok (fits w)) acts ->
  let ws := map snd (firstn n (writes (run_auto t0 iv sm em acts sched))) in
  rows (feed w term_init (flat_map emits_of_write ws)) = screen_of [] [] ws.
Proof.
  intros Hw Hs He Ha. cbv zeta.
  apply (screen_exact w Hw _ [] [] 0).
  pose proof (writes_short w t0 iv sm em acts sched Hs He Ha) as HS.
  rewrite <- (firstn_skipn n (writes _)), map_app in HS. apply Forall_app in HS. exact (proj1 HS).
Qed.

Lemma line_never_mixed_strong_lemma w t0 iv sm em acts sched n :
  1 <= w -> fits w sm -> fits w em -> Forall (act_ok (fits w)) acts ->
  let ws := map snd (firstn n (writes (run_auto t0 iv sm em acts sched))) in
  let scr := rows (feed w term_init (flat_map emits_of_write ws)) in
  Forall (fun r => r = [] \/ In (Some r) ws) scr /\ exists R, scr = R ++ [latest [] ws].
Proof.
  intros Hw Hs He Ha. cbv zeta. rewrite (screen_at_every_point_lemma w t0 iv sm em acts sched n Hw Hs He Ha).
  split; [|apply screen_of_last].
  eapply Forall_impl; [|apply screen_of_rows]. cbn beta. intros r [[Hr|[]]|Hr]; [left; symmetry; exact Hr|exact Hr].
Qed.

(* ---------- without the stop flag the spinner never ends: every way out of the block has to set it ---------- *)
Definition spinning (s : st) : Prop := stop s = false /\ (exists t, sp s = PW t) \/ stop s = false /\ (exists d, sp s = PS d).
Lemma spinner_step_spinning s : spinning s -> spinning (step_spinner s).
Proof.
  unfold spinning, step_spinner. intros [[Hs [t E]]|[Hs [d E]]]; rewrite E.
  - right. cbn. split; [exact Hs|eauto].
  - unfold spin_to_yield. cbn [stop upd_st clock upd]. rewrite Hs.
    destruct (clock s + d <? upd s)%Z; cbn; [right|left]; split; eauto.
Qed.
Lemma spinner_never_ends_unstopped n : forall s, spinning s ->
  spinning (Nat.iter n step_spinner s).
Proof. induction n as [|n IH]; intros s Hs; cbn; [exact Hs|]. apply spinner_step_spinning, IH, Hs. Qed.

(* ---------- manual mode ---------- *)
Definition op_msg (cur : str) (o : mop) : str :=
  match o with MAdvance => cur | MSetMessage m => m | MFinish m _ => m end.
Definition last_set (m : str) (ops : list (Z * mop)) : str := fold_left (fun acc o => op_msg acc (snd o)) ops m.

Lemma manual_step_msg iv s now o : m_msg (manual_step iv s now o) = op_msg (m_msg s) o.
Proof. destruct o; cbn; [destruct (now <? m_upd s)%Z|..]; reflexivity. Qed.
Lemma manual_run_msg iv : forall ops s now, m_msg (manual_run iv s now ops) = last_set (m_msg s) ops.
Proof.
  induction ops as [|[dt o] r IH]; intros s now; cbn [manual_run last_set fold_left snd]; [reflexivity|].
  rewrite IH, manual_step_msg. reflexivity.
Qed.
Lemma manual_run_app iv : forall a b s now,
  manual_run iv s now (a ++ b) = manual_run iv (manual_run iv s now a) (fold_left (fun t o => t + fst o)%Z a now) b.
Proof. induction a as [|[dt o] a IH]; intros b s now; cbn [app manual_run fold_left fst]; [reflexivity|]. apply IH. Qed.

(* one operation appends: nothing (a throttled advance), or the frame of the state it leaves, or that frame and a
   line break (finish) *)
Lemma manual_step_frames iv s now o :
  let s' := manual_step iv s now o in
  exists new, m_frames s' = m_frames s ++ new /\
    (new = [] /\ o = MAdvance /\ (now < m_upd s)%Z
     \/ new = [Some (frame (m_cur s') (m_msg s'))]
     \/ new = [Some (frame (m_cur s') (m_msg s')); None] /\ exists m r, o = MFinish m r).
Proof.
  cbv zeta. destruct o as [|m|m r]; cbn [manual_step].
  - destruct (now <? m_upd s)%Z eqn:E.
    + exists []. split; [now rewrite app_nil_r|]. left. apply Z.ltb_lt in E. auto.
    + eexists. split; [reflexivity|]. right. left. reflexivity.
  - eexists. split; [reflexivity|]. right. left. reflexivity.
  - eexists. split; [reflexivity|]. right. right. split; [reflexivity|eauto].
Qed.
Lemma manual_frames_append_only iv : forall ops s now, exists more, m_frames (manual_run iv s now ops) = m_frames s ++ more.
Proof.
  induction ops as [|[dt o] r IH]; intros s now; cbn [manual_run]; [exists []; now rewrite app_nil_r|].
  destruct (IH (manual_step iv s (now + dt)%Z o) (now + dt)%Z) as [more Hm].
  destruct (manual_step_frames iv s (now + dt)%Z o) as (new & Hn & _). cbv zeta in Hn.
  exists (new ++ more). rewrite Hm, Hn, app_assoc. reflexivity.
Qed.

Lemma manual_history_lemma iv t0 m ops1 dt o ops2 :
  let now1 := fold_left (fun t x => t + fst x)%Z ops1 t0 in
  let s1 := manual_run iv (manual_init t0 iv m) t0 ops1 in
  let s2 := manual_step iv s1 (now1 + dt)%Z o in
  let f := manual_run iv (manual_init t0 iv m) t0 (ops1 ++ (dt, o) :: ops2) in
  m_msg s2 = last_set m (ops1 ++ [(dt, o)]) /\
  exists new later, m_frames f = m_frames s1 ++ new ++ later /\
    (new = [] /\ o = MAdvance /\ (now1 + dt < m_upd s1)%Z
     \/ new = [Some (frame (m_cur s2) (m_msg s2))]
     \/ new = [Some (frame (m_cur s2) (m_msg s2)); None] /\ exists m' r, o = MFinish m' r).
Proof.
  cbv zeta. split.
  - rewrite manual_step_msg, manual_run_msg. unfold last_set. rewrite fold_left_app. reflexivity.
  - rewrite manual_run_app. cbn [manual_run].
    set (now1 := fold_left (fun t x => (t + fst x)%Z) ops1 t0).
    set (s1 := manual_run iv (manual_init t0 iv m) t0 ops1).
    destruct (manual_step_frames iv s1 (now1 + dt)%Z o) as (new & Hn & Hc). cbv zeta in Hn, Hc.
    destruct (manual_frames_append_only iv ops2 (manual_step iv s1 (now1 + dt)%Z o) (now1 + dt)%Z) as [later Hl].
    exists new, later. split; [|exact Hc]. rewrite Hl, Hn, app_assoc. reflexivity.
Qed.
