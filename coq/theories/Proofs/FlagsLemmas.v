(* Proofs about Model/Flags.v and Model/Conv.v (C07). *)
From Coq Require Import Lia Decimal DecimalZ.
From Clikit Require Import Base.Prelude Base.Res Model.Conv Model.Flags Proofs.Bits.

Definition tb (f k : Z) : bool := Z.testbit f k.
Arguments tb : simpl never.

Lemma bit_tb f k : (0 <= k)%Z -> bit f k = tb f k.
Proof. intros H. unfold bit, tb. rewrite land_pow2_testbit by assumption. apply negb_involutive. Qed.

Lemma tb_cond_setbit (c : bool) f j k : (0 <= j)%Z -> (0 <= k)%Z ->
  tb (if c then setbit f j else f) k = tb f k || ((k =? j)%Z && c).
Proof.
  intros Hj Hk. unfold tb, setbit. destruct c.
  - rewrite testbit_lor_pow2 by assumption. now rewrite andb_true_r.
  - now rewrite andb_false_r, orb_false_r.
Qed.

Definition is_ok {X} (r : res X) : bool := match r with Ok _ => true | Err _ => false end.
Definition at_most_one (a b c d : bool) : bool :=
  negb ((a && b) || (a && c) || (a && d) || (b && c) || (b && d) || (c && d)).
Definition exactly_one (a b c d : bool) : bool := (a || b || c || d) && at_most_one a b c d.

(* the documented contradictions, on named bits *)
Definition opt_flags_ok (f : Z) : bool :=
  negb (tb f 0 && tb f 1) &&                       (* both name preferences *)
  negb (tb f 2 && (tb f 3 || tb f 4 || tb f 5)) && (* value-less and requires/optionally takes/multiplies a value *)
  negb (tb f 4 && tb f 5) &&                       (* optional value and multi-valued *)
  at_most_one (tb f 7) (tb f 8) (tb f 9) (tb f 10).
Definition arg_flags_ok (f : Z) : bool :=
  negb (tb f 0 && tb f 1) && at_most_one (tb f 4) (tb f 5) (tb f 6) (tb f 7).

Ltac bits_to_tb := rewrite ?bit_tb by lia.
Ltac split_bits f ks :=
  match ks with
  | nil => idtac
  | cons ?k ?r => destruct (tb f k) eqn:?; split_bits f r
  end.

Lemma type_exclusive_ok f s b i fl : (0 <= s)%Z -> (0 <= b)%Z -> (0 <= i)%Z -> (0 <= fl)%Z ->
  type_exclusive f s b i fl = if at_most_one (tb f s) (tb f b) (tb f i) (tb f fl) then Ok tt else Err ValueError.
Proof.
  intros. unfold type_exclusive. bits_to_tb.
  destruct (tb f s), (tb f b), (tb f i), (tb f fl); reflexivity.
Qed.

Lemma opt_validate_iff f : opt_validate f = if opt_flags_ok f then Ok tt else Err ValueError.
Proof.
  unfold opt_validate, abs_validate, opt_flags_ok. rewrite type_exclusive_ok by lia. bits_to_tb.
  destruct (tb f 0), (tb f 1), (tb f 2), (tb f 3), (tb f 4), (tb f 5); cbn;
    try reflexivity; destruct (at_most_one _ _ _ _); reflexivity.
Qed.
Lemma arg_validate_iff f : arg_validate f = if arg_flags_ok f then Ok tt else Err ValueError.
Proof.
  unfold arg_validate, arg_flags_ok. rewrite type_exclusive_ok by lia. bits_to_tb.
  destruct (tb f 0), (tb f 1); cbn; try reflexivity; destruct (at_most_one _ _ _ _); reflexivity.
Qed.

(* bits of the normalised flag word, for every bit position *)
Lemma abs_defaults_tb f hs k : (0 <= k)%Z ->
  tb (abs_defaults f hs) k = tb f k || ((k =? (if hs then 1 else 0))%Z && negb (tb f 0 || tb f 1)).
Proof.
  intros Hk. unfold abs_defaults. bits_to_tb. apply tb_cond_setbit; [destruct hs; lia | assumption].
Qed.

Definition opt_step2 f := if negb (bit f 2 || bit f 3 || bit f 4 || bit f 5) then setbit f 2 else f.
Definition opt_step3 f := if negb (bit f 7 || bit f 8 || bit f 9 || bit f 10) then setbit f 7 else f.
Definition opt_step4 f := if bit f 5 && negb (bit f 3) then setbit f 3 else f.
Lemma opt_defaults_steps f hs : opt_defaults f hs = opt_step4 (opt_step3 (opt_step2 (abs_defaults f hs))).
Proof. reflexivity. Qed.
Lemma opt_step2_tb f k : (0 <= k)%Z ->
  tb (opt_step2 f) k = tb f k || ((k =? 2)%Z && negb (tb f 2 || tb f 3 || tb f 4 || tb f 5)).
Proof. intros. unfold opt_step2. bits_to_tb. apply tb_cond_setbit; lia. Qed.
Lemma opt_step3_tb f k : (0 <= k)%Z ->
  tb (opt_step3 f) k = tb f k || ((k =? 7)%Z && negb (tb f 7 || tb f 8 || tb f 9 || tb f 10)).
Proof. intros. unfold opt_step3. bits_to_tb. apply tb_cond_setbit; lia. Qed.
Lemma opt_step4_tb f k : (0 <= k)%Z ->
  tb (opt_step4 f) k = tb f k || ((k =? 3)%Z && (tb f 5 && negb (tb f 3))).
Proof. intros. unfold opt_step4. bits_to_tb. apply tb_cond_setbit; lia. Qed.

Ltac opt_bits := rewrite ?opt_defaults_steps, ?opt_step4_tb, ?opt_step3_tb, ?opt_step2_tb, ?abs_defaults_tb by lia.

(* normalisation only adds bits, and only among PREFER_*, NO_VALUE, REQUIRED_VALUE, STRING *)
Lemma opt_defaults_mono f hs k : (0 <= k)%Z -> tb f k = true -> tb (opt_defaults f hs) k = true.
Proof. intros Hk H. opt_bits. rewrite H. reflexivity. Qed.
Lemma opt_defaults_other f hs k : (0 <= k)%Z -> k <> 0%Z -> k <> 1%Z -> k <> 2%Z -> k <> 3%Z -> k <> 7%Z ->
  tb (opt_defaults f hs) k = tb f k.
Proof.
  intros. opt_bits.
  replace (k =? 3)%Z with false by (symmetry; apply Z.eqb_neq; lia).
  replace (k =? 7)%Z with false by (symmetry; apply Z.eqb_neq; lia).
  replace (k =? 2)%Z with false by (symmetry; apply Z.eqb_neq; lia).
  replace (k =? (if hs then 1 else 0))%Z with false by (symmetry; apply Z.eqb_neq; destruct hs; lia).
  cbn. now rewrite !orb_false_r.
Qed.

Definition is_dlist (d : dflt) : bool := match d with DList _ => true | _ => false end.
(* the default kept is the default given; when none is given, a multi-valued object holds the empty list *)
Definition default_kept (given kept : dflt) : Prop := kept = given \/ (given = DNone /\ kept = DList []).
Record opt_normal (f g : Z) (has_short : bool) (d0 d : dflt) : Prop := {
  on_one_type : exactly_one (tb g 7) (tb g 8) (tb g 9) (tb g 10) = true;
  on_one_pref : xorb (tb g 0) (tb g 1) = true;
  on_short_pref : tb g 1 = true -> has_short = true;
  on_valueless : tb g 2 = true -> tb g 3 = false /\ tb g 4 = false /\ tb g 5 = false /\ d = DNone;
  on_valued : tb g 2 = false -> (tb g 3 || tb g 4 || tb g 5) = true;
  on_multi : tb g 5 = true -> tb g 3 = true /\ is_dlist d = true;
  on_default_kept : default_kept d0 d;
  on_adds_only : forall k, (0 <= k)%Z -> tb f k = true -> tb g k = true;
  on_keeps_rest : forall k, (0 <= k)%Z -> k <> 0%Z -> k <> 1%Z -> k <> 2%Z -> k <> 3%Z -> k <> 7%Z -> tb g k = tb f k
}.

Lemma mk_option_flags ln sn f d o :
  mk_option ln sn f d = Ok o ->
  opt_flags_ok f = true /\ oo_flags o = opt_defaults f (match oo_short o with Some _ => true | None => false end) /\
  validate_short_name sn f = Ok (oo_short o) /\ opt_default (oo_flags o) d = Ok (oo_default o).
Proof.
  unfold mk_option. rewrite opt_validate_iff.
  destruct (opt_flags_ok f); cbn [bind]; [|discriminate].
  destruct (validate_long_name ln); cbn [bind]; [|discriminate].
  destruct (validate_short_name sn f) as [s|] eqn:Es; cbn [bind]; [|discriminate].
  destruct (opt_default _ d) as [d'|] eqn:Ed; cbn [bind]; [|discriminate].
  intros H. inversion H; subst; cbn. auto.
Qed.

Lemma short_none_pref sn f : validate_short_name sn f = Ok None -> tb f 1 = false.
Proof.
  unfold validate_short_name. destruct sn as [| |s].
  - rewrite bit_tb by lia. destruct (tb f 1); [discriminate|reflexivity].
  - discriminate.
  - destruct (strip_prefix [DASH] s) as [|c [|? ?]]; try discriminate. destruct (is_ascii_alpha c); discriminate.
Qed.

Lemma opt_normal_form_lemma ln sn f d o :
  mk_option ln sn f d = Ok o ->
  opt_normal f (oo_flags o) (match oo_short o with Some _ => true | None => false end) d (oo_default o).
Proof.
  intros H. destruct (mk_option_flags _ _ _ _ _ H) as (Hok & Hg & Hs & Hd).
  set (hs := match oo_short o with Some _ => true | None => false end) in *.
  assert (hs = false -> tb f 1 = false) as Hpref.
  { unfold hs. destruct (oo_short o); [discriminate|]. intros _. eapply short_none_pref; eauto. }
  unfold opt_default in Hd. rewrite !bit_tb in Hd by lia. rewrite Hg in *. clear Hg H Hs.
  unfold opt_flags_ok in Hok.
  apply andb_prop in Hok as [Hok Htypes]. apply andb_prop in Hok as [Hok H45]. apply andb_prop in Hok as [H01 H2].
  split.
  - unfold exactly_one. opt_bits. cbn. unfold at_most_one in *.
    destruct hs, (tb f 7), (tb f 8), (tb f 9), (tb f 10); cbn in *; try reflexivity; discriminate.
  - opt_bits. cbn. destruct hs; cbn; destruct (tb f 0), (tb f 1); cbn in *; try reflexivity; try discriminate;
      try (specialize (Hpref eq_refl); discriminate).
  - opt_bits. cbn. destruct hs; [reflexivity|]. rewrite (Hpref eq_refl). cbn. discriminate.
  - revert Hd. opt_bits. clear Hpref. destruct hs; cbn.
    all: destruct (tb f 2) eqn:E2, (tb f 3) eqn:E3, (tb f 4) eqn:E4, (tb f 5) eqn:E5; cbn in *;
      try discriminate; intros Hd Hv; try discriminate;
      destruct d; cbn in Hd; inversion Hd; auto.
  - opt_bits. destruct hs; cbn; destruct (tb f 2), (tb f 3), (tb f 4), (tb f 5); cbn; auto.
  - revert Hd. opt_bits. clear Hpref. destruct hs; cbn.
    all: destruct (tb f 2) eqn:E2, (tb f 3) eqn:E3, (tb f 4) eqn:E4, (tb f 5) eqn:E5; cbn in *;
      try discriminate; intros Hd Hv; try discriminate;
      destruct d; cbn in Hd; inversion Hd; auto.
  - revert Hd. unfold default_kept. destruct d; cbn [is_dnone negb]; rewrite ?orb_true_r, ?orb_false_r;
      repeat match goal with |- context [if ?c then _ else _] => destruct c end; cbn;
      intros Hd; inversion Hd; auto.
  - intros. now apply opt_defaults_mono.
  - intros. now apply opt_defaults_other.
Qed.

(* accept-iff for the whole constructor *)
Definition long_ok (n : name_in) : bool := is_ok (validate_long_name n).
Definition short_ok (n : name_in) (f : Z) : bool := is_ok (validate_short_name n f).
Definition has_short (n : name_in) : bool := match n with NNone => false | _ => true end.
Definition default_ok (f : Z) (d : dflt) : bool :=
  let valueless := tb f 2 || negb (tb f 3 || tb f 4 || tb f 5) in
  match d with
  | DNone => true
  | DScalar _ => negb valueless && negb (tb f 5)
  | DList _ => negb valueless
  end.

Lemma short_ok_has n f o : validate_short_name n f = Ok o -> (match o with Some _ => true | None => false end) = has_short n.
Proof.
  unfold validate_short_name. destruct n as [| |s].
  - destruct (bit f 1); intros H; inversion H; reflexivity.
  - discriminate.
  - destruct (strip_prefix [DASH] s) as [|c [|? ?]]; try discriminate.
    destruct (is_ascii_alpha c); intros H; inversion H; reflexivity.
Qed.

Lemma opt_accept_iff_lemma ln sn f d :
  is_ok (mk_option ln sn f d) = opt_flags_ok f && long_ok ln && short_ok sn f && default_ok f d.
Proof.
  unfold mk_option, long_ok, short_ok. rewrite opt_validate_iff.
  destruct (opt_flags_ok f) eqn:Hok; cbn [bind is_ok andb]; [|reflexivity].
  destruct (validate_long_name ln); cbn [bind is_ok andb]; [|reflexivity].
  destruct (validate_short_name sn f) as [s|] eqn:Es; cbn [bind is_ok andb]; [|reflexivity].
  rewrite (short_ok_has _ _ _ Es).
  assert (has_short sn = false -> tb f 1 = false) as Hpref.
  { destruct sn; try discriminate. intros _. cbn in Es. rewrite bit_tb in Es by lia. destruct (tb f 1); [discriminate|reflexivity]. }
  unfold opt_default, default_ok. rewrite !bit_tb by lia. opt_bits. clear Hpref. destruct (has_short sn); cbn.
  all: unfold opt_flags_ok in Hok.
  all: apply andb_prop in Hok as [Hok Htypes]; apply andb_prop in Hok as [Hok H45]; apply andb_prop in Hok as [H01 H2].
  all: destruct (tb f 2) eqn:E2, (tb f 3) eqn:E3, (tb f 4) eqn:E4, (tb f 5) eqn:E5; cbn in *;
    try discriminate; destruct d; reflexivity.
Qed.

Lemma mk_option_err ln sn f d : forall k, mk_option ln sn f d = Err k -> k = ValueError.
Proof.
  intros k. unfold mk_option. rewrite opt_validate_iff.
  destruct (opt_flags_ok f); cbn [bind]; [|congruence].
  destruct ln as [| |s]; cbn [validate_long_name bind]; try congruence.
  destruct (strip_prefix [DASH; DASH] s) as [|a [|b r]]; cbn [bind]; try congruence.
  destruct (name_body_ok (a :: b :: r)); cbn [bind]; [|congruence].
  destruct sn as [| |t]; cbn [validate_short_name bind]; try congruence.
  - destruct (bit f 1); cbn [bind]; [congruence|].
    unfold opt_default. repeat match goal with |- context [if ?c then _ else _] => destruct c end; destruct d; cbn; congruence.
  - destruct (strip_prefix [DASH] t) as [|c [|? ?]]; cbn [bind]; try congruence.
    destruct (is_ascii_alpha c); cbn [bind]; [|congruence].
    unfold opt_default. repeat match goal with |- context [if ?c then _ else _] => destruct c end; destruct d; cbn; congruence.
Qed.

(* ---------------- names, at character level ---------------- *)
(* well-formed long name / alias / argument name body: first character an ASCII letter, every character of [a-zA-Z0-9-];
   a long name has at least two characters, a short name is exactly one ASCII letter *)
Definition wf_name_body (s : str) : bool :=
  match s with c :: _ => is_ascii_alpha c && forallb name_char s | [] => false end.
Definition wf_long_name (s : str) : bool := wf_name_body s && Nat.leb 2 (length s).
Definition wf_short_name (s : str) : bool := match s with [c] => is_ascii_alpha c | _ => false end.
(* a long name is accepted exactly when, its "--" prefix (if any) removed, it is well-formed - and that is the name kept *)
Lemma long_name_ok_iff_lemma s :
  validate_long_name (NStr s) =
  if wf_long_name (strip_prefix [DASH; DASH] s) then Ok (strip_prefix [DASH; DASH] s) else Err ValueError.
Proof.
  unfold validate_long_name, wf_long_name, wf_name_body, name_body_ok.
  destruct (strip_prefix [DASH; DASH] s) as [|a [|b r]]; cbn [length Nat.leb andb]; try reflexivity.
  - now rewrite andb_false_r.
  - now rewrite andb_true_r.
Qed.
Lemma short_name_ok_iff_lemma s f :
  validate_short_name (NStr s) f =
  if wf_short_name (strip_prefix [DASH] s) then Ok (Some (strip_prefix [DASH] s)) else Err ValueError.
Proof.
  unfold validate_short_name, wf_short_name. destruct (strip_prefix [DASH] s) as [|c [|? ?]]; try reflexivity.
Qed.
Lemma arg_name_ok_iff_lemma s : validate_arg_name (NStr s) = if wf_name_body s then Ok s else Err ValueError.
Proof. reflexivity. Qed.
(* with or without the dash prefix: a well-formed name is accepted bare and prefixed, and names the same option *)
Lemma wf_body_no_dash s : wf_name_body s = true -> starts_with [DASH] s = false.
Proof.
  destruct s as [|c r]; [discriminate|]. unfold wf_name_body. intros H. apply andb_prop in H as [Hc _].
  cbn -[N.eqb]. destruct (N.eqb_spec DASH c) as [E|E]; [subst c; discriminate|reflexivity].
Qed.
Lemma strip_prefix_none1 s : starts_with [DASH] s = false -> strip_prefix [DASH] s = s /\ strip_prefix [DASH; DASH] s = s.
Proof. destruct s as [|c r]; cbn -[N.eqb]; [auto|]. destruct (N.eqb DASH c); [discriminate|auto]. Qed.
Lemma long_name_with_or_without_prefix_lemma s : wf_long_name s = true ->
  validate_long_name (NStr s) = Ok s /\ validate_long_name (NStr (DASH :: DASH :: s)) = Ok s.
Proof.
  intros H. rewrite !long_name_ok_iff_lemma.
  assert (strip_prefix [DASH; DASH] (DASH :: DASH :: s) = s) as -> by reflexivity.
  pose proof H as H'. unfold wf_long_name in H'. apply andb_prop in H' as [Hb _].
  destruct (strip_prefix_none1 s (wf_body_no_dash s Hb)) as [_ ->]. now rewrite H.
Qed.
Lemma short_name_with_or_without_prefix_lemma c f : is_ascii_alpha c = true ->
  validate_short_name (NStr [c]) f = Ok (Some [c]) /\ validate_short_name (NStr [DASH; c]) f = Ok (Some [c]).
Proof.
  intros H. rewrite !short_name_ok_iff_lemma.
  assert (strip_prefix [DASH] [DASH; c] = [c]) as -> by reflexivity.
  assert (strip_prefix [DASH] [c] = [c]) as ->.
  { cbn -[N.eqb]. destruct (N.eqb_spec DASH c) as [E|E]; [subst c; discriminate|reflexivity]. }
  cbn [wf_short_name]. now rewrite H.
Qed.
(* an alias is read as a short one when one character is left, as a long one otherwise; "--" demands a long one *)
Lemma alias_ok_iff_lemma a :
  validate_alias a =
  if starts_with [DASH; DASH] a then
    (let s := strip_prefix [DASH; DASH] a in if wf_long_name s then Ok (false, s) else Err ValueError)
  else
    (let s := strip_prefix [DASH] a in
     if wf_short_name s then Ok (true, s)
     else if wf_name_body s && negb (Nat.eqb (length s) 1) then Ok (false, s) else Err ValueError).
Proof.
  unfold validate_alias, wf_long_name, wf_short_name, wf_name_body, name_body_ok.
  destruct (starts_with [DASH; DASH] a).
  - destruct (strip_prefix [DASH; DASH] a) as [|x [|y r]]; cbn [bind length Nat.leb andb]; try reflexivity.
    + destruct (is_ascii_alpha x && forallb name_char [x]); reflexivity.
    + now rewrite andb_true_r.
  - cbn [bind]. destruct (strip_prefix [DASH] a) as [|x [|y r]]; cbn [length Nat.eqb negb andb]; try reflexivity.
    + destruct (is_ascii_alpha x); [reflexivity|]. reflexivity.
    + now rewrite andb_true_r.
Qed.

(* ---------------- Argument ---------------- *)
Definition arg_step1 f := if negb (bit f 0 || bit f 1) then setbit f 1 else f.
Definition arg_step2 f := if negb (bit f 4 || bit f 5 || bit f 6 || bit f 7) then setbit f 4 else f.
Lemma arg_defaults_steps f : arg_defaults f = arg_step2 (arg_step1 f).
Proof. reflexivity. Qed.
Lemma arg_step1_tb f k : (0 <= k)%Z -> tb (arg_step1 f) k = tb f k || ((k =? 1)%Z && negb (tb f 0 || tb f 1)).
Proof. intros. unfold arg_step1. bits_to_tb. apply tb_cond_setbit; lia. Qed.
Lemma arg_step2_tb f k : (0 <= k)%Z ->
  tb (arg_step2 f) k = tb f k || ((k =? 4)%Z && negb (tb f 4 || tb f 5 || tb f 6 || tb f 7)).
Proof. intros. unfold arg_step2. bits_to_tb. apply tb_cond_setbit; lia. Qed.
Ltac arg_bits := rewrite ?arg_defaults_steps, ?arg_step2_tb, ?arg_step1_tb by lia.

Record arg_normal (f g : Z) (d0 d : dflt) : Prop := {
  an_one_type : exactly_one (tb g 4) (tb g 5) (tb g 6) (tb g 7) = true;
  an_req_xor_opt : xorb (tb g 0) (tb g 1) = true;
  an_required_no_default : tb g 0 = true -> d0 = DNone /\ d = (if tb g 2 then DList [] else DNone);
  an_multi_list : tb g 2 = true -> is_dlist d = true;
  an_default_kept : default_kept d0 d;
  an_adds_only : forall k, (0 <= k)%Z -> tb f k = true -> tb g k = true;
  an_keeps_rest : forall k, (0 <= k)%Z -> k <> 1%Z -> k <> 4%Z -> tb g k = tb f k
}.

Lemma arg_normal_form_lemma n f d o :
  mk_argument n f d = Ok o -> arg_normal f (ao_flags o) d (ao_default o).
Proof.
  unfold mk_argument. destruct (validate_arg_name n); cbn [bind]; [|discriminate].
  rewrite arg_validate_iff. destruct (arg_flags_ok f) eqn:Hok; cbn [bind]; [|discriminate].
  destruct (arg_default (arg_defaults f) d) as [d'|] eqn:Hd; cbn [bind]; [|discriminate].
  intros H. inversion H; subst; cbn [ao_flags ao_default]. clear H.
  unfold arg_flags_ok in Hok. apply andb_prop in Hok as [H01 Htypes].
  unfold arg_default in Hd. rewrite !bit_tb in Hd by lia.
  split.
  - unfold exactly_one. arg_bits. cbn. unfold at_most_one in *.
    destruct (tb f 4), (tb f 5), (tb f 6), (tb f 7); cbn in *; try reflexivity; discriminate.
  - arg_bits. cbn. destruct (tb f 0), (tb f 1); cbn in *; try reflexivity; discriminate.
  - revert Hd. arg_bits. cbn.
    destruct (tb f 0), (tb f 1), (tb f 2); cbn in *; try discriminate; intros Hd Hv; try discriminate;
      destruct d; cbn in Hd; inversion Hd; auto.
  - revert Hd. arg_bits. cbn.
    destruct (tb f 0), (tb f 1), (tb f 2); cbn in *; try discriminate; intros Hd Hv; try discriminate;
      destruct d; cbn in Hd; inversion Hd; auto.
  - revert Hd. unfold default_kept. destruct d; cbn [is_dnone negb]; rewrite ?orb_true_r, ?orb_false_r;
      repeat match goal with |- context [if ?c then _ else _] => destruct c end; cbn;
      intros Hd; inversion Hd; auto.
  - intros k Hk Hf. arg_bits. now rewrite Hf.
  - intros k Hk H1 H4. arg_bits.
    replace (k =? 4)%Z with false by (symmetry; apply Z.eqb_neq; lia).
    replace (k =? 1)%Z with false by (symmetry; apply Z.eqb_neq; lia). cbn. now rewrite !orb_false_r.
Qed.

Definition arg_default_ok (f : Z) (d : dflt) : bool :=
  match d with
  | DNone => true
  | DScalar _ => negb (tb f 0) && negb (tb f 2)
  | DList _ => negb (tb f 0)
  end.
Lemma arg_accept_iff_lemma n f d :
  is_ok (mk_argument n f d) = is_ok (validate_arg_name n) && arg_flags_ok f && arg_default_ok f d.
Proof.
  unfold mk_argument. destruct (validate_arg_name n); cbn [bind is_ok andb]; [|reflexivity].
  rewrite arg_validate_iff. destruct (arg_flags_ok f) eqn:Hok; cbn [bind is_ok andb]; [|reflexivity].
  unfold arg_flags_ok in Hok. apply andb_prop in Hok as [H01 Htypes].
  unfold arg_default, arg_default_ok. rewrite !bit_tb by lia. arg_bits. cbn.
  destruct (tb f 0), (tb f 1), (tb f 2); cbn in *; try discriminate; destruct d; reflexivity.
Qed.

(* ---------------- conversions ---------------- *)
Definition has_type (t : vtype) (v : pyval) : bool :=
  match t, v with
  | TStr, VStr _ | TBool, VBool _ | TInt, VInt _ | TFloat, VFloat _ => true
  | _, _ => false
  end.
Definition conv_input (v : pyval) : bool :=
  match v with VNone | VBool _ | VInt _ | VStr _ => true | _ => false end.

Lemma conv_typed_lemma t nl v : conv_input v = true ->
  match parse_typed t nl v with
  | Ok r => (r = VNone /\ nl = true /\ is_null v = true) \/ has_type t r = true
  | Err k => k = ValueError
  end.
Proof.
  intros Hv. destruct t; cbn [parse_typed]; unfold parse_string, parse_boolean, parse_int, parse_float;
    destruct nl; cbn [andb]; destruct (is_null v) eqn:En; try (left; auto; fail);
    destruct v; try discriminate Hv; cbn; auto;
    try (match goal with |- match (match ?x with _ => _ end) with _ => _ end => destruct x end; cbn; auto).
Qed.

Lemma uint_roundtrip u : uint_of_chars (chars_of_uint u) = Some u.
Proof. induction u; cbn; rewrite ?IHu; reflexivity. Qed.

Definition plain_num_char (c : N) : bool := is_digit c || N.eqb c 45.
Lemma chars_of_uint_digits u : forallb is_digit (chars_of_uint u) = true.
Proof. induction u; cbn; auto. Qed.
Lemma lstrip_nonspace s : forallb plain_num_char s = true -> lstrip s = s.
Proof.
  destruct s as [|c r]; cbn; [reflexivity|]. intros H. apply andb_prop in H as [Hc _].
  assert (is_space_num c = false) as ->; [|reflexivity].
  unfold plain_num_char, is_digit in Hc. unfold is_space_num.
  apply orb_prop in Hc as [Hc|Hc].
  - apply andb_prop in Hc as [H1 H2]. apply N.leb_le in H1, H2.
    assert (is_space c = false) as ->; [|reflexivity].
    unfold is_space. apply not_true_is_false. intros He. apply existsb_exists in He as [x [Hx Hcx]].
    apply N.eqb_eq in Hcx. subst x. cbn in Hx. repeat (destruct Hx as [Hx|Hx]; [lia|]). exact Hx.
  - apply N.eqb_eq in Hc. subst c. reflexivity.
Qed.
Lemma forallb_rev {X} (p : X -> bool) l : forallb p (rev l) = forallb p l.
Proof.
  induction l as [|a r IH]; cbn; [reflexivity|]. rewrite forallb_app, IH. cbn. rewrite andb_true_r. apply andb_comm.
Qed.
Lemma strip_plain s : forallb plain_num_char s = true -> strip s = s.
Proof.
  intros H. unfold strip. rewrite (lstrip_nonspace s H).
  rewrite lstrip_nonspace by (now rewrite forallb_rev). apply rev_involutive.
Qed.
Lemma drop_underscores_digits s b : forallb is_digit s = true -> drop_underscores b s = Some s.
Proof.
  revert b. induction s as [|c r IH]; intros b H; cbn; [reflexivity|].
  cbn in H. apply andb_prop in H as [Hc Hr].
  assert (N.eqb c US = false) as ->.
  { apply N.eqb_neq. intros ->. discriminate. }
  now rewrite (IH _ Hr).
Qed.
Lemma digits_plain s : forallb is_digit s = true -> forallb plain_num_char s = true.
Proof.
  induction s as [|c r IH]; cbn; [reflexivity|]. intros H. apply andb_prop in H as [Hc Hr].
  rewrite (IH Hr). unfold plain_num_char. now rewrite Hc.
Qed.

Lemma int_of_str_dec_text z : int_of_str (dec_text z) = Some z.
Proof.
  unfold dec_text. pose proof (DecimalZ.of_to z) as Hz.
  destruct (Z.to_int z) as [u|u] eqn:Eu.
  - assert (chars_of_uint u <> []) as Hne.
    { destruct u; cbn; try discriminate. cbn in Hz. subst z. cbn in Eu. discriminate. }
    unfold int_of_str. rewrite strip_plain by (apply digits_plain, chars_of_uint_digits).
    pose proof (chars_of_uint_digits u) as Hd.
    destruct (chars_of_uint u) as [|c r] eqn:Ec; [contradiction|].
    assert (c <> 45%N /\ c <> 43%N) as [H45 H43].
    { cbn in Hd. apply andb_prop in Hd as [Hc _]. unfold is_digit in Hc. apply andb_prop in Hc as [H1 H2].
      apply N.leb_le in H1, H2. lia. }
    destruct (N.eqb_spec c 45) as [?|_]; [contradiction|]. destruct (N.eqb_spec c 43) as [?|_]; [contradiction|].
    assert (drop_underscores false (c :: r) = Some (c :: r)) as Hdd
      by (rewrite <- Ec; apply drop_underscores_digits, chars_of_uint_digits).
    assert (uint_of_chars (c :: r) = Some u) as Hu by (rewrite <- Ec; apply uint_roundtrip).
    cbv beta iota. rewrite Hdd, Hu. now rewrite Hz.
  - unfold int_of_str.
    rewrite strip_plain by (cbn; apply digits_plain, chars_of_uint_digits).
    rewrite N.eqb_refl.
    assert (chars_of_uint u <> []) as Hne.
    { destruct u; cbn; try discriminate. cbn in Hz. subst z. cbn in Eu. discriminate. }
    destruct (chars_of_uint u) as [|c r] eqn:Ec; [contradiction|].
    assert (drop_underscores false (c :: r) = Some (c :: r)) as Hdd
      by (rewrite <- Ec; apply drop_underscores_digits, chars_of_uint_digits).
    assert (uint_of_chars (c :: r) = Some u) as Hu by (rewrite <- Ec; apply uint_roundtrip).
    cbv beta iota. rewrite Hdd, Hu. now rewrite Hz.
Qed.

Lemma dec_text_not_null z : str_eqb (dec_text z) s_null = false.
Proof.
  unfold dec_text. destruct (Z.to_int z) as [u|u]; [|reflexivity].
  pose proof (chars_of_uint_digits u) as Hd. destruct (chars_of_uint u) as [|c r]; [reflexivity|].
  cbn in Hd. apply andb_prop in Hd as [Hc _]. unfold is_digit in Hc. apply andb_prop in Hc as [H1 H2].
  apply N.leb_le in H1, H2. cbn. destruct (N.eqb_spec c 110); [lia|reflexivity].
Qed.

(* the text form of an integer is ASCII: CPython's digit normalisation leaves it alone, and its digit characters are the
   digits of the number *)
Lemma to_ascii_digit_plain s : forallb plain_num_char s = true -> map to_ascii_digit s = s.
Proof.
  induction s as [|c r IH]; cbn [map forallb]; [reflexivity|]. intros H. apply andb_prop in H as [Hc Hr].
  rewrite (IH Hr). f_equal. unfold to_ascii_digit.
  assert ((c <? 128)%N = true) as ->; [|reflexivity].
  apply N.ltb_lt. unfold plain_num_char, is_digit in Hc. apply orb_prop in Hc as [Hc|Hc].
  - apply andb_prop in Hc as [_ H2]. apply N.leb_le in H2. lia.
  - apply N.eqb_eq in Hc. lia.
Qed.
Lemma filter_digits_all s : forallb is_digit s = true -> filter is_digit s = s.
Proof.
  induction s as [|c r IH]; cbn; [reflexivity|]. intros H. apply andb_prop in H as [Hc Hr]. rewrite Hc. now rewrite IH.
Qed.
Lemma dec_text_plain z : forallb plain_num_char (dec_text z) = true.
Proof.
  unfold dec_text. destruct (Z.to_int z) as [u|u]; [apply digits_plain, chars_of_uint_digits|].
  cbn. apply digits_plain, chars_of_uint_digits.
Qed.
Lemma digit_chars_dec_text z : digit_chars (dec_text z) = num_digits z.
Proof.
  unfold digit_chars, dec_text, num_digits. destruct (Z.to_int z) as [u|u].
  - now rewrite filter_digits_all by apply chars_of_uint_digits.
  - cbn. now rewrite filter_digits_all by apply chars_of_uint_digits.
Qed.
Lemma int_of_text_dec_text z : int_text_ok z = true -> int_of_text (dec_text z) = Some z.
Proof.
  intros H. unfold int_of_text. rewrite to_ascii_digit_plain by apply dec_text_plain.
  rewrite digit_chars_dec_text. unfold int_text_ok in H. rewrite H. apply int_of_str_dec_text.
Qed.
Lemma int_of_text_beyond z : int_text_ok z = false -> int_of_text (dec_text z) = None.
Proof.
  intros H. unfold int_of_text. rewrite to_ascii_digit_plain by apply dec_text_plain.
  rewrite digit_chars_dec_text. unfold int_text_ok in H. now rewrite H.
Qed.

(* Within CPython's conversion limit (at most 4300 decimal digits) the text form of an integer converts back to it ... *)
Lemma conv_int_roundtrip_lemma z nl : int_text_ok z = true -> parse_int (VStr (dec_text z)) nl = Ok (VInt z).
Proof.
  intros H. unfold parse_int. cbn [is_null]. rewrite dec_text_not_null, andb_false_r. now rewrite int_of_text_dec_text.
Qed.
Lemma conv_bool_roundtrip_lemma b nl :
  bind (parse_string (VBool b) nl) (fun t => parse_boolean t nl) = Ok (VBool b).
Proof. destruct b, nl; reflexivity. Qed.
Lemma conv_int_text_lemma z nl : int_text_ok z = true -> parse_string (VInt z) nl = Ok (VStr (dec_text z)).
Proof. intros H. destruct nl; cbn; now rewrite H. Qed.
(* ... and beyond it both directions are refused with ValueError (what CPython 3.12 does: the interpreter's limit) *)
Lemma conv_int_beyond_limit_lemma z nl : int_text_ok z = false ->
  parse_string (VInt z) nl = Err ValueError /\ parse_int (VStr (dec_text z)) nl = Err ValueError.
Proof.
  intros H. split.
  - destruct nl; cbn; now rewrite H.
  - unfold parse_int. cbn [is_null]. rewrite dec_text_not_null, andb_false_r. now rewrite int_of_text_beyond.
Qed.
(* the composed round trip of the harness's case kind 4: value -> text -> value *)
Lemma conv_int_there_and_back_lemma z nl : int_text_ok z = true ->
  bind (parse_string (VInt z) nl) (fun t => parse_int t nl) = Ok (VInt z).
Proof. intros H. rewrite conv_int_text_lemma by assumption. cbn [bind]. now apply conv_int_roundtrip_lemma. Qed.
(* float(z) of an integer is refused (ValueError) exactly from 2^1024 - 2^970 on, and is the float written like the
   integer below that *)
Lemma conv_float_of_int_lemma z :
  parse_float (VInt z) false = if (2 ^ 1024 - 2 ^ 970 <=? Z.abs z)%Z then Err ValueError else Ok (VFloat (dec_text z)).
Proof. reflexivity. Qed.

(* ---------------- the digit criterion in terms of magnitude: |z| < 10^4300 has at most 4300 digits ---------------- *)
From Coq Require Import DecimalFacts DecimalPos DecimalN.
Lemma chars_len u : length (chars_of_uint u) = nb_digits u.
Proof. induction u; cbn; auto. Qed.

(* value of the accumulator grows by a factor ten per digit *)
Lemma of_uint_acc_lower l : forall acc, (Npos acc * 10 ^ N.of_nat (nb_digits l) <= Npos (Pos.of_uint_acc l acc))%N.
Proof.
  induction l; intros acc; cbn [nb_digits Pos.of_uint_acc];
    try (rewrite Nat2N.inj_succ, N.pow_succ_r', N.mul_assoc; etransitivity; [|apply IHl]; apply N.mul_le_mono_r; lia).
  cbn. lia.
Qed.

(* a numeral without leading zero and with n digits is at least 10^(n-1) *)
Lemma of_uint_lower u : nzhead u = u -> u <> Nil -> (10 ^ N.of_nat (pred (nb_digits u)) <= Pos.of_uint u)%N.
Proof.
  intros Hn Hne. destruct u; try contradiction; cbn [nb_digits pred Pos.of_uint];
    try (etransitivity; [|apply of_uint_acc_lower]; lia).
  (* D0 u: nzhead (D0 u) = nzhead u, which is shorter than D0 u *)
  exfalso. cbn in Hn. pose proof (nb_digits_nzhead u) as H. rewrite Hn in H. cbn in H. lia.
Qed.

Lemma to_uint_nzhead p : nzhead (Pos.to_uint p) = Pos.to_uint p.
Proof.
  pose proof (DecimalPos.Unsigned.to_of (Pos.to_uint p)) as H.
  rewrite DecimalPos.Unsigned.of_to in H. cbn [N.to_uint] in H.
  unfold unorm in H. destruct (nzhead (Pos.to_uint p)) eqn:E; try (now rewrite <- H).
  exfalso. apply (DecimalPos.Unsigned.to_uint_nonzero p). now rewrite H.
Qed.

Lemma pos_digits_bound p k : (Npos p < 10 ^ N.of_nat k)%N -> nb_digits (Pos.to_uint p) <= k.
Proof.
  intros H. pose proof (of_uint_lower (Pos.to_uint p) (to_uint_nzhead p) (DecimalPos.Unsigned.to_uint_nonnil p)) as L.
  rewrite DecimalPos.Unsigned.of_to in L.
  destruct (Nat.le_gt_cases (nb_digits (Pos.to_uint p)) k) as [|Hgt]; [assumption|exfalso].
  assert (10 ^ N.of_nat k <= 10 ^ N.of_nat (pred (nb_digits (Pos.to_uint p))))%N by (apply N.pow_le_mono_r; lia).
  lia.
Qed.

Lemma num_digits_bound z k : (0 < k)%nat -> (Z.abs z < 10 ^ Z.of_nat k)%Z -> num_digits z <= k.
Proof.
  intros Hk H. unfold num_digits. destruct z as [|p|p]; cbn [Z.to_int].
  - cbn. lia.
  - rewrite chars_len. apply pos_digits_bound. cbn [Z.abs] in H.
    apply N2Z.inj_lt. rewrite N2Z.inj_pow. cbn. rewrite nat_N_Z. exact H.
  - rewrite chars_len. apply pos_digits_bound. cbn [Z.abs] in H.
    apply N2Z.inj_lt. rewrite N2Z.inj_pow. cbn. rewrite nat_N_Z. exact H.
Qed.

Lemma int_text_ok_small z : (Z.abs z < 10 ^ 4300)%Z -> int_text_ok z = true.
Proof.
  intros H. unfold int_text_ok, MAX_STR_DIGITS. apply Nat.leb_le. apply num_digits_bound; [lia|].
  replace (Z.of_nat 4300) with 4300%Z by reflexivity. exact H.
Qed.

Lemma conv_int_below_limit_lemma z nl : (Z.abs z < 10 ^ 4300)%Z ->
  parse_string (VInt z) nl = Ok (VStr (dec_text z)) /\ parse_int (VStr (dec_text z)) nl = Ok (VInt z).
Proof.
  intros H. pose proof (int_text_ok_small z H) as Hok. split; [now apply conv_int_text_lemma | now apply conv_int_roundtrip_lemma].
Qed.
