(* C12, the extended alphabet of Model/Dispatcher.v (xstep / run_C12X): the same callable registered
   again, the default priority, a dispatch whose event is already stopped, a listener that registers a
   listener while it is being called.
   1. xrun_refines: for every sequence of extended ops the dispatcher model answers every dispatch,
      get_listeners(event) and has_listeners as a specification that keeps NOTHING but the log of
      registrations (one entry per add_listener call, whoever made it) and the behaviour tables:
      a dispatch calls  run_until_stop (spec_order log ev)  for the log AS IT IS WHEN THE DISPATCH STARTS;
      what the called listeners register is appended to the log afterwards.
   2. xrun_base: on the base alphabet the extended step function is the old one (so every theorem about
      drun speaks about run_C12X on such sequences). *)
From Coq Require Import Lia Permutation Sorted.
From Clikit Require Import Base.Prelude Model.Dispatcher Proofs.DispatcherLemmas.

(* ------------------------------------------------------------------ *)
(* The specification *)
Record xspec := {
  q_regs : list reg;                (* the log: r_lid = index of the registration, r_stops = does its callable stop *)
  q_call : list (N * N);            (* registration index -> callable *)
  q_ncall : N;
  q_stops : list (N * bool);
  q_rg : list (N * (N * Z))
}.
Definition xsinit : xspec := {| q_regs := []; q_call := []; q_ncall := 0; q_stops := []; q_rg := [] |}.
Definition q_stops_of (q : xspec) (c : N) : bool :=
  match aget N.eqb c (q_stops q) with Some b => b | None => false end.

Definition qadd (q : xspec) (ev : N) (prio : Z) (c : N) : xspec :=
  {| q_regs := q_regs q ++ [{| r_ev := ev; r_prio := prio; r_lid := N.of_nat (length (q_regs q)); r_stops := q_stops_of q c |}];
     q_call := q_call q ++ [(N.of_nat (length (q_regs q)), c)];
     q_ncall := q_ncall q; q_stops := q_stops q; q_rg := q_rg q |}.
Definition qnew (q : xspec) (ev : N) (prio : Z) (stops : bool) (registers : option (N * Z)) : xspec :=
  let c := q_ncall q in
  qadd {| q_regs := q_regs q; q_call := q_call q; q_ncall := N.succ c;
          q_stops := q_stops q ++ [(c, stops)];
          q_rg := match registers with Some t => q_rg q ++ [(c, t)] | None => q_rg q end |} ev prio c.
Definition qeffects (q : xspec) (called : list N) : xspec :=
  fold_left (fun q c => match aget N.eqb c (q_rg q) with
                        | Some (e2, p2) => qnew q e2 p2 false None
                        | None => q end) called q.
(* the calls are decided on the log as it is NOW; the effects of the called listeners come after *)
Definition qdispatch (q : xspec) (ev : N) (prestopped : bool) : xspec * dout :=
  let called := map (callable_of (q_call q))
                    (if prestopped then [] else run_until_stop (spec_stops (q_regs q)) (spec_order (q_regs q) ev)) in
  (qeffects q called, OCalled called).

Definition xsstep (q : xspec) (o : xop) : xspec * dout :=
  match o with
  | XOp (Add ev prio stops) => (qnew q ev prio stops None, ONone)
  | XAddDefault ev stops => (qnew q ev 0%Z stops None, ONone)
  | XAddRegistrar ev prio ev2 prio2 => (qnew q ev prio false (Some (ev2, prio2)), ONone)
  | XAddAgain ev prio c => (if (c <? q_ncall q)%N then qadd q ev prio c else q, ONone)
  | XOp (Dispatch ev) => qdispatch q ev false
  | XDispatchStopped ev => qdispatch q ev true
  | XOp (Get ev) => (q, OList (map (callable_of (q_call q)) (spec_order (q_regs q) ev)))
  | XOp (Has e) => (q, snd (sstep (q_regs q) (Has e)))
  | XOp GetAll => (q, ONone)          (* not specified here: compared against the implementation only *)
  | XOp (Prio _ _) => (q, ONone)      (* likewise *)
  end.
Fixpoint xsrun (q : xspec) (ops : list xop) : list dout :=
  match ops with
  | [] => []
  | o :: r => let '(q', out) := xsstep q o in out :: xsrun q' r
  end.

Definition xcovered (o : xop) : bool := match o with XOp GetAll | XOp (Prio _ _) => false | _ => true end.
Fixpoint xouts_agree (ops : list xop) (a b : list dout) : Prop :=
  match ops, a, b with
  | [], [], [] => True
  | o :: ops', x :: a', y :: b' => (xcovered o = true -> x = y) /\ xouts_agree ops' a' b'
  | _, _, _ => False
  end.

(* ------------------------------------------------------------------ *)
(* The simulation: the dispatcher record against the log (the invariant of DispatcherLemmas), the tables equal *)
Definition XR (s : xstate) (q : xspec) : Prop :=
  Inv (x_d s) (q_regs q) /\ x_call s = q_call q /\ x_ncall s = q_ncall q /\ x_stops s = q_stops q /\ x_regs s = q_rg q.

Lemma XR_init : XR xinit xsinit.
Proof. unfold XR. split; [apply Inv_init | cbn; repeat split]. Qed.

Lemma XR_add s q ev prio c : XR s q -> XR (xadd s ev prio c) (qadd q ev prio c).
Proof.
  intros (HI & Hc & Hn & Hs & Hr).
  assert (stops_of s c = q_stops_of q c) as Hst by (unfold stops_of, q_stops_of; now rewrite Hs).
  destruct (step_sim (x_d s) (q_regs q) (Add ev prio (stops_of s c)) HI) as [HI' _].
  cbn [dstep sstep fst] in HI'.
  unfold XR, xadd, qadd; cbn [x_d x_call x_ncall x_stops x_regs q_regs q_call q_ncall q_stops q_rg].
  split; [rewrite <- Hst; exact HI'|].
  destruct HI as (Hnext & _). rewrite Hnext, Hc. auto.
Qed.

Lemma XR_tables s q d st rg :
  Inv d (q_regs q) -> x_call s = q_call q ->
  XR {| x_d := d; x_call := x_call s; x_ncall := N.succ (x_ncall s); x_stops := st; x_regs := rg |}
     {| q_regs := q_regs q; q_call := q_call q; q_ncall := N.succ (x_ncall s); q_stops := st; q_rg := rg |}.
Proof. intros HI Hc. unfold XR; cbn. auto. Qed.

Lemma XR_new s q ev prio stops registers : XR s q -> XR (xnew s ev prio stops registers) (qnew q ev prio stops registers).
Proof.
  intros (HI & Hc & Hn & Hs & Hr). unfold xnew, qnew. rewrite <- Hn, <- Hs, <- Hr.
  apply XR_add. unfold XR; cbn. auto.
Qed.

Lemma XR_effects called : forall s q, XR s q -> XR (xeffects s called) (qeffects q called).
Proof.
  induction called as [|c r IH]; intros s q H; cbn; [exact H|].
  apply IH. destruct H as (HI & Hc & Hn & Hs & Hr). rewrite Hr.
  destruct (aget N.eqb c (q_rg q)) as [[e2 p2]|]; [apply XR_new|]; unfold XR; auto.
Qed.

Lemma XR_with_d s q d : XR s q -> Inv d (q_regs q) -> XR (with_d s d) q.
Proof. intros (_ & Hc & Hn & Hs & Hr) HI. unfold XR, with_d; cbn. auto. Qed.

Lemma XR_dispatch s q ev b :
  XR s q -> XR (fst (xdispatch s ev b)) (fst (qdispatch q ev b)) /\ snd (xdispatch s ev b) = snd (qdispatch q ev b).
Proof.
  intros H. pose proof H as (HI & Hc & Hn & Hs & Hr).
  destruct (step_sim (x_d s) (q_regs q) (Dispatch ev) HI) as [HI' Ho].
  specialize (Ho eq_refl). cbn [dstep sstep fst snd] in HI', Ho.
  unfold xdispatch, qdispatch. destruct (get_listeners (x_d s) ev) as [d' l]. cbn [fst snd] in *.
  injection Ho as Ho. rewrite Hc, Ho.
  split; [|reflexivity].
  rewrite <- Hc. apply XR_effects. apply XR_with_d; assumption.
Qed.

Lemma xstep_sim s q o :
  XR s q ->
  XR (fst (xstep s o)) (fst (xsstep q o)) /\ (xcovered o = true -> snd (xstep s o) = snd (xsstep q o)).
Proof.
  intros H. pose proof H as (HI & Hc & Hn & Hs & Hr).
  destruct o as [[ev prio stops|ev|e|ev| |ev c]|ev prio c|ev stops|ev prio ev2 prio2|ev]; cbn [xstep xsstep xcovered fst snd].
  - split; [apply XR_new, H | reflexivity].
  - destruct (XR_dispatch s q ev false H) as [H1 H2].
    destruct (xdispatch s ev false), (qdispatch q ev false). cbn in *. split; auto.
  - split; [exact H|]. intros _.
    destruct (step_sim (x_d s) (q_regs q) (Has e) HI) as [_ Ho]. exact (Ho eq_refl).
  - destruct (step_sim (x_d s) (q_regs q) (Get ev) HI) as [HI' Ho]. specialize (Ho eq_refl).
    cbn [dstep sstep fst snd] in HI', Ho. destruct (get_listeners (x_d s) ev) as [d' l]. cbn [fst snd] in *.
    injection Ho as Ho. split; [apply XR_with_d; assumption|]. intros _. now rewrite Hc, Ho.
  - destruct (step_sim (x_d s) (q_regs q) GetAll HI) as [HI' _]. cbn [sstep fst] in HI'.
    destruct (dstep (x_d s) GetAll) as [d' out]. cbn [fst snd] in *.
    split; [apply XR_with_d; assumption | discriminate].
  - split; [exact H | discriminate].
  - split; [|reflexivity]. rewrite Hn. destruct (c <? q_ncall q)%N; [apply XR_add, H | exact H].
  - split; [apply XR_new, H | reflexivity].
  - split; [apply XR_new, H | reflexivity].
  - destruct (XR_dispatch s q ev true H) as [H1 H2].
    destruct (xdispatch s ev true), (qdispatch q ev true). cbn in *. split; auto.
Qed.

Lemma xrun_sim ops : forall s q, XR s q -> xouts_agree ops (xrun s ops) (xsrun q ops).
Proof.
  induction ops as [|o r IH]; intros s q H; cbn; [exact I|].
  destruct (xstep_sim s q o H) as [H' Ho].
  destruct (xstep s o) as [s' x]. destruct (xsstep q o) as [q' y]. cbn in *.
  split; [exact Ho | apply IH, H'].
Qed.

Lemma xrun_refines_lemma ops : xouts_agree ops (xrun xinit ops) (xsrun xsinit ops).
Proof. apply xrun_sim, XR_init. Qed.

(* a dispatch of an already stopped event calls nobody, whatever is registered *)
Lemma xdispatch_stopped_lemma s ev : snd (xstep s (XDispatchStopped ev)) = OCalled [].
Proof. cbn. unfold xdispatch. destruct (get_listeners (x_d s) ev). reflexivity. Qed.

(* the log only grows, and by exactly what the called listeners register *)
Lemma qeffects_log called : forall q, exists more, q_regs (qeffects q called) = q_regs q ++ more.
Proof.
  unfold qeffects. induction called as [|c r IH]; intros q; cbn [fold_left]; [exists []; now rewrite app_nil_r|].
  destruct (aget N.eqb c (q_rg q)) as [[e2 p2]|]; [|apply IH].
  destruct (IH (qnew q e2 p2 false None)) as [more Hm]. rewrite Hm. unfold qnew, qadd; cbn [q_regs].
  eexists. rewrite <- app_assoc. reflexivity.
Qed.
Lemma xsstep_log_grows q o : exists more, q_regs (fst (xsstep q o)) = q_regs q ++ more.
Proof.
  destruct o as [[ev prio stops|ev|e|ev| |ev c]|ev prio c|ev stops|ev prio ev2 prio2|ev]; cbn [xsstep]; unfold qdispatch; cbn [fst].
  all: try apply qeffects_log.
  all: try (exists []; now rewrite app_nil_r).
  all: try (unfold qnew, qadd; cbn [q_regs]; eexists; reflexivity).
  destruct (c <? q_ncall q)%N; [unfold qadd; cbn [q_regs]; eexists; reflexivity | exists []; now rewrite app_nil_r].
Qed.

(* ------------------------------------------------------------------ *)
(* Conservativity: on base ops the extended step is the old step *)
Definition XB (s : xstate) : Prop :=
  (forall i, callable_of (x_call s) i = i) /\ x_ncall s = d_next (x_d s) /\ x_stops s = d_stops (x_d s) /\ x_regs s = [] /\
  Forall (fun kb => (fst kb < x_ncall s)%N) (x_stops s).

Lemma aget_app_N {V} k (a b : list (N * V)) :
  aget N.eqb k (a ++ b) = match aget N.eqb k a with Some v => Some v | None => aget N.eqb k b end.
Proof. induction a as [|[k' v] r IH]; cbn; auto. destruct (N.eqb k k'); auto. Qed.
Lemma aget_fresh_none (st : list (N * bool)) n : Forall (fun kb => (fst kb < n)%N) st -> aget N.eqb n st = None.
Proof.
  induction 1 as [|[k b] r Hk _ IH]; cbn; auto. cbn in Hk.
  destruct (N.eqb_spec n k); [lia | exact IH].
Qed.

Lemma XB_init : XB xinit.
Proof. unfold XB; cbn. repeat split; auto. Qed.

Lemma find_prio_c_id call g c : (forall i, callable_of call i = i) -> find_prio_c call g c = find_prio g c.
Proof.
  intros Hid. induction g as [|[p ls] r IH]; cbn; auto.
  rewrite IH. f_equal.
  assert (existsb (fun i => N.eqb (callable_of call i) c) ls = existsb (N.eqb c) ls) as ->; [|reflexivity].
  induction ls as [|a l IHl]; cbn; auto. rewrite Hid, IHl, (N.eqb_sym a c). reflexivity.
Qed.

Lemma map_callable_id call (l : list N) : (forall i, callable_of call i = i) -> map (callable_of call) l = l.
Proof. intros H. induction l as [|a r IH]; cbn; [reflexivity|]. now rewrite H, IH. Qed.

Lemma get_listeners_keeps st ev :
  d_next (fst (get_listeners st ev)) = d_next st /\ d_stops (fst (get_listeners st ev)) = d_stops st.
Proof.
  unfold get_listeners. destruct (aget N.eqb ev (d_listeners st)); [|auto].
  destruct (aget N.eqb ev (d_sorted st)); cbn; auto.
Qed.

Lemma xstep_base s o :
  XB s -> XB (fst (xstep s (XOp o))) /\ x_d (fst (xstep s (XOp o))) = fst (dstep (x_d s) o) /\
          snd (xstep s (XOp o)) = snd (dstep (x_d s) o).
Proof.
  intros (Hid & Hn & Hs & Hr & Hb).
  destruct o as [ev prio stops|ev|e|ev| |ev c]; cbn [xstep dstep fst snd].
  - (* Add *)
    assert (stops_of {| x_d := x_d s; x_call := x_call s; x_ncall := N.succ (x_ncall s);
                        x_stops := x_stops s ++ [(x_ncall s, stops)]; x_regs := x_regs s |} (x_ncall s) = stops) as Hst.
    { unfold stops_of; cbn. rewrite aget_app_N, (aget_fresh_none _ _ Hb). cbn. now rewrite N.eqb_refl. }
    unfold xnew, xadd; cbn [x_d x_call x_ncall x_stops x_regs]. rewrite Hst.
    split; [|split; reflexivity].
    unfold XB; cbn [x_d x_call x_ncall x_stops x_regs add_listener d_next d_stops].
    split; [|split; [now rewrite Hn|split; [now rewrite Hs, Hn|split; [exact Hr|]]]].
    + intros i. unfold callable_of. rewrite aget_app_N.
      specialize (Hid i). unfold callable_of in Hid.
      destruct (aget N.eqb i (x_call s)); [exact Hid|]. cbn. rewrite Hn.
      destruct (N.eqb_spec i (d_next (x_d s))); [now subst | reflexivity].
    + apply Forall_app. split; [eapply Forall_impl; [|exact Hb]; cbn; intros; lia|].
      repeat constructor. cbn. lia.
  - (* Dispatch *)
    unfold xdispatch. pose proof (get_listeners_keeps (x_d s) ev) as [K1 K2].
    destruct (get_listeners (x_d s) ev) as [d' l]. cbn [fst snd] in *.
    rewrite (map_callable_id _ _ Hid).
    assert (forall called st, x_regs st = [] -> xeffects st called = st) as Hnoeff.
    { induction called as [|c r IH]; intros st Hst; cbn; [reflexivity|]. rewrite Hst. cbn. now apply IH. }
    rewrite Hnoeff by exact Hr.
    split; [|split; reflexivity].
    unfold XB, with_d; cbn. rewrite K1, K2. auto.
  - (* Has *)
    split; [unfold XB; auto | split; [destruct e; reflexivity | reflexivity]].
  - (* Get *)
    pose proof (get_listeners_keeps (x_d s) ev) as [K1 K2].
    destruct (get_listeners (x_d s) ev) as [d' l]. cbn [fst snd] in *.
    rewrite (map_callable_id _ _ Hid). split; [|split; reflexivity].
    unfold XB, with_d; cbn. rewrite K1, K2. auto.
  - (* GetAll *)
    cbn. split; [|split; [reflexivity|]].
    + unfold XB, with_d; cbn. auto.
    + f_equal. erewrite map_ext; [apply map_id|]. intros [e l]. cbn. now rewrite (map_callable_id _ _ Hid).
  - (* Prio *)
    split; [|split; [reflexivity|]]; [unfold XB; auto|].
    f_equal. destruct (aget N.eqb ev (d_listeners (x_d s))); [|reflexivity]. apply find_prio_c_id, Hid.
Qed.

Lemma xrun_base_gen ops : forall s, XB s -> xrun s (map XOp ops) = drun (x_d s) ops.
Proof.
  induction ops as [|o r IH]; intros s H; cbn [map xrun drun]; [reflexivity|].
  destruct (xstep_base s o H) as (H' & Hd & Ho).
  destruct (xstep s (XOp o)) as [s' x]. destruct (dstep (x_d s) o) as [d' y]. cbn [fst snd] in *.
  subst. f_equal. apply IH, H'.
Qed.
Lemma xrun_base_lemma ops : xrun xinit (map XOp ops) = drun dinit ops.
Proof. apply (xrun_base_gen ops xinit XB_init). Qed.
