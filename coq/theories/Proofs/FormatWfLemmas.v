(* C06, added after the Coq review (REPORT "C06: minor issues" 1, 3, 4):
     - ArgsFormat(elements, base) yields a well-formed format, and a format built through the API stays well-formed
       when it is used as a base and built on again ("constructing directly enforces the same rules");
     - the hypothesis bop_valid (an added argument carries exactly one of REQUIRED / OPTIONAL) is what Argument()
       of C07 guarantees: constructed_arg_valid;
     - the listings are in insertion order: arguments and command names base first, options and command options own
       first ("as the listed elements imply"). *)
From Coq Require Import Lia.
From Clikit Require Import Base.Prelude Base.Res Model.Conv Model.Flags Model.Format
     Proofs.StrLemmas Proofs.FlagsLemmas Proofs.FormatLemmas Proofs.FormatAgreeLemmas Proofs.FmtOkLemmas.

(* ---------- ArgsFormat(elements, base) is well-formed ---------- *)
Lemma add_elements_wf : forall es f f', wf f -> forallb element_valid es = true -> add_elements f es = Ok f' -> wf f'.
Proof.
  induction es as [|e r IH]; intros f f' Hw Hv H; cbn [add_elements forallb] in *.
  - inversion H; subst; auto.
  - apply andb_prop in Hv as [He Hr]. unfold bind in H.
    destruct e as [o|c|a|c]; cbn [element_valid] in He.
    + destruct (add_option f o) eqn:E; [|discriminate]. apply (IH x f'); auto. eapply add_option_wf; eauto.
    + destruct (add_command_option f c) eqn:E; [|discriminate]. apply (IH x f'); auto. eapply add_copt_wf; eauto.
    + destruct (add_argument f a) eqn:E; [|discriminate]. apply (IH x f'); auto. eapply add_argument_wf; eauto.
    + destruct (add_command_name f c) eqn:E; [|discriminate]. apply (IH x f'); auto. eapply add_cname_wf; eauto.
Qed.
Lemma empty_builder_wf_any base : match base with Some b => wf b | None => True end -> wf (empty_builder base).
Proof. destruct base; [apply empty_builder_wf_some|intros _; apply empty_builder_wf_none]. Qed.

Theorem format_of_elements_wf_lemma : forall es base f,
  match base with Some b => wf b | None => True end -> forallb element_valid es = true ->
  format_of_elements es base = Ok f -> wf f.
Proof.
  intros es base f Hb Hv H. unfold format_of_elements, bind in H.
  destruct (add_elements (empty_builder base) es) eqn:E; [|discriminate]. inversion H; subst.
  rewrite idx_inv_build. 2:{ eapply add_elements_keeps_idx; [apply empty_builder_idx|eauto]. }
  eapply add_elements_wf; eauto. now apply empty_builder_wf_any.
Qed.

(* a builder over a well-formed (or no) base, any valid operations, then .format *)
Theorem built_format_wf_lemma : forall base ops,
  match base with Some b => wf b | None => True end -> forallb bop_valid ops = true ->
  wf (build_format (brun (empty_builder base) ops)).
Proof.
  intros base ops Hb Hv. rewrite reachable_build_id. apply reachable_wf_lemma; [|exact Hv]. now apply empty_builder_wf_any.
Qed.
(* two levels: the first format is used as the base of a second builder *)
Theorem stacked_wf_lemma : forall ops0 ops1,
  forallb bop_valid ops0 = true -> forallb bop_valid ops1 = true ->
  wf (build_format (brun (empty_builder (Some (build_format (brun (empty_builder None) ops0)))) ops1)).
Proof.
  intros ops0 ops1 H0 H1. apply (built_format_wf_lemma (Some _)); [|exact H1]. now apply (built_format_wf_lemma None).
Qed.
(* any depth *)
Theorem api_format_wf_lemma : forall f, api_format f -> wf f.
Proof.
  induction 1 as [ops Hv|bf ops _ IH Hv].
  - now apply (built_format_wf_lemma None).
  - now apply (built_format_wf_lemma (Some bf)).
Qed.
(* ArgsFormat(elements, base) and builder + .format enforce the same rules: it IS the builder route *)
Theorem format_of_elements_is_built_lemma : forall es base f,
  format_of_elements es base = Ok f -> f = build_format (brun (empty_builder base) (map op_of_element es)).
Proof. exact format_of_elements_built. Qed.

(* ---------- bop_valid is what Argument() of C07 guarantees ---------- *)
Definition arg_of_obj (o : argobj) (dv : pyval) : arg := {| a_name := ao_name o; a_flags := ao_flags o; a_default := dv |}.
Theorem constructed_arg_valid_lemma : forall n f d o dv,
  mk_argument n f d = Ok o -> arg_valid (arg_of_obj o dv) = true.
Proof.
  intros n f d o dv H. pose proof (arg_normal_form_lemma n f d o H) as [_ Hx _ _ _ _].
  unfold arg_valid, arg_of_obj, a_required, a_optional. cbn [a_flags]. rewrite !bit_tb by lia. exact Hx.
Qed.
Theorem constructed_args_bop_valid_lemma : forall n f d o dv,
  mk_argument n f d = Ok o -> bop_valid (AddArgument (arg_of_obj o dv)) = true /\ element_valid (EArg (arg_of_obj o dv)) = true.
Proof. intros n f d o dv H. split; cbn; eapply constructed_arg_valid_lemma; eauto. Qed.
(* the wire decoder of the C06 tie normalises the flag word the same way; for accepted flag words it is valid too *)
Theorem normalised_flags_valid_lemma : forall n f dv,
  arg_flags_ok f = true -> arg_valid {| a_name := n; a_flags := arg_defaults f; a_default := dv |} = true.
Proof.
  intros n f dv Hok. unfold arg_valid, a_required, a_optional. cbn [a_flags]. rewrite !bit_tb by lia.
  unfold arg_flags_ok in Hok. apply andb_prop in Hok as [H01 _]. arg_bits. cbn.
  destruct (tb f 0), (tb f 1); cbn in *; try reflexivity; discriminate.
Qed.
(* and without it the invariant does break: see Example unvalidated_argument_breaks_order below *)

(* ---------- listing order ---------- *)
(* include_base = True: arguments and command names list the base's first, options and command options the own first *)
Theorem listing_order_lemma f : fmt_inv f ->
  get_arguments f true = match f_base f with Some bf => get_arguments bf true | None => [] end ++ get_arguments f false /\
  get_command_names f true = match f_base f with Some bf => get_command_names bf true | None => [] end ++ get_command_names f false /\
  get_options f true = get_options f false ++ match f_base f with Some bf => get_options bf true | None => [] end /\
  get_command_options f true = get_command_options f false ++ match f_base f with Some bf => get_command_options bf true | None => [] end.
Proof.
  intros ([Hai _] & _ & Ho). cbn [get_arguments get_command_names get_options get_command_options].
  split; [exact (args_all_app f Hai)|]. split; [destruct f as [[bf|] cn co cs ar os oss hm ho]; reflexivity|].
  split; [|destruct f as [[bf|] cn co cs ar os oss hm ho]; reflexivity].
  destruct f as [[bf|] cn co cs ar os oss hm ho]; cbn [get_options_all f_opts f_base]; [|now rewrite app_nil_r].
  destruct Ho as (Hk & Hnd & Hsh & Hsep & Hb & Hfr). destruct (opts_all_spec bf Hb) as (Hndb & Hkb & _ & Hnb).
  apply supdate_fresh; [exact Hndb|].
  intros k Hkin. destruct (sget k os) as [o|] eqn:Eg; [exfalso|reflexivity].
  apply sget_in in Eg. rewrite Forall_forall in Hk. specialize (Hk _ Eg). unfold okeyed in Hk. cbn [fst snd] in Hk.
  assert (has_option_all bf k = false) as Hf by (apply (Hfr k o k Eg); apply in_onames; now left).
  apply in_map_iff in Hkin as [[k' o'] [Ek' Hin']]. cbn [fst] in Ek'. subst k'.
  rewrite Forall_forall in Hkb. pose proof (Hkb _ Hin') as Hko. unfold okeyed in Hko. cbn [fst snd] in Hko.
  rewrite (Hnb k o' k Hin') in Hf; [discriminate|]. apply in_onames. now left.
Qed.

(* an accepted addition goes to the END of the own listing (no hypothesis on the builder) *)
Lemma add_argument_appends f a f' : add_argument f a = Ok f' ->
  get_arguments f' false = get_arguments f false ++ [(a_name a, a)] /\ get_options f' false = get_options f false /\
  get_command_names f' false = get_command_names f false.
Proof.
  unfold add_argument. cbn [has_argument get_arguments].
  destruct (shas (a_name a) (get_arguments_all f)) eqn:Hname; [discriminate|].
  destruct (has_multi_all f); [discriminate|]. destruct (a_required a && has_optional_all f); [discriminate|].
  assert (sget (a_name a) (get_arguments_all f) = None) as Hnone.
  { rewrite shas_sget in Hname. destruct (sget (a_name a) (get_arguments_all f)); [discriminate|reflexivity]. }
  destruct f as [b cn co cs ar os oss hm ho]. intros H. inversion H; subst. clear H.
  cbn [get_options get_command_names f_args f_opts f_cnames]. split; [|split; reflexivity].
  unfold sset. apply sset_absent. destruct b as [bf|]; [|exact Hnone]. cbn in Hnone. eapply sget_supdate_own; eauto.
Qed.
Lemma add_option_appends f o f' : add_option f o = Ok f' ->
  get_options f' false = get_options f false ++ [(o_long o, o)] /\ get_arguments f' false = get_arguments f false /\
  get_command_names f' false = get_command_names f false.
Proof.
  unfold add_option. destruct (opt_name_taken f (o_long o)) eqn:Hl; [discriminate|].
  destruct (optname_taken f (o_short o)); [discriminate|].
  destruct f as [b cn co cs ar os oss hm ho]. intros H. inversion H; subst. clear H.
  cbn [get_options get_arguments get_command_names f_args f_opts f_cnames]. split; [|split; reflexivity].
  unfold sset. apply sset_absent. unfold opt_name_taken in Hl. cbn [has_option_all] in Hl.
  apply orb_false_elim in Hl as [Hl _]. apply orb_false_elim in Hl as [Hl _]. apply orb_false_elim in Hl as [Hl _].
  rewrite shas_sget in Hl. unfold sget in *. destruct (aget str_eqb (o_long o) os); [discriminate|reflexivity].
Qed.
Lemma add_cname_appends f c f' : add_command_name f c = Ok f' ->
  get_command_names f' false = get_command_names f false ++ [c] /\ get_arguments f' false = get_arguments f false /\
  get_options f' false = get_options f false.
Proof. destruct f. cbn. intros H. inversion H; subst. repeat split; reflexivity. Qed.
Lemma add_copt_keeps_lists f c f' : add_command_option f c = Ok f' ->
  get_arguments f' false = get_arguments f false /\ get_options f' false = get_options f false /\
  get_command_names f' false = get_command_names f false.
Proof.
  unfold add_command_option. intros H.
  repeat match type of H with (if ?c then _ else _) = _ => destruct c; [discriminate|] end.
  destruct f. inversion H; subst. repeat split; reflexivity.
Qed.

(* what the elements imply: the arguments, options and command names among them, in their order *)
Definition args_in (es : list element) : list (str * arg) :=
  flat_map (fun e => match e with EArg a => [(a_name a, a)] | _ => [] end) es.
Definition opts_in (es : list element) : list (str * opt) :=
  flat_map (fun e => match e with EOpt o => [(o_long o, o)] | _ => [] end) es.
Definition cnames_in (es : list element) : list cname :=
  flat_map (fun e => match e with ECName c => [c] | _ => [] end) es.

Lemma add_elements_lists : forall es f f', add_elements f es = Ok f' ->
  get_arguments f' false = get_arguments f false ++ args_in es /\
  get_options f' false = get_options f false ++ opts_in es /\
  get_command_names f' false = get_command_names f false ++ cnames_in es.
Proof.
  induction es as [|e r IH]; intros f f' H; cbn [add_elements] in H.
  - inversion H; subst. cbn. now rewrite !app_nil_r.
  - unfold bind in H. destruct e as [o|c|a|c].
    + destruct (add_option f o) as [f1|] eqn:E; [|discriminate]. destruct (IH _ _ H) as (H1 & H2 & H3).
      destruct (add_option_appends _ _ _ E) as (E1 & E2 & E3). rewrite H1, H2, H3, E1, E2, E3.
      cbn [args_in opts_in cnames_in flat_map app]. now rewrite <- app_assoc.
    + destruct (add_command_option f c) as [f1|] eqn:E; [|discriminate]. destruct (IH _ _ H) as (H1 & H2 & H3).
      destruct (add_copt_keeps_lists _ _ _ E) as (E1 & E2 & E3). rewrite H1, H2, H3, E1, E2, E3. now cbn.
    + destruct (add_argument f a) as [f1|] eqn:E; [|discriminate]. destruct (IH _ _ H) as (H1 & H2 & H3).
      destruct (add_argument_appends _ _ _ E) as (E1 & E2 & E3). rewrite H1, H2, H3, E1, E2, E3.
      cbn [args_in opts_in cnames_in flat_map app]. now rewrite <- app_assoc.
    + destruct (add_command_name f c) as [f1|] eqn:E; [|discriminate]. destruct (IH _ _ H) as (H1 & H2 & H3).
      destruct (add_cname_appends _ _ _ E) as (E1 & E2 & E3). rewrite H1, H2, H3, E1, E2, E3.
      cbn [args_in opts_in cnames_in flat_map app]. now rewrite <- app_assoc.
Qed.

Lemma add_elements_base' : forall es f f', add_elements f es = Ok f' -> f_base f' = f_base f.
Proof.
  induction es as [|e r IH]; intros f f' H; cbn [add_elements] in H; [inversion H; reflexivity|].
  unfold bind in H. destruct e as [o|c|a|c].
  - destruct (add_option f o) as [f1|] eqn:E; [|discriminate]. rewrite (IH _ _ H). apply add_option_same in E. tauto.
  - destruct (add_command_option f c) as [f1|] eqn:E; [|discriminate]. rewrite (IH _ _ H).
    unfold add_command_option in E.
    repeat match type of E with (if ?c then _ else _) = _ => destruct c; [discriminate|] end.
    destruct f. inversion E; subst. reflexivity.
  - destruct (add_argument f a) as [f1|] eqn:E; [|discriminate]. rewrite (IH _ _ H).
    unfold add_argument in E.
    repeat match type of E with (if ?c then _ else _) = _ => destruct c; [discriminate|] end.
    destruct f. inversion E; subst. reflexivity.
  - destruct (add_command_name f c) as [f1|] eqn:E; [|discriminate]. rewrite (IH _ _ H).
    destruct f. cbn in E. inversion E; subst. reflexivity.
Qed.

(* ArgsFormat(elements, base): the own listings are exactly the elements given, in the order given; with the base included,
   arguments and command names come after the base's, options before the base's *)
Theorem format_of_elements_lists_lemma : forall es base f,
  match base with Some bf => fmt_inv bf | None => True end -> forallb element_valid es = true ->
  format_of_elements es base = Ok f ->
  get_arguments f false = args_in es /\ get_options f false = opts_in es /\ get_command_names f false = cnames_in es /\
  get_arguments f true = match base with Some bf => get_arguments bf true | None => [] end ++ args_in es /\
  get_options f true = opts_in es ++ match base with Some bf => get_options bf true | None => [] end /\
  get_command_names f true = match base with Some bf => get_command_names bf true | None => [] end ++ cnames_in es.
Proof.
  intros es base f Hb Hv H. destruct (format_of_elements_fmt_ok_lemma es base f Hb Hv H) as [Hinv _].
  unfold format_of_elements in H. destruct (add_elements (empty_builder base) es) as [g|] eqn:E; cbn [bind] in H; [|discriminate].
  inversion H; subst f. clear H.
  destruct (add_elements_lists _ _ _ E) as (H1 & H2 & H3).
  change (get_arguments (empty_builder base) false) with (@nil (str * arg)) in H1.
  change (get_options (empty_builder base) false) with (@nil (str * opt)) in H2.
  change (get_command_names (empty_builder base) false) with (@nil cname) in H3. cbn [app] in H1, H2, H3.
  pose proof (add_elements_base' _ _ _ E) as Hbase. cbn in Hbase.
  destruct (build_format_arg_queries g (APos 0) false) as (_ & _ & Q1 & _ & _ & _ & Q2 & Q3).
  assert (f_base (build_format g) = base) as Hbb by (destruct (build_format_same g) as [Hx _]; congruence).
  destruct (listing_order_lemma _ Hinv) as (L1 & L2 & L3 & _). rewrite Hbb in L1, L2, L3.
  split; [rewrite Q1; exact H1|]. split; [rewrite Q3; exact H2|]. split; [rewrite Q2; exact H3|].
  split; [rewrite L1, Q1, H1; reflexivity|]. split; [rewrite L3, Q3, H2; reflexivity|]. rewrite L2, Q2, H3; reflexivity.
Qed.

(* ---------- instances ---------- *)
Module FormatWfExamples.
  Definition S (l : list N) : str := l.
  Definition verbose := {| o_long := [118;101;114;98;111;115;101]%N; o_short := Some [118]%N; o_flags := 134; o_default := VNone |}.
  Definition force := {| o_long := [102;111;114;99;101]%N; o_short := Some [102]%N; o_flags := 134; o_default := VNone |}.
  Definition quiet := {| o_long := [113;117;105;101;116]%N; o_short := Some [113]%N; o_flags := 134; o_default := VNone |}.
  Definition help := {| Format.co_long := [104;101;108;112]%N; Format.co_short := Some [104]%N; co_lals := [[117;115;97;103;101]%N]; co_sals := [[63]%N] |}.
  Definition host := {| a_name := [104;111;115;116]%N; a_flags := 17; a_default := VNone |}.          (* REQUIRED | STRING *)
  Definition port := {| a_name := [112;111;114;116]%N; a_flags := 66; a_default := VInt 80 |}.        (* OPTIONAL | INTEGER *)
  Definition files := {| a_name := [102;105;108;101;115]%N; a_flags := 22; a_default := VList [] |}.  (* OPTIONAL | MULTI | STRING *)
  Definition server := {| cn_name := [115;101;114;118;101;114]%N; cn_aliases := [[115;114;118]%N] |}.
  Definition add := {| cn_name := [97;100;100]%N; cn_aliases := [] |}.
  Definition base_es := [ECName server; EArg host; EOpt verbose; ECOpt help].
  Definition own_es := [EOpt force; ECName add; EArg port; EOpt quiet; EArg files].
  Definition B := match format_of_elements base_es None with Ok f => f | Err _ => empty_builder None end.
  Definition F := match format_of_elements own_es (Some B) with Ok f => f | Err _ => empty_builder None end.
  Lemma B_ok : format_of_elements base_es None = Ok B.  Proof. vm_compute. reflexivity. Qed.
  Lemma F_ok : format_of_elements own_es (Some B) = Ok F.  Proof. vm_compute. reflexivity. Qed.
  Lemma B_inv : fmt_inv B.
  Proof. apply (format_of_elements_fmt_ok_lemma base_es None B I); [vm_compute; reflexivity|exact B_ok]. Qed.
  Lemma B_wf : wf B.
  Proof. apply (format_of_elements_wf_lemma base_es None B I); [vm_compute; reflexivity|exact B_ok]. Qed.
  Example stacked_instance :
    wf B /\ wf F /\ f_base F = Some B /\
    map fst (get_arguments F false) = [a_name port; a_name files] /\
    map fst (get_arguments F true) = [a_name host; a_name port; a_name files] /\
    map fst (get_options F false) = [o_long force; o_long quiet] /\
    map fst (get_options F true) = [o_long force; o_long quiet; o_long verbose] /\
    get_command_names F true = [server; add] /\
    (* the rules are enforced against the base as well: a required argument after the inherited/own optional ones, a
       second argument after the multi-valued one, an option whose short name is taken in the base *)
    format_of_elements (own_es ++ [EArg {| a_name := [120]%N; a_flags := 17; a_default := VNone |}]) (Some B) = Err CannotAddArgument /\
    format_of_elements [EArg port; EArg host] (Some B) = Err CannotAddArgument /\
    format_of_elements [EOpt {| o_long := [118;118]%N; o_short := Some [118]%N; o_flags := 134; o_default := VNone |}] (Some B) = Err CannotAddOption.
  Proof.
    split; [exact B_wf|]. split; [apply (format_of_elements_wf_lemma own_es (Some B) F B_wf); [vm_compute; reflexivity|exact F_ok]|].
    split; [vm_compute; reflexivity|].
    destruct (format_of_elements_lists_lemma own_es (Some B) F B_inv eq_refl F_ok) as (H1 & H2 & H3 & H4 & H5 & H6).
    split; [rewrite H1; reflexivity|]. split; [rewrite H4; vm_compute; reflexivity|].
    split; [rewrite H2; reflexivity|]. split; [rewrite H5; vm_compute; reflexivity|].
    split; [rewrite H6; vm_compute; reflexivity|]. repeat split; vm_compute; reflexivity.
  Qed.
  (* Argument("port", OPTIONAL | INTEGER) through the C07 constructor, then added *)
  Example constructed_instance :
    match mk_argument (NStr [112;111;114;116]%N) 66 DNone with
    | Ok o => ao_flags o = 66%Z /\ arg_valid (arg_of_obj o VNone) = true /\ bop_valid (AddArgument (arg_of_obj o VNone)) = true
    | Err _ => False end /\
    (* flag word 0 is normalised to OPTIONAL | STRING *)
    match mk_argument (NStr [120]%N) 0 DNone with
    | Ok o => ao_flags o = 18%Z /\ arg_valid (arg_of_obj o VNone) = true | Err _ => False end /\
    (* REQUIRED | OPTIONAL is rejected by the constructor *)
    mk_argument (NStr [120]%N) 3 DNone = Err ValueError.
  Proof. vm_compute. repeat split; reflexivity. Qed.
  (* without the hypothesis the invariant breaks: an "argument" with neither REQUIRED nor OPTIONAL (no such object can be
     constructed) followed by a required one is accepted by the builder and violates the order rule *)
  Example unvalidated_argument_breaks_order :
    let a0 := {| a_name := [97]%N; a_flags := 0; a_default := VNone |} in
    let a1 := {| a_name := [98]%N; a_flags := 1; a_default := VNone |} in
    arg_valid a0 = false /\
    snd (bstep (fst (bstep (empty_builder None) (AddArgument a0))) (AddArgument a1)) = None /\
    order_ok (args_of (brun (empty_builder None) [AddArgument a0; AddArgument a1])) = false.
  Proof. vm_compute. repeat split; reflexivity. Qed.
End FormatWfExamples.
