(* An undecorated rendering only deletes: colorize without colours (the plain formatter; remove_format of any
   formatter) removes recognised tags and the backslash of each backslash-lessthan pair, and nothing else.  Hence the
   output keeps every line break of the message and is, line by line, no longer than the message; it acts line by
   line; and appending text to a message makes the output longer by at most the text appended. *)
From Coq Require Import Lia.
From Clikit Require Import Base.Prelude Base.Res Model.Conv Model.Markup Proofs.MarkupLemmas Proofs.LiteralLemmas.

(* ================= A. deleting characters other than the line break ================= *)
Inductive deletes : str -> str -> Prop :=
| del_nil : deletes [] []
| del_keep c x y : deletes x y -> deletes (c :: x) (c :: y)
| del_drop c x y : c <> NL -> deletes x y -> deletes (c :: x) y.

Lemma deletes_refl x : deletes x x.
Proof. induction x; constructor; auto. Qed.
Lemma deletes_trans x y z : deletes x y -> deletes y z -> deletes x z.
Proof.
  intros H. revert z. induction H as [|c x y H IH|c x y Hc H IH]; intros z Hz; [exact Hz| |apply del_drop; auto].
  inversion Hz; subst; [apply del_keep|apply del_drop]; auto.
Qed.
Lemma deletes_app a a' b b' : deletes a a' -> deletes b b' -> deletes (a ++ b) (a' ++ b').
Proof. induction 1; intros Hb; cbn [app]; [exact Hb|apply del_keep|apply del_drop]; auto. Qed.
Lemma deletes_all t : Forall (fun c => c <> NL) t -> deletes t [].
Proof. induction 1; constructor; auto. Qed.
Lemma deletes_tail a t : Forall (fun c => c <> NL) t -> deletes (a ++ t) a.
Proof. intros Ht. rewrite <- (app_nil_r a) at 2. apply deletes_app; [apply deletes_refl|apply deletes_all, Ht]. Qed.
Lemma deletes_length x y : deletes x y -> length y <= length x.
Proof. induction 1; cbn [length]; lia. Qed.
Lemma deletes_P (P : N -> Prop) x y : deletes x y -> Forall P x -> Forall P y.
Proof.
  induction 1 as [|c x y H IH|c x y Hc H IH]; intros Hx; [constructor| |]; inversion Hx; subst; [constructor|]; auto.
Qed.
(* ... is a subsequence that keeps every line break *)
Lemma deletes_keeps_nl x y : deletes x y -> filter (N.eqb NL) y = filter (N.eqb NL) x.
Proof.
  induction 1 as [|c x y H IH|c x y Hc H IH]; cbn [filter]; [reflexivity|now rewrite IH|].
  destruct (N.eqb_spec NL c) as [E|_]; [symmetry in E; contradiction|exact IH].
Qed.

Lemma split_on_nonempty sep s : split_on sep s <> [].
Proof. destruct s as [|c r]; cbn [split_on]; [discriminate|]. destruct (N.eqb c sep); [discriminate|]. destruct (split_on sep r); discriminate. Qed.
Lemma split_on_cons sep c r : N.eqb c sep = false ->
  exists l ls, split_on sep r = l :: ls /\ split_on sep (c :: r) = (c :: l) :: ls.
Proof.
  intros E. cbn [split_on]. rewrite E. destruct (split_on sep r) as [|l ls] eqn:Er; [destruct (split_on_nonempty _ _ Er)|].
  exists l, ls. split; reflexivity.
Qed.

(* the lines: as many, and each at most as long *)
Lemma deletes_lines x y : deletes x y ->
  Forall2 (fun a b : str => length a <= length b) (split_on NL y) (split_on NL x).
Proof.
  induction 1 as [|c x y H IH|c x y Hc H IH].
  - cbn. constructor; [cbn; lia|constructor].
  - destruct (N.eqb c NL) eqn:E.
    + cbn [split_on]. rewrite E. constructor; [cbn; lia|exact IH].
    + destruct (split_on_cons NL c x E) as (l & ls & E1 & ->). destruct (split_on_cons NL c y E) as (l' & ls' & E2 & ->).
      rewrite E1, E2 in IH. inversion IH; subst. constructor; [cbn [length]; lia|assumption].
  - assert (E : N.eqb c NL = false) by (apply N.eqb_neq, Hc).
    destruct (split_on_cons NL c x E) as (l & ls & E1 & ->). rewrite E1 in IH.
    inversion IH; subst. constructor; [cbn [length]; lia|assumption].
Qed.
Lemma Forall2_length {X Y} (R : X -> Y -> Prop) l l' : Forall2 R l l' -> length l = length l'.
Proof. induction 1; cbn [length]; congruence. Qed.

(* unescape deletes the backslash of each backslash-lessthan pair *)
Lemma deletes_unescape : forall s, deletes s (unescape s).
Proof.
  induction s as [|c|c d r IHr IHd] using list_ind2; [constructor|apply deletes_refl|].
  rewrite unescape_cons2. destruct (N.eqb_spec c BSL) as [->|Hc]; cbn [andb].
  - destruct (N.eqb_spec d LT) as [->|Hd]; [apply del_drop; [discriminate|apply del_keep, IHr]|apply del_keep, IHd].
  - apply del_keep, IHd.
Qed.

(* ================= B. the shapes of one scanner step ================= *)
Definition tagish (c : N) : Prop := c = LT \/ c = SLASH \/ c = GT \/ tag_char c = true.
Lemma tagish_not_nl c : tagish c -> c <> NL.
Proof. intros [->|[->|[->|H]]]; try discriminate. intros ->. vm_compute in H. discriminate. Qed.
Lemma tag_start_tagish c : tag_start c = true -> tagish c.
Proof. intros H. right. right. right. unfold tag_char. now rewrite H. Qed.

Definition mk (d : list (str * tag)) (c : str) (k : cand) : lexst := {| l_done := d; l_cur := c; l_cand := k |}.
Lemma lex_step_shape st c :
  (c = LT /\ lex_step st c = mk (l_done st) (l_cur st ++ raw_of (l_cand st)) COpen)
  \/ (c <> LT /\ lex_step st c = mk (l_done st) (l_cur st ++ raw_of (l_cand st) ++ [c]) CText)
  \/ (exists k, c <> LT /\ tagish c /\ raw_of k = raw_of (l_cand st) ++ [c] /\ lex_step st c = mk (l_done st) (l_cur st) k)
  \/ (exists cl nm, c = GT /\ lex_step st c = mk (l_done st ++ [(l_cur st, Tag (raw_of (l_cand st) ++ [GT]) cl nm)]) [] CText).
Proof.
  unfold lex_step, mk. destruct (N.eqb_spec c LT) as [->|Hlt].
  { left. split; [reflexivity|]. now rewrite app_nil_r. }
  right. destruct (l_cand st) as [| | |cl nm] eqn:Ek; cbn [raw_of].
  - left. split; [exact Hlt|reflexivity].
  - destruct (N.eqb_spec c SLASH) as [->|Hs].
    + right. left. exists CSlash. repeat split; auto. right. left. reflexivity.
    + destruct (tag_start c) eqn:Ets.
      * right. left. exists (CName false [c]). repeat split; auto. apply tag_start_tagish, Ets.
      * left. split; [exact Hlt|reflexivity].
  - destruct (N.eqb_spec c GT) as [->|Hg].
    + right. right. exists true, []. split; reflexivity.
    + destruct (tag_start c) eqn:Ets.
      * right. left. exists (CName true [c]). repeat split; auto. apply tag_start_tagish, Ets.
      * left. split; [exact Hlt|reflexivity].
  - destruct (N.eqb_spec c GT) as [->|Hg].
    + right. right. exists cl, nm. split; reflexivity.
    + destruct (tag_char c) eqn:Etc.
      * right. left. exists (CName cl (nm ++ [c])). repeat split; auto.
        -- right. right. right. exact Etc.
        -- cbn [raw_of app]. f_equal. now rewrite app_assoc.
      * left. split; [exact Hlt|reflexivity].
Qed.

(* a character no tag holds and that is not the backslash: it ends every candidate *)
Definition inert (c : N) : Prop := c <> LT /\ c <> GT /\ c <> SLASH /\ c <> BSL /\ tag_char c = false.
Lemma inert_step st c : inert c -> lex_step st c = mk (l_done st) (l_cur st ++ raw_of (l_cand st) ++ [c]) CText.
Proof.
  intros (H1 & H2 & H3 & H4 & H5). destruct (lex_step_shape st c) as [[E _]|[[_ E]|[(k & _ & Ht & _)|(cl & nm & E & _)]]];
    [contradiction|exact E| |contradiction].
  destruct Ht as [E|[E|[E|E]]]; try contradiction. rewrite E in H5. discriminate.
Qed.
Lemma inert_nl : inert NL. Proof. repeat split; discriminate. Qed.
Lemma inert_space c : is_space c = true -> inert c.
Proof.
  unfold is_space. intros H. apply existsb_exists in H. destruct H as (x & Hin & E). apply N.eqb_eq in E. subst x.
  cbn [In] in Hin. repeat (destruct Hin as [<-|Hin]; [repeat split; discriminate|]). contradiction.
Qed.

(* every tag the scanner finds consists of tag characters: no line break in it *)
Definition lex_tagish (st : lexst) : Prop :=
  Forall (fun sg => Forall tagish (raw_text (snd sg))) (l_done st) /\ Forall tagish (raw_of (l_cand st)).
Lemma lex_step_tagish st c : lex_tagish st -> lex_tagish (lex_step st c).
Proof.
  intros [Hd Hk]. destruct (lex_step_shape st c) as [[_ ->]|[[_ ->]|[(k & _ & Ht & Ek & ->)|(cl & nm & -> & ->)]]];
    unfold lex_tagish, mk; cbn [l_done l_cand raw_of]; split; auto.
  - constructor; [left; reflexivity|constructor].
  - rewrite Ek. apply Forall_app. split; [exact Hk|constructor; [exact Ht|constructor]].
  - apply Forall_app. split; [exact Hd|]. constructor; [|constructor]. cbn [snd raw_text].
    apply Forall_app. split; [exact Hk|constructor; [right; right; left; reflexivity|constructor]].
Qed.
Lemma lex_fold_tagish m : forall st, lex_tagish st -> lex_tagish (fold_left lex_step m st).
Proof. induction m as [|c r IH]; intros st H; cbn [fold_left]; [exact H|]. apply IH, lex_step_tagish, H. Qed.
Lemma lex_init_tagish : lex_tagish lex_init.
Proof. split; constructor. Qed.

(* ================= C. the undecorated output as a function of the scanner state ================= *)
Definition esc_of (a0 first : bool) (pre : str) : bool := match pre with [] => first && a0 | _ => ends_with_bsl pre end.
Definition kept (sty : styles) (escaped : bool) (t : tag) : str :=
  if escaped || negb (recognised sty t) then raw_text t else [].
Fixpoint plain_segs (sty : styles) (a0 first : bool) (segs : list (str * tag)) : str :=
  match segs with
  | [] => []
  | (pre, t) :: r => pre ++ kept sty (esc_of a0 first pre) t ++ plain_segs sty a0 false r
  end.

Lemma do_tag_plain sty esc t sk sk' e : do_tag sty false esc t sk = Ok (sk', e) -> e = kept sty esc t.
Proof.
  destruct t as [raw cl nm]. unfold do_tag, kept, recognised, raw_text. destruct esc; cbn [orb].
  { intros H. injection H as _ <-. apply apply_cur_false. }
  destruct (cl && match nm with [] => true | _ => false end); cbn [orb negb].
  { intros H. injection H as _ <-. reflexivity. }
  destruct (resolve sty (py_lower nm)) as [[st|]|k]; cbn [bind negb]; [| |discriminate].
  - destruct cl.
    + destruct (pop_style st sk); cbn [bind]; [|discriminate]. intros H. injection H as _ <-. reflexivity.
    + intros H. injection H as _ <-. reflexivity.
  - intros H. injection H as _ <-. apply apply_cur_false.
Qed.
Lemma run_segs_plain_gen sty a0 : forall segs sk out first le s r l,
  run_segs sty false a0 first segs sk out le = Ok (s, r, l) -> r = out ++ plain_segs sty a0 first segs.
Proof.
  induction segs as [|[pre t] rest IH]; intros sk out first le s r l H; cbn [run_segs plain_segs] in *.
  - injection H as _ <- _. now rewrite app_nil_r.
  - fold (esc_of a0 first pre) in H.
    destruct (do_tag sty false (esc_of a0 first pre) t sk) as [[sk1 e]|k] eqn:Ed; [|discriminate]. cbn [bind fst snd] in H.
    apply do_tag_plain in Ed. subst e. apply IH in H. rewrite H, apply_cur_false, <- !app_assoc. reflexivity.
Qed.

Definition wout (sty : styles) (a0 : bool) (st : lexst) : str :=
  plain_segs sty a0 true (l_done st) ++ l_cur st ++ raw_of (l_cand st).
(* the undecorated rendering of m; a0: what a tag at position 0 takes for "escaped" *)
Definition plain_of (sty : styles) (a0 : bool) (m : str) : str := unescape (wout sty a0 (fold_left lex_step m lex_init)).

Theorem colorize_plain_of sty sk m sk' out :
  colorize sty false sk m = Ok (sk', out) -> out = plain_of sty (ends_with_bsl m) m.
Proof.
  unfold colorize, plain_of, wout. pose proof (lex_lossless m) as HL. unfold lex, lex_end in *.
  set (st := fold_left lex_step m lex_init) in *. cbn [fst snd] in HL.
  destruct (l_done st) as [|sg segs] eqn:Ed.
  - intros H. injection H as _ <-. cbn [flat_map plain_segs app] in *. now rewrite HL.
  - rewrite <- Ed in *. clear Ed.
    destruct (run_segs sty false (ends_with_bsl m) true (l_done st) sk [] false) as [[[sk1 o] le]|k] eqn:ER; [|discriminate].
    cbn [bind]. intros H. injection H as _ <-. apply run_segs_plain_gen in ER. cbn [app] in ER. subst o.
    f_equal. f_equal. destruct le; rewrite !apply_cur_false; [reflexivity|apply removelast_lastchar].
Qed.

Lemma plain_segs_app sty a0 : forall a b first,
  plain_segs sty a0 first (a ++ b) = plain_segs sty a0 first a ++ plain_segs sty a0 (match a with [] => first | _ => false end) b.
Proof.
  induction a as [|[pre t] a IH]; intros b first; cbn [app plain_segs]; [reflexivity|].
  rewrite IH, <- !app_assoc. destruct a; reflexivity.
Qed.

(* one step: the output so far grows by the character read, or - a tag is complete and recognised - loses the
   candidate, which consists of tag characters *)
Lemma wout_step sty a0 st c :
  wout sty a0 (lex_step st c) = wout sty a0 st ++ [c]
  \/ (c = GT /\ wout sty a0 st = wout sty a0 (lex_step st c) ++ raw_of (l_cand st)).
Proof.
  destruct (lex_step_shape st c) as [[-> ->]|[[_ ->]|[(k & _ & _ & Ek & ->)|(cl & nm & -> & ->)]]];
    unfold wout, mk; cbn [l_done l_cur l_cand raw_of].
  - left. now rewrite <- !app_assoc.
  - left. now rewrite app_nil_r, <- !app_assoc.
  - left. now rewrite Ek, <- !app_assoc.
  - rewrite plain_segs_app. cbn [plain_segs]. unfold kept. cbn [raw_text].
    destruct (_ || _).
    + left. now rewrite !app_nil_r, <- !app_assoc.
    + right. split; [reflexivity|]. now rewrite !app_nil_r, <- !app_assoc.
Qed.

(* ================= D. only deletions ================= *)
Lemma wout_fold_deletes sty a0 m : forall st x, lex_tagish st -> deletes x (wout sty a0 st) ->
  deletes (x ++ m) (wout sty a0 (fold_left lex_step m st)).
Proof.
  induction m as [|c r IH]; intros st x Hst Hx; cbn [fold_left]; [now rewrite app_nil_r|].
  replace (x ++ c :: r) with ((x ++ [c]) ++ r) by now rewrite <- app_assoc.
  apply IH; [apply lex_step_tagish, Hst|].
  destruct (wout_step sty a0 st c) as [->|[-> E]].
  - apply deletes_app; [exact Hx|apply deletes_refl].
  - rewrite E in Hx. eapply deletes_trans; [apply deletes_tail; constructor; [discriminate|constructor]|].
    eapply deletes_trans; [exact Hx|]. apply deletes_tail.
    eapply Forall_impl; [|apply Hst]. intros ? ?. now apply tagish_not_nl.
Qed.
Theorem plain_of_deletes sty a0 m : deletes m (plain_of sty a0 m).
Proof.
  unfold plain_of. eapply deletes_trans; [|apply deletes_unescape].
  apply (wout_fold_deletes sty a0 m lex_init [] lex_init_tagish). constructor.
Qed.

(* For EVERY style table, stack and message: an undecorated colorize that succeeds deletes characters other than
   the line break, and nothing else. *)
Theorem colorize_deletes sty sk m sk' out : colorize sty false sk m = Ok (sk', out) -> deletes m out.
Proof. intros H. apply colorize_plain_of in H. subst out. apply plain_of_deletes. Qed.
(* as many lines, and each output line at most as long as the line of the message *)
Theorem colorize_lines_shrink sty sk m sk' out : colorize sty false sk m = Ok (sk', out) ->
  length (split_on NL out) = length (split_on NL m)
  /\ Forall2 (fun a b : str => length a <= length b) (split_on NL out) (split_on NL m).
Proof. intros H. apply colorize_deletes, deletes_lines in H. split; [eapply Forall2_length, H|exact H]. Qed.

(* the plain formatter, through format and through remove_format; remove_format of the ANSI formatter *)
Definition undecorated (f : formatter) : Prop := f_kind f <> FNull.
Lemma remove_format_colorize f m f' out : f_kind f <> FNull -> remove_format f m = Ok (f', out) ->
  colorize (f_styles f) false (f_stack f) m = Ok (f_stack f', out) /\ f_kind f' = f_kind f /\ f_styles f' = f_styles f.
Proof.
  intros Hk H. unfold remove_format in H. destruct (f_kind f) eqn:Ek; [| |contradiction];
    (destruct (colorize (f_styles f) false (f_stack f) m) as [[sk o]|k]; [|discriminate]; cbn [bind fst snd] in H;
     injection H as <- <-; cbn [f_stack f_kind f_styles]; auto).
Qed.
Lemma format_plain_colorize f m style f' out : f_kind f = FPlain -> format f m style = Ok (f', out) ->
  colorize (f_styles f) false (f_stack f) m = Ok (f_stack f', out) /\ f_kind f' = FPlain /\ f_styles f' = f_styles f.
Proof.
  intros Hk H. unfold format in H. rewrite Hk in H.
  destruct (colorize (f_styles f) false (f_stack f) m) as [[sk o]|k]; [|discriminate]. cbn [bind fst snd] in H.
  injection H as <- <-. cbn [f_stack f_kind f_styles]. auto.
Qed.
Theorem remove_format_deletes f m f' out : remove_format f m = Ok (f', out) -> deletes m out.
Proof.
  intros H. destruct (f_kind f) eqn:Ek.
  - apply remove_format_colorize in H; [|congruence]. eapply colorize_deletes, H.
  - apply remove_format_colorize in H; [|congruence]. eapply colorize_deletes, H.
  - unfold remove_format in H. rewrite Ek in H. injection H as _ <-. apply deletes_refl.
Qed.
Theorem remove_format_lines_shrink f m f' out : remove_format f m = Ok (f', out) ->
  length (split_on NL out) = length (split_on NL m)
  /\ Forall2 (fun a b : str => length a <= length b) (split_on NL out) (split_on NL m).
Proof. intros H. apply remove_format_deletes, deletes_lines in H. split; [eapply Forall2_length, H|exact H]. Qed.
Theorem format_plain_deletes f m style f' out : f_kind f = FPlain -> format f m style = Ok (f', out) -> deletes m out.
Proof. intros Hk H. apply (format_plain_colorize _ _ _ _ _ Hk) in H. eapply colorize_deletes, H. Qed.
Theorem format_plain_lines_shrink f m style f' out : f_kind f = FPlain -> format f m style = Ok (f', out) ->
  length (split_on NL out) = length (split_on NL m)
  /\ Forall2 (fun a b : str => length a <= length b) (split_on NL out) (split_on NL m).
Proof. intros Hk H. apply (format_plain_deletes _ _ _ _ _ Hk), deletes_lines in H. split; [eapply Forall2_length, H|exact H]. Qed.

(* ================= E. the rendering acts piecewise across an inert character (a line break, a blank) ================= *)
(* the scanner started behind finished tags d and pending text c *)
Definition glue (d : list (str * tag)) (c : str) (st : lexst) : lexst :=
  match l_done st with
  | [] => mk d (c ++ l_cur st) (l_cand st)
  | (p, t) :: r => mk (d ++ (c ++ p, t) :: r) (l_cur st) (l_cand st)
  end.
Lemma glue_cand d c st : l_cand (glue d c st) = l_cand st.
Proof. unfold glue. destruct (l_done st) as [|[p t] r]; reflexivity. Qed.
Lemma glue_fail d c st X k :
  mk (l_done (glue d c st)) (l_cur (glue d c st) ++ X) k = glue d c (mk (l_done st) (l_cur st ++ X) k).
Proof. unfold glue, mk. cbn [l_done l_cur l_cand]. destruct (l_done st) as [|[p t] r]; cbn [l_done l_cur l_cand]; now rewrite <- ?app_assoc. Qed.
Lemma glue_go d c st k : mk (l_done (glue d c st)) (l_cur (glue d c st)) k = glue d c (mk (l_done st) (l_cur st) k).
Proof. unfold glue, mk. cbn [l_done l_cur l_cand]. destruct (l_done st) as [|[p t] r]; reflexivity. Qed.
Lemma glue_emit d c st T :
  mk (l_done (glue d c st) ++ [(l_cur (glue d c st), T)]) [] CText = glue d c (mk (l_done st ++ [(l_cur st, T)]) [] CText).
Proof.
  unfold glue, mk. cbn [l_done l_cur l_cand]. destruct (l_done st) as [|[p t] r]; cbn [l_done l_cur l_cand app]; [reflexivity|].
  now rewrite <- app_assoc.
Qed.
Lemma glue_step d c st x : lex_step (glue d c st) x = glue d c (lex_step st x).
Proof.
  unfold lex_step. rewrite glue_cand. destruct (N.eqb x LT); [apply glue_fail|].
  destruct (l_cand st) as [| | |cl nm].
  - apply glue_fail.
  - destruct (N.eqb x SLASH); [apply glue_go|]. destruct (tag_start x); [apply glue_go|apply glue_fail].
  - destruct (N.eqb x GT); [apply glue_emit|]. destruct (tag_start x); [apply glue_go|apply glue_fail].
  - destruct (N.eqb x GT); [apply glue_emit|]. destruct (tag_char x); [apply glue_go|apply glue_fail].
Qed.
Lemma glue_fold d c m : forall st, fold_left lex_step m (glue d c st) = glue d c (fold_left lex_step m st).
Proof. induction m as [|x r IH]; intros st; cbn [fold_left]; [reflexivity|]. now rewrite glue_step, IH. Qed.
Lemma glue_init d c : glue d c lex_init = mk d c CText.
Proof. unfold glue, lex_init, mk. cbn [l_done l_cur l_cand]. now rewrite app_nil_r. Qed.

Lemma plain_segs_later sty a0 a0' : forall r, plain_segs sty a0 false r = plain_segs sty a0' false r.
Proof. induction r as [|[pre t] r IH]; cbn [plain_segs]; [reflexivity|]. rewrite IH. destruct pre; reflexivity. Qed.
(* pending text that does not end with a backslash: the tags found behind it are judged as at the start of a message
   whose position-0 rule is off *)
Lemma wout_glue sty a0 d c st : c <> [] -> ends_with_bsl c = false ->
  wout sty a0 (glue d c st) = plain_segs sty a0 true d ++ c ++ wout sty false st.
Proof.
  intros Hc Ec. unfold wout, glue, mk. destruct (l_done st) as [|[p t] r]; cbn [l_done l_cur l_cand plain_segs app].
  - now rewrite <- !app_assoc.
  - rewrite plain_segs_app. cbn [plain_segs].
    assert (E : forall first, esc_of a0 first (c ++ p) = esc_of false true p).
    { intros first. unfold esc_of. destruct (c ++ p) as [|x y] eqn:Ecp; [destruct c; [contradiction|discriminate]|].
      rewrite <- Ecp, ends_app. destruct p; [exact Ec|reflexivity]. }
    rewrite E, (plain_segs_later sty a0 false r). now rewrite <- !app_assoc.
Qed.

Lemma ends_snoc x c : ends_with_bsl (x ++ [c]) = N.eqb c BSL.
Proof. now rewrite ends_app. Qed.

(* the output across an inert character *)
Lemma wout_sep sty a0 a sep b : inert sep ->
  wout sty a0 (fold_left lex_step (a ++ sep :: b) lex_init)
  = wout sty a0 (fold_left lex_step a lex_init) ++ sep :: wout sty false (fold_left lex_step b lex_init).
Proof.
  intros Hs. rewrite fold_left_app. cbn [fold_left]. set (sa := fold_left lex_step a lex_init).
  rewrite (inert_step sa sep Hs), <- glue_init, glue_fold, wout_glue.
  - unfold wout at 2. now rewrite <- !app_assoc.
  - destruct (l_cur sa); [destruct (raw_of (l_cand sa))|]; discriminate.
  - rewrite app_assoc, ends_snoc. destruct Hs as (_ & _ & _ & Hb & _). now apply N.eqb_neq.
Qed.
Lemma unescape_sep x sep y : sep <> LT -> sep <> BSL -> unescape (x ++ sep :: y) = unescape x ++ sep :: unescape y.
Proof. intros H1 H2. rewrite unescape_app_r by exact H1. now rewrite unescape_head. Qed.

(* ---- lists of lines ---- *)
Definition no_nl' (s : str) : Prop := Forall (fun c => c <> NL) s.
Lemma join_split : forall m, join_with NL (split_on NL m) = m.
Proof.
  induction m as [|c r IH]; [reflexivity|]. cbn [split_on]. destruct (N.eqb_spec c NL) as [->|Hc].
  - destruct (split_on NL r) as [|l ls] eqn:E; [destruct (split_on_nonempty _ _ E)|].
    change (join_with NL ([] :: l :: ls)) with ([] ++ NL :: join_with NL (l :: ls)). now rewrite IH.
  - destruct (split_on NL r) as [|l ls] eqn:E; [destruct (split_on_nonempty _ _ E)|].
    destruct ls; cbn [join_with app] in *; now rewrite IH.
Qed.
Lemma split_lines_no_nl : forall m, Forall no_nl' (split_on NL m).
Proof.
  induction m as [|c r IH]; [repeat constructor|]. cbn [split_on]. destruct (N.eqb_spec c NL) as [->|Hc].
  - constructor; [constructor|exact IH].
  - destruct (split_on NL r) as [|l ls]; [repeat constructor; exact Hc|]. inversion IH; subst. constructor; [constructor; assumption|assumption].
Qed.
Lemma split_no_nl s : no_nl' s -> split_on NL s = [s].
Proof.
  induction 1 as [|c r Hc Hr IH]; [reflexivity|]. cbn [split_on]. apply N.eqb_neq in Hc. now rewrite Hc, IH.
Qed.
Lemma split_app_nl a b : no_nl' a -> split_on NL (a ++ NL :: b) = a :: split_on NL b.
Proof.
  induction 1 as [|c r Hc Hr IH]; cbn [app split_on]; [reflexivity|]. apply N.eqb_neq in Hc. now rewrite Hc, IH.
Qed.
Lemma split_join ls : ls <> [] -> Forall no_nl' ls -> split_on NL (join_with NL ls) = ls.
Proof.
  intros Hne H. induction H as [|l ls Hl Hls IH]; [contradiction|]. destruct ls as [|l2 ls]; [apply split_no_nl, Hl|].
  change (join_with NL (l :: l2 :: ls)) with (l ++ NL :: join_with NL (l2 :: ls)).
  rewrite split_app_nl by exact Hl. now rewrite IH.
Qed.

(* ---- unescape and lengths ---- *)
Lemma unescape_snoc_le : forall x c, length (unescape (x ++ [c])) <= S (length (unescape x)).
Proof.
  induction x as [|a|a d r IHr IHd] using list_ind2; intros c.
  - cbn. lia.
  - cbn [app]. rewrite unescape_cons2. destruct (_ && _); cbn; lia.
  - cbn [app]. rewrite !unescape_cons2. destruct (_ && _); cbn [length].
    + specialize (IHr c). lia.
    + specialize (IHd c). cbn [app] in IHd. lia.
Qed.
Lemma unescape_app_ge : forall x y, length (unescape x) <= length (unescape (x ++ y)).
Proof.
  induction x as [|a|a d r IHr IHd] using list_ind2; intros y.
  - cbn. lia.
  - cbn [app]. destruct y as [|e y]; [lia|]. rewrite unescape_cons2. destruct (_ && _); cbn; lia.
  - cbn [app]. rewrite !unescape_cons2. destruct (_ && _); cbn [length].
    + specialize (IHr y). lia.
    + specialize (IHd y). cbn [app] in IHd. lia.
Qed.
Lemma unescape_cons_ge c z : length (unescape z) <= length (unescape (c :: z)).
Proof.
  destruct z as [|d r]; [cbn; lia|]. rewrite unescape_cons2. destruct (N.eqb_spec c BSL) as [->|]; cbn [andb length]; [|lia].
  destruct (N.eqb_spec d LT) as [->|]; [|cbn [length]; lia]. rewrite (unescape_head LT r LT_not_BSL). cbn [length]. lia.
Qed.
Lemma unescape_suffix_le y z : length (unescape z) <= length (unescape (y ++ z)).
Proof. induction y as [|c y IH]; [cbn [app]; lia|]. cbn [app]. pose proof (unescape_cons_ge c (y ++ z)). lia. Qed.

(* ---- a post-processor of the output: unescape (the rendering itself) or nothing (the rendering before unescape, which
   is what the ANSI formatter's visible text is compared with) ---- *)
Record post := {
  pu : str -> str;
  pu_nil : pu [] = [];
  pu_sep : forall x sep y, inert sep -> pu (x ++ sep :: y) = pu x ++ sep :: pu y;
  pu_snoc_le : forall x c, length (pu (x ++ [c])) <= S (length (pu x));
  pu_app_ge : forall x y, length (pu x) <= length (pu (x ++ y));
  pu_suffix_le : forall y z, length (pu z) <= length (pu (y ++ z));
  pu_deletes : forall x, deletes x (pu x) }.
Definition post_unescape : post.
Proof.
  refine {| pu := unescape |}; [reflexivity| |apply unescape_snoc_le|apply unescape_app_ge|apply unescape_suffix_le|apply deletes_unescape].
  intros x sep y (H1 & _ & _ & H4 & _). now apply unescape_sep.
Defined.
Definition post_id : post.
Proof.
  refine {| pu := fun x => x |}; [reflexivity|reflexivity| | | |apply deletes_refl].
  - intros x c. rewrite app_length. cbn. lia.
  - intros x y. rewrite app_length. lia.
  - intros y z. rewrite app_length. lia.
Defined.

Definition wout_of (sty : styles) (a0 : bool) (m : str) : str := wout sty a0 (fold_left lex_step m lex_init).
Definition render (p : post) (sty : styles) (a0 : bool) (m : str) : str := pu p (wout_of sty a0 m).
Lemma plain_of_render sty a0 m : plain_of sty a0 m = render post_unescape sty a0 m.
Proof. reflexivity. Qed.

Section Render.
Variable p : post.
Variable sty : styles.
Theorem render_sep a0 a sep b : inert sep -> render p sty a0 (a ++ sep :: b) = render p sty a0 a ++ sep :: render p sty false b.
Proof. intros Hs. unfold render, wout_of. rewrite (wout_sep _ _ _ _ _ Hs). now apply pu_sep. Qed.
Lemma render_nil a0 : render p sty a0 [] = [].
Proof. apply pu_nil. Qed.
Lemma render_snoc a0 a sep : inert sep -> render p sty a0 (a ++ [sep]) = render p sty a0 a ++ [sep].
Proof. intros Hs. now rewrite render_sep, render_nil. Qed.
Lemma render_cons b sep : inert sep -> render p sty false (sep :: b) = sep :: render p sty false b.
Proof. intros Hs. pose proof (render_sep false [] sep b Hs) as H. cbn [app] in H. now rewrite H, render_nil. Qed.
Lemma render_inert_suffix a0 a : forall t, Forall inert t -> render p sty a0 (a ++ t) = render p sty a0 a ++ t.
Proof.
  intros t. revert a. induction t as [|c t IH]; intros a Ht; [now rewrite !app_nil_r|]. inversion Ht; subst.
  replace (a ++ c :: t) with ((a ++ [c]) ++ t) by now rewrite <- app_assoc.
  rewrite IH, render_snoc, <- app_assoc by assumption. reflexivity.
Qed.
Lemma render_inert_prefix : forall t b, Forall inert t -> render p sty false (t ++ b) = t ++ render p sty false b.
Proof. induction t as [|c t IH]; intros b Ht; [reflexivity|]. inversion Ht; subst. cbn [app]. now rewrite render_cons, IH. Qed.

Theorem render_deletes a0 m : deletes m (render p sty a0 m).
Proof.
  unfold render, wout_of. eapply deletes_trans; [|apply pu_deletes].
  apply (wout_fold_deletes sty a0 m lex_init [] lex_init_tagish). constructor.
Qed.
Lemma render_no_nl a0 s : no_nl' s -> no_nl' (render p sty a0 s).
Proof. intros H. eapply deletes_P; [apply render_deletes|exact H]. Qed.
Theorem render_le a0 x : length (render p sty a0 x) <= length x.
Proof. apply deletes_length, render_deletes. Qed.

(* a message whose position-0 rule is off (it does not end with a backslash) is rendered line by line *)
Lemma render_join : forall ls, render p sty false (join_with NL ls) = join_with NL (map (render p sty false) ls).
Proof.
  induction ls as [|l ls IH]; [apply render_nil|]. destruct ls as [|l2 ls]; [reflexivity|].
  change (join_with NL (l :: l2 :: ls)) with (l ++ NL :: join_with NL (l2 :: ls)).
  rewrite (render_sep _ _ _ _ inert_nl), IH. reflexivity.
Qed.
Theorem render_lines m : split_on NL (render p sty false m) = map (render p sty false) (split_on NL m).
Proof.
  rewrite <- (join_split m) at 1. rewrite render_join. apply split_join.
  - destruct (split_on NL m) eqn:E; [destruct (split_on_nonempty _ _ E)|discriminate].
  - apply Forall_forall. intros x Hx. apply in_map_iff in Hx. destruct Hx as (l & <- & Hl).
    apply render_no_nl. pose proof (split_lines_no_nl m) as H. rewrite Forall_forall in H. auto.
Qed.

(* reading one more character makes the output at most one longer *)
Lemma render_step_le a0 st c : length (pu p (wout sty a0 (lex_step st c))) <= S (length (pu p (wout sty a0 st))).
Proof.
  destruct (wout_step sty a0 st c) as [->|[_ E]]; [apply pu_snoc_le|]. rewrite E.
  pose proof (pu_app_ge p (wout sty a0 (lex_step st c)) (raw_of (l_cand st))). lia.
Qed.
Lemma render_fold_le a0 y : forall st,
  length (pu p (wout sty a0 (fold_left lex_step y st))) <= length (pu p (wout sty a0 st)) + length y.
Proof.
  induction y as [|c y IH]; intros st; cbn [fold_left length]; [lia|].
  specialize (IH (lex_step st c)). pose proof (render_step_le a0 st c). lia.
Qed.
Theorem render_app_le a0 x y : length (render p sty a0 (x ++ y)) <= length (render p sty a0 x) + length y.
Proof. unfold render, wout_of. rewrite fold_left_app. apply render_fold_le. Qed.
End Render.

(* the position-0 rule can only keep a tag *)
Lemma wout_a0 sty a0 st : exists y, wout sty a0 st = y ++ wout sty false st.
Proof.
  unfold wout. destruct (l_done st) as [|[pre t] r]; [exists []; reflexivity|]. cbn [plain_segs].
  rewrite (plain_segs_later sty a0 false r). destruct pre as [|c pre]; [|exists []; reflexivity]. cbn [esc_of andb app]. destruct a0; [|exists []; reflexivity].
  unfold kept. cbn [orb]. destruct (negb (recognised sty t)); [exists []; reflexivity|]. exists (raw_text t). now rewrite <- app_assoc.
Qed.
Theorem render_a0_le p sty a0 x : length (render p sty false x) <= length (render p sty a0 x).
Proof. unfold render, wout_of. destruct (wout_a0 sty a0 (fold_left lex_step x lex_init)) as [y ->]. apply pu_suffix_le. Qed.
(* a text put between blanks and more text: the rendering is at most the blanks, the rendering of the text on its own
   (whatever its position-0 rule says) and the rest *)
Theorem render_context_le p sty a0 t label rest : Forall inert t ->
  length (render p sty false (t ++ label ++ rest)) <= length t + length (render p sty a0 label) + length rest.
Proof.
  intros Ht. rewrite render_inert_prefix by exact Ht. rewrite app_length.
  pose proof (render_app_le p sty false label rest). pose proof (render_a0_le p sty a0 label). lia.
Qed.

(* ---- the plain rendering: the instances ---- *)
Theorem plain_of_sep sty a0 a sep b : inert sep ->
  plain_of sty a0 (a ++ sep :: b) = plain_of sty a0 a ++ sep :: plain_of sty false b.
Proof. exact (render_sep post_unescape sty a0 a sep b). Qed.
Lemma plain_of_snoc sty a0 a sep : inert sep -> plain_of sty a0 (a ++ [sep]) = plain_of sty a0 a ++ [sep].
Proof. exact (render_snoc post_unescape sty a0 a sep). Qed.
Theorem plain_of_lines sty m : split_on NL (plain_of sty false m) = map (plain_of sty false) (split_on NL m).
Proof. exact (render_lines post_unescape sty m). Qed.
Theorem plain_of_le sty a0 x : length (plain_of sty a0 x) <= length x.
Proof. exact (render_le post_unescape sty a0 x). Qed.
Theorem plain_of_app_le sty a0 x y : length (plain_of sty a0 (x ++ y)) <= length (plain_of sty a0 x) + length y.
Proof. exact (render_app_le post_unescape sty a0 x y). Qed.
Theorem plain_of_a0_le sty a0 x : length (plain_of sty false x) <= length (plain_of sty a0 x).
Proof. exact (render_a0_le post_unescape sty a0 x). Qed.

(* ================= F. the decorated rendering: its visible text is a deletion of the undecorated output before
   unescape ================= *)
(* pieces: SGR codes and text; decorated, each non-empty text is wrapped in its codes *)
Definition piece : Type := (list N * str)%type.
Definition dec_piece (x : piece) : str := match snd x with [] => [] | _ => sgr_wrap (fst x) (snd x) end.
Definition dec (ps : list piece) : str := flat_map dec_piece ps.
Definition und (ps : list piece) : str := flat_map (@snd (list N) str) ps.
Lemma apply_cur_dec sk x : apply_cur true sk x = dec_piece (codes_of (current sk), x).
Proof. destruct x; reflexivity. Qed.

Lemma ends_bsl_snoc x : ends_with_bsl x = true -> exists x', x = x' ++ [BSL].
Proof.
  unfold ends_with_bsl. destruct (rev x) as [|c r] eqn:E; [discriminate|]. intros H. apply N.eqb_eq in H. subst c.
  exists (rev r). rewrite <- (rev_involutive x), E. reflexivity.
Qed.
Lemma sgr_close_ends x : ends_with_bsl (x ++ sgr_close) = false.
Proof. now rewrite ends_app. Qed.
Lemma unescape_wrapped codes x rest : codes <> [] ->
  unescape (sgr_wrap codes x ++ rest) = sgr_open codes ++ unescape x ++ sgr_close ++ unescape rest.
Proof.
  intros Hc. unfold sgr_wrap. destruct codes as [|c l]; [contradiction|].
  rewrite <- !app_assoc. rewrite (unescape_app_l _ _ (sgr_open_ends (c :: l))), (unescape_id _ (sgr_open_no_bsl (c :: l))).
  f_equal. rewrite unescape_app_r by (cbn; discriminate). f_equal.
  change (sgr_close ++ rest) with (ESC :: 91%N :: 48%N :: 109%N :: rest).
  rewrite !unescape_head by discriminate. reflexivity.
Qed.

Theorem dec_visible : forall ps, Forall (fun x : piece => no_esc (snd x)) ps ->
  exists v, strips (unescape (dec ps)) v /\ deletes (und ps) v.
Proof.
  induction ps as [|[cs x] ps IH]; intros H; [exists []; split; [apply strips_nil|constructor]|].
  inversion H as [|? ? Hx Hps]; subst. cbn [snd] in Hx. destruct (IH Hps) as (v' & Sv & Dv).
  unfold dec, und. cbn [flat_map]. fold (dec ps). fold (und ps). unfold dec_piece. cbn [fst snd].
  destruct x as [|c0 x0] eqn:Ex; [exists v'; auto|]. rewrite <- Ex in *. clear Ex c0 x0.
  assert (Hux : no_esc (unescape x)) by (apply unescape_P, Hx).
  destruct cs as [|c l].
  - (* no codes: the text is written as it is, and may end with the backslash of a pair *)
    cbn [sgr_wrap].
    assert (Hplain : unescape (x ++ dec ps) = unescape x ++ unescape (dec ps) ->
              exists v, strips (unescape (x ++ dec ps)) v /\ deletes (x ++ und ps) v).
    { intros ->. exists (unescape x ++ v'). split; [apply strips_app; [apply strips_text, Hux|exact Sv]|].
      apply deletes_app; [apply deletes_unescape|exact Dv]. }
    destruct (ends_with_bsl x) eqn:Eb; [|apply Hplain, unescape_app_l, Eb].
    destruct (dec ps) as [|d D] eqn:ED; [apply Hplain, unescape_app_r; exact I|].
    destruct (N.eqb_spec d LT) as [->|Hd]; [|apply Hplain, unescape_app_r; exact Hd].
    destruct (ends_bsl_snoc x Eb) as [x' ->].
    assert (Hx' : no_esc x') by (apply Forall_app in Hx; tauto).
    exists (unescape x' ++ v'). split.
    + rewrite <- app_assoc. cbn [app]. rewrite unescape_app_r by (cbn; discriminate).
      rewrite unescape_cons2. change (N.eqb BSL BSL && N.eqb LT LT) with true. cbv iota.
      rewrite (unescape_head LT D LT_not_BSL) in Sv.
      apply strips_app; [apply strips_text, unescape_P, Hx'|exact Sv].
    + apply deletes_app; [|exact Dv]. eapply deletes_trans; [apply deletes_tail; constructor; [discriminate|constructor]|apply deletes_unescape].
  - rewrite unescape_wrapped by discriminate.
    exists ([] ++ unescape x ++ [] ++ v'). split.
    + apply strips_app; [apply strips_open|]. apply strips_app; [apply strips_text, Hux|]. apply strips_app; [apply strips_close|exact Sv].
    + cbn [app]. apply deletes_app; [apply deletes_unescape|exact Dv].
Qed.

Lemma dec_app a b : dec (a ++ b) = dec a ++ dec b. Proof. apply flat_map_app. Qed.
Lemma und_app a b : und (a ++ b) = und a ++ und b. Proof. apply flat_map_app. Qed.

(* the decorated run over the tags: the same stack and flag as the undecorated run, the output made of pieces whose texts are the
   undecorated output *)
Lemma run_segs_pieces sty a0 : forall segs sk out first le s r l,
  run_segs sty true a0 first segs sk out le = Ok (s, r, l) ->
  exists ps, r = out ++ dec ps /\ und ps = plain_segs sty a0 first segs
    /\ (Forall (segP (fun c : N => c <> ESC)) segs -> Forall (fun x : piece => no_esc (snd x)) ps)
    /\ forall out2, run_segs sty false a0 first segs sk out2 le = Ok (s, out2 ++ plain_segs sty a0 first segs, l).
Proof.
  induction segs as [|[pre [raw cl nm]] rest IH]; intros sk out first le s r l H; cbn [run_segs plain_segs] in *.
  - injection H as <- <- <-. exists []. cbn. rewrite !app_nil_r. repeat split; auto. intros out2. now rewrite app_nil_r.
  - fold (esc_of a0 first pre) in *. set (e := esc_of a0 first pre) in *.
    pose proof (do_tag_lockstep sty e raw cl nm sk) as HT.
    destruct (do_tag sty true e (Tag raw cl nm) sk) as [[s1 p1]|k1] eqn:E1; [|discriminate].
    destruct (do_tag sty false e (Tag raw cl nm) sk) as [[s2 p2]|k2] eqn:E2; [|contradiction]. destruct HT as [<- HT].
    cbn [bind fst snd] in *. pose proof (do_tag_plain _ _ _ _ _ _ E2) as Ek.
    apply IH in H. destruct H as (ps & -> & Hu & Hn & Hf).
    assert (Ep : p1 = dec_piece (codes_of (current sk), p2)).
    { destruct HT; [reflexivity|]. rewrite apply_cur_false. apply apply_cur_dec. }
    exists ((codes_of (current sk), pre) :: (codes_of (current sk), p2) :: ps). split; [|split; [|split]].
    + unfold dec. cbn [flat_map]. fold (dec ps). rewrite <- apply_cur_dec, <- Ep, <- !app_assoc. reflexivity.
    + unfold und. cbn [flat_map snd]. fold (und ps). rewrite Hu, Ek. reflexivity.
    + intros Hs. inversion Hs as [|? ? [Hpre Hraw] Hr]; subst. cbn [fst snd tagP] in *.
      constructor; [exact Hpre|]. constructor; [|apply Hn, Hr]. cbn [snd].
      destruct HT; [constructor|]. rewrite apply_cur_false. exact Hraw.
    + intros out2. rewrite Hf, apply_cur_false, Ek, <- !app_assoc. reflexivity.
Qed.

(* For EVERY style table, stack and ESC-free message: the decorated colorize succeeds exactly when the undecorated one
   does, with the same stack; its visible text (v: the output with the SGR sequences removed) is obtained from the
   undecorated output before unescape by deleting characters other than the line break. *)
Theorem colorize_visible sty sk m sk' o1 : no_esc m -> colorize sty true sk m = Ok (sk', o1) ->
  colorize sty false sk m = Ok (sk', plain_of sty (ends_with_bsl m) m)
  /\ exists v, strips o1 v /\ deletes (wout_of sty (ends_with_bsl m) m) v.
Proof.
  intros Hm. unfold colorize, plain_of, wout_of, wout. pose proof (lex_lossless m) as HL.
  destruct (lex_P (fun c => c <> ESC) m Hm) as [Hsegs Htail]. unfold lex, lex_end in *.
  set (st := fold_left lex_step m lex_init) in *. cbn [fst snd] in *.
  destruct (l_done st) as [|sg segs] eqn:Ed.
  - intros H. injection H as <- <-. cbn [flat_map plain_segs app] in *. rewrite HL. split; [reflexivity|].
    exists (unescape m). split; [apply strips_text, unescape_P, Hm|apply deletes_unescape].
  - rewrite <- Ed in *. clear Ed.
    destruct (run_segs sty true (ends_with_bsl m) true (l_done st) sk [] false) as [[[sk1 r1] le]|k] eqn:ER; [|discriminate].
    cbn [bind]. intros H. injection H as <- <-.
    destruct (run_segs_pieces _ _ _ _ _ _ _ _ _ _ ER) as (ps & -> & Hu & Hn & Hf). rewrite (Hf []). cbn [bind app].
    set (tail := l_cur st ++ raw_of (l_cand st)) in *.
    set (t1 := removelast tail). set (t2 := match rev tail with c :: _ => [c] | [] => [] end).
    split.
    { f_equal. f_equal. f_equal. f_equal. destruct le; rewrite !apply_cur_false; [reflexivity|apply removelast_lastchar]. }
    set (cs := codes_of (current sk1)).
    set (tps := if le then [(cs, tail)] else [(cs, t1); (cs, t2)] : list piece).
    assert (Eu : und tps = tail).
    { subst tps. destruct le; unfold und; cbn [flat_map snd]; rewrite ?app_nil_r; [reflexivity|apply removelast_lastchar]. }
    match goal with |- context [unescape (dec ps ++ ?X)] => replace X with (dec tps) end.
    2:{ subst tps. destruct le; unfold dec; cbn [flat_map]; rewrite !apply_cur_dec, ?app_nil_r; reflexivity. }
    rewrite <- dec_app. destruct (dec_visible (ps ++ tps)) as (v & Sv & Dv).
    { apply Forall_app. split; [apply Hn, Hsegs|]. subst tps.
      destruct le; repeat constructor; cbn [snd]; [exact Htail|apply removelast_P, Htail|apply lastchar_P, Htail]. }
    exists v. split; [exact Sv|]. rewrite und_app, Hu, Eu in Dv. exact Dv.
Qed.
