(* C05: re-using a parser object gives what a fresh one gives EXACTLY WHEN parse() resets both scratch maps first. *)
From Coq Require Import Ascii String.
From Clikit Require Import Base.Prelude Base.Res Model.Conv Model.Flags Model.Format Model.Parser Proofs.ParserLemmas.

(* ---------- the translated parse is the state-taking body started from empty maps ---------- *)
Lemma parse_on_is_parse_from_empty st0 f len toks : parse_on st0 f len toks = parse_from ps_empty f len toks.
Proof. reflexivity. Qed.
Lemma parse_on_is_parse_obj st0 f len toks : parse_on st0 f len toks = parse_obj RESET_BOTH st0 f len toks.
Proof. reflexivity. Qed.
Lemma parse_is_parse_from_empty f len toks : parse f len toks = snd (parse_from ps_empty f len toks).
Proof. reflexivity. Qed.

Lemma run_history_obj_both reqs : forall st, run_history_obj RESET_BOTH st reqs = run_history st reqs.
Proof.
  induction reqs as [|[[f len] toks] r IH]; intros st; cbn [run_history_obj run_history]; [reflexivity|].
  rewrite <- parse_on_is_parse_obj. destruct (parse_on st f len toks) as [st' res]. rewrite IH. reflexivity.
Qed.
Lemma reuse_eq_fresh_obj reqs st : run_history_obj RESET_BOTH st reqs = fresh_results reqs.
Proof. rewrite run_history_obj_both. apply reuse_eq_fresh_lemma. Qed.

(* ---------- witnesses: a format with one value-requiring option and one optional argument ---------- *)
Module ReuseWitness.
  Definition s (x : string) : str := map N_of_ascii (list_ascii_of_string x).
  (* REQUIRED_VALUE | INTEGER | PREFER_SHORT ; OPTIONAL | INTEGER *)
  Definition o_num := {| o_long := s "num"; o_short := Some (s "n"); o_flags := 522; o_default := VNone |}.
  Definition a_port := {| a_name := s "port"; a_flags := 66; a_default := VInt 80 |}.
  Definition F : fmt :=
    match format_of_elements [EOpt o_num; EArg a_port] None with Ok f => f | Err _ => empty_builder None end.
  (* "--num 5" then the empty line; "8080" then the empty line *)
  Definition H_opts : list (fmt * bool * list str) := [(F, false, [s "--num"; s "5"]); (F, false, [])].
  Definition H_args : list (fmt * bool * list str) := [(F, false, [s "8080"]); (F, false, [])].
  Definition nothing : res args := Ok {| ar_opts := []; ar_args := [] |}.

  Example fresh_opts : fresh_results H_opts = [Ok {| ar_opts := [(s "num", VInt 5)]; ar_args := [] |}; nothing].
  Proof. vm_compute. reflexivity. Qed.
  Example fresh_args : fresh_results H_args = [Ok {| ar_opts := []; ar_args := [(s "port", VInt 8080)] |}; nothing].
  Proof. vm_compute. reflexivity. Qed.
  (* the code before the repair: the option of the first line is still there when the empty line is parsed *)
  Example args_only_leaks : run_history_obj RESET_ARGS_ONLY ps_empty H_opts =
    [Ok {| ar_opts := [(s "num", VInt 5)]; ar_args := [] |}; Ok {| ar_opts := [(s "num", VInt 5)]; ar_args := [] |}].
  Proof. vm_compute. reflexivity. Qed.
  Example opts_only_leaks : run_history_obj RESET_OPTS_ONLY ps_empty H_args =
    [Ok {| ar_opts := []; ar_args := [(s "port", VInt 8080)] |}; Ok {| ar_opts := []; ar_args := [(s "port", VInt 8080)] |}].
  Proof. vm_compute. reflexivity. Qed.
  (* and the repaired code on the same histories *)
  Example both_ok : run_history_obj RESET_BOTH ps_empty H_opts = fresh_results H_opts /\
                    run_history_obj RESET_BOTH ps_empty H_args = fresh_results H_args.
  Proof. split; vm_compute; reflexivity. Qed.
End ReuseWitness.

Lemma reuse_refuted_unless_opts_reset r : rs_opts r = false ->
  run_history_obj r ps_empty ReuseWitness.H_opts <> fresh_results ReuseWitness.H_opts.
Proof. destruct r as [[|] o]; cbn [rs_opts]; intros ->; vm_compute; discriminate. Qed.
Lemma reuse_refuted_unless_args_reset r : rs_args r = false ->
  run_history_obj r ps_empty ReuseWitness.H_args <> fresh_results ReuseWitness.H_args.
Proof. destruct r as [a [|]]; cbn [rs_args]; intros ->; vm_compute; discriminate. Qed.

(* the behaviour before repo fix d80c000 (only self._arguments reset): the statement of C05 is false *)
Lemma reuse_unfixed_refuted_lemma :
  exists reqs, run_history_obj RESET_ARGS_ONLY ps_empty reqs <> fresh_results reqs.
Proof. exists ReuseWitness.H_opts. apply reuse_refuted_unless_opts_reset. reflexivity. Qed.

(* re-use = fresh for every history, from every state of the object, exactly when both maps are reset at entry *)
Lemma reuse_eq_fresh_iff_lemma r :
  (forall reqs st, run_history_obj r st reqs = fresh_results reqs) <-> r = RESET_BOTH.
Proof.
  split.
  - intros H. destruct r as [a o]. destruct o.
    + destruct a; [reflexivity|].
      exfalso. apply (reuse_refuted_unless_args_reset {| rs_args := false; rs_opts := true |} eq_refl). apply H.
    + exfalso. apply (reuse_refuted_unless_opts_reset {| rs_args := a; rs_opts := false |} eq_refl). apply H.
  - intros ->. intros reqs st. apply reuse_eq_fresh_obj.
Qed.

(* one parse: its result is independent of the object's state exactly when both maps are reset *)
Lemma parse_obj_independent_iff_lemma r :
  (forall st0 f len toks, snd (parse_obj r st0 f len toks) = parse f len toks) <-> r = RESET_BOTH.
Proof.
  split.
  - intros H. destruct r as [a o]. destruct o.
    + destruct a; [reflexivity|]. exfalso.
      specialize (H {| ps_args := [(ReuseWitness.s "port", RStr (ReuseWitness.s "8080"))]; ps_opts := [] |} ReuseWitness.F false []).
      vm_compute in H. discriminate.
    + exfalso.
      specialize (H {| ps_args := []; ps_opts := [(ReuseWitness.s "num", OStr (ReuseWitness.s "5"))] |} ReuseWitness.F false []).
      destruct a; vm_compute in H; discriminate.
  - intros ->. intros st0 f len toks. reflexivity.
Qed.

(* ---------- the wire entry: with "both maps reset" it is the entry of the code as it is ---------- *)
Lemma run_requests_obj_both fs extra reqs : forall st,
  run_requests_obj RESET_BOTH fs extra st reqs = run_requests fs extra st reqs.
Proof.
  induction reqs as [|[[i len] toks] rest IH]; intros st; cbn [run_requests_obj run_requests]; [reflexivity|].
  destruct (nth_error fs i) as [f|]; [|reflexivity].
  rewrite <- parse_on_is_parse_obj. destruct (parse_on st f len toks) as [st' res]. rewrite IH. reflexivity.
Qed.
Lemma run_C05_both_lemma fmts reqs extra : run_C05 (L [fmts; reqs; extra; A 0%Z]) = run_C05_asis (L [fmts; reqs; extra]).
Proof.
  cbn [run_C05 run_C05_asis resets_of].
  destruct (dList (dList (dList dec_element)) fmts) as [fl|]; [|reflexivity].
  destruct (dList dec_request reqs) as [rl|]; [|reflexivity].
  destruct (dList dStr extra) as [el|]; [|reflexivity].
  destruct (build_formats fl) as [fs|k]; [|reflexivity].
  rewrite run_requests_obj_both. reflexivity.
Qed.
