(* Proofs about Model/Spinner.v (C19). *)
From Coq Require Import Lia Arith.
From Clikit Require Import Base.Prelude Base.Res Base.Term Model.Spinner Proofs.TermLemmas.

(* ---------- every write is a whole frame (of a message with property P) or a line break ---------- *)
Definition whole : option str -> Prop := fun t => match t with Some f => exists c m, f = frame c m | None => True end.
Section Whole.
Variable P : str -> Prop.
Definition wholeP (t : option str) : Prop := match t with Some f => exists c m, f = frame c m /\ P m | None => True end.
Definition pend_whole (p : pending) : Prop := match p with PW t => wholeP t | _ => True end.
Definition act_ok (a : action) : Prop := match a with ASet m => P m | _ => True end.
Definition W (s : st) : Prop :=
  Forall (fun w => wholeP (snd w)) (writes s) /\ pend_whole (sp s) /\ pend_whole (mp s) /\
  P (msg s) /\ P (end_msg s) /\ Forall act_ok (body s).

Lemma spin_to_yield_W s : W s -> W (spin_to_yield s).
Proof.
  intros (H1 & H2 & H3 & H4 & H5 & H6). unfold spin_to_yield.
  destruct (stop s); [repeat split; cbn; auto|]. destruct (clock s <? upd s)%Z; repeat split; cbn; auto. eexists _, _. split; [reflexivity|exact H4].
Qed.
Lemma main_to_yield_W s : W s -> W (main_to_yield s).
Proof.
  intros (H1 & H2 & H3 & H4 & H5 & H6). unfold main_to_yield.
  destruct (mphase_ s); [destruct (body s) as [|[m|d|] r]; [|inversion H6 as [|? ? Ha Hr]; subst; cbn in Ha ..]| | | | |];
    repeat split; cbn; auto; eexists _, _; (split; [reflexivity|assumption]).
Qed.
Lemma writes_snoc (l : list (bool * option str)) b t :
  Forall (fun w => wholeP (snd w)) l -> wholeP t -> Forall (fun w => wholeP (snd w)) (l ++ [(b, t)]).
Proof. intros H1 H2. apply Forall_app. split; [exact H1|]. constructor; [exact H2|constructor]. Qed.

Ltac solveW := repeat split; cbn [writes sp mp msg end_msg body upd_st]; cbn [pend_whole]; auto using writes_snoc.
Lemma step_W s b : W s -> W (step s b).
Proof.
  intros (H1 & H2 & H3 & H4 & H5 & H6). destruct b; cbn [step]; unfold step_spinner, step_main.
  - destruct (sp s) as [t| | |] eqn:E; cbn [pend_whole] in H2.
    + solveW.
    + apply spin_to_yield_W. solveW; try (rewrite ?E; cbn; auto).
    + solveW; try (rewrite ?E; cbn; auto).
    + solveW; try (rewrite ?E; cbn; auto).
  - destruct (mp s) as [t| | |] eqn:E; cbn [pend_whole] in H3.
    + apply main_to_yield_W. solveW; try (rewrite ?E; cbn; auto).
    + apply main_to_yield_W. solveW; try (rewrite ?E; cbn; auto).
    + destruct (sp s) eqn:E2; cbn [pend_whole] in H2; try (solveW; try (rewrite ?E, ?E2; cbn; auto); fail).
      apply main_to_yield_W. solveW; try (rewrite ?E, ?E2; cbn; auto).
    + solveW; try (rewrite ?E; cbn; auto).
Qed.
Lemma run_schedule_W sched : forall s, W s -> W (run_schedule s sched).
Proof. unfold run_schedule. induction sched as [|b r IH]; intros s H; cbn; [exact H|]. apply IH, step_W, H. Qed.
Lemma complete_W fuel : forall s, W s -> W (complete fuel s).
Proof.
  induction fuel as [|f IH]; intros s H; cbn; [exact H|]. destruct (all_done s); [exact H|].
  apply IH. destruct (main_blocked s); [apply (step_W s true H)|apply (step_W s false H)].
Qed.
Lemma init_W t0 iv sm em acts : P sm -> P em -> Forall act_ok acts -> W (init t0 iv sm em acts).
Proof.
  intros Hs He Ha. unfold init. apply (step_W _ false). repeat split; cbn; auto. eexists _, _. split; [reflexivity|exact Hs].
Qed.
Lemma all_writes_wholeP t0 iv sm em acts sched : P sm -> P em -> Forall act_ok acts ->
  Forall (fun w => wholeP (snd w)) (writes (run_auto t0 iv sm em acts sched)).
Proof. intros. unfold run_auto. apply complete_W, run_schedule_W, init_W; assumption. Qed.
End Whole.

Lemma all_writes_whole t0 iv sm em acts sched :
  Forall (fun w => whole (snd w)) (writes (run_auto t0 iv sm em acts sched)).
Proof.
  eapply Forall_impl; [|apply (all_writes_wholeP (fun _ => True)); auto].
  - intros [b [f|]]; cbn; auto. intros (c & m & H & _). eauto.
  - apply Forall_forall. intros [m|d|] _; exact I.
Qed.

(* ---------- on the terminal: a whole-frame write replaces the line, whatever it held ---------- *)
Section Line.
Variable w : nat.
Hypothesis w_pos : 1 <= w.

Lemma fill_short : forall s cur, length cur + length s <= w -> fill w cur s = [cur ++ s].
Proof.
  induction s as [|c s IH]; intros cur H; cbn [fill]; [now rewrite app_nil_r|].
  assert (Nat.eqb (length cur) w = false) as -> by (apply Nat.eqb_neq; cbn in H; lia).
  rewrite IH by (rewrite app_length; cbn in *; lia). now rewrite <- app_assoc.
Qed.

Lemma frame_replaces_line R r c (f : str) : length f <= w ->
  feed w {| rows := R ++ [r]; cr := length R; cc := c |} (emits_of_write (Some f))
  = {| rows := R ++ [f]; cr := length R; cc := length f |}.
Proof.
  intros Hf. cbn [emits_of_write]. unfold feed. cbn [fold_left feed1 rows cr cc].
  rewrite upd_row_last.
  change (fold_left (feed1 w) (map Ch f) {| rows := R ++ [[]]; cr := length R; cc := 0 |})
    with (feed w {| rows := R ++ [[]]; cr := length R; cc := length (@nil N) |} (map Ch f)).
  rewrite (feed_text w w_pos f R []) by (cbn; lia).
  rewrite (fill_short f []) by (cbn; lia). cbn [app length last]. f_equal. lia.
Qed.

Definition ok_row (r : list N) : Prop := r = [] \/ exists c m, r = frame c m.
Definition short (t : option str) : Prop := match t with Some f => length f <= w | None => True end.

(* after any sequence of whole writes every row of the screen is empty or exactly one frame: never a mixture *)
Lemma rows_are_frames : forall ws R r c,
  Forall whole ws -> Forall short ws -> Forall ok_row R -> ok_row r ->
  let t := feed w {| rows := R ++ [r]; cr := length R; cc := c |} (flat_map emits_of_write ws) in
  Forall ok_row (rows t).
Proof.
  induction ws as [|x ws IH]; intros R r c Hw Hs HR Hr; cbv zeta; cbn [flat_map].
  - cbn. apply Forall_app. split; [exact HR|]. constructor; [exact Hr|constructor].
  - inversion Hw as [|? ? Hx Hws]; subst. inversion Hs as [|? ? Sx Sws]; subst. rewrite feed_app.
    destruct x as [f|].
    + rewrite (frame_replaces_line R r c f Sx). apply (IH R f (length f)); auto. right. exact Hx.
    + cbn [emits_of_write]. unfold feed at 2. cbn [fold_left feed1 rows cr].
      replace (S (length R)) with (length (R ++ [r])) by (rewrite app_length; cbn; lia).
      rewrite upd_row_new. apply (IH (R ++ [r]) [] 0); auto.
      * apply Forall_app. split; [exact HR|]. constructor; [exact Hr|constructor].
      * left. reflexivity.
Qed.

(* the cursor stays on the last row *)
Lemma shape_kept : forall ws R r c,
  Forall short ws ->
  exists R' r' c', feed w {| rows := R ++ [r]; cr := length R; cc := c |} (flat_map emits_of_write ws)
                   = {| rows := R' ++ [r']; cr := length R'; cc := c' |}.
Proof.
  induction ws as [|x ws IH]; intros R r c Hs; cbn [flat_map].
  - exists R, r, c. reflexivity.
  - inversion Hs as [|? ? Sx Sws]; subst. rewrite feed_app. destruct x as [f|].
    + rewrite (frame_replaces_line R r c f Sx). apply IH, Sws.
    + cbn [emits_of_write]. unfold feed at 2. cbn [fold_left feed1 rows cr].
      replace (S (length R)) with (length (R ++ [r])) by (rewrite app_length; cbn; lia).
      rewrite upd_row_new. apply IH, Sws.
Qed.

(* a frame then a line break at the end of the history: the frame is the last line shown *)
Lemma last_frame_shown ws (f : str) : Forall short ws -> length f <= w ->
  exists R', rows (feed w term_init (flat_map emits_of_write (ws ++ [Some f; None]))) = R' ++ [f; []].
Proof.
  intros Hs Hf. rewrite flat_map_app, feed_app.
  destruct (shape_kept ws [] [] 0 Hs) as (R' & r' & c' & Hk). change term_init with {| rows := [] ++ [[]]; cr := length (@nil row); cc := 0 |}.
  rewrite Hk. cbn [flat_map]. rewrite feed_app, (frame_replaces_line R' r' c' f Hf).
  cbn [emits_of_write app]. unfold feed. cbn [fold_left feed1 rows cr].
  replace (S (length R')) with (length (R' ++ [f])) by (rewrite app_length; cbn; lia).
  rewrite upd_row_new. exists R'. cbn [rows]. rewrite <- app_assoc. reflexivity.
Qed.
End Line.

(* ---------- leaving the automatic mode always stops and joins the spinner ---------- *)
Definition after_join (s : st) : bool :=
  match mphase_ s with MEndFrame | MFinished _ => true | _ => false end.
Definition phase_ok (s : st) : Prop :=
  match mphase_ s, mp s with
  | MBody, (PW _ | PS _) => True
  | MAfterRaiseNl, PW None => True
  | MAfterJoinRaise, PJ | MAfterJoinExit, PJ => True
  | MEndFrame, PW (Some _) => True
  | MFinished false, PW None => True
  | MFinished _, PDone => True
  | _, _ => False
  end.
Definition J (s : st) : Prop :=
  phase_ok s /\ (mp s = PJ -> stop s = true) /\ (after_join s = true -> sp s = PDone /\ stop s = true).

Lemma spin_to_yield_fields s :
  mp (spin_to_yield s) = mp s /\ mphase_ (spin_to_yield s) = mphase_ s /\ stop (spin_to_yield s) = stop s /\ body (spin_to_yield s) = body s.
Proof. unfold spin_to_yield. destruct (stop s); [cbn; auto|]. destruct (clock s <? upd s)%Z; cbn; auto. Qed.

Lemma step_spinner_J s : J s -> J (step_spinner s).
Proof.
  intros HJ. pose proof HJ as (H1 & H2 & H3). unfold step_spinner. destruct (sp s) as [t|d| |] eqn:E; try exact HJ.
  - unfold J, phase_ok, after_join in *; cbn. split; [exact H1|]. split; [exact H2|].
    intros Ha. destruct (H3 Ha) as [Hd _]. congruence.
  - match goal with |- J (spin_to_yield ?x) => set (s' := x) end.
    destruct (spin_to_yield_fields s') as (F1 & F2 & F3 & _). unfold J, phase_ok, after_join in *. rewrite F1, F2, F3. cbn.
    split; [exact H1|]. split; [exact H2|]. intros Ha. destruct (H3 Ha) as [Hd _]. congruence.
Qed.

Lemma step_main_J s : J s -> J (step_main s).
Proof.
  intros (H1 & H2 & H3). unfold step_main, J, phase_ok, after_join in *.
  destruct (mphase_ s) as [| | | | |r] eqn:Ep; destruct (mp s) as [[f|]|d| |] eqn:Em; try contradiction;
    try (destruct r; try contradiction);
    unfold main_to_yield; cbn [mphase_ body upd_st mp stop sp]; rewrite ?Ep;
    try (destruct (body s) as [|[m|d'|] rest]); cbn [mphase_ body upd_st mp stop sp];
    try (destruct (sp s) eqn:Es; cbn [mphase_ body upd_st mp stop sp]; rewrite ?Ep, ?Em);
    repeat split; auto; try discriminate; try (intros; congruence);
    try (destruct (H3 eq_refl); auto; fail); try (rewrite H2 by reflexivity; auto).
Qed.

Lemma step_J s b : J s -> J (step s b).
Proof. destruct b; [apply step_spinner_J|apply step_main_J]. Qed.
Lemma run_schedule_J sched : forall s, J s -> J (run_schedule s sched).
Proof. unfold run_schedule. induction sched as [|b r IH]; intros s H; cbn; [exact H|]. apply IH, step_J, H. Qed.
Lemma init_J t0 iv sm em acts : J (init t0 iv sm em acts).
Proof. unfold init. apply step_main_J. unfold J, phase_ok, after_join; cbn. repeat split; auto; discriminate. Qed.

(* the spinner thread never joins anything *)
Definition NJ (s : st) : Prop := sp s <> PJ.
Lemma spin_to_yield_NJ s : sp (spin_to_yield s) <> PJ.
Proof. unfold spin_to_yield. destruct (stop s); [cbn; discriminate|]. destruct (clock s <? upd s)%Z; cbn; discriminate. Qed.
Lemma spin_to_yield_sp_main s : sp (main_to_yield s) = sp s.
Proof. unfold main_to_yield. destruct (mphase_ s); try reflexivity. destruct (body s) as [|[m|d|] r]; reflexivity. Qed.
Lemma step_NJ s b : NJ s -> NJ (step s b).
Proof.
  unfold NJ. intros H. destruct b; cbn.
  - unfold step_spinner. destruct (sp s) eqn:E; try (rewrite E; exact H); [cbn; discriminate|apply spin_to_yield_NJ].
  - unfold step_main. destruct (mp s); try exact H; try (rewrite spin_to_yield_sp_main; exact H).
    destruct (sp s) eqn:E; try (rewrite E; exact H). rewrite spin_to_yield_sp_main, E. discriminate.
Qed.
Lemma run_schedule_NJ sched : forall s, NJ s -> NJ (run_schedule s sched).
Proof. unfold run_schedule. induction sched as [|b r IH]; intros s H; cbn; [exact H|]. apply IH, step_NJ, H. Qed.
Lemma init_NJ t0 iv sm em acts : NJ (init t0 iv sm em acts).
Proof. unfold init. apply (step_NJ _ false). unfold NJ; cbn. discriminate. Qed.

(* a measure that decreases with every step of the completion policy *)
Definition rank_main (s : st) : nat :=
  match mp s with
  | PDone => 0
  | _ => match mphase_ s with
         | MBody => 2 * length (body s) + 8
         | MAfterRaiseNl => 6 | MAfterJoinRaise => 4 | MAfterJoinExit => 6 | MEndFrame => 4 | MFinished _ => 2
         end
  end.
Definition rank_sp (s : st) : nat := match sp s with PW _ => 2 | PS _ => 1 | _ => 0 end.
Definition rank (s : st) : nat := 3 * rank_main s + rank_sp s.

Lemma step_main_rank s : J s -> main_blocked s = false ->
  rank_main (step_main s) < rank_main s /\ rank_sp (step_main s) = rank_sp s.
Proof.
  intros (H1 & H2 & H3) Hb. unfold step_main, main_blocked, rank_main, rank_sp, J, phase_ok, after_join in *.
  destruct (mphase_ s) as [| | | | |r] eqn:Ep; destruct (mp s) as [[f|]|d| |] eqn:Em; try contradiction; try discriminate;
    try (destruct r; try contradiction);
    try (destruct (sp s) eqn:Es; try discriminate);
    unfold main_to_yield; cbn [mphase_ body upd_st mp stop sp]; rewrite ?Ep;
    try (destruct (body s) as [|[m|d'|] rest]); cbn [mphase_ body upd_st mp stop sp length]; rewrite ?Es; split; try reflexivity; lia.
Qed.

Lemma step_spinner_rank s : J s -> NJ s -> main_blocked s = true -> all_done s = false ->
  rank_sp (step_spinner s) < rank_sp s /\ rank_main (step_spinner s) = rank_main s.
Proof.
  intros (H1 & H2 & H3) HN Hb Hd. unfold step_spinner, main_blocked, all_done, rank_main, rank_sp, J, NJ, phase_ok, after_join in *.
  destruct (mp s) as [[f|]|d| |] eqn:Em; try discriminate.
  - (* joining: the stop flag is set, so the spinner ends at its next loop test *)
    specialize (H2 eq_refl).
    destruct (sp s) as [t|d| |] eqn:Es; try discriminate; try congruence.
    + cbn. rewrite ?Em. split; [lia|reflexivity].
    + unfold spin_to_yield. cbn [stop upd_st]. rewrite H2. cbn. rewrite ?Em. split; [lia|reflexivity].
  - (* main finished: then the spinner had ended already *)
    destruct (mphase_ s) as [| | | | |r] eqn:Ep; try contradiction.
    destruct (H3 eq_refl) as [Hs _]. rewrite Hs in Hd. discriminate.
Qed.

Lemma complete_done : forall fuel s, J s -> NJ s -> rank s <= fuel -> all_done (complete fuel s) = true /\ J (complete fuel s).
Proof.
  induction fuel as [|f IH]; intros s HJ HN Hr.
  - cbn. split; [|exact HJ]. unfold rank, rank_main, rank_sp, all_done in *.
    unfold NJ in HN. destruct (mp s), (sp s); try reflexivity; try congruence; destruct (mphase_ s); lia.
  - cbn [complete]. destruct (all_done s) eqn:Hd; [auto|].
    destruct (main_blocked s) eqn:Hb.
    + destruct (step_spinner_rank s HJ HN Hb Hd) as [R1 R2]. apply IH; [apply step_spinner_J, HJ|apply (step_NJ s true HN)|]. unfold rank in *. lia.
    + destruct (step_main_rank s HJ Hb) as [R1 R2]. apply IH; [apply step_main_J, HJ|apply (step_NJ s false HN)|]. unfold rank in *. lia.
Qed.

Lemma rank_bound s : rank s <= 6 * length (body s) + 30.
Proof. unfold rank, rank_main, rank_sp. destruct (mp s), (mphase_ s), (sp s); lia. Qed.

Lemma auto_always_stops t0 iv sm em acts sched :
  let f := run_auto t0 iv sm em acts sched in
  all_done f = true /\ stop f = true.
Proof.
  cbv zeta. unfold run_auto.
  set (s := run_schedule (init t0 iv sm em acts) sched).
  assert (J s) as HJ by (apply run_schedule_J, init_J).
  assert (NJ s) as HN by (apply run_schedule_NJ, init_NJ).
  destruct (complete_done (6 * length (body s) + 30) s HJ HN (rank_bound s)) as [Hd (H1 & H2 & H3)].
  split; [exact Hd|].
  set (f := complete (6 * length (body s) + 30) s) in *.
  unfold all_done in Hd. unfold phase_ok, after_join in *.
  destruct (mp f) eqn:Em; try discriminate. destruct (mphase_ f) eqn:Ep; try contradiction.
  destruct (H3 eq_refl) as [_ Hs]. exact Hs.
Qed.

(* ---------- a normal exit leaves the end message as the last frame, followed by the line break ---------- *)
Definition ends_ok (s : st) : Prop :=
  match mphase_ s, mp s with
  | MFinished false, PW None => exists pre, writes s = pre ++ [(false, Some (frame 0 (end_msg s)))]
  | MFinished false, PDone => exists pre, writes s = pre ++ [(false, Some (frame 0 (end_msg s))); (false, None)]
  | _, _ => True
  end.

(* ---------- a normal exit leaves the end message as the last frame, followed by the line break ---------- *)
Definition E (em : str) (s : st) : Prop :=
  end_msg s = em /\
  match mphase_ s, mp s with
  | MEndFrame, PW t => t = Some (frame 0 em)
  | MFinished false, PW None => exists pre, writes s = pre ++ [(false, Some (frame 0 em))]
  | MFinished false, PDone => exists pre, writes s = pre ++ [(false, Some (frame 0 em)); (false, None)]
  | _, _ => True
  end.

Lemma spin_to_yield_same s :
  end_msg (spin_to_yield s) = end_msg s /\ writes (spin_to_yield s) = writes s.
Proof. unfold spin_to_yield. destruct (stop s); [cbn; auto|]. destruct (clock s <? upd s)%Z; cbn; auto. Qed.

Lemma step_spinner_E em s : J s -> E em s -> E em (step_spinner s).
Proof.
  intros (H1 & H2 & H3) [He HE]. unfold step_spinner. destruct (sp s) as [t|d| |] eqn:Es; try (split; assumption).
  - (* a spinner write: impossible once the main thread is past the join *)
    unfold E, after_join in *. cbn [end_msg mphase_ mp writes upd_st]. split; [exact He|].
    destruct (mphase_ s) as [| | | | |r] eqn:Ep; auto; destruct (H3 eq_refl) as [Hd _]; congruence.
  - match goal with |- E em (spin_to_yield ?x) => set (s' := x) end.
    destruct (spin_to_yield_fields s') as (F1 & F2 & _ & _). destruct (spin_to_yield_same s') as [F3 F4].
    unfold E. rewrite F1, F2, F3, F4. subst s'. cbn [end_msg mphase_ mp writes upd_st]. split; assumption.
Qed.

Lemma step_main_E em s : J s -> E em s -> E em (step_main s).
Proof.
  intros (H1 & H2 & H3) [He HE]. unfold step_main, E, phase_ok in *.
  destruct (mphase_ s) as [| | | | |r] eqn:Ep; destruct (mp s) as [[f|]|d| |] eqn:Em; try contradiction;
    try (destruct r; try contradiction);
    unfold main_to_yield; cbn [mphase_ body upd_st mp end_msg writes]; rewrite ?Ep;
    try (destruct (body s) as [|[m|d'|] rest]); cbn [mphase_ body upd_st mp end_msg writes];
    try (destruct (sp s) eqn:Es; cbn [mphase_ body upd_st mp end_msg writes]; rewrite ?Ep, ?Em);
    try (split; [exact He|]; auto; fail).
  all: split; [exact He|];
    first [ rewrite He; reflexivity
          | inversion HE; subst; eexists; reflexivity
          | destruct HE as [pre Hp]; exists pre; rewrite Hp, <- app_assoc; reflexivity ].
Qed.

Lemma step_E em s b : J s -> E em s -> E em (step s b).
Proof. destruct b; [apply step_spinner_E|apply step_main_E]. Qed.
Lemma run_schedule_JE em sched : forall s, J s -> E em s -> J (run_schedule s sched) /\ E em (run_schedule s sched).
Proof.
  unfold run_schedule. induction sched as [|b r IH]; intros s HJ HE; cbn; [auto|]. apply IH; [apply step_J, HJ|apply step_E; assumption].
Qed.
Lemma complete_E em fuel : forall s, J s -> E em s -> E em (complete fuel s).
Proof.
  induction fuel as [|f IH]; intros s HJ HE; cbn; [exact HE|]. destruct (all_done s); [exact HE|].
  destruct (main_blocked s); apply IH; auto using step_spinner_J, step_main_J, step_spinner_E, step_main_E.
Qed.
Lemma init_E t0 iv sm em acts : E em (init t0 iv sm em acts).
Proof.
  unfold init. apply step_main_E.
  - unfold J, phase_ok, after_join; cbn. repeat split; auto; discriminate.
  - unfold E; cbn. auto.
Qed.

Lemma normal_exit_last_frame_lemma t0 iv sm em acts sched :
  let f := run_auto t0 iv sm em acts sched in
  mphase_ f = MFinished false ->
  exists pre, writes f = pre ++ [(false, Some (frame 0 em)); (false, None)].
Proof.
  cbv zeta. intros Hp.
  destruct (auto_always_stops t0 iv sm em acts sched) as [Hd _]. cbv zeta in Hd.
  assert (E em (run_auto t0 iv sm em acts sched)) as [_ HE].
  { unfold run_auto. destruct (run_schedule_JE em sched _ (init_J t0 iv sm em acts) (init_E t0 iv sm em acts)) as [HJ HE].
    apply complete_E; assumption. }
  rewrite Hp in HE. unfold all_done in Hd. destruct (mp (run_auto t0 iv sm em acts sched)); try discriminate. exact HE.
Qed.

(* how the automatic mode ends is decided by the body alone: raised iff the body has a raise *)
Definition has_raise (acts : list action) : bool := existsb (fun a => match a with ARaise => true | _ => false end) acts.

(* ---------- manual mode ---------- *)
Lemma indicator_in_values c : In (indicator c) values.
Proof. unfold indicator. apply nth_In. cbn [values length]. apply Nat.mod_upper_bound. discriminate. Qed.

Fixpoint adv_times (iv : Z) (s : mst) (now : Z) (ops : list (Z * mop)) : list Z :=
  match ops with
  | [] => []
  | (dt, o) :: r =>
    let now' := (now + dt)%Z in
    (match o with MAdvance => if (now' <? m_upd s)%Z then [] else [now'] | _ => [] end)
    ++ adv_times iv (manual_step iv s now' o) now' r
  end.
Fixpoint spaced (iv : Z) (l : list Z) : Prop :=
  match l with a :: (b :: _) as r => (a + iv <= b)%Z /\ spaced iv r | _ => True end.

(* the number of frames an advance() adds is 1 exactly at the recorded times *)
Lemma advance_redraws iv s now :
  m_frames (manual_step iv s now MAdvance) =
  if (now <? m_upd s)%Z then m_frames s else m_frames s ++ [Some (frame (S (m_cur s)) (m_msg s))].
Proof. cbn. destruct (now <? m_upd s)%Z; reflexivity. Qed.

Lemma adv_times_spaced iv : (0 <= iv)%Z -> forall ops s now,
  Forall (fun t => m_upd s <= t)%Z (adv_times iv s now ops) /\ spaced iv (adv_times iv s now ops).
Proof.
  intros Hiv. induction ops as [|[dt o] r IH]; intros s now; cbn [adv_times]; [split; [constructor|exact I]|].
  destruct (IH (manual_step iv s (now + dt)%Z o) (now + dt)%Z) as [F S].
  destruct o as [|m|m rs]; cbn [app]; try (cbn [manual_step m_upd] in F; split; assumption).
  cbn [manual_step] in *. destruct (now + dt <? m_upd s)%Z eqn:Et; cbn [app m_upd] in *; [split; assumption|].
  apply Z.ltb_ge in Et. split.
  - constructor; [exact Et|]. eapply Forall_impl; [|exact F]. cbn. intros. lia.
  - destruct (adv_times iv _ (now + dt)%Z r) as [|b l] eqn:El; [exact I|]. split; [|exact S].
    inversion F; subst. lia.
Qed.

Definition mwhole (f : option str) : Prop := match f with Some f => exists c m, f = frame c m | None => True end.
Definition MI (s : mst) : Prop :=
  Forall mwhole (m_frames s) /\
  exists pre, m_frames s = pre ++ [Some (frame (m_cur s) (m_msg s))] \/ m_frames s = pre ++ [Some (frame (m_cur s) (m_msg s)); None].
Lemma manual_step_MI iv s now o : MI s -> MI (manual_step iv s now o).
Proof.
  intros [HF [pre HP]]. destruct o as [|m|m rs]; cbn [manual_step].
  - destruct (now <? m_upd s)%Z; [split; [exact HF|exists pre; exact HP]|]. split; cbn [m_frames m_cur m_msg].
    + apply Forall_app. split; [exact HF|]. constructor; [|constructor]. eexists _, _. reflexivity.
    + eexists. left. reflexivity.
  - split; cbn [m_frames m_cur m_msg].
    + apply Forall_app. split; [exact HF|]. constructor; [|constructor]. eexists _, _. reflexivity.
    + eexists. left. reflexivity.
  - split; cbn [m_frames m_cur m_msg].
    + apply Forall_app. split; [exact HF|]. constructor; [|constructor; [exact I|constructor]]. eexists _, _. reflexivity.
    + eexists. right. reflexivity.
Qed.
Lemma manual_run_MI iv : forall ops s now, MI s -> MI (manual_run iv s now ops).
Proof. induction ops as [|[dt o] r IH]; intros s now H; cbn [manual_run]; [exact H|]. apply IH, manual_step_MI, H. Qed.
Lemma manual_init_MI t0 iv m : MI (manual_init t0 iv m).
Proof.
  split; cbn.
  - constructor; [|constructor]. eexists _, _. reflexivity.
  - exists []. left. reflexivity.
Qed.

(* ---------- how the automatic mode ends is decided by the body alone ---------- *)
Definition RZ (hr : bool) (s : st) : Prop :=
  match mphase_ s with
  | MBody => has_raise (body s) = hr
  | MAfterRaiseNl | MAfterJoinRaise | MFinished true => hr = true
  | MAfterJoinExit | MEndFrame | MFinished false => hr = false
  end.
Lemma main_to_yield_RZ hr s : RZ hr s -> RZ hr (main_to_yield s).
Proof.
  unfold RZ, main_to_yield. destruct (mphase_ s) as [| | | | |r] eqn:Ep; cbn [mphase_ body upd_st]; auto.
  destruct (body s) as [|[m|d|] rest]; cbn [mphase_ body upd_st has_raise existsb orb]; auto.
Qed.
Lemma step_RZ hr s b : RZ hr s -> RZ hr (step s b).
Proof.
  intros H. destruct b; cbn [step].
  - unfold step_spinner. destruct (sp s); try exact H.
    match goal with |- RZ hr (spin_to_yield ?x) => destruct (spin_to_yield_fields x) as (_ & F2 & _ & F4) end.
    unfold RZ in *. rewrite F2, F4. exact H.
  - unfold step_main. destruct (mp s); try exact H; try (apply main_to_yield_RZ; exact H).
    destruct (sp s); try exact H. apply main_to_yield_RZ; exact H.
Qed.
Lemma run_schedule_RZ hr sched : forall s, RZ hr s -> RZ hr (run_schedule s sched).
Proof. unfold run_schedule. induction sched as [|b r IH]; intros s H; cbn; [exact H|]. apply IH, step_RZ, H. Qed.
Lemma complete_RZ hr fuel : forall s, RZ hr s -> RZ hr (complete fuel s).
Proof.
  induction fuel as [|f IH]; intros s H; cbn; [exact H|]. destruct (all_done s); [exact H|].
  apply IH. destruct (main_blocked s); [apply (step_RZ hr s true H)|apply (step_RZ hr s false H)].
Qed.
Lemma exit_kind_lemma t0 iv sm em acts sched :
  mphase_ (run_auto t0 iv sm em acts sched) = MFinished (has_raise acts).
Proof.
  destruct (auto_always_stops t0 iv sm em acts sched) as [Hd _]. cbv zeta in Hd.
  assert (RZ (has_raise acts) (run_auto t0 iv sm em acts sched)) as HR.
  { unfold run_auto. apply complete_RZ, run_schedule_RZ. unfold init. apply (step_RZ _ _ false). reflexivity. }
  assert (phase_ok (run_auto t0 iv sm em acts sched)) as HP.
  { unfold run_auto.
    set (s := run_schedule (init t0 iv sm em acts) sched).
    assert (J s) as HJ by (apply run_schedule_J, init_J).
    assert (NJ s) as HN by (apply run_schedule_NJ, init_NJ).
    destruct (complete_done (6 * length (body s) + 30) s HJ HN (rank_bound s)) as [_ (H1 & _)]. exact H1. }
  unfold RZ, phase_ok, all_done in *.
  destruct (mp (run_auto t0 iv sm em acts sched)); try discriminate.
  destruct (mphase_ (run_auto t0 iv sm em acts sched)) as [| | | | |r]; try contradiction.
  destruct r; congruence.
Qed.

(* ---------- the line never shows a mixture of two frames: at every point of the write history ---------- *)
Definition fits (w : nat) (m : str) : Prop := length m + 3 <= w.
Lemma flat_map_map {X Y Z : Type} (g : X -> Y) (f : Y -> list Z) l : flat_map f (map g l) = flat_map (fun x => f (g x)) l.
Proof. induction l as [|x l IH]; cbn; [reflexivity|]. now rewrite IH. Qed.

Lemma line_never_mixed_lemma w t0 iv sm em acts sched n :
  1 <= w -> fits w sm -> fits w em -> Forall (act_ok (fits w)) acts ->
  let f := run_auto t0 iv sm em acts sched in
  Forall ok_row (rows (feed w term_init (flat_map (fun x => emits_of_write (snd x)) (firstn n (writes f))))).
Proof.
  intros Hw Hs He Ha. cbv zeta.
  pose proof (all_writes_wholeP (fits w) t0 iv sm em acts sched Hs He Ha) as HW.
  rewrite <- (firstn_skipn n (writes _)) in HW. apply Forall_app in HW. destruct HW as [HW _].
  rewrite <- flat_map_map.
  apply (rows_are_frames w Hw (map snd (firstn n (writes (run_auto t0 iv sm em acts sched)))) [] [] 0).
  - apply Forall_map. eapply Forall_impl; [|exact HW]. intros [b [x|]]; cbn; auto. intros (c & m & H & _). eauto.
  - apply Forall_map. eapply Forall_impl; [|exact HW]. intros [b [x|]]; cbn; auto. intros (c & m & H & Hm). subst x.
    unfold frame, fits in *. cbn [length]. lia.
  - constructor.
  - left. reflexivity.
Qed.

Lemma normal_exit_screen_lemma w t0 iv sm em acts sched :
  1 <= w -> fits w sm -> fits w em -> Forall (act_ok (fits w)) acts ->
  let f := run_auto t0 iv sm em acts sched in
  has_raise acts = false ->
  exists R, rows (feed w term_init (flat_map (fun x => emits_of_write (snd x)) (writes f))) = R ++ [frame 0 em; []].
Proof.
  intros Hw Hs He Ha. cbv zeta. intros Hr.
  pose proof (exit_kind_lemma t0 iv sm em acts sched) as Hk. rewrite Hr in Hk.
  destruct (normal_exit_last_frame_lemma t0 iv sm em acts sched Hk) as [pre Hp].
  pose proof (all_writes_wholeP (fits w) t0 iv sm em acts sched Hs He Ha) as HW.
  rewrite Hp in *. apply Forall_app in HW. destruct HW as [HW _].
  rewrite <- flat_map_map, map_app. cbn [map snd].
  apply (last_frame_shown w Hw).
  - apply Forall_map. eapply Forall_impl; [|exact HW]. intros [b [x|]]; cbn; auto. intros (c & m & H & Hm). subst x.
    unfold frame, fits in *. cbn [length]. lia.
  - unfold frame, fits in *. cbn [length]. lia.
Qed.
