(* C20: the pieces of every line of the stack trace and of the snippet, EXPLICITLY.
   TraceRenderLemmas proves that every line written is a line of literals and safe separators (good_line: "there are
   pieces ..."); the byte theorems then speak of existential pieces.  Here the pieces are functions of the inputs
   (trace_plines, snippet_plines), the lines are their strings, they are good pieces, and the report is their shown texts. *)
From Coq Require Import Lia.
From Clikit Require Import Proofs.MarkupShrinkLemmas.
From Clikit Require Import Base.Prelude Base.Res Model.Conv Model.Markup Model.OutputM Model.Trace
  Proofs.StrLemmas Proofs.MarkupLemmas Proofs.OutputLemmas Proofs.TraceLemmas Proofs.LiteralLemmas Proofs.TraceRenderLemmas
  Proofs.TraceSolutionLemmas Proofs.TraceEscLemmas Proofs.TraceBytesLemmas.

(* ---- one io.write_line ---- *)
Definition rl_plines (ind : Z) (ps : list piece) (nl : bool) (extra : Z) : list pline :=
  (if nl then [(ind, [])] else []) ++ [(ind, PRaw (repeat 32%N (Z.to_nat extra)) :: ps)].
Lemma rl_plines_w ind ps nl extra : map pline_w (rl_plines ind ps nl extra) = render_line ind (line_str ps) nl extra.
Proof. unfold rl_plines, render_line. rewrite map_app. destruct nl; reflexivity. Qed.

(* ---- highlighted source lines and their numbers ---- *)
Definition lines_pieces (toks : list token) : list (list piece) := map (map chunk_piece) (split_chunks toks).
Lemma lines_pieces_str toks : split_to_lines toks = map line_str (lines_pieces toks).
Proof.
  unfold split_to_lines, lines_pieces. rewrite map_map. apply map_ext. intros cs. apply render_chunks_line.
Qed.
Definition number_pieces (utf8 : bool) (w mark i : Z) (lp : list piece) : list piece :=
  (if (mark =? i)%Z then [PLit th_marker (u_arrow (ui_of utf8)); PRaw [32%N]] else [PRaw [32; 32]%N])
    ++ [PLit (if (mark =? i)%Z then th_bold_default else th_lineno) (rjust (dec_text i) w); PLit th_lineno (u_delim (ui_of utf8)); PRaw [32%N]]
    ++ lp.
Lemma number_pieces_str utf8 w mark i lp : line_str (number_pieces utf8 w mark i lp) = number_line (ui_of utf8) w mark i (line_str lp).
Proof.
  destruct (ui_safe utf8) as [Ha Hd]. unfold number_pieces, number_line, line_str. rewrite !flat_map_app. cbn [flat_map piece_str].
  rewrite (literal_safe _ _ Hd), app_nil_r.
  destruct (mark =? i)%Z; cbn [flat_map piece_str]; rewrite ?(literal_safe _ _ Ha), (literal_safe _ _ (safe_rjust _ w (safe_dec_text i))), ?app_nil_r, <- ?app_assoc; reflexivity.
Qed.
Fixpoint number_from_p (utf8 : bool) (w mark i : Z) (lps : list (list piece)) : list (list piece) :=
  match lps with [] => [] | lp :: r => number_pieces utf8 w mark i lp :: number_from_p utf8 w mark (i + 1) r end.
Lemma number_from_p_str utf8 w mark : forall lps i,
  map line_str (number_from_p utf8 w mark i lps) = number_from (ui_of utf8) w mark i (map line_str lps).
Proof.
  induction lps as [|lp r IH]; intros i; [reflexivity|]. cbn [number_from_p map number_from]. rewrite IH.
  f_equal. rewrite number_pieces_str. reflexivity.
Qed.
Definition snippet_pieces (utf8 : bool) (toks : list token) (line before after : Z) : list (list piece) :=
  let numbered := number_from_p utf8 (number_width (length (lines_pieces toks))) line 1 (lines_pieces toks) in
  firstn (Z.to_nat (after + before + 1)) (skipn (Z.to_nat (Z.max (line - before - 1) 0)) numbered).
Lemma map_firstn {X Y} (g : X -> Y) : forall n l, map g (firstn n l) = firstn n (map g l).
Proof. induction n as [|n IH]; intros [|x l]; cbn; try reflexivity. now rewrite IH. Qed.
Lemma map_skipn {X Y} (g : X -> Y) : forall n l, map g (skipn n l) = skipn n (map g l).
Proof. induction n as [|n IH]; intros [|x l]; cbn; try reflexivity. apply IH. Qed.
Lemma snippet_pieces_str utf8 toks line before after :
  map line_str (snippet_pieces utf8 toks line before after) = code_snippet (ui_of utf8) toks line before after.
Proof.
  assert (length (split_to_lines toks) = length (lines_pieces toks)) as El by (rewrite lines_pieces_str; apply map_length).
  unfold snippet_pieces, code_snippet, line_numbers. cbv zeta. rewrite map_firstn, map_skipn, number_from_p_str, <- lines_pieces_str, El.
  reflexivity.
Qed.
Definition snippet_of_p (c : tcfg) (content : tokres) (line before after : Z) : list (list piece) :=
  match content with TokOk toks => snippet_pieces (t_utf8 c) toks line before after | _ => [] end.
Lemma snippet_of_p_str c content line before after :
  snippet_of c content line before after = Ok (map line_str (snippet_of_p c content line before after)).
Proof. unfold snippet_of, snippet_of_p. destruct content; [now rewrite snippet_pieces_str|reflexivity|reflexivity]. Qed.

(* ---- the line under a frame ---- *)
Definition plain_p (f : frame) : list piece := [PLit (theme HDefault) (strip (f_line f))].
Definition frame_text_p (f : frame) : list piece :=
  match f_linetoks f with
  | TokOk toks => match lines_pieces toks with lp :: _ => lp | [] => plain_p f end
  | _ => plain_p f
  end.
Lemma plain_p_str f : line_str (plain_p f) = plain_code f.
Proof. unfold plain_p, plain_code, styled, line_str. cbn [flat_map piece_str]. apply app_nil_r. Qed.
Lemma frame_text_p_str f : line_str (frame_text_p f) = frame_text f.
Proof.
  unfold frame_text_p, frame_text. destruct (f_linetoks f) as [toks| |]; try apply plain_p_str.
  rewrite lines_pieces_str. destruct (lines_pieces toks) as [|lp r]; [apply plain_p_str|reflexivity].
Qed.
Definition frame_code_p (c : tcfg) (ind w : Z) (f : frame) : list pline :=
  if t_debug c
  then flat_map (fun lp => rl_plines ind (PRaw (rjust [32%N] w) :: lp) false 1) (snippet_of_p c (f_content f) (f_lineno f) 2 2)
  else rl_plines ind (PRaw (rjust [32%N] w ++ [32; 32]%N) :: frame_text_p f) false 0.
Lemma flat_map_map {X Y Z'} (g : X -> Y) (h : Y -> list Z') l : flat_map h (map g l) = flat_map (fun x => h (g x)) l.
Proof. induction l as [|x l IH]; [reflexivity|]. cbn [map flat_map]. now rewrite IH. Qed.
Lemma map_flat_map {X Y Z'} (g : Y -> Z') (h : X -> list Y) l : map g (flat_map h l) = flat_map (fun x => map g (h x)) l.
Proof. induction l as [|x l IH]; [reflexivity|]. cbn [flat_map]. now rewrite map_app, IH. Qed.
Lemma frame_code_p_w c ind w f : frame_code c ind w f = Ok (map pline_w (frame_code_p c ind w f)).
Proof.
  unfold frame_code_p. destruct (t_debug c) eqn:ED.
  - unfold frame_code. rewrite ED, snippet_of_p_str. cbn [bind]. rewrite flat_map_map, map_flat_map. f_equal.
    all: try (apply flat_map_ext; intros lp; rewrite rl_plines_w; reflexivity).
  - rewrite (frame_code_verbose c ind w f ED), rl_plines_w. f_equal. f_equal.
    change (line_str (PRaw (rjust [32%N] w ++ [32; 32]%N) :: frame_text_p f)) with ((rjust [32%N] w ++ [32; 32]%N) ++ line_str (frame_text_p f)).
    now rewrite frame_text_p_str, <- app_assoc.
Qed.

(* ---- the frames, the folded collections, the stack trace ---- *)
Definition frame_line_p (c : tcfg) (w : Z) (f : frame) (i : Z) : list piece :=
  [PLit st_yellow (rjust (dec_text i) w); PRaw [32; 32]%N] ++ loc_pieces c th_builtin f.
Lemma frame_line_p_str c w f i : line_str (frame_line_p c w f i) = frame_line c w f i.
Proof.
  rewrite frame_line_eq. unfold frame_line_p. rewrite line_str_app, <- location_pieces. unfold line_str. cbn [flat_map piece_str].
  rewrite (literal_safe _ _ (safe_rjust _ w (safe_dec_text i))), app_nil_r, <- app_assoc. reflexivity.
Qed.
Fixpoint frames_plines (c : tcfg) (ind w : Z) (fs : list frame) (i : Z) : list pline * Z :=
  match fs with
  | [] => ([], i)
  | f :: r => let rest := frames_plines c ind w r (i - 1) in
              (rl_plines ind (frame_line_p c w f i) true 0 ++ frame_code_p c ind w f ++ fst rest, snd rest)
  end.
Lemma frames_plines_w c ind w : forall fs i,
  frames_lines c ind w fs i = Ok (map pline_w (fst (frames_plines c ind w fs i)), snd (frames_plines c ind w fs i)).
Proof.
  induction fs as [|f r IH]; intros i; [reflexivity|]. cbn [frames_lines frames_plines fst snd].
  rewrite frame_code_p_w, IH. cbn [bind fst snd]. rewrite !map_app, rl_plines_w, frame_line_p_str. reflexivity.
Qed.
Definition fold_p (w n reps : Z) : list piece :=
  [PLit st_blue (rjust s_dots w); PRaw [32;32;80;114;101;118;105;111;117;115;32]%N]
    ++ (if (1 <? n)%Z then [PLit st_yellow (dec_text n); PRaw [32;102;114;97;109;101;115]%N] else [PRaw s_frame])
    ++ [PRaw [32;114;101;112;101;97;116;101;100;32]%N; PLit st_blue (dec_text reps); PRaw [32;116;105;109;101;115]%N].
Lemma safe_s_dots : safe s_dots. Proof. safe_by_compute. Qed.
Lemma fold_p_str w n reps : line_str (fold_p w n reps) = fold_line w n reps.
Proof.
  unfold fold_p, fold_line, line_str. rewrite !flat_map_app. cbn [flat_map piece_str].
  rewrite (literal_safe _ _ (safe_rjust _ w safe_s_dots)), (literal_safe _ _ (safe_dec_text reps)).
  generalize (rjust s_dots w) (dec_text reps). intros A C.
  destruct (1 <? n)%Z; cbn [flat_map piece_str]; rewrite ?(literal_safe _ _ (safe_dec_text n)); generalize (dec_text n); intros B;
    unfold s_blue, s_previous, s_yellow, s_frames, s_frame, s_repeated, s_times, tagged, close_any, st_blue, st_yellow;
    repeat (progress (rewrite <- ?app_assoc; cbn [app])); reflexivity.
Qed.
Fixpoint colls_plines (c : tcfg) (ind w : Z) (cs : list coll) (i : Z) : list pline :=
  match cs with
  | [] => []
  | cl :: r =>
    let n := zlen (c_frames cl) in
    let reps := (c_count cl - 1)%Z in
    let head := if coll_repeated cl then rl_plines ind (fold_p w n reps) true 0 else [] in
    let i := if coll_repeated cl then (i - (n * reps + n))%Z else i in
    let fl := frames_plines c ind w (c_frames cl) i in
    head ++ fst fl ++ colls_plines c ind w r (snd fl)
  end.
Lemma colls_plines_w c ind w : forall cs i, colls_lines c ind w cs i = Ok (map pline_w (colls_plines c ind w cs i)).
Proof.
  induction cs as [|cl r IH]; intros i; [reflexivity|]. cbn [colls_lines colls_plines]. cbv zeta.
  rewrite frames_plines_w. cbn [bind fst snd]. rewrite IH. cbn [bind]. rewrite !map_app. f_equal. f_equal.
  destruct (coll_repeated cl); [|reflexivity]. rewrite rl_plines_w, fold_p_str. reflexivity.
Qed.
Definition stack_p : list piece := [PLit st_yellow [83;116;97;99;107;32;116;114;97;99;101]%N; PRaw [58%N]].
Lemma stack_p_str : line_str stack_p = s_stack. Proof. reflexivity. Qed.
Definition trace_plines (c : tcfg) (ind : Z) (fs : list frame) : list pline :=
  let stack := kept_frames c fs in
  let remaining := (zlen stack - 1)%Z in
  if t_verbose c && negb (remaining =? 0)%Z
  then rl_plines ind stack_p true 0 ++ colls_plines c ind (zlen (dec_text remaining)) (compact stack) remaining
  else [].
Theorem trace_plines_w c ind fs : render_trace c ind fs = Ok (map pline_w (trace_plines c ind fs)).
Proof.
  unfold render_trace, trace_plines. cbv zeta. destruct (t_verbose c && negb (zlen (kept_frames c fs) - 1 =? 0)%Z); [|reflexivity].
  rewrite colls_plines_w. cbn [bind]. rewrite map_app, rl_plines_w, stack_p_str. reflexivity.
Qed.
(* ---- the snippet of the failing frame ---- *)
Definition snippet_plines (c : tcfg) (ind : Z) (f : frame) : list pline :=
  rl_plines ind (at_pieces c f) true 0 ++ flat_map (fun lp => rl_plines (ind + 2) lp false 0) (snippet_of_p c (f_content f) (f_lineno f) 4 4).
Theorem snippet_plines_w c ind f : render_snippet c ind f = Ok (map pline_w (snippet_plines c ind f)).
Proof.
  unfold render_snippet, snippet_plines. rewrite snippet_of_p_str. cbn [bind]. rewrite map_app, rl_plines_w, <- at_line_pieces.
  f_equal. f_equal. rewrite flat_map_map, map_flat_map. apply flat_map_ext. intros lp. now rewrite rl_plines_w.
Qed.

(* ---- they are good pieces ---- *)
Section Ok.
Variable sty : styles.
Hypothesis Hb : resolvable sty st_b.
Notation okl := (fun p : pline => pieces_ok sty (snd p)).
Lemma inl_ok tag s : In tag inline_tags -> piece_ok sty (PLit tag s).
Proof. intros H. split; [apply inline_tag_name, H|apply inline_resolvable, H]. Qed.
Lemma rl_plines_ok ind ps nl extra : pieces_ok sty ps -> Forall okl (rl_plines ind ps nl extra).
Proof.
  intros H. unfold rl_plines. apply Forall_app. split; [destruct nl; constructor; [constructor|constructor]|].
  constructor; [|constructor]. cbn [snd]. constructor; [apply safe_repeat32|exact H].
Qed.
Lemma lines_pieces_ok toks : Forall (pieces_ok sty) (lines_pieces toks).
Proof. unfold lines_pieces. apply Forall_map, Forall_forall. intros cs _. apply chunks_ok. Qed.
Lemma number_pieces_ok utf8 w mark i lp : pieces_ok sty lp -> pieces_ok sty (number_pieces utf8 w mark i lp).
Proof.
  intros H. unfold number_pieces. apply Forall_app. split.
  - destruct (mark =? i)%Z; repeat constructor; try discriminate; try (apply inline_tag_name; inline_in); try (apply inline_resolvable; inline_in).
  - apply Forall_app. split; [|exact H]. constructor; [destruct (mark =? i)%Z; apply inl_ok; inline_in|].
    constructor; [apply inl_ok; inline_in|]. constructor; [repeat constructor; discriminate|constructor].
Qed.
Lemma number_from_p_ok utf8 w mark : forall lps i, Forall (pieces_ok sty) lps -> Forall (pieces_ok sty) (number_from_p utf8 w mark i lps).
Proof.
  induction lps as [|lp r IH]; intros i H; [constructor|]. inversion H; subst. cbn [number_from_p]. constructor; [now apply number_pieces_ok|now apply IH].
Qed.
Lemma snippet_of_p_ok c content line before after : Forall (pieces_ok sty) (snippet_of_p c content line before after).
Proof.
  unfold snippet_of_p. destruct content; [|constructor|constructor]. unfold snippet_pieces. cbv zeta.
  apply Forall_firstn, Forall_skipn, number_from_p_ok, lines_pieces_ok.
Qed.
Lemma frame_text_p_ok f : pieces_ok sty (frame_text_p f).
Proof.
  assert (pieces_ok sty (plain_p f)) as Hp by (constructor; [split; [apply theme_tag_name|apply theme_resolvable]|constructor]).
  unfold frame_text_p. destruct (f_linetoks f) as [toks| |]; try exact Hp.
  pose proof (lines_pieces_ok toks) as H. destruct (lines_pieces toks); [exact Hp|now inversion H].
Qed.
Lemma frame_code_p_ok c ind w f : Forall okl (frame_code_p c ind w f).
Proof.
  unfold frame_code_p. destruct (t_debug c).
  - apply Forall_flat_map. eapply Forall_impl; [|apply snippet_of_p_ok]. intros lp Hlp. apply rl_plines_ok.
    constructor; [apply safe_rjust; safe_by_compute|exact Hlp].
  - apply rl_plines_ok. constructor; [apply safe_app; [apply safe_rjust; safe_by_compute|safe_by_compute]|apply frame_text_p_ok].
Qed.
Lemma frame_line_p_ok c w f i : pieces_ok sty (frame_line_p c w f i).
Proof.
  unfold frame_line_p. apply Forall_app. split; [|apply (loc_pieces_ok sty Hb); inline_in].
  constructor; [apply inl_ok; inline_in|]. constructor; [safe_by_compute|constructor].
Qed.
Lemma frames_plines_ok c ind w : forall fs i, Forall okl (fst (frames_plines c ind w fs i)).
Proof.
  induction fs as [|f r IH]; intros i; [constructor|]. cbn [frames_plines fst]. apply Forall_app. split; [apply rl_plines_ok, frame_line_p_ok|].
  apply Forall_app. split; [apply frame_code_p_ok|apply IH].
Qed.
Lemma fold_p_ok w n reps : pieces_ok sty (fold_p w n reps).
Proof.
  unfold fold_p. apply Forall_app. split; [constructor; [apply inl_ok; inline_in|constructor; [safe_by_compute|constructor]]|].
  apply Forall_app. split.
  - destruct (1 <? n)%Z; [constructor; [apply inl_ok; inline_in|constructor; [safe_by_compute|constructor]]|constructor; [safe_by_compute|constructor]].
  - constructor; [safe_by_compute|]. constructor; [apply inl_ok; inline_in|]. constructor; [safe_by_compute|constructor].
Qed.
Lemma colls_plines_ok c ind w : forall cs i, Forall okl (colls_plines c ind w cs i).
Proof.
  induction cs as [|cl r IH]; intros i; [constructor|]. cbn [colls_plines]. cbv zeta. apply Forall_app. split.
  - destruct (coll_repeated cl); [apply rl_plines_ok, fold_p_ok|constructor].
  - apply Forall_app. split; [apply frames_plines_ok|apply IH].
Qed.
Theorem trace_plines_ok c ind fs : Forall okl (trace_plines c ind fs).
Proof.
  unfold trace_plines. cbv zeta. destruct (t_verbose c && _); [|constructor]. apply Forall_app. split; [|apply colls_plines_ok].
  apply rl_plines_ok. constructor; [apply inl_ok; inline_in|]. constructor; [safe_by_compute|constructor].
Qed.
Theorem snippet_plines_ok c ind f : Forall okl (snippet_plines c ind f).
Proof.
  unfold snippet_plines. apply Forall_app. split; [apply rl_plines_ok, (at_pieces_ok sty c f Hb)|].
  apply Forall_flat_map. eapply Forall_impl; [|apply snippet_of_p_ok]. intros lp Hlp. now apply rl_plines_ok.
Qed.
End Ok.

(* ---- the report, with no piece left existential ---- *)
Theorem full_report_explicit_clikit c o x : clikit_output o -> (0 <= o_indent o)%Z -> x_frames x <> [] ->
  (decorated o = true -> inputs_ne c x) ->
  let ind := (o_indent o + 2)%Z in
  exists w, render c false o x = Ok (o_buf o ++ w) /\
    vis_of_out o w = report_text ind x (trace_plines c ind (x_frames x)) (snippet_plines c ind (last (x_frames x) dflt_frame)).
Proof.
  intros H Hi Hne Hin ind. destruct (clikit_output_ok o H) as (Ho & Herr & Hb). set (sty := f_styles (o_fmt o)) in *.
  set (tr_p := trace_plines c ind (x_frames x)). set (sn_p := snippet_plines c ind (last (x_frames x) dflt_frame)).
  set (mid := [(ind, []); (ind, name_pieces x); (ind, []); (ind, msg_pieces x)] : list pline).
  assert (render_lines c false (o_indent o) x = Ok (map pline_w (tr_p ++ mid ++ sn_p))) as HL.
  { unfold render_lines. fold ind. unfold render_exception. fold dflt_frame.
    destruct (x_frames x) as [|f0 fs] eqn:EF; [congruence|]. rewrite trace_plines_w, snippet_plines_w. cbn [bind].
    assert (map pline_w mid = render_line ind (name_line x) true 0 ++ [(ind, [])] ++ render_line ind (msg_line x) false 0) as Emid
      by (rewrite name_line_pieces, msg_line_pieces; reflexivity).
    rewrite !map_app, Emid. unfold name_line, msg_line. rewrite <- ?app_assoc. reflexivity. }
  destruct (write_lines_pieces_vis sty (tr_p ++ mid ++ sn_p) o Ho) as (o' & w & HW & _ & _ & _ & HB & HV).
  { apply Forall_app. split; [apply (trace_plines_ok sty Hb)|]. apply Forall_app. split; [|apply (snippet_plines_ok sty Hb)]. unfold mid.
    constructor; [constructor|]. constructor; [apply name_pieces_ok, Herr|]. constructor; [constructor|].
    constructor; [apply msg_pieces_ok, Hb|constructor]. }
  { intros Hd. apply pieces_lines_noesc. apply (lines_noesc c false (o_indent o) x _ (Hin Hd) HL). }
  exists w. split; [unfold render; rewrite HL; cbn [bind]; rewrite HW; cbn [bind]; now rewrite HB|].
  rewrite HV, !flat_map_app. unfold mid, report_text. cbn [flat_map].
  unfold name_pieces, msg_pieces. rewrite !shown_line_blank, !shown_line_named.
  destruct (Z.ltb_spec 0 ind) as [_|Hle]; [|unfold ind in Hle; lia]. rewrite <- ?app_assoc. cbn [app]. rewrite <- ?app_assoc. reflexivity.
Qed.
