(* Proofs about Model/Spinner2.v (C19 at the granularity of shared-state accesses): for EVERY schedule of the two
   threads' accesses to the stop event, the shared fields, the stream, the clock and join. *)
From Coq Require Import Lia.
From Clikit Require Import Base.Prelude Base.Res Base.Term Model.Spinner Model.Spinner2 Proofs.TermLemmas Proofs.SpinnerLemmas.

Ltac red2 := cbn [clock2 msg2 cur2 upd2 stop2 sp2 mp2 ph2 body2 writes2 skips2 set_st with_sp with_mp skipped] in *.

(* ---------- lits: what is left of the format is a suffix of it ---------- *)
Lemma lits_length acc rest : length (snd (lits acc rest)) <= length rest.
Proof. revert acc. induction rest as [|p r IH]; intros acc; cbn; [lia|]. destruct p; cbn; try lia. specialize (IH (acc ++ s)). lia. Qed.
Lemma lits_head acc rest : match snd (lits acc rest) with PLit _ :: _ => False | _ => True end.
Proof. revert acc. induction rest as [|p r IH]; intros acc; cbn; [exact I|]. destruct p; cbn; try exact I. apply IH. Qed.

(* ====================================================================================================================
   1. Leaving the automatic mode always stops and joins the spinner
   ==================================================================================================================== *)
Definition F (c : cfg) : nat := length (c_fmt c).
Definition exit_rank (x : mexit) : nat := match x with XRaise => 1 | XNormal => 3 end.
Fixpoint brank (f : nat) (b : list action) : nat :=
  match b with
  | [] => 7
  | ASet _ :: r => f + 4 + brank f r
  | AWork _ :: r => 1 + brank f r
  | ARaise :: _ => 4
  end.
Definition aft (f : nat) (s : st2) : nat :=
  match ph2 s with HBody => brank f (body2 s) | HRaiseNl => 3 | HEndFrame => 1 | HFinalNl => 0 | HFinished _ => 0 end.
Definition rank_main2 (f : nat) (s : st2) : nat :=
  match mp2 s with
  | MWrMsg _ => f + 3 + aft f s
  | MFmt _ rest => length rest + 2 + aft f s
  | MWrite _ => 1 + aft f s
  | MSleep _ => 1 + brank f (body2 s)
  | MRdStarted => 4 + exit_rank XNormal
  | MRdThread true x => 3 + exit_rank x
  | MSet x => 2 + exit_rank x
  | MRdThread false x => 1 + exit_rank x
  | MJoin x => exit_rank x
  | MDone => 0
  end.
Definition rank_sp2 (f : nat) (s : st2) : nat :=
  match sp2 s with
  | SIsSet => 1 | SSleep => 2 | SWrite _ => 3 | SFmt _ rest => length rest + 4 | SWrCur _ => f + 5 | SRdCur => f + 6
  | SWrUpd _ => f + 7 | SRdUpd _ => f + 8 | SRdStarted => f + 9 | SDone => 0
  end.

(* which exit the caller is on agrees with its phase; once the stop event is set it stays set; after join the spinner is gone *)
Definition coherent (s : st2) : Prop :=
  match mp2 s with
  | MRdStarted | MRdThread _ XNormal | MSet XNormal | MJoin XNormal => ph2 s = HBody /\ body2 s = []
  | MRdThread _ XRaise | MSet XRaise | MJoin XRaise => ph2 s = HRaiseNl
  | MSleep _ | MWrMsg _ | MFmt _ _ => ph2 s = HBody
  | MWrite _ => match ph2 s with HFinished _ => False | _ => True end
  | MDone => exists r, ph2 s = HFinished r
  end.
Definition J2 (s : st2) : Prop :=
  coherent s /\
  (match mp2 s with MRdThread false _ | MJoin _ => stop2 s = true | _ => True end) /\
  (match ph2 s with HEndFrame | HFinalNl | HFinished _ => sp2 s = SDone /\ stop2 s = true | _ => True end).

Lemma next_action_J2 s : ph2 s = HBody -> J2 (next_action s).
Proof.
  intros Hp. unfold next_action. destruct (body2 s) as [|[m|d|] r]; unfold J2, coherent; red2; repeat split; auto.
Qed.
Lemma mfmt_next_cases acc rest :
  (exists t, mfmt_next acc rest = MWrite (Some t)) \/
  (exists acc' rest', mfmt_next acc rest = MFmt acc' rest' /\ length rest' <= length rest).
Proof.
  unfold mfmt_next. pose proof (lits_length acc rest) as Hl. destruct (lits acc rest) as [a r]. cbn in Hl.
  destruct r; [left; eauto|right; eauto].
Qed.
Lemma sfmt_next_cases acc rest :
  (exists t, sfmt_next acc rest = SWrite t) \/
  (exists acc' rest', sfmt_next acc rest = SFmt acc' rest' /\ length rest' <= length rest).
Proof.
  unfold sfmt_next. pose proof (lits_length acc rest) as Hl. destruct (lits acc rest) as [a r]. cbn in Hl.
  destruct r; [left; eauto|right; eauto].
Qed.

Lemma step_spinner2_J2 c s : J2 s -> J2 (step_spinner2 c s).
Proof.
  intros (Hc & Hs & Hp). unfold step_spinner2.
  destruct (sp2 s) as [| |now|now| |k|acc [|[x| |] r]|t| |] eqn:E; unfold J2, coherent in *; red2; repeat split; auto;
    try (destruct (ph2 s); try exact I; destruct Hp as [Hp1 Hp2]; congruence).
  rewrite E. exact Hp.
Qed.

Ltac j2solve := unfold J2, coherent; red2;
  repeat match goal with
  | H : _ /\ _ |- _ => destruct H
  | H : ph2 _ = _ |- _ => rewrite H in *
  | H : mp2 _ = _ |- _ => rewrite H in *
  | H : body2 _ = _ |- _ => rewrite H in *
  | H : sp2 _ = _ |- _ => rewrite H in *
  | H : stop2 _ = _ |- _ => rewrite H in *
  end; repeat split; eauto; try tauto; try congruence.

Lemma step_main2_J2 c s : J2 s -> J2 (step_main2 c s).
Proof.
  intros HJ. unfold J2, coherent in HJ. destruct HJ as (Hc & Hs & Hp). unfold step_main2.
  destruct (mp2 s) as [m|acc [|[x| |] r]|t|d| |[|] x|x|x|] eqn:E; red2.
  - (* MWrMsg *) destruct (mfmt_next_cases [] (c_fmt c)) as [[t ->]|(a & r & -> & _)]; j2solve.
  - j2solve.
  - destruct (mfmt_next_cases (acc ++ x) r) as [[t ->]|(a & r' & -> & _)]; j2solve.
  - destruct (mfmt_next_cases (acc ++ [indicator2 (c_values c) (cur2 s)]) r) as [[t ->]|(a & r' & -> & _)]; j2solve.
  - destruct (mfmt_next_cases (acc ++ msg2 s) r) as [[t ->]|(a & r' & -> & _)]; j2solve.
  - (* MWrite *) unfold after_write; red2. destruct (ph2 s) eqn:Ep; try contradiction.
    + apply next_action_J2. red2. first [reflexivity | assumption].
    + j2solve.
    + j2solve.
    + j2solve.
  - (* MSleep *) apply next_action_J2. red2. first [reflexivity | assumption].
  - j2solve.
  - destruct x; j2solve.
  - destruct x; j2solve.
  - (* MSet *) destruct x; j2solve.
  - (* MJoin *) destruct (sp2 s) eqn:Es; try (j2solve; fail).
    destruct x; j2solve.
  - j2solve.
Qed.

Lemma run_schedule2_J2 c sched : forall s, J2 s -> J2 (run_schedule2 c s sched).
Proof.
  induction sched as [|b r IH]; intros s H; cbn; [exact H|]. apply IH. destruct b; cbn; [apply step_spinner2_J2|apply step_main2_J2]; exact H.
Qed.
Lemma init2_J2 c t0 sm acts : J2 (init2 c t0 sm acts).
Proof. unfold init2. apply next_action_J2. reflexivity. Qed.

(* what is left of the format in a frame under construction is never longer than the format *)
Definition B2 (c : cfg) (s : st2) : Prop :=
  (match mp2 s with MFmt _ r => length r <= F c | _ => True end) /\ (match sp2 s with SFmt _ r => length r <= F c | _ => True end).
Lemma next_action_B2 c s : (match sp2 s with SFmt _ r => length r <= F c | _ => True end) -> B2 c (next_action s).
Proof. intros H. unfold next_action, B2. destruct (body2 s) as [|[m|d|] r]; red2; split; auto. Qed.
Lemma step2_B2 c s b : B2 c s -> B2 c (step2 c s b).
Proof.
  intros [Hm Hs]. destruct b; cbn [step2].
  - unfold step_spinner2. destruct (sp2 s) as [| |now|now| |k|acc [|[x| |] r]|t| |] eqn:E; unfold B2; red2; try rewrite E; try (split; auto; fail).
    + split; auto. destruct (stop2 s); exact I.
    + split; auto. destruct (now <? upd2 s)%Z; exact I.
    + destruct (sfmt_next_cases [] (c_fmt c)) as [[t ->]|(a & r & -> & Hl)]; split; auto.
    + destruct (sfmt_next_cases (acc ++ x) r) as [[t ->]|(a & r' & -> & Hl)]; split; auto. cbn in Hs. lia.
    + destruct (sfmt_next_cases (acc ++ [indicator2 (c_values c) (cur2 s)]) r) as [[t ->]|(a & r' & -> & Hl)]; split; auto. cbn in Hs. lia.
    + destruct (sfmt_next_cases (acc ++ msg2 s) r) as [[t ->]|(a & r' & -> & Hl)]; split; auto. cbn in Hs. lia.
  - unfold step_main2. destruct (mp2 s) as [m|acc [|[x| |] r]|t|d| |[|] x|x|x|] eqn:E; try (unfold B2; red2; try rewrite E; split; auto; fail).
    + unfold B2; red2. destruct (mfmt_next_cases [] (c_fmt c)) as [[t ->]|(a & r & -> & Hl)]; split; auto.
    + unfold B2; red2. destruct (mfmt_next_cases (acc ++ x) r) as [[t ->]|(a & r' & -> & Hl)]; split; auto. cbn in Hm. lia.
    + unfold B2; red2. destruct (mfmt_next_cases (acc ++ [indicator2 (c_values c) (cur2 s)]) r) as [[t ->]|(a & r' & -> & Hl)]; split; auto. cbn in Hm. lia.
    + unfold B2; red2. destruct (mfmt_next_cases (acc ++ msg2 s) r) as [[t ->]|(a & r' & -> & Hl)]; split; auto. cbn in Hm. lia.
    + unfold after_write; red2. destruct (ph2 s); try (apply next_action_B2; red2; exact Hs); unfold B2; red2; split; auto.
    + apply next_action_B2; red2; exact Hs.
    + destruct (sp2 s) eqn:Es; try (unfold B2; red2; rewrite ?E, ?Es; split; auto; fail).
      destruct x; unfold B2; red2; rewrite ?Es; split; auto.
Qed.
Lemma run_schedule2_B2 c sched : forall s, B2 c s -> B2 c (run_schedule2 c s sched).
Proof. induction sched as [|b r IH]; intros s H; cbn; [exact H|]. apply IH, step2_B2, H. Qed.
Lemma init2_B2 c t0 sm acts : B2 c (init2 c t0 sm acts).
Proof. unfold init2. apply next_action_B2. exact I. Qed.

(* ---------- termination of the exit path: a measure that every step of the completion decreases ---------- *)
Lemma next_action_rank f s k : ph2 s = HBody -> 1 + brank f (body2 s) <= k -> rank_main2 f (next_action s) < k.
Proof.
  intros Hp Hk. unfold next_action. destruct (body2 s) as [|[m|d|] r]; unfold rank_main2, aft; red2; cbn [brank exit_rank] in *; lia.
Qed.
Lemma next_action_sp s : sp2 (next_action s) = sp2 s.
Proof. unfold next_action. destruct (body2 s) as [|[m|d|] r]; reflexivity. Qed.

Lemma step_main2_rank c s : J2 s -> B2 c s -> main_blocked2 s = false ->
  rank_main2 (F c) (step_main2 c s) < rank_main2 (F c) s /\ sp2 (step_main2 c s) = sp2 s.
Proof.
  intros HJ [Hb _] Hblk. unfold J2, coherent in HJ. destruct HJ as (Hc & Hs & Hp). unfold step_main2, main_blocked2 in *.
  destruct (mp2 s) as [m|acc [|[x| |] r]|t|d| |[|] x|x|x|] eqn:E.
  - destruct (mfmt_next_cases [] (c_fmt c)) as [[t Ht]|(a & r & Ht & Hl)]; rewrite Ht; unfold rank_main2, aft; red2; rewrite E; split; auto; fold (F c) in *; lia.
  - unfold rank_main2, aft; red2; rewrite E; split; auto; cbn; lia.
  - destruct (mfmt_next_cases (acc ++ x) r) as [[t Ht]|(a & r' & Ht & Hl)]; rewrite Ht; unfold rank_main2, aft; red2; rewrite E; split; auto; cbn [length]; lia.
  - destruct (mfmt_next_cases (acc ++ [indicator2 (c_values c) (cur2 s)]) r) as [[t Ht]|(a & r' & Ht & Hl)]; rewrite Ht; unfold rank_main2, aft; red2; rewrite E; split; auto; cbn [length]; lia.
  - destruct (mfmt_next_cases (acc ++ msg2 s) r) as [[t Ht]|(a & r' & Ht & Hl)]; rewrite Ht; unfold rank_main2, aft; red2; rewrite E; split; auto; cbn [length]; lia.
  - (* MWrite *) unfold after_write; red2. destruct (ph2 s) eqn:Ep; try contradiction.
    + split; [|rewrite next_action_sp; reflexivity]. apply next_action_rank; [red2; first [reflexivity|assumption]|].
      unfold rank_main2, aft. rewrite E, Ep. red2. lia.
    + unfold rank_main2, aft; red2; rewrite E, Ep; cbn; split; auto.
    + unfold rank_main2, aft; red2; rewrite E, Ep; cbn; split; auto.
    + unfold rank_main2, aft; red2; rewrite E, Ep; cbn; split; auto.
  - (* MSleep *) split; [|rewrite next_action_sp; reflexivity]. apply next_action_rank; [red2; first [reflexivity|assumption]|].
    unfold rank_main2. rewrite E. red2. lia.
  - unfold rank_main2; red2; rewrite E; cbn; split; auto.
  - unfold rank_main2; red2; rewrite E; cbn; split; auto.
  - unfold rank_main2; red2; rewrite E; cbn; split; auto.
  - unfold rank_main2; red2; rewrite E; cbn; split; auto.
  - (* MJoin, not blocked: the spinner has ended *)
    destruct (sp2 s) eqn:Es; try discriminate. destruct x; unfold rank_main2, aft; red2; rewrite E; cbn; split; auto.
  - discriminate.
Qed.

Lemma step_spinner2_rank c s : J2 s -> B2 c s -> main_blocked2 s = true -> all_done2 s = false ->
  rank_sp2 (F c) (step_spinner2 c s) < rank_sp2 (F c) s /\
  mp2 (step_spinner2 c s) = mp2 s /\ ph2 (step_spinner2 c s) = ph2 s /\ body2 (step_spinner2 c s) = body2 s.
Proof.
  intros HJ [_ Hb] Hblk Hnd. unfold J2, coherent in HJ. destruct HJ as (Hc & Hs & Hp).
  assert (Hstop : stop2 s = true /\ sp2 s <> SDone).
  { unfold main_blocked2, all_done2 in *. destruct (mp2 s) eqn:E; try discriminate.
    - split; [exact Hs|]. intros H. rewrite H in Hblk. discriminate.
    - destruct Hc as [r Hr]. rewrite Hr in Hp. destruct Hp as [Hp1 Hp2]. rewrite Hp1 in Hnd. discriminate. }
  destruct Hstop as [Hst Hne]. unfold step_spinner2.
  destruct (sp2 s) as [| |now|now| |k|acc [|[x| |] r]|t| |] eqn:E; try congruence; unfold rank_sp2; red2; rewrite ?E.
  - rewrite Hst. red2. repeat split; auto.
  - repeat split; auto; lia.
  - destruct (now <? upd2 s)%Z; repeat split; auto; lia.
  - repeat split; auto; lia.
  - repeat split; auto; lia.
  - destruct (sfmt_next_cases [] (c_fmt c)) as [[t ->]|(a & r & -> & Hl)]; repeat split; auto; fold (F c) in *; lia.
  - repeat split; auto; cbn; lia.
  - destruct (sfmt_next_cases (acc ++ x) r) as [[t ->]|(a & r' & -> & Hl)]; repeat split; auto; cbn [length]; lia.
  - destruct (sfmt_next_cases (acc ++ [indicator2 (c_values c) (cur2 s)]) r) as [[t ->]|(a & r' & -> & Hl)]; repeat split; auto; cbn [length]; lia.
  - destruct (sfmt_next_cases (acc ++ msg2 s) r) as [[t ->]|(a & r' & -> & Hl)]; repeat split; auto; cbn [length]; lia.
  - repeat split; auto.
  - repeat split; auto.
Qed.

Definition rank2 (c : cfg) (s : st2) : nat := rank_main2 (F c) s + rank_sp2 (F c) s.
Lemma rank_main2_indep f s s' : mp2 s' = mp2 s -> ph2 s' = ph2 s -> body2 s' = body2 s -> rank_main2 f s' = rank_main2 f s.
Proof. intros H1 H2 H3. unfold rank_main2, aft. rewrite H1, H2, H3. reflexivity. Qed.
Lemma rank_sp2_indep f s s' : sp2 s' = sp2 s -> rank_sp2 f s' = rank_sp2 f s.
Proof. intros H. unfold rank_sp2. rewrite H. reflexivity. Qed.

Lemma complete2_done c : forall fuel s, J2 s -> B2 c s -> rank2 c s <= fuel ->
  all_done2 (complete2 c fuel s) = true /\ J2 (complete2 c fuel s).
Proof.
  induction fuel as [|fuel IH]; intros s HJ HB Hr.
  - cbn. split; [|exact HJ]. unfold rank2 in Hr.
    assert (rank_main2 (F c) s = 0 /\ rank_sp2 (F c) s = 0) as [Hm Hs] by lia.
    unfold all_done2. unfold rank_main2, rank_sp2 in *. destruct (mp2 s) as [| | | | |[|] x|x|x|], (sp2 s); try destruct x; cbn in *; try lia; reflexivity.
  - cbn [complete2]. destruct (all_done2 s) eqn:Ed; [split; assumption|].
    destruct (main_blocked2 s) eqn:Eb.
    + destruct (step_spinner2_rank c s HJ HB Eb Ed) as (H1 & H2 & H3 & H4).
      apply IH; [apply step_spinner2_J2, HJ|apply (step2_B2 c s true HB)|].
      unfold rank2 in *. rewrite (rank_main2_indep _ _ _ H2 H3 H4). lia.
    + destruct (step_main2_rank c s HJ HB Eb) as (H1 & H2).
      apply IH; [apply step_main2_J2, HJ|apply (step2_B2 c s false HB)|].
      unfold rank2 in *. rewrite (rank_sp2_indep _ _ _ H2). lia.
Qed.

Lemma brank_bound f b : brank f b <= (f + 4) * length b + 7.
Proof. induction b as [|[m|d|] r IH]; cbn [brank length]; nia. Qed.
Lemma rank2_bound c s : B2 c s -> rank2 c s <= fuel2 c s.
Proof.
  intros [Hm Hs]. unfold rank2, fuel2. fold (F c).
  assert (H1 : rank_main2 (F c) s <= (F c + 4) * length (body2 s) + F c + 11).
  { pose proof (brank_bound (F c) (body2 s)) as Hb. unfold rank_main2, aft.
    destruct (mp2 s) as [| | | | |[|] x|x|x|]; try destruct x; destruct (ph2 s); cbn [exit_rank]; lia. }
  assert (H2 : rank_sp2 (F c) s <= F c + 9).
  { unfold rank_sp2. destruct (sp2 s); lia. }
  nia.
Qed.

(* whether the block is left by an exception is decided by the body alone *)
Definition RZ2 (hr : bool) (s : st2) : Prop :=
  match ph2 s with
  | HBody => has_raise (body2 s) = hr
  | HRaiseNl => hr = true
  | HEndFrame | HFinalNl => hr = false
  | HFinished r => r = hr
  end.
Lemma next_action_RZ2 hr s : ph2 s = HBody -> has_raise (body2 s) = hr -> RZ2 hr (next_action s).
Proof.
  intros Hp Hb. unfold next_action, RZ2. destruct (body2 s) as [|[m|d|] r]; red2; cbn in Hb; auto.
Qed.
Lemma step2_RZ2 c hr s b : J2 s -> RZ2 hr s -> RZ2 hr (step2 c s b).
Proof.
  intros HJ H. unfold J2, coherent in HJ. destruct HJ as (Hc & _ & _). destruct b; cbn [step2].
  - unfold step_spinner2, RZ2 in *. destruct (sp2 s) as [| |now|now| |k|acc [|[x| |] r]|t| |]; red2; exact H.
  - unfold step_main2. destruct (mp2 s) as [m|acc [|[x| |] r]|t|d| |[|] x|x|x|] eqn:E; try (unfold RZ2 in *; red2; exact H).
    + unfold after_write; red2. unfold RZ2 in H. destruct (ph2 s) eqn:Ep; try contradiction.
      * apply next_action_RZ2; red2; auto.
      * unfold RZ2; red2; exact H.
      * unfold RZ2; red2; exact H.
      * unfold RZ2; red2; auto.
    + unfold RZ2 in H. rewrite Hc in H. apply next_action_RZ2; red2; auto.
    + destruct (sp2 s); try (unfold RZ2 in *; red2; exact H).
      unfold RZ2 in *. destruct x; red2.
      * destruct Hc as [Hc1 Hc2]. rewrite Hc1, Hc2 in H. cbn in H. congruence.
      * rewrite Hc in H. congruence.
Qed.
Lemma run_schedule2_JRZ c hr sched : forall s, J2 s -> RZ2 hr s -> RZ2 hr (run_schedule2 c s sched).
Proof.
  induction sched as [|b r IH]; intros s HJ H; cbn; [exact H|]. apply IH.
  - destruct b; cbn; [apply step_spinner2_J2|apply step_main2_J2]; exact HJ.
  - apply step2_RZ2; assumption.
Qed.
Lemma complete2_RZ2 c hr : forall fuel s, J2 s -> RZ2 hr s -> RZ2 hr (complete2 c fuel s).
Proof.
  induction fuel as [|fuel IH]; intros s HJ H; cbn; [exact H|]. destruct (all_done2 s); [exact H|].
  destruct (main_blocked2 s).
  - apply IH; [apply step_spinner2_J2, HJ|apply (step2_RZ2 c hr s true HJ H)].
  - apply IH; [apply step_main2_J2, HJ|apply (step2_RZ2 c hr s false HJ H)].
Qed.

Lemma auto2_always_stops c t0 sm acts sched :
  let f := run_auto2 c t0 sm acts sched in
  all_done2 f = true /\ stop2 f = true /\ sp2 f = SDone /\ ph2 f = HFinished (has_raise acts).
Proof.
  cbv zeta. unfold run_auto2.
  set (s := run_schedule2 c (init2 c t0 sm acts) sched).
  assert (HJ : J2 s) by (apply run_schedule2_J2, init2_J2).
  assert (HB : B2 c s) by (apply run_schedule2_B2, init2_B2).
  destruct (complete2_done c (fuel2 c s) s HJ HB (rank2_bound c s HB)) as [Hd HJ'].
  assert (HR : RZ2 (has_raise acts) (complete2 c (fuel2 c s) s)).
  { apply complete2_RZ2; [exact HJ|]. apply run_schedule2_JRZ; [apply init2_J2|]. unfold init2. apply next_action_RZ2; reflexivity. }
  unfold all_done2 in Hd. unfold J2, coherent in HJ'. destruct HJ' as (Hc & _ & Hp).
  destruct (mp2 (complete2 c (fuel2 c s) s)) eqn:Em; try discriminate.
  destruct (sp2 (complete2 c (fuel2 c s) s)) eqn:Es; try discriminate.
  destruct Hc as [r Hr]. rewrite Hr in Hp. destruct Hp as [_ Hst]. unfold RZ2 in HR. rewrite Hr in HR. subst r.
  unfold all_done2. rewrite Em, Es. auto.
Qed.

(* ====================================================================================================================
   2. Every write is a whole frame or a line break
   A frame is the format with every {indicator} replaced by ONE OF THE INDICATOR VALUES and every {message} by a message
   (one of those with property P - the start message, the end message, the messages the body sets).  With the fields read
   one at a time the indicator and the message of one frame may come from different moments; text of two frames is never
   mixed, and nothing but a whole frame (or the line break) ever reaches the stream in one write.
   ==================================================================================================================== *)
Section Built.
Variable c : cfg.
Variable P : str -> Prop.
Fixpoint built (f : list piece) (t : str) : Prop :=
  match f with
  | [] => t = []
  | PLit s :: r => exists t', t = s ++ t' /\ built r t'
  | PInd :: r => exists k t', t = indicator2 (c_values c) k :: t' /\ built r t'
  | PMsg :: r => exists m t', P m /\ t = m ++ t' /\ built r t'
  end.
Definition frame_ok (t : str) : Prop := built (c_fmt c) t.
(* a frame under construction: whatever completes the rest of the format completes the frame *)
Definition partial (acc : str) (rest : list piece) : Prop := forall t', built rest t' -> frame_ok (acc ++ t').

Lemma fill_built k m : P m -> forall f, built f (fill_fmt (c_values c) k m f).
Proof. intros Hm. induction f as [|[s| |] r IH]; cbn; eauto. Qed.
Lemma partial_start : partial [] (c_fmt c).
Proof. intros t' H. exact H. Qed.
Lemma partial_lit acc s r : partial acc (PLit s :: r) -> partial (acc ++ s) r.
Proof. intros H t' Ht. rewrite <- app_assoc. apply H. cbn. eauto. Qed.
Lemma partial_ind acc k r : partial acc (PInd :: r) -> partial (acc ++ [indicator2 (c_values c) k]) r.
Proof. intros H t' Ht. rewrite <- app_assoc. apply H. cbn. eauto. Qed.
Lemma partial_msg acc m r : P m -> partial acc (PMsg :: r) -> partial (acc ++ m) r.
Proof. intros Hm H t' Ht. rewrite <- app_assoc. apply H. cbn. eauto. Qed.
Lemma partial_done acc : partial acc [] -> frame_ok acc.
Proof. intros H. rewrite <- (app_nil_r acc). apply H. reflexivity. Qed.
Lemma lits_partial : forall rest acc, partial acc rest -> partial (fst (lits acc rest)) (snd (lits acc rest)).
Proof.
  induction rest as [|[s| |] r IH]; intros acc H; cbn; auto. apply IH, partial_lit, H.
Qed.

Definition sp_ok (p : sop) : Prop := match p with SFmt a r => partial a r | SWrite t => frame_ok t | _ => True end.
Definition wholeB (t : option str) : Prop := match t with Some x => frame_ok x | None => True end.
Definition mp_ok (p : cop) : Prop := match p with MFmt a r => partial a r | MWrite t => wholeB t | MWrMsg m => P m | _ => True end.
Lemma sfmt_next_ok acc rest : partial acc rest -> sp_ok (sfmt_next acc rest).
Proof.
  intros H. unfold sfmt_next. pose proof (lits_partial rest acc H) as Hl. destruct (lits acc rest) as [a r]. cbn in Hl.
  destruct r; cbn; [apply partial_done, Hl|exact Hl].
Qed.
Lemma mfmt_next_ok acc rest : partial acc rest -> mp_ok (mfmt_next acc rest).
Proof.
  intros H. unfold mfmt_next. pose proof (lits_partial rest acc H) as Hl. destruct (lits acc rest) as [a r]. cbn in Hl.
  destruct r; cbn; [apply partial_done, Hl|exact Hl].
Qed.

Definition W2 (s : st2) : Prop :=
  Forall (fun w => wholeB (snd w)) (writes2 s) /\ sp_ok (sp2 s) /\ mp_ok (mp2 s) /\ P (msg2 s) /\ Forall (act_ok P) (body2 s).
Hypothesis end_ok : P (c_end c).

Lemma writes2_snoc (l : list (bool * option str)) b t :
  Forall (fun w => wholeB (snd w)) l -> wholeB t -> Forall (fun w => wholeB (snd w)) (l ++ [(b, t)]).
Proof. intros H1 H2. apply Forall_app. split; [exact H1|]. constructor; [exact H2|constructor]. Qed.
Lemma next_action_W2 s : Forall (fun w => wholeB (snd w)) (writes2 s) -> sp_ok (sp2 s) -> P (msg2 s) -> Forall (act_ok P) (body2 s) ->
  W2 (next_action s).
Proof.
  intros H1 H2 H4 H5. unfold next_action, W2. destruct (body2 s) as [|[m|d|] r]; red2; repeat split; auto;
    inversion H5 as [|? ? Ha Hr]; subst; cbn in *; auto.
Qed.
Lemma step2_W2 s b : W2 s -> W2 (step2 c s b).
Proof.
  intros (H1 & H2 & H3 & H4 & H5). destruct b; cbn [step2].
  - unfold step_spinner2. destruct (sp2 s) as [| |now|now| |k|acc [|[x| |] r]|t| |] eqn:E; unfold W2; red2; cbn [sp_ok] in H2;
      repeat split; auto; try (rewrite E; cbn; auto; fail).
    + destruct (stop2 s); exact I.
    + destruct (now <? upd2 s)%Z; exact I.
    + apply sfmt_next_ok, partial_start.
    + apply partial_done, H2.
    + apply sfmt_next_ok, partial_lit, H2.
    + apply sfmt_next_ok, partial_ind, H2.
    + apply sfmt_next_ok, partial_msg; assumption.
    + apply writes2_snoc; assumption.
  - unfold step_main2. destruct (mp2 s) as [m|acc [|[x| |] r]|t|d| |[|] x|x|x|] eqn:E; cbn [mp_ok] in H3;
      try (unfold W2; red2; repeat split; auto; fail).
    + unfold W2; red2; repeat split; auto. apply mfmt_next_ok, partial_start.
    + unfold W2; red2; repeat split; auto. cbn. apply partial_done, H3.
    + unfold W2; red2; repeat split; auto. apply mfmt_next_ok, partial_lit, H3.
    + unfold W2; red2; repeat split; auto. apply mfmt_next_ok, partial_ind, H3.
    + unfold W2; red2; repeat split; auto. apply mfmt_next_ok, partial_msg; assumption.
    + unfold after_write; red2. destruct (ph2 s); try (apply next_action_W2; red2; auto using writes2_snoc);
        unfold W2; red2; repeat split; auto using writes2_snoc; cbn; auto.
    + apply next_action_W2; red2; auto.
    + destruct (sp2 s) eqn:Es; try (unfold W2; red2; rewrite ?E, ?Es; repeat split; auto; fail).
      destruct x; unfold W2; red2; rewrite ?Es; repeat split; auto. cbn. apply fill_built, end_ok.
    + unfold W2; red2. rewrite E. repeat split; auto.
Qed.
Lemma run_schedule2_W2 sched : forall s, W2 s -> W2 (run_schedule2 c s sched).
Proof. induction sched as [|b r IH]; intros s H; cbn; [exact H|]. apply IH, step2_W2, H. Qed.
Lemma complete2_W2 fuel : forall s, W2 s -> W2 (complete2 c fuel s).
Proof.
  induction fuel as [|f IH]; intros s H; cbn; [exact H|]. destruct (all_done2 s); [exact H|].
  apply IH. destruct (main_blocked2 s); [apply (step2_W2 s true H)|apply (step2_W2 s false H)].
Qed.
Lemma init2_W2 t0 sm acts : P sm -> Forall (act_ok P) acts -> W2 (init2 c t0 sm acts).
Proof.
  intros Hs Ha. unfold init2. apply next_action_W2; red2; auto; [|exact I]. constructor; [|constructor]. cbn. apply fill_built, Hs.
Qed.
Lemma all_writes2_built t0 sm acts sched : P sm -> Forall (act_ok P) acts ->
  Forall (fun w => wholeB (snd w)) (writes2 (run_auto2 c t0 sm acts sched)).
Proof. intros Hs Ha. unfold run_auto2. apply complete2_W2, run_schedule2_W2, init2_W2; assumption. Qed.
End Built.

(* a format with one {indicator} and one {message}: a frame is the format filled with one value and one message *)
Lemma built_indicator_message c P t : c_fmt c = [PLit [32%N]; PInd; PLit [32%N]; PMsg] -> frame_ok c P t ->
  exists k m, P m /\ t = fill_fmt (c_values c) k m (c_fmt c).
Proof.
  intros Hf H. unfold frame_ok in H. rewrite Hf in *. cbn in H.
  destruct H as (t1 & -> & k & t2 & -> & t3 & -> & m & t4 & Hm & -> & ->). exists k, m. split; [exact Hm|]. cbn. reflexivity.
Qed.

(* ====================================================================================================================
   3. On the terminal: the line never shows a mixture of two frames
   ==================================================================================================================== *)
Section Line2.
Variable w : nat.
Hypothesis w_pos : 1 <= w.
Variable Q : list N -> Prop.
Definition okQ (r : list N) : Prop := r = [] \/ Q r.
Definition shortQ (t : option str) : Prop := match t with Some f => Q f /\ length f <= w | None => True end.
(* after any sequence of writes that are each a short Q-text or a line break, every row is empty or one Q-text *)
Lemma rows_are_Q : forall ws R r c,
  Forall shortQ ws -> Forall okQ R -> okQ r ->
  Forall okQ (rows (feed w {| rows := R ++ [r]; cr := length R; cc := c |} (flat_map emits_of_write ws))).
Proof.
  induction ws as [|x ws IH]; intros R r c Hw HR Hr; cbn [flat_map].
  - cbn. apply Forall_app. split; [exact HR|]. constructor; [exact Hr|constructor].
  - inversion Hw as [|? ? Hx Hws]; subst. rewrite feed_app. destruct x as [f|].
    + destruct Hx as [Hq Hl]. rewrite (frame_replaces_line w w_pos R r c f Hl). apply (IH R f (length f)); auto. right. exact Hq.
    + cbn [emits_of_write]. unfold feed at 2. cbn [fold_left feed1 rows cr].
      replace (S (length R)) with (length (R ++ [r])) by (rewrite app_length; cbn; lia).
      rewrite upd_row_new. apply (IH (R ++ [r]) [] 0); auto.
      * apply Forall_app. split; [exact HR|]. constructor; [exact Hr|constructor].
      * left. reflexivity.
Qed.
End Line2.

Fixpoint fmt_width (L : nat) (f : list piece) : nat :=
  match f with
  | [] => 0
  | PLit s :: r => length s + fmt_width L r
  | PInd :: r => 1 + fmt_width L r
  | PMsg :: r => L + fmt_width L r
  end.
Lemma built_length c L : forall f t, built c (fun m => length m <= L) f t -> length t <= fmt_width L f.
Proof.
  induction f as [|[s| |] r IH]; intros t H; cbn in H.
  - subst. cbn. lia.
  - destruct H as (t' & -> & H). rewrite app_length. cbn. specialize (IH _ H). lia.
  - destruct H as (k & t' & -> & H). cbn. specialize (IH _ H). lia.
  - destruct H as (m & t' & Hm & -> & H). rewrite app_length. cbn. specialize (IH _ H). lia.
Qed.

Definition short_msg (L : nat) (m : str) : Prop := length m <= L.
Lemma line_never_mixed2_lemma w L c t0 sm acts sched n :
  1 <= w -> fmt_width L (c_fmt c) <= w -> short_msg L sm -> short_msg L (c_end c) -> Forall (act_ok (short_msg L)) acts ->
  Forall (okQ (frame_ok c (short_msg L)))
         (rows (feed w term_init (flat_map (fun x => emits_of_write (snd x)) (firstn n (writes2 (run_auto2 c t0 sm acts sched)))))).
Proof.
  intros Hw Hf Hs He Ha.
  pose proof (all_writes2_built c (short_msg L) He t0 sm acts sched Hs Ha) as HW.
  rewrite <- (firstn_skipn n (writes2 _)) in HW. apply Forall_app in HW. destruct HW as [HW _].
  rewrite <- flat_map_map.
  apply (rows_are_Q w Hw (frame_ok c (short_msg L)) (map snd (firstn n (writes2 (run_auto2 c t0 sm acts sched)))) [] [] 0).
  - apply Forall_map. eapply Forall_impl; [|exact HW]. intros [b [x|]]; cbn; auto. intros H. split; [exact H|].
    pose proof (built_length c L _ _ H). unfold short_msg in *. lia.
  - constructor.
  - left. reflexivity.
Qed.

(* ====================================================================================================================
   4. A normal exit leaves the end message as the last frame
   ==================================================================================================================== *)
Definition endframe (c : cfg) : str := fill_fmt (c_values c) 0 (c_end c) (c_fmt c).
Definition E2 (c : cfg) (s : st2) : Prop :=
  match ph2 s with
  | HEndFrame => mp2 s = MWrite (Some (endframe c))
  | HFinalNl => mp2 s = MWrite None /\ exists pre, writes2 s = pre ++ [(false, Some (endframe c))]
  | HFinished false => exists pre, writes2 s = pre ++ [(false, Some (endframe c)); (false, None)]
  | _ => True
  end.
Lemma step_spinner2_keeps c s :
  mp2 (step_spinner2 c s) = mp2 s /\ ph2 (step_spinner2 c s) = ph2 s /\ (sp2 s = SDone -> writes2 (step_spinner2 c s) = writes2 s).
Proof.
  unfold step_spinner2. destruct (sp2 s) as [| |now|now| |k|acc [|[x| |] r]|t| |]; red2; repeat split; auto; discriminate.
Qed.
Lemma next_action_E2 c s : E2 c (next_action s).
Proof. unfold next_action, E2. destruct (body2 s) as [|[m|d|] r]; red2; exact I. Qed.
Lemma step2_E2 c s b : J2 s -> E2 c s -> E2 c (step2 c s b).
Proof.
  intros HJ H. unfold J2, coherent in HJ. destruct HJ as (Hc & _ & Hp). destruct b; cbn [step2].
  - destruct (step_spinner2_keeps c s) as (H1 & H2 & H3). unfold E2 in *. rewrite H1, H2.
    destruct (ph2 s) as [| | | |[|]]; auto; destruct Hp as [Hp _]; rewrite (H3 Hp); exact H.
  - unfold step_main2. destruct (mp2 s) as [m|acc [|[x| |] r]|t|d| |[|] x|x|x|] eqn:E;
      try (unfold E2 in *; red2; rewrite Hc; exact I);
      try (unfold E2 in *; red2; destruct x; [destruct Hc as [Hc _]|]; rewrite Hc; exact I).
    + (* MWrite *) unfold after_write; red2. unfold E2 in H. destruct (ph2 s) eqn:Ep; try contradiction.
      * apply next_action_E2.
      * unfold E2; red2. exact I.
      * unfold E2; red2. rewrite E in H. injection H as ->. split; [reflexivity|]. eexists. reflexivity.
      * unfold E2; red2. destruct H as [Hm [pre Hw]]. rewrite E in Hm. injection Hm as ->. exists pre. rewrite Hw, <- app_assoc. reflexivity.
    + apply next_action_E2.
    + unfold E2 in *; red2. destruct Hc as [Hc _]. rewrite Hc. exact I.
    + destruct (sp2 s) eqn:Es; try (unfold E2 in *; red2; exact H).
      destruct x; unfold E2; red2; auto.
    + unfold E2 in *; red2. exact H.
Qed.
Lemma run_schedule2_JE2 c sched : forall s, J2 s -> E2 c s -> E2 c (run_schedule2 c s sched).
Proof.
  induction sched as [|b r IH]; intros s HJ H; cbn; [exact H|]. apply IH.
  - destruct b; cbn; [apply step_spinner2_J2|apply step_main2_J2]; exact HJ.
  - apply step2_E2; assumption.
Qed.
Lemma complete2_E2 c : forall fuel s, J2 s -> E2 c s -> E2 c (complete2 c fuel s).
Proof.
  induction fuel as [|fuel IH]; intros s HJ H; cbn; [exact H|]. destruct (all_done2 s); [exact H|].
  destruct (main_blocked2 s).
  - apply IH; [apply step_spinner2_J2, HJ|apply (step2_E2 c s true HJ H)].
  - apply IH; [apply step_main2_J2, HJ|apply (step2_E2 c s false HJ H)].
Qed.
Lemma normal_exit_last_frame2_lemma c t0 sm acts sched : has_raise acts = false ->
  exists pre, writes2 (run_auto2 c t0 sm acts sched) = pre ++ [(false, Some (endframe c)); (false, None)].
Proof.
  intros Hr. destruct (auto2_always_stops c t0 sm acts sched) as (_ & _ & _ & Hp). cbv zeta in Hp. rewrite Hr in Hp.
  assert (HE : E2 c (run_auto2 c t0 sm acts sched)).
  { unfold run_auto2. apply complete2_E2; [apply run_schedule2_J2, init2_J2|].
    apply run_schedule2_JE2; [apply init2_J2|]. unfold init2. apply next_action_E2. }
  unfold E2 in HE. rewrite Hp in HE. exact HE.
Qed.
Lemma normal_exit_screen2_lemma w L c t0 sm acts sched :
  1 <= w -> fmt_width L (c_fmt c) <= w -> short_msg L sm -> short_msg L (c_end c) -> Forall (act_ok (short_msg L)) acts ->
  has_raise acts = false ->
  exists R, rows (feed w term_init (flat_map (fun x => emits_of_write (snd x)) (writes2 (run_auto2 c t0 sm acts sched)))) = R ++ [endframe c; []].
Proof.
  intros Hw Hf Hs He Ha Hr.
  destruct (normal_exit_last_frame2_lemma c t0 sm acts sched Hr) as [pre Hp].
  pose proof (all_writes2_built c (short_msg L) He t0 sm acts sched Hs Ha) as HW.
  rewrite Hp in *. apply Forall_app in HW. destruct HW as [HW HW2].
  rewrite <- flat_map_map, map_app. cbn [map snd].
  apply (last_frame_shown w Hw).
  - apply Forall_map. eapply Forall_impl; [|exact HW]. intros [b [x|]]; cbn; auto. intros H.
    pose proof (built_length c L _ _ H). lia.
  - inversion HW2 as [|? ? H1 _]; subst. cbn in H1. pose proof (built_length c L _ _ H1). lia.
Qed.

(* ====================================================================================================================
   5. Manual mode with any values, format and interval
   ==================================================================================================================== *)
Fixpoint adv_times2 (c : cfg) (s : mst2) (now : Z) (ops : list (Z * Spinner.mop)) : list Z :=
  match ops with
  | [] => []
  | (dt, o) :: r =>
    let now' := (now + dt)%Z in
    (match o with MAdvance => if (now' <? n_upd s)%Z then [] else [now'] | _ => [] end)
    ++ adv_times2 c (manual_step2 c s now' o) now' r
  end.
Lemma adv_times2_spaced c : (0 <= c_interval c)%Z -> forall ops s now,
  Forall (fun t => n_upd s <= t)%Z (adv_times2 c s now ops) /\ spaced (c_interval c) (adv_times2 c s now ops).
Proof.
  intros Hiv. induction ops as [|[dt o] r IH]; intros s now; cbn [adv_times2]; [split; [constructor|exact I]|].
  destruct (IH (manual_step2 c s (now + dt)%Z o) (now + dt)%Z) as [Fa Sp].
  destruct o as [|m|m rs]; cbn [app]; try (cbn [manual_step2 n_upd] in Fa; split; assumption).
  cbn [manual_step2] in *. destruct (now + dt <? n_upd s)%Z eqn:Et; cbn [app n_upd] in *; [split; assumption|].
  apply Z.ltb_ge in Et. split.
  - constructor; [exact Et|]. eapply Forall_impl; [|exact Fa]. cbn. intros. lia.
  - destruct (adv_times2 c _ (now + dt)%Z r) as [|b l] eqn:El; [exact I|]. split; [|exact Sp].
    inversion Fa; subst. lia.
Qed.
(* every frame is the format filled with one indicator value and the message current at that call; the last one shows the
   current position and message *)
Definition mframe2 (c : cfg) (f : option str) : Prop :=
  match f with Some t => exists k m, t = fill_fmt (c_values c) k m (c_fmt c) | None => True end.
Definition MI2 (c : cfg) (s : mst2) : Prop :=
  Forall (mframe2 c) (n_frames s) /\
  exists pre, n_frames s = pre ++ [Some (fill_fmt (c_values c) (n_cur s) (n_msg s) (c_fmt c))] \/
              n_frames s = pre ++ [Some (fill_fmt (c_values c) (n_cur s) (n_msg s) (c_fmt c)); None].
Lemma manual_step2_MI2 c s now o : MI2 c s -> MI2 c (manual_step2 c s now o).
Proof.
  intros [HF [pre HP]]. destruct o as [|m|m rs]; cbn [manual_step2].
  - destruct (now <? n_upd s)%Z; [split; [exact HF|exists pre; exact HP]|]. split; cbn [n_frames n_cur n_msg].
    + apply Forall_app. split; [exact HF|]. constructor; [|constructor]. eexists _, _. reflexivity.
    + eexists. left. reflexivity.
  - split; cbn [n_frames n_cur n_msg].
    + apply Forall_app. split; [exact HF|]. constructor; [|constructor]. eexists _, _. reflexivity.
    + eexists. left. reflexivity.
  - split; cbn [n_frames n_cur n_msg].
    + apply Forall_app. split; [exact HF|]. constructor; [|constructor; [exact I|constructor]]. eexists _, _. reflexivity.
    + eexists. right. reflexivity.
Qed.
Lemma manual_run2_MI2 c : forall ops s now, MI2 c s -> MI2 c (manual_run2 c s now ops).
Proof. induction ops as [|[dt o] r IH]; intros s now H; cbn [manual_run2]; [exact H|]. apply IH, manual_step2_MI2, H. Qed.
Lemma manual_init2_MI2 c t0 m : MI2 c (manual_init2 c t0 m).
Proof.
  split; cbn.
  - constructor; [|constructor]. eexists _, _. reflexivity.
  - exists []. left. reflexivity.
Qed.
Lemma indicator2_in_values vals k : vals <> [] -> In (indicator2 vals k) vals.
Proof.
  intros H. unfold indicator2. apply nth_In. apply Nat.mod_upper_bound. destruct vals; [congruence|discriminate].
Qed.
