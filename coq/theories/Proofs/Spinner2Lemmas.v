(* Proofs about Model/Spinner2.v (C19 at the granularity of shared-state accesses). *)
From Coq Require Import Lia.
From Clikit Require Import Base.Prelude Base.Res Base.Term Model.Spinner Model.Spinner2 Proofs.TermLemmas Proofs.SpinnerLemmas.
