(* C03 (alias clause), parser side: two spellings of the command path are parsed alike.

   A command's format lists the command names of its path (ArgsFormat.get_command_names: one CommandName per
   non-anonymous command from the top, each with its aliases).  The parser turns them into pseudo-arguments "cmd<j><i>"
   in front of the real arguments; the leading tokens of the line land there as raw strings;
   _insert_missing_command_names then skips, for as long as they MATCH (CommandName.match: the name or any alias), the
   values against the command names, and re-aligns what is left; Args.set_argument finally drops every scratch entry
   that is not an argument of the format - the pseudo-arguments among them.  So a token in one of the first positions
   influences the result only through "is a plain token" and "matches the command name of its position": replacing it by
   another plain token that matches the same command name changes nothing - same arguments, same options, or the same
   error.  This file proves that, for every format with the well-formedness facts of C01 (SpellArgs.fmt_facts, which
   fmt_inv gives), every leniency, and an ARBITRARY rest of the line. *)
From Coq Require Import Lia.
From Clikit Require Import Base.Prelude Base.Res Model.Conv Model.Flags Model.Format Model.Parser Model.Spell
     Proofs.StrLemmas Proofs.FormatLemmas Proofs.ParserLemmas Proofs.SpellOpts Proofs.SpellArgs Proofs.FmtOkLemmas.

(* ================= the option branches do not look at the argument scratch map ================= *)
Definition with_args (pa : list (str * rawarg)) (s : pstate) : pstate := {| ps_args := pa; ps_opts := ps_opts s |}.
Definition lift_opt (pa : list (str * rawarg)) (r : res (pstate * list str)) : res (pstate * list str) :=
  match r with Ok (s, t) => Ok (with_args pa s, t) | Err k => Err k end.

Lemma add_long_args0 f st n v t st' t' : add_long_option f st n v t = Ok (st', t') -> ps_args st' = ps_args st.
Proof.
  unfold add_long_option. destruct (negb (has_option f n true)); [discriminate|].
  destruct (get_option f n true) as [o|k]; cbn [bind]; [|discriminate].
  destruct (match v with Some _ => negb (o_accepts o) | None => false end); [discriminate|].
  match goal with |- (let '(value, tokens) := ?X in _) = _ -> _ => destruct X as [v1 t1] end.
  destruct (match v1 with Some [] => None | x => x end) as [s|].
  - destruct (o_multi o); intros H; inversion H; reflexivity.
  - destruct (o_required o); [discriminate|]. destruct (o_multi o); [discriminate|]. intros H; inversion H; reflexivity.
Qed.
Lemma add_long_nf f st n v t :
  add_long_option f st n v t = lift_opt (ps_args st) (add_long_option f (with_args [] st) n v t).
Proof.
  unfold add_long_option. destruct (negb (has_option f n true)); [reflexivity|].
  destruct (get_option f n true) as [o|k]; cbn [bind]; [|reflexivity].
  destruct (match v with Some _ => negb (o_accepts o) | None => false end); [reflexivity|].
  match goal with |- (let '(value, tokens) := ?X in _) = _ => destruct X as [v1 t1] end.
  destruct (match v1 with Some [] => None | x => x end) as [s|].
  - destruct (o_multi o); reflexivity.
  - destruct (o_required o); [reflexivity|]. destruct (o_multi o); reflexivity.
Qed.
Lemma add_short_nf f st n v t :
  add_short_option f st n v t = lift_opt (ps_args st) (add_short_option f (with_args [] st) n v t).
Proof.
  unfold add_short_option. destruct (negb (has_option f n true)); [reflexivity|].
  destruct (get_option f n true) as [o|k]; cbn [bind]; [|reflexivity]. apply add_long_nf.
Qed.
Lemma parse_long_nf f st tok t :
  parse_long_option f st tok t = lift_opt (ps_args st) (parse_long_option f (with_args [] st) tok t).
Proof.
  unfold parse_long_option. destruct (split_eq (skipn 2 tok) []) as [[n v]|]; [apply add_long_nf|].
  destruct (accepts f (skipn 2 tok)); [|apply add_long_nf]. destruct (take_value t) as [v t1]. apply add_long_nf.
Qed.
Lemma with_args_twice pa pb s : with_args pa (with_args pb s) = with_args pa s.
Proof. reflexivity. Qed.
Lemma short_set_nf f : forall name st t,
  short_set f st name t =
  (lift_opt (ps_args st) (fst (short_set f (with_args [] st) name t)),
   with_args (ps_args st) (snd (short_set f (with_args [] st) name t))).
Proof.
  induction name as [|c rest IH]; intros st t; cbn [short_set].
  - destruct st; reflexivity.
  - destruct (negb (has_option f [c] true)); [destruct st; reflexivity|].
    destruct (get_option f [c] true) as [o|k]; [|destruct st; reflexivity].
    destruct (o_accepts o).
    + rewrite (add_long_nf f st). destruct (add_long_option f (with_args [] st) (o_long o) _ t) as [[s1 t1]|k]; cbn [lift_opt fst snd];
        [reflexivity|destruct st; reflexivity].
    + rewrite (add_long_nf f st). destruct (add_long_option f (with_args [] st) (o_long o) None t) as [[s1 t1]|k] eqn:E; cbn [lift_opt fst snd];
        [|destruct st; reflexivity].
      pose proof (add_long_args0 _ _ _ _ _ _ _ E) as Hs1. cbn [with_args ps_args] in Hs1.
      destruct s1 as [pa1 po1]. cbn [ps_args] in Hs1. subst pa1.
      rewrite (IH (with_args (ps_args st) {| ps_args := []; ps_opts := po1 |})). reflexivity.
Qed.
Lemma parse_short_nf f st tok t :
  parse_short_option f st tok t =
  (lift_opt (ps_args st) (fst (parse_short_option f (with_args [] st) tok t)),
   with_args (ps_args st) (snd (parse_short_option f (with_args [] st) tok t))).
Proof.
  unfold parse_short_option. destruct (skipn 1 tok) as [|c [|c2 rest]].
  - destruct st; reflexivity.
  - destruct (accepts f [c]).
    + destruct (take_value t) as [v t1]. rewrite (add_short_nf f st).
      destruct (add_short_option f (with_args [] st) [c] v t1) as [[s1 t2]|k]; cbn [lift_opt fst snd]; [reflexivity|destruct st; reflexivity].
    + rewrite (add_short_nf f st).
      destruct (add_short_option f (with_args [] st) [c] None t) as [[s1 t2]|k]; cbn [lift_opt fst snd]; [reflexivity|destruct st; reflexivity].
  - destruct (accepts f [c]).
    + rewrite (add_short_nf f st).
      destruct (add_short_option f (with_args [] st) [c] (Some (c2 :: rest)) t) as [[s1 t2]|k]; cbn [lift_opt fst snd];
        [reflexivity|destruct st; reflexivity].
    + apply short_set_nf.
Qed.

(* ================= association lists: a protected prefix ================= *)
Lemma sset_app_notin {V} k (v : V) pre X : ~ In k (map fst pre) -> sset k v (pre ++ X) = pre ++ sset k v X.
Proof.
  unfold sset. induction pre as [|[k1 v1] r IH]; cbn [app map fst aset]; intros H; [reflexivity|].
  destruct (str_eqb_spec k k1) as [->|Hn]; [exfalso; apply H; now left|]. rewrite IH by (intros Hi; apply H; now right). reflexivity.
Qed.
Lemma sget_app_notin {V} k (pre X : list (str * V)) : ~ In k (map fst pre) -> sget k (pre ++ X) = sget k X.
Proof. intros H. unfold sget. rewrite sget_app, (notin_sget_none k pre H). reflexivity. Qed.

Lemma nth_error_skipn' {X} (l : list X) : forall j i, nth_error (skipn j l) i = nth_error l (j + i).
Proof. induction l as [|x r IH]; intros [|j] i; cbn [skipn Nat.add]; try reflexivity; [now destruct i|apply IH]. Qed.
Lemma nth_error_firstn' {X} (l : list X) : forall j i, i < j -> nth_error (firstn j l) i = nth_error l i.
Proof.
  induction l as [|x r IH]; intros [|j] i H; cbn [firstn]; try reflexivity; try lia.
  destruct i as [|i]; [reflexivity|]. cbn [nth_error]. apply IH. lia.
Qed.
Lemma existsb_ext_in' {X} (p q : X -> bool) l : (forall x, In x l -> p x = q x) -> existsb p l = existsb q l.
Proof.
  induction l as [|x r IH]; intros H; [reflexivity|]. cbn [existsb]. rewrite (H x) by (now left). f_equal. apply IH.
  intros y Hy. apply H. now right.
Qed.
Lemma nodup_app_disjoint {X} (l1 l2 : list X) : NoDup (l1 ++ l2) -> forall x, In x l1 -> In x l2 -> False.
Proof.
  induction l1 as [|a r IH]; cbn [app]; intros H x H1 H2; [destruct H1|]. inversion H as [|? ? Ha Hr]; subst.
  destruct H1 as [->|H1]; [apply Ha, in_or_app; now right|eapply IH; eauto].
Qed.

(* ================= _parse_argument with a protected prefix ================= *)
Section Frame.
  Variables (g : fmt) (A : list (str * arg)).
  Hypothesis HA : get_arguments_all g = A.
  Hypothesis Hnm : Forall (fun na => fst na = a_name (snd na)) A.
  Hypothesis Hnd : NoDup (map fst A).
  (* the prefixes: the scratch entries of the first j arguments, none of them multi-valued *)
  Variable j : nat.
  Hypothesis Hsingle : Forall (fun na => a_multi (snd na) = false) (firstn j A).
  Hypothesis Hj : j <= length A.

  Definition is_prefix (pre : list (str * rawarg)) : Prop := map fst pre = firstn j (map fst A).

  Lemma prefix_len pre : is_prefix pre -> length pre = j.
  Proof. intros H. rewrite <- (map_length fst pre), H, firstn_length, map_length. lia. Qed.

  (* the argument at a position >= j has a name outside the prefix *)
  Lemma later_name pre c n a : is_prefix pre -> j <= c -> nth_error A c = Some (n, a) ->
    a_name a = n /\ ~ In n (map fst pre).
  Proof.
    intros Hp Hc Hn. split.
    - rewrite Forall_forall in Hnm. symmetry. apply (Hnm (n, a)). eapply nth_error_In; eauto.
    - rewrite Hp. intros Hi. rewrite <- (firstn_skipn j (map fst A)) in Hnd. pose proof (nodup_app_disjoint _ _ Hnd) as Hdis.
      assert (In n (skipn j (map fst A))) as Hs.
      { rewrite skipn_map. change n with (fst (n, a)). apply in_map.
        apply (nth_error_In _ (c - j)). rewrite nth_error_skipn'. replace (j + (c - j)) with c by lia. exact Hn. }
      exact (Hdis n Hi Hs).
  Qed.

  Definition lift_arg (pre : list (str * rawarg)) (po : list (str * rawopt)) (r : res (list (str * rawarg))) : res pstate :=
    match r with Ok X => Ok {| ps_args := pre ++ X; ps_opts := po |} | Err k => Err k end.

  Lemma parse_argument_frame len X po tok : exists R, forall pre, is_prefix pre ->
    parse_argument g len {| ps_args := pre ++ X; ps_opts := po |} tok = lift_arg pre po R.
  Proof.
    set (c := j + length X).
    assert (forall pre, is_prefix pre -> length (pre ++ X) = c) as Hlen.
    { intros pre Hp. rewrite app_length, (prefix_len pre Hp). reflexivity. }
    destruct (nth_error A c) as [[n a]|] eqn:E1.
    - (* the next argument: set it, or append to it *)
      exists (Ok (if a_multi a then sset n (RList ((match sget n X with Some (RList l) => l | _ => [] end) ++ [tok])) X
                  else sset n (RStr tok) X)).
      intros pre Hp. destruct (later_name pre c n a Hp ltac:(lia) E1) as [Hna Hnot].
      rewrite (parse_argument_at g len _ tok n a) by (cbn [ps_args]; rewrite HA, (Hlen pre Hp); exact E1).
      rewrite Hna. unfold append_arg. cbn [ps_args ps_opts lift_arg].
      rewrite (sget_app_notin n pre X Hnot). destruct (a_multi a); rewrite (sset_app_notin _ _ pre X Hnot); reflexivity.
    - apply nth_error_None in E1.
      destruct c as [|c'] eqn:Ec.
      + (* no argument at all *)
        exists (if len then Ok X else Err CannotParse). intros pre Hp.
        unfold parse_argument, has_argument. cbn [get_arguments ps_args]. rewrite HA, (Hlen pre Hp).
        assert (length A = 0) as -> by lia. cbn. destruct len; reflexivity.
      + destruct (Nat.eq_dec (length A) (S c')) as [El|Nl].
        * (* one past the last argument: append to it when it is multi-valued *)
          destruct (nth_error A c') as [[n a]|] eqn:E2; [|apply nth_error_None in E2; lia].
          destruct (a_multi a) eqn:Hm.
          -- assert (j <= c') as Hjc.
             { destruct (le_lt_dec j c') as [|Hlt]; [assumption|exfalso].
               rewrite Forall_forall in Hsingle. specialize (Hsingle (n, a)). cbn [snd] in Hsingle.
               rewrite Hsingle in Hm; [discriminate|]. apply (nth_error_In _ c'). rewrite nth_error_firstn'; [exact E2|lia]. }
             exists (Ok (sset n (RList ((match sget n X with Some (RList l) => l | _ => [] end) ++ [tok])) X)).
             intros pre Hp. destruct (later_name pre c' n a Hp Hjc E2) as [Hna Hnot].
             rewrite (parse_argument_last g len _ tok c' n a); [| cbn [ps_args]; exact (Hlen pre Hp) | rewrite HA; exact El | rewrite HA; exact E2 | exact Hm].
             rewrite Hna. unfold append_arg. cbn [ps_args ps_opts lift_arg].
             rewrite (sget_app_notin n pre X Hnot), (sset_app_notin _ _ pre X Hnot). reflexivity.
          -- exists (if len then Ok X else Err CannotParse). intros pre Hp.
             unfold parse_argument, has_argument, get_argument. cbn [get_arguments ps_args]. rewrite HA, (Hlen pre Hp), El.
             destruct (Z.ltb_spec (Z.of_nat (S c')) (Z.of_nat (S c'))); [lia|]. rewrite andb_false_r.
             destruct (Z.leb_spec 0 (Z.of_nat (S c') - 1)); [|lia].
             destruct (Z.ltb_spec (Z.of_nat (S c') - 1) (Z.of_nat (S c'))); [|lia]. cbn [andb].
             destruct (Z.leb_spec (Z.of_nat (S c')) (Z.of_nat (S c') - 1)); [lia|].
             destruct (Z.ltb_spec (Z.of_nat (S c') - 1) 0); [lia|].
             replace (Z.to_nat (Z.of_nat (S c') - 1)) with c' by lia. rewrite E2. cbn [bind]. rewrite Hm.
             destruct len; reflexivity.
        * (* further behind: refused *)
          exists (if len then Ok X else Err CannotParse). intros pre Hp.
          unfold parse_argument, has_argument. cbn [get_arguments ps_args]. rewrite HA, (Hlen pre Hp).
          destruct (Z.ltb_spec (Z.of_nat (S c')) (Z.of_nat (length A))); [lia|]. rewrite andb_false_r.
          destruct (Z.ltb_spec (Z.of_nat (S c') - 1) (Z.of_nat (length A))); [lia|]. rewrite andb_false_r.
          destruct len; reflexivity.
  Qed.

  (* the token loop: the prefix stays, everything else evolves alike *)
  Lemma loop_frame len : forall fuel toks p X po, exists Xf pof e, forall pre, is_prefix pre ->
    loop fuel g len p {| ps_args := pre ++ X; ps_opts := po |} toks = ({| ps_args := pre ++ Xf; ps_opts := pof |}, e).
  Proof.
    induction fuel as [|fuel IH]; intros toks p X po; cbn [loop].
    - exists X, po, (Some (Other 98)). reflexivity.
    - destruct toks as [|tok rest]; [exists X, po, None; reflexivity|].
      assert (exists Xf pof e, forall pre, is_prefix pre ->
                match parse_argument g len {| ps_args := pre ++ X; ps_opts := po |} tok with
                | Ok st' => loop fuel g len p st' rest
                | Err k => ({| ps_args := pre ++ X; ps_opts := po |}, Some k) end
                = ({| ps_args := pre ++ Xf; ps_opts := pof |}, e)) as Harg.
      { destruct (parse_argument_frame len X po tok) as [[X2|k] HR].
        - destruct (IH rest p X2 po) as (Xf & pof & e & H). exists Xf, pof, e. intros pre Hp. rewrite (HR pre Hp). cbn [lift_arg]. now apply H.
        - exists X, po, (Some k). intros pre Hp. rewrite (HR pre Hp). reflexivity. }
      destruct (p && negb (nonempty tok)); [exact Harg|].
      destruct (p && is_dd tok); [apply IH|].
      destruct (p && starts_dd tok).
      { destruct (parse_long_option g {| ps_args := []; ps_opts := po |} tok rest) as [[s1 t1]|k] eqn:E.
        - destruct (IH t1 p X (ps_opts s1)) as (Xf & pof & e & H). exists Xf, pof, e. intros pre Hp.
          rewrite parse_long_nf. unfold with_args. cbn [ps_args ps_opts]. rewrite E. cbn [lift_opt]. unfold with_args. now apply H.
        - exists X, po, (Some k). intros pre Hp. rewrite parse_long_nf. unfold with_args. cbn [ps_args ps_opts]. rewrite E. reflexivity. }
      destruct (p && starts_dash tok && negb (str_eqb tok [DASH])); [|exact Harg].
      destruct (parse_short_option g {| ps_args := []; ps_opts := po |} tok rest) as [[[s1 t1]|k] s2] eqn:E.
      + destruct (IH t1 p X (ps_opts s1)) as (Xf & pof & e & H). exists Xf, pof, e. intros pre Hp.
        rewrite parse_short_nf. unfold with_args. cbn [ps_args ps_opts]. rewrite E. cbn [lift_opt fst snd]. unfold with_args. now apply H.
      + exists X, (ps_opts s2), (Some k). intros pre Hp. rewrite parse_short_nf. unfold with_args. cbn [ps_args ps_opts]. rewrite E. reflexivity.
  Qed.
End Frame.

(* ================= scratch maps that differ only under protected keys ================= *)
Definition sim (PS : list str) (D D' : list (str * rawarg)) : Prop :=
  Forall2 (fun kv kv' => fst kv = fst kv' /\ (snd kv = snd kv' \/ In (fst kv) PS)) D D'.
Lemma sim_refl PS D : sim PS D D.
Proof. induction D as [|kv r IH]; constructor; auto. Qed.
Lemma sim_app PS D1 D1' D2 D2' : sim PS D1 D1' -> sim PS D2 D2' -> sim PS (D1 ++ D2) (D1' ++ D2').
Proof. apply Forall2_app. Qed.
Lemma sim_sset PS k v D D' : sim PS D D' -> sim PS (sset k v D) (sset k v D').
Proof.
  unfold sset. induction 1 as [|[k1 v1] [k2 v2] r r' [Hk Hv] Hr IH]; cbn [aset]; [constructor; [auto|constructor]|].
  cbn [fst snd] in Hk, Hv. subst k2. destruct (str_eqb k k1).
  - constructor; [cbn; auto|exact Hr].
  - constructor; [cbn; auto|exact IH].
Qed.
Lemma sim_fold PS fixed : forall D D', sim PS D D' ->
  sim PS (fold_left (fun d kv => sset (fst kv) (snd kv) d) fixed D) (fold_left (fun d kv => sset (fst kv) (snd kv) d) fixed D').
Proof. induction fixed as [|[k v] r IH]; intros D D' H; cbn [fold_left]; [exact H|]. apply IH, sim_sset, H. Qed.
Lemma sim_shas PS D D' n : sim PS D D' -> shas n D = shas n D'.
Proof.
  unfold shas, ahas. induction 1 as [|[k1 v1] [k2 v2] r r' [Hk Hv] Hr IH]; [reflexivity|]. cbn [aget fst] in *. subst k2.
  destruct (str_eqb n k1); [reflexivity|exact IH].
Qed.
Lemma sim_set_arguments PS f : (forall n, In n PS -> has_argument f (AName n) true = false) ->
  forall D D', sim PS D D' -> forall acc, set_arguments f acc D = set_arguments f acc D'.
Proof.
  intros Hps. induction 1 as [|[k1 v1] [k2 v2] r r' [Hk Hv] Hr IH]; intros acc; [reflexivity|].
  cbn [fst snd] in Hk, Hv. subst k2. cbn [set_arguments].
  destruct (has_argument f (AName k1) true) eqn:Eh; [|apply IH].
  destruct Hv as [->|Hin]; [|rewrite (Hps _ Hin) in Eh; discriminate].
  destruct (set_argument f acc k1 v2); cbn [bind]; [apply IH|reflexivity].
Qed.
Lemma sim_prefixes PS (pre pre' : list (str * rawarg)) : map fst pre = map fst pre' -> (forall n, In n (map fst pre) -> In n PS) ->
  sim PS pre pre'.
Proof.
  revert pre'. induction pre as [|[k v] r IH]; intros [|[k' v'] r'] Hk Hin; try discriminate; [constructor|].
  cbn [map fst] in Hk. inversion Hk; subst. constructor.
  - cbn. split; [reflexivity|right; apply Hin; now left].
  - apply IH; [assumption|]. intros n Hn. apply Hin. now right.
Qed.

(* ================= skipping the command names that are spelled ================= *)
Lemma skip_names_prefix V : forall names cns k, names_ok cns names = true ->
  skip_names (names ++ V) cns k = skip_names V (skipn (length names) cns) (k + length names).
Proof.
  induction names as [|s r IH]; intros cns k Hn; cbn [app length skipn]; [now rewrite Nat.add_0_r|].
  destruct cns as [|c cns']; [discriminate|]. cbn [names_ok] in Hn.
  apply andb_prop in Hn as [Hn Hr]. apply andb_prop in Hn as [Hp Hm].
  cbn [skip_names]. rewrite (plain_nonempty s Hp), Hm. cbn [andb]. rewrite IH by exact Hr. f_equal. lia.
Qed.

(* ================= the parse of two spellings ================= *)
Section Respell.
  Variables (f g : fmt) (A : list (str * arg)) (cns : list (str * cname)).
  Hypothesis FF : fmt_facts f g A cns.
  Variables ks ks' : list str.
  Hypothesis Hks : names_ok cns ks = true.
  Hypothesis Hks' : names_ok cns ks' = true.
  Hypothesis Hlen : length ks = length ks'.

  Notation j := (length ks).
  Lemma HA : get_arguments_all g = A. Proof. exact (ff_args _ _ _ _ FF). Qed.
  Lemma Hnm : Forall (fun na => fst na = a_name (snd na)) A. Proof. exact (ff_names _ _ _ _ FF). Qed.
  Lemma Hnd : NoDup (map fst A). Proof. exact (ff_nodup _ _ _ _ FF). Qed.

  Lemma plain_pos s : plain_tok s = true -> pos_tok s = true.
  Proof. unfold plain_tok, pos_tok. intros H. apply andb_prop in H as [_ H]. now rewrite H. Qed.
  Lemma names_ok_plain : forall c n, names_ok c n = true -> Forall (fun s => pos_tok s = true) n.
  Proof.
    intros c n. revert c. induction n as [|s r IH]; intros c H; [constructor|]. destruct c as [|x c']; [discriminate|].
    cbn [names_ok] in H. apply andb_prop in H as [H Hr]. apply andb_prop in H as [Hp _].
    constructor; [now apply plain_pos|eapply IH; exact Hr].
  Qed.

  Lemma j_le : j <= length cns.
  Proof. apply names_ok_length. exact Hks. Qed.
  Lemma cns_le_A : length cns <= length A.
  Proof.
    pose proof (ff_pseudo _ _ _ _ FF) as H. apply (f_equal (@length str)) in H. rewrite !map_length, firstn_length in H. lia.
  Qed.
  Lemma single_j : Forall (fun na => a_multi (snd na) = false) (firstn j A).
  Proof.
    pose proof (ff_single _ _ _ _ FF) as H. rewrite Forall_forall in *. intros x Hx. apply H.
    eapply firstn_in_le; [apply j_le|exact Hx].
  Qed.

  (* the names alone fit the pseudo-arguments *)
  Lemma shape_names n : names_ok cns n = true -> shape A n = true.
  Proof.
    intros Hn. pose proof (shape_line f g A cns FF n [] Hn) as H. rewrite app_nil_r in H. apply H. destruct (get_arguments_all f); reflexivity.
  Qed.

  (* the token loop over the spelled names: one pseudo-argument each *)
  Lemma loop_names len : forall n Pdone st fuel rest, ps_args st = place A Pdone -> shape A (Pdone ++ n) = true ->
    Forall (fun s => pos_tok s = true) n ->
    loop (length n + fuel) g len true st (n ++ rest) =
    loop fuel g len true {| ps_args := place A (Pdone ++ n); ps_opts := ps_opts st |} rest.
  Proof.
    induction n as [|s r IH]; intros Pdone st fuel rest Hst Hsh Hpos.
    - cbn [length app Nat.add]. rewrite app_nil_r, <- Hst. destruct st; reflexivity.
    - inversion Hpos as [|? ? Hs Hr]; subst. cbn [length app Nat.add].
      change (s :: r) with ([s] ++ r) in Hsh. rewrite app_assoc in Hsh.
      rewrite (pos_step g A _ HA Hnm Hnd _ true st s (r ++ rest) Pdone Hst); [|eapply shape_app_l; exact Hsh|intros _; exact Hs].
      rewrite (IH (Pdone ++ [s])); [|reflexivity|exact Hsh|exact Hr]. cbn [ps_opts]. now rewrite <- app_assoc.
  Qed.

  Lemma place_is_prefix n : names_ok cns n = true -> length n = j -> is_prefix A j (place A n) /\ flatten (place A n) = n.
  Proof.
    intros Hn Hl. split; [|apply flatten_place, shape_names, Hn].
    unfold is_prefix. rewrite <- (firstn_skipn j A) at 1.
    assert (length (firstn j A) = j) as Hfl by (rewrite firstn_length; pose proof j_le; pose proof cns_le_A; lia).
    rewrite (place_app _ _ _ single_j), Hfl.
    rewrite <- Hl at 2 4. rewrite firstn_all, skipn_all.
    rewrite place_nil, app_nil_r, (place_single_keys _ _ single_j), Hl, firstn_map.
    rewrite firstn_firstn, Nat.min_id. symmetry. apply firstn_map.
  Qed.

  Lemma flatten_app D1 D2 : flatten (D1 ++ D2) = flatten D1 ++ flatten D2.
  Proof. unfold flatten. apply flat_map_app. Qed.

  Theorem parse_respelled len rest : parse f len (ks ++ rest) = parse f len (ks' ++ rest).
  Proof.
    unfold parse, parse_on. rewrite (ff_aug _ _ _ _ FF).
    destruct (place_is_prefix ks Hks eq_refl) as [P1 F1].
    destruct (place_is_prefix ks' Hks' (eq_sym Hlen)) as [P2 F2].
    rewrite !app_length, <- Hlen.
    replace (S (j + length rest)) with (j + S (length rest)) by lia.
    rewrite (loop_names len ks [] ps_empty (S (length rest)) rest (eq_sym (place_nil A)) (shape_names ks Hks) (names_ok_plain _ _ Hks)).
    rewrite Hlen at 1.
    rewrite (loop_names len ks' [] ps_empty (S (length rest)) rest (eq_sym (place_nil A)) (shape_names ks' Hks') (names_ok_plain _ _ Hks')).
    cbn [app ps_opts ps_empty].
    pose proof j_le as Hj1. pose proof cns_le_A as Hj2.
    destruct (loop_frame g A HA Hnm Hnd j single_j ltac:(lia) len (S (length rest)) rest true [] []) as (Xf & pof & e & HL).
    pose proof (HL _ P1) as L1. pose proof (HL _ P2) as L2. rewrite app_nil_r in L1, L2. rewrite L1, L2. clear L1 L2 HL.
    destruct (match e with Some CannotParse | Some NoSuchOption => if len then None else e | _ => e end) as [k|]; [reflexivity|].
    (* the re-alignment sees the same values behind the spelled names *)
    unfold insert_missing. cbn [ps_args ps_opts]. rewrite !flatten_app, F1, F2.
    rewrite (skip_names_prefix (flatten Xf) ks cns 0 Hks), (skip_names_prefix (flatten Xf) ks' cns 0 Hks'), <- Hlen.
    destruct (skip_names (flatten Xf) (skipn (length ks) cns) (0 + length ks)) as [[vals' cns'] k].
    destruct (copy_values vals' (skipn (k + length cns') A) len (map (fun c => (fst c, RCmd (snd c))) cns')) as [fixed|k2]; cbn [bind snd]; [|reflexivity].
    set (PS := firstn j (map fst A)).
    assert (sim PS (fold_left (fun d kv => sset (fst kv) (snd kv) d) fixed (place A ks ++ Xf))
                   (fold_left (fun d kv => sset (fst kv) (snd kv) d) fixed (place A ks' ++ Xf))) as Hsim.
    { apply sim_fold, sim_app; [|apply sim_refl]. apply sim_prefixes; [now rewrite P1, P2|]. intros n Hn. unfold PS. now rewrite <- P1. }
    assert (forall n, In n PS -> has_argument f (AName n) true = false) as Hps.
    { intros n Hn. unfold has_argument. cbn [get_arguments]. rewrite shas_sget, (ff_fresh _ _ _ _ FF n); [reflexivity|].
      rewrite <- (ff_pseudo _ _ _ _ FF), <- firstn_map. unfold PS in Hn. eapply firstn_in_le; [exact Hj1|exact Hn]. }
    unfold missing_required. cbn [ps_args ps_opts].
    assert (existsb (fun na => a_required (snd na) && negb (shas (fst na) (fold_left (fun d kv => sset (fst kv) (snd kv) d) fixed (place A ks ++ Xf)))) A =
            existsb (fun na => a_required (snd na) && negb (shas (fst na) (fold_left (fun d kv => sset (fst kv) (snd kv) d) fixed (place A ks' ++ Xf)))) A) as ->.
    { apply existsb_ext_in'. intros na _. now rewrite (sim_shas _ _ _ (fst na) Hsim). }
    destruct (existsb _ A && negb len); [reflexivity|]. cbn [snd].
    now rewrite (sim_set_arguments PS f Hps _ _ Hsim).
  Qed.
End Respell.
