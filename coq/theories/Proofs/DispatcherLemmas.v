(* Proofs about Model/Dispatcher.v (C12). *)
From Coq Require Import Lia Permutation Sorted.
From Clikit Require Import Base.Prelude Model.Dispatcher.

(* ---------- association lists keyed by N / Z ---------- *)
Lemma aget_aset_eq {V} k (v : V) d : aget N.eqb k (aset N.eqb k v d) = Some v.
Proof.
  induction d as [|[k' v'] r IH]; cbn.
  - now rewrite N.eqb_refl.
  - destruct (N.eqb k k') eqn:E; cbn; rewrite E; auto.
Qed.
Lemma aget_aset_neq {V} k k' (v : V) d : k <> k' -> aget N.eqb k (aset N.eqb k' v d) = aget N.eqb k d.
Proof.
  intros Hn. induction d as [|[k2 v2] r IH]; cbn.
  - destruct (N.eqb_spec k k'); [contradiction|reflexivity].
  - destruct (N.eqb_spec k' k2) as [->|Hk]; cbn.
    + destruct (N.eqb_spec k k2); [contradiction|reflexivity].
    + destruct (N.eqb k k2); auto.
Qed.
Lemma aget_adel_eq {V} k (d : list (N * V)) : aget N.eqb k (adel N.eqb k d) = None.
Proof.
  induction d as [|[k' v'] r IH]; cbn; auto.
  destruct (N.eqb k k') eqn:E; cbn; [|rewrite E]; auto.
Qed.
Lemma aget_adel_neq {V} k k' (d : list (N * V)) : k <> k' -> aget N.eqb k (adel N.eqb k' d) = aget N.eqb k d.
Proof.
  intros Hn. induction d as [|[k2 v2] r IH]; cbn; auto.
  destruct (N.eqb_spec k' k2) as [->|Hk]; cbn.
  - destruct (N.eqb_spec k k2); [contradiction|auto].
  - destruct (N.eqb k k2); auto.
Qed.

(* ---------- the stable descending insertion sort ---------- *)
Section Sort.
  Context {X : Type} (key : X -> Z).

  Lemma insert_perm a l : Permutation (insert_desc key a l) (a :: l).
  Proof.
    induction l as [|x r IH]; cbn; auto.
    destruct (key x <=? key a)%Z; auto.
    eapply perm_trans; [apply perm_skip, IH | apply perm_swap].
  Qed.
  Lemma sort_perm l : Permutation (sort_desc key l) l.
  Proof.
    induction l as [|a r IH]; cbn; auto.
    eapply perm_trans; [apply insert_perm | apply perm_skip, IH].
  Qed.

  Variable R : X -> X -> Prop.
  Definition Q (a b : X) : Prop := (key a > key b)%Z \/ (key a = key b /\ R a b).

  Lemma insert_sorted a s :
    StronglySorted Q s -> Forall (R a) s -> StronglySorted Q (insert_desc key a s).
  Proof.
    induction s as [|x r IH]; intros Hs Ha; cbn.
    - constructor; constructor.
    - apply StronglySorted_inv in Hs. destruct Hs as [Hr Hx].
      destruct (Z.leb_spec (key x) (key a)) as [Hle|Hgt].
      + constructor; [constructor; assumption|].
        rewrite Forall_forall in *. intros y Hy. specialize (Ha y Hy).
        assert (key y <= key a)%Z as Hya.
        { destruct Hy as [<-|Hy]; [assumption|]. specialize (Hx y Hy). destruct Hx as [?|[? ?]]; lia. }
        unfold Q. destruct (Z.eq_dec (key a) (key y)); [right; auto | left; lia].
      + inversion Ha as [|? ? Hax Har]; subst.
        constructor; [apply IH; assumption|].
        eapply Permutation_Forall; [apply Permutation_sym, insert_perm|].
        constructor; [left; lia | assumption].
  Qed.

  Lemma sort_stable l : StronglySorted R l -> StronglySorted Q (sort_desc key l).
  Proof.
    induction l as [|a r IH]; intros Hs; cbn; [constructor|].
    apply StronglySorted_inv in Hs. destruct Hs as [Hr Ha].
    apply insert_sorted; [auto|].
    eapply Permutation_Forall; [apply Permutation_sym, sort_perm | assumption].
  Qed.
End Sort.

(* ---------- uniqueness of the sorted permutation ---------- *)
Lemma sorted_perm_unique {X} (R : X -> X -> Prop) :
  (forall a b, R a b -> R b a -> False) ->
  forall l1 l2, StronglySorted R l1 -> StronglySorted R l2 -> Permutation l1 l2 -> l1 = l2.
Proof.
  intros Hasym. induction l1 as [|a l1 IH]; intros l2 H1 H2 Hp.
  - apply Permutation_nil in Hp. now subst.
  - destruct l2 as [|b l2]; [apply Permutation_sym, Permutation_nil in Hp; discriminate|].
    apply StronglySorted_inv in H1. destruct H1 as [H1 Ha].
    apply StronglySorted_inv in H2. destruct H2 as [H2 Hb].
    assert (a = b) as ->.
    { assert (In a (b :: l2)) as Ia by (eapply Permutation_in; [exact Hp | now left]).
      assert (In b (a :: l1)) as Ib by (eapply Permutation_in; [apply Permutation_sym; exact Hp | now left]).
      destruct Ia as [->|Ia]; [reflexivity|]. destruct Ib as [->|Ib]; [reflexivity|].
      rewrite Forall_forall in Ha, Hb. exfalso. eapply Hasym; [apply Ha, Ib | apply Hb, Ia]. }
    f_equal. apply IH; auto. eapply Permutation_cons_inv; exact Hp.
Qed.

(* ---------- keys (priority, listener id) ---------- *)
Definition kl (a b : Z * N) : Prop := (fst a > fst b)%Z \/ (fst a = fst b /\ (snd a < snd b)%N).
Lemma kl_asym a b : kl a b -> kl b a -> False.
Proof. unfold kl. lia. Qed.

Definition flatg (g : groups) : list (Z * N) := flat_map (fun pl => map (pair (fst pl)) (snd pl)) g.
Definition kl_of (r : reg) : Z * N := (r_prio r, r_lid r).

Lemma map_snd_flatg g : map snd (flatg g) = flat_map snd g.
Proof.
  unfold flatg. induction g as [|[p ls] r IH]; cbn; auto.
  rewrite map_app, IH. f_equal. rewrite map_map. cbn. apply map_id.
Qed.

Definition group_ok (next : N) (pl : Z * list N) : Prop :=
  StronglySorted N.lt (snd pl) /\ Forall (fun l => (l < next)%N) (snd pl).

Lemma flatg_sorted g :
  StronglySorted (fun a b : Z * list N => (fst a > fst b)%Z) g ->
  Forall (fun pl => StronglySorted N.lt (snd pl)) g ->
  StronglySorted kl (flatg g).
Proof.
  induction g as [|[p ls] r IH]; intros Hs Hg; cbn; [constructor|].
  apply StronglySorted_inv in Hs. destruct Hs as [Hr Hp].
  inversion Hg as [|? ? Hls Hgr]; subst. cbn in Hls.
  specialize (IH Hr Hgr).
  assert (Forall (fun y => (p > fst y)%Z) (flatg r)) as Hlow.
  { clear -Hp. induction r as [|[q ms] r IH]; cbn; [constructor|].
    inversion Hp as [|? ? Hq Hp']; subst. apply Forall_app. split; [|auto].
    apply Forall_forall. intros y Hy. apply in_map_iff in Hy. destruct Hy as [m [<- _]]. cbn in *. assumption. }
  clear Hp Hg Hgr Hr.
  induction ls as [|l ls IHl]; cbn; [assumption|].
  apply StronglySorted_inv in Hls. destruct Hls as [Hls Hl].
  constructor; [auto|].
  apply Forall_app. split.
  - apply Forall_forall. intros y Hy. apply in_map_iff in Hy. destruct Hy as [m [<- Hm]].
    rewrite Forall_forall in Hl. right. cbn. split; [reflexivity|]. apply Hl, Hm.
  - eapply Forall_impl; [|exact Hlow]. intros y Hy. left. cbn in *. lia.
Qed.

(* ---------- one event's groups against the registrations of that event ---------- *)
Definition GI (next : N) (g : groups) (rs : list reg) : Prop :=
  Permutation (flatg g) (map kl_of rs) /\ NoDup (map fst g) /\ Forall (group_ok next) g.

Lemma aget_in_Z {V} p (g : list (Z * V)) v : aget Z.eqb p g = Some v -> In (p, v) g.
Proof.
  induction g as [|[q w] r IH]; cbn; [discriminate|].
  destruct (Z.eqb_spec p q) as [->|Hn]; intros H; [inversion H; now left | right; auto].
Qed.
Lemma aget_none_Z {V} p (g : list (Z * V)) : aget Z.eqb p g = None -> ~ In p (map fst g).
Proof.
  induction g as [|[q w] r IH]; cbn; [tauto|].
  destruct (Z.eqb_spec p q) as [->|Hn]; [discriminate|]. intros H [Hq|Hi]; [congruence|]. now apply IH.
Qed.

Lemma aset_keys_in p (ls : list N) g : In p (map fst g) -> map fst (aset Z.eqb p ls g) = map fst g.
Proof.
  induction g as [|[q w] r IH]; cbn; [tauto|].
  destruct (Z.eqb_spec p q) as [->|Hn]; cbn; [reflexivity|].
  intros [Hq|Hi]; [congruence|]. f_equal. auto.
Qed.
Lemma aset_keys_notin p (ls : list N) g : ~ In p (map fst g) -> map fst (aset Z.eqb p ls g) = map fst g ++ [p].
Proof.
  induction g as [|[q w] r IH]; cbn; [reflexivity|].
  destruct (Z.eqb_spec p q) as [->|Hn]; cbn; [tauto|].
  intros H. f_equal. apply IH. tauto.
Qed.

Lemma flatg_aset_some p n g ls :
  aget Z.eqb p g = Some ls -> Permutation (flatg (aset Z.eqb p (ls ++ [n]) g)) ((p, n) :: flatg g).
Proof.
  induction g as [|[q w] r IH]; cbn; [discriminate|].
  destruct (Z.eqb_spec p q) as [->|Hn]; intros H.
  - inversion H; subst. cbn. rewrite map_app. cbn.
    rewrite <- app_assoc. cbn. apply Permutation_sym, Permutation_middle.
  - cbn. eapply perm_trans; [apply Permutation_app_head, IH, H|].
    apply Permutation_sym, Permutation_middle.
Qed.
Lemma flatg_aset_none p n g :
  aget Z.eqb p g = None -> Permutation (flatg (aset Z.eqb p [n] g)) ((p, n) :: flatg g).
Proof.
  induction g as [|[q w] r IH]; cbn; [auto|].
  destruct (Z.eqb_spec p q) as [->|Hn]; intros H; [discriminate|].
  cbn. eapply perm_trans; [apply Permutation_app_head, IH, H|].
  apply Permutation_sym, Permutation_middle.
Qed.

Lemma group_ok_mono n pl : group_ok n pl -> group_ok (N.succ n) pl.
Proof. intros [H1 H2]. split; auto. eapply Forall_impl; [|exact H2]. cbn. intros. lia. Qed.

Lemma sorted_snoc ls n : StronglySorted N.lt ls -> Forall (fun l => (l < n)%N) ls -> StronglySorted N.lt (ls ++ [n]).
Proof.
  induction ls as [|l r IH]; intros Hs Hb; cbn; [repeat constructor|].
  apply StronglySorted_inv in Hs. destruct Hs as [Hr Hl]. inversion Hb; subst.
  constructor; [auto|]. apply Forall_app. split; [assumption|]. repeat constructor. assumption.
Qed.

Lemma Forall_aset (P : Z * list N -> Prop) p v g :
  Forall P g -> P (p, v) -> Forall P (aset Z.eqb p v g).
Proof.
  induction g as [|[q w] r IH]; intros Hg Hp; cbn; [repeat constructor; auto|].
  inversion Hg; subst.
  destruct (Z.eqb_spec p q) as [->|Hn]; constructor; auto.
Qed.

Lemma NoDup_snoc {X} (l : list X) p : NoDup l -> ~ In p l -> NoDup (l ++ [p]).
Proof.
  induction l as [|a r IH]; intros Hn Hp; cbn; [repeat constructor; auto|].
  inversion Hn; subst. constructor.
  - rewrite in_app_iff. cbn in *. intuition congruence.
  - apply IH; auto. cbn in Hp. tauto.
Qed.

Lemma GI_add n g rs p r :
  GI n g rs -> kl_of r = (p, n) ->
  GI (N.succ n)
     (aset Z.eqb p ((match aget Z.eqb p g with Some ls => ls | None => [] end) ++ [n]) g) (rs ++ [r]).
Proof.
  intros (Hperm & Hnd & Hok) Hr. unfold GI.
  assert (Forall (group_ok (N.succ n)) g) as Hok' by (eapply Forall_impl; [apply group_ok_mono | exact Hok]).
  rewrite map_app. cbn. rewrite Hr.
  destruct (aget Z.eqb p g) as [ls|] eqn:Eg.
  - pose proof (aget_in_Z _ _ _ Eg) as Hin.
    split; [|split].
    + eapply perm_trans; [apply flatg_aset_some, Eg|].
      eapply perm_trans; [apply perm_skip, Hperm|]. apply Permutation_cons_append.
    + rewrite aset_keys_in; [assumption|]. apply in_map_iff. exists (p, ls). auto.
    + apply Forall_aset; [assumption|].
      rewrite Forall_forall in Hok. destruct (Hok _ Hin) as [Hs Hb]. cbn in *.
      split; cbn.
      * apply sorted_snoc; assumption.
      * apply Forall_app. split; [eapply Forall_impl; [|exact Hb]; cbn; intros; lia|].
        repeat constructor. lia.
  - split; [|split].
    + cbn. eapply perm_trans; [apply flatg_aset_none, Eg|].
      eapply perm_trans; [apply perm_skip, Hperm|]. apply Permutation_cons_append.
    + rewrite aset_keys_notin by (apply aget_none_Z, Eg).
      apply NoDup_snoc; [assumption | apply aget_none_Z, Eg].
    + apply Forall_aset; [assumption|]. split; cbn; repeat constructor. lia.
Qed.

(* ---------- the sort of one event's groups is the spec order ---------- *)
Definition lid_lt (a b : reg) : Prop := (r_lid a < r_lid b)%N.

Lemma StronglySorted_mono {X} (R S : X -> X -> Prop) l :
  (forall a b, R a b -> S a b) -> StronglySorted R l -> StronglySorted S l.
Proof.
  intros H. induction 1 as [|a l Hl IH Ha]; constructor; auto.
  eapply Forall_impl; [|exact Ha]. auto.
Qed.
Lemma StronglySorted_map {X Y} (f : X -> Y) (S : Y -> Y -> Prop) l :
  StronglySorted (fun a b => S (f a) (f b)) l -> StronglySorted S (map f l).
Proof.
  induction 1 as [|a l Hl IH Ha]; cbn; constructor; auto.
  apply Forall_forall. intros y Hy. apply in_map_iff in Hy. destruct Hy as [x [<- Hx]].
  rewrite Forall_forall in Ha. auto.
Qed.
Lemma StronglySorted_filter {X} (R : X -> X -> Prop) f l :
  StronglySorted R l -> StronglySorted R (filter f l).
Proof.
  induction 1 as [|a l Hl IH Ha]; cbn; [constructor|].
  destruct (f a); [constructor|]; auto.
  apply Forall_forall. intros y Hy. apply filter_In in Hy. rewrite Forall_forall in Ha. apply Ha, Hy.
Qed.
Lemma NoDup_keys_sorted (g : groups) :
  NoDup (map fst g) -> StronglySorted (fun a b : Z * list N => fst a <> fst b) g.
Proof.
  induction g as [|[p ls] r IH]; cbn; intros H; [constructor|].
  inversion H as [|? ? Hni Hnd]; subst. constructor; [auto|].
  apply Forall_forall. intros [q ms] Hy. cbn. intros ->. apply Hni. apply in_map_iff. exists (q, ms). auto.
Qed.

Lemma sort_listeners_spec n g rs :
  GI n g rs -> StronglySorted lid_lt rs -> sort_listeners g = map r_lid (sort_desc r_prio rs).
Proof.
  intros (Hperm & Hnd & Hok) Hrs. unfold sort_listeners.
  rewrite <- map_snd_flatg.
  assert (flatg (sort_desc fst g) = map kl_of (sort_desc r_prio rs)) as ->.
  { apply (sorted_perm_unique kl kl_asym).
    - apply flatg_sorted.
      + eapply StronglySorted_mono; [|apply (sort_stable fst (fun a b => fst a <> fst b)), NoDup_keys_sorted, Hnd].
        unfold Q. intros a b [H|[H1 H2]]; [assumption|contradiction].
      + eapply Permutation_Forall; [apply Permutation_sym, sort_perm|].
        eapply Forall_impl; [|exact Hok]. intros pl [H _]. exact H.
    - apply StronglySorted_map.
      eapply StronglySorted_mono; [|apply (sort_stable r_prio lid_lt), Hrs].
      unfold Q, kl, kl_of, lid_lt. cbn. intros a b H. exact H.
    - eapply perm_trans; [apply Permutation_flat_map, sort_perm|].
      eapply perm_trans; [exact Hperm|]. apply Permutation_map, Permutation_sym, sort_perm. }
  rewrite map_map. reflexivity.
Qed.

(* ---------- the simulation invariant ---------- *)
Definition Inv (st : dstate) (regs : list reg) : Prop :=
  d_next st = N.of_nat (length regs) /\
  d_stops st = spec_stops regs /\
  (forall e, match aget N.eqb e (d_listeners st) with
             | None => regs_of regs e = []
             | Some g => g <> [] /\ regs_of regs e <> [] /\ GI (d_next st) g (regs_of regs e) end) /\
  (forall e l, aget N.eqb e (d_sorted st) = Some l ->
               exists g, aget N.eqb e (d_listeners st) = Some g /\ l = sort_listeners g) /\
  StronglySorted lid_lt regs /\ Forall (fun r => (r_lid r < d_next st)%N) regs.

Lemma Inv_init : Inv dinit [].
Proof. unfold Inv, dinit; cbn. repeat split; auto; try constructor. intros e l H. discriminate. Qed.

Lemma GI_mono n g rs : GI n g rs -> GI (N.succ n) g rs.
Proof.
  intros (H1 & H2 & H3). repeat split; auto. eapply Forall_impl; [apply group_ok_mono|exact H3].
Qed.
Lemma GI_nil n : GI n [] [].
Proof. unfold GI; cbn. repeat split; constructor. Qed.

Lemma aset_nonempty {K V} eqb (k : K) (v : V) d : aset eqb k v d <> [].
Proof. destruct d as [|[k' v'] r]; cbn; [discriminate|]. destruct (eqb k k'); discriminate. Qed.

Lemma regs_of_app regs r e :
  regs_of (regs ++ [r]) e = regs_of regs e ++ (if N.eqb (r_ev r) e then [r] else []).
Proof. unfold regs_of. rewrite filter_app. cbn. destruct (N.eqb (r_ev r) e); reflexivity. Qed.

Lemma get_listeners_spec st regs ev :
  Inv st regs ->
  Inv (fst (get_listeners st ev)) regs /\ snd (get_listeners st ev) = spec_order regs ev.
Proof.
  intros (Hn & Hs & Hl & Hc & Hsr & Hb). unfold get_listeners.
  pose proof (Hl ev) as Hev.
  destruct (aget N.eqb ev (d_listeners st)) as [g|] eqn:Eg.
  - destruct Hev as (Hg & Hrs & HGI).
    assert (sort_listeners g = spec_order regs ev) as Hspec.
    { unfold spec_order. eapply sort_listeners_spec; [exact HGI|]. apply StronglySorted_filter, Hsr. }
    destruct (aget N.eqb ev (d_sorted st)) as [l|] eqn:Ec; cbn.
    + split; [repeat split; auto|].
      destruct (Hc _ _ Ec) as (g' & Eg' & ->). congruence.
    + split; [|exact Hspec].
      repeat split; auto. cbn. intros e l H.
      destruct (N.eq_dec e ev) as [->|Hne].
      * rewrite aget_aset_eq in H. inversion H; subst. exists g. auto.
      * rewrite aget_aset_neq in H by assumption. auto.
  - cbn. split; [repeat split; auto|]. unfold spec_order. rewrite Hev. reflexivity.
Qed.

Lemma sort_all_inv lst keys s :
  (forall e l, aget N.eqb e s = Some l -> exists g, aget N.eqb e lst = Some g /\ l = sort_listeners g) ->
  (forall e l, aget N.eqb e (sort_all lst keys s) = Some l ->
               exists g, aget N.eqb e lst = Some g /\ l = sort_listeners g).
Proof.
  revert s. induction keys as [|k r IH]; intros s Hs; cbn; [exact Hs|].
  apply IH. destruct (aget N.eqb k lst) as [g|] eqn:Eg; [|exact Hs].
  destruct (ahas N.eqb k s); [exact Hs|].
  intros e l H. destruct (N.eq_dec e k) as [->|Hne].
  - rewrite aget_aset_eq in H. inversion H; subst. exists g. auto.
  - rewrite aget_aset_neq in H by assumption. auto.
Qed.

Lemma existsb_filter_nil {X} (f : X -> bool) l : existsb f l = negb (match filter f l with [] => true | _ => false end).
Proof. induction l as [|a r IH]; cbn; auto. destruct (f a); cbn; auto. Qed.

Lemma In_aget_some {V} e (g : V) d : In (e, g) d -> exists g', aget N.eqb e d = Some g'.
Proof.
  induction d as [|[k v] r IH]; cbn; [tauto|].
  intros [H|H].
  - inversion H; subst. rewrite N.eqb_refl. eauto.
  - destruct (N.eqb e k); [eauto | apply IH, H].
Qed.
Lemma aget_in_N {V} e (d : list (N * V)) v : aget N.eqb e d = Some v -> In (e, v) d.
Proof.
  induction d as [|[q w] r IH]; cbn; [discriminate|].
  destruct (N.eqb_spec e q) as [->|Hn]; intros H; [inversion H; now left | right; auto].
Qed.

Definition covered (o : dop) : bool := match o with GetAll | Prio _ _ => false | _ => true end.

Lemma sorted_snoc_reg regs r :
  StronglySorted lid_lt regs -> Forall (fun x => (r_lid x < r_lid r)%N) regs -> StronglySorted lid_lt (regs ++ [r]).
Proof.
  induction regs as [|a l IH]; intros Hs Hb; cbn; [repeat constructor|].
  apply StronglySorted_inv in Hs. destruct Hs as [Hl Ha]. inversion Hb; subst.
  constructor; [auto|]. apply Forall_app. split; [assumption|]. repeat constructor. assumption.
Qed.

Lemma step_sim st regs o :
  Inv st regs ->
  Inv (fst (dstep st o)) (fst (sstep regs o)) /\
  (covered o = true -> snd (dstep st o) = snd (sstep regs o)).
Proof.
  intros HI. destruct o as [ev prio stops|ev|[ev|]|ev| |ev lid]; cbn [covered].
  - (* Add *)
    split; [|reflexivity]. cbn [dstep sstep fst].
    destruct HI as (Hn & Hs & Hl & Hc & Hsr & Hb).
    unfold Inv, add_listener; cbn [d_next d_stops d_listeners d_sorted].
    set (r := {| r_ev := ev; r_prio := prio; r_lid := N.of_nat (length regs); r_stops := stops |}).
    split; [rewrite app_length; cbn; lia|].
    split; [unfold spec_stops; rewrite map_app; cbn; rewrite Hs, Hn; reflexivity|].
    split; [|split; [|split]].
    + intros e. rewrite regs_of_app. cbn [r_ev r].
      destruct (N.eq_dec e ev) as [->|Hne].
      * rewrite aget_aset_eq, N.eqb_refl.
        split; [apply aset_nonempty|]. split; [destruct (regs_of regs ev); discriminate|].
        specialize (Hl ev).
        destruct (aget N.eqb ev (d_listeners st)) as [g|].
        -- destruct Hl as (_ & _ & HGI). apply GI_add; [exact HGI|]. unfold kl_of, r; cbn. now rewrite Hn.
        -- rewrite Hl. apply (GI_add (d_next st) [] [] prio r (GI_nil _)). unfold kl_of, r; cbn. now rewrite Hn.
      * rewrite aget_aset_neq by assumption.
        destruct (N.eqb_spec ev e) as [->|_]; [contradiction|]. rewrite app_nil_r.
        specialize (Hl e). destruct (aget N.eqb e (d_listeners st)); [|assumption].
        destruct Hl as (? & ? & ?). split; [|split]; auto. now apply GI_mono.
    + intros e l H. destruct (N.eq_dec e ev) as [->|Hne].
      * rewrite aget_adel_eq in H. discriminate.
      * rewrite aget_adel_neq in H by assumption. rewrite aget_aset_neq by assumption. auto.
    + apply sorted_snoc_reg; [assumption|]. cbn. rewrite <- Hn. exact Hb.
    + apply Forall_app. split.
      * eapply Forall_impl; [|exact Hb]. cbn. intros. lia.
      * repeat constructor. cbn. lia.
  - (* Dispatch *)
    cbn [dstep sstep fst snd].
    destruct (get_listeners_spec st regs ev HI) as [HI' Hout].
    destruct (get_listeners st ev) as [st' l]. cbn in *.
    split; [exact HI'|]. intros _. subst l.
    destruct HI as (_ & Hs & _). rewrite Hs. reflexivity.
  - (* Has (Some ev) *)
    cbn [dstep sstep fst snd]. split; [exact HI|]. intros _. f_equal.
    destruct HI as (_ & _ & Hl & _). specialize (Hl ev).
    rewrite existsb_filter_nil. fold (regs_of regs ev).
    destruct (aget N.eqb ev (d_listeners st)) as [g|].
    + destruct Hl as (Hg & Hr & _). destruct g; [contradiction|]. destruct (regs_of regs ev); [contradiction|reflexivity].
    + rewrite Hl. reflexivity.
  - (* Has None *)
    cbn [dstep sstep fst snd]. split; [exact HI|]. intros _. f_equal.
    destruct HI as (_ & _ & Hl & _).
    destruct regs as [|r regs]; cbn [negb].
    + match goal with |- existsb ?f ?l = _ => destruct (existsb f l) eqn:E end; [|reflexivity]. exfalso.
      apply existsb_exists in E. destruct E as [[e g] [Hin _]].
      destruct (In_aget_some _ _ _ Hin) as [g' Eg]. specialize (Hl e). unfold groups in *. rewrite Eg in Hl.
      destruct Hl as (_ & Hr & _). apply Hr. reflexivity.
    + apply existsb_exists. specialize (Hl (r_ev r)).
      destruct (aget N.eqb (r_ev r) (d_listeners st)) as [g|] eqn:Eg.
      * destruct Hl as (Hg & _). exists (r_ev r, g). split; [apply aget_in_N, Eg|].
        cbn. destruct g; [contradiction|reflexivity].
      * exfalso. unfold regs_of in Hl. cbn in Hl. rewrite N.eqb_refl in Hl. discriminate.
  - (* Get *)
    cbn [dstep sstep fst snd].
    destruct (get_listeners_spec st regs ev HI) as [HI' Hout].
    destruct (get_listeners st ev) as [st' l]. cbn in *.
    split; [exact HI'|]. intros _. now subst l.
  - (* GetAll *)
    cbn [dstep sstep fst snd]. split; [|discriminate].
    destruct HI as (Hn & Hs & Hl & Hc & Hsr & Hb). unfold Inv; cbn [d_next d_stops d_listeners d_sorted].
    repeat (split; [assumption|]). split; [|split; assumption].
    apply sort_all_inv, Hc.
  - (* Prio *)
    cbn [dstep sstep fst snd]. split; [exact HI|discriminate].
Qed.

Fixpoint outs_agree (ops : list dop) (a b : list dout) : Prop :=
  match ops, a, b with
  | [], [], [] => True
  | o :: ops', x :: a', y :: b' => (covered o = true -> x = y) /\ outs_agree ops' a' b'
  | _, _, _ => False
  end.

Lemma run_sim ops : forall st regs, Inv st regs -> outs_agree ops (drun st ops) (srun regs ops).
Proof.
  induction ops as [|o r IH]; intros st regs HI; cbn; [exact I|].
  destruct (step_sim st regs o HI) as [HI' Ho].
  destruct (dstep st o) as [st' x]. destruct (sstep regs o) as [regs' y]. cbn in *.
  split; [exact Ho | apply IH, HI'].
Qed.

Lemma dispatch_refines_lemma ops : outs_agree ops (drun dinit ops) (srun [] ops).
Proof. apply run_sim, Inv_init. Qed.

(* ---------- the executable spec is the unique (priority desc, registration asc) order ---------- *)
Lemma spec_order_perm regs ev : Permutation (spec_order regs ev) (map r_lid (regs_of regs ev)).
Proof. unfold spec_order. apply Permutation_map, sort_perm. Qed.

Lemma spec_order_sorted_lemma regs ev :
  StronglySorted lid_lt regs ->
  StronglySorted (fun a b => (r_prio a > r_prio b)%Z \/ (r_prio a = r_prio b /\ (r_lid a < r_lid b)%N))
                 (sort_desc r_prio (regs_of regs ev)).
Proof. intros H. apply (sort_stable r_prio lid_lt), StronglySorted_filter, H. Qed.

(* ---------- propagation stop: the calls are the prefix up to the first stopper ---------- *)
Lemma run_until_stop_all stops l :
  (forall x, In x l -> aget N.eqb x stops <> Some true) -> run_until_stop stops l = l.
Proof.
  induction l as [|a r IH]; intros H; cbn; [reflexivity|].
  assert (aget N.eqb a stops <> Some true) as Ha by (apply H; now left).
  destruct (aget N.eqb a stops) as [[|]|]; try congruence; f_equal; apply IH; intros; apply H; now right.
Qed.
Lemma run_until_stop_cut stops l1 x l2 :
  (forall y, In y l1 -> aget N.eqb y stops <> Some true) -> aget N.eqb x stops = Some true ->
  run_until_stop stops (l1 ++ x :: l2) = l1 ++ [x].
Proof.
  induction l1 as [|a r IH]; intros H Hx; cbn.
  - now rewrite Hx.
  - assert (aget N.eqb a stops <> Some true) as Ha by (apply H; now left).
    destruct (aget N.eqb a stops) as [[|]|]; try congruence; f_equal; apply IH; auto; intros; apply H; now right.
Qed.
