(* C17, the style clause: the heap of style objects of Model/AppState.v (TableStyle objects holding a REFERENCE to a
   BorderStyle object; presets cached in class attributes and handed out as copies) refines the specification in which
   every style is a value of its own.  Hence what a rendering of style i reads depends only on the operations that name
   i.  With the presets handed out WITHOUT a copy (the code before fix 30a48a0) the refinement fails: witness below. *)
From Coq Require Import Lia.
From Clikit Require Import Base.Prelude Base.Res Model.Conv Model.Format Model.Parser Model.Resolver Model.Run
     Model.Tokenizer Model.Switches Model.AppState.

(* ------------------------------------------------------------------ lists *)
Lemma upd_nth_length {X} (f : X -> X) : forall l n, length (upd_nth n f l) = length l.
Proof. induction l as [|x r IH]; intros [|n]; cbn; auto. Qed.
Lemma upd_nth_same {X} (f : X -> X) : forall l n, nth_error (upd_nth n f l) n = option_map f (nth_error l n).
Proof. induction l as [|x r IH]; intros [|n]; cbn; auto. Qed.
Lemma upd_nth_other {X} (f : X -> X) : forall l n m, n <> m -> nth_error (upd_nth n f l) m = nth_error l m.
Proof. induction l as [|x r IH]; intros [|n] [|m] H; cbn; auto; try congruence. Qed.
Lemma upd_nth_beyond {X} (f : X -> X) : forall l n, length l <= n -> upd_nth n f l = l.
Proof. induction l as [|x r IH]; intros [|n] H; cbn in *; auto; try lia. f_equal. apply IH. lia. Qed.
Lemma upd_nth_map {X Y} (g : X -> Y) (f : X -> X) : (forall x, g (f x) = g x) -> forall l n, map g (upd_nth n f l) = map g l.
Proof. intros H. induction l as [|x r IH]; intros [|n]; cbn; auto; f_equal; auto. Qed.
Lemma upd_nth_in {X} (f : X -> X) : forall l n s, In s (upd_nth n f l) -> exists s0, In s0 l /\ (s = s0 \/ s = f s0).
Proof.
  induction l as [|x r IH]; intros [|n] s; cbn; try tauto.
  - intros [<-|H]; [exists x; auto|exists s; auto].
  - intros [<-|H]; [exists x; auto|]. destruct (IH n s H) as (s0 & Hi & Hs). exists s0. auto.
Qed.
Lemma upd_nth_app_l {X} (f : X -> X) : forall l l' n, n < length l -> upd_nth n f (l ++ l') = upd_nth n f l ++ l'.
Proof. induction l as [|x r IH]; intros l' [|n] H; cbn in *; try lia; auto. f_equal. apply IH. lia. Qed.
Lemma NoDup_app_single {X} (l : list X) x : NoDup l -> ~ In x l -> NoDup (l ++ [x]).
Proof.
  induction l as [|y r IH]; intros Hn Hx; cbn; [constructor; [tauto|constructor]|].
  inversion Hn; subst. constructor.
  - intros Hin. apply in_app_or in Hin. destruct Hin as [Hin|[->|[]]]; [tauto|]. apply Hx. left. reflexivity.
  - apply IH; [assumption|]. intros Hin. apply Hx. right. exact Hin.
Qed.
Lemma nth_error_map_seq {X} (g : nat -> option X) (l : list X) :
  (forall i, i < length l -> g i = nth_error l i) -> map g (seq 0 (length l)) = map Some l.
Proof.
  revert g. induction l as [|x r IH]; intros g H; [reflexivity|]. cbn [length seq map]. f_equal; [apply (H 0); cbn; lia|].
  rewrite <- seq_shift, map_map. apply IH. intros i Hi. apply (H (S i)). cbn. lia.
Qed.

(* ------------------------------------------------------------------ the invariant *)
Definition mkview (s : tstyle) (b : border) : view :=
  {| v_pad := ts_pad s; v_hfmt := ts_hfmt s; v_cfmt := ts_cfmt s; v_aligns := ts_aligns s; v_dalign := ts_dalign s;
     v_hstyle := ts_hstyle s; v_cstyle := ts_cstyle s; v_chars := bd_chars b; v_bstyle := bd_style b |}.
Lemma view_of_eq w i : view_of w i =
  match nth_error (w_styles w) i with
  | Some s => option_map (mkview s) (nth_error (w_heap w) (ts_border s))
  | None => None end.
Proof. unfold view_of, border_of. destruct (nth_error (w_styles w) i) as [s|]; [|reflexivity]. destruct (nth_error _ (ts_border s)); reflexivity. Qed.

Definition borders (w : world) : list nat := map ts_border (w_styles w).
(* a cached preset is still the preset, and no style refers to the cached object itself *)
Definition cache_ok (w : world) (b : bpreset) : Prop :=
  match cache_of w b with
  | Some c => nth_error (w_heap w) c = Some (preset_border b) /\ ~ In c (borders w)
  | None => True
  end.
Record inv (w : world) (vs : list view) : Prop := {
  inv_len : length (w_styles w) = length vs;
  inv_views : forall i, i < length vs -> view_of w i = nth_error vs i;
  inv_nodup : NoDup (borders w);                                   (* no two styles share a border object *)
  inv_bound : forall k, In k (borders w) -> k < length (w_heap w);
  inv_cache : forall b, cache_ok w b }.

Lemma inv0 : inv world0 [].
Proof.
  split.
  - reflexivity.
  - intros i H. cbn in H. lia.
  - constructor.
  - intros k [].
  - intros []; exact I.
Qed.

(* ------------------------------------------------------------------ BorderStyle.<preset>() hands out a fresh object *)
Lemma cache_of_set w b c h b' : cache_of (set_cache w b c h) b' = if match b, b' with BNone, BNone | BAscii, BAscii | BSolid, BSolid => true | _, _ => false end then Some c else cache_of w b'.
Proof. destruct b, b'; reflexivity. Qed.
Lemma styles_set_cache w b c h : w_styles (set_cache w b c h) = w_styles w. Proof. destruct b; reflexivity. Qed.
Lemma heap_set_cache w b c h : w_heap (set_cache w b c h) = h. Proof. destruct b; reflexivity. Qed.

Lemma get_border_fresh w vs b : inv w vs ->
  let w1 := fst (get_border false w b) in let k := snd (get_border false w b) in
  inv w1 vs /\ w_styles w1 = w_styles w /\ nth_error (w_heap w1) k = Some (preset_border b) /\ S k = length (w_heap w1) /\
  ~ In k (borders w1) /\ (forall b' c, cache_of w1 b' = Some c -> c <> k).
Proof.
  intros [Hl Hv Hn Hb Hc]. unfold get_border. destruct (cache_of w b) as [c|] eqn:Ec.
  - (* the preset exists: a copy of it is appended *)
    pose proof (Hc b) as Hcb. unfold cache_ok in Hcb. rewrite Ec in Hcb. destruct Hcb as [Hcn Hci].
    assert (Hlt : c < length (w_heap w)) by (apply nth_error_Some; congruence).
    rewrite (nth_error_nth _ _ _ Hcn). cbn [fst snd].
    set (w1 := with_heap w (w_heap w ++ [preset_border b])).
    assert (Hst : w_styles w1 = w_styles w) by reflexivity.
    assert (Hold : forall j, j < length (w_heap w) -> nth_error (w_heap w1) j = nth_error (w_heap w) j).
    { intros j Hj. cbn. apply nth_error_app1. exact Hj. }
    refine (conj _ (conj _ (conj _ (conj _ (conj _ _))))).
    + split.
      * exact Hl.
      * intros i Hi. rewrite <- (Hv i Hi), !view_of_eq, Hst. destruct (nth_error (w_styles w) i) as [s|] eqn:Es; [|reflexivity].
        rewrite Hold; [reflexivity|]. apply Hb. unfold borders. apply in_map. eapply nth_error_In; eauto.
      * exact Hn.
      * intros k Hk. cbn. rewrite app_length. cbn. specialize (Hb k Hk). lia.
      * intros b'. unfold cache_ok. change (cache_of w1 b') with (cache_of w b'). specialize (Hc b'). unfold cache_ok in Hc.
        destruct (cache_of w b') as [c'|]; [|exact I]. destruct Hc as [H1 H2]. split; [|exact H2].
        rewrite Hold; [exact H1|]. apply nth_error_Some. congruence.
    + reflexivity.
    + cbn. rewrite nth_error_app2 by lia. rewrite Nat.sub_diag. reflexivity.
    + cbn. rewrite app_length. cbn. lia.
    + intros Hin. specialize (Hb _ Hin). lia.
    + intros b' c' E. change (cache_of w1 b') with (cache_of w b') in E. specialize (Hc b'). unfold cache_ok in Hc. rewrite E in Hc.
      destruct Hc as [H1 _]. assert (c' < length (w_heap w)) by (apply nth_error_Some; congruence). lia.
  - (* first use: the preset is created and cached, then copied *)
    cbn [fst snd]. set (n := length (w_heap w)).
    set (w0 := set_cache w b n (w_heap w ++ [preset_border b])).
    assert (Hh0 : w_heap w0 = w_heap w ++ [preset_border b]) by apply heap_set_cache.
    assert (Hnth : nth n (w_heap w0) (preset_border b) = preset_border b).
    { rewrite Hh0. rewrite app_nth2 by (unfold n; lia). unfold n. rewrite Nat.sub_diag. reflexivity. }
    rewrite Hnth. set (w1 := with_heap w0 (w_heap w0 ++ [preset_border b])).
    assert (Hst : w_styles w1 = w_styles w) by (unfold w1; cbn; apply styles_set_cache).
    assert (Hh1 : w_heap w1 = w_heap w ++ [preset_border b; preset_border b]).
    { unfold w1. cbn. rewrite Hh0, <- app_assoc. reflexivity. }
    assert (Hold : forall j, j < n -> nth_error (w_heap w1) j = nth_error (w_heap w) j).
    { intros j Hj. rewrite Hh1. apply nth_error_app1. exact Hj. }
    assert (Hcache : forall b', cache_of w1 b' = if match b, b' with BNone, BNone | BAscii, BAscii | BSolid, BSolid => true | _, _ => false end then Some n else cache_of w b').
    { intros b'. unfold w1. change (cache_of (with_heap w0 _) b') with (cache_of w0 b'). apply cache_of_set. }
    assert (Hbor : borders w1 = borders w) by (unfold borders; rewrite Hst; reflexivity).
    refine (conj _ (conj _ (conj _ (conj _ (conj _ _))))).
    + split.
      * rewrite Hst. exact Hl.
      * intros i Hi. rewrite <- (Hv i Hi), !view_of_eq, Hst. destruct (nth_error (w_styles w) i) as [s|] eqn:Es; [|reflexivity].
        rewrite Hold; [reflexivity|]. apply Hb. unfold borders. apply in_map. eapply nth_error_In; eauto.
      * rewrite Hbor. exact Hn.
      * intros k Hk. rewrite Hbor in Hk. rewrite Hh1, app_length. cbn. specialize (Hb k Hk). lia.
      * intros b'. unfold cache_ok. rewrite Hcache, Hbor.
        destruct (match b, b' with BNone, BNone | BAscii, BAscii | BSolid, BSolid => true | _, _ => false end) eqn:Eb.
        -- assert (b' = b) as -> by (destruct b, b'; try discriminate; reflexivity). split.
           ++ rewrite Hh1, nth_error_app2 by (unfold n; lia). unfold n. rewrite Nat.sub_diag. reflexivity.
           ++ intros Hin. specialize (Hb _ Hin). unfold n in Hb. lia.
        -- specialize (Hc b'). unfold cache_ok in Hc. destruct (cache_of w b') as [c'|]; [|exact I]. destruct Hc as [H1 H2].
           split; [|exact H2]. rewrite Hold; [exact H1|]. apply nth_error_Some. congruence.
    + exact Hst.
    + rewrite Hh1, Hh0, app_length. cbn [length]. fold n. rewrite nth_error_app2 by (unfold n; lia). replace (n + 1 - length (w_heap w)) with 1 by (unfold n; lia). reflexivity.
    + rewrite Hh0, Hh1, !app_length. cbn [length]. lia.
    + rewrite Hbor, Hh0, app_length. cbn [length]. intros Hin. specialize (Hb _ Hin). fold n in Hb. lia.
    + intros b' c' E. rewrite Hcache in E. rewrite Hh0, app_length. cbn [length]. fold n.
      destruct (match b, b' with BNone, BNone | BAscii, BAscii | BSolid, BSolid => true | _, _ => false end).
      * injection E as <-. lia.
      * specialize (Hc b'). unfold cache_ok in Hc. rewrite E in Hc. destruct Hc as [H1 _].
        assert (c' < n) by (apply nth_error_Some; congruence). lia.
Qed.

(* a new style around a fresh border object k, the object first edited by g (borderless / compact assign three characters) *)
Lemma add_style_inv w vs k pb g hf cf : inv w vs ->
  nth_error (w_heap w) k = Some pb -> S k = length (w_heap w) -> ~ In k (borders w) -> (forall b c, cache_of w b = Some c -> c <> k) ->
  inv (with_styles (with_heap w (upd_nth k g (w_heap w))) (w_styles w ++ [new_tstyle hf cf k]))
      (vs ++ [mkview (new_tstyle hf cf k) (g pb)]).
Proof.
  intros [Hl Hv Hn Hb Hc] Hk Hlast Hfresh Hcne.
  assert (Hlt : k < length (w_heap w)) by lia.
  split; cbn [w_styles w_heap with_styles with_heap].
  - rewrite !app_length. cbn. lia.
  - intros i Hi. rewrite app_length in Hi. cbn in Hi. rewrite view_of_eq. cbn [w_styles w_heap with_styles with_heap].
    destruct (Nat.eq_dec i (length vs)) as [->|Hne].
    + rewrite <- Hl at 1. rewrite nth_error_app2 by lia. rewrite Nat.sub_diag. cbn [nth_error new_tstyle ts_border].
      rewrite upd_nth_same, Hk. cbn [option_map]. rewrite nth_error_app2 by lia. rewrite Nat.sub_diag. reflexivity.
    + assert (Hi' : i < length vs) by lia. rewrite (nth_error_app1 vs) by exact Hi'. rewrite <- (Hv i Hi'), view_of_eq.
      rewrite nth_error_app1 by lia. destruct (nth_error (w_styles w) i) as [s|] eqn:Es; [|reflexivity].
      rewrite upd_nth_other; [reflexivity|]. intros ->. apply Hfresh. unfold borders. apply in_map. eapply nth_error_In; eauto.
  - unfold borders. cbn [w_styles with_styles]. rewrite map_app. cbn [map new_tstyle ts_border].
    apply NoDup_app_single; [exact Hn|exact Hfresh].
  - intros j Hj. unfold borders in Hj. cbn [w_styles with_styles] in Hj. rewrite map_app in Hj. rewrite upd_nth_length.
    apply in_app_or in Hj. destruct Hj as [Hj|[<-|[]]]; [apply Hb, Hj|cbn; lia].
  - intros b. unfold cache_ok. change (cache_of (with_styles _ _) b) with (cache_of w b). specialize (Hc b). unfold cache_ok in Hc.
    destruct (cache_of w b) as [c|] eqn:Ec; [|exact I]. destruct Hc as [H1 H2]. split.
    + cbn [w_heap with_styles with_heap]. rewrite upd_nth_other; [exact H1|]. intros ->. exact (Hcne b c Ec eq_refl).
    + unfold borders. cbn [w_styles with_styles]. rewrite map_app. intros Hin. apply in_app_or in Hin. destruct Hin as [Hin|[<-|[]]]; [exact (H2 Hin)|].
      exact (Hcne b _ Ec eq_refl).
Qed.

Lemma upd_nth_id {X} : forall (l : list X) n, upd_nth n (fun x => x) l = l.
Proof. induction l as [|x r IH]; intros [|n]; cbn; auto. f_equal. apply IH. Qed.
Lemma with_heap_same w : with_heap w (w_heap w) = w.
Proof. destruct w; reflexivity. Qed.

(* TableStyle.<preset>(): a new style whose view is the preset's, every other view as before *)
Lemma mk_style_inv w vs p : inv w vs -> inv (mk_style false w p) (vs ++ [init_view p]).
Proof.
  intros Hi. destruct p; unfold mk_style.
  - pose proof (get_border_fresh w vs BNone Hi) as H. destruct (get_border false w BNone) as [w1 k]. cbn [fst snd] in H.
    destruct H as (Hi1 & Hst & Hk & Hlen & Hfr & Hcn).
    exact (add_style_inv w1 vs k (preset_border BNone) _ fmt_plain fmt_plain Hi1 Hk Hlen Hfr Hcn).
  - pose proof (get_border_fresh w vs BNone Hi) as H. destruct (get_border false w BNone) as [w1 k]. cbn [fst snd] in H.
    destruct H as (Hi1 & Hst & Hk & Hlen & Hfr & Hcn).
    exact (add_style_inv w1 vs k (preset_border BNone) _ fmt_plain fmt_plain Hi1 Hk Hlen Hfr Hcn).
  - pose proof (get_border_fresh w vs BAscii Hi) as H. destruct (get_border false w BAscii) as [w1 k]. cbn [fst snd] in H.
    destruct H as (Hi1 & Hst & Hk & Hlen & Hfr & Hcn).
    pose proof (add_style_inv w1 vs k (preset_border BAscii) (fun x => x) fmt_padded fmt_padded Hi1 Hk Hlen Hfr Hcn) as R.
    rewrite upd_nth_id, with_heap_same in R. exact R.
  - pose proof (get_border_fresh w vs BSolid Hi) as H. destruct (get_border false w BSolid) as [w1 k]. cbn [fst snd] in H.
    destruct H as (Hi1 & Hst & Hk & Hlen & Hfr & Hcn).
    pose proof (add_style_inv w1 vs k (preset_border BSolid) (fun x => x) fmt_padded fmt_padded Hi1 Hk Hlen Hfr Hcn) as R.
    rewrite upd_nth_id, with_heap_same in R. exact R.
Qed.

(* an assignment to a field of style i itself *)
Lemma field_update_inv w vs i (f : tstyle -> tstyle) (g : view -> view) : inv w vs ->
  (forall s, ts_border (f s) = ts_border s) -> (forall s b, mkview (f s) b = g (mkview s b)) ->
  inv (with_styles w (upd_nth i f (w_styles w))) (upd_nth i g vs).
Proof.
  intros [Hl Hv Hn Hb Hc] Hfb Hfg.
  assert (Hbor : borders (with_styles w (upd_nth i f (w_styles w))) = borders w).
  { unfold borders. cbn [w_styles with_styles]. apply upd_nth_map. exact Hfb. }
  split.
  - cbn [w_styles with_styles]. rewrite !upd_nth_length. exact Hl.
  - intros j Hj. rewrite upd_nth_length in Hj. rewrite view_of_eq. cbn [w_styles w_heap with_styles].
    destruct (Nat.eq_dec i j) as [->|Hne].
    + rewrite !upd_nth_same, <- (Hv j Hj), view_of_eq. destruct (nth_error (w_styles w) j) as [s|]; [|reflexivity].
      cbn [option_map]. rewrite Hfb. destruct (nth_error (w_heap w) (ts_border s)) as [b|]; [|reflexivity]. cbn [option_map]. now rewrite Hfg.
    + rewrite !upd_nth_other by exact Hne. rewrite <- (Hv j Hj), view_of_eq. reflexivity.
  - rewrite Hbor. exact Hn.
  - rewrite Hbor. exact Hb.
  - intros b. unfold cache_ok. rewrite Hbor. exact (Hc b).
Qed.

(* an assignment THROUGH the reference of style i: only the border object of i changes, and no other style holds it *)
Lemma NoDup_nth_error_inj {X} (l : list X) : NoDup l -> forall i j x, nth_error l i = Some x -> nth_error l j = Some x -> i = j.
Proof.
  intros H i j x Hi Hj. assert (i < length l) by (apply nth_error_Some; congruence).
  apply (proj1 (NoDup_nth_error l) H i j); [assumption|congruence].
Qed.
Lemma border_update_inv w vs i (f : border -> border) (g : view -> view) : inv w vs ->
  (forall s b, mkview s (f b) = g (mkview s b)) ->
  inv (on_border w i f) (upd_nth i g vs).
Proof.
  intros Hi Hfg. pose proof Hi as [Hl Hv Hn Hb Hc]. unfold on_border.
  destruct (nth_error (w_styles w) i) as [si|] eqn:Esi.
  2:{ rewrite upd_nth_beyond; [exact Hi|]. rewrite <- Hl. apply nth_error_None. exact Esi. }
  assert (Hini : In (ts_border si) (borders w)) by (unfold borders; apply in_map; eapply nth_error_In; eauto).
  split.
  - cbn [w_styles with_heap]. rewrite upd_nth_length. exact Hl.
  - intros j Hj. rewrite upd_nth_length in Hj. rewrite view_of_eq. cbn [w_styles w_heap with_heap].
    destruct (Nat.eq_dec i j) as [->|Hne].
    + rewrite Esi, !upd_nth_same, <- (Hv j Hj), view_of_eq, Esi.
      destruct (nth_error (w_heap w) (ts_border si)) as [b|]; [|reflexivity]. cbn [option_map]. now rewrite Hfg.
    + rewrite (upd_nth_other g) by exact Hne. rewrite <- (Hv j Hj), view_of_eq.
      destruct (nth_error (w_styles w) j) as [sj|] eqn:Esj; [|reflexivity].
      rewrite upd_nth_other; [reflexivity|]. intros Heq. apply Hne.
      apply (NoDup_nth_error_inj (borders w) Hn i j (ts_border si)); unfold borders; rewrite nth_error_map.
      * rewrite Esi. reflexivity.
      * rewrite Esj. cbn. now rewrite Heq.
  - exact Hn.
  - intros k Hk. cbn [w_heap with_heap]. rewrite upd_nth_length. apply Hb. exact Hk.
  - intros b. unfold cache_ok. change (cache_of (with_heap w _) b) with (cache_of w b). specialize (Hc b). unfold cache_ok in Hc.
    destruct (cache_of w b) as [c|]; [|exact I]. destruct Hc as [H1 H2]. split; [|exact H2].
    cbn [w_heap with_heap]. rewrite upd_nth_other; [exact H1|]. intros <-. exact (H2 Hini).
Qed.

(* ------------------------------------------------------------------ the refinement *)
Lemma style_step_inv w vs o : inv w vs -> inv (fst (style_step false w o)) (spec_step vs o).
Proof.
  intros Hi. destruct o as [p|i f v|i z|i col al|i al|i k v|i v|i]; cbn [style_step spec_step fst].
  - apply mk_style_inv. exact Hi.
  - apply field_update_inv; [exact Hi|destruct f; reflexivity|destruct f; reflexivity].
  - apply field_update_inv; [exact Hi|reflexivity|reflexivity].
  - apply (field_update_inv w vs i _ (fun v => vwith_aligns (set_alignment (v_dalign v) col al (v_aligns v)) v)); [exact Hi|reflexivity|reflexivity].
  - apply (field_update_inv w vs i _ (fun v => vwith_aligns (v_aligns v ++ [al]) v)); [exact Hi|reflexivity|reflexivity].
  - apply (border_update_inv w vs i _ (fun x => vwith_chars (upd_nth k (fun _ => v) (v_chars x)) x)); [exact Hi|reflexivity].
  - apply (border_update_inv w vs i _ (vwith_bstyle v)); [exact Hi|reflexivity].
  - exact Hi.
Qed.
Lemma style_run_inv : forall ops w vs, inv w vs -> inv (fst (style_run false w ops)) (spec_run vs ops).
Proof.
  induction ops as [|o r IH]; intros w vs Hi; cbn [style_run spec_run fold_left fst]; [exact Hi|].
  pose proof (style_step_inv w vs o Hi) as H1. destruct (style_step false w o) as [w' out]. cbn [fst] in H1.
  specialize (IH w' (spec_step vs o) H1). destruct (style_run false w' r) as [w'' outs]. exact IH.
Qed.
Lemma inv_views_all w vs : inv w vs -> views w = map Some vs.
Proof. intros [Hl Hv _ _ _]. unfold views. rewrite Hl. apply nth_error_map_seq. exact Hv. Qed.

(* every sequence of creating, customising and rendering styles, from the start of the process: the heap of style objects
   shows, style by style, exactly what the value specification shows *)
Theorem heap_refines_values ops : views (fst (style_run false world0 ops)) = map Some (spec_run [] ops).
Proof. apply inv_views_all, style_run_inv, inv0. Qed.
(* ... also what each rendering on the way reads *)
Lemma style_run_renders : forall ops w vs, inv w vs ->
  snd (style_run false w ops) =
  (fix go (vs : list view) (ops : list sop) : list (option view) :=
     match ops with
     | [] => []
     | o :: r => match o with SRender i => nth_error vs i :: go vs r | _ => go (spec_step vs o) r end
     end) vs ops.
Proof.
  induction ops as [|o r IH]; intros w vs Hi; cbn [style_run snd]; [reflexivity|].
  pose proof (style_step_inv w vs o Hi) as H1. destruct (style_step false w o) as [w' out] eqn:Es. cbn [fst] in H1.
  specialize (IH w' (spec_step vs o) H1). destruct (style_run false w' r) as [w'' outs]. cbn [snd] in *.
  destruct o as [p|i f v|i z|i col al|i al|i k v|i v|i]; try exact IH.
  cbn [style_step] in Es. injection Es as <- <-. cbn [spec_step] in IH. rewrite IH. f_equal.
  destruct Hi as [Hl Hv _ _ _]. destruct (Nat.lt_ge_cases i (length vs)) as [Hlt|Hge]; [apply Hv, Hlt|].
  rewrite (proj2 (nth_error_None vs i) Hge). rewrite view_of_eq. rewrite <- Hl in Hge. now rewrite (proj2 (nth_error_None _ i) Hge).
Qed.

(* ------------------------------------------------------------------ independence *)
Definition names (o : sop) : option nat :=
  match o with
  | SMk _ => None | STSet i _ _ => Some i | STDalign i _ => Some i | SAlign i _ _ => Some i | SAppendAlign i _ => Some i
  | SBSet i _ _ => Some i | SBStyle i _ => Some i | SRender _ => None
  end.
Lemma spec_step_other vs o i : i < length vs -> names o <> Some i -> nth_error (spec_step vs o) i = nth_error vs i.
Proof.
  intros Hi Hn. destruct o; cbn [spec_step names] in *; try reflexivity; try (apply upd_nth_other; congruence).
  apply nth_error_app1. exact Hi.
Qed.
(* creating a style, or customising style j, never changes what a rendering of another existing style i reads *)
Lemma styles_independent_lemma ops o i :
  let w := fst (style_run false world0 ops) in
  i < length (w_styles w) -> names o <> Some i ->
  view_of (fst (style_step false w o)) i = view_of w i.
Proof.
  cbv zeta. intros Hi Hn.
  pose proof (style_run_inv ops world0 [] inv0) as I1. pose proof (style_step_inv _ _ o I1) as I2.
  destruct I1 as [Hl1 Hv1 _ _ _]. destruct I2 as [Hl2 Hv2 _ _ _]. rewrite Hl1 in Hi.
  rewrite Hv1 by exact Hi. rewrite <- (spec_step_other _ o i Hi Hn). apply Hv2.
  destruct o; cbn [spec_step]; rewrite ?upd_nth_length, ?app_length; lia.
Qed.

(* ------------------------------------------------------------------ without the copy it is false *)
(* BorderStyle.none() handing out the cached object itself (before fix 30a48a0): borderless(), then compact() - the first
   style's separator characters are now those of the second *)
Example styles_shared_refuted :
  nth_error (views (fst (style_run true world0 [SMk PBorderless; SMk PCompact]))) 0
  <> nth_error (map Some (spec_run [] [SMk PBorderless; SMk PCompact])) 0.
Proof. vm_compute. discriminate. Qed.
Example styles_copied_ok :
  views (fst (style_run false world0 [SMk PBorderless; SMk PCompact; SBSet 1 4 c_eq; SAlign 0 2 1; SMk PSolid]))
  = map Some (spec_run [] [SMk PBorderless; SMk PCompact; SBSet 1 4 c_eq; SAlign 0 2 1; SMk PSolid]).
Proof. vm_compute. reflexivity. Qed.
