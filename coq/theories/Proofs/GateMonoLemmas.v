(* C10, added after the Coq review (REPORT "C10: minor issues" 3):
     - monotonicity at the level of the entry points (emits), not only of the gate function;
     - the section index of the composed model (Model/GatedSection.v): what gstep does on an index that names no
       section, and the gate statements with the in-range guard spelled out.

   The index is an artefact of the model: in the code the target of a call is a SectionOutput OBJECT, so a call on a
   section that does not exist cannot be written down; the harness keeps the created sections in a Python list and only
   draws indexes below the number created so far (an index beyond it would be an IndexError of the harness's own list,
   raised before clikit is entered).  The model totalises: gate_of uses the `nth` default (a fresh gate: not quiet,
   NORMAL) and Section.v's steps return the state unchanged for an index without section - so the step is the identity
   and returns Ok whatever the gate says. *)
From Coq Require Import Lia.
From Clikit Require Import Base.Prelude Base.Res Base.Term Model.Conv Model.Markup Model.Gate Model.Section Model.GatedSection
     Proofs.GateLemmas Proofs.MarkupLemmas Proofs.SectionLemmas Proofs.GatedSectionLemmas.

(* ---------- monotonicity of the entry points ---------- *)
(* the gate function is monotone in the verbosity for EVERY integer (gate_monotone of Props/C10.v asks 0 <= v, which
   only the reading through lowest_level needs) *)
Lemma may_write_monotone_lemma v v' f : (v <= v')%Z -> may_write false v f = true -> may_write false v' f = true.
Proof.
  intros Hv. unfold may_write.
  destruct (negb (Z.land _ VERBOSE =? 0)%Z); [rewrite !Z.leb_le; lia|].
  destruct (negb (Z.land _ VERY_VERBOSE =? 0)%Z); [rewrite !Z.leb_le; lia|].
  destruct (negb (Z.land _ DEBUG =? 0)%Z); [rewrite !Z.leb_le; lia|]. auto.
Qed.
(* an entry point that emits at verbosity v (whatever quiet was: it must have been off) emits at every higher verbosity of
   a non-quiet output *)
Lemma emits_monotone_lemma : forall k a m q v v' f, (v <= v')%Z ->
  emits k a m q v f = true -> emits k a m false v' f = true.
Proof.
  intros k a m q v v' f Hv. unfold emits. destruct (path k a m) as [p|]; [|discriminate].
  induction p as [|s r IH]; cbn [forallb]; [reflexivity|]. intros H. apply andb_prop in H as [H1 H2].
  apply andb_true_intro. split; [|apply IH; assumption].
  destruct q; [rewrite quiet_silent_lemma in H1; discriminate|]. eapply may_write_monotone_lemma; eauto.
Qed.
(* contrapositive: what is silent at v' was silent at every lower verbosity *)
Lemma emits_antitone_lemma : forall k a m q v v' f, (v <= v')%Z ->
  emits k a m false v' f = false -> emits k a m q v f = false.
Proof.
  intros k a m q v v' f Hv H. destruct (emits k a m q v f) eqn:E; [|reflexivity].
  rewrite (emits_monotone_lemma k a m q v v' f Hv E) in H. discriminate.
Qed.
(* quiet silences every entry point that writes text at all *)
Lemma emits_quiet_lemma : forall k a m v f, emits k a m true v f = false.
Proof.
  intros k a m v f. unfold emits. destruct (path k a m) as [[|s r]|] eqn:E; [|reflexivity|reflexivity].
  destruct k, a, m; cbn in E; discriminate.
Qed.

(* ---------- the section index ---------- *)
(* the section a call is made on *)
Definition target (o : gop) : option nat :=
  match o with
  | GCreate => None
  | GWrite i _ _ _ | GOverwrite i _ | GClear i _ | GIndent i _ | GSetQuiet i _ | GSetVerbosity i _ => Some i
  end.
(* the flags a call asks its section's gate with (None for overwrite / clear, which have no flags parameter) *)
Definition gate_asked (o : gop) : option (nat * option Z) :=
  match o with
  | GWrite i _ f _ => Some (i, f)
  | GOverwrite i _ | GClear i _ => Some (i, None)
  | _ => None
  end.
(* the call names an existing section (GCreate names none) *)
Definition in_range (st : secs) (gs : gates) (o : gop) : Prop :=
  match target o with Some i => i < length st /\ i < length gs | None => True end.

(* in range, the gate asked is the one of the section itself ... *)
Lemma allowed_in_range_lemma gs o i fl g : gate_asked o = Some (i, fl) -> nth_error gs i = Some g ->
  allowed gs o = may_write (g_quiet g) (g_verb g) fl.
Proof.
  intros Ha Hg. assert (g = gate_of gs i) as -> by (unfold gate_of; symmetry; now apply nth_error_nth).
  destruct o; cbn in Ha; inversion Ha; subst; reflexivity.
Qed.
(* ... out of range it is the `nth` default, a fresh gate *)
Lemma allowed_out_of_range_lemma gs o i fl : gate_asked o = Some (i, fl) -> length gs <= i ->
  allowed gs o = may_write false NORMAL fl.
Proof.
  intros Ha Hl. assert (gate_of gs i = new_gate) as Eg by (unfold gate_of; now apply nth_overflow).
  destruct o; cbn in Ha; inversion Ha; subst; cbn [allowed]; unfold asks; rewrite Eg; reflexivity.
Qed.

(* a call on an index that names no section is the identity and returns Ok - whether its flags would pass or not *)
Lemma gstep_nonexistent_section_lemma ansi w st gs f o i : target o = Some i -> length st <= i -> length gs <= i ->
  gstep ansi w st gs f o = Ok (st, gs, f, []).
Proof.
  intros Ht Hs Hg. assert (nth_error st i = None) as Es by now apply nth_error_None.
  assert (nth_error gs i = None) as Eg by now apply nth_error_None.
  destruct o; cbn in Ht; inversion Ht; subst; unfold gstep; cbn [sop_of gates_step]; rewrite ?Eg; try reflexivity;
    (destruct (allowed gs _); [|reflexivity]); unfold sec_step; destruct ansi; cbn [sstep sstep_ansi sstep_plain]; rewrite ?Es; cbn [bind fst snd]; rewrite ?Es; reflexivity.
Qed.

(* in range, the step: refused iff the section's OWN gate refuses the flags asked, and then the identity; otherwise the
   Section.v step of that (existing) section, the settings untouched *)
Lemma gstep_in_range_lemma ansi w st gs f o i fl g so : gate_asked o = Some (i, fl) -> sop_of o = Some so ->
  nth_error gs i = Some g ->
  gstep ansi w st gs f o =
    if may_write (g_quiet g) (g_verb g) fl
    then do a <- sec_step ansi w st f so; Ok (fst (fst a), gs, snd (fst a), snd a)
    else Ok (st, gs, f, []).
Proof.
  intros Ha Hso Hg. unfold gstep. rewrite Hso, (allowed_in_range_lemma gs o i fl g Ha Hg).
  destruct (may_write (g_quiet g) (g_verb g) fl); [|reflexivity].
  destruct o; cbn in Ha; inversion Ha; subst; reflexivity.
Qed.

(* the settings list stays parallel to the sections, so "in range" is one condition, and a run that starts with no
   section (as every run of the driver does) keeps them parallel *)
Lemma set_sec_length st i s x : nth_error st i = Some x -> length (set_sec st i s) = length st.
Proof.
  intros H. unfold set_sec. rewrite app_length. cbn [length].
  assert (i < length st) as Hi by (apply nth_error_Some; congruence).
  rewrite firstn_length, skipn_length. lia.
Qed.
Lemma sstep_ansi_length w st f so st' f' es : sstep_ansi w st f so = Ok (st', f', es) ->
  length st' = length st + match so with SCreate => 1 | _ => 0 end.
Proof.
  destruct so as [|i text nl|i text|i n|i n]; cbn [sstep_ansi]; intros H.
  - inversion H; subst. rewrite app_length. cbn. lia.
  - destruct (nth_error st i) eqn:E; [|inversion H; subst; lia].
    destruct (measure w f _ _) as [m|]; cbn [bind] in H; [|discriminate].
    destruct (format (fst m) _ None) as [x|]; cbn [bind] in H; [|discriminate].
    destruct (format (fst x) _ None) as [y|]; cbn [bind] in H; [|discriminate].
    inversion H; subst. rewrite (set_sec_length _ _ _ _ E). lia.
  - inversion H; subst. lia.
  - destruct (nth_error st i) eqn:E; [|inversion H; subst; lia].
    destruct (sc_content s); [inversion H; subst; lia|].
    match type of H with bind ?x _ = _ => destruct x as [[[keep rc] f1]|] end; cbn [bind] in H; [|discriminate].
    destruct (format f1 _ None) as [y|]; cbn [bind] in H; [|discriminate].
    inversion H; subst. rewrite (set_sec_length _ _ _ _ E). lia.
  - destruct (nth_error st i) eqn:E; inversion H; subst; [rewrite (set_sec_length _ _ _ _ E)|]; lia.
Qed.
Lemma sec_step_length ansi w st f so st' f' es : sec_step ansi w st f so = Ok (st', f', es) ->
  length st' = length st + match so with SCreate => 1 | _ => 0 end.
Proof.
  unfold sec_step. destruct ansi.
  - destruct so as [|i text nl|i text|i n|i n]; try apply sstep_ansi_length.
    cbn [sstep]. intros H.
    destruct (sstep_ansi w st f (SClear i None)) as [[[st1 f1] e1]|] eqn:E1; cbn [bind fst snd] in H; [|discriminate].
    destruct (sstep_ansi w st1 f1 (SWrite i text true)) as [[[st2 f2] e2]|] eqn:E2; cbn [bind fst snd] in H; [|discriminate].
    inversion H; subst. apply sstep_ansi_length in E1, E2. lia.
  - destruct so as [|i text nl|i text|i n|i n]; cbn [sstep_plain]; intros H.
    + inversion H; subst. rewrite app_length. cbn. lia.
    + destruct (nth_error st i) eqn:E; [|inversion H; subst; lia].
      destruct (write_plain f _ text nl); cbn [bind] in H; inversion H; subst; lia.
    + destruct (nth_error st i) eqn:E; [|inversion H; subst; lia].
      destruct (write_plain f _ text true); cbn [bind] in H; inversion H; subst; lia.
    + inversion H; subst. lia.
    + destruct (nth_error st i) eqn:E; inversion H; subst; [rewrite (set_sec_length _ _ _ _ E)|]; lia.
Qed.
Lemma gstep_parallel ansi w st gs f o st' gs' f' es :
  gstep ansi w st gs f o = Ok (st', gs', f', es) -> length gs = length st -> length gs' = length st'.
Proof.
  unfold gstep. destruct (sop_of o) as [so|] eqn:Eso.
  - destruct (allowed gs o); [|intros H; inversion H; subst; auto].
    destruct (sec_step ansi w st f so) as [[[st1 f1] e1]|] eqn:E; cbn [bind fst snd]; [|discriminate].
    intros H Hl. inversion H; subst. rewrite gates_step_length, (sec_step_length _ _ _ _ _ _ _ _ E), Hl.
    destruct o; cbn in Eso; inversion Eso; subst; reflexivity.
  - intros H Hl. inversion H; subst. rewrite gates_step_length, Hl. destruct o; cbn in Eso; try discriminate; lia.
Qed.
Lemma grun_parallel_lemma ansi w : forall ops st gs f st' gs' f' es,
  grun ansi w st gs f ops = Ok (st', gs', f', es) -> length gs = length st -> length gs' = length st'.
Proof.
  induction ops as [|o r IH]; intros st gs f st' gs' f' es H Hl; cbn [grun] in H.
  - inversion H; subst. exact Hl.
  - destruct (gstep ansi w st gs f o) as [[[[st1 gs1] f1] e1]|] eqn:E; cbn [bind fst snd] in H; [|discriminate].
    destruct (grun ansi w st1 gs1 f1 r) as [[[[st2 gs2] f2] e2]|] eqn:E2; cbn [bind fst snd] in H; [|discriminate].
    inversion H; subst. eapply IH; [exact E2|]. eapply gstep_parallel; eauto.
Qed.

(* the calls of a sequence all name sections that exist when they are made (sections are only ever added) *)
Fixpoint ops_in_range (n : nat) (ops : list gop) : bool :=
  match ops with
  | [] => true
  | o :: r => match target o with Some i => Nat.ltb i n | None => true end &&
              ops_in_range (n + match o with GCreate => 1 | _ => 0 end) r
  end.
