(* ConfirmationQuestion: what "the answer matches the pattern" means for the prefix patterns of the model, with and without
   the (?i) flag, characterised on the strings themselves; the general answer table (ask_confirm_g) and its relation to the
   case-insensitive entry point (ask_confirm). *)
From Coq Require Import List NArith Bool Lia.
From Clikit Require Import Base.Prelude Base.Res Model.Conv Model.Question.
Import ListNotations.

Lemma starts_with_cs_iff p s : starts_with_cs p s = true <-> exists t, s = p ++ t.
Proof.
  revert s; induction p as [|a p IH]; intros s; cbn [starts_with_cs].
  - split; [intros _; exists s; reflexivity | reflexivity].
  - destruct s as [|b s].
    + split; [discriminate | intros [t Ht]; discriminate Ht].
    + rewrite andb_true_iff, N.eqb_eq, IH. split.
      * intros [-> [t ->]]. exists t. reflexivity.
      * intros [t Ht]. cbn [app] in Ht. injection Ht as -> ->. split; [reflexivity | exists t; reflexivity].
Qed.

Lemma starts_with_ci_iff p s :
  starts_with_ci p s = true <-> exists u t, s = u ++ t /\ map lower_char u = map lower_char p.
Proof.
  revert s; induction p as [|a p IH]; intros s; cbn [starts_with_ci].
  - split; [intros _; exists [], s; split; reflexivity | reflexivity].
  - destruct s as [|b s].
    + split; [discriminate |].
      intros [u [t [Hs Hm]]]. destruct u as [|x u]; [discriminate Hm | discriminate Hs].
    + rewrite andb_true_iff, N.eqb_eq, IH. split.
      * intros [Hab [u [t [-> Hm]]]]. exists (b :: u), t. split; [reflexivity |]. cbn [map]. rewrite Hm, Hab. reflexivity.
      * intros [u [t [Hs Hm]]]. destruct u as [|x u]; [discriminate Hm |].
        cbn [app] in Hs. injection Hs as -> ->. cbn [map] in Hm. injection Hm as Hx Hm.
        split; [symmetry; exact Hx | exists u, t; split; [reflexivity | exact Hm]].
Qed.

Lemma starts_with_cs_implies_ci p s : starts_with_cs p s = true -> starts_with_ci p s = true.
Proof.
  rewrite starts_with_cs_iff, starts_with_ci_iff. intros [t ->]. exists p, t. split; reflexivity.
Qed.

Lemma ask_confirm_is_g_ci inter dflt prefix script : ask_confirm inter dflt prefix script = ask_confirm_g true inter dflt prefix script.
Proof. reflexivity. Qed.

Lemma confirm_table_g ci dflt prefix line rest :
  ask_confirm_g ci true dflt prefix (line :: rest)
  = (CBool (match strip_ws line with [] => dflt | t => (if ci then starts_with_ci else starts_with_cs) prefix t end), 1).
Proof. unfold ask_confirm_g. cbn [negb]. destruct (strip_ws line); reflexivity. Qed.

(* the statement of the property, on strings: *)
Lemma confirm_true_iff ci dflt prefix line rest :
  fst (ask_confirm_g ci true dflt prefix (line :: rest)) = CBool true <->
  (strip_ws line = [] /\ dflt = true) \/
  (strip_ws line <> [] /\
   if ci then exists u t, strip_ws line = u ++ t /\ map lower_char u = map lower_char prefix
   else exists t, strip_ws line = prefix ++ t).
Proof.
  rewrite confirm_table_g. cbn [fst]. destruct (strip_ws line) as [|c l] eqn:E.
  - split.
    + intros H. injection H as ->. left. split; reflexivity.
    + intros [[_ ->] | [H _]]; [reflexivity | contradiction H; reflexivity].
  - split.
    + intros H. injection H as H. right. split; [discriminate |].
      destruct ci; [apply starts_with_ci_iff | apply starts_with_cs_iff]; exact H.
    + intros [[H _] | [_ H]]; [discriminate H |].
      f_equal. destruct ci; [apply starts_with_ci_iff | apply starts_with_cs_iff]; exact H.
Qed.

Lemma confirm_g_non_interactive ci dflt prefix script : ask_confirm_g ci false dflt prefix script = (CBool dflt, 0).
Proof. reflexivity. Qed.

Lemma confirm_g_end_of_input ci dflt prefix : ask_confirm_g ci true dflt prefix [] = (CAborted, 0).
Proof. reflexivity. Qed.

(* the case matters without the flag, and only then *)
Example case_matters_without_the_flag :
  fst (ask_confirm_g false true false [89%N] ([121%N] :: [])) = CBool false /\
  fst (ask_confirm_g true true false [89%N] ([121%N] :: [])) = CBool true /\
  fst (ask_confirm_g false true false [89%N] ([89%N; 101%N; 115%N] :: [])) = CBool true.
Proof. vm_compute. repeat split. Qed.
