(* C01: the format hypothesis [fmt_ok] of parse_spells holds for every format that can be built through
   ArgsFormatBuilder / ArgsFormat (Model/Format.v).

   fmt_ok f says that the parser's own construction aug_format f (one REQUIRED pseudo-argument
   "cmd<j><i>" per command name in front of the declared arguments, then the options, re-added to
   a fresh ArgsFormat) succeeds and yields what it is meant to.  It follows from
     - args_wf f                (C06: argument order rules, flags agree with the listing, names distinct),
     - akeys_inv f              (new: every argument is listed under its own name),
     - opts_inv f               (new: options are listed under their long names, their short names are
                                 indexed, and no two listed options - across the base chain - share a name),
   and these three hold for the empty builder, are kept by every builder operation and by build_format
   (so they hold for every stacked base as well).  names_wf of C06 is not needed.

   Ingredients: the decimal text of a natural number determines it and concatenations "cmd<j><i>"
   with j < j', i <= i' are distinct (valuation of digit strings); the fresh-name loop finds an unused
   name within |arguments|+1 attempts (pigeonhole); re-adding REQUIRED single-valued arguments in front
   of an order_ok list is accepted by add_argument; re-adding options with pairwise disjoint names is
   accepted by add_option. *)
From Coq Require Import Lia DecimalPos DecimalZ.
From Clikit Require Import Base.Prelude Base.Res Model.Conv Model.Flags Model.Format Model.Parser Model.Spell
     Proofs.StrLemmas Proofs.FormatLemmas Proofs.SpellOpts.

(* ====================================================================================== *)
(* 1. decimal texts                                                                        *)
(* ====================================================================================== *)
Fixpoint valf (acc : N) (s : str) : N :=
  match s with [] => acc | c :: r => valf (10 * acc + (c - 48)) r end.

Lemma valf_app a s t : valf a (s ++ t) = valf (valf a s) t.
Proof. revert a. induction s as [|c r IH]; intros a; cbn [app valf]; [reflexivity|apply IH]. Qed.

Lemma valf_shift t : forall a, valf a t = (a * 10 ^ N.of_nat (length t) + valf 0 t)%N.
Proof.
  induction t as [|c r IH]; intros a.
  - cbn [valf length N.of_nat]. rewrite N.pow_0_r. lia.
  - cbn [valf length]. rewrite (IH (10 * a + (c - 48))%N), (IH (10 * 0 + (c - 48))%N).
    rewrite Nat2N.inj_succ, N.pow_succ_r'. lia.
Qed.

Lemma valf_acc_uint u : forall acc, valf (Npos acc) (chars_of_uint u) = Npos (Pos.of_uint_acc u acc).
Proof.
  induction u as [|u IH|u IH|u IH|u IH|u IH|u IH|u IH|u IH|u IH|u IH]; intros acc;
    cbn [chars_of_uint valf Pos.of_uint_acc]; [reflexivity|..]; rewrite <- IH; f_equal; lia.
Qed.
Lemma valf_uint u : valf 0 (chars_of_uint u) = Pos.of_uint u.
Proof.
  induction u as [|u IH|u IH|u IH|u IH|u IH|u IH|u IH|u IH|u IH|u IH];
    cbn [chars_of_uint valf Pos.of_uint]; [reflexivity|exact IH|..];
    rewrite <- valf_acc_uint; f_equal.
Qed.

Lemma valf_dec_text n : valf 0 (dec_text (Z.of_nat n)) = N.of_nat n.
Proof.
  unfold dec_text. destruct n as [|n]; [reflexivity|].
  cbn [Z.of_nat Z.to_int]. rewrite valf_uint, Unsigned.of_to. reflexivity.
Qed.

Lemma dec_text_nat_inj n m : dec_text (Z.of_nat n) = dec_text (Z.of_nat m) -> n = m.
Proof.
  intros H. apply Nat2N.inj. rewrite <- (valf_dec_text n), <- (valf_dec_text m), H. reflexivity.
Qed.

Lemma pow10_pos k : (1 <= 10 ^ k)%N.
Proof. pose proof (N.pow_nonzero 10 k). lia. Qed.

(* the same j: the name determines i *)
Lemma pseudo_name_inj_i j i i' : pseudo_name j i = pseudo_name j i' -> i = i'.
Proof.
  unfold pseudo_name. intros H. apply app_inv_head in H. apply app_inv_head in H. now apply dec_text_nat_inj.
Qed.

(* different j, i not decreasing: the names differ ("cmd1"+"11" against "cmd11"+"1" needs i to decrease) *)
Lemma pseudo_name_distinct j i j' i' : j < j' -> i <= i' -> pseudo_name j i <> pseudo_name j' i'.
Proof.
  intros Hj Hi H. unfold pseudo_name in H. apply app_inv_head in H.
  apply app_eq_app in H as [t [[H1 H2]|[H1 H2]]].
  - (* dec j = dec j' ++ t *)
    assert (N.of_nat j = N.of_nat j' * 10 ^ N.of_nat (length t) + valf 0 t)%N as E.
    { rewrite <- (valf_dec_text j), H1, valf_app, valf_shift, valf_dec_text. reflexivity. }
    destruct t as [|c t].
    + rewrite app_nil_r in H1. apply dec_text_nat_inj in H1. lia.
    + cbn [length] in E. rewrite Nat2N.inj_succ, N.pow_succ_r' in E.
      pose proof (pow10_pos (N.of_nat (length t))). nia.
  - (* dec i = t ++ dec i' *)
    assert (N.of_nat i = valf 0 t * 10 ^ N.of_nat (length (dec_text (Z.of_nat i'))) + N.of_nat i')%N as E.
    { rewrite <- (valf_dec_text i) at 1. rewrite H2, valf_app, valf_shift, valf_dec_text. reflexivity. }
    pose proof (pow10_pos (N.of_nat (length (dec_text (Z.of_nat i'))))) as Hp.
    assert (i = i') as Ei by nia. subst i'.
    assert (length (dec_text (Z.of_nat i)) = length (t ++ dec_text (Z.of_nat i))) as El by (rewrite <- H2; reflexivity).
    rewrite app_length in El. destruct t as [|c t]; [|cbn in El; lia].
    rewrite app_nil_r in H1. apply dec_text_nat_inj in H1. lia.
Qed.

(* ====================================================================================== *)
(* 2. small facts about str-keyed association lists                                        *)
(* ====================================================================================== *)
Lemma shas_in_keys {V} n (d : list (str * V)) : shas n d = true -> In n (map fst d).
Proof.
  unfold shas, ahas. intros H. destruct (aget str_eqb n d) eqn:E; [|discriminate].
  apply sget_in in E. apply in_map_iff. exists (n, v). split; [reflexivity|exact E].
Qed.
Lemma keys_in_shas {V} n (d : list (str * V)) : In n (map fst d) -> shas n d = true.
Proof.
  unfold shas, ahas. intros H. destruct (aget str_eqb n d) eqn:E; [reflexivity|].
  apply sget_none_notin in E. contradiction.
Qed.
Lemma shas_false_notin {V} n (d : list (str * V)) : shas n d = false -> ~ In n (map fst d).
Proof. intros H Hi. apply keys_in_shas in Hi. congruence. Qed.
Lemma notin_shas_false {V} n (d : list (str * V)) : ~ In n (map fst d) -> shas n d = false.
Proof. intros H. destruct (shas n d) eqn:E; [|reflexivity]. apply shas_in_keys in E. contradiction. Qed.
Lemma shas_sset {V} n k (v : V) d : shas n (sset k v d) = str_eqb n k || shas n d.
Proof. unfold shas, ahas, sset. rewrite sget_sset. destruct (str_eqb n k); reflexivity. Qed.
Lemma sget_nodup_in' {V} (l : list (str * V)) n v : NoDup (map fst l) -> In (n, v) l -> sget n l = Some v.
Proof.
  induction l as [|[k w] r IH]; cbn [map fst In]; intros Hnd Hi; [contradiction|].
  inversion Hnd as [|? ? Hk Hr]; subst. cbn [sget aget]. unfold sget in IH.
  destruct Hi as [E|Hi].
  - inversion E; subst. now rewrite str_eqb_refl.
  - destruct (str_eqb_spec n k) as [->|Hn]; [|now apply IH].
    exfalso. apply Hk. apply in_map_iff. exists (k, v). split; [reflexivity|exact Hi].
Qed.
Lemma NoDup_app_intro {X} (l1 l2 : list X) :
  NoDup l1 -> NoDup l2 -> (forall x, In x l1 -> ~ In x l2) -> NoDup (l1 ++ l2).
Proof.
  induction l1 as [|a r IH]; intros H1 H2 Hd; cbn [app]; [exact H2|].
  inversion H1 as [|? ? Ha Hr]; subst. constructor.
  - rewrite in_app_iff. intros [Hi|Hi]; [contradiction|]. apply (Hd a); [now left|exact Hi].
  - apply IH; [exact Hr|exact H2|]. intros x Hx. apply Hd. now right.
Qed.
Lemma skipn_length_app {X} (l1 l2 : list X) : skipn (length l1) (l1 ++ l2) = l2.
Proof. induction l1 as [|a r IH]; cbn [length app skipn]; [reflexivity|exact IH]. Qed.
Lemma firstn_length_app {X} (l1 l2 : list X) : firstn (length l1) (l1 ++ l2) = l1.
Proof. induction l1 as [|a r IH]; cbn [length app firstn]; [now destruct l2|now rewrite IH]. Qed.

(* ====================================================================================== *)
(* 3. the fresh-name loop                                                                  *)
(* ====================================================================================== *)
Section Fresh.
  Variable f : fmt.
  Let AR := get_arguments_all f.

  Lemma fresh_i_spec j : forall fuel i seen,
    NoDup seen -> incl seen (map fst AR) ->
    (forall n, In n seen -> exists k, k < i /\ n = pseudo_name j k) ->
    length AR < length seen + fuel ->
    i <= fresh_i fuel f j i /\ shas (pseudo_name j (fresh_i fuel f j i)) AR = false.
  Proof.
    induction fuel as [|fu IH]; intros i seen Hnd Hincl Hseen Hlen.
    - exfalso. pose proof (NoDup_incl_length Hnd Hincl) as Hle. rewrite map_length in Hle. lia.
    - cbn [fresh_i has_argument get_arguments]. fold AR.
      destruct (shas (pseudo_name j i) AR) eqn:E; [|split; [lia|exact E]].
      destruct (IH (S i) (pseudo_name j i :: seen)) as [Hle Hfr].
      + constructor; [|exact Hnd]. intros Hi. destruct (Hseen _ Hi) as [k [Hk Ek]].
        apply pseudo_name_inj_i in Ek. lia.
      + intros x [<-|Hx]; [now apply shas_in_keys|now apply Hincl].
      + intros n [<-|Hn]; [exists i; split; [lia|reflexivity]|].
        destruct (Hseen _ Hn) as [k [Hk Ek]]. exists k. split; [lia|exact Ek].
      + cbn [length]. lia.
      + split; [lia|exact Hfr].
  Qed.

  Lemma fresh_i_fresh j i :
    let r := fresh_i (S (length AR)) f j i in i <= r /\ shas (pseudo_name j r) AR = false.
  Proof.
    apply (fresh_i_spec j (S (length AR)) i []); [constructor|intros x []|intros n []|cbn [length]; lia].
  Qed.

  Definition parg (n : str) : arg := {| a_name := n; a_flags := REQUIRED_FLAGS; a_default := VNone |}.
  Definition pnames (cns : list cname) (j i : nat) : list str := map (fun p => fst (fst p)) (pseudo_args f cns j i).

  Lemma pseudo_args_args cns : forall j i,
    map (fun p => (fst (fst p), snd (fst p))) (pseudo_args f cns j i) = map (fun n => (n, parg n)) (pnames cns j i).
  Proof.
    unfold pnames. induction cns as [|c r IH]; intros j i; cbn [pseudo_args map fst snd]; [reflexivity|].
    fold AR. rewrite IH. reflexivity.
  Qed.
  Lemma pseudo_args_cns cns : forall j i,
    map fst (map (fun p => (fst (fst p), snd p)) (pseudo_args f cns j i)) = pnames cns j i.
  Proof. intros j i. unfold pnames. rewrite map_map. reflexivity. Qed.
  Lemma pnames_length cns : forall j i, length (pnames cns j i) = length cns.
  Proof.
    unfold pnames. induction cns as [|c r IH]; intros j i; cbn [pseudo_args map length]; [reflexivity|].
    now rewrite IH.
  Qed.

  Lemma pnames_spec cns : forall j i,
    Forall (fun n => shas n AR = false /\ exists j' i', j <= j' /\ i <= i' /\ n = pseudo_name j' i') (pnames cns j i) /\
    NoDup (pnames cns j i).
  Proof.
    unfold pnames. induction cns as [|c r IH]; intros j i; cbn [pseudo_args map fst snd]; [split; constructor|].
    fold AR. destruct (fresh_i_fresh j i) as [Hle Hfr]. cbn zeta in Hle, Hfr.
    set (i1 := fresh_i (S (length AR)) f j i) in *.
    destruct (IH (S j) i1) as [Hall Hnd]. split.
    - constructor.
      + split; [exact Hfr|]. exists j, i1. repeat split; [lia|exact Hle].
      + eapply Forall_impl; [|exact Hall]. cbn beta. intros n [Hn [j' [i' [Hj [Hi En]]]]].
        split; [exact Hn|]. exists j', i'. repeat split; [lia|lia|exact En].
    - constructor; [|exact Hnd]. intros Hi. rewrite Forall_forall in Hall.
      destruct (Hall _ Hi) as [_ [j' [i' [Hj [Hi' En]]]]].
      revert En. apply pseudo_name_distinct; lia.
  Qed.
End Fresh.
